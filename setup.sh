#!/bin/sh
# Build the framework from files on disk only (offline).
set -e
cd "$(dirname "$0")"
export GOFLAGS=-mod=mod GOPROXY=off GOSUMDB=off GOTOOLCHAIN=local CGO_ENABLED=0
(cd extract && go build -o extract . && ./extract -repo "${VERIF_REPO:-/repo}" -out ../lean/Psa/Generated)
(cd lean && lake build)
cp "${VERIF_REPO:-/repo}/go.sum" harness/go.sum
(cd harness && go build -tags verif -o harness .)
echo setup ok
