import Psa.Proofs.EncBound
import Psa.Cbor.Fuel
import Psa.Cbor.Head
namespace Psa.Proofs.Enc
open Psa Psa.Model Psa.Model.Enc

/-! ### reading back what `ToCBOR` wrote -/

def Int64 (k : Int) : Prop := -9223372036854775808 ≤ k ∧ k ≤ 9223372036854775807

/-- a raw value as the serialiser stores it: the encoding of one tag-free item within the decoder's limits -/
def RawItem (raw : Bytes) : Prop := ∃ t : Cbor, raw = t.enc ∧ Cbor.OkAt {} t 0 ∧ Cbor.hasTag t = false

structure RawOK (fs : List (Int × Bytes)) : Prop where
  keys : ∀ p ∈ fs, Int64 p.1
  vals : ∀ p ∈ fs, RawItem p.2

theorem rawFirst_enc (t : Cbor) (rest : Bytes) (h : Cbor.OkAt {} t 0) :
    rawFirst (t.enc ++ rest) = some (t.enc, t, rest) := by
  unfold rawFirst
  rw [Cbor.decodeFirst_enc {} t rest h]
  simp

theorem cInt_ok (k : Int) (h : Int64 k) : Cbor.OkAt {} (cInt k) 0 ∧ Cbor.hasTag (cInt k) = false ∧
    decIntRange (-9223372036854775808) 9223372036854775807 (cInt k) = .ok (some k) := by
  unfold Int64 at h
  unfold cInt Cbor.ofInt
  split
  · refine ⟨by simp only [Cbor.OkAt]; omega, by simp [Cbor.hasTag], ?_⟩
    simp only [decIntRange]
    have : ((k.toNat : Nat) : Int) = k := by omega
    rw [this]; simp [h.2]
  · refine ⟨by simp only [Cbor.OkAt]; omega, by simp [Cbor.hasTag], ?_⟩
    simp only [decIntRange]
    have e : (((-k - 1).toNat : Nat) : Int) = -k - 1 := by omega
    have h1 : (-k - 1).toNat < 2 ^ 63 := by omega
    rw [e]
    have : -1 - (-k - 1) = k := by omega
    rw [this]
    simp [h1, h.1]; omega

def encFields : List (Int × Bytes) → Bytes
  | [] => []
  | (k, v) :: rest => (cInt k).enc ++ v ++ encFields rest

theorem get_of_split (m : OMap) (pre fs : List (Int × Bytes)) (k : Int) (v : Bytes)
    (hs : m.fields = pre ++ (k, v) :: fs) (hn : (m.fields.map (·.1)).Nodup) : m.get k = some v := by
  unfold OMap.get
  rw [hs, List.find?_append]
  have : pre.find? (fun x => x.1 == k) = none := by
    rw [List.find?_eq_none]
    intro x hx hxk
    simp at hxk
    rw [hs] at hn
    simp only [List.map_append, List.map_cons] at hn
    rw [List.nodup_append] at hn
    exact hn.2.2 x.1 (List.mem_map_of_mem hx) k (by simp) hxk
  simp [this]

theorem encEntries_fields (m : OMap) (hn : (m.fields.map (·.1)).Nodup) : ∀ (fs pre : List (Int × Bytes)),
    m.fields = pre ++ fs → encEntries m (fs.map (·.1)) = encFields fs
  | [], _, _ => rfl
  | (k, v) :: fs, pre, hs => by
    simp only [List.map_cons, encEntries, encFields]
    rw [get_of_split m pre fs k v hs hn]
    simp only [Option.getD_some]
    rw [encEntries_fields m hn fs (pre ++ [(k, v)]) (by simp [hs])]

theorem ukv_enc (k : Int) (v rest : Bytes) (acc : OMap) (hk : Int64 k) (hv : RawItem v) (hnew : acc.has k = false) :
    unmarshalKeyValue ((cInt k).enc ++ v ++ rest) acc =
      .ok (rest, { keys := acc.keys ++ [k], fields := acc.fields ++ [(k, v)] }) := by
  obtain ⟨t, rfl, hto, htt⟩ := hv
  obtain ⟨c1, c2, c3⟩ := cInt_ok k hk
  unfold unmarshalKeyValue
  rw [List.append_assoc, rawFirst_enc (cInt k) _ c1]
  simp only [kvTagged, rawFirst_enc t rest hto, c2, htt, Bool.or_self, Bool.false_eq_true, if_false, c3]
  rw [add_ok acc k t.enc hnew]
  rfl

theorem readEntries_enc : ∀ (fs : List (Int × Bytes)) (rest : Bytes) (acc : OMap), RawOK fs →
    ((acc.fields ++ fs).map (·.1)).Nodup →
    readEntries fs.length (encFields fs ++ rest) acc =
      .ok (rest, { keys := acc.keys ++ fs.map (·.1), fields := acc.fields ++ fs })
  | [], rest, acc, _, _ => by simp [readEntries, encFields]
  | (k, v) :: fs, rest, acc, hok, hn => by
    simp only [List.length_cons, readEntries, encFields]
    have hnew : acc.has k = false := by
      cases hh : acc.has k with
      | false => rfl
      | true =>
        rw [has_iff] at hh
        simp only [List.map_append, List.map_cons] at hn
        rw [List.nodup_append] at hn
        exact absurd rfl (hn.2.2 k hh k (by simp))
    have e : (cInt k).enc ++ v ++ encFields fs ++ rest = (cInt k).enc ++ v ++ (encFields fs ++ rest) := by simp
    rw [e, ukv_enc k v _ acc (hok.keys (k, v) (by simp)) (hok.vals (k, v) (by simp)) hnew]
    simp only [Outcome.bind]
    rw [readEntries_enc fs rest _ ⟨fun p hp => hok.keys p (by simp [hp]), fun p hp => hok.vals p (by simp [hp])⟩
      (by simpa using hn)]
    simp

theorem mapHeader_eq_encHead (n : Nat) (h : n < 2 ^ 32) : mapHeader n = Cbor.encHead 5 n := by
  unfold mapHeader Cbor.encHead
  by_cases h0 : n = 0
  · subst h0; simp
  by_cases h1 : n < 24
  · simp [h0, h1]
  by_cases h2 : n < 256
  · have h2' : n ≤ 255 := by omega
    simp [h0, h1, h2, h2']
  by_cases h3 : n < 65536
  · have h2' : ¬ n ≤ 255 := by omega
    have h3' : n ≤ 65535 := by omega
    simp [h0, h1, h2, h2', h3, h3']
  · have h2' : ¬ n ≤ 255 := by omega
    have h3' : ¬ n ≤ 65535 := by omega
    have h4 : n < 4294967296 := by omega
    simp [h0, h1, h2, h2', h3, h3', h4]

/-- what the package's own header reader makes of the header `encHead 5 n` -/
theorem header_read (n : Nat) (hn : n < 2 ^ 32) (rest : Bytes) :
    ∃ b tl, Cbor.encHead 5 n = b :: tl ∧ b.toNat / 32 = 5 ∧ b.toNat % 32 ≠ 31 ∧
      processAdditionalInfo (b.toNat % 32) (tl ++ rest) = .ok (n, rest) := by
  unfold Cbor.encHead
  by_cases h1 : n < 24
  · refine ⟨UInt8.ofNat (5 * 32 + n), [], by simp [h1], ?_, ?_, ?_⟩
    · rw [Cbor.u8]; omega
    · rw [Cbor.u8]; omega
    · rw [Cbor.u8]
      have : (5 * 32 + n) % 256 % 32 = n := by omega
      simp [this, processAdditionalInfo, h1]
  by_cases h2 : n < 256
  · refine ⟨UInt8.ofNat (5 * 32 + 24), [UInt8.ofNat n], by simp [h1, h2], by decide, by decide, ?_⟩
    have : (UInt8.ofNat (5 * 32 + 24)).toNat % 32 = 24 := by decide
    rw [this]
    have e : (UInt8.ofNat n).toNat = n := by rw [Cbor.u8]; omega
    simp [processAdditionalInfo, idx, sliceFrom, Outcome.bind, e]
  by_cases h3 : n < 65536
  · refine ⟨UInt8.ofNat (5 * 32 + 25), beBytes 2 n, by simp [h1, h2, h3], by decide, by decide, ?_⟩
    have : (UInt8.ofNat (5 * 32 + 25)).toNat % 32 = 25 := by decide
    rw [this]
    have hl := beBytes_length 2 n
    have e3 : n % 256 ^ 2 = n := by omega
    have t1 := take_append_len (beBytes 2 n) rest 2 hl
    have t2 := drop_append_len (beBytes 2 n) rest 2 hl
    simp [processAdditionalInfo, sliceTo, sliceFrom, Outcome.bind, hl, t1, t2, beNat_beBytes, e3]
  · have h4 : n < 4294967296 := by omega
    refine ⟨UInt8.ofNat (5 * 32 + 26), beBytes 4 n, by simp [h1, h2, h3, h4], by decide, by decide, ?_⟩
    have : (UInt8.ofNat (5 * 32 + 26)).toNat % 32 = 26 := by decide
    rw [this]
    have hl := beBytes_length 4 n
    have e3 : n % 256 ^ 4 = n := by omega
    have t1 := take_append_len (beBytes 4 n) rest 4 hl
    have t2 := drop_append_len (beBytes 4 n) rest 4 hl
    simp [processAdditionalInfo, sliceTo, sliceFrom, Outcome.bind, hl, t1, t2, beNat_beBytes, e3]

/-- **reading back**: `FromCBOR` applied to what `ToCBOR` wrote returns the very same ordered map —
    for every number of entries below 2³² (all header widths), including none -/
theorem fromCBOR_toCBOR (m : OMap) (hi : OMInv m) (hr : RawOK m.fields) (hn : m.keys.length < 2 ^ 32) :
    fromCBOR m.toCBOR = .ok m := by
  have hnd : (m.fields.map (·.1)).Nodup := by rw [← hi.agree]; exact hi.nodup
  have hlen : m.fields.length = m.keys.length := by rw [hi.agree]; simp
  unfold OMap.toCBOR
  rw [mapHeader_eq_encHead _ hn, hi.agree, encEntries_fields m hnd m.fields [] rfl]
  obtain ⟨b, tl, hb, hmt, hai, hp⟩ := header_read (m.fields.map (·.1)).length (by rw [← hi.agree]; exact hn) (encFields m.fields)
  rw [hb]
  unfold fromCBOR
  have h6 : ¬ b.toNat / 32 = 6 := by omega
  simp only [List.cons_append, List.length_cons, Nat.add_eq_zero_iff, Nat.succ_ne_zero, and_false, if_false, idx,
    List.getElem?_cons_zero, sliceFrom, Outcome.bind, List.drop_succ_cons, List.drop_zero, h6, hmt, hp, hai,
    ne_eq, not_true_eq_false, not_false_eq_true, if_true]
  have hle : 1 ≤ (tl ++ encFields m.fields).length + 1 := by omega
  have h56 : ¬ (5 : Nat) = 6 := by decide
  simp only [hle, if_true, h56, if_false, not_true_eq_false, hp, hai, not_false_eq_true]
  have := readEntries_enc m.fields [] OMap.empty hr (by simpa [OMap.empty] using hnd)
  simp only [List.append_nil] at this
  rw [List.length_map, this]
  simp only [OMap.empty, List.nil_append]
  rw [← hi.agree]

end Psa.Proofs.Enc
