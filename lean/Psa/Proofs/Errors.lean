/- Error classes of getters, validation, setters; `FilterError` on error trees (helpers for C13). -/
import Psa.Proofs.Validate
import Psa.Proofs.Getters
import Psa.Model.GoErr
import Psa.Model.Setters
namespace Psa.Proofs
open Psa Psa.Model Psa.Spec

/-- claim `g` is absent from the claims-set -/
def Absent : Getter → Claims → Prop
  | .profile, c => c.profile = none
  | .clientId, c => c.clientId = none
  | .lifecycle, c => c.lifecycle = none
  | .implId, c => c.implId = none
  | .bootSeed, c => c.bootSeed = none
  | .certRef, c => c.certRef = none
  | .sw, c => c.sw.elems = [] ∧ (c.prof = .p1 → c.noSw = none)
  | .nonce, c => c.nonce = none
  | .instId, c => c.instId = none
  | .vsi, c => c.vsi = none

theorem filterError_err_eq {α} (o : Outcome α) (m : ErrMask) (h : filterError o = .err m) : o = .err m := by
  cases o with
  | ok a => simp [filterError] at h
  | err m' => simp only [filterError] at h; split at h <;> simp_all
  | panic s => simp [filterError] at h

theorem comp_mval_err_class (sc : SwComp) (m : ErrMask) (h : sc.getMeasurementValue = .err m) :
    m = eMissingMandatory ∨ m = eWrongSyntax := by
  unfold SwComp.getMeasurementValue at h
  cases hv : sc.mval with
  | none => rw [hv] at h; simp at h; exact Or.inl h.symm
  | some b =>
    rw [hv] at h
    rcases validateHash_cases b with h' | h' <;> simp [h', Outcome.bind] at h
    exact Or.inr h.symm

theorem comp_signer_err_class (sc : SwComp) (m : ErrMask) (h : sc.getSignerID = .err m) :
    m = eMissingMandatory ∨ m = eWrongSyntax := by
  unfold SwComp.getSignerID at h
  cases hv : sc.signer with
  | none => rw [hv] at h; simp at h; exact Or.inl h.symm
  | some b =>
    rw [hv] at h
    rcases validateHash_cases b with h' | h' <;> simp [h', Outcome.bind] at h
    exact Or.inr h.symm

theorem comp_validate_err_class (sc : SwComp) (m : ErrMask) (h : sc.validate = .err m) :
    m = eMissingMandatory ∨ m = eWrongSyntax := by
  have h1 : filterError sc.getMeasurementType = .ok () := by
    unfold SwComp.getMeasurementType; cases sc.mtype <;> simp [filterError, filtered, eMissingOptional]
  have h2 : filterError sc.getVersion = .ok () := by
    unfold SwComp.getVersion; cases sc.version <;> simp [filterError, filtered, eMissingOptional]
  have h3 : filterError sc.getMeasurementDesc = .ok () := by
    unfold SwComp.getMeasurementDesc; cases sc.mdesc <;> simp [filterError, filtered, eMissingOptional]
  unfold SwComp.validate at h
  rw [h1] at h; simp only [Outcome.bind] at h
  rcases bind_unit_err _ _ _ h with h | ⟨_, h⟩
  · exact comp_mval_err_class sc m (filterError_err_eq _ _ h)
  rw [h2] at h; simp only [Outcome.bind] at h
  rcases bind_unit_err _ _ _ h with h | ⟨_, h⟩
  · exact comp_signer_err_class sc m (filterError_err_eq _ _ h)
  rw [h3] at h; cases h

theorem valuesOf_err_class (l : List (Option SwComp)) (m : ErrMask) (h : valuesOf l = .err m) :
    m = eMissingMandatory ∨ m = eWrongSyntax := by
  induction l with
  | nil => simp [valuesOf] at h
  | cons x xs ih =>
    cases x with
    | none => simp [valuesOf] at h; exact Or.inr h.symm
    | some sc =>
      simp only [valuesOf] at h
      cases hv : sc.validate with
      | ok u =>
        rw [hv] at h; simp only [] at h
        cases hr : valuesOf xs with
        | ok r => rw [hr] at h; simp [Outcome.bind] at h
        | err m' => rw [hr] at h; simp [Outcome.bind] at h; subst h; exact ih hr
        | panic s => rw [hr] at h; simp [Outcome.bind] at h
      | err m' => rw [hv] at h; simp at h; subst h; exact comp_validate_err_class sc _ hv
      | panic s => rw [hv] at h; simp at h

end Psa.Proofs

namespace Psa.Proofs
open Psa Psa.Model Psa.Spec

/-- an absent claim: missing-mandatory for a mandatory claim, missing-optional for an optional one
    (profile 1's profile claim is the one exception: absent means "canonical") -/
theorem absent_class (g : Getter) (c : Claims) (h : Absent g c) (hx : ¬ (g = .profile ∧ c.prof = .p1)) :
    Model.get g c = .err (if Mandatory c.prof g then eMissingMandatory else eMissingOptional) := by
  obtain ⟨prof, canonical, profile, clientId, lifecycle, implId, bootSeed, certRef, sw, noSw, nonce, instId, vsi⟩ := c
  cases g <;> simp only [Absent] at h <;> simp only [Model.get, Mandatory]
  · cases prof <;> simp_all [getProfile]
  · simp [getClientID, h]
  · simp [getSecurityLifeCycle, h]
  · simp [getImplID, h]
  · cases prof <;> simp [getBootSeed, h]
  · simp [getCertificationReference, h]
  · obtain ⟨h1, h2⟩ := h
    cases prof <;> simp_all [getSoftwareComponents, SwField.nilOrEmpty]
  · simp [getNonce, h]
  · simp [getInstID, h]
  · simp [getVSI, h]

/-- a present but unacceptable claim: wrong-profile for the profile claim, wrong-syntax otherwise
    (for the component list also missing-mandatory, when a component lacks a mandatory field) -/
theorem present_err_class (g : Getter) (c : Claims) (m : ErrMask) (hne : ¬ Absent g c)
    (hp : c.profile ≠ some .invalid) (h : Model.get g c = .err m) :
    (g = .profile → m = eWrongProfile) ∧
    (g ≠ .profile → m = eWrongSyntax ∨ (g = .sw ∧ m = eMissingMandatory)) := by
  obtain ⟨prof, canonical, profile, clientId, lifecycle, implId, bootSeed, certRef, sw, noSw, nonce, instId, vsi⟩ := c
  cases g <;> simp only [Absent] at hne <;> simp only [Model.get] at h <;> simp
  · unfold getProfile at h; simp only [] at h
    cases prof <;> cases profile with
    | none => simp at hne
    | some pv =>
      cases pv with
      | invalid => simp at hp
      | str s => simp only [] at h; split at h <;> simp at h; exact h.symm
  · unfold getClientID at h; cases clientId <;> simp_all
  · unfold getSecurityLifeCycle at h
    cases lifecycle with
    | none => simp at hne
    | some x => rcases validateLC_cases x with h' | h' <;> simp [h', Outcome.bind] at h; exact h.symm
  · unfold getImplID validateImplID at h
    cases implId with
    | none => simp at hne
    | some x => simp only [] at h; split at h <;> simp [Outcome.bind] at h; exact h.symm
  · unfold getBootSeed at h; simp only [] at h
    cases prof <;> cases bootSeed with
    | none => simp at hne
    | some x => simp only [] at h; split at h <;> simp at h; exact h.symm
  · unfold getCertificationReference at h; simp only [] at h
    cases certRef with
    | none => simp at hne
    | some s => cases prof <;> simp only [] at h <;> split at h <;> simp at h <;> exact h.symm
  · unfold getSoftwareComponents at h; simp only [] at h
    cases prof <;> simp only [] at h
    · split at h
      · rename_i he
        cases noSw with
        | none => simp [SwField.nilOrEmpty] at he; simp [he] at hne
        | some n => simp at h
      · cases noSw with
        | some n => simp at h; exact Or.inl h.symm
        | none =>
          simp only [] at h
          cases hv : valuesOf sw.elems with
          | ok l => simp [hv, Outcome.bind] at h
          | err m' =>
            simp [hv, Outcome.bind] at h; subst h
            rcases valuesOf_err_class _ _ hv with h' | h' <;> simp [h']
          | panic s => simp [hv, Outcome.bind] at h
    · split at h
      · rename_i he; simp [SwField.nilOrEmpty] at he; simp [he] at hne
      · cases hv : valuesOf sw.elems with
        | ok l => simp [hv, Outcome.bind] at h
        | err m' =>
          simp [hv, Outcome.bind] at h; subst h
          rcases valuesOf_err_class _ _ hv with h' | h' <;> simp [h']
        | panic s => simp [hv, Outcome.bind] at h
  · unfold getNonce validateNonce at h
    cases nonce with
    | none => simp at hne
    | some l =>
      match l, h with
      | [], h => simp at h; exact h.symm
      | [n], h => rcases validateHash_cases n with h' | h' <;> simp [h', Outcome.bind] at h; exact h.symm
      | a :: b :: r, h => simp at h; exact h.symm
  · unfold getInstID at h
    cases instId with
    | none => simp at hne
    | some x => rcases validateInstID_cases x with h' | h' <;> simp [h', Outcome.bind] at h; exact h.symm
  · unfold getVSI validateVSI at h
    cases vsi with
    | none => simp at hne
    | some x => cases x <;> simp [Outcome.bind] at h; exact h.symm

end Psa.Proofs

namespace Psa.Proofs
open Psa Psa.Model Psa.Spec

/-- a validation error is the (unfiltered) error of some getter in the walk — the first offending one -/
theorem validateWith_err (o : List Getter) (c : Claims) (m : ErrMask) (h : validateWith o c = .err m) :
    ∃ g ∈ o, Model.get g c = .err m ∧ filtered m = false := by
  induction o with
  | nil => simp [validateWith] at h
  | cons g rest ih =>
    simp only [validateWith] at h
    cases hf : filterError (get g c) with
    | ok a =>
      rw [hf] at h
      obtain ⟨g', hg', hr⟩ := ih h
      exact ⟨g', by simp [hg'], hr⟩
    | err m' =>
      rw [hf] at h; simp at h; subst h
      exact ⟨g, by simp, filterError_err_eq _ _ hf, filterError_err_unfiltered _ _ hf⟩
    | panic s => rw [hf] at h; simp at h

/-! ### FilterError on error trees -/

theorem filtered_mask (e : GoErr) :
    filtered e.mask = (e.is .missingOptional || e.is .notInProfile) := by
  unfold filtered GoErr.mask
  cases e.is .missingOptional <;> cases e.is .missingMandatory <;> cases e.is .notInProfile <;>
    cases e.is .wrongProfile <;> cases e.is .wrongSyntax <;> decide

/-! ### setters -/

theorem validateAndConvert_err_class (l : List SwComp) (m : ErrMask) (h : validateAndConvert l = .err m) :
    m = eMissingMandatory ∨ m = eWrongSyntax := by
  induction l with
  | nil => simp [validateAndConvert] at h
  | cons sc xs ih =>
    simp only [validateAndConvert] at h
    cases hv : sc.validate with
    | ok u =>
      rw [hv] at h; simp only [] at h
      cases hr : validateAndConvert xs with
      | ok r => rw [hr] at h; simp [Outcome.bind] at h
      | err m' => rw [hr] at h; simp [Outcome.bind] at h; subst h; exact ih hr
      | panic s => rw [hr] at h; simp [Outcome.bind] at h
    | err m' => rw [hv] at h; simp at h; subst h; exact comp_validate_err_class sc _ hv
    | panic s => rw [hv] at h; simp at h

end Psa.Proofs
