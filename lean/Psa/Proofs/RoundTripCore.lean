import Psa.Model.Codec
import Psa.Spec.Wire
import Psa.Proofs.WireShape
import Psa.Spec.Conformant
namespace Psa.Proofs.RT
open Psa Psa.Model Psa.Spec

/-- the stores a well-formed wire token causes, in key order; fails as soon as one store fails -/
def foldSet {σ} (fk : List Int) (set : σ → Int → Cbor → Dec σ) (val : Int → Option Cbor) : List Int → σ → Dec σ
  | [], s => .ok s
  | k :: ks, s =>
    match val k with
    | none => foldSet fk set val ks s
    | some v =>
      if fk.contains k then
        match set s k v with
        | .ok s' => foldSet fk set val ks s'
        | .err => .err
        | .ood => .ood
      else foldSet fk set val ks s

def I64 (k : Int) : Prop := -2 ^ 63 ≤ k ∧ k < 2 ^ 63

theorem keyRes_cInt (k : Int) (h : I64 k) : keyRes (cInt k) = .int k := by
  unfold I64 at h
  unfold cInt Cbor.ofInt
  split
  · simp only [keyRes]
    have h1 : k.toNat < 2 ^ 63 := by omega
    have h2 : ((k.toNat : Nat) : Int) = k := by omega
    simp [h1, h2]
  · simp only [keyRes]
    have h1 : (-k - 1).toNat < 2 ^ 63 := by omega
    have h2 : (((-k - 1).toNat : Nat) : Int) = -k - 1 := by omega
    simp only [h1, if_true, h2]
    congr 1; omega

theorem structFold_entriesOf {σ} (fk : List Int) (set : σ → Int → Cbor → Dec σ) (val : Int → Option Cbor) :
    ∀ (keys : List Int) (s : DState σ) (r : σ), keys.Nodup → (∀ k ∈ keys, I64 k) → (∀ k ∈ keys, k ∉ s.found) →
      s.bad = false → s.ood = false → foldSet fk set val keys s.val = .ok r →
      ∃ st, (entriesOf keys val).foldl (structStep fk set) s = st ∧ st.val = r ∧ st.bad = false ∧ st.ood = false
  | [], s, r, _, _, _, hb, ho, h => by
    simp only [foldSet, Dec.ok.injEq] at h
    exact ⟨s, by simp [entriesOf], h, hb, ho⟩
  | k :: ks, s, r, hnd, hr, hf, hb, ho, h => by
    simp only [List.nodup_cons] at hnd
    simp only [foldSet] at h
    cases hv : val k with
    | none =>
      simp only [hv] at h
      have : entriesOf (k :: ks) val = entriesOf ks val := by simp [entriesOf, List.filterMap_cons, hv]
      rw [this]
      exact structFold_entriesOf fk set val ks s r hnd.2 (fun x hx => hr x (by simp [hx])) (fun x hx => hf x (by simp [hx])) hb ho h
    | some v =>
      simp only [hv] at h
      have he : entriesOf (k :: ks) val = (cInt k, v) :: entriesOf ks val := by simp [entriesOf, List.filterMap_cons, hv]
      rw [he, List.foldl_cons]
      have hkr := keyRes_cInt k (hr k (by simp))
      by_cases hc : fk.contains k = true
      · simp only [hc, if_true] at h
        have hnf : s.found.contains k = false := by
          have := hf k (by simp)
          simpa using this
        cases hs : set s.val k v with
        | err => simp [hs] at h
        | ood => simp [hs] at h
        | ok s' =>
          simp only [hs] at h
          have hstep : structStep fk set s (cInt k, v) = { s with val := s', found := k :: s.found } := by
            simp only [structStep, hkr, selectField, hc, if_true, hnf, Bool.false_eq_true, if_false, hs]
          rw [hstep]
          apply structFold_entriesOf fk set val ks _ r hnd.2 (fun x hx => hr x (by simp [hx]))
          · intro x hx
            simp only [List.mem_cons, not_or]
            exact ⟨fun hxk => hnd.1 (hxk ▸ hx), hf x (by simp [hx])⟩
          · exact hb
          · exact ho
          · exact h
      · have hc' : fk.contains k = false := by simpa using hc
        simp only [hc', Bool.false_eq_true, if_false] at h
        have hstep : structStep fk set s (cInt k, v) = s := by
          simp only [structStep, hkr, selectField, hc', Bool.false_eq_true, if_false]
        rw [hstep]
        exact structFold_entriesOf fk set val ks s r hnd.2 (fun x hx => hr x (by simp [hx])) (fun x hx => hf x (by simp [hx])) hb ho h

/-- decoding a wire token (entries under distinct integer keys, in any key order) is the sequence of its stores -/
theorem structDecode_entriesOf {σ} (fk : List Int) (set : σ → Int → Cbor → Dec σ) (val : Int → Option Cbor)
    (keys : List Int) (init r : σ) (hnd : keys.Nodup) (hr : ∀ k ∈ keys, I64 k)
    (h : foldSet fk set val keys init = .ok r) : structDecode fk set init (entriesOf keys val) = .ok r := by
  obtain ⟨st, h1, h2, h3, h4⟩ := structFold_entriesOf fk set val keys { val := init, found := [], bad := false, ood := false } r
    hnd hr (fun _ _ => by simp) rfl rfl h
  unfold structDecode
  simp only [h1, h4, h3, Bool.false_eq_true, if_false, h2]

/-! ### values read back as themselves -/

theorem decText_tstr (s : Bytes) (h : validUTF8 s = true) : decText (.tstr s) = .ok (some s) := by
  simp [decText, h]

theorem decBytes_bstr (b : Bytes) : decBytesVal (.bstr b) = .ok (some b) := rfl

theorem decInt_cInt (lo hi i : Int) (h1 : lo ≤ i) (h2 : i ≤ hi) (hlo : -2 ^ 63 ≤ lo) :
    decIntRange lo hi (cInt i) = .ok (some i) := by
  unfold cInt Cbor.ofInt
  split
  · simp only [decIntRange]
    have e : ((i.toNat : Nat) : Int) = i := by omega
    rw [e]; simp [h2]
  · simp only [decIntRange]
    have e : (((-i - 1).toNat : Nat) : Int) = -i - 1 := by omega
    have n63 : (-i - 1).toNat < 2 ^ 63 := by omega
    rw [e]
    have e2 : -1 - (-i - 1) = i := by omega
    rw [e2]
    have : lo < 0 := by omega
    have n63' : (-i - 1).toNat < 9223372036854775808 := by omega
    simp only [this, n63', h1, and_self, if_true]

theorem decInt_uint (hi : Int) (v : Nat) (h : (v : Int) ≤ hi) : decIntRange 0 hi (.uint v) = .ok (some (v : Int)) := by
  simp [decIntRange, h]

/-- all free-text fields of a component are valid UTF-8 (what the decoder insists on; recorded finding D10 is the
    claims-set that violates this) -/
def CompTextOK (sc : SwComp) : Prop :=
  (∀ s, sc.mtype = some s → validUTF8 s = true) ∧ (∀ s, sc.version = some s → validUTF8 s = true) ∧
  (∀ s, sc.mdesc = some s → validUTF8 s = true)

theorem compKeyOrder_i64 : ∀ k ∈ compKeyOrder, I64 k := by
  intro k hk; simp only [compKeyOrder, List.mem_cons, List.mem_nil_iff, or_false] at hk
  rcases hk with rfl | rfl | rfl | rfl | rfl <;> (unfold I64; omega)

/-- one component: decoding its wire form gives it back -/
theorem decCompElem_compWire (sc : SwComp) (ht : CompTextOK sc) : decCompElem (compWire sc) = .ok (some sc) := by
  unfold compWire decCompElem
  have hfold : foldSet compKeys setComp (compWireVal sc) compKeyOrder emptyComp = .ok sc := by
    obtain ⟨mtype, mval, version, signer, mdesc⟩ := sc
    obtain ⟨t1, t2, t3⟩ := ht
    simp only [] at t1 t2 t3
    simp only [compKeyOrder, foldSet, compWireVal, compKeys]
    cases mtype <;> cases mval <;> cases version <;> cases signer <;> cases mdesc <;>
      simp [setComp, decText, decBytesVal, Dec.map, Dec.bind, emptyComp, t1, t2, t3, foldSet] <;>
      simp_all
  simp only []
  rw [structDecode_entriesOf compKeys setComp (compWireVal sc) compKeyOrder emptyComp sc (by decide) compKeyOrder_i64 hfold]
  rfl

theorem decAll_comps : ∀ (l : List SwComp), (∀ sc ∈ l, CompTextOK sc) →
    decAll decCompElem (l.map compWire) = .ok (l.map some)
  | [], _ => rfl
  | sc :: l, h => by
    simp only [List.map_cons, decAll]
    rw [decCompElem_compWire sc (h sc (by simp)), decAll_comps l (fun x hx => h x (by simp [hx]))]

theorem decSw_compsWire (x : Option (List (Option SwComp))) (l : List SwComp) (h : ∀ sc ∈ l, CompTextOK sc) :
    decSwField (.cont x) (compsWire l) = .ok (.cont (some (l.map some))) := by
  simp [decSwField, compsWire, decCompsVal, decAll_comps l h, Dec.map, Dec.bind]


theorem foldSet_cons {σ} (fk : List Int) (set : σ → Int → Cbor → Dec σ) (val : Int → Option Cbor) (k : Int)
    (ks : List Int) (s : σ) :
    foldSet fk set val (k :: ks) s =
      (match val k with
       | none => Dec.ok s
       | some v => if fk.contains k then set s k v else .ok s).bind (foldSet fk set val ks) := by
  simp only [foldSet]
  cases val k with
  | none => rfl
  | some v =>
    simp only []
    split
    · cases set s k v <;> rfl
    · rfl

/-- all free text of the claims-set is valid UTF-8 -/
def TextOK (c : Claims) : Prop :=
  (∀ s, c.profile = some (.str s) → validUTF8 s = true) ∧ (∀ s, c.certRef = some s → validUTF8 s = true) ∧
  (∀ s, c.vsi = some s → validUTF8 s = true) ∧ (∀ sc ∈ heldComps c.sw, CompTextOK sc)

/-- what the component field looks like after a round trip: the same components in a fresh container -/
def rtSw (f : SwField) : SwField := if f.elems.isEmpty then .cont none else .cont (some ((heldComps f).map some))

/-- the claims-set after encode-then-decode -/
def rt (c : Claims) : Claims := { c with sw := rtSw c.sw }

def profStr : Option ProfVal → Option Bytes
  | some (.str s) => some s
  | _ => none

def single : Option (List Bytes) → Option Bytes
  | some [b] => some b
  | _ => none

/-! profile 1, key by key -/
section P1
variable (c : Claims) (hp : c.prof = .p1)
include hp

theorem wv1_0 : wireVal c (-75000) = (profStr c.profile).map .tstr := by
  simp only [wireVal, hp, if_true]
  cases c.profile with
  | none => rfl
  | some v => cases v <;> rfl
theorem wv1_1 : wireVal c (-75001) = c.clientId.map cInt := by simp [wireVal, hp]
theorem wv1_2 : wireVal c (-75002) = c.lifecycle.map .uint := by simp [wireVal, hp]
theorem wv1_3 : wireVal c (-75003) = c.implId.map .bstr := by simp [wireVal, hp]
theorem wv1_4 : wireVal c (-75004) = c.bootSeed.map .bstr := by simp [wireVal, hp]
theorem wv1_5 : wireVal c (-75005) = c.certRef.map .tstr := by simp [wireVal, hp]
theorem wv1_6 : wireVal c (-75006) = (if c.sw.elems.isEmpty then none else some (compsWire (heldComps c.sw))) := by
  simp [wireVal, hp]
theorem wv1_7 : wireVal c (-75007) = c.noSw.map .uint := by simp [wireVal, hp]
theorem wv1_8 : wireVal c (-75008) = (single c.nonce).map .bstr := by
  simp [wireVal, hp]
  cases c.nonce with
  | none => rfl
  | some l =>
    cases l with
    | nil => rfl
    | cons a t => cases t <;> rfl
theorem wv1_9 : wireVal c (-75009) = c.instId.map .bstr := by simp [wireVal, hp]
theorem wv1_10 : wireVal c (-75010) = c.vsi.map .tstr := by simp [wireVal, hp]
end P1


def st1 (profile : Option ProfVal) (clientId : Option Int) (lifecycle : Option Nat) (implId bootSeed certRef : Option Bytes)
    (sw : SwField) (noSw : Option Nat) (nonce : Option (List Bytes)) (instId vsi : Option Bytes) : Claims :=
  { prof := .p1, canonical := p1Name, profile := profile, clientId := clientId, lifecycle := lifecycle, implId := implId,
    bootSeed := bootSeed, certRef := certRef, sw := sw, noSw := noSw, nonce := nonce, instId := instId, vsi := vsi }

theorem step_generic {σ α} (fk : List Int) (set : σ → Int → Cbor → Dec σ) (k : Int) (s : σ) (o : Option α)
    (enc : α → Cbor) (upd : Option α → σ) (hk : fk.contains k = true) (hnone : upd none = s)
    (hsome : ∀ a, o = some a → set s k (enc a) = .ok (upd (some a))) :
    (match o.map enc with
     | none => Dec.ok s
     | some v => if fk.contains k then set s k v else .ok s) = .ok (upd o) := by
  cases o with
  | none => simp [hnone]
  | some a => simp only [Option.map_some]; rw [if_pos hk]; exact hsome a rfl

theorem step_opt {σ} (fk : List Int) (set : σ → Int → Cbor → Dec σ) (k : Int) (s r : σ) (o : Option Cbor)
    (hk : fk.contains k = true) (hnone : o = none → r = s) (hsome : ∀ v, o = some v → set s k v = .ok r) :
    (match o with
     | none => Dec.ok s
     | some v => if fk.contains k then set s k v else .ok s) = .ok r := by
  cases o with
  | none => simp [hnone rfl]
  | some v => simp only []; rw [if_pos hk]; exact hsome v rfl

theorem p1_fold (c : Claims) (hp : c.prof = .p1) (hb : ClaimsBounded c) (ht : TextOK c) :
    foldSet p1Keys setP1 (wireVal c) p1KeyOrder { (Claims.new .p1) with profile := none } =
      .ok (st1 ((profStr c.profile).map .str) c.clientId c.lifecycle c.implId c.bootSeed c.certRef (rtSw c.sw) c.noSw
        ((single c.nonce).map fun b => [b]) c.instId c.vsi) := by
  obtain ⟨b1, b2, b3, _, _, _, _, _, _, _, _, _⟩ := hb
  obtain ⟨t1, t2, t3, t4⟩ := ht
  have e0 : ({ (Claims.new .p1) with profile := none } : Claims) =
      st1 none none none none none none (.cont none) none none none none := rfl
  rw [e0]
  unfold p1KeyOrder
  have hps : ∀ s, profStr c.profile = some s → validUTF8 s = true := by
    intro s h
    apply t1
    cases hc : c.profile with
    | none => simp [hc, profStr] at h
    | some v => cases v <;> simp_all [profStr]
  -- -75000 profile
  rw [foldSet_cons, wv1_0 c hp,
    step_generic p1Keys setP1 (-75000) (st1 none none none none none none (.cont none) none none none none) (profStr c.profile) Cbor.tstr
      (fun x => st1 (x.map .str) none none none none none (.cont none) none none none none) (by decide) rfl
      (fun a ha => by simp [setP1, decText, hps a ha, Dec.map, Dec.bind, st1])]
  simp only [Dec.bind]
  -- -75001 client id
  rw [foldSet_cons, wv1_1 c hp,
    step_generic p1Keys setP1 (-75001) (st1 ((profStr c.profile).map .str) none none none none none (.cont none) none none none none) c.clientId cInt
      (fun x => st1 ((profStr c.profile).map .str) x none none none none (.cont none) none none none none) (by decide) rfl
      (fun a ha => by
        have := b1 a ha
        simp [setP1, decInt_cInt (-2147483648) 2147483647 a this.1 this.2 (by omega), Dec.map, Dec.bind, st1])]
  simp only [Dec.bind]
  -- -75002 lifecycle
  rw [foldSet_cons, wv1_2 c hp,
    step_generic p1Keys setP1 (-75002) (st1 ((profStr c.profile).map .str) c.clientId none none none none (.cont none) none none none none) c.lifecycle Cbor.uint
      (fun x => st1 ((profStr c.profile).map .str) c.clientId x none none none (.cont none) none none none none) (by decide) rfl
      (fun a ha => by
        have := b2 a ha
        simp [setP1, decInt_uint 65535 a (by omega), Dec.map, Dec.bind, st1])]
  simp only [Dec.bind]
  -- -75003 implementation id
  rw [foldSet_cons, wv1_3 c hp,
    step_generic p1Keys setP1 (-75003) (st1 ((profStr c.profile).map .str) c.clientId c.lifecycle none none none (.cont none) none none none none) c.implId Cbor.bstr
      (fun x => st1 ((profStr c.profile).map .str) c.clientId c.lifecycle x none none (.cont none) none none none none) (by decide) rfl
      (fun a _ => by simp [setP1, decBytesVal, Dec.map, Dec.bind, st1])]
  simp only [Dec.bind]
  -- -75004 boot seed
  rw [foldSet_cons, wv1_4 c hp,
    step_generic p1Keys setP1 (-75004) (st1 ((profStr c.profile).map .str) c.clientId c.lifecycle c.implId none none (.cont none) none none none none) c.bootSeed Cbor.bstr
      (fun x => st1 ((profStr c.profile).map .str) c.clientId c.lifecycle c.implId x none (.cont none) none none none none) (by decide) rfl
      (fun a _ => by simp [setP1, decBytesVal, Dec.map, Dec.bind, st1])]
  simp only [Dec.bind]
  -- -75005 certification reference
  rw [foldSet_cons, wv1_5 c hp,
    step_generic p1Keys setP1 (-75005) (st1 ((profStr c.profile).map .str) c.clientId c.lifecycle c.implId c.bootSeed none (.cont none) none none none none) c.certRef Cbor.tstr
      (fun x => st1 ((profStr c.profile).map .str) c.clientId c.lifecycle c.implId c.bootSeed x (.cont none) none none none none) (by decide) rfl
      (fun a ha => by simp [setP1, decText, t2 a ha, Dec.map, Dec.bind, st1])]
  simp only [Dec.bind]
  -- -75006 software components
  rw [foldSet_cons, wv1_6 c hp]
  have h6 : (match (if c.sw.elems.isEmpty then none else some (compsWire (heldComps c.sw))) with
      | none => Dec.ok (st1 ((profStr c.profile).map .str) c.clientId c.lifecycle c.implId c.bootSeed c.certRef (.cont none) none none none none)
      | some v => if p1Keys.contains (-75006) then
          setP1 (st1 ((profStr c.profile).map .str) c.clientId c.lifecycle c.implId c.bootSeed c.certRef (.cont none) none none none none) (-75006) v
        else .ok (st1 ((profStr c.profile).map .str) c.clientId c.lifecycle c.implId c.bootSeed c.certRef (.cont none) none none none none)) =
      .ok (st1 ((profStr c.profile).map .str) c.clientId c.lifecycle c.implId c.bootSeed c.certRef (rtSw c.sw) none none none none) := by
    unfold rtSw
    cases he : c.sw.elems.isEmpty with
    | true => simp
    | false =>
      simp only [Bool.false_eq_true, if_false]
      have : p1Keys.contains (-75006) = true := by decide
      simp only [this, if_true]
      have hd := decSw_compsWire none (heldComps c.sw) t4
      simp [setP1, st1, hd, Dec.map, Dec.bind]
  rw [h6]
  simp only [Dec.bind]
  -- -75007 no-measurements flag
  rw [foldSet_cons, wv1_7 c hp,
    step_generic p1Keys setP1 (-75007) (st1 ((profStr c.profile).map .str) c.clientId c.lifecycle c.implId c.bootSeed c.certRef (rtSw c.sw) none none none none) c.noSw Cbor.uint
      (fun x => st1 ((profStr c.profile).map .str) c.clientId c.lifecycle c.implId c.bootSeed c.certRef (rtSw c.sw) x none none none) (by decide) rfl
      (fun a ha => by
        have := b3 a ha
        simp [setP1, decInt_uint 18446744073709551615 a (by omega), Dec.map, Dec.bind, st1])]
  simp only [Dec.bind]
  -- -75008 nonce
  rw [foldSet_cons, wv1_8 c hp,
    step_generic p1Keys setP1 (-75008) (st1 ((profStr c.profile).map .str) c.clientId c.lifecycle c.implId c.bootSeed c.certRef (rtSw c.sw) c.noSw none none none) (single c.nonce) Cbor.bstr
      (fun x => st1 ((profStr c.profile).map .str) c.clientId c.lifecycle c.implId c.bootSeed c.certRef (rtSw c.sw) c.noSw (x.map fun b => [b]) none none) (by decide) rfl
      (fun a _ => by simp [setP1, decBytesVal, Dec.map, Dec.bind, st1])]
  simp only [Dec.bind]
  -- -75009 instance id
  rw [foldSet_cons, wv1_9 c hp,
    step_generic p1Keys setP1 (-75009) (st1 ((profStr c.profile).map .str) c.clientId c.lifecycle c.implId c.bootSeed c.certRef (rtSw c.sw) c.noSw ((single c.nonce).map fun b => [b]) none none) c.instId Cbor.bstr
      (fun x => st1 ((profStr c.profile).map .str) c.clientId c.lifecycle c.implId c.bootSeed c.certRef (rtSw c.sw) c.noSw ((single c.nonce).map fun b => [b]) x none) (by decide) rfl
      (fun a _ => by simp [setP1, decBytesVal, Dec.map, Dec.bind, st1])]
  simp only [Dec.bind]
  -- -75010 verification service indicator
  rw [foldSet_cons, wv1_10 c hp,
    step_generic p1Keys setP1 (-75010) (st1 ((profStr c.profile).map .str) c.clientId c.lifecycle c.implId c.bootSeed c.certRef (rtSw c.sw) c.noSw ((single c.nonce).map fun b => [b]) c.instId none) c.vsi Cbor.tstr
      (fun x => st1 ((profStr c.profile).map .str) c.clientId c.lifecycle c.implId c.bootSeed c.certRef (rtSw c.sw) c.noSw ((single c.nonce).map fun b => [b]) c.instId x) (by decide) rfl
      (fun a ha => by simp [setP1, decText, t3 a ha, Dec.map, Dec.bind, st1])]
  simp only [Dec.bind, foldSet]


def nonceWire : Option (List Bytes) → Option Cbor
  | some [b] => some (.bstr b)
  | some (a :: b :: r) => some (.arr ((a :: b :: r).map .bstr))
  | _ => none

/-- an empty nonce list is not emitted, so it comes back absent -/
def nonceRt : Option (List Bytes) → Option (List Bytes)
  | some [] => none
  | x => x

section P2
variable (c : Claims) (hp : c.prof = .p2)
include hp
theorem wv2_0 : wireVal c 265 = (profStr c.profile).map .tstr := by
  simp only [wireVal, hp, if_true]
  cases c.profile with
  | none => rfl
  | some v => cases v <;> rfl
theorem wv2_1 : wireVal c 2394 = c.clientId.map cInt := by simp [wireVal, hp]
theorem wv2_2 : wireVal c 2395 = c.lifecycle.map .uint := by simp [wireVal, hp]
theorem wv2_3 : wireVal c 2396 = c.implId.map .bstr := by simp [wireVal, hp]
theorem wv2_4 : wireVal c 2397 = c.bootSeed.map .bstr := by simp [wireVal, hp]
theorem wv2_5 : wireVal c 2398 = c.certRef.map .tstr := by simp [wireVal, hp]
theorem wv2_6 : wireVal c 2399 = (if c.sw.elems.isEmpty then none else some (compsWire (heldComps c.sw))) := by
  simp [wireVal, hp]
theorem wv2_7 : wireVal c 10 = nonceWire c.nonce := by
  simp [wireVal, hp]
  cases c.nonce with
  | none => rfl
  | some l =>
    cases l with
    | nil => rfl
    | cons a t => cases t <;> rfl
theorem wv2_8 : wireVal c 256 = c.instId.map .bstr := by simp [wireVal, hp]
theorem wv2_9 : wireVal c 2400 = c.vsi.map .tstr := by simp [wireVal, hp]
end P2

def st2 (profile : Option ProfVal) (clientId : Option Int) (lifecycle : Option Nat) (implId bootSeed certRef : Option Bytes)
    (sw : SwField) (nonce : Option (List Bytes)) (instId vsi : Option Bytes) : Claims :=
  { prof := .p2, canonical := p2Name, profile := profile, clientId := clientId, lifecycle := lifecycle, implId := implId,
    bootSeed := bootSeed, certRef := certRef, sw := sw, noSw := none, nonce := nonce, instId := instId, vsi := vsi }

theorem decAll_nonces : ∀ l : List Bytes, decAll decNonceElem (l.map .bstr) = .ok l
  | [] => rfl
  | b :: l => by
    simp only [List.map_cons, decAll, decAll_nonces l]
    simp [decNonceElem, decBytesVal, Dec.map, Dec.bind]

theorem decEatNonce_wire (n : Option (List Bytes)) (v : Cbor) (h : nonceWire n = some v) : decEatNonce v = .ok (nonceRt n) := by
  cases n with
  | none => simp [nonceWire] at h
  | some l =>
    cases l with
    | nil => simp [nonceWire] at h
    | cons a t =>
      cases t with
      | nil =>
        simp only [nonceWire, Option.some.injEq] at h; subst h
        simp [decEatNonce, decNonceElem, decBytesVal, Dec.map, Dec.bind, nonceRt]
      | cons b r =>
        simp only [nonceWire, Option.some.injEq] at h; subst h
        have := decAll_nonces (a :: b :: r)
        simp only [decEatNonce, this, Dec.map, Dec.bind, nonceRt]

theorem p2_fold (u : Bytes → Dec Bytes) (c : Claims) (hp : c.prof = .p2) (hb : ClaimsBounded c) (ht : TextOK c)
    (hu : ∀ s, profStr c.profile = some s → u s = .ok s) :
    foldSet p2Keys (setP2 u) (wireVal c) p2KeyOrder { (Claims.new .p2) with profile := none } =
      .ok (st2 ((profStr c.profile).map .str) c.clientId c.lifecycle c.implId c.bootSeed c.certRef (rtSw c.sw)
        (nonceRt c.nonce) c.instId c.vsi) := by
  obtain ⟨b1, b2, b3, _, _, _, _, _, _, _, _, _⟩ := hb
  obtain ⟨t1, t2, t3, t4⟩ := ht
  have e0 : ({ (Claims.new .p2) with profile := none } : Claims) =
      st2 none none none none none none (.cont none) none none none := rfl
  rw [e0]
  unfold p2KeyOrder
  have hps : ∀ s, profStr c.profile = some s → validUTF8 s = true := by
    intro s h
    apply t1
    cases hc : c.profile with
    | none => simp [hc, profStr] at h
    | some v => cases v <;> simp_all [profStr]
  -- 265 profile
  rw [foldSet_cons, wv2_0 c hp,
    step_generic p2Keys (setP2 u) 265 (st2 none none none none none none (.cont none) none none none) (profStr c.profile) Cbor.tstr
      (fun x => st2 (x.map .str) none none none none none (.cont none) none none none) (by decide) rfl
      (fun a ha => by simp [setP2, decEatProfile, hps a ha, hu a ha, Dec.map, Dec.bind, st2])]
  simp only [Dec.bind]
  -- 2394 client id
  rw [foldSet_cons, wv2_1 c hp,
    step_generic p2Keys (setP2 u) 2394 (st2 ((profStr c.profile).map .str) none none none none none (.cont none) none none none) c.clientId cInt
      (fun x => st2 ((profStr c.profile).map .str) x none none none none (.cont none) none none none) (by decide) rfl
      (fun a ha => by
        have := b1 a ha
        simp [setP2, decInt_cInt (-2147483648) 2147483647 a this.1 this.2 (by omega), Dec.map, Dec.bind, st2])]
  simp only [Dec.bind]
  -- 2395 lifecycle
  rw [foldSet_cons, wv2_2 c hp,
    step_generic p2Keys (setP2 u) 2395 (st2 ((profStr c.profile).map .str) c.clientId none none none none (.cont none) none none none) c.lifecycle Cbor.uint
      (fun x => st2 ((profStr c.profile).map .str) c.clientId x none none none (.cont none) none none none) (by decide) rfl
      (fun a ha => by
        have := b2 a ha
        simp [setP2, decInt_uint 65535 a (by omega), Dec.map, Dec.bind, st2])]
  simp only [Dec.bind]
  -- 2396 implementation id
  rw [foldSet_cons, wv2_3 c hp,
    step_generic p2Keys (setP2 u) 2396 (st2 ((profStr c.profile).map .str) c.clientId c.lifecycle none none none (.cont none) none none none) c.implId Cbor.bstr
      (fun x => st2 ((profStr c.profile).map .str) c.clientId c.lifecycle x none none (.cont none) none none none) (by decide) rfl
      (fun a _ => by simp [setP2, decBytesVal, Dec.map, Dec.bind, st2])]
  simp only [Dec.bind]
  -- 2397 boot seed
  rw [foldSet_cons, wv2_4 c hp,
    step_generic p2Keys (setP2 u) 2397 (st2 ((profStr c.profile).map .str) c.clientId c.lifecycle c.implId none none (.cont none) none none none) c.bootSeed Cbor.bstr
      (fun x => st2 ((profStr c.profile).map .str) c.clientId c.lifecycle c.implId x none (.cont none) none none none) (by decide) rfl
      (fun a _ => by simp [setP2, decBytesVal, Dec.map, Dec.bind, st2])]
  simp only [Dec.bind]
  -- 2398 certification reference
  rw [foldSet_cons, wv2_5 c hp,
    step_generic p2Keys (setP2 u) 2398 (st2 ((profStr c.profile).map .str) c.clientId c.lifecycle c.implId c.bootSeed none (.cont none) none none none) c.certRef Cbor.tstr
      (fun x => st2 ((profStr c.profile).map .str) c.clientId c.lifecycle c.implId c.bootSeed x (.cont none) none none none) (by decide) rfl
      (fun a ha => by simp [setP2, decText, t2 a ha, Dec.map, Dec.bind, st2])]
  simp only [Dec.bind]
  -- 2399 software components
  rw [foldSet_cons, wv2_6 c hp,
    step_opt p2Keys (setP2 u) 2399 (st2 ((profStr c.profile).map .str) c.clientId c.lifecycle c.implId c.bootSeed c.certRef (.cont none) none none none)
      (st2 ((profStr c.profile).map .str) c.clientId c.lifecycle c.implId c.bootSeed c.certRef (rtSw c.sw) none none none) _ (by decide)
      (fun h => by
        unfold rtSw
        cases he : c.sw.elems.isEmpty with
        | true => simp
        | false => simp [he] at h)
      (fun v h => by
        unfold rtSw
        cases he : c.sw.elems.isEmpty with
        | true => simp [he] at h
        | false =>
          simp only [he, Bool.false_eq_true, if_false, Option.some.injEq] at h
          subst h
          have hd := decSw_compsWire none (heldComps c.sw) t4
          simp [setP2, st2, hd, Dec.map, Dec.bind])]
  simp only [Dec.bind]
  -- 10 nonce
  rw [foldSet_cons, wv2_7 c hp,
    step_opt p2Keys (setP2 u) 10 (st2 ((profStr c.profile).map .str) c.clientId c.lifecycle c.implId c.bootSeed c.certRef (rtSw c.sw) none none none)
      (st2 ((profStr c.profile).map .str) c.clientId c.lifecycle c.implId c.bootSeed c.certRef (rtSw c.sw) (nonceRt c.nonce) none none) _ (by decide)
      (fun hn => by
        have : nonceRt c.nonce = none := by
          cases hc : c.nonce with
          | none => rfl
          | some l =>
            cases l with
            | nil => rfl
            | cons a t => cases t <;> simp [hc, nonceWire] at hn
        rw [this])
      (fun v hn => by simp [setP2, decEatNonce_wire c.nonce v hn, Dec.map, Dec.bind, st2])]
  simp only [Dec.bind]
  -- 256 instance id
  rw [foldSet_cons, wv2_8 c hp,
    step_generic p2Keys (setP2 u) 256 (st2 ((profStr c.profile).map .str) c.clientId c.lifecycle c.implId c.bootSeed c.certRef (rtSw c.sw) (nonceRt c.nonce) none none) c.instId Cbor.bstr
      (fun x => st2 ((profStr c.profile).map .str) c.clientId c.lifecycle c.implId c.bootSeed c.certRef (rtSw c.sw) (nonceRt c.nonce) x none) (by decide) rfl
      (fun a _ => by simp [setP2, decBytesVal, Dec.map, Dec.bind, st2])]
  simp only [Dec.bind]
  -- 2400 verification service indicator
  rw [foldSet_cons, wv2_9 c hp,
    step_generic p2Keys (setP2 u) 2400 (st2 ((profStr c.profile).map .str) c.clientId c.lifecycle c.implId c.bootSeed c.certRef (rtSw c.sw) (nonceRt c.nonce) c.instId none) c.vsi Cbor.tstr
      (fun x => st2 ((profStr c.profile).map .str) c.clientId c.lifecycle c.implId c.bootSeed c.certRef (rtSw c.sw) (nonceRt c.nonce) c.instId x) (by decide) rfl
      (fun a ha => by simp [setP2, decText, t3 a ha, Dec.map, Dec.bind, st2])]
  simp only [Dec.bind, foldSet]


end Psa.Proofs.RT
