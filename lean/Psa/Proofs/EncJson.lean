import Psa.Proofs.EncJsonShape
namespace Psa.Proofs.EncJ
open Psa Psa.Model Psa.Model.EncJ
open Psa.Model.Enc (FVal FTy SVal)

theorem lastWins_nodup : ∀ ms : List (Bytes × Json), (ms.map (·.1)).Nodup → lastWins ms = ms
  | [], _ => rfl
  | (k, v) :: rest, h => by
    simp only [List.map_cons, List.nodup_cons] at h
    have hn : rest.any (fun x => x.1 == k) = false := by
      rw [List.any_eq_false]
      intro x hx hk
      exact h.1 (List.mem_map.mpr ⟨x, hx, by simpa using hk⟩)
    simp only [lastWins, hn, Bool.false_eq_true, if_false, lastWins_nodup rest h.2]

theorem get_mem (m : JMap) (hi : JInv m) : ∀ k ∈ m.keys, ∃ v, m.get k = some v ∧ (k, v) ∈ m.fields := by
  intro k hk
  rw [hi.agree] at hk
  obtain ⟨p, hp, rfl⟩ := List.mem_map.mp hk
  cases hf : m.fields.find? (fun x => x.1 == p.1) with
  | none => rw [List.find?_eq_none] at hf; exact absurd (by simp) (hf p hp)
  | some q =>
    have hq := List.mem_of_find?_eq_some hf
    have hqk : q.1 = p.1 := by have := List.find?_some hf; simpa using this
    exact ⟨q.2, by simp [JMap.get, hf], by rw [← hqk]; exact hq⟩

/-- the object `ToJSON` writes lists the fields in insertion order -/
theorem toJSON_fields (m : JMap) (hi : JInv m) : m.toJSON = .obj m.fields := by
  unfold JMap.toJSON
  congr 1
  have hnd : (m.fields.map (·.1)).Nodup := by rw [← hi.agree]; exact hi.nodup
  rw [hi.agree]
  -- get on a duplicate-free association list returns the paired value
  have key : ∀ (pre fs : List (Bytes × Json)), m.fields = pre ++ fs →
      (fs.map (·.1)).map (fun k => (k, (m.get k).getD .null)) = fs := by
    intro pre fs
    induction fs generalizing pre with
    | nil => intro _; rfl
    | cons p fs ih =>
      intro hs
      obtain ⟨k, v⟩ := p
      simp only [List.map_cons]
      have hg : m.get k = some v := by
        unfold JMap.get
        rw [hs, List.find?_append]
        have : pre.find? (fun x => x.1 == k) = none := by
          rw [List.find?_eq_none]
          intro x hx hxk
          simp at hxk
          rw [hs] at hnd
          simp only [List.map_append, List.map_cons] at hnd
          rw [List.nodup_append] at hnd
          exact hnd.2.2 x.1 (List.mem_map_of_mem hx) k (by simp) hxk
        simp [this]
      rw [hg, ih (pre ++ [(k, v)]) (by simp [hs])]
      rfl
  exact key [] m.fields rfl

/-- reading back the written object gives the same ordered map -/
theorem fromJSON_toJSON (m : JMap) (hi : JInv m) : fromJSON m.toJSON = .ok m := by
  have hnd : (m.fields.map (·.1)).Nodup := by rw [← hi.agree]; exact hi.nodup
  rw [toJSON_fields m hi]
  simp only [fromJSON, lastWins_nodup m.fields hnd, ← hi.agree]

/-- **C15, JSON round trip** (tree level): for every struct shape with pairwise distinct member names and every fitting
    value — any subset of optional fields, none included — populating from the serialiser's object gives the value back -/
theorem populate_serialize (sh : ShapeJ) (v : SVal) (hf : Fits sh v) (hn : ((specs sh).map (·.name)).Nodup) :
    ∃ j, serialize sh v = .ok j ∧ populate sh j = .ok v := by
  have ht := fits_typed sh v hf
  obtain ⟨m, h1, h2, h3, h4, h5, h6⟩ := addFields_spec (specs sh) (flat v) JMap.empty ht hn (fun _ _ => rfl) inv_empty
  have hser : serializeInto sh v JMap.empty = .ok m := by rw [serializeInto_flat sh v _ hf, h1]
  refine ⟨m.toJSON, by simp [serialize, hser, Outcome.map, Outcome.bind], ?_⟩
  obtain ⟨m', e1, _⟩ := populateFrom_spec sh v m hf hn h4
  simp [populate, fromJSON_toJSON m h2, Dec.bind, e1, Dec.map]

/-- the fields that are written -/
def present : List FieldSpecJ → List (Option FVal) → List (Bytes × Json)
  | f :: fs, v :: vs => if f.omitempty && v.isNone then present fs vs else (f.name, jFVal v) :: present fs vs
  | _, _ => []

theorem addFields_fields : ∀ (fs : List FieldSpecJ) (vs : List (Option FVal)) (acc m : JMap),
    addFields fs vs acc = .ok m → m.fields = acc.fields ++ present fs vs
  | [], _, acc, m, h => by simp [addFields] at h; subst h; simp [present]
  | _ :: _, [], acc, m, h => by simp [addFields] at h; subst h; simp [present]
  | f :: fs, v :: vs, acc, m, h => by
    simp only [addFields] at h
    simp only [present]
    split at h
    · rename_i hc; simp only [hc, if_true]; exact addFields_fields fs vs acc m h
    · rename_i hc
      simp only [hc, Bool.false_eq_true, if_false]
      cases hadd : acc.add f.name (jFVal v) with
      | err e => simp [hadd, Outcome.bind] at h
      | panic s => simp [hadd, Outcome.bind] at h
      | ok m1 =>
        simp only [hadd, Outcome.bind] at h
        have := addFields_fields fs vs m1 m h
        unfold JMap.add at hadd
        split at hadd
        · cases hadd
        · cases hadd; simp [this]

/-- **C15, JSON: one object, union of outer and embedded fields, omitempty honoured, declaration order** — for a struct
    without embedding this is the member list of the plain marshaller -/
theorem serialize_is_plain_object (sh : ShapeJ) (v : SVal) (j : Json) (hf : Fits sh v)
    (hn : ((specs sh).map (·.name)).Nodup) (h : serialize sh v = .ok j) :
    j = .obj (present (specs sh) (flat v)) := by
  have ht := fits_typed sh v hf
  obtain ⟨m, h1, h2, _, _, _, _⟩ := addFields_spec (specs sh) (flat v) JMap.empty ht hn (fun _ _ => rfl) inv_empty
  have hser : serializeInto sh v JMap.empty = .ok m := by rw [serializeInto_flat sh v _ hf, h1]
  simp only [serialize, hser, Outcome.map, Outcome.bind, Outcome.ok.injEq] at h
  subst h
  rw [toJSON_fields m h2, addFields_fields _ _ _ _ h1]
  simp [JMap.empty]

/-- a duplicated member in JSON *input* is not an error: the last value wins (unlike CBOR input) -/
theorem json_duplicate_last_wins (k : Bytes) (a b : Json) :
    (fromJSON (.obj [(k, a), (k, b)])).bind (fun m => .ok (m.get k)) = .ok (some b) := by
  simp [fromJSON, lastWins, Dec.bind, JMap.get]

/-- **C15, a missing non-optional key is an error**: populate never succeeds when some mandatory field of the list has
    no entry in the map -/
theorem popFields_missing_any : ∀ (fs : List FieldSpecJ) (m : JMap) (f : FieldSpecJ), f ∈ fs → f.omitempty = false →
    m.get f.name = none → ∀ r, popFields fs m ≠ .ok r
  | [], _, _, hf, _, _, _ => by cases hf
  | g :: fs, m, f, hf, ho, hm, r => by
    simp only [popFields]
    rcases List.mem_cons.mp hf with rfl | hf'
    · simp [hm, ho]
    · cases hg : m.get g.name with
      | none =>
        simp only []
        split
        · intro h
          cases hp : popFields fs m with
          | ok q => exact popFields_missing_any fs m f hf' ho hm q hp
          | err => simp [hp, Dec.map, Dec.bind] at h
          | ood => simp [hp, Dec.map, Dec.bind] at h
        · intro h; cases h
      | some raw =>
        simp only []
        cases hd : EncJ.decFVal g.ty raw with
        | err => simp [Dec.bind]
        | ood => simp [Dec.bind]
        | ok x =>
          simp only [Dec.bind]
          intro h
          have hm' : (m.delete g.name).get f.name = none := by
            by_cases hk : f.name = g.name
            · rw [hk]; exact get_delete_same m _
            · rw [get_delete_other m g.name f.name hk]; exact hm
          cases hp : popFields fs (m.delete g.name) with
          | ok q => exact popFields_missing_any fs _ f hf' ho hm' q hp
          | err => simp [hp, Dec.map, Dec.bind] at h
          | ood => simp [hp, Dec.map, Dec.bind] at h


end Psa.Proofs.EncJ
