/- Shape facts of the wire token: keys, presence, boundedness → decodability (helpers for C10, C09). -/
import Psa.Proofs.Wire
import Psa.Cbor.Fuel
namespace Psa.Proofs
open Psa Psa.Model Psa.Spec

theorem cInt_injective (i j : Int) (h : cInt i = cInt j) : i = j := by
  unfold cInt Cbor.ofInt at h
  split at h <;> split at h <;> simp at h <;> omega

theorem entriesOf_keys (keys : List Int) (val : Int → Option Cbor) :
    (entriesOf keys val).map Prod.fst = (keys.filter fun k => (val k).isSome).map cInt := by
  induction keys with
  | nil => rfl
  | cons k ks ih =>
    simp only [entriesOf, List.filterMap_cons, List.filter_cons] at ih ⊢
    cases h : val k <;> simp [h, ih]

theorem entriesOf_mem (keys : List Int) (val : Int → Option Cbor) (k : Cbor) (v : Cbor) :
    (k, v) ∈ entriesOf keys val ↔ ∃ i ∈ keys, k = cInt i ∧ val i = some v := by
  simp only [entriesOf, List.mem_filterMap, Option.map_eq_some_iff, Prod.mk.injEq]
  constructor
  · rintro ⟨i, hi, w, hw, rfl, rfl⟩; exact ⟨i, hi, rfl, hw⟩
  · rintro ⟨i, hi, rfl, hw⟩; exact ⟨i, hi, v, hw, rfl, rfl⟩

theorem keyOrder_nodup (p : Prof) : (keyOrder p).Nodup := by cases p <;> decide

theorem entriesOf_keys_nodup (keys : List Int) (val : Int → Option Cbor) (h : keys.Nodup) :
    ((entriesOf keys val).map Prod.fst).Nodup := by
  rw [entriesOf_keys]
  have hf : (keys.filter fun k => (val k).isSome).Nodup := List.Pairwise.sublist List.filter_sublist h
  rw [List.Nodup, List.pairwise_map]
  exact List.Pairwise.imp (fun hne heq => hne (cInt_injective _ _ heq)) hf

/-! ### boundedness: every Go value has lengths and integers within machine ranges -/

def optLen (o : Option Bytes) : Prop := ∀ b, o = some b → b.length < 2 ^ 64

def SwCompBounded (sc : SwComp) : Prop :=
  optLen sc.mtype ∧ optLen sc.mval ∧ optLen sc.version ∧ optLen sc.signer ∧ optLen sc.mdesc

/-- what holds of every claims-set that exists as Go values (`int32`, `uint16`, `uint`, slice
    lengths), plus the decoder's array limit on the component list -/
def ClaimsBounded (c : Claims) : Prop :=
  (∀ v, c.clientId = some v → -2147483648 ≤ v ∧ v ≤ 2147483647) ∧
  (∀ v, c.lifecycle = some v → v < 65536) ∧
  (∀ v, c.noSw = some v → v < 2 ^ 64) ∧
  (∀ s, c.profile = some (.str s) → s.length < 2 ^ 64) ∧
  optLen c.implId ∧ optLen c.bootSeed ∧ optLen c.certRef ∧ optLen c.instId ∧ optLen c.vsi ∧
  (∀ l, c.nonce = some l → l.length ≤ 131072 ∧ ∀ b ∈ l, b.length < 2 ^ 64) ∧
  c.sw.elems.length ≤ 131072 ∧ (∀ sc, some sc ∈ c.sw.elems → SwCompBounded sc)

theorem okAt_cInt (lim : Cbor.Limits) (i : Int) (d : Nat) (h : -2 ^ 63 ≤ i ∧ i < 2 ^ 63) : Cbor.OkAt lim (cInt i) d := by
  unfold cInt Cbor.ofInt
  split <;> simp only [Cbor.OkAt] <;> omega

theorem okAtPairs_entriesOf (lim : Cbor.Limits) (keys : List Int) (val : Int → Option Cbor) (d : Nat)
    (hk : ∀ k ∈ keys, -2 ^ 63 ≤ k ∧ k < 2 ^ 63) (hv : ∀ k v, val k = some v → Cbor.OkAt lim v d) :
    Cbor.OkAtPairs lim (entriesOf keys val) d := by
  induction keys with
  | nil => trivial
  | cons k ks ih =>
    have ih' := ih (fun k' hk' => hk k' (by simp [hk']))
    simp only [entriesOf, List.filterMap_cons] at ih' ⊢
    cases h : val k with
    | none => simpa [h] using ih'
    | some v =>
      simp only [h, Option.map_some]
      exact ⟨okAt_cInt lim k d (hk k (by simp)), hv k v h, ih'⟩

theorem entriesOf_length_le (keys : List Int) (val : Int → Option Cbor) : (entriesOf keys val).length ≤ keys.length := by
  unfold entriesOf; exact List.length_filterMap_le _ _

theorem okAt_compWire (sc : SwComp) (h : SwCompBounded sc) : Cbor.OkAt {} (compWire sc) 2 := by
  obtain ⟨h1, h2, h3, h4, h5⟩ := h
  have hl : (entriesOf compKeyOrder (compWireVal sc)).length ≤ 5 := entriesOf_length_le compKeyOrder (compWireVal sc)
  refine ⟨by omega, by decide, by simp only []; omega, ?_⟩
  apply okAtPairs_entriesOf
  · decide
  · intro k v hv
    unfold compWireVal at hv
    repeat' split at hv
    all_goals (first | (cases hv) | (
      simp only [Option.map_eq_some_iff] at hv
      obtain ⟨b, hb, rfl⟩ := hv
      simp only [Cbor.OkAt]
      first | exact h1 b hb | exact h2 b hb | exact h3 b hb | exact h4 b hb | exact h5 b hb))

theorem okAt_compsWire (l : List SwComp) (hl : l.length ≤ 131072) (h : ∀ sc ∈ l, SwCompBounded sc) :
    Cbor.OkAt {} (compsWire l) 1 := by
  refine ⟨by simp; omega, by decide, by simpa using hl, ?_⟩
  induction l with
  | nil => trivial
  | cons x xs ih =>
    exact ⟨okAt_compWire x (h x (by simp)),
      ih (by simp at hl; omega) (fun sc hsc => h sc (by simp [hsc]))⟩

theorem heldComps_bounds (c : Claims) (hb : ClaimsBounded c) :
    (heldComps c.sw).length ≤ 131072 ∧ ∀ sc ∈ heldComps c.sw, SwCompBounded sc := by
  obtain ⟨_, _, _, _, _, _, _, _, _, _, h11, h12⟩ := hb
  constructor
  · exact Nat.le_trans (List.length_filterMap_le _ _) h11
  · intro sc hsc
    simp only [heldComps, List.mem_filterMap, id] at hsc
    obtain ⟨a, ha, rfl⟩ := hsc
    exact h12 sc ha

theorem okAt_bstrs (l : List Bytes) (h : ∀ b ∈ l, b.length < 2 ^ 64) :
    Cbor.OkAtList {} (l.map Cbor.bstr) 2 := by
  induction l with
  | nil => trivial
  | cons x xs ih => exact ⟨h x (by simp), ih (fun b hb => h b (by simp [hb]))⟩

theorem okAt_wireVal (c : Claims) (hb : ClaimsBounded c) (k : Int) (v : Cbor) (hv : wireVal c k = some v) :
    Cbor.OkAt {} v 1 := by
  have hcomps := heldComps_bounds c hb
  obtain ⟨b1, b2, b3, b4, b5, b6, b7, b8, b9, b10, _, _⟩ := hb
  have hbytes : ∀ (o : Option Bytes), optLen o → ∀ v, o.map Cbor.bstr = some v → Cbor.OkAt {} v 1 := by
    intro o ho v h; obtain ⟨x, hx, rfl⟩ := Option.map_eq_some_iff.mp h; exact ho x hx
  have htext : ∀ (o : Option Bytes), optLen o → ∀ v, o.map Cbor.tstr = some v → Cbor.OkAt {} v 1 := by
    intro o ho v h; obtain ⟨x, hx, rfl⟩ := Option.map_eq_some_iff.mp h; exact ho x hx
  have hcid : ∀ v, c.clientId.map cInt = some v → Cbor.OkAt {} v 1 := by
    intro v h; obtain ⟨x, hx, rfl⟩ := Option.map_eq_some_iff.mp h
    exact okAt_cInt _ x 1 (by have := b1 x hx; omega)
  have hlc : ∀ v, c.lifecycle.map Cbor.uint = some v → Cbor.OkAt {} v 1 := by
    intro v h; obtain ⟨x, hx, rfl⟩ := Option.map_eq_some_iff.mp h
    simp only [Cbor.OkAt]; have := b2 x hx; omega
  have hnosw : ∀ v, c.noSw.map Cbor.uint = some v → Cbor.OkAt {} v 1 := by
    intro v h; obtain ⟨x, hx, rfl⟩ := Option.map_eq_some_iff.mp h
    exact b3 x hx
  have hprof : ∀ v, (match c.profile with | some (ProfVal.str s) => some (Cbor.tstr s) | _ => none) = some v →
      Cbor.OkAt {} v 1 := by
    intro v h
    cases hpr : c.profile with
    | none => rw [hpr] at h; cases h
    | some pv =>
      cases pv with
      | invalid => rw [hpr] at h; cases h
      | str s => rw [hpr] at h; cases h; exact b4 s hpr
  have hsw : ∀ v, (if c.sw.elems.isEmpty then none else some (compsWire (heldComps c.sw))) = some v →
      Cbor.OkAt {} v 1 := by
    intro v h; split at h
    · cases h
    · cases h; exact okAt_compsWire _ hcomps.1 hcomps.2
  unfold wireVal at hv
  cases hp : c.prof <;> simp only [hp] at hv
  · by_cases h0 : k = -75000
    · simp only [h0, if_true] at hv; exact hprof v hv
    by_cases h1 : k = -75001
    · simp only [h1] at hv; exact hcid v hv
    by_cases h2 : k = -75002
    · simp only [h2] at hv; exact hlc v hv
    by_cases h3 : k = -75003
    · simp only [h3] at hv; exact hbytes _ b5 v hv
    by_cases h4 : k = -75004
    · simp only [h4] at hv; exact hbytes _ b6 v hv
    by_cases h5 : k = -75005
    · simp only [h5] at hv; exact htext _ b7 v hv
    by_cases h6 : k = -75006
    · simp only [h6] at hv; exact hsw v hv
    by_cases h7 : k = -75007
    · simp only [h7] at hv; exact hnosw v hv
    by_cases h8 : k = -75008
    · simp only [h8] at hv
      cases hn : c.nonce with
      | none => rw [hn] at hv; cases hv
      | some l =>
        match l, hn with
        | [], hn => rw [hn] at hv; cases hv
        | [bb], hn => rw [hn] at hv; cases hv; exact (b10 _ hn).2 bb (by simp)
        | _ :: _ :: _, hn => rw [hn] at hv; cases hv
    by_cases h9 : k = -75009
    · simp only [h9] at hv; exact hbytes _ b8 v hv
    by_cases h10 : k = -75010
    · simp only [h10] at hv; exact htext _ b9 v hv
    simp only [h0, h1, h2, h3, h4, h5, h6, h7, h8, h9, h10, if_false] at hv
    cases hv
  · by_cases h0 : k = 265
    · simp only [h0, if_true] at hv; exact hprof v hv
    by_cases h1 : k = 2394
    · simp only [h1] at hv; exact hcid v hv
    by_cases h2 : k = 2395
    · simp only [h2] at hv; exact hlc v hv
    by_cases h3 : k = 2396
    · simp only [h3] at hv; exact hbytes _ b5 v hv
    by_cases h4 : k = 2397
    · simp only [h4] at hv; exact hbytes _ b6 v hv
    by_cases h5 : k = 2398
    · simp only [h5] at hv; exact htext _ b7 v hv
    by_cases h6 : k = 2399
    · simp only [h6] at hv; exact hsw v hv
    by_cases h7 : k = 10
    · simp only [h7] at hv
      cases hn : c.nonce with
      | none => rw [hn] at hv; cases hv
      | some l =>
        match l, hn with
        | [], hn => rw [hn] at hv; cases hv
        | [bb], hn => rw [hn] at hv; cases hv; exact (b10 _ hn).2 bb (by simp)
        | a :: b :: r, hn =>
          rw [hn] at hv; cases hv
          have hh := b10 _ hn
          refine ⟨by simp at hh ⊢; omega, by decide, by simpa using hh.1, ?_⟩
          exact okAt_bstrs _ hh.2
    by_cases h8 : k = 256
    · simp only [h8] at hv; exact hbytes _ b8 v hv
    by_cases h9 : k = 2400
    · simp only [h9] at hv; exact htext _ b9 v hv
    simp only [h0, h1, h2, h3, h4, h5, h6, h7, h8, h9, if_false] at hv
    cases hv

theorem okAt_wireToken (c : Claims) (hb : ClaimsBounded c) : Cbor.OkAt {} (wireToken c) 0 := by
  have hl := entriesOf_length_le (keyOrder c.prof) (wireVal c)
  have hk : (keyOrder c.prof).length ≤ 11 := by cases c.prof <;> decide
  refine ⟨by unfold wireEntries; omega, by decide, by unfold wireEntries; simp only []; omega, ?_⟩
  apply okAtPairs_entriesOf
  · cases c.prof <;> decide
  · exact okAt_wireVal c hb

end Psa.Proofs

namespace Psa.Proofs
open Psa Psa.Model Psa.Spec

/-- every value in the wire token is of one of these kinds -/
inductive WireKind (c : Claims) (v : Cbor) : Prop
  | text (s : Bytes) (hv : v = .tstr s)
  | bytes (b : Bytes) (hv : v = .bstr b)
  | int (x : Int) (hv : v = cInt x)
  | uint (n : Nat) (hv : v = .uint n)
  | comps (hv : v = compsWire (heldComps c.sw))
  | nonces (l : List Bytes) (hv : v = .arr (l.map .bstr))

theorem wireVal_kind (c : Claims) (k : Int) (v : Cbor) (hv : wireVal c k = some v) : WireKind c v := by
  have hbytes : ∀ (o : Option Bytes) v, o.map Cbor.bstr = some v → WireKind c v := by
    intro o v h; obtain ⟨x, _, rfl⟩ := Option.map_eq_some_iff.mp h; exact .bytes x rfl
  have htext : ∀ (o : Option Bytes) v, o.map Cbor.tstr = some v → WireKind c v := by
    intro o v h; obtain ⟨x, _, rfl⟩ := Option.map_eq_some_iff.mp h; exact .text x rfl
  have hcid : ∀ v, c.clientId.map cInt = some v → WireKind c v := by
    intro v h; obtain ⟨x, _, rfl⟩ := Option.map_eq_some_iff.mp h; exact .int x rfl
  have huint : ∀ (o : Option Nat) v, o.map Cbor.uint = some v → WireKind c v := by
    intro o v h; obtain ⟨x, _, rfl⟩ := Option.map_eq_some_iff.mp h; exact .uint x rfl
  have hprof : ∀ v, (match c.profile with | some (ProfVal.str s) => some (Cbor.tstr s) | _ => none) = some v →
      WireKind c v := by
    intro v h
    cases hpr : c.profile with
    | none => rw [hpr] at h; cases h
    | some pv =>
      cases pv with
      | invalid => rw [hpr] at h; cases h
      | str s => rw [hpr] at h; cases h; exact .text s rfl
  have hsw : ∀ v, (if c.sw.elems.isEmpty then none else some (compsWire (heldComps c.sw))) = some v →
      WireKind c v := by
    intro v h; split at h
    · cases h
    · cases h; exact .comps rfl
  unfold wireVal at hv
  cases hp : c.prof <;> simp only [hp] at hv
  · by_cases h0 : k = -75000
    · simp only [h0, if_true] at hv; exact hprof v hv
    by_cases h1 : k = -75001
    · simp only [h1] at hv; exact hcid v hv
    by_cases h2 : k = -75002
    · simp only [h2] at hv; exact huint _ v hv
    by_cases h3 : k = -75003
    · simp only [h3] at hv; exact hbytes _ v hv
    by_cases h4 : k = -75004
    · simp only [h4] at hv; exact hbytes _ v hv
    by_cases h5 : k = -75005
    · simp only [h5] at hv; exact htext _ v hv
    by_cases h6 : k = -75006
    · simp only [h6] at hv; exact hsw v hv
    by_cases h7 : k = -75007
    · simp only [h7] at hv; exact huint _ v hv
    by_cases h8 : k = -75008
    · simp only [h8] at hv
      cases hn : c.nonce with
      | none => rw [hn] at hv; cases hv
      | some l =>
        match l, hn with
        | [], hn => rw [hn] at hv; cases hv
        | [bb], hn => rw [hn] at hv; cases hv; exact .bytes bb rfl
        | _ :: _ :: _, hn => rw [hn] at hv; cases hv
    by_cases h9 : k = -75009
    · simp only [h9] at hv; exact hbytes _ v hv
    by_cases h10 : k = -75010
    · simp only [h10] at hv; exact htext _ v hv
    simp only [h0, h1, h2, h3, h4, h5, h6, h7, h8, h9, h10, if_false] at hv
    cases hv
  · by_cases h0 : k = 265
    · simp only [h0, if_true] at hv; exact hprof v hv
    by_cases h1 : k = 2394
    · simp only [h1] at hv; exact hcid v hv
    by_cases h2 : k = 2395
    · simp only [h2] at hv; exact huint _ v hv
    by_cases h3 : k = 2396
    · simp only [h3] at hv; exact hbytes _ v hv
    by_cases h4 : k = 2397
    · simp only [h4] at hv; exact hbytes _ v hv
    by_cases h5 : k = 2398
    · simp only [h5] at hv; exact htext _ v hv
    by_cases h6 : k = 2399
    · simp only [h6] at hv; exact hsw v hv
    by_cases h7 : k = 10
    · simp only [h7] at hv
      cases hn : c.nonce with
      | none => rw [hn] at hv; cases hv
      | some l =>
        match l, hn with
        | [], hn => rw [hn] at hv; cases hv
        | [bb], hn => rw [hn] at hv; cases hv; exact .bytes bb rfl
        | a :: b :: r, hn => rw [hn] at hv; cases hv; exact .nonces _ rfl
    by_cases h8 : k = 256
    · simp only [h8] at hv; exact hbytes _ v hv
    by_cases h9 : k = 2400
    · simp only [h9] at hv; exact htext _ v hv
    simp only [h0, h1, h2, h3, h4, h5, h6, h7, h8, h9, if_false] at hv
    cases hv

end Psa.Proofs
