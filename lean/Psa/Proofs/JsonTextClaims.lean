/-
  The documented JSON form of a claims-set (`Spec.jsonDoc`) lies in the domain of the text-layer round trip
  (`JText.WF`): numbers are integers, member names are ASCII, byte strings are base64 (ASCII), text claims are
  valid UTF-8 when the claims-set's text is (`RT.TextOK`).  Hence `parseDoc (render (jsonDoc c)) = some (jsonDoc c)`.
-/
import Psa.Proofs.JsonText
import Psa.Proofs.JsonRoundTrip
namespace Psa.Proofs.JTC
open Psa Psa.Model Psa.Spec Psa.Proofs.RT Psa.Model.JText

theorem wfList_iff (l : List Json) : WFList l = true ↔ ∀ x ∈ l, WF x = true := by
  induction l with
  | nil => simp [WFList]
  | cons x xs ih => simp [WFList, ih]

theorem wfMembers_iff (l : List (Bytes × Json)) :
    WFMembers l = true ↔ ∀ m ∈ l, validUTF8 m.1 = true ∧ WF m.2 = true := by
  induction l with
  | nil => simp [WFMembers]
  | cons m ms ih =>
    obtain ⟨k, v⟩ := m
    simp [WFMembers, ih, and_assoc]

theorem b64char_lt (n : Nat) : (b64char n).toNat < 128 := by
  unfold b64char
  repeat' split
  all_goals (simp; try omega)

theorem b64enc_ascii : ∀ (b : Bytes), ∀ x ∈ b64enc b, x.toNat < 128 := by
  intro b
  induction b using b64enc.induct with
  | case1 => intro x hx; simp [b64enc] at hx
  | case2 a =>
    intro x hx
    simp only [b64enc, List.mem_cons, List.mem_nil_iff, or_false] at hx
    rcases hx with rfl | rfl | rfl | rfl <;> first | exact b64char_lt _ | decide
  | case3 a b =>
    intro x hx
    simp only [b64enc, List.mem_cons, List.mem_nil_iff, or_false] at hx
    rcases hx with rfl | rfl | rfl | rfl <;> first | exact b64char_lt _ | decide
  | case4 a b c rest ih =>
    intro x hx
    simp only [b64enc, List.mem_cons] at hx
    rcases hx with rfl | rfl | rfl | rfl | hx
    · exact b64char_lt _
    · exact b64char_lt _
    · exact b64char_lt _
    · exact b64char_lt _
    · exact ih x hx

theorem wf_jBytes (b : Bytes) : WF (jBytes b) = true := by
  simp only [jBytes, WF]
  exact validUTF8_ascii _ (b64enc_ascii b)

theorem name_valid (p : Prof) (f : JField) (hf : f ∈ JField.of p) : validUTF8 (f.name p) = true := by
  apply validUTF8_ascii
  cases p
  · exact Proofs.JRT.p1_names_good.2 _ (List.mem_map_of_mem hf)
  · exact Proofs.JRT.p2_names_good.2 _ (List.mem_map_of_mem hf)

theorem cname_valid (f : CField) (hf : f ∈ CField.all) : validUTF8 f.name = true :=
  validUTF8_ascii _ (Proofs.JRT.comp_names_good.2 _ (List.mem_map_of_mem hf))

theorem wf_compJson (sc : SwComp) (h : CompTextOK sc) : WF (compJson sc) = true := by
  obtain ⟨h1, h2, h3⟩ := h
  simp only [compJson, WF, wfMembers_iff, List.mem_filterMap, Option.map_eq_some_iff]
  rintro ⟨k, v⟩ ⟨f, hf, w, hw, e⟩
  simp only [Prod.mk.injEq] at e
  obtain ⟨rfl, rfl⟩ := e
  refine ⟨cname_valid f hf, ?_⟩
  cases f <;> simp only [compJsonVal, Option.map_eq_some_iff] at hw <;> obtain ⟨s, hs, rfl⟩ := hw
  · simpa [WF] using h1 s hs
  · exact wf_jBytes s
  · simpa [WF] using h2 s hs
  · exact wf_jBytes s
  · simpa [WF] using h3 s hs

theorem wf_jsonVal (c : Claims) (ht : TextOK c) (f : JField) (v : Json) (hv : jsonVal c f = some v) : WF v = true := by
  obtain ⟨t1, t2, t3, t4⟩ := ht
  cases f <;> simp only [jsonVal] at hv
  · -- profile
    split at hv
    · rename_i s hs; cases hv; simpa [WF] using t1 s hs
    · cases hv
  · obtain ⟨i, _, rfl⟩ := Option.map_eq_some_iff.mp hv; rfl
  · obtain ⟨i, _, rfl⟩ := Option.map_eq_some_iff.mp hv; rfl
  · obtain ⟨b, _, rfl⟩ := Option.map_eq_some_iff.mp hv; exact wf_jBytes b
  · obtain ⟨b, _, rfl⟩ := Option.map_eq_some_iff.mp hv; exact wf_jBytes b
  · obtain ⟨s, hs, rfl⟩ := Option.map_eq_some_iff.mp hv; simpa [WF] using t2 s hs
  · -- components
    split at hv
    · cases hv
    · cases hv
      simp only [WF, wfList_iff, List.mem_map]
      rintro x ⟨sc, hsc, rfl⟩
      exact wf_compJson sc (t4 sc hsc)
  · obtain ⟨i, _, rfl⟩ := Option.map_eq_some_iff.mp hv; rfl
  · -- nonce
    split at hv
    · cases hv; exact wf_jBytes _
    · cases hv
      simp only [WF, wfList_iff, List.mem_map]
      rintro x ⟨b, _, rfl⟩
      exact wf_jBytes b
    · cases hv
  · obtain ⟨b, _, rfl⟩ := Option.map_eq_some_iff.mp hv; exact wf_jBytes b
  · obtain ⟨s, hs, rfl⟩ := Option.map_eq_some_iff.mp hv; simpa [WF] using t3 s hs

/-- the documented JSON form of a claims-set with valid UTF-8 text is a document the writer is specified for -/
theorem wf_jsonDoc (c : Claims) (ht : TextOK c) : WF (jsonDoc c) = true := by
  simp only [jsonDoc, WF, jsonMembers, wfMembers_iff, List.mem_filterMap, Option.map_eq_some_iff]
  rintro ⟨k, v⟩ ⟨f, hf, w, hw, e⟩
  simp only [Prod.mk.injEq] at e
  obtain ⟨rfl, rfl⟩ := e
  exact ⟨name_valid c.prof f hf, wf_jsonVal c ht f w hw⟩

/-- … so its text reads back to it -/
theorem parseDoc_render_jsonDoc (c : Claims) (ht : TextOK c) : parseDoc (render (jsonDoc c)) = some (jsonDoc c) :=
  parseDoc_render _ (wf_jsonDoc c ht)

end Psa.Proofs.JTC
