/- What a successful getter returns, and which errors pass the filter. -/
import Psa.Proofs.Validate
namespace Psa.Proofs
open Psa Psa.Model Psa.Spec

/-- A getter that succeeds returns a value conforming to its claim's rule
    ("getters re-validate on every read"). -/
theorem get_ok_conformant (g : Getter) (c : Claims) (v : Val) (h : Model.get g c = .ok v) :
    ConformantVal c.prof c.canonical g v := by
  obtain ⟨prof, canonical, profile, clientId, lifecycle, implId, bootSeed, certRef, sw, noSw, nonce, instId, vsi⟩ := c
  cases g <;> simp only [Model.get] at h
  · -- profile
    unfold getProfile at h; simp only [] at h
    cases prof <;> cases profile with
    | none => simp at h; try (subst h; simp [ConformantVal])
    | some pv =>
      cases pv with
      | invalid => simp at h
      | str s =>
        simp only [] at h
        split at h <;> simp at h
        subst h; simp_all [ConformantVal]
  · -- client id
    unfold getClientID at h; cases clientId <;> simp at h; subst h; simp [ConformantVal]
  · -- lifecycle
    unfold getSecurityLifeCycle at h
    cases lifecycle with
    | none => simp at h
    | some x =>
      simp only [bind_unit_ok_iff] at h
      obtain ⟨h1, h2⟩ := h; cases h2
      exact (validateLC_ok_iff x).mp h1
  · -- impl id
    unfold getImplID at h
    cases implId with
    | none => simp at h
    | some x =>
      simp only [bind_unit_ok_iff] at h
      obtain ⟨h1, h2⟩ := h; cases h2
      exact (validateImplID_ok_iff x).mp h1
  · -- boot seed
    unfold getBootSeed at h; simp only [] at h
    cases prof <;> cases bootSeed with
    | none => simp at h
    | some x =>
      simp only [] at h
      split at h <;> simp at h
      subst h; simp_all [ConformantVal] <;> omega
  · -- cert ref
    unfold getCertificationReference at h; simp only [] at h
    cases certRef with
    | none => simp at h
    | some s =>
      cases prof <;> simp only [] at h <;> split at h <;> simp at h <;> subst h <;>
        simp_all [ConformantVal, ← isEan13_iff, ← isEan13p5_iff]
      rename_i hh
      cases h1 : isEan13 s <;> cases h2 : isEan13p5 s <;> simp_all
  · -- software components
    unfold getSoftwareComponents at h; simp only [] at h
    cases prof <;> simp only [] at h
    · split at h
      · cases noSw <;> simp at h; subst h; simp [ConformantVal]
      · rename_i hn
        cases noSw with
        | some n => simp at h
        | none =>
          simp only [bind_ok_iff] at h
          obtain ⟨l, h1, h2⟩ := h; cases h2
          have := (valuesOf_ok_iff _ _).mp h1
          refine ⟨?_, this.2⟩
          intro hl; subst hl
          simp [SwField.nilOrEmpty, this.1] at hn
    · split at h
      · simp at h
      · rename_i hn
        simp only [bind_ok_iff] at h
        obtain ⟨l, h1, h2⟩ := h; cases h2
        have := (valuesOf_ok_iff _ _).mp h1
        refine ⟨?_, this.2⟩
        intro hl; subst hl
        simp [SwField.nilOrEmpty, this.1] at hn
  · -- nonce
    unfold getNonce at h
    cases nonce with
    | none => simp at h
    | some l =>
      match l, h with
      | [], h => simp at h
      | [n], h =>
        simp only [bind_unit_ok_iff] at h
        obtain ⟨h1, h2⟩ := h; cases h2
        exact (validateHash_ok_iff n).mp h1
      | a :: b :: r, h => simp at h
  · -- instance id
    unfold getInstID at h
    cases instId with
    | none => simp at h
    | some x =>
      simp only [bind_unit_ok_iff] at h
      obtain ⟨h1, h2⟩ := h; cases h2
      exact (validateInstID_ok_iff x).mp h1
  · -- vsi
    unfold getVSI at h
    cases vsi with
    | none => simp at h
    | some x =>
      simp only [bind_unit_ok_iff] at h
      obtain ⟨h1, h2⟩ := h; cases h2
      exact (validateVSI_ok_iff x).mp h1

/-- The only getter errors the filter lets through are "missing optional",
    and only optional claims produce them. -/
theorem pass_cases (g : Getter) (c : Claims) (h : Pass g c) :
    (∃ v, Model.get g c = .ok v) ∨ (Mandatory c.prof g = false ∧ Model.get g c = .err eMissingOptional) := by
  unfold Pass at h
  rcases (filterError_ok_iff _).mp h with ⟨a, ha⟩ | ⟨m, hm, hf⟩
  · exact Or.inl ⟨a, ha⟩
  · right
    obtain ⟨prof, canonical, profile, clientId, lifecycle, implId, bootSeed, certRef, sw, noSw, nonce, instId, vsi⟩ := c
    cases g <;> simp only [Model.get] at hm ⊢
    · unfold getProfile at hm; simp only [] at hm
      cases prof <;> cases profile with
      | none => simp at hm; try (subst hm; simp [filtered, eMissingMandatory] at hf)
      | some pv =>
        cases pv with
        | invalid => simp at hm; subst hm; simp [filtered, eOther] at hf
        | str s => simp only [] at hm; split at hm <;> simp at hm; subst hm; simp [filtered, eWrongProfile] at hf
    · unfold getClientID at hm; cases clientId <;> simp at hm; subst hm; simp [filtered, eMissingMandatory] at hf
    · unfold getSecurityLifeCycle at hm
      cases lifecycle with
      | none => simp at hm; subst hm; simp [filtered, eMissingMandatory] at hf
      | some x =>
        rcases validateLC_cases x with h' | h' <;> simp [h', Outcome.bind] at hm
        subst hm; simp [filtered, eWrongSyntax] at hf
    · unfold getImplID validateImplID at hm
      cases implId with
      | none => simp at hm; subst hm; simp [filtered, eMissingMandatory] at hf
      | some x =>
        simp only [] at hm; split at hm <;> simp [Outcome.bind] at hm
        subst hm; simp [filtered, eWrongSyntax] at hf
    · unfold getBootSeed at hm ⊢; simp only [] at hm ⊢
      cases prof <;> cases bootSeed with
      | none => simp at hm ⊢; try (subst hm; simp [filtered, eMissingMandatory] at hf); try (simp [Mandatory])
      | some x =>
        simp only [] at hm; split at hm <;> simp at hm
        subst hm; simp [filtered, eWrongSyntax] at hf
    · unfold getCertificationReference at hm ⊢; simp only [] at hm ⊢
      cases certRef with
      | none => simp [Mandatory]
      | some s =>
        cases prof <;> simp only [] at hm <;> split at hm <;> simp at hm <;> subst hm <;>
          simp [filtered, eWrongSyntax] at hf
    · unfold getSoftwareComponents at hm; simp only [] at hm
      cases prof <;> simp only [] at hm
      · split at hm
        · cases noSw <;> simp at hm; subst hm; simp [filtered, eMissingMandatory] at hf
        · cases noSw with
          | some n => simp at hm; subst hm; simp [filtered, eWrongSyntax] at hf
          | none =>
            simp only [] at hm
            cases hv : valuesOf sw.elems with
            | ok l => simp [hv, Outcome.bind] at hm
            | err m' =>
              simp [hv, Outcome.bind] at hm; subst hm
              have := valuesOf_err_unfiltered _ _ hv; simp [this] at hf
            | panic s => simp [hv, Outcome.bind] at hm
      · split at hm
        · simp at hm; subst hm; simp [filtered, eMissingMandatory] at hf
        · cases hv : valuesOf sw.elems with
          | ok l => simp [hv, Outcome.bind] at hm
          | err m' =>
            simp [hv, Outcome.bind] at hm; subst hm
            have := valuesOf_err_unfiltered _ _ hv; simp [this] at hf
          | panic s => simp [hv, Outcome.bind] at hm
    · unfold getNonce validateNonce at hm
      cases nonce with
      | none => simp at hm; subst hm; simp [filtered, eMissingMandatory] at hf
      | some l =>
        match l, hm with
        | [], hm => simp at hm; subst hm; simp [filtered, eWrongSyntax] at hf
        | [n], hm =>
          rcases validateHash_cases n with h' | h' <;> simp [h', Outcome.bind] at hm
          subst hm; simp [filtered, eWrongSyntax] at hf
        | a :: b :: r, hm => simp at hm; subst hm; simp [filtered, eWrongSyntax] at hf
    · unfold getInstID at hm
      cases instId with
      | none => simp at hm; subst hm; simp [filtered, eMissingMandatory] at hf
      | some x =>
        rcases validateInstID_cases x with h' | h' <;> simp [h', Outcome.bind] at hm
        subst hm; simp [filtered, eWrongSyntax] at hf
    · unfold getVSI validateVSI at hm ⊢
      cases vsi with
      | none => simp [Mandatory]
      | some x =>
        cases x <;> simp [Outcome.bind] at hm
        subst hm; simp [filtered, eWrongSyntax] at hf

end Psa.Proofs
