/- Envelope lemmas: injectivity of the to-be-signed bytes, soundness of verification (helpers for C02, C03, C19, C20). -/
import Psa.Model.Evidence
import Psa.Cbor.Fuel
import Psa.Proofs.Validate
import Psa.Proofs.WireShape
namespace Psa.Proofs
open Psa Psa.Model

theorem enc_injective (t t' : Cbor) (h : Cbor.OkAt {} t 0) (h' : Cbor.OkAt {} t' 0) (he : t.enc = t'.enc) : t = t' := by
  have h1 := Cbor.decodeAll_enc {} t h
  have h2 := Cbor.decodeAll_enc {} t' h'
  rw [he] at h1
  rw [h1] at h2
  exact Option.some.inj h2

theorem okAt_sigStructure (p e pl : Bytes) (hp : p.length < 2 ^ 64) (he : e.length < 2 ^ 64) (hpl : pl.length < 2 ^ 64) :
    Cbor.OkAt {} (sigStructure p e pl) 0 := by
  refine ⟨by simp, by decide, by simp, ?_⟩
  refine ⟨?_, hp, he, hpl, trivial⟩
  show (strBytes "Signature1").length < 2 ^ 64
  decide

/-- The bytes a signature covers determine the protected header bytes and the payload
    (for a fixed external AAD): Sig_structure is injective. -/
theorem tbs_injective (p p' e pl pl' : Bytes) (hp : p.length < 2 ^ 64) (hp' : p'.length < 2 ^ 64)
    (he : e.length < 2 ^ 64) (hpl : pl.length < 2 ^ 64) (hpl' : pl'.length < 2 ^ 64)
    (h : toBeSigned p e pl = toBeSigned p' e pl') : p = p' ∧ pl = pl' := by
  have := enc_injective _ _ (okAt_sigStructure p e pl hp he hpl) (okAt_sigStructure p' e pl' hp' he hpl') h
  simp only [sigStructure, Cbor.arr.injEq, List.cons.injEq, Cbor.bstr.injEq, and_true, true_and] at this
  exact ⟨this.1, this.2⟩

/-- Verification succeeds only if the log holds an entry for that very key whose to-be-signed
    bytes are those of this message and whose signature is this message's signature. -/
theorem verify_sound (kt : KeyTable) (w : World) (e : Ev) (k : Nat) (h : evVerify kt w e k = .ok ()) :
    ∃ m pl a, e.msg = some m ∧ m.payload = some pl ∧ protAlg m.prot = .alg a ∧ kt k a = true ∧ m.sig ≠ [] ∧
      (k, toBeSigned m.prot externalAAD pl, m.sig) ∈ w.log := by
  unfold evVerify at h
  cases hm : e.msg with
  | none => rw [hm] at h; cases h
  | some m =>
    rw [hm] at h; simp only [] at h
    cases ha : protAlg m.prot with
    | notFound => rw [ha] at h; cases h
    | invalid => rw [ha] at h; cases h
    | alg a =>
      rw [ha] at h; simp only [] at h
      by_cases hk : kt k a = true
      · simp only [hk, Bool.not_true, Bool.false_eq_true, if_false] at h
        cases hp : m.payload with
        | none => rw [hp] at h; cases h
        | some pl =>
          rw [hp] at h; simp only [] at h
          by_cases hs : m.sig = []
          · simp [hs] at h
          · simp only [hs, if_false] at h
            by_cases hv : w.sigVerify k (toBeSigned m.prot externalAAD pl) m.sig = true
            · refine ⟨m, pl, a, rfl, hp, ha, hk, hs, ?_⟩
              simpa [World.sigVerify] using hv
            · simp [hv] at h
      · simp [hk] at h


/-! ### the protected header `{1: alg}` and the envelope tree -/

theorem okAt_protMap (alg : Int) (h : -2 ^ 63 ≤ alg ∧ alg < 2 ^ 63) : Cbor.OkAt {} (Cbor.map [(.uint 1, cInt alg)]) 0 := by
  refine ⟨by simp, by decide, by simp, ?_⟩
  exact ⟨by simp [Cbor.OkAt], okAt_cInt _ alg 1 h, trivial⟩

theorem protOfAlg_ne (alg : Int) : protOfAlg alg ≠ [] := by
  unfold protOfAlg
  obtain ⟨b, tl, hb, _⟩ := Cbor.enc_first (Cbor.map [(.uint 1, cInt alg)])
  rw [hb]; simp

theorem algOfMap_cInt (alg : Int) : algOfMap [(.uint 1, cInt alg)] = .alg alg := by
  unfold cInt Cbor.ofInt
  by_cases h : alg ≥ 0
  · simp only [h, if_true, algOfMap]; congr 1; omega
  · simp only [h, if_false, algOfMap]; congr 1; omega

theorem protClass_ok (alg : Int) (h : -2 ^ 63 ≤ alg ∧ alg < 2 ^ 63) : protClass (protOfAlg alg) = .ok () := by
  unfold protClass
  rw [if_neg (protOfAlg_ne alg)]
  unfold protOfAlg
  rw [Cbor.decodeAll_enc {} _ (okAt_protMap alg h)]
  unfold cInt Cbor.ofInt
  by_cases h0 : alg ≥ 0
  · simp only [h0, if_true]
  · simp only [h0, if_false]; rw [if_pos (by omega)]

theorem okAt_envelope (prot p sig : Bytes) (h1 : prot.length < 2 ^ 64)
    (h2 : p.length < 2 ^ 64) (h3 : sig.length < 2 ^ 64) :
    Cbor.OkAt {} (envelopeTree { prot := prot, payload := some p, sig := sig }) 0 := by
  simp only [envelopeTree]
  refine ⟨by decide, by simp [Cbor.isTag], ?_⟩
  simp only [Cbor.isTag, Bool.false_eq_true, if_false]
  exact ⟨by simp, by decide, by simp, h1, ⟨by simp, by decide, by simp, trivial⟩, h2, h3, trivial⟩


end Psa.Proofs
