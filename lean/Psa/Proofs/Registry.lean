import Psa.Model.Registry
namespace Psa.Proofs.Reg
open Psa Psa.Model Psa.Model.Reg

/-- what every reachable register satisfies -/
structure RegInv (reg : Registry) : Prop where
  keysNodup : (reg.map (·.key)).Nodup
  /-- a non-default entry is registered under its profile's name -/
  named : ∀ e ∈ reg, e.key ≠ [] → e.key = e.profName
  /-- the default entry exists and repeats a named entry -/
  hasDefault : (lookup reg []).isSome
  defaultNamed : ∀ e ∈ reg, e.key = [] → (lookup reg e.profName).isSome ∧ e.profName ≠ []
  /-- entries of the same profile name agree on everything dispatch looks at -/
  coherent : ∀ e1 ∈ reg, ∀ e2 ∈ reg, e1.profName = e2.profName → e1.entry = e2.entry ∧ e1.jsonTag = e2.jsonTag

theorem lookup_some_mem (reg : Registry) (k : Bytes) (e : RegEntry) (h : lookup reg k = some e) : e ∈ reg ∧ e.key = k := by
  unfold lookup at h
  exact ⟨List.mem_of_find?_eq_some h, by have := List.find?_some h; simpa using this⟩

theorem lookup_none_iff (reg : Registry) (k : Bytes) : lookup reg k = none ↔ k ∉ reg.map (·.key) := by
  unfold lookup
  rw [List.find?_eq_none]
  simp only [List.mem_map, not_exists, not_and]
  constructor
  · intro h e he hk; exact h e he (by simp [hk])
  · intro h e he hk; exact h e he (by simpa using hk)

theorem lookup_append_left (reg : Registry) (e : RegEntry) (k : Bytes) (h : (lookup reg k).isSome) :
    lookup (reg ++ [e]) k = lookup reg k := by
  unfold lookup at *
  rw [List.find?_append]
  cases hf : reg.find? (fun x => x.key == k) with
  | none => simp [hf] at h
  | some x => simp

theorem lookup_append_ne (reg : Registry) (e : RegEntry) (k : Bytes) (h : e.key ≠ k) :
    lookup (reg ++ [e]) k = lookup reg k := by
  unfold lookup
  rw [List.find?_append]
  cases hf : reg.find? (fun x => x.key == k) with
  | some x => simp
  | none => simp [h]

theorem lookup_append_new (reg : Registry) (e : RegEntry) (h : lookup reg e.key = none) :
    lookup (reg ++ [e]) e.key = some e := by
  unfold lookup at *
  rw [List.find?_append, h]; simp

/-- **registering under an existing name fails** -/
theorem register_dup (reg : Registry) (p : ProfDesc) (h : (lookup reg p.name).isSome) : register reg p = .err eOther := by
  simp [register, registerUnder, h]

/-- **a claims type without an identifiable profile field fails** -/
theorem register_notag (reg : Registry) (p : ProfDesc) (h : p.jsonTag = none) : register reg p = .err eOther := by
  simp only [register, registerUnder, h]; split <;> rfl


/-- a failed registration leaves the register — hence every lookup — as it was (`step` returns the same state) -/
theorem step_register_fail (reg : Registry) (p : ProfDesc) (h : ∀ r, register reg p ≠ .ok r) :
    (step reg (.register p)).1 = reg := by
  cases hr : register reg p with
  | ok r => exact absurd hr (h r)
  | err e => simp [step, hr]
  | panic s => simp [step, hr]

theorem register_ok (reg r : Registry) (p : ProfDesc) (h : register reg p = .ok r) :
    ∃ t, p.jsonTag = some t ∧ lookup reg p.name = none ∧
      r = reg ++ [{ key := p.name, profName := p.name, jsonTag := t, entry := p.entry }] := by
  simp only [register, registerUnder] at h
  split at h
  · cases h
  · rename_i hl
    cases ht : p.jsonTag with
    | none => simp [ht] at h
    | some t =>
      simp only [ht, Outcome.ok.injEq] at h
      refine ⟨t, rfl, ?_, h.symm⟩
      cases hx : lookup reg p.name with
      | none => rfl
      | some x => simp [hx] at hl

/-- **append-only**: a successful registration keeps every earlier entry, in place -/
theorem register_appends (reg r : Registry) (p : ProfDesc) (h : register reg p = .ok r) : ∃ e, r = reg ++ [e] ∧ e.key = p.name := by
  obtain ⟨t, _, _, rfl⟩ := register_ok reg r p h
  exact ⟨_, rfl, rfl⟩

/-- the invariant is kept by registration -/
theorem register_inv (reg r : Registry) (p : ProfDesc) (hi : RegInv reg) (h : register reg p = .ok r) : RegInv r := by
  obtain ⟨t, ht, hnew, rfl⟩ := register_ok reg r p h
  have hkey : p.name ∉ reg.map (·.key) := (lookup_none_iff reg p.name).mp hnew
  have hne : p.name ≠ [] := by
    intro he; rw [he] at hnew; have := hi.hasDefault; rw [hnew] at this; cases this
  constructor
  · simp only [List.map_append, List.map_cons, List.map_nil]
    rw [List.nodup_append]
    refine ⟨hi.keysNodup, by simp, ?_⟩
    intro a ha b hb
    simp at hb; subst hb
    intro hab; subst hab; exact hkey ha
  · intro e he hk
    simp only [List.mem_append, List.mem_singleton] at he
    rcases he with he | rfl
    · exact hi.named e he hk
    · rfl
  · rw [lookup_append_left _ _ _ hi.hasDefault]; exact hi.hasDefault
  · intro e he hk
    simp only [List.mem_append, List.mem_singleton] at he
    rcases he with he | rfl
    · have := hi.defaultNamed e he hk
      exact ⟨by rw [lookup_append_left _ _ _ this.1]; exact this.1, this.2⟩
    · exact absurd hk hne
  · have old_vs_new : ∀ e' ∈ reg, e'.profName ≠ p.name := by
      intro e' he' hp
      by_cases hk : e'.key = []
      · have := (hi.defaultNamed e' he' hk).1
        rw [hp, hnew] at this; cases this
      · have := hi.named e' he' hk
        exact hkey (List.mem_map.mpr ⟨e', he', by rw [this, hp]⟩)
    intro e1 h1 e2 h2 hp
    simp only [List.mem_append, List.mem_singleton] at h1 h2
    rcases h1 with h1 | rfl <;> rcases h2 with h2 | rfl
    · exact hi.coherent e1 h1 e2 h2 hp
    · exact absurd hp (old_vs_new e1 h1)
    · exact absurd hp.symm (old_vs_new e2 h2)
    · exact ⟨rfl, rfl⟩

/-- every history keeps the invariant -/
theorem run_inv : ∀ (ops : List Op) (reg : Registry), RegInv reg → RegInv (run reg ops).1
  | [], reg, h => h
  | op :: ops, reg, h => by
    simp only [run]
    have hs : RegInv (step reg op).1 := by
      cases op with
      | register p =>
        simp only [step]
        cases hr : register reg p with
        | ok r => exact register_inv reg r p h hr
        | err e => exact h
        | panic s => exact h
      | newClaims n => exact h
      | decodeCBOR d => exact h
      | decodeJSON ms => exact h
    exact run_inv ops _ hs

/-! ### frame: a new profile changes nothing for tokens that do not declare it -/

theorem newClaims_frame (reg r : Registry) (p : ProfDesc) (h : register reg p = .ok r) (n : Bytes) (hn : n ≠ p.name) :
    newClaims r n = newClaims reg n ∧ dispatchCBOR r n = dispatchCBOR reg n := by
  obtain ⟨t, _, _, rfl⟩ := register_ok reg r p h
  simp only [newClaims, dispatchCBOR]
  rw [lookup_append_ne _ _ _ (by simpa using hn.symm)]
  exact ⟨rfl, rfl⟩

theorem dispatchJSON_append (reg : Registry) (e : RegEntry) (ms : List (Bytes × Json)) :
    dispatchJSON (reg ++ [e]) ms = dispatchStep ms (dispatchJSON reg ms) e := by
  simp [dispatchJSON, List.foldl_append]

/-- a JSON document mentions a profile member when it has that member with a non-null value -/
def mentions (ms : List (Bytes × Json)) (tag : Bytes) : Bool :=
  match lookupMember ms tag with
  | some .null => false
  | some _ => true
  | none => false

theorem entryMatches_mentions (ms : List (Bytes × Json)) (e : RegEntry) (h : entryMatches ms e = true) :
    mentions ms e.jsonTag = true := by
  unfold entryMatches at h; unfold mentions
  cases hl : lookupMember ms e.jsonTag with
  | none => simp [hl] at h
  | some j => cases j <;> simp [hl] at h ⊢

theorem profilePresent_append (reg : Registry) (e : RegEntry) (ms : List (Bytes × Json)) :
    profilePresent (reg ++ [e]) ms = (profilePresent reg ms || mentions ms e.jsonTag) := by
  simp only [profilePresent, List.any_append, List.any_cons, List.any_nil, Bool.or_false, mentions]
  cases lookupMember ms e.jsonTag with
  | none => rfl
  | some j => cases j <;> rfl

/-- **JSON frame**: a document that does not carry the new profile's member is dispatched exactly as before -/
theorem json_frame (reg r : Registry) (p : ProfDesc) (h : register reg p = .ok r) (hi : RegInv reg)
    (ms : List (Bytes × Json)) (t : Bytes) (ht : p.jsonTag = some t) (hm : mentions ms t = false) :
    dispatchJSONOut r ms = dispatchJSONOut reg ms := by
  obtain ⟨t', ht', hnew, rfl⟩ := register_ok reg r p h
  rw [ht] at ht'; cases ht'
  have hnm : entryMatches ms { key := p.name, profName := p.name, jsonTag := t, entry := p.entry } = false := by
    cases hx : entryMatches ms { key := p.name, profName := p.name, jsonTag := t, entry := p.entry } with
    | false => rfl
    | true => have := entryMatches_mentions ms _ hx; simp only [] at this; rw [hm] at this; cases this
  have hd : dispatchJSON (reg ++ [{ key := p.name, profName := p.name, jsonTag := t, entry := p.entry }]) ms = dispatchJSON reg ms := by
    rw [dispatchJSON_append]
    unfold dispatchStep
    cases dispatchJSON reg ms <;> simp [hnm]
  unfold dispatchJSONOut defaultOut
  rw [hd, profilePresent_append]
  simp only [hm, Bool.or_false]
  rw [lookup_append_left _ _ _ hi.hasDefault]

/-! ### JSON dispatch does not depend on the order in which the register is iterated -/

inductive DCls | none | one (n : Bytes) | many
  deriving DecidableEq, Repr

def cls : Dispatch → DCls
  | .none => .none
  | .found e => .one e.profName
  | .multiple => .many

def comb : DCls → Bytes → DCls
  | .none, n => .one n
  | .one a, n => if a = n then .one a else .many
  | .many, _ => .many

theorem comb_comm (c : DCls) (a b : Bytes) : comb (comb c a) b = comb (comb c b) a := by
  cases c with
  | none =>
    simp only [comb]
    by_cases h : a = b
    · subst h; rfl
    · have h' : ¬ b = a := fun x => h x.symm
      simp [h, h']
  | one x =>
    by_cases h1 : x = a <;> by_cases h2 : x = b
    · subst h1; subst h2; simp [comb]
    · subst h1; simp [comb, h2]
    · subst h2; simp [comb, h1]
    · simp [comb, h1, h2]
  | many => rfl

def clsStep (ms : List (Bytes × Json)) (c : DCls) (e : RegEntry) : DCls :=
  if entryMatches ms e then comb c e.profName else c

theorem cls_step (ms : List (Bytes × Json)) (acc : Dispatch) (e : RegEntry) :
    cls (dispatchStep ms acc e) = clsStep ms (cls acc) e := by
  unfold dispatchStep clsStep
  cases acc with
  | multiple => simp [cls, comb]
  | none => by_cases h : entryMatches ms e = true <;> simp [h, cls, comb]
  | found f =>
    by_cases h : entryMatches ms e = true
    · simp only [h, if_true, cls, comb]
      by_cases hn : f.profName = e.profName
      · simp [hn, cls]
      · simp [hn, cls]
    · simp [h, cls]

theorem cls_fold (ms : List (Bytes × Json)) : ∀ (reg : Registry) (acc : Dispatch),
    cls (reg.foldl (dispatchStep ms) acc) = reg.foldl (clsStep ms) (cls acc)
  | [], _ => rfl
  | e :: reg, acc => by simp only [List.foldl_cons]; rw [cls_fold ms reg, cls_step]

theorem clsStep_comm (ms : List (Bytes × Json)) (c : DCls) (a b : RegEntry) :
    clsStep ms (clsStep ms c a) b = clsStep ms (clsStep ms c b) a := by
  unfold clsStep
  by_cases ha : entryMatches ms a = true <;> by_cases hb : entryMatches ms b = true <;> simp [ha, hb, comb_comm]

theorem fold_perm (ms : List (Bytes × Json)) {r1 r2 : Registry} (h : r1.Perm r2) :
    ∀ c, r1.foldl (clsStep ms) c = r2.foldl (clsStep ms) c := by
  induction h with
  | nil => intro c; rfl
  | cons x _ ih => intro c; simp only [List.foldl_cons]; exact ih _
  | swap x y l => intro c; simp only [List.foldl_cons]; rw [clsStep_comm]
  | trans _ _ ih1 ih2 => intro c; rw [ih1, ih2]

/-- a found entry is an entry of the register that matches -/
theorem found_mem (ms : List (Bytes × Json)) : ∀ (reg : Registry) (acc : Dispatch) (e : RegEntry),
    reg.foldl (dispatchStep ms) acc = .found e → e ∈ reg ∨ acc = .found e
  | [], acc, e, h => Or.inr h
  | x :: reg, acc, e, h => by
    simp only [List.foldl_cons] at h
    rcases found_mem ms reg _ e h with hm | hs
    · exact Or.inl (List.mem_cons_of_mem _ hm)
    · unfold dispatchStep at hs
      cases acc with
      | multiple => simp at hs
      | none =>
        by_cases hx : entryMatches ms x = true
        · simp [hx] at hs; subst hs; exact Or.inl (by simp)
        · simp [hx] at hs
      | found f =>
        by_cases hx : entryMatches ms x = true
        · simp only [hx, if_true] at hs
          split at hs
          · cases hs
          · simp at hs; subst hs; exact Or.inl (by simp)
        · simp [hx] at hs; exact Or.inr (by rw [hs])

/-- the implementation registered for a profile name -/
def entryOf (reg : Registry) (n : Bytes) : Option Entry := (reg.find? (·.profName == n)).map (·.entry)

theorem entryOf_mem (reg : Registry) (hi : RegInv reg) (e : RegEntry) (he : e ∈ reg) : entryOf reg e.profName = some e.entry := by
  unfold entryOf
  cases hf : reg.find? (fun x => x.profName == e.profName) with
  | none =>
    rw [List.find?_eq_none] at hf
    exact absurd (by simp) (hf e he)
  | some x =>
    have hx := List.mem_of_find?_eq_some hf
    have hp : x.profName = e.profName := by have := List.find?_some hf; simpa using this
    simp [(hi.coherent x hx e he hp).1]

/-- `find?` then project: independent of order when all candidates agree on the projection -/
theorem findmap_perm {α β} (q : α → Bool) (f : α → β) {l1 l2 : List α} (hp : l1.Perm l2)
    (H : ∀ a ∈ l1, ∀ b ∈ l1, q a = true → q b = true → f a = f b) :
    (l1.find? q).map f = (l2.find? q).map f := by
  cases h1 : l1.find? q with
  | none =>
    rw [List.find?_eq_none] at h1
    have : l2.find? q = none := by
      rw [List.find?_eq_none]; intro x hx; exact h1 x (hp.mem_iff.mpr hx)
    rw [this]
  | some a =>
    have ha := List.mem_of_find?_eq_some h1
    have hqa := List.find?_some h1
    cases h2 : l2.find? q with
    | none =>
      rw [List.find?_eq_none] at h2
      exact absurd hqa (h2 a (hp.mem_iff.mp ha))
    | some b =>
      have hb := hp.mem_iff.mpr (List.mem_of_find?_eq_some h2)
      have hqb := List.find?_some h2
      simp [H a ha b hb hqa hqb]

/-- what the caller sees, from the order-free class -/
def outOf (reg : Registry) (ms : List (Bytes × Json)) : DCls → JOut
  | .one n => (match entryOf reg n with | some x => .impl x | none => .error)
  | .many => .error
  | .none => defaultOut reg ms

theorem dispatchJSONOut_eq (reg : Registry) (hi : RegInv reg) (ms : List (Bytes × Json)) :
    dispatchJSONOut reg ms = outOf reg ms (reg.foldl (clsStep ms) .none) := by
  have hc := cls_fold ms reg .none
  simp only [cls] at hc
  rw [← hc]
  unfold dispatchJSONOut dispatchJSON
  cases hd : reg.foldl (dispatchStep ms) .none with
  | none => simp [cls, outOf]
  | multiple => simp [cls, outOf]
  | found e =>
    have hm : e ∈ reg := by
      rcases found_mem ms reg .none e hd with h | h
      · exact h
      · cases h
    simp [cls, outOf, entryOf_mem reg hi e hm]

theorem RegInv.perm {r1 r2 : Registry} (hi : RegInv r1) (hp : r1.Perm r2) : RegInv r2 := by
  have lk : ∀ k, (lookup r2 k).isSome = (lookup r1 k).isSome := by
    intro k
    cases h1 : lookup r1 k with
    | none =>
      have := (lookup_none_iff r1 k).mp h1
      have h2 : lookup r2 k = none := (lookup_none_iff r2 k).mpr (fun hx => this ((hp.map _).mem_iff.mpr hx))
      rw [h2]
    | some e =>
      cases h2 : lookup r2 k with
      | some e' => rfl
      | none =>
        have := (lookup_none_iff r2 k).mp h2
        have hm := lookup_some_mem r1 k e h1
        exact absurd ((hp.map _).mem_iff.mp (List.mem_map.mpr ⟨e, hm.1, hm.2⟩)) this
  constructor
  · exact (hp.map _).nodup_iff.mp hi.keysNodup
  · intro e he; exact hi.named e (hp.mem_iff.mpr he)
  · rw [lk]; exact hi.hasDefault
  · intro e he hk
    have := hi.defaultNamed e (hp.mem_iff.mpr he) hk
    exact ⟨by rw [lk]; exact this.1, this.2⟩
  · intro e1 h1 e2 h2; exact hi.coherent e1 (hp.mem_iff.mpr h1) e2 (hp.mem_iff.mpr h2)

theorem eq_of_key_eq : ∀ (l : Registry), (l.map (·.key)).Nodup → ∀ a ∈ l, ∀ b ∈ l, a.key = b.key → a = b
  | [], _, a, ha, _, _, _ => by cases ha
  | x :: xs, hnd, a, ha, b, hb, hk => by
    simp only [List.map_cons, List.nodup_cons] at hnd
    rcases List.mem_cons.mp ha with rfl | ha' <;> rcases List.mem_cons.mp hb with rfl | hb'
    · rfl
    · exact absurd (List.mem_map.mpr ⟨b, hb', hk.symm⟩) hnd.1
    · exact absurd (List.mem_map.mpr ⟨a, ha', hk⟩) hnd.1
    · exact eq_of_key_eq xs hnd.2 a ha' b hb' hk

/-- **JSON dispatch gives the same outcome whatever the iteration order of the register** -/
theorem json_dispatch_perm {r1 r2 : Registry} (hi : RegInv r1) (hp : r1.Perm r2) (ms : List (Bytes × Json)) :
    dispatchJSONOut r1 ms = dispatchJSONOut r2 ms := by
  rw [dispatchJSONOut_eq r1 hi ms, dispatchJSONOut_eq r2 (hi.perm hp) ms, fold_perm ms hp]
  have hpp : profilePresent r1 ms = profilePresent r2 ms := by
    unfold profilePresent; exact hp.any_eq
  have hl : ∀ k, (lookup r1 k).map (·.entry) = (lookup r2 k).map (·.entry) := by
    intro k
    unfold lookup
    apply findmap_perm _ _ hp
    intro a ha b hb qa qb
    have ka : a.key = k := by simpa using qa
    have kb : b.key = k := by simpa using qb
    rw [eq_of_key_eq r1 hi.keysNodup a ha b hb (by rw [ka, kb])]
  have he : ∀ n, entryOf r1 n = entryOf r2 n := by
    intro n
    unfold entryOf
    apply findmap_perm _ _ hp
    intro a ha b hb qa qb
    have pa : a.profName = n := by simpa using qa
    have pb : b.profName = n := by simpa using qb
    exact (hi.coherent a ha b hb (by rw [pa, pb])).1
  cases r2.foldl (clsStep ms) .none with
  | none =>
    simp only [outOf, defaultOut, hpp]
    have := hl []
    cases h1 : lookup r1 [] <;> cases h2 : lookup r2 [] <;> simp [h1, h2] at this ⊢
    rw [this]
  | one n => simp only [outOf, he n]
  | many => rfl

end Psa.Proofs.Reg
