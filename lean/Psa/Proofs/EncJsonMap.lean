import Psa.Model.EncodingJson


namespace Psa.Proofs.EncJ
open Psa Psa.Model Psa.Model.EncJ

/-! ### the ordered field map -/

/-- `Keys` and `Fields` agree, and no key occurs twice -/
structure JInv (m : JMap) : Prop where
  agree : m.keys = m.fields.map (·.1)
  nodup : m.keys.Nodup

theorem inv_empty : JInv JMap.empty := ⟨rfl, List.nodup_nil⟩

theorem has_iff (m : JMap) (k : Bytes) : m.has k = true ↔ k ∈ m.fields.map (·.1) := by
  simp [JMap.has, List.any_eq_true]

theorem add_ok (m : JMap) (k : Bytes) (v : Json) (h : m.has k = false) :
    m.add k v = .ok { keys := m.keys ++ [k], fields := m.fields ++ [(k, v)] } := by
  simp [JMap.add, h]

theorem add_dup (m : JMap) (k : Bytes) (v : Json) (h : m.has k = true) : m.add k v = .err eOther := by
  simp [JMap.add, h]

theorem add_inv (m m' : JMap) (k : Bytes) (v : Json) (hi : JInv m) (h : m.add k v = .ok m') : JInv m' := by
  unfold JMap.add at h
  split at h
  · cases h
  · rename_i hh
    cases h
    have hk : k ∉ m.fields.map (·.1) := by rw [← has_iff]; simpa using hh
    refine ⟨by simp [hi.agree], ?_⟩
    rw [List.nodup_append]
    refine ⟨hi.nodup, by simp, ?_⟩
    intro a ha b hb
    simp at hb; subst hb
    intro hab; subst hab
    rw [hi.agree] at ha; exact hk ha

theorem delete_inv (m : JMap) (k : Bytes) (hi : JInv m) : JInv (m.delete k) := by
  refine ⟨?_, ?_⟩
  · simp only [JMap.delete, hi.agree, List.filter_map]; rfl
  · exact hi.nodup.filter _

theorem get_add_same (m m' : JMap) (k : Bytes) (v : Json) (h : m.add k v = .ok m') : m'.get k = some v := by
  unfold JMap.add at h
  split at h
  · cases h
  · rename_i hh
    cases h
    have : m.fields.find? (fun x => x.1 == k) = none := by
      simp only [JMap.has, Bool.not_eq_true, List.any_eq_false] at hh
      simp only [List.find?_eq_none]; intro x hx; simp [hh x hx]
    simp [JMap.get, List.find?_append, this]

theorem get_add_other (m m' : JMap) (k k' : Bytes) (v : Json) (h : m.add k v = .ok m') (hne : k' ≠ k) : m'.get k' = m.get k' := by
  unfold JMap.add at h
  split at h
  · cases h
  · cases h
    simp only [JMap.get, List.find?_append]
    cases hf : m.fields.find? (fun x => x.1 == k') with
    | some p => simp
    | none => simp [hne.symm]

theorem get_delete_same (m : JMap) (k : Bytes) : (m.delete k).get k = none := by
  simp [JMap.get, JMap.delete, List.find?_filter]

theorem get_delete_other (m : JMap) (k k' : Bytes) (hne : k' ≠ k) : (m.delete k).get k' = m.get k' := by
  simp only [JMap.get, JMap.delete]
  congr 1
  induction m.fields with
  | nil => rfl
  | cons p ps ih =>
    by_cases h1 : p.1 = k
    · have h3 : ¬ p.1 = k' := by rw [h1]; exact hne.symm
      rw [List.filter_cons, List.find?_cons]
      simp only [h1, bne_self_eq_false, Bool.false_eq_true, if_false]
      have : (k == k') = false := by simp [hne.symm]
      rw [h1] at h3
      simpa [this] using ih
    · have hb : (p.1 != k) = true := by simp [h1]
      rw [List.filter_cons, if_pos hb, List.find?_cons, List.find?_cons, ih]

theorem has_eq_get (m : JMap) (k : Bytes) : m.has k = (m.get k).isSome := by
  simp only [JMap.has, JMap.get, Option.isSome_map]
  induction m.fields with
  | nil => rfl
  | cons p ps ih => by_cases h : p.1 == k <;> simp [List.find?_cons, h, ih]

end Psa.Proofs.EncJ
