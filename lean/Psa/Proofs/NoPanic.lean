/- Panic-freedom of the claims layer (used by C01, C05). -/
import Psa.Proofs.Getters
namespace Psa.Proofs
open Psa Psa.Model Psa.Spec

def NoPanic {α} (o : Outcome α) : Prop := ∀ s, o ≠ .panic s

theorem noPanic_ok {α} (a : α) : NoPanic (Outcome.ok a) := fun _ h => by cases h
theorem noPanic_err {α} (m : ErrMask) : NoPanic (Outcome.err m : Outcome α) := fun _ h => by cases h

theorem noPanic_bind {α β} (x : Outcome α) (f : α → Outcome β) (hx : NoPanic x) (hf : ∀ a, NoPanic (f a)) :
    NoPanic (x.bind f) := by
  cases x with
  | ok a => exact hf a
  | err m => exact noPanic_err m
  | panic s => exact absurd rfl (hx s)

theorem noPanic_of_cases {o : Outcome Unit} (h : o = .ok () ∨ o = .err eWrongSyntax) : NoPanic o := by
  rcases h with h | h <;> rw [h] <;> intro s hh <;> cases hh

theorem noPanic_comp_validate (sc : SwComp) : NoPanic sc.validate := by
  rcases comp_validate_cases sc with h | ⟨m, h⟩ <;> rw [h] <;> intro s hh <;> cases hh

theorem noPanic_valuesOf (l : List (Option SwComp)) : NoPanic (valuesOf l) := by
  induction l with
  | nil => exact noPanic_ok _
  | cons x xs ih =>
    cases x with
    | none => exact noPanic_err _
    | some sc =>
      simp only [valuesOf]
      have ih' := ih
      rcases comp_validate_cases sc with h | ⟨m, h⟩ <;> rw [h]
      · exact noPanic_bind _ _ ih' (fun _ => noPanic_ok _)
      · exact noPanic_err m

theorem noPanic_get (g : Getter) (c : Claims) : NoPanic (Model.get g c) := by
  obtain ⟨prof, canonical, profile, clientId, lifecycle, implId, bootSeed, certRef, sw, noSw, nonce, instId, vsi⟩ := c
  cases g <;> simp only [Model.get]
  · unfold getProfile; simp only []
    cases prof <;> cases profile with
    | none => first | exact noPanic_ok _ | exact noPanic_err _
    | some pv =>
      cases pv with
      | invalid => exact noPanic_err _
      | str s => simp only []; split <;> first | exact noPanic_ok _ | exact noPanic_err _
  · unfold getClientID; cases clientId <;> first | exact noPanic_ok _ | exact noPanic_err _
  · unfold getSecurityLifeCycle
    cases lifecycle with
    | none => exact noPanic_err _
    | some x => exact noPanic_bind _ _ (noPanic_of_cases (validateLC_cases x)) (fun _ => noPanic_ok _)
  · unfold getImplID validateImplID
    cases implId with
    | none => exact noPanic_err _
    | some x => simp only []; split <;> simp [Outcome.bind] <;> first | exact noPanic_ok _ | exact noPanic_err _
  · unfold getBootSeed; simp only []
    cases prof <;> cases bootSeed with
    | none => exact noPanic_err _
    | some x => simp only []; split <;> first | exact noPanic_ok _ | exact noPanic_err _
  · unfold getCertificationReference; simp only []
    cases certRef with
    | none => exact noPanic_err _
    | some s => cases prof <;> simp only [] <;> split <;> first | exact noPanic_ok _ | exact noPanic_err _
  · unfold getSoftwareComponents; simp only []
    cases prof <;> simp only []
    · split
      · cases noSw <;> first | exact noPanic_ok _ | exact noPanic_err _
      · cases noSw with
        | some n => exact noPanic_err _
        | none => exact noPanic_bind _ _ (noPanic_valuesOf _) (fun _ => noPanic_ok _)
    · split
      · exact noPanic_err _
      · exact noPanic_bind _ _ (noPanic_valuesOf _) (fun _ => noPanic_ok _)
  · unfold getNonce validateNonce
    cases nonce with
    | none => exact noPanic_err _
    | some l =>
      match l with
      | [] => exact noPanic_err _
      | [n] => exact noPanic_bind _ _ (noPanic_of_cases (validateHash_cases n)) (fun _ => noPanic_ok _)
      | a :: b :: r => exact noPanic_err _
  · unfold getInstID
    cases instId with
    | none => exact noPanic_err _
    | some x => exact noPanic_bind _ _ (noPanic_of_cases (validateInstID_cases x)) (fun _ => noPanic_ok _)
  · unfold getVSI validateVSI
    cases vsi with
    | none => exact noPanic_err _
    | some x => cases x <;> simp [Outcome.bind] <;> first | exact noPanic_ok _ | exact noPanic_err _

theorem noPanic_filterError {α} (o : Outcome α) (h : NoPanic o) : NoPanic (filterError o) := by
  cases o with
  | ok a => exact noPanic_ok _
  | err m => simp only [filterError]; split <;> first | exact noPanic_ok _ | exact noPanic_err _
  | panic s => exact absurd rfl (h s)

theorem noPanic_validateWith (o : List Getter) (c : Claims) :
    NoPanic (validateWith o c) := by
  induction o with
  | nil => exact noPanic_ok _
  | cons g rest ih =>
    simp only [validateWith]
    have := noPanic_filterError _ (noPanic_get g c)
    cases h : filterError (Model.get g c) with
    | ok a => exact ih
    | err m => exact noPanic_err m
    | panic s => exact absurd h (this s)

end Psa.Proofs
