import Psa.Proofs.JsonShape
import Psa.Proofs.RoundTrip
import Psa.Proofs.Base64
namespace Psa.Proofs.JRT
open Psa Psa.Model Psa.Spec Psa.Proofs.RT

theorem nodup_of_map {α β} (g : α → β) : ∀ l : List α, (l.map g).Nodup → l.Nodup
  | [], _ => List.nodup_nil
  | a :: l, h => by
    simp only [List.map_cons, List.nodup_cons] at h ⊢
    exact ⟨fun ha => h.1 (List.mem_map_of_mem ha), nodup_of_map g l h.2⟩

theorem inj_of_nodup_map {α β} (g : α → β) : ∀ (l : List α), (l.map g).Nodup → ∀ a ∈ l, ∀ b ∈ l, g a = g b → a = b
  | [], _, a, ha, _, _, _ => by cases ha
  | x :: l, h, a, ha, b, hb, hab => by
    simp only [List.map_cons, List.nodup_cons] at h
    rcases List.mem_cons.mp ha with rfl | ha' <;> rcases List.mem_cons.mp hb with rfl | hb'
    · rfl
    · exact absurd (List.mem_map.mpr ⟨b, hb', hab.symm⟩) h.1
    · exact absurd (List.mem_map.mpr ⟨a, ha', hab⟩) h.1
    · exact inj_of_nodup_map g l h.2 a ha' b hb' hab

/-- members built field by field: one member per field that has a value -/
def membersOf {F : Type} (fields : List F) (name : F → Bytes) (val : F → Option Json) : List (Bytes × Json) :=
  fields.filterMap fun f => (val f).map fun v => (name f, v)

theorem noDupB_iff : ∀ l : List Bytes, noDupB l = true ↔ l.Nodup
  | [] => by simp [noDupB]
  | x :: xs => by
    simp only [noDupB, Bool.and_eq_true, Bool.not_eq_true', List.nodup_cons, noDupB_iff xs]
    constructor
    · rintro ⟨h1, h2⟩; exact ⟨by simpa using h1, h2⟩
    · rintro ⟨h1, h2⟩; exact ⟨by simpa using h1, h2⟩

/-- names good for the model's JSON reader: ASCII, and distinct even ignoring case -/
def NamesGood (l : List Bytes) : Prop := (l.map lowerBytes).Nodup ∧ ∀ n ∈ l, ∀ b ∈ n, b.toNat < 128

theorem names_of_members {F : Type} (fields : List F) (name : F → Bytes) (val : F → Option Json) :
    ((membersOf fields name val).map (·.1)).Sublist (fields.map name) := by
  induction fields with
  | nil => simp [membersOf]
  | cons f fs ih =>
    simp only [membersOf, List.filterMap_cons, List.map_cons]
    cases val f with
    | none => exact List.Sublist.cons _ ih
    | some v => simp only [Option.map_some, List.map_cons]; exact List.Sublist.cons₂ _ ih

theorem namesClean_members {F : Type} (fields : List F) (name : F → Bytes) (val : F → Option Json)
    (hg : NamesGood (fields.map name)) : namesClean (membersOf fields name val) = true := by
  unfold namesClean
  have hs := names_of_members fields name val
  rw [Bool.and_eq_true]
  constructor
  · rw [noDupB_iff]
    have : ((membersOf fields name val).map fun m => lowerBytes m.1) = ((membersOf fields name val).map (·.1)).map lowerBytes := by
      simp [List.map_map]
    rw [this]
    exact (hs.map lowerBytes).nodup hg.1
  · rw [List.all_eq_true]
    intro m hm
    rw [List.all_eq_true]
    intro b hb
    have : m.1 ∈ fields.map name := hs.subset (List.mem_map_of_mem hm)
    simpa using hg.2 m.1 this b hb

theorem lookup_members {F : Type} (fields : List F) (name : F → Bytes) (val : F → Option Json)
    (hnd : (fields.map name).Nodup) (f0 : F) (hf : f0 ∈ fields) :
    lookupMember (membersOf fields name val) (name f0) = val f0 := by
  induction fields with
  | nil => cases hf
  | cons f fs ih =>
    simp only [List.map_cons, List.nodup_cons] at hnd
    simp only [membersOf, List.filterMap_cons]
    rcases List.mem_cons.mp hf with rfl | hf'
    · cases hv : val f0 with
      | some v => simp [lookupMember]
      | none =>
        simp only [Option.map_none]
        -- no later member carries this name
        unfold lookupMember
        have : (fs.filterMap fun f => (val f).map fun v => (name f, v)).find? (fun x => x.1 == name f0) = none := by
          rw [List.find?_eq_none]
          intro x hx hxe
          obtain ⟨g, hg, hgv⟩ := List.mem_filterMap.mp hx
          cases hvg : val g with
          | none => simp [hvg] at hgv
          | some w =>
            simp only [hvg, Option.map_some, Option.some.injEq] at hgv
            subst hgv
            simp only [beq_iff_eq] at hxe
            exact hnd.1 (List.mem_map.mpr ⟨g, hg, hxe⟩)
        simp [this]
    · have hne : name f ≠ name f0 := fun he => hnd.1 (he ▸ List.mem_map_of_mem hf')
      cases hv : val f with
      | none => simp only [Option.map_none]; exact ih hnd.2 hf'
      | some v =>
        simp only [Option.map_some]
        unfold lookupMember
        rw [List.find?_cons]
        have : ((name f, v).1 == name f0) = false := by simpa using hne
        simp only [this]
        exact ih hnd.2 hf'

theorem member_members {F : Type} (fields : List F) (name : F → Bytes) (val : F → Option Json)
    (hg : NamesGood (fields.map name)) (f0 : F) (hf : f0 ∈ fields) :
    member (membersOf fields name val) (name f0) = .ok (val f0) := by
  have hnd : (fields.map name).Nodup := by
    exact nodup_of_map lowerBytes _ hg.1
  unfold member
  rw [lookup_members fields name val hnd f0 hf]
  cases hv : val f0 with
  | some v => rfl
  | none =>
    simp only []
    have : (membersOf fields name val).any (fun m => lowerBytes m.1 == lowerBytes (name f0)) = false := by
      rw [List.any_eq_false]
      intro m hm hme
      obtain ⟨g, hgm, hgv⟩ := List.mem_filterMap.mp hm
      cases hvg : val g with
      | none => simp [hvg] at hgv
      | some w =>
        simp only [hvg, Option.map_some, Option.some.injEq] at hgv
        subst hgv
        simp only [beq_iff_eq] at hme
        -- equal lower-cased names in a list whose lower-cased names are distinct: the same field
        have hinj := inj_of_nodup_map lowerBytes _ hg.1 _ (List.mem_map_of_mem hgm) _ (List.mem_map_of_mem hf) hme
        have hinj2 := inj_of_nodup_map name _ hnd g hgm f0 hf hinj
        subst hinj2
        rw [hv] at hvg; cases hvg
    simp [this]

theorem p1_names_good : NamesGood ((JField.of .p1).map (JField.name .p1)) := by
  constructor
  · decide
  · decide
theorem p2_names_good : NamesGood ((JField.of .p2).map (JField.name .p2)) := by
  constructor
  · decide
  · decide
theorem comp_names_good : NamesGood (CField.all.map CField.name) := by
  constructor
  · decide
  · decide

/-- what `fld` makes of a member value -/
def fldRes {α : Type} (v : Option Json) (dec : Json → Dec α) (set : α → Claims → Claims) : Dec (Claims → Claims) :=
  match v with
  | none => .ok id
  | some j => (dec j).map set

theorem fldRes_map {α β : Type} (o : Option α) (enc : α → Json) (dec : Json → Dec β) (set : β → Claims → Claims)
    (g : Option α → Claims → Claims) (hn : g none = id)
    (hs : ∀ a, o = some a → (dec (enc a)).map set = .ok (g (some a))) :
    fldRes (o.map enc) dec set = .ok (g o) := by
  cases o with
  | none => simp [fldRes, hn]
  | some a => simp only [fldRes, Option.map_some]; exact hs a rfl

theorem fldRes_opt {β : Type} (v : Option Json) (dec : Json → Dec β) (set : β → Claims → Claims) (r : Claims → Claims)
    (hn : v = none → r = id) (hs : ∀ j, v = some j → (dec j).map set = .ok r) : fldRes v dec set = .ok r := by
  cases v with
  | none => simp [fldRes, hn rfl]
  | some j => simp only [fldRes]; exact hs j rfl

theorem fld_members {F α : Type} (fields : List F) (name : F → Bytes) (val : F → Option Json)
    (hg : NamesGood (fields.map name)) (f0 : F) (hf : f0 ∈ fields) (dec : Json → Dec α) (set : α → Claims → Claims) :
    fld (membersOf fields name val) (name f0) dec set = fldRes (val f0) dec set := by
  unfold fld fldRes
  rw [member_members fields name val hg f0 hf]
  cases val f0 <;> rfl

theorem combine_ok (c : Claims) (gs : List (Claims → Claims)) :
    combine c (gs.map Dec.ok) () = .ok (gs.foldl (fun acc g => g acc) c) := by
  unfold combine
  split
  · rename_i h
    exfalso
    rw [List.any_eq_true] at h
    obtain ⟨r, hr, hm⟩ := h
    obtain ⟨g, _, rfl⟩ := List.mem_map.mp hr
    simp at hm
  · split
    · rename_i h
      exfalso
      rw [List.any_eq_true] at h
      obtain ⟨r, hr, hm⟩ := h
      obtain ⟨g, _, rfl⟩ := List.mem_map.mp hr
      simp at hm
    · rename_i h1 h2
      clear h1 h2
      congr 1
      induction gs generalizing c with
      | nil => rfl
      | cons g gs ih => simp only [List.map_cons, List.foldl_cons]; exact ih (g c)

/-- one component: decoding its JSON form gives it back -/
theorem jDecComp_compJson (sc : SwComp) : jDecComp (compJson sc) = .ok (some sc) := by
  have hm : compJson sc = .obj (membersOf CField.all CField.name (compJsonVal sc)) := rfl
  rw [hm]
  unfold jDecComp
  simp only [namesClean_members CField.all CField.name (compJsonVal sc) comp_names_good, Bool.not_true,
    Bool.false_eq_true, if_false]
  have m1 := member_members CField.all CField.name (compJsonVal sc) comp_names_good .mtype (by decide)
  have m2 := member_members CField.all CField.name (compJsonVal sc) comp_names_good .mval (by decide)
  have m3 := member_members CField.all CField.name (compJsonVal sc) comp_names_good .version (by decide)
  have m4 := member_members CField.all CField.name (compJsonVal sc) comp_names_good .signer (by decide)
  have m5 := member_members CField.all CField.name (compJsonVal sc) comp_names_good .mdesc (by decide)
  have e1 : jMType = CField.name .mtype := rfl
  have e2 : jMVal = CField.name .mval := rfl
  have e3 : jVersion = CField.name .version := rfl
  have e4 : jSigner = CField.name .signer := rfl
  have e5 : jMDesc = CField.name .mdesc := rfl
  rw [e1, e2, e3, e4, e5, m1, m2, m3, m4, m5]
  obtain ⟨mt, mv, ver, sg, md⟩ := sc
  simp only [Dec.bind, compJsonVal]
  cases mt <;> cases mv <;> cases ver <;> cases sg <;> cases md <;>
    simp [jDecText, jDecBytes, jBytes, b64_roundtrip]

theorem decAll_jcomps : ∀ l : List SwComp, decAll jDecComp (l.map compJson) = .ok (l.map some)
  | [] => rfl
  | sc :: l => by simp only [List.map_cons, decAll, jDecComp_compJson sc, decAll_jcomps l]


/-! field setters as total functions of the optional value -/
def gProfile (o : Option Bytes) (s : Claims) : Claims := match o with | none => s | some a => { s with profile := some (.str a) }
def gClientId (o : Option Int) (s : Claims) : Claims := match o with | none => s | some a => { s with clientId := some a }
def gLifecycle (o : Option Nat) (s : Claims) : Claims := match o with | none => s | some a => { s with lifecycle := some a }
def gImplId (o : Option Bytes) (s : Claims) : Claims := match o with | none => s | some a => { s with implId := some a }
def gBootSeed (o : Option Bytes) (s : Claims) : Claims := match o with | none => s | some a => { s with bootSeed := some a }
def gCertRef (o : Option Bytes) (s : Claims) : Claims := match o with | none => s | some a => { s with certRef := some a }
def gNoSw (o : Option Nat) (s : Claims) : Claims := match o with | none => s | some a => { s with noSw := some a }
def gNonce1 (o : Option Bytes) (s : Claims) : Claims := match o with | none => s | some a => { s with nonce := some [a] }
def gInstId (o : Option Bytes) (s : Claims) : Claims := match o with | none => s | some a => { s with instId := some a }
def gVsi (o : Option Bytes) (s : Claims) : Claims := match o with | none => s | some a => { s with vsi := some a }
def gSw (f : SwField) (s : Claims) : Claims := if f.elems.isEmpty then s else { s with sw := rtSw f }
def gNonce2 (o : Option (List Bytes)) (s : Claims) : Claims := match nonceRt o with | none => s | some l => { s with nonce := some l }

theorem jv_profile (c : Claims) : jsonVal c .profile = (profStr c.profile).map .str := by
  simp only [jsonVal]
  cases c.profile with
  | none => rfl
  | some v => cases v <;> rfl

theorem jv_nonce1 (c : Claims) (h : c.nonce = none ∨ ∃ b, c.nonce = some [b]) : jsonVal c .nonce = (single c.nonce).map jBytes := by
  simp only [jsonVal]
  rcases h with h | ⟨b, h⟩ <;> rw [h] <;> rfl

theorem p1_json_decode (u : Bytes → Dec Bytes) (c : Claims) (hp : c.prof = .p1) (hb : ClaimsBounded c)
    (hN : c.nonce = none ∨ ∃ b, c.nonce = some [b]) :
    unmarshalJSONInto u (Claims.new .p1) (jsonDoc c) =
      .ok (st1 ((profStr c.profile).map .str) c.clientId c.lifecycle c.implId c.bootSeed c.certRef (rtSw c.sw) c.noSw
        ((single c.nonce).map fun b => [b]) c.instId c.vsi) := by
  obtain ⟨b1, b2, b3, _, _, _, _, _, _, _, _, _⟩ := hb
  have hm : jsonDoc c = .obj (membersOf (JField.of .p1) (JField.name .p1) (jsonVal c)) := by
    simp only [jsonDoc, jsonMembers, hp]; rfl
  rw [hm]
  unfold unmarshalJSONInto
  simp only [namesClean_members (JField.of .p1) (JField.name .p1) (jsonVal c) p1_names_good, Bool.not_true,
    Bool.false_eq_true, if_false]
  have hnp : (Claims.new .p1).prof = .p1 := rfl
  simp only [hnp]
  have n0 : jP1Profile = JField.name .p1 .profile := rfl
  have n1 : jClientId = JField.name .p1 .clientId := rfl
  have n2 : jLifecycle = JField.name .p1 .lifecycle := rfl
  have n3 : jImplId = JField.name .p1 .implId := rfl
  have n4 : jBootSeed = JField.name .p1 .bootSeed := rfl
  have n5 : jP1CertRef = JField.name .p1 .certRef := rfl
  have n6 : jSw = JField.name .p1 .sw := rfl
  have n7 : jNoSw = JField.name .p1 .noSw := rfl
  have n8 : jNonce = JField.name .p1 .nonce := rfl
  have n9 : jInstId = JField.name .p1 .instId := rfl
  have n10 : jVsi = JField.name .p1 .vsi := rfl
  rw [n0, n1, n2, n3, n4, n5, n6, n7, n8, n9, n10]
  simp only [fld_members (JField.of .p1) (JField.name .p1) (jsonVal c) p1_names_good _ (by decide : JField.profile ∈ JField.of .p1),
    fld_members (JField.of .p1) (JField.name .p1) (jsonVal c) p1_names_good _ (by decide : JField.clientId ∈ JField.of .p1),
    fld_members (JField.of .p1) (JField.name .p1) (jsonVal c) p1_names_good _ (by decide : JField.lifecycle ∈ JField.of .p1),
    fld_members (JField.of .p1) (JField.name .p1) (jsonVal c) p1_names_good _ (by decide : JField.implId ∈ JField.of .p1),
    fld_members (JField.of .p1) (JField.name .p1) (jsonVal c) p1_names_good _ (by decide : JField.bootSeed ∈ JField.of .p1),
    fld_members (JField.of .p1) (JField.name .p1) (jsonVal c) p1_names_good _ (by decide : JField.certRef ∈ JField.of .p1),
    fld_members (JField.of .p1) (JField.name .p1) (jsonVal c) p1_names_good _ (by decide : JField.sw ∈ JField.of .p1),
    fld_members (JField.of .p1) (JField.name .p1) (jsonVal c) p1_names_good _ (by decide : JField.noSw ∈ JField.of .p1),
    fld_members (JField.of .p1) (JField.name .p1) (jsonVal c) p1_names_good _ (by decide : JField.nonce ∈ JField.of .p1),
    fld_members (JField.of .p1) (JField.name .p1) (jsonVal c) p1_names_good _ (by decide : JField.instId ∈ JField.of .p1),
    fld_members (JField.of .p1) (JField.name .p1) (jsonVal c) p1_names_good _ (by decide : JField.vsi ∈ JField.of .p1)]
  -- each member decodes to a store of the claim's own value
  have r0 : fldRes (jsonVal c .profile) jDecText (fun x c => { c with profile := x.map .str }) = .ok (gProfile (profStr c.profile)) := by
    rw [jv_profile]
    exact fldRes_map _ _ _ _ gProfile rfl (fun a _ => by simp [jDecText, Dec.map, Dec.bind]; rfl)
  have r1 : fldRes (jsonVal c .clientId) (jDecInt (-2147483648) 2147483647) (fun x c => { c with clientId := x }) = .ok (gClientId c.clientId) :=
    fldRes_map _ _ _ _ gClientId rfl (fun a ha => by
      have := b1 a ha
      simp [jDecInt, this.1, this.2, Dec.map, Dec.bind]; rfl)
  have r2 : fldRes (jsonVal c .lifecycle) (jDecInt 0 65535) (fun x c => { c with lifecycle := x.map Int.toNat }) = .ok (gLifecycle c.lifecycle) := by
    have jv : jsonVal c .lifecycle = c.lifecycle.map (fun v : Nat => Json.int v) := by
      simp only [jsonVal]; cases c.lifecycle <;> rfl
    rw [jv]
    exact fldRes_map c.lifecycle (fun v : Nat => Json.int v) _ _ gLifecycle rfl (fun a ha => by
      have := b2 a ha
      have h2 : (a : Int) ≤ 65535 := by omega
      simp [jDecInt, h2, Dec.map, Dec.bind]; rfl)
  have r3 : fldRes (jsonVal c .implId) jDecBytes (fun x c => { c with implId := x }) = .ok (gImplId c.implId) :=
    fldRes_map _ _ _ _ gImplId rfl (fun a _ => by simp [jDecBytes, jBytes, b64_roundtrip, Dec.map, Dec.bind]; rfl)
  have r4 : fldRes (jsonVal c .bootSeed) jDecBytes (fun x c => { c with bootSeed := x }) = .ok (gBootSeed c.bootSeed) :=
    fldRes_map _ _ _ _ gBootSeed rfl (fun a _ => by simp [jDecBytes, jBytes, b64_roundtrip, Dec.map, Dec.bind]; rfl)
  have r5 : fldRes (jsonVal c .certRef) jDecText (fun x c => { c with certRef := x }) = .ok (gCertRef c.certRef) :=
    fldRes_map _ _ _ _ gCertRef rfl (fun a _ => by simp [jDecText, Dec.map, Dec.bind]; rfl)
  have r6 : fldRes (jsonVal c .sw) (jDecSw ({ (Claims.new .p1) with profile := none } : Claims).sw) (fun x c => { c with sw := x }) = .ok (gSw c.sw) := by
    apply fldRes_opt
    · intro h
      simp only [jsonVal] at h
      by_cases he : c.sw.elems.isEmpty = true
      · funext s; simp [gSw, he]
      · simp [he] at h
    · intro j h
      simp only [jsonVal] at h
      by_cases he : c.sw.elems.isEmpty = true
      · simp [he] at h
      · rw [if_neg he] at h
        simp only [Option.some.injEq] at h
        subst h
        have : ({ (Claims.new .p1) with profile := none } : Claims).sw = .cont none := rfl
        rw [this]
        simp only [jDecSw, jDecComps, decAll_jcomps, Dec.map, Dec.bind]
        congr 1
        funext s
        unfold gSw rtSw
        rw [if_neg he, if_neg he]
  have r7 : fldRes (jsonVal c .noSw) (jDecInt 0 18446744073709551615) (fun x c => { c with noSw := x.map Int.toNat }) = .ok (gNoSw c.noSw) := by
    have jv : jsonVal c .noSw = c.noSw.map (fun v : Nat => Json.int v) := by
      simp only [jsonVal]; cases c.noSw <;> rfl
    rw [jv]
    exact fldRes_map c.noSw (fun v : Nat => Json.int v) _ _ gNoSw rfl (fun a ha => by
      have := b3 a ha
      have h2 : (a : Int) ≤ 18446744073709551615 := by omega
      simp [jDecInt, h2, Dec.map, Dec.bind]; rfl)
  have r8 : fldRes (jsonVal c .nonce) jDecBytes (fun x c => { c with nonce := x.map fun b => [b] }) = .ok (gNonce1 (single c.nonce)) := by
    rw [jv_nonce1 c hN]
    exact fldRes_map _ _ _ _ gNonce1 rfl (fun a _ => by simp [jDecBytes, jBytes, b64_roundtrip, Dec.map, Dec.bind]; rfl)
  have r9 : fldRes (jsonVal c .instId) jDecBytes (fun x c => { c with instId := x }) = .ok (gInstId c.instId) :=
    fldRes_map _ _ _ _ gInstId rfl (fun a _ => by simp [jDecBytes, jBytes, b64_roundtrip, Dec.map, Dec.bind]; rfl)
  have r10 : fldRes (jsonVal c .vsi) jDecText (fun x c => { c with vsi := x }) = .ok (gVsi c.vsi) :=
    fldRes_map _ _ _ _ gVsi rfl (fun a _ => by simp [jDecText, Dec.map, Dec.bind]; rfl)
  rw [r0, r1, r2, r3, r4, r5, r6, r7, r8, r9, r10]
  have hl : [Dec.ok (gProfile (profStr c.profile)), Dec.ok (gClientId c.clientId), Dec.ok (gLifecycle c.lifecycle),
      Dec.ok (gImplId c.implId), Dec.ok (gBootSeed c.bootSeed), Dec.ok (gCertRef c.certRef), Dec.ok (gSw c.sw),
      Dec.ok (gNoSw c.noSw), Dec.ok (gNonce1 (single c.nonce)), Dec.ok (gInstId c.instId), Dec.ok (gVsi c.vsi)] =
      [gProfile (profStr c.profile), gClientId c.clientId, gLifecycle c.lifecycle, gImplId c.implId, gBootSeed c.bootSeed,
       gCertRef c.certRef, gSw c.sw, gNoSw c.noSw, gNonce1 (single c.nonce), gInstId c.instId, gVsi c.vsi].map Dec.ok := rfl
  rw [hl, combine_ok]
  congr 1
  have e0 : ({ (Claims.new .p1) with profile := none } : Claims) =
      st1 none none none none none none (.cont none) none none none none := rfl
  show List.foldl (fun (acc : Claims) (g : Claims → Claims) => g acc) (st1 none none none none none none (.cont none) none none none none) _ = _
  simp only [List.foldl]
  -- evaluate the stores from the inside out
  have s0 : gProfile (profStr c.profile) (st1 none none none none none none (.cont none) none none none none) =
      st1 ((profStr c.profile).map .str) none none none none none (.cont none) none none none none := by
    cases profStr c.profile <;> rfl
  rw [s0]
  have s1 : gClientId c.clientId (st1 ((profStr c.profile).map .str) none none none none none (.cont none) none none none none) =
      st1 ((profStr c.profile).map .str) c.clientId none none none none (.cont none) none none none none := by
    cases c.clientId <;> rfl
  rw [s1]
  have s2 : gLifecycle c.lifecycle (st1 ((profStr c.profile).map .str) c.clientId none none none none (.cont none) none none none none) =
      st1 ((profStr c.profile).map .str) c.clientId c.lifecycle none none none (.cont none) none none none none := by
    cases c.lifecycle <;> rfl
  rw [s2]
  have s3 : gImplId c.implId (st1 ((profStr c.profile).map .str) c.clientId c.lifecycle none none none (.cont none) none none none none) =
      st1 ((profStr c.profile).map .str) c.clientId c.lifecycle c.implId none none (.cont none) none none none none := by
    cases c.implId <;> rfl
  rw [s3]
  have s4 : gBootSeed c.bootSeed (st1 ((profStr c.profile).map .str) c.clientId c.lifecycle c.implId none none (.cont none) none none none none) =
      st1 ((profStr c.profile).map .str) c.clientId c.lifecycle c.implId c.bootSeed none (.cont none) none none none none := by
    cases c.bootSeed <;> rfl
  rw [s4]
  have s5 : gCertRef c.certRef (st1 ((profStr c.profile).map .str) c.clientId c.lifecycle c.implId c.bootSeed none (.cont none) none none none none) =
      st1 ((profStr c.profile).map .str) c.clientId c.lifecycle c.implId c.bootSeed c.certRef (.cont none) none none none none := by
    cases c.certRef <;> rfl
  rw [s5]
  have s6 : gSw c.sw (st1 ((profStr c.profile).map .str) c.clientId c.lifecycle c.implId c.bootSeed c.certRef (.cont none) none none none none) =
      st1 ((profStr c.profile).map .str) c.clientId c.lifecycle c.implId c.bootSeed c.certRef (rtSw c.sw) none none none none := by
    unfold gSw
    by_cases he : c.sw.elems.isEmpty = true
    · simp only [he, if_true, rtSw]
    · simp only [he, if_false]; rfl
  rw [s6]
  have s7 : gNoSw c.noSw (st1 ((profStr c.profile).map .str) c.clientId c.lifecycle c.implId c.bootSeed c.certRef (rtSw c.sw) none none none none) =
      st1 ((profStr c.profile).map .str) c.clientId c.lifecycle c.implId c.bootSeed c.certRef (rtSw c.sw) c.noSw none none none := by
    cases c.noSw <;> rfl
  rw [s7]
  have s8 : gNonce1 (single c.nonce) (st1 ((profStr c.profile).map .str) c.clientId c.lifecycle c.implId c.bootSeed c.certRef (rtSw c.sw) c.noSw none none none) =
      st1 ((profStr c.profile).map .str) c.clientId c.lifecycle c.implId c.bootSeed c.certRef (rtSw c.sw) c.noSw ((single c.nonce).map fun b => [b]) none none := by
    cases single c.nonce <;> rfl
  rw [s8]
  have s9 : gInstId c.instId (st1 ((profStr c.profile).map .str) c.clientId c.lifecycle c.implId c.bootSeed c.certRef (rtSw c.sw) c.noSw ((single c.nonce).map fun b => [b]) none none) =
      st1 ((profStr c.profile).map .str) c.clientId c.lifecycle c.implId c.bootSeed c.certRef (rtSw c.sw) c.noSw ((single c.nonce).map fun b => [b]) c.instId none := by
    cases c.instId <;> rfl
  rw [s9]
  cases c.vsi <;> rfl


def jsonNonce : Option (List Bytes) → Option Json
  | some [b] => some (jBytes b)
  | some (a :: b :: r) => some (.arr ((a :: b :: r).map jBytes))
  | _ => none

theorem jv_nonce2 (c : Claims) : jsonVal c .nonce = jsonNonce c.nonce := by
  simp only [jsonVal]
  cases c.nonce with
  | none => rfl
  | some l =>
    cases l with
    | nil => rfl
    | cons a t => cases t <;> rfl

theorem decAll_jnonces : ∀ l : List Bytes, decAll jDecNonceElem (l.map jBytes) = .ok l
  | [] => rfl
  | b :: l => by
    simp only [List.map_cons, decAll, decAll_jnonces l]
    simp [jDecNonceElem, jBytes, b64_roundtrip]

theorem jDecEatNonce_wire (n : Option (List Bytes)) (j : Json) (h : jsonNonce n = some j) : jDecEatNonce j = .ok (nonceRt n) := by
  cases n with
  | none => simp [jsonNonce] at h
  | some l =>
    cases l with
    | nil => simp [jsonNonce] at h
    | cons a t =>
      cases t with
      | nil =>
        simp only [jsonNonce, Option.some.injEq] at h; subst h
        simp [jDecEatNonce, jDecNonceElem, jBytes, b64_roundtrip, Dec.map, Dec.bind, nonceRt]
      | cons b r =>
        simp only [jsonNonce, Option.some.injEq] at h; subst h
        have := decAll_jnonces (a :: b :: r)
        simp only [jDecEatNonce, this, Dec.map, Dec.bind, nonceRt]

def gProfile2 (o : Option Bytes) (s : Claims) : Claims := match o with | none => s | some a => { s with profile := some (.str a) }

theorem p2_json_decode (u : Bytes → Dec Bytes) (c : Claims) (hp : c.prof = .p2) (hb : ClaimsBounded c)
    (hu : ∀ s, profStr c.profile = some s → u s = .ok s) :
    unmarshalJSONInto u (Claims.new .p2) (jsonDoc c) =
      .ok (st2 ((profStr c.profile).map .str) c.clientId c.lifecycle c.implId c.bootSeed c.certRef (rtSw c.sw)
        (nonceRt c.nonce) c.instId c.vsi) := by
  obtain ⟨b1, b2, b3, _, _, _, _, _, _, _, _, _⟩ := hb
  have hm : jsonDoc c = .obj (membersOf (JField.of .p2) (JField.name .p2) (jsonVal c)) := by
    simp only [jsonDoc, jsonMembers, hp]; rfl
  rw [hm]
  unfold unmarshalJSONInto
  simp only [namesClean_members (JField.of .p2) (JField.name .p2) (jsonVal c) p2_names_good, Bool.not_true,
    Bool.false_eq_true, if_false]
  have hnp : (Claims.new .p2).prof = .p2 := rfl
  simp only [hnp]
  have n0 : jP2Profile = JField.name .p2 .profile := rfl
  have n1 : jClientId = JField.name .p2 .clientId := rfl
  have n2 : jLifecycle = JField.name .p2 .lifecycle := rfl
  have n3 : jImplId = JField.name .p2 .implId := rfl
  have n4 : jBootSeed = JField.name .p2 .bootSeed := rfl
  have n5 : jP2CertRef = JField.name .p2 .certRef := rfl
  have n6 : jSw = JField.name .p2 .sw := rfl
  have n8 : jNonce = JField.name .p2 .nonce := rfl
  have n9 : jInstId = JField.name .p2 .instId := rfl
  have n10 : jVsi = JField.name .p2 .vsi := rfl
  rw [n0, n1, n2, n3, n4, n5, n6, n8, n9, n10]
  simp only [fld_members (JField.of .p2) (JField.name .p2) (jsonVal c) p2_names_good _ (by decide : JField.profile ∈ JField.of .p2),
    fld_members (JField.of .p2) (JField.name .p2) (jsonVal c) p2_names_good _ (by decide : JField.clientId ∈ JField.of .p2),
    fld_members (JField.of .p2) (JField.name .p2) (jsonVal c) p2_names_good _ (by decide : JField.lifecycle ∈ JField.of .p2),
    fld_members (JField.of .p2) (JField.name .p2) (jsonVal c) p2_names_good _ (by decide : JField.implId ∈ JField.of .p2),
    fld_members (JField.of .p2) (JField.name .p2) (jsonVal c) p2_names_good _ (by decide : JField.bootSeed ∈ JField.of .p2),
    fld_members (JField.of .p2) (JField.name .p2) (jsonVal c) p2_names_good _ (by decide : JField.certRef ∈ JField.of .p2),
    fld_members (JField.of .p2) (JField.name .p2) (jsonVal c) p2_names_good _ (by decide : JField.sw ∈ JField.of .p2),
    fld_members (JField.of .p2) (JField.name .p2) (jsonVal c) p2_names_good _ (by decide : JField.nonce ∈ JField.of .p2),
    fld_members (JField.of .p2) (JField.name .p2) (jsonVal c) p2_names_good _ (by decide : JField.instId ∈ JField.of .p2),
    fld_members (JField.of .p2) (JField.name .p2) (jsonVal c) p2_names_good _ (by decide : JField.vsi ∈ JField.of .p2)]
  have r0 : fldRes (jsonVal c .profile) (jDecEatProfile u) (fun x c => { c with profile := x }) = .ok (gProfile2 (profStr c.profile)) := by
    rw [jv_profile]
    exact fldRes_map _ _ _ _ gProfile2 rfl (fun a ha => by simp [jDecEatProfile, hu a ha, Dec.map, Dec.bind]; rfl)
  have r1 : fldRes (jsonVal c .clientId) (jDecInt (-2147483648) 2147483647) (fun x c => { c with clientId := x }) = .ok (gClientId c.clientId) :=
    fldRes_map _ _ _ _ gClientId rfl (fun a ha => by
      have := b1 a ha
      simp [jDecInt, this.1, this.2, Dec.map, Dec.bind]; rfl)
  have r2 : fldRes (jsonVal c .lifecycle) (jDecInt 0 65535) (fun x c => { c with lifecycle := x.map Int.toNat }) = .ok (gLifecycle c.lifecycle) := by
    have jv : jsonVal c .lifecycle = c.lifecycle.map (fun v : Nat => Json.int v) := by
      simp only [jsonVal]; cases c.lifecycle <;> rfl
    rw [jv]
    exact fldRes_map c.lifecycle (fun v : Nat => Json.int v) _ _ gLifecycle rfl (fun a ha => by
      have := b2 a ha
      have h2 : (a : Int) ≤ 65535 := by omega
      simp [jDecInt, h2, Dec.map, Dec.bind]; rfl)
  have r3 : fldRes (jsonVal c .implId) jDecBytes (fun x c => { c with implId := x }) = .ok (gImplId c.implId) :=
    fldRes_map _ _ _ _ gImplId rfl (fun a _ => by simp [jDecBytes, jBytes, b64_roundtrip, Dec.map, Dec.bind]; rfl)
  have r4 : fldRes (jsonVal c .bootSeed) jDecBytes (fun x c => { c with bootSeed := x }) = .ok (gBootSeed c.bootSeed) :=
    fldRes_map _ _ _ _ gBootSeed rfl (fun a _ => by simp [jDecBytes, jBytes, b64_roundtrip, Dec.map, Dec.bind]; rfl)
  have r5 : fldRes (jsonVal c .certRef) jDecText (fun x c => { c with certRef := x }) = .ok (gCertRef c.certRef) :=
    fldRes_map _ _ _ _ gCertRef rfl (fun a _ => by simp [jDecText, Dec.map, Dec.bind]; rfl)
  have r6 : fldRes (jsonVal c .sw) (jDecSw ({ (Claims.new .p2) with profile := none } : Claims).sw) (fun x c => { c with sw := x }) = .ok (gSw c.sw) := by
    apply fldRes_opt
    · intro h
      simp only [jsonVal] at h
      by_cases he : c.sw.elems.isEmpty = true
      · funext s; simp [gSw, he]
      · simp [he] at h
    · intro j h
      simp only [jsonVal] at h
      by_cases he : c.sw.elems.isEmpty = true
      · simp [he] at h
      · rw [if_neg he] at h
        simp only [Option.some.injEq] at h
        subst h
        have : ({ (Claims.new .p2) with profile := none } : Claims).sw = .cont none := rfl
        rw [this]
        simp only [jDecSw, jDecComps, decAll_jcomps, Dec.map, Dec.bind]
        congr 1
        funext s
        unfold gSw rtSw
        rw [if_neg he, if_neg he]
  have r8 : fldRes (jsonVal c .nonce) jDecEatNonce (fun x c => { c with nonce := x }) = .ok (gNonce2 c.nonce) := by
    rw [jv_nonce2]
    apply fldRes_opt
    · intro h
      have : nonceRt c.nonce = none := by
        cases hc : c.nonce with
        | none => rfl
        | some l =>
          cases l with
          | nil => rfl
          | cons a t => cases t <;> simp [hc, jsonNonce] at h
      funext s; simp [gNonce2, this]
    · intro j h
      rw [jDecEatNonce_wire c.nonce j h]
      simp only [Dec.map, Dec.bind]
      congr 1
      funext s
      unfold gNonce2
      cases hn : nonceRt c.nonce with
      | none =>
        -- a present member never comes from an absent or empty nonce
        cases hc : c.nonce with
        | none => simp [hc, jsonNonce] at h
        | some l =>
          cases l with
          | nil => simp [hc, jsonNonce] at h
          | cons a t => simp [hc, nonceRt] at hn
      | some l => rfl
  have r9 : fldRes (jsonVal c .instId) jDecBytes (fun x c => { c with instId := x }) = .ok (gInstId c.instId) :=
    fldRes_map _ _ _ _ gInstId rfl (fun a _ => by simp [jDecBytes, jBytes, b64_roundtrip, Dec.map, Dec.bind]; rfl)
  have r10 : fldRes (jsonVal c .vsi) jDecText (fun x c => { c with vsi := x }) = .ok (gVsi c.vsi) :=
    fldRes_map _ _ _ _ gVsi rfl (fun a _ => by simp [jDecText, Dec.map, Dec.bind]; rfl)
  rw [r0, r1, r2, r3, r4, r5, r6, r8, r9, r10]
  have hl : [Dec.ok (gProfile2 (profStr c.profile)), Dec.ok (gClientId c.clientId), Dec.ok (gLifecycle c.lifecycle),
      Dec.ok (gImplId c.implId), Dec.ok (gBootSeed c.bootSeed), Dec.ok (gCertRef c.certRef), Dec.ok (gSw c.sw),
      Dec.ok (gNonce2 c.nonce), Dec.ok (gInstId c.instId), Dec.ok (gVsi c.vsi)] =
      [gProfile2 (profStr c.profile), gClientId c.clientId, gLifecycle c.lifecycle, gImplId c.implId, gBootSeed c.bootSeed,
       gCertRef c.certRef, gSw c.sw, gNonce2 c.nonce, gInstId c.instId, gVsi c.vsi].map Dec.ok := rfl
  rw [hl, combine_ok]
  congr 1
  show List.foldl (fun (acc : Claims) (g : Claims → Claims) => g acc) (st2 none none none none none none (.cont none) none none none) _ = _
  simp only [List.foldl]
  have s0 : gProfile2 (profStr c.profile) (st2 none none none none none none (.cont none) none none none) =
      st2 ((profStr c.profile).map .str) none none none none none (.cont none) none none none := by
    cases profStr c.profile <;> rfl
  rw [s0]
  have s1 : gClientId c.clientId (st2 ((profStr c.profile).map .str) none none none none none (.cont none) none none none) =
      st2 ((profStr c.profile).map .str) c.clientId none none none none (.cont none) none none none := by
    cases c.clientId <;> rfl
  rw [s1]
  have s2 : gLifecycle c.lifecycle (st2 ((profStr c.profile).map .str) c.clientId none none none none (.cont none) none none none) =
      st2 ((profStr c.profile).map .str) c.clientId c.lifecycle none none none (.cont none) none none none := by
    cases c.lifecycle <;> rfl
  rw [s2]
  have s3 : gImplId c.implId (st2 ((profStr c.profile).map .str) c.clientId c.lifecycle none none none (.cont none) none none none) =
      st2 ((profStr c.profile).map .str) c.clientId c.lifecycle c.implId none none (.cont none) none none none := by
    cases c.implId <;> rfl
  rw [s3]
  have s4 : gBootSeed c.bootSeed (st2 ((profStr c.profile).map .str) c.clientId c.lifecycle c.implId none none (.cont none) none none none) =
      st2 ((profStr c.profile).map .str) c.clientId c.lifecycle c.implId c.bootSeed none (.cont none) none none none := by
    cases c.bootSeed <;> rfl
  rw [s4]
  have s5 : gCertRef c.certRef (st2 ((profStr c.profile).map .str) c.clientId c.lifecycle c.implId c.bootSeed none (.cont none) none none none) =
      st2 ((profStr c.profile).map .str) c.clientId c.lifecycle c.implId c.bootSeed c.certRef (.cont none) none none none := by
    cases c.certRef <;> rfl
  rw [s5]
  have s6 : gSw c.sw (st2 ((profStr c.profile).map .str) c.clientId c.lifecycle c.implId c.bootSeed c.certRef (.cont none) none none none) =
      st2 ((profStr c.profile).map .str) c.clientId c.lifecycle c.implId c.bootSeed c.certRef (rtSw c.sw) none none none := by
    unfold gSw
    by_cases he : c.sw.elems.isEmpty = true
    · simp only [he, if_true, rtSw]
    · simp only [he, if_false]; rfl
  rw [s6]
  have s8 : gNonce2 c.nonce (st2 ((profStr c.profile).map .str) c.clientId c.lifecycle c.implId c.bootSeed c.certRef (rtSw c.sw) none none none) =
      st2 ((profStr c.profile).map .str) c.clientId c.lifecycle c.implId c.bootSeed c.certRef (rtSw c.sw) (nonceRt c.nonce) none none := by
    unfold gNonce2
    cases nonceRt c.nonce <;> rfl
  rw [s8]
  have s9 : gInstId c.instId (st2 ((profStr c.profile).map .str) c.clientId c.lifecycle c.implId c.bootSeed c.certRef (rtSw c.sw) (nonceRt c.nonce) none none) =
      st2 ((profStr c.profile).map .str) c.clientId c.lifecycle c.implId c.bootSeed c.certRef (rtSw c.sw) (nonceRt c.nonce) c.instId none := by
    cases c.instId <;> rfl
  rw [s9]
  cases c.vsi <;> rfl


end Psa.Proofs.JRT
