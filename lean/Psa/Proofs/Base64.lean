/- base64: decode ∘ encode = id. -/
import Psa.Model.Json
namespace Psa.Proofs
open Psa Psa.Model

theorem u8n (k : Nat) (h : k < 256) : (UInt8.ofNat k).toNat = k := by
  have : (UInt8.ofNat k).toNat = k % 256 := by simp
  omega

theorem b64val_char (n : Nat) (h : n < 64) : b64val (b64char n) = some n := by
  unfold b64char b64val
  by_cases h1 : n < 26
  · simp only [h1, if_true, u8n (65 + n) (by omega)]
    rw [if_pos (by omega)]; congr 1; omega
  by_cases h2 : n < 52
  · simp only [h1, h2, if_true, if_false, u8n (97 + (n - 26)) (by omega)]
    rw [if_neg (by omega), if_pos (by omega)]; congr 1; omega
  by_cases h3 : n < 62
  · simp only [h1, h2, h3, if_true, if_false, u8n (48 + (n - 52)) (by omega)]
    rw [if_neg (by omega), if_neg (by omega), if_pos (by omega)]; congr 1; omega
  by_cases h4 : n = 62
  · subst h4; decide
  · have : n = 63 := by omega
    subst this; decide

theorem b64char_ne_pad (n : Nat) (h : n < 64) : b64char n ≠ 61 := by
  intro hh
  have := b64val_char n h
  rw [hh] at this
  simp [b64val] at this

theorem ofNat_eq (k : Nat) (a : UInt8) (h : k = a.toNat) : UInt8.ofNat k = a := by subst h; simp

/-- Decoding the base64 text of a byte string gives the byte string back. -/
theorem b64_roundtrip : ∀ b : Bytes, b64dec (b64enc b) = some b
  | [] => rfl
  | [a] => by
    have ha : a.toNat < 256 := a.toNat_lt
    have h1 := b64val_char (a.toNat / 4) (by omega)
    have h2 := b64val_char (a.toNat % 4 * 16) (by omega)
    simp only [b64enc, b64dec, h1, h2]
    simp only [true_and, if_true]
    rw [ofNat_eq _ a (by omega)]
  | [a, b] => by
    have ha : a.toNat < 256 := a.toNat_lt
    have hb : b.toNat < 256 := b.toNat_lt
    have h1 := b64val_char (a.toNat / 4) (by omega)
    have h2 := b64val_char (a.toNat % 4 * 16 + b.toNat / 16) (by omega)
    have h3 := b64val_char (b.toNat % 16 * 4) (by omega)
    have hp := b64char_ne_pad (b.toNat % 16 * 4) (by omega)
    simp only [b64enc, b64dec, h1, h2, h3, hp, if_false, if_true]
    rw [ofNat_eq _ a (by omega), ofNat_eq _ b (by omega)]
  | a :: b :: c :: rest => by
    have ha : a.toNat < 256 := a.toNat_lt
    have hb : b.toNat < 256 := b.toNat_lt
    have hc : c.toNat < 256 := c.toNat_lt
    have h1 := b64val_char (a.toNat / 4) (by omega)
    have h2 := b64val_char (a.toNat % 4 * 16 + b.toNat / 16) (by omega)
    have h3 := b64val_char (b.toNat % 16 * 4 + c.toNat / 64) (by omega)
    have h4 := b64val_char (c.toNat % 64) (by omega)
    have hp3 := b64char_ne_pad (b.toNat % 16 * 4 + c.toNat / 64) (by omega)
    have hp4 := b64char_ne_pad (c.toNat % 64) (by omega)
    have ih := b64_roundtrip rest
    simp only [b64enc, b64dec, h1, h2, h3, h4, hp3, hp4, if_false, ih, Option.map_some]
    rw [ofNat_eq _ a (by omega), ofNat_eq _ b (by omega), ofNat_eq _ c (by omega)]

end Psa.Proofs
