/- Invariants of the struct decoder and of dispatch (helpers for C07, C16). -/
import Psa.Model.Json
import Psa.Proofs.Validate
namespace Psa.Proofs
open Psa Psa.Model Psa.Spec

/-- an invariant of every successful field store is an invariant of the decoded struct -/
theorem structDecode_inv {σ} (P : σ → Prop) (keys : List Int) (set : σ → Int → Cbor → Dec σ)
    (hset : ∀ s k v s', set s k v = .ok s' → P s → P s') (init : σ) (hi : P init)
    (kvs : List (Cbor × Cbor)) (r : σ) (h : structDecode keys set init kvs = .ok r) : P r := by
  unfold structDecode at h
  have key : ∀ (l : List (Cbor × Cbor)) (s : DState σ), P s.val → P (l.foldl (structStep keys set) s).val := by
    intro l
    induction l with
    | nil => intro s hs; exact hs
    | cons kv rest ih =>
      intro s hs
      simp only [List.foldl_cons]
      apply ih
      unfold structStep
      simp only []
      split
      · exact hs
      · split
        · exact hs
        · split
          · exact hs
          · rename_i k _ _
            cases hst : set s.val k kv.2 with
            | ok v => simp only []; exact hset _ _ _ _ hst hs
            | err => exact hs
            | ood => exact hs
  have hk := key kvs { val := init, found := [], bad := false, ood := false } hi
  generalize List.foldl (structStep keys set) { val := init, found := [], bad := false, ood := false } kvs = st at h hk
  simp only [] at h
  by_cases h1 : st.ood = true
  · simp [h1] at h
  · by_cases h2 : st.bad = true
    · simp [h1, h2] at h
    · simp [h1, h2] at h; rw [← h]; exact hk

theorem dec_map_ok {α β} (x : Dec α) (f : α → β) (b : β) (h : x.map f = .ok b) : ∃ a, x = .ok a ∧ f a = b := by
  cases x <;> simp [Dec.map, Dec.bind] at h; exact ⟨_, rfl, h⟩

theorem frame_map {α} (x : Dec α) (f : α → Claims) (c c' : Claims)
    (hf : ∀ a, (f a).prof = c.prof ∧ (f a).canonical = c.canonical) (h : x.map f = .ok c') :
    c'.prof = c.prof ∧ c'.canonical = c.canonical := by
  obtain ⟨a, _, ha⟩ := dec_map_ok _ _ _ h
  rw [← ha]; exact hf a

theorem setP1_frame (c : Claims) (k : Int) (v : Cbor) (c' : Claims) (h : setP1 c k v = .ok c') :
    c'.prof = c.prof ∧ c'.canonical = c.canonical := by
  unfold setP1 at h
  by_cases h0 : k = -75000
  · rw [if_pos h0] at h; (refine frame_map _ _ c c' ?_ h; intro _; exact ⟨rfl, rfl⟩)
  rw [if_neg h0] at h
  by_cases h1 : k = -75001
  · rw [if_pos h1] at h; (refine frame_map _ _ c c' ?_ h; intro _; exact ⟨rfl, rfl⟩)
  rw [if_neg h1] at h
  by_cases h2 : k = -75002
  · rw [if_pos h2] at h; (refine frame_map _ _ c c' ?_ h; intro _; exact ⟨rfl, rfl⟩)
  rw [if_neg h2] at h
  by_cases h3 : k = -75003
  · rw [if_pos h3] at h; (refine frame_map _ _ c c' ?_ h; intro _; exact ⟨rfl, rfl⟩)
  rw [if_neg h3] at h
  by_cases h4 : k = -75004
  · rw [if_pos h4] at h; (refine frame_map _ _ c c' ?_ h; intro _; exact ⟨rfl, rfl⟩)
  rw [if_neg h4] at h
  by_cases h5 : k = -75005
  · rw [if_pos h5] at h; (refine frame_map _ _ c c' ?_ h; intro _; exact ⟨rfl, rfl⟩)
  rw [if_neg h5] at h
  by_cases h6 : k = -75006
  · rw [if_pos h6] at h; (refine frame_map _ _ c c' ?_ h; intro _; exact ⟨rfl, rfl⟩)
  rw [if_neg h6] at h
  by_cases h7 : k = -75007
  · rw [if_pos h7] at h; (refine frame_map _ _ c c' ?_ h; intro _; exact ⟨rfl, rfl⟩)
  rw [if_neg h7] at h
  by_cases h8 : k = -75008
  · rw [if_pos h8] at h; (refine frame_map _ _ c c' ?_ h; intro _; exact ⟨rfl, rfl⟩)
  rw [if_neg h8] at h
  by_cases h9 : k = -75009
  · rw [if_pos h9] at h; (refine frame_map _ _ c c' ?_ h; intro _; exact ⟨rfl, rfl⟩)
  rw [if_neg h9] at h
  (refine frame_map _ _ c c' ?_ h; intro _; exact ⟨rfl, rfl⟩)

theorem setP2_frame (u : Bytes → Dec Bytes) (c : Claims) (k : Int) (v : Cbor) (c' : Claims)
    (h : setP2 u c k v = .ok c') : c'.prof = c.prof ∧ c'.canonical = c.canonical := by
  unfold setP2 at h
  by_cases h0 : k = 265
  · rw [if_pos h0] at h; (refine frame_map _ _ c c' ?_ h; intro _; exact ⟨rfl, rfl⟩)
  rw [if_neg h0] at h
  by_cases h1 : k = 2394
  · rw [if_pos h1] at h; (refine frame_map _ _ c c' ?_ h; intro _; exact ⟨rfl, rfl⟩)
  rw [if_neg h1] at h
  by_cases h2 : k = 2395
  · rw [if_pos h2] at h; (refine frame_map _ _ c c' ?_ h; intro _; exact ⟨rfl, rfl⟩)
  rw [if_neg h2] at h
  by_cases h3 : k = 2396
  · rw [if_pos h3] at h; (refine frame_map _ _ c c' ?_ h; intro _; exact ⟨rfl, rfl⟩)
  rw [if_neg h3] at h
  by_cases h4 : k = 2397
  · rw [if_pos h4] at h; (refine frame_map _ _ c c' ?_ h; intro _; exact ⟨rfl, rfl⟩)
  rw [if_neg h4] at h
  by_cases h5 : k = 2398
  · rw [if_pos h5] at h; (refine frame_map _ _ c c' ?_ h; intro _; exact ⟨rfl, rfl⟩)
  rw [if_neg h5] at h
  by_cases h6 : k = 2399
  · rw [if_pos h6] at h; (refine frame_map _ _ c c' ?_ h; intro _; exact ⟨rfl, rfl⟩)
  rw [if_neg h6] at h
  by_cases h7 : k = 10
  · rw [if_pos h7] at h; (refine frame_map _ _ c c' ?_ h; intro _; exact ⟨rfl, rfl⟩)
  rw [if_neg h7] at h
  by_cases h8 : k = 256
  · rw [if_pos h8] at h; (refine frame_map _ _ c c' ?_ h; intro _; exact ⟨rfl, rfl⟩)
  rw [if_neg h8] at h
  (refine frame_map _ _ c c' ?_ h; intro _; exact ⟨rfl, rfl⟩)

/-- decoding into an object keeps its profile and canonical name -/
theorem unmarshalInto_frame (u : Bytes → Dec Bytes) (c0 : Claims) (t : Cbor) (c : Claims)
    (h : unmarshalInto u c0 t = .ok c) : c.prof = c0.prof ∧ c.canonical = c0.canonical := by
  unfold unmarshalInto at h
  cases t with
  | map kvs =>
    simp only [] at h
    cases hp : c0.prof <;> simp only [hp] at h
    · have := structDecode_inv (fun s => s.prof = c0.prof ∧ s.canonical = c0.canonical) p1Keys setP1
        (fun s k v s' hs hP => by have := setP1_frame s k v s' hs; exact ⟨this.1.trans hP.1, this.2.trans hP.2⟩)
        _ ⟨hp.symm, rfl⟩ kvs c h
      exact ⟨this.1.trans hp, this.2⟩
    · have := structDecode_inv (fun s => s.prof = c0.prof ∧ s.canonical = c0.canonical) p2Keys (setP2 u)
        (fun s k v s' hs hP => by have := setP2_frame u s k v s' hs; exact ⟨this.1.trans hP.1, this.2.trans hP.2⟩)
        _ ⟨hp.symm, rfl⟩ kvs c h
      exact ⟨this.1.trans hp, this.2⟩
  | simple n =>
    by_cases h22 : n = 22
    · subst h22; simp only [] at h; cases h; exact ⟨rfl, rfl⟩
    by_cases h23 : n = 23
    · subst h23; simp only [] at h; cases h; exact ⟨rfl, rfl⟩
    simp only [] at h
    split at h <;> first | (exfalso; simp_all; done) | cases h
  | tag a b => cases h
  | _ => cases h

end Psa.Proofs
