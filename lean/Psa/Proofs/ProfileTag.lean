/- Proofs about the profile-field walk (`Psa/Model/ProfileTag.lean`). -/
import Psa.Model.ProfileTag
namespace Psa.Proofs.PTag
open Psa Psa.Model.PTag

theorem ownField_none : ∀ (fs : FList) (acc : Option Field), hasProfileF fs = false → ownField fs acc = acc
  | .nil, acc, _ => rfl
  | .cons f v rest, acc, h => by
    simp only [hasProfileF, Bool.or_eq_false_iff] at h
    have ih := ownField_none rest acc h.2
    unfold ownField
    rcases hc : collect f v with ⟨b, o⟩
    rw [hc] at h
    cases b with
    | true => simp [ih]
    | false =>
      have h1 : f.isProfile = false := by cases o <;> simpa using h.1
      unfold Field.isProfile at h1
      cases hk : f.cborKey with
      | some k => rw [hk] at h1; simp only at h1; simp [h1, ih]
      | none => rw [hk] at h1; simp only at h1; simp [h1, ih]

mutual
theorem tag_noProfile : ∀ d : TDesc, hasProfile d = false → tagOf d = .noProfile
  | .struct fs, h => by
    simp only [hasProfile] at h
    simp only [tagOf, ownField_none fs none h]
    exact embeds_noProfile fs h
  | .ptr (.struct fs), h => by
    simp only [hasProfile] at h
    simp only [tagOf, ownField_none fs none h]
    exact embeds_noProfile fs h
  | .ptr (.ptr _), _ | .ptr .nilptr, _ | .ptr .invalid, _ | .ptr .other, _ => by simp [tagOf]
  | .nilptr, _ | .invalid, _ | .other, _ => by simp [tagOf]
theorem embeds_noProfile : ∀ fs : FList, hasProfileF fs = false → embedsTag fs = .noProfile
  | .nil, _ => rfl
  | .cons f v rest, h => by
    simp only [hasProfileF, Bool.or_eq_false_iff] at h
    have ih := embeds_noProfile rest h.2
    unfold embedsTag
    rcases hc : collect f v with ⟨b, o⟩
    rw [hc] at h
    cases b <;> cases o <;> simp only [ih]
    rw [tag_noProfile v (by simpa using h.1)]
end

mutual
theorem tag_total : ∀ d : TDesc, tagOf d ≠ .panic
  | .struct fs => by
    simp only [tagOf]
    split
    · split <;> simp
    · exact embeds_total fs
  | .ptr (.struct fs) => by
    simp only [tagOf]
    split
    · split <;> simp
    · exact embeds_total fs
  | .ptr (.ptr _) | .ptr .nilptr | .ptr .invalid | .ptr .other => by simp [tagOf]
  | .nilptr | .invalid | .other => by simp [tagOf]
theorem embeds_total : ∀ fs : FList, embedsTag fs ≠ .panic
  | .nil => by simp [embedsTag]
  | .cons f v rest => by
    unfold embedsTag
    split
    · have := tag_total v
      split
      · exact embeds_total rest
      · rename_i r hr; intro hp; exact this hp
    · exact embeds_total rest
end

theorem get_total (d : TDesc) : getProfileJSONTag d ≠ .panic := by
  unfold getProfileJSONTag
  split <;> exact tag_total _

theorem get_noProfile (d : TDesc) (h : hasProfile d = false) (h' : ∀ e, d = .ptr e → hasProfile e = false) :
    getProfileJSONTag d = .noProfile := by
  unfold getProfileJSONTag
  split
  · exact tag_noProfile _ (h' _ rfl)
  · exact tag_noProfile _ h

end Psa.Proofs.PTag
