import Psa.Proofs.EncTotal
import Psa.Cbor.Consumes
namespace Psa.Proofs.Enc
open Psa Psa.Model.Enc

/-! ### resources: what the map reader keeps is bounded by the bytes it was given (C06) -/

/-- total size of the raw values held -/
def OMap.rawBytes (m : OMap) : Nat := (m.fields.map (·.2.length)).sum

theorem rawFirst_consumes (bs raw : Bytes) (t : Cbor) (rest : Bytes) (h : rawFirst bs = some (raw, t, rest)) :
    bs = raw ++ rest ∧ raw ≠ [] := by
  unfold rawFirst at h
  cases hd : Cbor.decodeFirst {} bs with
  | none => simp [hd] at h
  | some p =>
    obtain ⟨t', r'⟩ := p
    simp only [hd, Option.some.injEq, Prod.mk.injEq] at h
    obtain ⟨h1, _, rfl⟩ := h
    obtain ⟨pre, hne, rfl⟩ := Cbor.decodeFirst_consumes {} bs t' r' hd
    have : (pre ++ r').take ((pre ++ r').length - r'.length) = pre := by simp
    rw [this] at h1; subst h1
    exact ⟨rfl, hne⟩

theorem value_step (r1 r : Bytes) (m m' : OMap) (k : Int)
    (h : (match rawFirst r1 with
          | none => Outcome.err eOther
          | some (raw, _, r2) => (m.add k raw).bind fun m' => .ok (r2, m')) = .ok (r, m')) :
    m'.keys.length = m.keys.length + 1 ∧ m'.fields.length = m.fields.length + 1 ∧
    OMap.rawBytes m' + r.length = OMap.rawBytes m + r1.length ∧ r.length + 1 ≤ r1.length := by
  cases hv : rawFirst r1 with
  | none => simp [hv] at h
  | some q =>
    obtain ⟨raw, vt, r2⟩ := q
    simp only [hv] at h
    have hvc := rawFirst_consumes r1 raw vt r2 hv
    unfold OMap.add at h
    split at h
    · simp [Outcome.bind] at h
    · simp only [Outcome.bind, Outcome.ok.injEq, Prod.mk.injEq] at h
      obtain ⟨rfl, rfl⟩ := h
      have l2 : r1.length = raw.length + r2.length := by rw [hvc.1]; simp
      have l4 : 0 < raw.length := List.length_pos_iff.mpr hvc.2
      refine ⟨by simp, by simp, ?_, by omega⟩
      simp [OMap.rawBytes]; omega

/-- one key/value step: exactly one entry more; what is kept is paid for by consumed input -/
theorem ukv_step (rest r : Bytes) (m m' : OMap) (h : unmarshalKeyValue rest m = .ok (r, m')) :
    m'.keys.length = m.keys.length + 1 ∧ m'.fields.length = m.fields.length + 1 ∧
    OMap.rawBytes m' + r.length + 1 ≤ OMap.rawBytes m + rest.length ∧ r.length + 2 ≤ rest.length := by
  unfold unmarshalKeyValue at h
  cases hk : rawFirst rest with
  | none => simp [hk] at h
  | some p =>
    obtain ⟨kraw, kt, r1⟩ := p
    simp only [hk] at h
    cases hc : kvTagged kt r1
    case true => simp [hc] at h
    case false =>
      simp only [hc, Bool.false_eq_true, if_false] at h
      have hkc := rawFirst_consumes rest kraw kt r1 hk
      have l1 : rest.length = kraw.length + r1.length := by rw [hkc.1]; simp
      have l3 : 0 < kraw.length := List.length_pos_iff.mpr hkc.2
      split at h
      · have := value_step r1 r m m' _ h; omega
      · have := value_step r1 r m m' _ h; omega
      · cases h

theorem readEntries_bound : ∀ (n : Nat) (rest r : Bytes) (m m' : OMap), readEntries n rest m = .ok (r, m') →
    m'.keys.length = m.keys.length + n ∧ OMap.rawBytes m' + r.length + n ≤ OMap.rawBytes m + rest.length ∧
    r.length + 2 * n ≤ rest.length
  | 0, rest, r, m, m', h => by simp [readEntries] at h; obtain ⟨rfl, rfl⟩ := h; simp
  | n + 1, rest, r, m, m', h => by
    simp only [readEntries] at h
    cases hu : unmarshalKeyValue rest m with
    | err e => simp [hu, Outcome.bind] at h
    | panic s => simp [hu, Outcome.bind] at h
    | ok p =>
      obtain ⟨r1, m1⟩ := p
      simp only [hu, Outcome.bind] at h
      have s := ukv_step rest r1 m m1 hu
      have ih := readEntries_bound n r1 r m1 m' h
      omega

theorem readUntilBreak_bound : ∀ (fuel : Nat) (rest : Bytes) (m m' : OMap), readUntilBreak fuel rest m = .ok m' →
    2 * (m'.keys.length - m.keys.length) ≤ rest.length ∧ m.keys.length ≤ m'.keys.length ∧
    OMap.rawBytes m' ≤ OMap.rawBytes m + rest.length
  | 0, _, _, _, h => by simp [readUntilBreak] at h
  | fuel + 1, rest, m, m', h => by
    simp only [readUntilBreak] at h
    split at h
    · cases h
    · split at h
      · cases h; simp
      · rename_i b tl _
        cases hu : unmarshalKeyValue (b :: tl) m with
        | err e => simp [hu, Outcome.bind] at h
        | panic s => simp [hu, Outcome.bind] at h
        | ok p =>
          obtain ⟨r1, m1⟩ := p
          simp only [hu, Outcome.bind] at h
          have s := ukv_step (b :: tl) r1 m m1 hu
          have ih := readUntilBreak_bound fuel r1 m1 m' h
          omega

/-- the fuel the model passes to the indefinite-length loop is never what stops it: any larger
    amount gives the same answer (the loop terminates because every round consumes input) -/
theorem readUntilBreak_fuel : ∀ (f1 f2 : Nat) (rest : Bytes) (m : OMap), rest.length < f1 → rest.length < f2 →
    readUntilBreak f1 rest m = readUntilBreak f2 rest m
  | 0, _, _, _, h, _ => by omega
  | _, 0, _, _, _, h => by omega
  | f1 + 1, f2 + 1, rest, m, h1, h2 => by
    simp only [readUntilBreak]
    split
    · rfl
    · split
      · rfl
      · rename_i b tl _
        cases hu : unmarshalKeyValue (b :: tl) m with
        | err e => simp [Outcome.bind]
        | panic s => simp [Outcome.bind]
        | ok p =>
          obtain ⟨r1, m1⟩ := p
          simp only [Outcome.bind]
          have s := ukv_step (b :: tl) r1 m m1 hu
          exact readUntilBreak_fuel f1 f2 r1 m1 (by omega) (by omega)


theorem pai_len (ai : Nat) (data r : Bytes) (n : Nat) (h : processAdditionalInfo ai data = .ok (n, r)) :
    r.length ≤ data.length := by
  unfold processAdditionalInfo at h
  repeat' split at h
  all_goals first
    | (cases h; done)
    | (simp only [Outcome.ok.injEq, Prod.mk.injEq] at h; obtain ⟨_, rfl⟩ := h; omega)
    | skip
  · cases data with
    | nil => simp at *
    | cons b tl => simp [idx, sliceFrom, Outcome.bind] at h; obtain ⟨_, rfl⟩ := h; simp
  · rename_i hl
    have e1 : sliceTo "pai:2" data 2 = .ok (data.take 2) := by simp [sliceTo]; omega
    have e2 : sliceFrom "pai:2s" data 2 = .ok (data.drop 2) := by simp [sliceFrom]; omega
    rw [e1, e2] at h; simp [Outcome.bind] at h; obtain ⟨_, rfl⟩ := h; simp
  · rename_i hl
    have e1 : sliceTo "pai:4" data 4 = .ok (data.take 4) := by simp [sliceTo]; omega
    have e2 : sliceFrom "pai:4s" data 4 = .ok (data.drop 4) := by simp [sliceFrom]; omega
    rw [e1, e2] at h; simp [Outcome.bind] at h; obtain ⟨_, rfl⟩ := h; simp

/-- **C06, memory**: whatever `FromCBOR` returns holds at most one entry per two input bytes and
    no more raw bytes than it was given — a declared length buys nothing -/
theorem fromCBOR_bound (data : Bytes) (m : OMap) (h : fromCBOR data = .ok m) :
    2 * m.keys.length ≤ data.length ∧ OMap.rawBytes m ≤ data.length := by
  unfold fromCBOR at h
  split at h
  · cases h
  · rename_i h0
    obtain ⟨b, r, rfl, h1, h2⟩ := np_idx0 "FromCBOR:header" data h0
    have h2' : sliceFrom "FromCBOR:rest" (b :: r) 1 = .ok r := by simp [sliceFrom]
    rw [h1, h2'] at h
    simp only [Outcome.bind] at h
    -- the tag step returns a rest no longer than `r`
    have tagstep : ∀ (x : Nat × Nat × Bytes),
        (if b.toNat / 32 = 6 then
          (processAdditionalInfo (b.toNat % 32) r).bind fun (_, rest') =>
            if rest'.length = 0 then .err eOther
            else (idx "FromCBOR:tagged" rest' 0).bind fun h2 =>
              (sliceFrom "FromCBOR:tagged-rest" rest' 1).bind fun r2 => .ok (h2.toNat / 32, h2.toNat % 32, r2)
         else Outcome.ok (b.toNat / 32, b.toNat % 32, r)) = .ok x → x.2.2.length ≤ r.length := by
      intro x hx
      split at hx
      · cases hp : processAdditionalInfo (b.toNat % 32) r with
        | err e => simp [hp, Outcome.bind] at hx
        | panic s => simp [hp, Outcome.bind] at hx
        | ok q =>
          obtain ⟨n, rest'⟩ := q
          have hl := pai_len _ _ _ _ hp
          simp only [hp, Outcome.bind] at hx
          split at hx
          · cases hx
          · rename_i h3
            obtain ⟨b2, r2, he, h4, h5⟩ := np_idx0 "FromCBOR:tagged" rest' h3
            have h5' : sliceFrom "FromCBOR:tagged-rest" rest' 1 = .ok r2 := by rw [he]; simp [sliceFrom]
            rw [h4, h5'] at hx
            simp only [Outcome.ok.injEq] at hx
            subst hx
            simp only []
            rw [he] at hl; simp at hl; omega
      · cases hx; simp
    generalize hat : (if b.toNat / 32 = 6 then _ else _ : Outcome (Nat × Nat × Bytes)) = at' at h
    cases at' with
    | err e => simp at h
    | panic s => simp at h
    | ok x =>
      have hx := tagstep x hat
      obtain ⟨mt, ai, rest⟩ := x
      simp only [] at h hx
      split at h
      · cases h
      · cases hp : processAdditionalInfo ai rest with
        | err e => simp [hp, Outcome.bind] at h
        | panic s => simp [hp, Outcome.bind] at h
        | ok q =>
          obtain ⟨mapLen, rest2⟩ := q
          have hl := pai_len _ _ _ _ hp
          simp only [hp, Outcome.bind] at h
          split at h
          · cases hr : readEntries mapLen rest2 OMap.empty with
            | err e => simp [hr] at h
            | panic s => simp [hr] at h
            | ok z =>
              obtain ⟨rr, mm⟩ := z
              simp only [hr, Outcome.ok.injEq] at h
              subst h
              have := readEntries_bound _ _ _ _ _ hr
              simp [OMap.empty, OMap.rawBytes] at this ⊢
              omega
          · have := readUntilBreak_bound _ _ _ _ h
            simp [OMap.empty, OMap.rawBytes] at this ⊢
            omega

end Psa.Proofs.Enc
