/-
  Order independence of the typed struct decoder (C04): a CBOR map is a set of entries; the order in which a
  well-formed token lists its claims does not change what is decoded. Proved for the abstract decoder of
  `Psa/Model/Codec.lean` over any struct whose field setters are independent of one another, then instantiated for
  the selector struct, both claims types and the software component.
-/
import Psa.Model.Codec
import Psa.Cbor.Fuel
namespace Psa.Proofs.Perm
open Psa Psa.Model

/-- outcome kind of a field decode -/
def kind {σ} : Dec σ → Nat
  | .ok _ => 0 | .err => 1 | .ood => 2

/-- the field setters of a struct are independent of one another -/
structure Indep {σ} (keys : List Int) (set : σ → Int → Cbor → Dec σ) : Prop where
  /-- whether a field's value decodes does not depend on what other fields hold -/
  stable : ∀ s s' k k' v v', k ∈ keys → k' ∈ keys → k ≠ k' → set s k' v' = .ok s' → kind (set s' k v) = kind (set s k v)
  /-- two successful assignments to different fields commute -/
  comm : ∀ s s1 s2 k k' v v', k ∈ keys → k' ∈ keys → k ≠ k' → set s k v = .ok s1 → set s k' v' = .ok s2 →
    ∃ s12, set s1 k' v' = .ok s12 ∧ set s2 k v = .ok s12

/-- decoder states that differ only in the order in which fields were found -/
def Equiv {σ} (a b : DState σ) : Prop :=
  a.val = b.val ∧ a.bad = b.bad ∧ a.ood = b.ood ∧ ∀ k, k ∈ a.found ↔ k ∈ b.found

theorem Equiv.refl {σ} (a : DState σ) : Equiv a a := ⟨rfl, rfl, rfl, fun _ => Iff.rfl⟩
theorem Equiv.symm {σ} {a b : DState σ} (h : Equiv a b) : Equiv b a :=
  ⟨h.1.symm, h.2.1.symm, h.2.2.1.symm, fun k => (h.2.2.2 k).symm⟩
theorem Equiv.trans {σ} {a b c : DState σ} (h : Equiv a b) (h' : Equiv b c) : Equiv a c :=
  ⟨h.1.trans h'.1, h.2.1.trans h'.2.1, h.2.2.1.trans h'.2.2.1, fun k => (h.2.2.2 k).trans (h'.2.2.2 k)⟩

/-- one field assignment of the struct decoder: skipped when the field was already found -/
def put {σ} (set : σ → Int → Cbor → Dec σ) (s : DState σ) (k : Int) (v : Cbor) : DState σ :=
  if k ∈ s.found then s
  else match set s.val k v with
    | .ok x => { s with val := x, found := k :: s.found }
    | .err => { s with found := k :: s.found, bad := true }
    | .ood => { s with found := k :: s.found, ood := true }

/-- what an entry does: `none` = unusable key, `some none` = skipped, `some (some k)` = field `k` -/
def Sel (keys : List Int) (kv : Cbor × Cbor) : Option (Option Int) :=
  match keyRes kv.1 with
  | .bad => none
  | .int i => some (selectField keys (.int i))
  | .text t => some (selectField keys (.text t))

theorem step_bad {σ} (keys : List Int) (set : σ → Int → Cbor → Dec σ) (s : DState σ) (kv : Cbor × Cbor)
    (h : Sel keys kv = none) : structStep keys set s kv = { s with bad := true } := by
  unfold Sel at h; unfold structStep
  cases hk : keyRes kv.1 <;> simp [hk] at h ⊢

theorem step_skip {σ} (keys : List Int) (set : σ → Int → Cbor → Dec σ) (s : DState σ) (kv : Cbor × Cbor)
    (h : Sel keys kv = some none) : structStep keys set s kv = s := by
  unfold Sel at h; unfold structStep
  cases hk : keyRes kv.1 <;> simp [hk] at h ⊢ <;> simp [h]

theorem step_put {σ} (keys : List Int) (set : σ → Int → Cbor → Dec σ) (s : DState σ) (kv : Cbor × Cbor) (k : Int)
    (h : Sel keys kv = some (some k)) : structStep keys set s kv = put set s k kv.2 := by
  unfold Sel at h; unfold structStep put
  cases hk : keyRes kv.1 <;> simp [hk] at h ⊢ <;> simp [h] <;>
    (by_cases hm : k ∈ s.found <;> simp [hm] <;> cases set s.val k kv.2 <;> rfl)

theorem sel_mem (keys : List Int) (kv : Cbor × Cbor) (k : Int) (h : Sel keys kv = some (some k)) : k ∈ keys := by
  unfold Sel at h
  cases hk : keyRes kv.1 with
  | bad => simp [hk] at h
  | int i =>
    simp [hk, selectField] at h
    obtain ⟨h1, rfl⟩ := h; exact h1
  | text t =>
    simp [hk, selectField] at h
    exact List.mem_of_find?_eq_some h

theorem put_found {σ} (set : σ → Int → Cbor → Dec σ) (s : DState σ) (k : Int) (v : Cbor) (j : Int) :
    j ∈ (put set s k v).found ↔ (j ∈ s.found ∨ j = k) := by
  unfold put
  by_cases hc : k ∈ s.found
  · simp only [hc, if_true]
    constructor
    · exact Or.inl
    · rintro (h | rfl); exact h; exact hc
  · simp only [hc, if_false]
    cases set s.val k v <;> simp [or_comm]

theorem put_of_mem {σ} (set : σ → Int → Cbor → Dec σ) (s : DState σ) (k : Int) (v : Cbor) (h : k ∈ s.found) :
    put set s k v = s := by
  unfold put; simp [h]

theorem put_bad_comm {σ} (set : σ → Int → Cbor → Dec σ) (s : DState σ) (k : Int) (v : Cbor) :
    put set { s with bad := true } k v = { put set s k v with bad := true } := by
  unfold put
  by_cases hc : k ∈ s.found
  · simp [hc]
  · simp only [hc, if_false]
    cases set s.val k v <;> rfl

theorem put_congr {σ} (set : σ → Int → Cbor → Dec σ) (a b : DState σ) (h : Equiv a b) (k : Int) (v : Cbor) :
    Equiv (put set a k v) (put set b k v) := by
  obtain ⟨hv, hb, ho, hf⟩ := h
  unfold put
  by_cases hc : k ∈ a.found
  · have hc' := (hf k).mp hc
    simp only [hc, hc', if_true]; exact ⟨hv, hb, ho, hf⟩
  · have hc' : k ∉ b.found := fun x => hc ((hf k).mpr x)
    simp only [hc, hc', if_false]
    rw [← hv]
    have hf' : ∀ j, j ∈ k :: a.found ↔ j ∈ k :: b.found := by
      intro j; simp only [List.mem_cons, hf j]
    cases set a.val k v with
    | ok x => exact ⟨rfl, hb, ho, hf'⟩
    | err => exact ⟨rfl, rfl, ho, hf'⟩
    | ood => exact ⟨rfl, hb, rfl, hf'⟩

theorem step_congr {σ} (keys : List Int) (set : σ → Int → Cbor → Dec σ) (a b : DState σ) (h : Equiv a b)
    (kv : Cbor × Cbor) : Equiv (structStep keys set a kv) (structStep keys set b kv) := by
  cases hs : Sel keys kv with
  | none => rw [step_bad keys set a kv hs, step_bad keys set b kv hs]; exact ⟨h.1, rfl, h.2.2.1, h.2.2.2⟩
  | some o =>
    cases o with
    | none => rw [step_skip keys set a kv hs, step_skip keys set b kv hs]; exact h
    | some k => rw [step_put keys set a kv k hs, step_put keys set b kv k hs]; exact put_congr set a b h k kv.2

theorem put_put {σ} (keys : List Int) (set : σ → Int → Cbor → Dec σ) (hI : Indep keys set) (s : DState σ)
    (k1 k2 : Int) (v1 v2 : Cbor) (h1 : k1 ∈ keys) (h2 : k2 ∈ keys) (hne : k1 ≠ k2) :
    Equiv (put set (put set s k1 v1) k2 v2) (put set (put set s k2 v2) k1 v1) := by
  by_cases c1 : k1 ∈ s.found
  · have e1 : put set s k1 v1 = s := put_of_mem set s k1 v1 c1
    have e2 : put set (put set s k2 v2) k1 v1 = put set s k2 v2 :=
      put_of_mem set _ k1 v1 (by rw [put_found]; exact Or.inl c1)
    rw [e1, e2]; exact Equiv.refl _
  · by_cases c2 : k2 ∈ s.found
    · have e1 : put set s k2 v2 = s := put_of_mem set s k2 v2 c2
      have e2 : put set (put set s k1 v1) k2 v2 = put set s k1 v1 :=
        put_of_mem set _ k2 v2 (by rw [put_found]; exact Or.inl c2)
      rw [e1, e2]; exact Equiv.refl _
    · -- neither found yet
      have f12 : k2 ∉ k1 :: s.found := by simp [c2, Ne.symm hne]
      have f21 : k1 ∉ k2 :: s.found := by simp [c1, hne]
      have hfound : ∀ j, j ∈ k2 :: k1 :: s.found ↔ j ∈ k1 :: k2 :: s.found := by
        intro j; simp only [List.mem_cons]
        constructor <;> (rintro (h | h | h) <;> simp [h])
      unfold put
      simp only [c1, c2, if_false]
      cases r1 : set s.val k1 v1 with
      | ok a =>
        cases r2 : set s.val k2 v2 with
        | ok b =>
          obtain ⟨ab, hab, hba⟩ := hI.comm s.val a b k1 k2 v1 v2 h1 h2 hne r1 r2
          simp only [f12, f21, if_false, hab, hba]
          exact ⟨rfl, rfl, rfl, hfound⟩
        | err =>
          have hk := hI.stable s.val a k2 k1 v2 v1 h2 h1 (Ne.symm hne) r1
          rw [r2] at hk
          simp only [f12, f21, if_false, r1]
          cases r3 : set a k2 v2 with
          | ok x => rw [r3] at hk; cases hk
          | ood => rw [r3] at hk; cases hk
          | err => exact ⟨rfl, rfl, rfl, hfound⟩
        | ood =>
          have hk := hI.stable s.val a k2 k1 v2 v1 h2 h1 (Ne.symm hne) r1
          rw [r2] at hk
          simp only [f12, f21, if_false, r1]
          cases r3 : set a k2 v2 with
          | ok x => rw [r3] at hk; cases hk
          | err => rw [r3] at hk; cases hk
          | ood => exact ⟨rfl, rfl, rfl, hfound⟩
      | err =>
        simp only [f12, if_false]
        cases r2 : set s.val k2 v2 with
        | ok b =>
          have hk := hI.stable s.val b k1 k2 v1 v2 h1 h2 hne r2
          rw [r1] at hk
          simp only [f21, if_false]
          cases r3 : set b k1 v1 with
          | ok x => rw [r3] at hk; cases hk
          | ood => rw [r3] at hk; cases hk
          | err => exact ⟨rfl, rfl, rfl, hfound⟩
        | err => simp only [f21, if_false, r1]; exact ⟨rfl, rfl, rfl, hfound⟩
        | ood => simp only [f21, if_false, r1]; exact ⟨rfl, rfl, rfl, hfound⟩
      | ood =>
        simp only [f12, if_false]
        cases r2 : set s.val k2 v2 with
        | ok b =>
          have hk := hI.stable s.val b k1 k2 v1 v2 h1 h2 hne r2
          rw [r1] at hk
          simp only [f21, if_false]
          cases r3 : set b k1 v1 with
          | ok x => rw [r3] at hk; cases hk
          | err => rw [r3] at hk; cases hk
          | ood => exact ⟨rfl, rfl, rfl, hfound⟩
        | err => simp only [f21, if_false, r1]; exact ⟨rfl, rfl, rfl, hfound⟩
        | ood => simp only [f21, if_false, r1]; exact ⟨rfl, rfl, rfl, hfound⟩


theorem step_bad_comm {σ} (keys : List Int) (set : σ → Int → Cbor → Dec σ) (s : DState σ) (kv : Cbor × Cbor) :
    structStep keys set { s with bad := true } kv = { structStep keys set s kv with bad := true } := by
  cases hs : Sel keys kv with
  | none => rw [step_bad keys set _ kv hs, step_bad keys set s kv hs]
  | some o =>
    cases o with
    | none => rw [step_skip keys set _ kv hs, step_skip keys set s kv hs]
    | some k => rw [step_put keys set _ kv k hs, step_put keys set s kv k hs]; exact put_bad_comm set s k kv.2

/-- two entries that do not select the same field -/
def Apart (keys : List Int) (a b : Cbor × Cbor) : Prop :=
  ∀ k, Sel keys a = some (some k) → Sel keys b ≠ some (some k)

theorem Apart.symm {keys : List Int} {a b : Cbor × Cbor} (h : Apart keys a b) : Apart keys b a :=
  fun k hb ha => h k ha hb

theorem step_swap {σ} (keys : List Int) (set : σ → Int → Cbor → Dec σ) (hI : Indep keys set) (s : DState σ)
    (a b : Cbor × Cbor) (hd : Apart keys a b) :
    Equiv (structStep keys set (structStep keys set s a) b) (structStep keys set (structStep keys set s b) a) := by
  cases ha : Sel keys a with
  | none =>
    rw [step_bad keys set s a ha, step_bad keys set _ a ha, step_bad_comm]; exact Equiv.refl _
  | some oa =>
    cases oa with
    | none => rw [step_skip keys set s a ha, step_skip keys set _ a ha]; exact Equiv.refl _
    | some k1 =>
      cases hb : Sel keys b with
      | none => rw [step_bad keys set s b hb, step_bad keys set _ b hb, step_bad_comm]; exact Equiv.refl _
      | some ob =>
        cases ob with
        | none => rw [step_skip keys set s b hb, step_skip keys set _ b hb]; exact Equiv.refl _
        | some k2 =>
          have hne : k1 ≠ k2 := by
            intro e; subst e; exact hd k1 ha hb
          rw [step_put keys set s a k1 ha, step_put keys set _ b k2 hb, step_put keys set s b k2 hb,
            step_put keys set _ a k1 ha]
          exact put_put keys set hI s k1 k2 a.2 b.2 (sel_mem keys a k1 ha) (sel_mem keys b k2 hb) hne

theorem foldl_congr {σ} (keys : List Int) (set : σ → Int → Cbor → Dec σ) :
    ∀ (l : List (Cbor × Cbor)) (s t : DState σ), Equiv s t →
      Equiv (l.foldl (structStep keys set) s) (l.foldl (structStep keys set) t)
  | [], _, _, h => h
  | kv :: l, s, t, h => foldl_congr keys set l _ _ (step_congr keys set s t h kv)

theorem foldl_perm {σ} (keys : List Int) (set : σ → Int → Cbor → Dec σ) (hI : Indep keys set)
    {l₁ l₂ : List (Cbor × Cbor)} (hp : l₁.Perm l₂) : l₁.Pairwise (Apart keys) → ∀ s t : DState σ, Equiv s t →
      Equiv (l₁.foldl (structStep keys set) s) (l₂.foldl (structStep keys set) t) := by
  induction hp with
  | nil => intro _ s t h; exact h
  | cons x _ ih =>
    intro hpw s t h
    exact ih (List.pairwise_cons.mp hpw).2 _ _ (step_congr keys set s t h x)
  | swap x y l =>
    intro hpw s t h
    simp only [List.foldl_cons]
    apply foldl_congr
    have hyx : Apart keys y x := (List.pairwise_cons.mp hpw).1 x (by simp)
    exact (step_swap keys set hI s y x hyx).trans
      (step_congr keys set _ _ (step_congr keys set s t h x) y)
  | trans h₁ _ ih₁ ih₂ =>
    intro hpw s t h
    have hpw2 := (h₁.pairwise_iff (fun h => Apart.symm h)).mp hpw
    exact (ih₁ hpw s s (Equiv.refl s)).trans (ih₂ hpw2 s t h)

/-- **order independence of the struct decoder**: two maps holding the same entries in different orders, no two of
    which select the same field, decode to the same result -/
theorem structDecode_perm {σ} (keys : List Int) (set : σ → Int → Cbor → Dec σ) (hI : Indep keys set) (init : σ)
    (l₁ l₂ : List (Cbor × Cbor)) (hp : l₁.Perm l₂) (hpw : l₁.Pairwise (Apart keys)) :
    structDecode keys set init l₁ = structDecode keys set init l₂ := by
  obtain ⟨hv, hb, ho, _⟩ := foldl_perm keys set hI hp hpw _ _ (Equiv.refl { val := init, found := [], bad := false, ood := false })
  unfold structDecode
  simp only [hv, hb, ho]


theorem map_ok {α β} (d : Dec α) (f : α → β) (y : β) : d.map f = .ok y ↔ ∃ x, d = .ok x ∧ f x = y := by
  cases d <;> simp [Dec.map, Dec.bind]

theorem kind_map {α β} (d : Dec α) (f : α → β) : kind (d.map f) = kind d := by
  cases d <;> rfl

set_option linter.unusedVariables false in
theorem comp_stable (s s' : SwComp) (k k' : Int) (v v' : Cbor) (hk : k ∈ compKeys) (hk' : k' ∈ compKeys) (hne : k ≠ k')
    (h : setComp s k' v' = .ok s') : kind (setComp s' k v) = kind (setComp s k v) := by
  simp only [compKeys, List.mem_cons, List.mem_nil_iff, or_false] at hk hk'
  rcases hk with rfl | rfl | rfl | rfl | rfl <;> simp [setComp, kind_map]

theorem comp_comm (s s1 s2 : SwComp) (k k' : Int) (v v' : Cbor) (hk : k ∈ compKeys) (hk' : k' ∈ compKeys) (hne : k ≠ k')
    (h1 : setComp s k v = .ok s1) (h2 : setComp s k' v' = .ok s2) :
    ∃ s12, setComp s1 k' v' = .ok s12 ∧ setComp s2 k v = .ok s12 := by
  simp only [compKeys, List.mem_cons, List.mem_nil_iff, or_false] at hk hk'
  rcases hk with rfl | rfl | rfl | rfl | rfl <;> rcases hk' with rfl | rfl | rfl | rfl | rfl <;>
    first
    | exact absurd rfl hne
    | (simp [setComp, map_ok] at h1 h2 ⊢
       obtain ⟨x1, e1, rfl⟩ := h1
       obtain ⟨x2, e2, rfl⟩ := h2
       simp [e1, e2])

theorem p1_stable (s s' : Claims) (k k' : Int) (v v' : Cbor) (hk : k ∈ p1Keys) (hk' : k' ∈ p1Keys) (hne : k ≠ k')
    (h : setP1 s k' v' = .ok s') : kind (setP1 s' k v) = kind (setP1 s k v) := by
  simp only [p1Keys, List.mem_cons, List.mem_nil_iff, or_false] at hk hk'
  rcases hk with rfl | rfl | rfl | rfl | rfl | rfl | rfl | rfl | rfl | rfl | rfl <;> rcases hk' with rfl | rfl | rfl | rfl | rfl | rfl | rfl | rfl | rfl | rfl | rfl <;>
    first
    | exact absurd rfl hne
    | (simp [setP1, map_ok] at h
       obtain ⟨x, e, rfl⟩ := h
       simp [setP1, kind_map])

theorem p1_comm (s s1 s2 : Claims) (k k' : Int) (v v' : Cbor) (hk : k ∈ p1Keys) (hk' : k' ∈ p1Keys) (hne : k ≠ k')
    (h1 : setP1 s k v = .ok s1) (h2 : setP1 s k' v' = .ok s2) :
    ∃ s12, setP1 s1 k' v' = .ok s12 ∧ setP1 s2 k v = .ok s12 := by
  simp only [p1Keys, List.mem_cons, List.mem_nil_iff, or_false] at hk hk'
  rcases hk with rfl | rfl | rfl | rfl | rfl | rfl | rfl | rfl | rfl | rfl | rfl <;> rcases hk' with rfl | rfl | rfl | rfl | rfl | rfl | rfl | rfl | rfl | rfl | rfl <;>
    first
    | exact absurd rfl hne
    | (simp [setP1, map_ok] at h1 h2 ⊢
       obtain ⟨x1, e1, rfl⟩ := h1
       obtain ⟨x2, e2, rfl⟩ := h2
       simp [e1, e2])

theorem p2_stable (u : Bytes → Dec Bytes) (s s' : Claims) (k k' : Int) (v v' : Cbor) (hk : k ∈ p2Keys) (hk' : k' ∈ p2Keys) (hne : k ≠ k')
    (h : (setP2 u) s k' v' = .ok s') : kind ((setP2 u) s' k v) = kind ((setP2 u) s k v) := by
  simp only [p2Keys, List.mem_cons, List.mem_nil_iff, or_false] at hk hk'
  rcases hk with rfl | rfl | rfl | rfl | rfl | rfl | rfl | rfl | rfl | rfl <;> rcases hk' with rfl | rfl | rfl | rfl | rfl | rfl | rfl | rfl | rfl | rfl <;>
    first
    | exact absurd rfl hne
    | (simp [setP2, map_ok] at h
       obtain ⟨x, e, rfl⟩ := h
       simp [setP2, kind_map])

theorem p2_comm (u : Bytes → Dec Bytes) (s s1 s2 : Claims) (k k' : Int) (v v' : Cbor) (hk : k ∈ p2Keys) (hk' : k' ∈ p2Keys) (hne : k ≠ k')
    (h1 : (setP2 u) s k v = .ok s1) (h2 : (setP2 u) s k' v' = .ok s2) :
    ∃ s12, (setP2 u) s1 k' v' = .ok s12 ∧ (setP2 u) s2 k v = .ok s12 := by
  simp only [p2Keys, List.mem_cons, List.mem_nil_iff, or_false] at hk hk'
  rcases hk with rfl | rfl | rfl | rfl | rfl | rfl | rfl | rfl | rfl | rfl <;> rcases hk' with rfl | rfl | rfl | rfl | rfl | rfl | rfl | rfl | rfl | rfl <;>
    first
    | exact absurd rfl hne
    | (simp [setP2, map_ok] at h1 h2 ⊢
       obtain ⟨x1, e1, rfl⟩ := h1
       obtain ⟨x2, e2, rfl⟩ := h2
       simp [e1, e2])

theorem selector_indep : Indep [265] setSelector := by
  constructor
  · intro s s' k k' v v' hk hk' hne
    simp at hk hk'; subst hk; subst hk'; exact absurd rfl hne
  · intro s s1 s2 k k' v v' hk hk' hne
    simp at hk hk'; subst hk; subst hk'; exact absurd rfl hne

/-- entries with distinct integer keys never select the same field, whatever the struct -/
theorem apart_of_int_keys (keys : List Int) (a b : Cbor × Cbor) (i j : Int) (ha : keyRes a.1 = .int i) (hb : keyRes b.1 = .int j)
    (hne : i ≠ j) : Apart keys a b := by
  intro k h1 h2
  simp only [Sel, ha, selectField] at h1
  simp only [Sel, hb, selectField] at h2
  split at h1 <;> simp at h1
  split at h2 <;> simp at h2
  exact hne (h1.trans h2.symm)

theorem comp_indep : Indep compKeys setComp :=
  ⟨fun s s' k k' v v' => comp_stable s s' k k' v v', fun s s1 s2 k k' v v' => comp_comm s s1 s2 k k' v v'⟩
theorem p1_indep : Indep p1Keys setP1 :=
  ⟨fun s s' k k' v v' => p1_stable s s' k k' v v', fun s s1 s2 k k' v v' => p1_comm s s1 s2 k k' v v'⟩
theorem p2_indep (u : Bytes → Dec Bytes) : Indep p2Keys (setP2 u) :=
  ⟨fun s s' k k' v v' => p2_stable u s s' k k' v v', fun s s1 s2 k k' v v' => p2_comm u s s1 s2 k k' v v'⟩

/-- no two entries select the same field of any struct (in particular: pairwise distinct integer keys) -/
def KeysApart (a b : Cbor × Cbor) : Prop := ∀ keys, Apart keys a b

theorem pairwise_apart (keys : List Int) {l : List (Cbor × Cbor)} (h : l.Pairwise KeysApart) : l.Pairwise (Apart keys) :=
  h.imp (fun hab => hab keys)

/-- **the claims decoder does not depend on the order of the map's entries** -/
theorem decodeClaimsTree_perm (u : Bytes → Dec Bytes) (extra : List Bytes) (l₁ l₂ : List (Cbor × Cbor))
    (hp : l₁.Perm l₂) (hpw : l₁.Pairwise KeysApart) :
    decodeClaimsTree u extra (.map l₁) = decodeClaimsTree u extra (.map l₂) := by
  have hsel : selectProfile (.map l₁) = selectProfile (.map l₂) :=
    structDecode_perm [265] setSelector selector_indep [] l₁ l₂ hp (pairwise_apart _ hpw)
  have h1 : ∀ c : Claims, structDecode p1Keys setP1 c l₁ = structDecode p1Keys setP1 c l₂ :=
    fun c => structDecode_perm p1Keys setP1 p1_indep c l₁ l₂ hp (pairwise_apart _ hpw)
  have h2 : ∀ c : Claims, structDecode p2Keys (setP2 u) c l₁ = structDecode p2Keys (setP2 u) c l₂ :=
    fun c => structDecode_perm p2Keys (setP2 u) (p2_indep u) c l₁ l₂ hp (pairwise_apart _ hpw)
  simp only [decodeClaimsTree, decodeClaimsMap, hsel, unmarshalInto, h1, h2]

/-- at the level of bytes: two encodable maps with the same entries in different orders -/
theorem decodeClaims_perm (u : Bytes → Dec Bytes) (extra : List Bytes) (l₁ l₂ : List (Cbor × Cbor))
    (hp : l₁.Perm l₂) (hpw : l₁.Pairwise KeysApart) (h₁ : Cbor.OkAt {} (.map l₁) 0) (h₂ : Cbor.OkAt {} (.map l₂) 0) :
    decodeClaims u extra (Cbor.enc (.map l₁)) = decodeClaims u extra (Cbor.enc (.map l₂)) := by
  simp only [decodeClaims, Cbor.decodeAll_enc {} _ h₁, Cbor.decodeAll_enc {} _ h₂]
  exact decodeClaimsTree_perm u extra l₁ l₂ hp hpw

/-- … and neither does the decoding of one software component -/
theorem decCompElem_perm (l₁ l₂ : List (Cbor × Cbor)) (hp : l₁.Perm l₂) (hpw : l₁.Pairwise KeysApart) :
    decCompElem (.map l₁) = decCompElem (.map l₂) := by
  simp only [decCompElem, structDecode_perm compKeys setComp comp_indep emptyComp l₁ l₂ hp (pairwise_apart _ hpw)]

end Psa.Proofs.Perm
