import Psa.Proofs.RoundTripCore
import Psa.Props.C01
import Psa.Props.C10
namespace Psa.Proofs.RT
open Psa Psa.Model Psa.Spec

theorem foldSet_skip {σ} (fk : List Int) (set : σ → Int → Cbor → Dec σ) (val : Int → Option Cbor) :
    ∀ (keys : List Int) (s : σ), (∀ k ∈ keys, fk.contains k = false) → foldSet fk set val keys s = .ok s
  | [], _, _ => rfl
  | k :: ks, s, h => by
    simp only [foldSet]
    have hk := h k (by simp)
    have ih := foldSet_skip fk set val ks s (fun x hx => h x (by simp [hx]))
    cases val k with
    | none => exact ih
    | some v => simp only [hk, Bool.false_eq_true, if_false]; exact ih

theorem keyOrder_i64 (p : Prof) : ∀ k ∈ keyOrder p, I64 k := by
  intro k hk
  cases p <;> simp only [keyOrder, p1KeyOrder, p2KeyOrder, List.mem_cons, List.mem_nil_iff, or_false] at hk <;>
    (rcases hk with rfl | rfl | rfl | rfl | rfl | rfl | rfl | rfl | rfl | rfl | rfl <;> (unfold I64; omega))

/-- a claims-set of one of the two built-in profiles, as the Go types can hold it -/
def Builtin (c : Claims) : Prop :=
  (c.prof = .p1 ∧ c.canonical = p1Name) ∨ (c.prof = .p2 ∧ c.canonical = p2Name ∧ c.noSw = none)

theorem validUTF8_ascii : ∀ l : Bytes, (∀ b ∈ l, b.toNat < 128) → validUTF8 l = true
  | [], _ => by simp [validUTF8]
  | b :: l, h => by
    have hb := h b (by simp)
    have ih := validUTF8_ascii l (fun x hx => h x (by simp [hx]))
    unfold validUTF8
    simp [hb, ih]
theorem p2Name_bytes : p2Name = [104, 116, 116, 112, 58, 47, 47, 97, 114, 109, 46, 99, 111, 109, 47, 112, 115, 97, 47, 50, 46, 48, 46, 48] := by decide
theorem p2Name_text : validUTF8 p2Name = true ∧ p2Name ≠ [] := by
  rw [p2Name_bytes]
  refine ⟨validUTF8_ascii _ ?_, by simp⟩
  intro b hb
  simp only [List.mem_cons, List.mem_nil_iff, or_false] at hb
  rcases hb with rfl | rfl | rfl | rfl | rfl | rfl | rfl | rfl | rfl | rfl | rfl | rfl | rfl | rfl | rfl | rfl | rfl | rfl | rfl | rfl | rfl | rfl | rfl | rfl <;> decide

/-- the dispatcher's selector on the library's own output: no profile claim under key 265 for profile 1, the profile-2
    name for profile 2 -/
theorem select_wire (c : Claims) (hc : Conformant c) (hbi : Builtin c) :
    selectProfile (wireToken c) = .ok (match c.prof with | .p1 => [] | .p2 => p2Name) := by
  unfold wireToken selectProfile
  simp only []
  apply structDecode_entriesOf [265] setSelector (wireVal c) (keyOrder c.prof) [] _ (keyOrder_nodup c.prof) (keyOrder_i64 c.prof)
  rcases hbi with ⟨hp, _⟩ | ⟨hp, hcan, _⟩
  · rw [hp]
    exact foldSet_skip _ _ _ _ _ (by decide)
  · rw [hp]
    simp only [keyOrder, p2KeyOrder]
    rw [foldSet_cons, wv2_0 c hp]
    unfold Conformant at hc
    simp only [hp] at hc
    have hprof : c.profile = some (.str p2Name) := by rw [hc.1, hcan]
    simp only [hprof, profStr, Option.map_some]
    have : ([265] : List Int).contains 265 = true := by decide
    simp only [this, if_true, setSelector, p2Name_text.1, Bool.true_and]
    have hne : (!p2Name.isEmpty) = true := by
      have := p2Name_text.2
      cases h : p2Name with
      | nil => exact absurd h this
      | cons a t => rfl
    simp only [hne, if_true, Dec.bind]
    exact foldSet_skip _ _ _ _ _ (by decide)

/-- **decode ∘ encode**: for every valid claims-set of a built-in profile whose text is valid UTF-8, the library's
    decoder applied to the library's encoding returns the claims-set itself, up to the container that holds the
    software components (`rt`) -/
theorem decode_encode (u : Bytes → Dec Bytes) (extra : List Bytes) (c : Claims) (hv : validate c = .ok ())
    (hb : ClaimsBounded c) (ht : TextOK c) (hbi : Builtin c) (hu : u p2Name = .ok p2Name) :
    ∃ b, encodeClaims c = .ok b ∧ decodeClaims u extra b = .ok (rt c) := by
  have hc : Conformant c := (Props.C01.validate_iff_conformant c).mp hv
  obtain ⟨b, hb1, hb2, _⟩ := Props.C10.nothing_follows c hv hb
  refine ⟨b, hb1, ?_⟩
  unfold decodeClaims
  rw [hb2]
  simp only []
  have hsel := select_wire c hc hbi
  unfold decodeClaimsTree
  have hw : wireToken c = .map (wireEntries c) := rfl
  rw [hw]
  simp only []
  unfold decodeClaimsMap
  rw [← hw, hsel]
  simp only [Dec.bind]
  rcases hbi with ⟨hp, hcan⟩ | ⟨hp, hcan, hns⟩
  · -- profile 1
    simp only [hp]
    have hl : lookupProfile extra [] = some .p1 := by simp [lookupProfile]
    rw [hl]
    simp only []
    unfold unmarshalInto
    rw [hw]
    simp only []
    have hnp : (Claims.new .p1).prof = .p1 := rfl
    simp only [hnp]
    have hfold := p1_fold c hp hb ht
    have hent : wireEntries c = entriesOf p1KeyOrder (wireVal c) := by simp [wireEntries, hp, keyOrder]
    rw [hent]
    refine (structDecode_entriesOf p1Keys setP1 (wireVal c) p1KeyOrder _ _ (by decide) (keyOrder_i64 .p1) hfold).trans ?_
    congr 1
    -- the final state is `rt c`
    unfold Conformant at hc
    simp only [hp] at hc
    obtain ⟨hprof, _, _, _, _, _, _, ⟨n, hn, _⟩, _, _⟩ := hc
    obtain ⟨prof, canonical, profile, clientId, lifecycle, implId, bootSeed, certRef, sw, noSw, nonce, instId, vsi⟩ := c
    simp only [] at hp hcan hprof hn
    subst hp; subst hcan; subst hn
    rcases hprof with rfl | rfl <;> simp [st1, rt, profStr, single]
  · -- profile 2
    simp only [hp]
    have hl : lookupProfile extra p2Name = some .p2 := by
      unfold lookupProfile; rw [if_neg (by decide), if_pos (by decide)]
    rw [hl]
    simp only []
    unfold unmarshalInto
    rw [hw]
    simp only []
    have hnp : (Claims.new .p2).prof = .p2 := rfl
    simp only [hnp]
    unfold Conformant at hc
    simp only [hp] at hc
    obtain ⟨hprof, _, _, _, _, _, _, ⟨n, hn, _⟩, _, _⟩ := hc
    have hu' : ∀ s, profStr c.profile = some s → u s = .ok s := by
      intro s hs
      rw [hprof, hcan] at hs
      simp only [profStr, Option.some.injEq] at hs
      rw [← hs]; exact hu
    have hfold := p2_fold u c hp hb ht hu'
    have hent : wireEntries c = entriesOf p2KeyOrder (wireVal c) := by simp [wireEntries, hp, keyOrder]
    rw [hent]
    refine (structDecode_entriesOf p2Keys (setP2 u) (wireVal c) p2KeyOrder _ _ (by decide) (keyOrder_i64 .p2) hfold).trans ?_
    congr 1
    obtain ⟨prof, canonical, profile, clientId, lifecycle, implId, bootSeed, certRef, sw, noSw, nonce, instId, vsi⟩ := c
    simp only [] at hp hcan hprof hn hns
    subst hp; subst hcan; subst hn; subst hns; subst hprof
    simp [st2, rt, profStr, nonceRt]

end Psa.Proofs.RT

namespace Psa.Proofs.RT
open Psa Psa.Model Psa.Spec

theorem filterMap_id_map_some : ∀ l : List (Option SwComp), (∀ e ∈ l, e ≠ none) → (l.filterMap id).map some = l
  | [], _ => rfl
  | none :: _, h => absurd rfl (h none (by simp))
  | some sc :: xs, h => by
    simp only [List.filterMap_cons, id, List.map_cons]
    rw [filterMap_id_map_some xs (fun e he => h e (by simp [he]))]

theorem rtSw_elems (f : SwField) (h : ∀ e ∈ f.elems, e ≠ none) : (rtSw f).elems = f.elems := by
  cases f with
  | nilIface => rfl
  | cont v =>
    cases v with
    | none => rfl
    | some l =>
      have h' : ∀ e ∈ l, e ≠ none := h
      by_cases hl : l.isEmpty = true
      · have : l = [] := by simpa using hl
        subst this; rfl
      · have e : rtSw (.cont (some l)) = .cont (some ((l.filterMap id).map some)) := by
          unfold rtSw
          show (if l.isEmpty = true then _ else _) = _
          rw [if_neg hl]; rfl
        rw [e]; exact filterMap_id_map_some l h'

theorem swToCbor_of_elems (f f' : SwField) (h : f.elems = f'.elems) (hne : f'.elems ≠ []) : swToCbor f = swToCbor f' := by
  cases f with
  | nilIface => simp only [SwField.elems] at h; exact absurd h.symm hne
  | cont v =>
    cases v with
    | none => simp only [SwField.elems] at h; exact absurd h.symm hne
    | some l =>
      cases f' with
      | nilIface => exact absurd rfl hne
      | cont v' =>
        cases v' with
        | none => exact absurd rfl hne
        | some l' => simp only [SwField.elems] at h; subst h; rfl

/-- the getters see the component field through its elements only -/
theorem get_sw_irrelevant (g : Getter) (c : Claims) (f : SwField) (h : f.elems = c.sw.elems) :
    Model.get g { c with sw := f } = Model.get g c := by
  cases g <;> simp only [Model.get] <;> first
    | rfl
    | (simp only [getSoftwareComponents, SwField.nilOrEmpty, h]; cases c.prof <;> rfl)

/-- … and so does the encoder, as long as there is at least one element or the profile omits an empty list -/
theorem encode_sw_irrelevant (c : Claims) (f : SwField) (h : f.elems = c.sw.elems) (hne : c.prof = .p2 → c.sw.elems ≠ []) :
    encodeClaims { c with sw := f } = encodeClaims c := by
  unfold encodeClaims claimsToCbor
  cases hp : c.prof
  · simp only [p1ToCbor, SwField.nilOrEmpty, h]
    by_cases he : c.sw.elems.isEmpty = true
    · simp only [he, if_true]
    · have hne' : c.sw.elems ≠ [] := by intro hx; rw [hx] at he; exact he rfl
      simp only [he, if_false, swToCbor_of_elems f c.sw h hne']
  · simp only [p2ToCbor, swToCbor_of_elems f c.sw h (hne hp)]

/-- **decode ∘ encode is the identity on everything a caller can read** -/
theorem decode_encode_obs (u : Bytes → Dec Bytes) (extra : List Bytes) (c : Claims) (hv : validate c = .ok ())
    (hb : ClaimsBounded c) (ht : TextOK c) (hbi : Builtin c) (hu : u p2Name = .ok p2Name) :
    ∃ b c', encodeClaims c = .ok b ∧ decodeClaims u extra b = .ok c' ∧ (∀ g, Model.get g c' = Model.get g c) ∧
      validate c' = .ok () ∧ encodeClaims c' = .ok b := by
  obtain ⟨b, h1, h2⟩ := decode_encode u extra c hv hb ht hbi hu
  have hc : Conformant c := (Props.C01.validate_iff_conformant c).mp hv
  have hnone : ∀ e ∈ c.sw.elems, e ≠ none := by
    unfold Conformant at hc
    cases hp : c.prof <;> simp only [hp] at hc
    · obtain ⟨_, _, _, _, _, _, hsw, _⟩ := hc
      rcases hsw with ⟨⟨l, _, hl, _⟩, _⟩ | ⟨hn, _⟩
      · intro e he; rw [hl] at he; simp at he; obtain ⟨x, _, rfl⟩ := he; simp
      · intro e he; unfold NoComponents at hn; rw [hn] at he; cases he
    · obtain ⟨_, _, _, _, _, _, ⟨l, _, hl, _⟩, _⟩ := hc
      intro e he; rw [hl] at he; simp at he; obtain ⟨x, _, rfl⟩ := he; simp
  have hel := rtSw_elems c.sw hnone
  have hget : ∀ g, Model.get g (rt c) = Model.get g c := fun g => get_sw_irrelevant g c (rtSw c.sw) hel
  have hval : validate (rt c) = .ok () := by
    unfold validate at hv ⊢
    have key : ∀ o, validateWith o (rt c) = validateWith o c := by
      intro o
      induction o with
      | nil => rfl
      | cons g rest ih => simp only [validateWith, hget g, ih]
    rw [key]; exact hv
  refine ⟨b, rt c, h1, h2, hget, hval, ?_⟩
  rw [← h1]
  apply encode_sw_irrelevant c (rtSw c.sw) hel
  intro hp
  unfold Conformant at hc
  simp only [hp] at hc
  obtain ⟨_, _, _, _, _, _, ⟨l, hl0, hl, _⟩, _⟩ := hc
  rw [hl]; intro hx; apply hl0
  cases l with
  | nil => rfl
  | cons a t => simp at hx

end Psa.Proofs.RT
