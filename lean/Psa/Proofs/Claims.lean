/- Helper lemmas relating the claims model to the Conformant spec. -/
import Psa.Model.Claims
import Psa.Spec.Conformant
namespace Psa.Proofs
open Psa Psa.Model Psa.Spec

/-! lifecycle -/
theorem lifeCycleToState_spec (v : Nat) : Model.lifeCycleToState v = (Spec.state v).code := by
  unfold Model.lifeCycleToState Spec.state
  repeat' split
  all_goals (simp only [Spec.LState.code]; try omega)

theorem validateLC_ok_iff (v : Nat) : Model.validateSecurityLifeCycle v = .ok () ↔ LifecycleOK v := by
  unfold Model.validateSecurityLifeCycle LifecycleOK
  rw [lifeCycleToState_spec]
  cases Spec.state v <;> simp [Model.stateIsValid, Spec.LState.code, eWrongSyntax]

theorem validateLC_cases (v : Nat) :
    Model.validateSecurityLifeCycle v = .ok () ∨ Model.validateSecurityLifeCycle v = .err eWrongSyntax := by
  unfold Model.validateSecurityLifeCycle; split <;> simp

/-! hashes -/
theorem validateHash_ok_iff (b : Bytes) : validatePSAHashType b = .ok () ↔ HashLen b.length := by
  unfold validatePSAHashType HashLen
  simp only [bne_iff_ne, ne_eq, Bool.and_eq_true, decide_eq_true_eq]
  split <;> simp_all <;> omega

theorem validateHash_cases (b : Bytes) :
    validatePSAHashType b = .ok () ∨ validatePSAHashType b = .err eWrongSyntax := by
  unfold validatePSAHashType; simp only []; split <;> simp

theorem validateImplID_ok_iff (b : Bytes) : validateImplID b = .ok () ↔ b.length = 32 := by
  unfold validateImplID; split <;> simp_all

theorem validateInstID_ok_iff (b : Bytes) : validateInstID b = .ok () ↔ InstOK b := by
  unfold validateInstID InstOK idx
  split
  · simp_all
  · rename_i h
    have hl : b.length = 33 := by simpa using h
    cases b with
    | nil => simp at hl
    | cons x xs =>
      simp only [List.getElem?_cons_zero, Outcome.bind, List.head?_cons, Option.some.injEq]
      split
      · rename_i h2
        have : x ≠ 1 := by
          intro hx; subst hx; simp at h2
        simp [hl, this]
      · rename_i h2
        have hx : x.toNat = 1 := by simpa using h2
        have : x = 1 := by
          apply UInt8.toNat_inj.mp; simpa using hx
        have hl' : xs.length = 32 := by simpa using hl
        simp [hl', this]

theorem validateInstID_cases (b : Bytes) :
    validateInstID b = .ok () ∨ validateInstID b = .err eWrongSyntax := by
  unfold validateInstID idx
  split
  · simp
  · rename_i h
    have hl : b.length = 33 := by simpa using h
    cases b with
    | nil => simp at hl
    | cons x xs =>
      simp only [List.getElem?_cons_zero, Outcome.bind]
      split <;> simp

theorem validateVSI_ok_iff (s : Bytes) : validateVSI s = .ok () ↔ s ≠ [] := by
  unfold validateVSI; cases s <;> simp

/-! regular expressions -/
theorem all_isDigit_iff (s : Bytes) : s.all isDigit = true ↔ AllDigits s := by
  unfold AllDigits isDigit
  simp [List.all_eq_true]

theorem isEan13_iff (s : Bytes) : isEan13 s = true ↔ Ean13 s := by
  unfold isEan13 Ean13
  rw [Bool.and_eq_true, all_isDigit_iff]; simp

theorem isEan13p5_iff (s : Bytes) : isEan13p5 s = true ↔ Ean13p5 s := by
  unfold isEan13p5 Ean13p5
  simp only [Bool.and_eq_true, beq_iff_eq, all_isDigit_iff]
  constructor
  · rintro ⟨⟨⟨hl, h1⟩, h2⟩, h3⟩
    refine ⟨s.take 13, s.drop 14, ?_, ?_, ?_, h1, h3⟩
    · have hd : s.drop 13 = 45 :: s.drop 14 := by
        have hlt : 13 < s.length := by omega
        rw [List.drop_eq_getElem_cons hlt]
        have : s[13]? = some s[13] := List.getElem?_eq_getElem hlt
        rw [this] at h2
        simp at h2
        rw [h2]
      calc s = s.take 13 ++ s.drop 13 := (List.take_append_drop 13 s).symm
        _ = s.take 13 ++ 45 :: s.drop 14 := by rw [hd]
    · simp; omega
    · simp; omega
  · rintro ⟨a, b, rfl, ha, hb, hda, hdb⟩
    refine ⟨⟨⟨?_, ?_⟩, ?_⟩, ?_⟩
    · simp; omega
    · rw [List.take_append_of_le_length (by omega)]
      rw [List.take_of_length_le (by omega)]; exact hda
    · rw [List.getElem?_append_right (by omega)]; simp [ha]
    · have : (a ++ 45 :: b).drop 14 = b := by
        have h14 : 14 = a.length + 1 := by omega
        rw [h14, List.drop_append]; simp
      rw [this]; exact hdb

/-! Outcome plumbing -/
theorem bind_ok_iff {α β} (x : Outcome α) (f : α → Outcome β) (b : β) :
    x.bind f = .ok b ↔ ∃ a, x = .ok a ∧ f a = .ok b := by
  cases x <;> simp [Outcome.bind]

theorem bind_unit_ok_iff {β} (x : Outcome Unit) (f : Unit → Outcome β) (b : β) :
    x.bind f = .ok b ↔ x = .ok () ∧ f () = .ok b := by
  cases x <;> simp [Outcome.bind]

theorem filterError_ok_iff {α} (o : Outcome α) :
    filterError o = .ok () ↔ (∃ a, o = .ok a) ∨ (∃ m, o = .err m ∧ filtered m = true) := by
  cases o <;> simp [filterError]

/-! components -/
theorem comp_mval_ok_iff (sc : SwComp) :
    filterError sc.getMeasurementValue = .ok () ↔ ∃ b, sc.mval = some b ∧ HashLen b.length := by
  unfold SwComp.getMeasurementValue
  cases h : sc.mval with
  | none => simp [filterError, filtered, eMissingMandatory]
  | some b =>
    rcases validateHash_cases b with h' | h'
    · have := (validateHash_ok_iff b).mp h'
      simp [h', Outcome.bind, filterError, this]
    · have : ¬ HashLen b.length := fun hh => by
        have := (validateHash_ok_iff b).mpr hh; rw [h'] at this; cases this
      simp [h', Outcome.bind, filterError, filtered, eWrongSyntax, this]

theorem comp_signer_ok_iff (sc : SwComp) :
    filterError sc.getSignerID = .ok () ↔ ∃ b, sc.signer = some b ∧ HashLen b.length := by
  unfold SwComp.getSignerID
  cases h : sc.signer with
  | none => simp [filterError, filtered, eMissingMandatory]
  | some b =>
    rcases validateHash_cases b with h' | h'
    · have := (validateHash_ok_iff b).mp h'
      simp [h', Outcome.bind, filterError, this]
    · have : ¬ HashLen b.length := fun hh => by
        have := (validateHash_ok_iff b).mpr hh; rw [h'] at this; cases this
      simp [h', Outcome.bind, filterError, filtered, eWrongSyntax, this]

theorem comp_validate_ok_iff (sc : SwComp) : sc.validate = .ok () ↔ CompOK sc := by
  unfold SwComp.validate CompOK
  simp only [bind_unit_ok_iff, comp_mval_ok_iff, comp_signer_ok_iff]
  have h1 : filterError sc.getMeasurementType = .ok () := by
    unfold SwComp.getMeasurementType; cases sc.mtype <;> simp [filterError, filtered, eMissingOptional]
  have h2 : filterError sc.getVersion = .ok () := by
    unfold SwComp.getVersion; cases sc.version <;> simp [filterError, filtered, eMissingOptional]
  have h3 : filterError sc.getMeasurementDesc = .ok () := by
    unfold SwComp.getMeasurementDesc; cases sc.mdesc <;> simp [filterError, filtered, eMissingOptional]
  simp [h1, h2, h3]

/-- a component's validation never panics -/
theorem filterError_cases {α} (o : Outcome α) (h : ∀ s, o ≠ .panic s) :
    filterError o = .ok () ∨ ∃ m, filterError o = .err m := by
  cases o with
  | ok a => simp [filterError]
  | err m => simp only [filterError]; split <;> simp
  | panic s => exact absurd rfl (h s)

theorem comp_validate_cases (sc : SwComp) : sc.validate = .ok () ∨ ∃ m, sc.validate = .err m := by
  have hmv : ∀ s, sc.getMeasurementValue ≠ .panic s := by
    intro s; unfold SwComp.getMeasurementValue
    cases sc.mval with
    | none => simp
    | some b => rcases validateHash_cases b with h | h <;> simp [h, Outcome.bind]
  have hsi : ∀ s, sc.getSignerID ≠ .panic s := by
    intro s; unfold SwComp.getSignerID
    cases sc.signer with
    | none => simp
    | some b => rcases validateHash_cases b with h | h <;> simp [h, Outcome.bind]
  have h1 : filterError sc.getMeasurementType = .ok () := by
    unfold SwComp.getMeasurementType; cases sc.mtype <;> simp [filterError, filtered, eMissingOptional]
  have h2 : filterError sc.getVersion = .ok () := by
    unfold SwComp.getVersion; cases sc.version <;> simp [filterError, filtered, eMissingOptional]
  have h3 : filterError sc.getMeasurementDesc = .ok () := by
    unfold SwComp.getMeasurementDesc; cases sc.mdesc <;> simp [filterError, filtered, eMissingOptional]
  unfold SwComp.validate
  rw [h1, h2, h3]
  rcases filterError_cases _ hmv with a | ⟨m, a⟩ <;> rcases filterError_cases _ hsi with b | ⟨m', b⟩ <;>
    simp [a, b, Outcome.bind]

end Psa.Proofs
