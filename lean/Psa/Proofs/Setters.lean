/- Setter lemmas: success criterion, frame, normalisation congruence, canonical step (helpers for C11). -/
import Psa.Spec.Setters
import Psa.Proofs.Errors
namespace Psa.Proofs
open Psa Psa.Model Psa.Spec

theorem hashOK_iff (b : Bytes) : hashOK b = true ↔ validatePSAHashType b = .ok () := by
  unfold hashOK validatePSAHashType
  simp only []
  split <;> simp_all <;> omega

theorem compOK_iff (sc : SwComp) : compOK sc = true ↔ sc.validate = .ok () := by
  rw [comp_validate_ok_iff]
  unfold compOK CompOK
  cases h1 : sc.mval <;> cases h2 : sc.signer <;> simp [hashOK_iff, validateHash_ok_iff]

theorem validateAndConvert_ok_iff (l : List SwComp) :
    validateAndConvert l = .ok (l.map some) ↔ l.all compOK = true := by
  induction l with
  | nil => simp [validateAndConvert]
  | cons sc xs ih =>
    simp only [validateAndConvert, List.all_cons, Bool.and_eq_true, compOK_iff]
    rcases comp_validate_cases sc with h | ⟨m, h⟩
    · rw [h]; simp only [bind_ok_iff, true_and]
      constructor
      · rintro ⟨a, ha, hb⟩
        simp at hb; subst hb; exact ih.mp ha
      · intro hh; exact ⟨_, ih.mpr hh, rfl⟩
    · rw [h]; simp

theorem validateAndConvert_cases (l : List SwComp) :
    validateAndConvert l = .ok (l.map some) ∨ ∃ m, validateAndConvert l = .err m := by
  induction l with
  | nil => simp [validateAndConvert]
  | cons sc xs ih =>
    simp only [validateAndConvert]
    rcases comp_validate_cases sc with h | ⟨m, h⟩
    · rw [h]
      rcases ih with h' | ⟨m', h'⟩
      · left; rw [h']; rfl
      · right; exact ⟨m', by rw [h']; rfl⟩
    · right; exact ⟨m, by rw [h]⟩

/-- the setter's verdict does not depend on the claims-set beyond its profile -/
theorem applySet_ok_iff (c : Claims) (op : SetOp) :
    (applySet c op).2 = .ok () ↔ accepts c.prof op = true := by
  cases op with
  | clientId v => simp [applySet, accepts]
  | lifecycle v =>
    simp only [applySet, accepts]
    rcases validateLC_cases v with h | h
    · have := (validateLC_ok_iff v).mp h; simp [h, this, LifecycleOK] at *; exact this
    · have : ¬ LifecycleOK v := fun hh => by rw [(validateLC_ok_iff v).mpr hh] at h; cases h
      simp [h]; simpa [LifecycleOK] using this
  | implId b =>
    simp only [applySet, accepts, validateImplID]
    split <;> simp_all
  | bootSeed b =>
    simp only [applySet, accepts]
    cases c.prof <;> simp only [] <;> split <;> simp_all <;> omega
  | certRef s =>
    simp only [applySet, accepts]
    cases c.prof <;> simp only [] <;> split <;> simp_all <;>
      (rename_i h; by_cases h1 : isEan13 s = true <;> simp_all)
  | sw l =>
    simp only [applySet, accepts, replaceVals]
    cases hp : c.prof <;> simp only []
    · cases l with
      | none => simp
      | some vals =>
        simp only []
        rcases validateAndConvert_cases vals with h | ⟨m, h⟩
        · have hh := (validateAndConvert_ok_iff vals).mp h
          rw [h]; simp only [Outcome.bind]; simp [hh]
        · have hh : ¬ vals.all compOK = true := fun hh => by
            rw [(validateAndConvert_ok_iff vals).mpr hh] at h; cases h
          rw [h]; simp only [Outcome.bind]; simp [hh]
    · cases l with
      | none => simp [validateAndConvert, Outcome.bind]
      | some vals =>
        simp only [Option.getD]
        rcases validateAndConvert_cases vals with h | ⟨m, h⟩
        · have hh := (validateAndConvert_ok_iff vals).mp h
          rw [h]; simp only [Outcome.bind]; simp [hh]
        · have hh : ¬ vals.all compOK = true := fun hh => by
            rw [(validateAndConvert_ok_iff vals).mpr hh] at h; cases h
          rw [h]; simp only [Outcome.bind]; simp [hh]
  | nonce b =>
    simp only [applySet, accepts]
    rcases validateHash_cases b with h | h
    · simp [h, (hashOK_iff b).mpr h]
    · have hh : ¬ hashOK b = true := fun hh => by rw [(hashOK_iff b).mp hh] at h; cases h
      simp [h, hh]
  | instId b =>
    simp only [applySet, accepts]
    rcases validateInstID_cases b with h | h
    · have := (validateInstID_ok_iff b).mp h
      simp [h]; exact this
    · have : ¬ InstOK b := fun hh => by rw [(validateInstID_ok_iff b).mpr hh] at h; cases h
      simp [h]; simpa [InstOK] using this
  | vsi s =>
    simp only [applySet, accepts, validateVSI]
    cases s <;> simp

end Psa.Proofs

namespace Psa.Proofs
open Psa Psa.Model Psa.Spec

theorem norm_idem (f : SwField) : f.norm.norm = f.norm := by cases f <;> rfl

theorem normalize_prof (c : Claims) : c.normalize.prof = c.prof := rfl

/-- on success the setter stores exactly the value (and nothing else changes) -/
theorem applySet_succ (c : Claims) (op : SetOp) (h : accepts c.prof op = true) :
    (applySet c op).1 = assign c op := by
  have hok := (applySet_ok_iff c op).mpr h
  cases op with
  | clientId v => rfl
  | lifecycle v =>
    simp only [applySet] at hok ⊢
    rcases validateLC_cases v with h' | h' <;> simp [h'] at hok ⊢; rfl
  | implId b =>
    simp only [applySet] at hok ⊢
    cases h' : validateImplID b <;> simp [h'] at hok ⊢; rfl
  | bootSeed b =>
    simp only [applySet] at hok ⊢
    cases hp : c.prof <;> simp only [hp] at hok ⊢ <;> split <;> simp_all [assign]
  | certRef s =>
    simp only [applySet] at hok ⊢
    cases hp : c.prof <;> simp only [hp] at hok ⊢ <;> split <;> simp_all [assign]
  | sw l =>
    obtain ⟨prof, canonical, profile, clientId, lifecycle, implId, bootSeed, certRef, sw, noSw, nonce, instId, vsi⟩ := c
    simp only [applySet, replaceVals, assign] at hok ⊢
    cases prof <;> simp only [] at hok ⊢
    · cases l with
      | none => rfl
      | some vals =>
        simp only [] at hok ⊢
        rcases validateAndConvert_cases vals with h' | ⟨m, h'⟩
        · rw [h']; simp only [Outcome.bind]
        · rw [h'] at hok; simp [Outcome.bind] at hok
    · cases l with
      | none => simp [accepts] at h
      | some vals =>
        simp only [] at hok ⊢
        rcases validateAndConvert_cases vals with h' | ⟨m, h'⟩
        · rw [h']; simp only [Outcome.bind]; cases sw <;> rfl
        · rw [h'] at hok; simp [Outcome.bind] at hok
  | nonce b =>
    simp only [applySet] at hok ⊢
    rcases validateHash_cases b with h' | h' <;> simp [h'] at hok ⊢; rfl
  | instId b =>
    simp only [applySet] at hok ⊢
    rcases validateInstID_cases b with h' | h' <;> simp [h'] at hok ⊢; rfl
  | vsi s =>
    simp only [applySet] at hok ⊢
    cases h' : validateVSI s <;> simp [h'] at hok ⊢; rfl

/-- on failure the claims-set is unchanged (up to the unobservable nil-interface / nil-slice distinction) -/
theorem applySet_fail (c : Claims) (op : SetOp) (h : accepts c.prof op = false) :
    (applySet c op).1.normalize = c.normalize := by
  have hne : (applySet c op).2 ≠ .ok () := fun hh => by
    rw [(applySet_ok_iff c op).mp hh] at h; cases h
  cases op with
  | clientId v => simp [accepts] at h
  | lifecycle v =>
    simp only [applySet] at hne ⊢
    rcases validateLC_cases v with h' | h' <;> simp [h'] at hne ⊢
  | implId b =>
    simp only [applySet] at hne ⊢
    cases h' : validateImplID b <;> simp [h'] at hne ⊢
  | bootSeed b =>
    simp only [applySet] at hne ⊢
    cases hp : c.prof <;> simp only [hp] at hne ⊢ <;> split <;> simp_all
  | certRef s =>
    simp only [applySet] at hne ⊢
    cases hp : c.prof <;> simp only [hp] at hne ⊢ <;> split <;> simp_all
  | sw l =>
    obtain ⟨prof, canonical, profile, clientId, lifecycle, implId, bootSeed, certRef, sw, noSw, nonce, instId, vsi⟩ := c
    simp only [applySet, replaceVals] at hne ⊢
    cases prof <;> simp only [] at hne ⊢
    · cases l with
      | none => simp at hne
      | some vals =>
        simp only [] at hne ⊢
        rcases validateAndConvert_cases vals with h' | ⟨m, h'⟩
        · rw [h'] at hne; simp [Outcome.bind] at hne
        · rw [h']; simp only [Outcome.bind]
    · cases l with
      | none => rfl
      | some vals =>
        simp only [] at hne ⊢
        rcases validateAndConvert_cases vals with h' | ⟨m, h'⟩
        · rw [h'] at hne; simp [Outcome.bind] at hne
        · rw [h']; simp only [Outcome.bind]; cases sw <;> rfl
  | nonce b =>
    simp only [applySet] at hne ⊢
    rcases validateHash_cases b with h' | h' <;> simp [h'] at hne ⊢
  | instId b =>
    simp only [applySet] at hne ⊢
    rcases validateInstID_cases b with h' | h' <;> simp [h'] at hne ⊢
  | vsi s =>
    simp only [applySet] at hne ⊢
    cases h' : validateVSI s <;> simp [h'] at hne ⊢

/-- … and exactly unchanged, deep state included, for every setter of profile 1 (the component list is built aside and
    attached only on success) and for every setter of profile 2 other than the component list -/
theorem applySet_fail_exact (c : Claims) (op : SetOp) (h : accepts c.prof op = false)
    (hp : c.prof = .p1 ∨ ∀ l, op ≠ .sw l) : (applySet c op).1 = c := by
  have hne : (applySet c op).2 ≠ .ok () := fun hh => by
    rw [(applySet_ok_iff c op).mp hh] at h; cases h
  cases op with
  | clientId v => simp [accepts] at h
  | lifecycle v =>
    simp only [applySet] at hne ⊢
    rcases validateLC_cases v with h' | h' <;> simp [h'] at hne ⊢
  | implId b =>
    simp only [applySet] at hne ⊢
    cases h' : validateImplID b <;> simp [h'] at hne ⊢
  | bootSeed b =>
    simp only [applySet] at hne ⊢
    cases hp' : c.prof <;> simp only [hp'] at hne ⊢ <;> split <;> simp_all
  | certRef s =>
    simp only [applySet] at hne ⊢
    cases hp' : c.prof <;> simp only [hp'] at hne ⊢ <;> split <;> simp_all
  | sw l =>
    rcases hp with hp | hp
    · obtain ⟨prof, canonical, profile, clientId, lifecycle, implId, bootSeed, certRef, sw, noSw, nonce, instId, vsi⟩ := c
      simp only at hp; subst hp
      simp only [applySet, replaceVals] at hne ⊢
      cases l with
      | none => simp at hne
      | some vals =>
        simp only [] at hne ⊢
        rcases validateAndConvert_cases vals with h' | ⟨m, h'⟩
        · rw [h'] at hne; simp [Outcome.bind] at hne
        · rw [h']; simp only [Outcome.bind]
    · exact absurd rfl (hp l)
  | nonce b =>
    simp only [applySet] at hne ⊢
    rcases validateHash_cases b with h' | h' <;> simp [h'] at hne ⊢
  | instId b =>
    simp only [applySet] at hne ⊢
    rcases validateInstID_cases b with h' | h' <;> simp [h'] at hne ⊢
  | vsi s =>
    simp only [applySet] at hne ⊢
    cases h' : validateVSI s <;> simp [h'] at hne ⊢

theorem assign_prof (c : Claims) (op : SetOp) : (assign c op).prof = c.prof := by
  cases op with
  | sw l => cases l <;> simp only [assign] <;> cases c.prof <;> rfl
  | _ => rfl

theorem applySet_prof (c : Claims) (op : SetOp) : (applySet c op).1.prof = c.prof := by
  cases h : accepts c.prof op
  · have := applySet_fail c op h
    have h2 := congrArg Claims.prof this
    simpa [normalize_prof] using h2
  · rw [applySet_succ c op h]; exact assign_prof c op

/-- assignment commutes with normalisation -/
theorem assign_norm (c : Claims) (op : SetOp) :
    (assign c.normalize op).normalize = (assign c op).normalize := by
  cases op with
  | sw l => cases l <;> simp only [assign, normalize_prof] <;> cases c.prof <;> rfl
  | _ => simp [assign, Claims.normalize, norm_idem]

end Psa.Proofs

namespace Psa.Proofs
open Psa Psa.Model Psa.Spec

theorem canon_prof (p : Prof) (v : Vals) : (canon p v).prof = p := by
  unfold canon
  cases v.sw with
  | none => cases p <;> rfl
  | some o => cases o <;> cases p <;> rfl

/-- setting a value on the canonical object of `v` gives the canonical object of `v` updated -/
theorem assign_canon (p : Prof) (v : Vals) (op : SetOp) :
    (assign (canon p v) op).normalize = (canon p (v.set op)).normalize := by
  obtain ⟨cid, lc, impl, boot, cert, sw, nonce, inst, vsi⟩ := v
  cases op with
  | sw l =>
    cases l <;> cases sw with
    | none => cases p <;> rfl
    | some o => cases o <;> cases p <;> rfl
  | _ =>
    cases sw with
    | none => cases p <;> rfl
    | some o => cases o <;> cases p <;> rfl

/-- the history invariant: the state is, observably, the canonical object of the last accepted values -/
theorem run_canon (p : Prof) (ops : List SetOp) (c : Claims) (v : Vals) (hp : c.prof = p)
    (h : c.normalize = (canon p v).normalize) :
    (run c ops).normalize = (canon p (ops.foldl (Vals.upd p) v)).normalize := by
  induction ops generalizing c v with
  | nil => simpa [run] using h
  | cons op rest ih =>
    simp only [run, List.foldl_cons] at ih ⊢
    apply ih
    · rw [applySet_prof, hp]
    · unfold Vals.upd
      cases ha : accepts p op
      · simp only [Bool.false_eq_true, if_false]
        rw [applySet_fail c op (by rw [hp]; exact ha)]; exact h
      · simp only [if_true]
        rw [applySet_succ c op (by rw [hp]; exact ha)]
        rw [← assign_norm, h, assign_norm, assign_canon]

end Psa.Proofs

namespace Psa.Proofs
open Psa Psa.Model Psa.Spec

theorem norm_elems (f : SwField) : f.norm.elems = f.elems := by cases f <;> rfl

/-- getters and validation cannot tell a claims-set from its normal form -/
theorem get_normalize (g : Getter) (c : Claims) : Model.get g c.normalize = Model.get g c := by
  cases g <;> simp only [Model.get] <;> try rfl
  unfold getSoftwareComponents Claims.normalize SwField.nilOrEmpty
  simp only [norm_elems]

theorem validateWith_normalize (o : List Getter) (c : Claims) :
    validateWith o c.normalize = validateWith o c := by
  induction o with
  | nil => rfl
  | cons g rest ih => simp only [validateWith, get_normalize, ih]

theorem validate_normalize (c : Claims) : validate c.normalize = validate c :=
  validateWith_normalize _ c

theorem get_of_normalize_eq (g : Getter) (a b : Claims) (h : a.normalize = b.normalize) :
    Model.get g a = Model.get g b := by
  rw [← get_normalize g a, h, get_normalize]

theorem validate_of_normalize_eq (a b : Claims) (h : a.normalize = b.normalize) :
    validate a = validate b := by
  rw [← validate_normalize a, h, validate_normalize]

/-- a setter writes only its own claim -/
theorem assign_frame (c : Claims) (op : SetOp) (g : Getter) (hg : g ≠ claimOf op) :
    Model.get g (assign c op) = Model.get g c := by
  obtain ⟨prof, canonical, profile, clientId, lifecycle, implId, bootSeed, certRef, sw, noSw, nonce, instId, vsi⟩ := c
  cases op with
  | sw l =>
    cases l <;> cases prof <;> cases g <;> first | rfl | (simp [claimOf] at hg)
  | _ =>
    cases g <;> first | rfl | (simp [claimOf] at hg)

end Psa.Proofs
