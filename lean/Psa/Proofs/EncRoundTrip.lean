import Psa.Proofs.EncShape
namespace Psa.Proofs.Enc
open Psa Psa.Model Psa.Model.Enc

/-- every key of the shape is an `int64` (Go `int`) -/
def KeysInt64 (sh : Shape) : Prop := ∀ f ∈ specs sh, Int64 f.key

/-- **C15 round trip**: for every struct shape following the convention (distinct integer keys across the outer and all
    embedded structs, fewer than 2³² of them) and every value of it — any subset of optional fields present, including
    none at all — populating a fresh struct from the serialiser's output gives back the value. -/
theorem populate_serialize (sh : Shape) (v : SVal) (hf : Fits sh v) (hn : ((specs sh).map (·.key)).Nodup)
    (hk : KeysInt64 sh) (hl : (specs sh).length < 2 ^ 32) :
    ∃ bytes, serialize sh v = .ok bytes ∧ populate sh bytes = .ok (.ok v) := by
  have ht := fits_typed sh v hf
  obtain ⟨m, h1, h2, h3, h4, h5, h6⟩ := addFields_spec (specs sh) (flat v) OMap.empty ht hn (fun _ _ => rfl) inv_empty
  have hser : serializeInto sh v OMap.empty = .ok m := by rw [serializeInto_flat sh v _ hf, h1]
  refine ⟨m.toCBOR, by simp [serialize, hser, Outcome.map, Outcome.bind], ?_⟩
  have hraw : RawOK m.fields := by
    constructor
    · intro p hp
      rcases h5 p hp with h | ⟨q, hq, rfl⟩
      · simp [OMap.empty] at h
      · exact hk q.1 (List.of_mem_zip hq).1
    · intro p hp
      rcases h5 p hp with h | ⟨q, hq, rfl⟩
      · simp [OMap.empty] at h
      · have hty : Typed q.1 q.2 := by
          clear h1 h3 h4 h5 h6 hser hp
          revert hq
          generalize specs sh = fs at ht
          generalize flat v = vs at ht
          induction fs generalizing vs with
          | nil => intro hq; simp at hq
          | cons f fs ih =>
            cases vs with
            | nil => cases ht
            | cons v vs =>
              intro hq
              simp only [List.zip_cons_cons, List.mem_cons] at hq
              rcases hq with rfl | hq
              · exact ht.1
              · exact ih vs ht.2 hq
        exact ⟨encFVal q.2, rfl, (encFVal_ok q.1 q.2 hty).1, (encFVal_ok q.1 q.2 hty).2⟩
  have hlen : m.keys.length < 2 ^ 32 := by simp [OMap.empty] at h6; omega
  have hback := fromCBOR_toCBOR m h2 hraw hlen
  obtain ⟨m', e1, _⟩ := populateFrom_spec sh v m hf hn h4
  simp [populate, hback, Outcome.map, Outcome.bind, e1, Dec.map, Dec.bind]

end Psa.Proofs.Enc
