/-
  Proofs about the token layer of the JSON ordered field map (`Psa/Model/JsonTokens.lean`):
  fuel never binds, every call consumes input, and on the token stream of a document the loops compute
  exactly what the tree-level model (`EncJ.fromJSON`) says: the member names in document order.
-/
import Psa.Model.JsonTokens
namespace Psa.Proofs.JTok
open Psa Psa.Model Psa.Model.JTok

/-! ### consumption: whatever comes back is a shorter remainder -/

theorem skip_consumes : ∀ (f : Nat) (ts : List Tok),
    (∀ r, skipValue f ts = .ok r → r.length < ts.length) ∧
    (∀ r, skipValue f ts = .eos r → r.length < ts.length) ∧
    (∀ r, skipLoop f ts = .ok r → r.length < ts.length) ∧
    (∀ r, skipLoop f ts ≠ .eos r)
  | 0, ts => by
    refine ⟨?_, ?_, ?_, ?_⟩ <;> intro r <;> simp [skipValue, skipLoop]
  | f + 1, ts => by
    have ih := skip_consumes f
    refine ⟨?_, ?_, ?_, ?_⟩
    · intro r h
      cases ts with
      | nil => simp [skipValue] at h
      | cons t rest =>
        cases t <;> simp only [skipValue] at h
        case objOpen => have := (ih rest).2.2.1 r h; simp only [List.length_cons]; omega
        case arrOpen => have := (ih rest).2.2.1 r h; simp only [List.length_cons]; omega
        all_goals first
          | (cases h; done)
          | (cases h; simp)
    · intro r h
      cases ts with
      | nil => simp [skipValue] at h
      | cons t rest =>
        cases t <;> simp only [skipValue] at h
        case objOpen => exact absurd h ((ih rest).2.2.2 r)
        case arrOpen => exact absurd h ((ih rest).2.2.2 r)
        all_goals first
          | (cases h; done)
          | (cases h; simp)
    · intro r h
      simp only [skipLoop] at h
      split at h
      · rename_i rest hv
        have h1 := (ih ts).1 rest hv
        have h2 := (ih rest).2.2.1 r h
        omega
      · rename_i rest hv
        injection h with h; subst h
        exact (ih ts).2.1 _ hv
      · cases h
      · cases h
    · intro r h
      simp only [skipLoop] at h
      split at h
      · rename_i rest hv; exact (ih rest).2.2.2 r h
      · cases h
      · cases h
      · cases h

/-! ### the fuel never binds -/

theorem skip_fuel_enough : ∀ (f : Nat) (ts : List Tok),
    (2 * ts.length + 1 ≤ f → skipValue f ts ≠ .fuel) ∧
    (2 * ts.length + 2 ≤ f → skipLoop f ts ≠ .fuel)
  | 0, ts => by constructor <;> intro h <;> omega
  | f + 1, ts => by
    have ih := skip_fuel_enough f
    constructor
    · intro hf
      cases ts with
      | nil => simp [skipValue]
      | cons t rest =>
        simp only [List.length_cons] at hf
        cases t <;> simp only [skipValue] <;> first
          | exact (ih rest).2 (by omega)
          | simp
    · intro hf
      simp only [skipLoop]
      split
      · rename_i rest hv
        have := (skip_consumes f ts).1 rest hv
        exact (ih rest).2 (by omega)
      · simp
      · simp
      · rename_i hv; exact absurd hv ((ih ts).1 (by omega))

/-- more fuel changes nothing once the answer is not "out of fuel" -/
theorem skip_fuel_mono : ∀ (f : Nat) (ts : List Tok),
    (skipValue f ts ≠ .fuel → skipValue (f + 1) ts = skipValue f ts) ∧
    (skipLoop f ts ≠ .fuel → skipLoop (f + 1) ts = skipLoop f ts)
  | 0, ts => by constructor <;> intro h <;> simp [skipValue, skipLoop] at h
  | f + 1, ts => by
    have ih := skip_fuel_mono f
    constructor
    · intro h
      cases ts with
      | nil => simp [skipValue]
      | cons t rest =>
        cases t <;> simp only [skipValue] at h ⊢
        · exact (ih rest).2 h
        · exact (ih rest).2 h
    · intro h
      rw [skipLoop] at h
      rw [skipLoop, skipLoop]
      have hv : skipValue f ts ≠ .fuel := by
        intro hv; rw [hv] at h; exact h rfl
      rw [(ih ts).1 hv]
      cases hsv : skipValue f ts with
      | ok rest => rw [hsv] at h; exact (ih rest).2 h
      | eos rest => rfl
      | err => rfl
      | fuel => exact absurd hsv hv

/-- `skipValue` is a total function of the token list: any two sufficient fuels agree -/
theorem skip_fuel_irrelevant (ts : List Tok) (f : Nat) (hf : 2 * ts.length + 1 ≤ f) :
    skipValue f ts = skipValue (2 * ts.length + 1) ts := by
  obtain ⟨d, rfl⟩ : ∃ d, f = 2 * ts.length + 1 + d := ⟨f - (2 * ts.length + 1), by omega⟩
  induction d with
  | zero => rfl
  | succ d ih =>
    have h1 : skipValue (2 * ts.length + 1 + d) ts ≠ .fuel := (skip_fuel_enough _ ts).1 (by omega)
    rw [← ih (by omega)]
    exact (skip_fuel_mono _ ts).1 h1

/-! ### on the token stream of a document -/

theorem tokens_pos : ∀ v : Json, 1 ≤ (tokens v).length
  | .null | .bool _ | .int _ | .numOther _ | .str _ | .arr _ | .obj _ => by simp [tokens]

mutual
theorem skipValue_tokens : ∀ (v : Json) (f : Nat) (rest : List Tok),
    2 * (tokens v).length ≤ f → skipValue f (tokens v ++ rest) = .ok rest
  | .null, f, rest, h | .bool _, f, rest, h | .int _, f, rest, h | .numOther _, f, rest, h | .str _, f, rest, h => by
    simp only [tokens, List.length_cons, List.length_nil] at h
    obtain ⟨f', rfl⟩ : ∃ f', f = f' + 1 := ⟨f - 1, by omega⟩
    simp [tokens, skipValue]
  | .arr xs, f, rest, h => by
    simp only [tokens, List.length_cons, List.length_append, List.length_nil] at h
    obtain ⟨f', rfl⟩ : ∃ f', f = f' + 1 := ⟨f - 1, by omega⟩
    simp only [tokens, List.cons_append, List.append_assoc, List.nil_append, skipValue]
    exact skipLoop_list xs f' .arrClose rest (Or.inl rfl) (by omega)
  | .obj ms, f, rest, h => by
    simp only [tokens, List.length_cons, List.length_append, List.length_nil] at h
    obtain ⟨f', rfl⟩ : ∃ f', f = f' + 1 := ⟨f - 1, by omega⟩
    simp only [tokens, List.cons_append, List.append_assoc, List.nil_append, skipValue]
    exact skipLoop_members ms f' .objClose rest (Or.inr rfl) (by omega)
theorem skipLoop_list : ∀ (xs : List Json) (f : Nat) (c : Tok) (rest : List Tok),
    (c = .arrClose ∨ c = .objClose) → 2 * (tokensList xs).length + 2 ≤ f →
    skipLoop f (tokensList xs ++ c :: rest) = .ok rest
  | [], f, c, rest, hc, h => by
    obtain ⟨f', rfl⟩ : ∃ f', f = f' + 2 := ⟨f - 2, by simp only [tokensList, List.length_nil] at h; omega⟩
    rcases hc with rfl | rfl <;> simp [tokensList, skipLoop, skipValue]
  | x :: xs, f, c, rest, hc, h => by
    simp only [tokensList, List.length_append] at h
    obtain ⟨f', rfl⟩ : ∃ f', f = f' + 1 := ⟨f - 1, by omega⟩
    have hp := tokens_pos x
    simp only [tokensList, List.append_assoc, skipLoop]
    rw [skipValue_tokens x f' _ (by omega)]
    exact skipLoop_list xs f' c rest hc (by omega)
theorem skipLoop_members : ∀ (ms : List (Bytes × Json)) (f : Nat) (c : Tok) (rest : List Tok),
    (c = .arrClose ∨ c = .objClose) → 2 * (tokensMembers ms).length + 2 ≤ f →
    skipLoop f (tokensMembers ms ++ c :: rest) = .ok rest
  | [], f, c, rest, hc, h => by
    obtain ⟨f', rfl⟩ : ∃ f', f = f' + 2 := ⟨f - 2, by simp only [tokensMembers, List.length_nil] at h; omega⟩
    rcases hc with rfl | rfl <;> simp [tokensMembers, skipLoop, skipValue]
  | (k, v) :: ms, f, c, rest, hc, h => by
    simp only [tokensMembers, List.length_cons, List.length_append] at h
    obtain ⟨f', rfl⟩ : ∃ f', f = f' + 2 := ⟨f - 2, by omega⟩
    have hp := tokens_pos v
    simp only [tokensMembers, List.cons_append, List.append_assoc]
    rw [skipLoop]
    have h1 : skipValue (f' + 1) (.str k :: (tokens v ++ (tokensMembers ms ++ c :: rest)))
        = .ok (tokens v ++ (tokensMembers ms ++ c :: rest)) := by simp [skipValue]
    rw [h1]
    show skipLoop (f' + 1) (tokens v ++ (tokensMembers ms ++ c :: rest)) = .ok rest
    rw [skipLoop, skipValue_tokens v f' _ (by omega)]
    exact skipLoop_members ms f' c rest hc (by omega)
end

theorem tokensMembers_length : ∀ ms : List (Bytes × Json), 2 * ms.length ≤ (tokensMembers ms).length
  | [] => by simp [tokensMembers]
  | (k, v) :: ms => by
    have := tokensMembers_length ms
    have := tokens_pos v
    simp only [tokensMembers, List.length_cons, List.length_append]; omega

theorem keysLoop_members : ∀ (ms : List (Bytes × Json)) (f : Nat) (acc : List Bytes) (rest : List Tok),
    ms.length + 1 ≤ f →
    keysLoop f (tokensMembers ms ++ .objClose :: rest) acc = .ok (acc ++ ms.map (·.1))
  | [], f, acc, rest, h => by
    obtain ⟨f', rfl⟩ : ∃ f', f = f' + 1 := ⟨f - 1, by omega⟩
    simp [tokensMembers, keysLoop]
  | (k, v) :: ms, f, acc, rest, h => by
    simp only [List.length_cons] at h
    obtain ⟨f', rfl⟩ : ∃ f', f = f' + 1 := ⟨f - 1, by omega⟩
    simp only [tokensMembers, List.cons_append, List.append_assoc, keysLoop]
    rw [skipValue_tokens v _ _ (by simp only [List.length_append]; omega)]
    simp only
    rw [keysLoop_members ms f' (acc ++ [k]) rest (by omega)]
    simp

/-- on the token stream of an object, `unmarshalKeys` leaves the member names in document order
    (duplicates included) -/
theorem unmarshalKeys_obj (ms : List (Bytes × Json)) :
    unmarshalKeys (tokens (.obj ms)) = .ok (ms.map (·.1)) := by
  have hl := tokensMembers_length ms
  simp only [tokens, unmarshalKeys]
  have := keysLoop_members ms ((tokensMembers ms ++ [Tok.objClose]).length + 1) [] [] (by
    simp only [List.length_append, List.length_cons, List.length_nil]; omega)
  simpa using this

/-- every other document is refused ("expected start of object") -/
theorem unmarshalKeys_nonobj (j : Json) (h : ∀ ms, j ≠ .obj ms) : unmarshalKeys (tokens j) = .err := by
  cases j with
  | obj ms => exact absurd rfl (h ms)
  | _ => simp [tokens, unmarshalKeys]

/-- the token loops refine the tree-level ordered map: same verdict, same `Keys` -/
theorem fromJSONKeys_refines (j : Json) :
    fromJSONKeys j = (match EncJ.fromJSON j with
      | .ok m => .ok m.keys
      | _ => .err) := by
  unfold fromJSONKeys
  cases j with
  | obj ms => rw [unmarshalKeys_obj]; simp [EncJ.fromJSON]
  | _ => simp [tokens, unmarshalKeys, EncJ.fromJSON]

/-! ### any token list at all (malformed streams included): no fuel exhaustion -/

theorem keysLoop_fuel : ∀ (f : Nat) (ts : List Tok) (acc : List Bytes),
    ts.length + 1 ≤ f → keysLoop f ts acc ≠ .fuel
  | 0, ts, acc, h => by omega
  | f + 1, [], acc, _ => by simp [keysLoop]
  | f + 1, t :: rest, acc, h => by
    simp only [List.length_cons] at h
    cases t <;> simp only [keysLoop] <;> try simp
    split
    · rename_i rest' hv
      have := (skip_consumes _ rest).1 rest' hv
      exact keysLoop_fuel f rest' _ (by omega)
    · simp
    · simp
    · rename_i hv; exact absurd hv ((skip_fuel_enough _ rest).1 (by omega))

theorem unmarshalKeys_total (ts : List Tok) : unmarshalKeys ts ≠ .fuel := by
  unfold unmarshalKeys
  split
  · simp
  · exact keysLoop_fuel _ _ _ (by omega)
  · simp

end Psa.Proofs.JTok
