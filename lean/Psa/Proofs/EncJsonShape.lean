import Psa.Proofs.EncJsonFields
namespace Psa.Proofs.EncJ
open Psa Psa.Model Psa.Model.EncJ
open Psa.Model.Enc (FVal FTy SVal)

/-! ### struct shapes with embedding -/

mutual
/-- all fields of a shape, outer first, then each embedded struct's in turn -/
def specs : ShapeJ → List FieldSpecJ
  | .mk fields embeds => fields ++ specsList embeds
def specsList : List ShapeJ → List FieldSpecJ
  | [] => []
  | s :: ss => specs s ++ specsList ss
end

mutual
def flat : SVal → List (Option FVal)
  | .mk vals evs => vals ++ flatList evs
def flatList : List SVal → List (Option FVal)
  | [] => []
  | v :: vs => flat v ++ flatList vs
end

mutual
/-- the value has the shape's structure and every field value fits its type -/
def Fits : ShapeJ → SVal → Prop
  | .mk fields embeds, .mk vals evs => TypedAll fields vals ∧ FitsList embeds evs
def FitsList : List ShapeJ → List SVal → Prop
  | [], [] => True
  | s :: ss, v :: vs => Fits s v ∧ FitsList ss vs
  | _, _ => False
end

theorem typedAll_append : ∀ (a : List FieldSpecJ) (va : List (Option FVal)) (b : List FieldSpecJ) (vb : List (Option FVal)),
    TypedAll a va → TypedAll b vb → TypedAll (a ++ b) (va ++ vb)
  | [], [], _, _, _, h => h
  | [], _ :: _, _, _, h, _ => by cases h
  | _ :: _, [], _, _, h, _ => by cases h
  | f :: fs, v :: vs, b, vb, h1, h2 => ⟨h1.1, typedAll_append fs vs b vb h1.2 h2⟩

mutual
theorem fits_typed : ∀ (sh : ShapeJ) (v : SVal), Fits sh v → TypedAll (specs sh) (flat v)
  | .mk fields embeds, .mk vals evs, h => by
    simp only [specs, flat]
    exact typedAll_append _ _ _ _ h.1 (fitsList_typed embeds evs h.2)
theorem fitsList_typed : ∀ (ss : List ShapeJ) (vs : List SVal), FitsList ss vs → TypedAll (specsList ss) (flatList vs)
  | [], [], _ => trivial
  | [], _ :: _, h => by cases h
  | _ :: _, [], h => by cases h
  | s :: ss, v :: vs, h => by
    simp only [specsList, flatList]
    exact typedAll_append _ _ _ _ (fits_typed s v h.1) (fitsList_typed ss vs h.2)
end

theorem addFields_append : ∀ (a : List FieldSpecJ) (va : List (Option FVal)) (b : List FieldSpecJ) (vb : List (Option FVal))
    (m : JMap), TypedAll a va → addFields (a ++ b) (va ++ vb) m = (addFields a va m).bind (addFields b vb)
  | [], [], b, vb, m, _ => by simp [addFields, Outcome.bind]
  | [], _ :: _, _, _, _, h => by cases h
  | _ :: _, [], _, _, _, h => by cases h
  | f :: fs, v :: vs, b, vb, m, h => by
    simp only [List.cons_append, addFields]
    split
    · exact addFields_append fs vs b vb m h.2
    · cases hadd : m.add f.name (jFVal v) with
      | ok m' => simp only [Outcome.bind]; exact addFields_append fs vs b vb m' h.2
      | err e => simp [Outcome.bind]
      | panic s => simp [Outcome.bind]

mutual
/-- serialising a struct with embedding is serialising the flattened field list -/
theorem serializeInto_flat : ∀ (sh : ShapeJ) (v : SVal) (m : JMap), Fits sh v →
    serializeInto sh v m = addFields (specs sh) (flat v) m
  | .mk fields embeds, .mk vals evs, m, h => by
    simp only [serializeInto, specs, flat]
    rw [addFields_append _ _ _ _ _ h.1]
    congr 1
    funext m'
    exact serializeEmbeds_flat embeds evs m' h.2
theorem serializeEmbeds_flat : ∀ (ss : List ShapeJ) (vs : List SVal) (m : JMap), FitsList ss vs →
    serializeEmbeds ss vs m = addFields (specsList ss) (flatList vs) m
  | [], [], m, _ => by simp [serializeEmbeds, specsList, flatList, addFields]
  | [], _ :: _, _, h => by cases h
  | _ :: _, [], _, h => by cases h
  | s :: ss, v :: vs, m, h => by
    simp only [serializeEmbeds, specsList, flatList]
    rw [addFields_append _ _ _ _ _ (fits_typed s v h.1), serializeInto_flat s v m h.1]
    congr 1
    funext m'
    exact serializeEmbeds_flat ss vs m' h.2
end

mutual
/-- populating a struct with embedding from a map that holds `expected` for every flattened field -/
theorem populateFrom_spec : ∀ (sh : ShapeJ) (v : SVal) (m : JMap), Fits sh v → ((specs sh).map (·.name)).Nodup →
    (∀ p ∈ (specs sh).zip (flat v), m.get p.1.name = expected p.1 p.2) →
    ∃ m', populateFrom sh m = .ok (v, m') ∧ (∀ k, k ∉ (specs sh).map (·.name) → m'.get k = m.get k) ∧
      (∀ k, m.get k = none → m'.get k = none) ∧ (∀ k, k ∈ (specs sh).map (·.name) → m'.get k = none)
  | .mk fields embeds, .mk vals evs, m, hf, hn, hg => by
    simp only [specs, flat] at hn hg
    have hlen := typedAll_length _ _ hf.1
    rw [List.zip_append hlen] at hg
    simp only [List.map_append] at hn
    rw [List.nodup_append] at hn
    obtain ⟨m1, h1, h2, h3, h4⟩ := popFields_spec fields vals m hf.1 hn.1 (fun p hp => hg p (by simp [hp]))
    have hg2 : ∀ p ∈ (specsList embeds).zip (flatList evs), m1.get p.1.name = expected p.1 p.2 := by
      intro p hp
      have hmem : p.1.name ∈ (specsList embeds).map (·.name) := List.mem_map_of_mem (List.of_mem_zip hp).1
      have hnot : p.1.name ∉ fields.map (·.name) := fun hin => hn.2.2 _ hin _ hmem rfl
      rw [h2 _ hnot]
      exact hg p (by simp [hp])
    obtain ⟨m2, e1, e2, e3, e4⟩ := populateEmbeds_spec embeds evs m1 hf.2 hn.2.1 hg2
    refine ⟨m2, by simp [populateFrom, h1, e1, Dec.bind, Dec.map], ?_, fun k hk => e3 k (h3 k hk), ?_⟩
    · intro k hk
      simp only [specs, List.map_append, List.mem_append, not_or] at hk
      rw [e2 k hk.2, h2 k hk.1]
    · intro k hk
      simp only [specs, List.map_append, List.mem_append] at hk
      rcases hk with hk | hk
      · exact e3 k (h4 k hk)
      · exact e4 k hk
theorem populateEmbeds_spec : ∀ (ss : List ShapeJ) (vs : List SVal) (m : JMap), FitsList ss vs →
    ((specsList ss).map (·.name)).Nodup →
    (∀ p ∈ (specsList ss).zip (flatList vs), m.get p.1.name = expected p.1 p.2) →
    ∃ m', populateEmbeds ss m = .ok (vs, m') ∧ (∀ k, k ∉ (specsList ss).map (·.name) → m'.get k = m.get k) ∧
      (∀ k, m.get k = none → m'.get k = none) ∧ (∀ k, k ∈ (specsList ss).map (·.name) → m'.get k = none)
  | [], [], m, _, _, _ => ⟨m, rfl, fun _ _ => rfl, fun _ h => h, by simp [specsList]⟩
  | [], _ :: _, _, h, _, _ => by cases h
  | _ :: _, [], _, h, _, _ => by cases h
  | s :: ss, v :: vs, m, hf, hn, hg => by
    simp only [specsList, flatList] at hn hg
    have hlen := typedAll_length _ _ (fits_typed s v hf.1)
    rw [List.zip_append hlen] at hg
    simp only [List.map_append] at hn
    rw [List.nodup_append] at hn
    obtain ⟨m1, h1, h2, h3, h4⟩ := populateFrom_spec s v m hf.1 hn.1 (fun p hp => hg p (by simp [hp]))
    have hg2 : ∀ p ∈ (specsList ss).zip (flatList vs), m1.get p.1.name = expected p.1 p.2 := by
      intro p hp
      have hmem : p.1.name ∈ (specsList ss).map (·.name) := List.mem_map_of_mem (List.of_mem_zip hp).1
      have hnot : p.1.name ∉ (specs s).map (·.name) := fun hin => hn.2.2 _ hin _ hmem rfl
      rw [h2 _ hnot]
      exact hg p (by simp [hp])
    obtain ⟨m2, e1, e2, e3, e4⟩ := populateEmbeds_spec ss vs m1 hf.2 hn.2.1 hg2
    refine ⟨m2, by simp [populateEmbeds, h1, e1, Dec.bind, Dec.map], ?_, fun k hk => e3 k (h3 k hk), ?_⟩
    · intro k hk
      simp only [specsList, List.map_append, List.mem_append, not_or] at hk
      rw [e2 k hk.2, h2 k hk.1]
    · intro k hk
      simp only [specsList, List.map_append, List.mem_append] at hk
      rcases hk with hk | hk
      · exact e3 k (h4 k hk)
      · exact e4 k hk
end

end Psa.Proofs.EncJ
