import Psa.Proofs.EncRoundTrip
namespace Psa.Proofs.Enc
open Psa Psa.Model Psa.Model.Enc

/-! ### the output is the plain map of the present fields, in declaration order -/

/-- the fields that are written: all but nil `omitempty` ones, in order -/
def present : List FieldSpec → List (Option FVal) → List (Int × Cbor)
  | f :: fs, v :: vs => if f.omitempty && v.isNone then present fs vs else (f.key, encFVal v) :: present fs vs
  | _, _ => []

theorem addFields_fields : ∀ (fs : List FieldSpec) (vs : List (Option FVal)) (acc m : OMap),
    addFields fs vs acc = .ok m →
    m.fields = acc.fields ++ (present fs vs).map (fun p => (p.1, p.2.enc)) ∧
    m.keys = acc.keys ++ (present fs vs).map (·.1)
  | [], _, acc, m, h => by simp [addFields] at h; subst h; simp [present]
  | _ :: _, [], acc, m, h => by simp [addFields] at h; subst h; simp [present]
  | f :: fs, v :: vs, acc, m, h => by
    simp only [addFields] at h
    simp only [present]
    split at h
    · rename_i hc; simp only [hc, if_true]; exact addFields_fields fs vs acc m h
    · rename_i hc
      simp only [hc, Bool.false_eq_true, if_false]
      cases hadd : acc.add f.key (encFVal v).enc with
      | err e => simp [hadd, Outcome.bind] at h
      | panic s => simp [hadd, Outcome.bind] at h
      | ok m1 =>
        simp only [hadd, Outcome.bind] at h
        have := addFields_fields fs vs m1 m h
        unfold OMap.add at hadd
        split at hadd
        · cases hadd
        · cases hadd; simp [this.1, this.2]

theorem encFields_pairs : ∀ (kts : List (Int × Cbor)),
    encFields (kts.map (fun p => (p.1, p.2.enc))) = Cbor.encPairs (kts.map (fun p => (cInt p.1, p.2)))
  | [] => rfl
  | (k, t) :: rest => by simp [encFields, Cbor.encPairs, encFields_pairs rest]

/-- **C15, matches the plain codec / one map / stable order**: the serialiser's output is exactly the CBOR encoding of one
    map whose entries are the present fields — outer struct's first, then each embedded struct's — under their integer
    keys, in declaration order. For a struct without embedding this is what the plain marshaller emits. -/
theorem serialize_is_plain_map (sh : Shape) (v : SVal) (bytes : Bytes) (hf : Fits sh v)
    (hn : ((specs sh).map (·.key)).Nodup) (hl : (specs sh).length < 2 ^ 32) (h : serialize sh v = .ok bytes) :
    bytes = (Cbor.map ((present (specs sh) (flat v)).map (fun p => (cInt p.1, p.2)))).enc := by
  have ht := fits_typed sh v hf
  obtain ⟨m, h1, h2, _, _, _, h6⟩ := addFields_spec (specs sh) (flat v) OMap.empty ht hn (fun _ _ => rfl) inv_empty
  have hser : serializeInto sh v OMap.empty = .ok m := by rw [serializeInto_flat sh v _ hf, h1]
  simp only [serialize, hser, Outcome.map, Outcome.bind, Outcome.ok.injEq] at h
  subst h
  obtain ⟨hfld, hkeys⟩ := addFields_fields _ _ _ _ h1
  simp only [OMap.empty, List.nil_append] at hfld hkeys
  have hnd : (m.fields.map (·.1)).Nodup := by rw [← h2.agree]; exact h2.nodup
  have hlen : m.keys.length < 2 ^ 32 := by simp [OMap.empty] at h6; omega
  unfold OMap.toCBOR
  rw [mapHeader_eq_encHead _ hlen, h2.agree, encEntries_fields m hnd m.fields [] rfl, hfld, encFields_pairs]
  simp [Cbor.enc]

/-! ### duplicate keys in the input, missing mandatory keys -/

theorem ukv_dup (k : Int) (v rest : Bytes) (acc : OMap) (hk : Int64 k) (hv : RawItem v) (hdup : acc.has k = true) :
    unmarshalKeyValue ((cInt k).enc ++ v ++ rest) acc = .err eOther := by
  obtain ⟨t, rfl, hto, htt⟩ := hv
  obtain ⟨c1, c2, c3⟩ := cInt_ok k hk
  unfold unmarshalKeyValue
  rw [List.append_assoc, rawFirst_enc (cInt k) _ c1]
  simp only [kvTagged, rawFirst_enc t rest hto, c2, htt, Bool.or_self, Bool.false_eq_true, if_false, c3]
  rw [add_dup acc k t.enc hdup]
  rfl

theorem readEntries_dup : ∀ (fs : List (Int × Bytes)) (rest : Bytes) (acc : OMap), RawOK fs →
    ¬ ((acc.fields ++ fs).map (·.1)).Nodup → (acc.fields.map (·.1)).Nodup →
    readEntries fs.length (encFields fs ++ rest) acc = .err eOther
  | [], rest, acc, _, hn, ha => by simp at hn; exact absurd ha hn
  | (k, v) :: fs, rest, acc, hok, hn, ha => by
    simp only [List.length_cons, readEntries, encFields]
    have e : (cInt k).enc ++ v ++ encFields fs ++ rest = (cInt k).enc ++ v ++ (encFields fs ++ rest) := by simp
    rw [e]
    cases hh : acc.has k with
    | true => rw [ukv_dup k v _ acc (hok.keys (k, v) (by simp)) (hok.vals (k, v) (by simp)) hh]; rfl
    | false =>
      rw [ukv_enc k v _ acc (hok.keys (k, v) (by simp)) (hok.vals (k, v) (by simp)) hh]
      simp only [Outcome.bind]
      apply readEntries_dup fs rest _ ⟨fun p hp => hok.keys p (by simp [hp]), fun p hp => hok.vals p (by simp [hp])⟩
      · simpa using hn
      · simp only [List.map_append, List.map_cons, List.map_nil]
        rw [List.nodup_append]
        refine ⟨ha, by simp, ?_⟩
        intro a ha' b hb
        simp at hb; subst hb
        intro hab; subst hab
        have : acc.has a = true := (has_iff acc a).mpr ha'
        rw [hh] at this; cases this

/-- **C15, duplicate key in CBOR input is an error**: a definite-length map whose entries repeat a key is rejected -/
theorem fromCBOR_duplicate_key (fs : List (Int × Bytes)) (hr : RawOK fs) (hdup : ¬ (fs.map (·.1)).Nodup)
    (hn : fs.length < 2 ^ 32) : fromCBOR (Cbor.encHead 5 fs.length ++ encFields fs) = .err eOther := by
  obtain ⟨b, tl, hb, hmt, hai, hp⟩ := header_read fs.length hn (encFields fs)
  rw [hb]
  unfold fromCBOR
  have h6 : ¬ b.toNat / 32 = 6 := by omega
  simp only [List.cons_append, List.length_cons, Nat.succ_ne_zero, if_false, idx,
    List.getElem?_cons_zero, sliceFrom, Outcome.bind, List.drop_succ_cons, List.drop_zero, hmt, ne_eq,
    not_false_eq_true, if_true]
  have hle : 1 ≤ (tl ++ encFields fs).length + 1 := by omega
  have h56 : ¬ (5 : Nat) = 6 := by decide
  simp only [hle, if_true, h56, if_false, not_true_eq_false, hp, hai, not_false_eq_true]
  have := readEntries_dup fs [] OMap.empty hr (by simpa [OMap.empty] using hdup) (by simp [OMap.empty])
  simp only [List.append_nil] at this
  rw [this]

/-- **C15, a missing non-optional key is an error**: populate never succeeds when some mandatory field of the list has
    no entry in the map -/
theorem popFields_missing_any : ∀ (fs : List FieldSpec) (m : OMap) (f : FieldSpec), f ∈ fs → f.omitempty = false →
    m.get f.key = none → ∀ r, popFields fs m ≠ .ok r
  | [], _, _, hf, _, _, _ => by cases hf
  | g :: fs, m, f, hf, ho, hm, r => by
    simp only [popFields]
    rcases List.mem_cons.mp hf with rfl | hf'
    · simp [hm, ho]
    · cases hg : m.get g.key with
      | none =>
        simp only []
        split
        · intro h
          cases hp : popFields fs m with
          | ok q => exact popFields_missing_any fs m f hf' ho hm q hp
          | err => simp [hp, Dec.map, Dec.bind] at h
          | ood => simp [hp, Dec.map, Dec.bind] at h
        · intro h; cases h
      | some raw =>
        simp only []
        cases hd : decFVal g.ty raw with
        | err => simp [Dec.bind]
        | ood => simp [Dec.bind]
        | ok x =>
          simp only [Dec.bind]
          intro h
          have hm' : (m.delete g.key).get f.key = none := by
            by_cases hk : f.key = g.key
            · rw [hk]; exact get_delete_same m _
            · rw [get_delete_other m g.key f.key hk]; exact hm
          cases hp : popFields fs (m.delete g.key) with
          | ok q => exact popFields_missing_any fs _ f hf' ho hm' q hp
          | err => simp [hp, Dec.map, Dec.bind] at h
          | ood => simp [hp, Dec.map, Dec.bind] at h

end Psa.Proofs.Enc
