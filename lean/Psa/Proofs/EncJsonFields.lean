/- JSON side of the embedding-aware codec: flat field lists (ported from Psa/Proofs/EncFields.lean). -/
import Psa.Proofs.EncJsonMap
import Psa.Proofs.Base64
namespace Psa.Proofs.EncJ
open Psa Psa.Model Psa.Model.EncJ
open Psa.Model.Enc (FVal FTy SVal)

/-- a field value that fits its declared type -/
def Typed (f : FieldSpecJ) : Option FVal → Prop
  | none => True
  | some (.int i) => f.ty = .int ∧ -9223372036854775808 ≤ i ∧ i ≤ 9223372036854775807
  | some (.text _) => f.ty = .text
  | some (.bytes _) => f.ty = .bytes

/-- what the map holds for a field after serialisation -/
def expected (f : FieldSpecJ) (v : Option FVal) : Option Json :=
  if f.omitempty && v.isNone then none else some (jFVal v)

theorem decFVal_j (f : FieldSpecJ) (v : Option FVal) (h : Typed f v) : EncJ.decFVal f.ty (jFVal v) = .ok v := by
  unfold EncJ.decFVal
  cases v with
  | none => cases f.ty <;> simp [jFVal, jDecInt, jDecText, jDecBytes, Dec.map, Dec.bind]
  | some x =>
    cases x with
    | int i =>
      simp only [Typed] at h
      simp [jFVal, h.1, jDecInt, h.2.1, h.2.2, Dec.map, Dec.bind]
    | text s =>
      simp only [Typed] at h
      simp [jFVal, h, jDecText, Dec.map, Dec.bind]
    | bytes b =>
      simp only [Typed] at h
      simp [jFVal, h, jDecBytes, jBytes, b64_roundtrip, Dec.map, Dec.bind]

/-- field lists paired with their values -/
def TypedAll : List FieldSpecJ → List (Option FVal) → Prop
  | [], [] => True
  | f :: fs, v :: vs => Typed f v ∧ TypedAll fs vs
  | _, _ => False

theorem typedAll_length : ∀ fs vs, TypedAll fs vs → fs.length = vs.length
  | [], [], _ => rfl
  | f :: fs, v :: vs, h => by simp [typedAll_length fs vs h.2]
  | [], _ :: _, h => by cases h
  | _ :: _, [], h => by cases h

/-- serialising a field list: succeeds when its keys are pairwise distinct and new to the map; afterwards every listed
    field reads as `expected`, every other key as before; the invariant is kept -/
theorem addFields_spec : ∀ (fs : List FieldSpecJ) (vs : List (Option FVal)) (acc : JMap), TypedAll fs vs →
    (fs.map (·.name)).Nodup → (∀ f ∈ fs, acc.has f.name = false) → JInv acc →
    ∃ m, addFields fs vs acc = .ok m ∧ JInv m ∧
      (∀ k, k ∉ fs.map (·.name) → m.get k = acc.get k) ∧
      (∀ p ∈ fs.zip vs, m.get p.1.name = expected p.1 p.2) ∧
      (∀ p ∈ m.fields, p ∈ acc.fields ∨ ∃ q ∈ fs.zip vs, p = (q.1.name, (jFVal q.2))) ∧
      m.keys.length ≤ acc.keys.length + fs.length
  | [], [], acc, _, _, _, hi => ⟨acc, rfl, hi, fun _ _ => rfl, by simp, fun p hp => Or.inl hp, by simp⟩
  | [], _ :: _, _, h, _, _, _ => by cases h
  | _ :: _, [], _, h, _, _, _ => by cases h
  | f :: fs, v :: vs, acc, ht, hn, hfresh, hi => by
    simp only [List.map_cons, List.nodup_cons] at hn
    simp only [addFields]
    by_cases hom : (f.omitempty && v.isNone) = true
    · -- omitted
      simp only [hom, if_true]
      obtain ⟨m, h1, h2, h3, h4, h5, h6⟩ := addFields_spec fs vs acc ht.2 hn.2 (fun g hg => hfresh g (by simp [hg])) hi
      refine ⟨m, h1, h2, ?_, ?_, ?_, by simp; omega⟩
      · intro k hk; simp only [List.map_cons, List.mem_cons, not_or] at hk; exact h3 k hk.2
      · intro p hp
        simp only [List.zip_cons_cons, List.mem_cons] at hp
        rcases hp with rfl | hp
        · simp only [expected, hom, if_true]
          rw [h3 f.name hn.1]
          have := hfresh f (by simp)
          rw [has_eq_get] at this
          cases hg : acc.get f.name with
          | none => rfl
          | some x => simp [hg] at this
        · exact h4 p hp
      · intro p hp
        rcases h5 p hp with h | ⟨q, hq, rfl⟩
        · exact Or.inl h
        · exact Or.inr ⟨q, by simp [hq], rfl⟩
    · simp only [hom, Bool.false_eq_true, if_false]
      have hf := hfresh f (by simp)
      rw [add_ok acc f.name _ hf]
      simp only [Outcome.bind]
      have hadd : acc.add f.name (jFVal v) = .ok { keys := acc.keys ++ [f.name], fields := acc.fields ++ [(f.name, (jFVal v))] } := add_ok acc f.name _ hf
      have hi' := add_inv acc _ f.name _ hi hadd
      have hfresh' : ∀ g ∈ fs, JMap.has { keys := acc.keys ++ [f.name], fields := acc.fields ++ [(f.name, (jFVal v))] } g.name = false := by
        intro g hg
        have hne : g.name ≠ f.name := by
          intro he; exact hn.1 (by rw [← he]; exact List.mem_map_of_mem hg)
        rw [has_eq_get, get_add_other acc _ f.name g.name _ hadd hne, ← has_eq_get]
        exact hfresh g (by simp [hg])
      obtain ⟨m, h1, h2, h3, h4, h5, h6⟩ := addFields_spec fs vs _ ht.2 hn.2 hfresh' hi'
      refine ⟨m, h1, h2, ?_, ?_, ?_, by simp at h6 ⊢; omega⟩
      · intro k hk
        simp only [List.map_cons, List.mem_cons, not_or] at hk
        rw [h3 k hk.2, get_add_other acc _ f.name k _ hadd hk.1]
      · intro p hp
        simp only [List.zip_cons_cons, List.mem_cons] at hp
        rcases hp with rfl | hp
        · simp only [expected, hom, Bool.false_eq_true, if_false]
          rw [h3 f.name hn.1, get_add_same acc _ f.name _ hadd]
        · exact h4 p hp
      · intro p hp
        rcases h5 p hp with h | ⟨q, hq, rfl⟩
        · simp only [List.mem_append, List.mem_singleton] at h
          rcases h with h | rfl
          · exact Or.inl h
          · exact Or.inr ⟨(f, v), by simp, rfl⟩
        · exact Or.inr ⟨q, by simp [hq], rfl⟩

/-- populating a field list from a map that holds `expected` for each of its fields returns exactly the values,
    and leaves every other key as it was -/
theorem popFields_spec : ∀ (fs : List FieldSpecJ) (vs : List (Option FVal)) (m : JMap), TypedAll fs vs →
    (fs.map (·.name)).Nodup → (∀ p ∈ fs.zip vs, m.get p.1.name = expected p.1 p.2) →
    ∃ m', popFields fs m = .ok (vs, m') ∧ (∀ k, k ∉ fs.map (·.name) → m'.get k = m.get k) ∧
      (∀ k, m.get k = none → m'.get k = none) ∧ (∀ k, k ∈ fs.map (·.name) → m'.get k = none)
  | [], [], m, _, _, _ => ⟨m, rfl, fun _ _ => rfl, fun _ h => h, by simp⟩
  | [], _ :: _, _, h, _, _ => by cases h
  | _ :: _, [], _, h, _, _ => by cases h
  | f :: fs, v :: vs, m, ht, hn, hg => by
    simp only [List.map_cons, List.nodup_cons] at hn
    have hf := hg (f, v) (by simp)
    simp only [popFields]
    by_cases hom : (f.omitempty && v.isNone) = true
    · simp only [expected, hom, if_true] at hf
      have hv : v = none := by
        simp only [Bool.and_eq_true, Option.isNone_iff_eq_none] at hom; exact hom.2
      have ho : f.omitempty = true := by simp only [Bool.and_eq_true] at hom; exact hom.1
      obtain ⟨m', h1, h2, h3, h4⟩ := popFields_spec fs vs m ht.2 hn.2 (fun p hp => hg p (by simp [hp]))
      refine ⟨m', ?_, ?_, h3, ?_⟩
      · simp [hf, ho, h1, Dec.map, Dec.bind, hv]
      · intro k hk; simp only [List.map_cons, List.mem_cons, not_or] at hk; exact h2 k hk.2
      · intro k hk
        simp only [List.map_cons, List.mem_cons] at hk
        rcases hk with rfl | hk
        · exact h3 _ hf
        · exact h4 k hk
    · simp only [expected, hom, Bool.false_eq_true, if_false] at hf
      simp only [hf, decFVal_j f v ht.1, Dec.bind]
      have hg' : ∀ p ∈ fs.zip vs, (m.delete f.name).get p.1.name = expected p.1 p.2 := by
        intro p hp
        have hne : p.1.name ≠ f.name := by
          intro he
          exact hn.1 (by rw [← he]; exact List.mem_map_of_mem (List.of_mem_zip hp).1)
        rw [get_delete_other m f.name p.1.name hne]
        exact hg p (by simp [hp])
      obtain ⟨m', h1, h2, h3, h4⟩ := popFields_spec fs vs (m.delete f.name) ht.2 hn.2 hg'
      refine ⟨m', by simp [h1, Dec.map, Dec.bind], ?_, ?_, ?_⟩
      · intro k hk
        simp only [List.map_cons, List.mem_cons, not_or] at hk
        rw [h2 k hk.2, get_delete_other m f.name k hk.1]
      · intro k hk
        apply h3
        by_cases hkf : k = f.name
        · subst hkf; exact get_delete_same m _
        · rw [get_delete_other m f.name k hkf]; exact hk
      · intro k hk
        simp only [List.map_cons, List.mem_cons] at hk
        rcases hk with rfl | hk
        · exact h3 _ (get_delete_same m _)
        · exact h4 k hk

/-- a mandatory (non-omitempty) field whose key is missing makes populate fail -/
theorem popFields_missing (f : FieldSpecJ) (fs : List FieldSpecJ) (m : JMap) (hm : m.get f.name = none)
    (ho : f.omitempty = false) : popFields (f :: fs) m = .err := by
  simp [popFields, hm, ho]


end Psa.Proofs.EncJ
