/- The encoder emits the profile's wire format (helpers for C10, C09). -/
import Psa.Spec.Wire
import Psa.Proofs.Validate
namespace Psa.Proofs
open Psa Psa.Model Psa.Spec

theorem comp_toCbor_eq_wire (sc : SwComp) (h : CompOK sc) : sc.toCbor = compWire sc := by
  obtain ⟨⟨mv, hmv, _⟩, ⟨sg, hsg, _⟩⟩ := h
  obtain ⟨mt, mval, ver, sig, md⟩ := sc
  simp only at hmv hsg
  subst hmv hsg
  cases mt <;> cases ver <;> cases md <;>
    simp [SwComp.toCbor, compWire, entriesOf, compKeyOrder, compWireVal, kvOmit, cOptBytes]

theorem sw_toCbor_eq_wire (l : List SwComp) (h : ∀ sc ∈ l, CompOK sc) :
    swToCbor (.cont (some (l.map some))) = compsWire ((l.map some).filterMap id) := by
  simp only [swToCbor, compsWire, List.filterMap_map]
  congr 1
  induction l with
  | nil => rfl
  | cons x xs ih =>
    simp only [List.map_cons, List.filterMap_cons, Function.comp, id, compElemToCbor]
    rw [comp_toCbor_eq_wire x (h x (by simp))]
    congr 1
    exact ih (fun sc hsc => h sc (by simp [hsc]))

end Psa.Proofs

namespace Psa.Proofs
open Psa Psa.Model Psa.Spec

theorem sw_of_componentsOK (f : SwField) (h : ComponentsOK f) :
    ∃ l : List SwComp, l ≠ [] ∧ f = .cont (some (l.map some)) ∧ ∀ sc ∈ l, CompOK sc := by
  obtain ⟨l, hne, hl, hall⟩ := h
  refine ⟨l, hne, ?_, hall⟩
  cases f with
  | nilIface => simp [SwField.elems] at hl; exact absurd hl.symm (by simpa using hne)
  | cont o =>
    cases o with
    | none => simp [SwField.elems] at hl; exact absurd hl.symm (by simpa using hne)
    | some x => simp [SwField.elems] at hl; rw [hl]

theorem p1_encode_wire (c : Claims) (hp : c.prof = .p1) (h : Conformant c) :
    claimsToCbor c = .ok (wireToken c) := by
  obtain ⟨prof, canonical, profile, clientId, lifecycle, implId, bootSeed, certRef, sw, noSw, nonce, instId, vsi⟩ := c
  simp only at hp; subst hp
  simp only [Conformant] at h
  obtain ⟨h1, h2, ⟨lc, h3, _⟩, ⟨im, h4, _⟩, ⟨bs, h5, _⟩, _, h7, ⟨n, h8, _⟩, ⟨ins, h9, _⟩, _⟩ := h
  subst h3 h4 h5 h8 h9
  cases clientId with
  | none => exact absurd rfl h2
  | some cid =>
  rcases h7 with ⟨hco, hns⟩ | ⟨hnc, hns⟩
  · obtain ⟨l, hne, hsw, hall⟩ := sw_of_componentsOK sw hco
    subst hsw; subst hns
    have hne' : (SwField.cont (some (l.map some))).nilOrEmpty = false := by
      cases l with
      | nil => exact absurd rfl hne
      | cons a as => rfl
    have hne'' : (SwField.cont (some (l.map some))).elems.isEmpty = false := hne'
    have hsw := sw_toCbor_eq_wire l hall
    simp only [claimsToCbor, p1ToCbor, wireToken, wireEntries, entriesOf, keyOrder, p1KeyOrder, wireVal, hne', hne'',
      heldComps, SwField.elems]
    rw [hsw]
    rcases h1 with rfl | rfl <;> cases certRef <;> cases vsi <;>
      simp [kvOmit, cOptBytes, cInt, hne]
  · have he : sw.nilOrEmpty = true := by simpa [SwField.nilOrEmpty, NoComponents] using hnc
    have he' : sw.elems.isEmpty = true := he
    cases noSw with
    | none => exact absurd rfl hns
    | some fl =>
    simp only [claimsToCbor, p1ToCbor, wireToken, wireEntries, entriesOf, keyOrder, p1KeyOrder, wireVal, he, he']
    rcases h1 with rfl | rfl <;> cases certRef <;> cases vsi <;>
      simp [kvOmit, cOptBytes, cInt]

end Psa.Proofs

namespace Psa.Proofs
open Psa Psa.Model Psa.Spec

theorem hashLen_nonceOK (n : Bytes) (h : HashLen n.length) : nonceOK [n] = true := by
  unfold HashLen at h
  simp [nonceOK]; omega

theorem p2_encode_wire (c : Claims) (hp : c.prof = .p2) (h : Conformant c) :
    claimsToCbor c = .ok (wireToken c) := by
  obtain ⟨prof, canonical, profile, clientId, lifecycle, implId, bootSeed, certRef, sw, noSw, nonce, instId, vsi⟩ := c
  simp only at hp; subst hp
  simp only [Conformant] at h
  obtain ⟨h1, h2, ⟨lc, h3, _⟩, ⟨im, h4, _⟩, _, _, hco, ⟨n, h8, hn⟩, ⟨ins, h9, _⟩, _⟩ := h
  subst h1 h3 h4 h8 h9
  cases clientId with
  | none => exact absurd rfl h2
  | some cid =>
  obtain ⟨l, hne, hsw, hall⟩ := sw_of_componentsOK sw hco
  subst hsw
  have hne'' : (SwField.cont (some (l.map some))).elems.isEmpty = false := by
    cases l with
    | nil => exact absurd rfl hne
    | cons a as => rfl
  have hsw := sw_toCbor_eq_wire l hall
  simp only [claimsToCbor, p2ToCbor, wireToken, wireEntries, entriesOf, keyOrder, p2KeyOrder, wireVal, hne'',
    heldComps, SwField.elems, hashLen_nonceOK n hn]
  rw [hsw]
  cases bootSeed <;> cases certRef <;> cases vsi <;>
    simp [kvOmit, cOptBytes, cInt, hne, Outcome.bind]

theorem encode_wire (c : Claims) (h : validate c = .ok ()) : claimsToCbor c = .ok (wireToken c) := by
  have hc := (validateWith_ok_iff _ c).mp h
  have hconf : Conformant c := by
    rw [conformant_iff_all]; intro g
    exact (pass_iff g c).mp (hc g (by cases g <;> simp [validateOrder]))
  cases hp : c.prof
  · exact p1_encode_wire c hp hconf
  · exact p2_encode_wire c hp hconf

end Psa.Proofs
