/-
  JSON text layer (Psa/Model/JsonText.lean): reading back what was rendered.
  * `parseBody_escAscii`, `parseBody_multi` — one reader step undoes one writer step.
  * `parseBody_renderBody` — for every valid UTF-8 string `s`, the reader applied to the rendered body of `s` followed
    by a quote and anything else returns exactly `s` and what followed, for any fuel above the rendered length.
  * `parseNumber_renderInt` — every integer, of any size and sign, reads back from its decimal text.
  * `parse_render` / `parseElems_render` / `parseMembers_render` (mutual, over the nested tree) and `parseDoc_render` —
    every document whose numbers are integers and whose strings and member names are valid UTF-8 reads back from
    its rendering; in particular the fuel `parseDoc` uses never binds on rendered documents.
-/
import Psa.Model.JsonText
namespace Psa.Model.JText
open Psa Psa.Model

theorem hexVal_hexDigit (n : Nat) (h : n < 16) : hexVal (hexDigit n) = some n := by
  have : ∀ k : Fin 16, hexVal (hexDigit k.val) = some k.val := by decide
  exact this ⟨n, h⟩

theorem u8_eq_of_toNat {a b : UInt8} (h : a.toNat = b.toNat) : a = b := UInt8.toNat_inj.mp h

theorem u8_ne_of_toNat {a b : UInt8} (h : a.toNat ≠ b.toNat) : a ≠ b := fun e => h (by rw [e])

theorem parseBody_escAscii (b : UInt8) (hb : b.toNat < 0x80) (f : Nat) (tail : Bytes) :
    parseBody (f + 1) (escAscii b ++ tail) = (parseBody f tail).map fun p => (b :: p.1, p.2) := by
  unfold escAscii
  simp only []
  split
  · rename_i h
    rcases h with h | h
    · have : b = 0x22 := u8_eq_of_toNat (by simpa using h)
      subst this; simp [parseBody]
    · have : b = 0x5C := u8_eq_of_toNat (by simpa using h)
      subst this; simp [parseBody]
  split
  · rename_i h; have : b = 8 := u8_eq_of_toNat (by simpa using h)
    subst this; simp [parseBody]
  split
  · rename_i h; have : b = 12 := u8_eq_of_toNat (by simpa using h)
    subst this; simp [parseBody]
  split
  · rename_i h; have : b = 10 := u8_eq_of_toNat (by simpa using h)
    subst this; simp [parseBody]
  split
  · rename_i h; have : b = 13 := u8_eq_of_toNat (by simpa using h)
    subst this; simp [parseBody]
  split
  · rename_i h; have : b = 9 := u8_eq_of_toNat (by simpa using h)
    subst this; simp [parseBody]
  split
  · rename_i h
    have h1 : b.toNat / 16 < 16 := by omega
    have h2 : b.toNat % 16 < 16 := by omega
    have h48 : hexVal 48 = some 0 := by decide
    have hv : b.toNat / 16 * 16 + b.toNat % 16 = b.toNat := by omega
    have hs : isSurrogate b.toNat = false := by simp [isSurrogate]; omega
    have he : encodeRune b.toNat = [b] := by simp [encodeRune, hb]
    simp [parseBody, hex4, hexVal_hexDigit _ h1, hexVal_hexDigit _ h2, h48, hv, hs, he]
  · rename_i h1 h2 h3 h4 h5 h6 h7
    have a1 : b ≠ 0x22 := u8_ne_of_toNat (by simp; omega)
    have a2 : b ≠ 0x5C := u8_ne_of_toNat (by simp; omega)
    have a3 : ¬ b.toNat < 0x20 := by omega
    simp [parseBody, a1, a2, a3, hb]

end Psa.Model.JText

namespace Psa.Model.JText
open Psa Psa.Model

theorem escAscii_length (b : UInt8) : 1 ≤ (escAscii b).length := by
  unfold escAscii
  simp only []
  repeat' split
  all_goals simp

theorem parseBody_multi (b0 : UInt8) (rest : Bytes) (f k : Nat)
    (h80 : ¬ b0.toNat < 0x80) (hk : runeLen (b0 :: rest) = k + 1) :
    parseBody (f + 1) (b0 :: rest) =
      (parseBody f (rest.drop k)).map fun p => (b0 :: rest.take k ++ p.1, p.2) := by
  have a1 : b0 ≠ 0x22 := u8_ne_of_toNat (by simp; omega)
  have a2 : b0 ≠ 0x5C := u8_ne_of_toNat (by simp; omega)
  have a3 : ¬ b0.toNat < 0x20 := by omega
  rw [parseBody.eq_def]
  simp only [a1, a2, a3, h80, hk, if_false]
  simp

theorem parseBody_renderBody (s : Bytes) :
    validUTF8 s = true → ∀ (tail : Bytes) (f : Nat), (renderBody s).length < f →
      parseBody f (renderBody s ++ 0x22 :: tail) = some (s, tail) := by
  induction s using validUTF8.induct with
  | case1 =>
    intro _ tail f hf
    cases f with
    | zero => simp [renderBody] at hf
    | succ f => simp [renderBody, parseBody]
  | case2 b0 rest n hn ih =>
    intro hv tail f hf
    have hv' : validUTF8 rest = true := by
      unfold validUTF8 at hv; simp only [] at hv; simpa [show b0.toNat < 128 from hn] using hv
    have : renderBody (b0 :: rest) = escAscii b0 ++ renderBody rest := by
      rw [renderBody.eq_def]; simp only []; rw [if_pos hn]
    rw [this] at hf ⊢
    have hl := escAscii_length b0
    cases f with
    | zero => omega
    | succ f =>
      rw [List.append_assoc, parseBody_escAscii b0 hn, ih hv' tail f (by simp at hf; omega)]
      rfl
  | case3 b0 n hn h2 b1 r ih =>
    intro hv tail f hf
    have hn' : ¬ b0.toNat < 128 := hn
    have h2' : (decide (194 ≤ b0.toNat) && decide (b0.toNat ≤ 223)) = true := h2
    unfold validUTF8 at hv; simp only [hn', h2', if_false, if_true, Bool.false_eq_true, ↓reduceIte] at hv
    simp only [Bool.and_eq_true] at hv
    obtain ⟨hc, hv'⟩ := hv
    have hr : renderBody (b0 :: b1 :: r) = b0 :: b1 :: renderBody r := by
      rw [renderBody.eq_def]; simp only [hn', h2', hc, if_false, if_true, Bool.false_eq_true, ↓reduceIte]
    rw [hr] at hf
    cases f with
    | zero => omega
    | succ f =>
      have hl : runeLen (b0 :: (b1 :: (renderBody r ++ 0x22 :: tail))) = 1 + 1 := by
        rw [runeLen.eq_def]; simp only [hn', h2', hc, if_false, if_true, Bool.false_eq_true, ↓reduceIte]
      rw [hr]
      show parseBody (f + 1) (b0 :: (b1 :: (renderBody r ++ 0x22 :: tail))) = _
      rw [parseBody_multi b0 _ f 1 hn' hl]
      simp only [List.drop_succ_cons, List.drop_zero, List.take_succ_cons, List.take_zero]
      rw [ih hv' tail f (by simp at hf; omega)]
      rfl
  | case4 b0 rest n hn h2 hne =>
    intro hv
    have hn' : ¬ b0.toNat < 128 := hn
    have h2' : (decide (194 ≤ b0.toNat) && decide (b0.toNat ≤ 223)) = true := h2
    unfold validUTF8 at hv; simp only [hn', h2', if_false, if_true, Bool.false_eq_true, ↓reduceIte] at hv
  | case5 b0 n hn h2 h3 b1 b2 r ih =>
    intro hv tail f hf
    have hn' : ¬ b0.toNat < 128 := hn
    have h2' : ¬ (decide (194 ≤ b0.toNat) && decide (b0.toNat ≤ 223)) = true := h2
    have h3' : (decide (224 ≤ b0.toNat) && decide (b0.toNat ≤ 239)) = true := h3
    unfold validUTF8 at hv; simp only [hn', h2', h3', if_false, if_true, Bool.false_eq_true, ↓reduceIte] at hv
    rw [Bool.and_eq_true] at hv
    obtain ⟨hc, hv'⟩ := hv
    cases f with
    | zero => omega
    | succ f =>
      by_cases e8 : (b0.toNat == 0xE2 && b1.toNat == 0x80 && b2.toNat == 0xA8) = true
      · have hr : renderBody (b0 :: b1 :: b2 :: r) = esc202 0x38 ++ renderBody r := by
          rw [renderBody.eq_def]; simp only [hn', h2', h3', hc, e8, if_false, if_true, Bool.false_eq_true, ↓reduceIte]
        rw [hr] at hf
        have ihr := ih hv' tail f (by simp [esc202] at hf; omega)
        simp only [Bool.and_eq_true, beq_iff_eq] at e8
        obtain ⟨⟨e0, e1⟩, e2⟩ := e8
        have : b0 = 0xE2 := u8_eq_of_toNat (by simpa using e0)
        subst this
        have : b1 = 0x80 := u8_eq_of_toNat (by simpa using e1)
        subst this
        have : b2 = 0xA8 := u8_eq_of_toNat (by simpa using e2)
        subst this
        rw [hr]
        simp [esc202, parseBody, hex4, hexVal, isSurrogate, encodeRune, ihr]
      · by_cases e9 : (b0.toNat == 0xE2 && b1.toNat == 0x80 && b2.toNat == 0xA9) = true
        · have hr : renderBody (b0 :: b1 :: b2 :: r) = esc202 0x39 ++ renderBody r := by
            rw [renderBody.eq_def]; simp only [hn', h2', h3', hc, e8, e9, if_false, if_true, Bool.false_eq_true, ↓reduceIte]
          rw [hr] at hf
          have ihr := ih hv' tail f (by simp [esc202] at hf; omega)
          simp only [Bool.and_eq_true, beq_iff_eq] at e9
          obtain ⟨⟨e0, e1⟩, e2⟩ := e9
          have : b0 = 0xE2 := u8_eq_of_toNat (by simpa using e0)
          subst this
          have : b1 = 0x80 := u8_eq_of_toNat (by simpa using e1)
          subst this
          have : b2 = 0xA9 := u8_eq_of_toNat (by simpa using e2)
          subst this
          rw [hr]
          simp [esc202, parseBody, hex4, hexVal, isSurrogate, encodeRune, ihr]
        · have hr : renderBody (b0 :: b1 :: b2 :: r) = b0 :: b1 :: b2 :: renderBody r := by
            rw [renderBody.eq_def]; simp only [hn', h2', h3', hc, e8, e9, if_false, if_true, Bool.false_eq_true, ↓reduceIte]
          rw [hr] at hf
          have ihr := ih hv' tail f (by simp at hf; omega)
          have hl : runeLen (b0 :: (b1 :: b2 :: (renderBody r ++ 0x22 :: tail))) = 2 + 1 := by
            rw [runeLen.eq_def]; simp only [hn', h2', h3', hc, if_false, if_true, Bool.false_eq_true, ↓reduceIte]
          rw [hr]
          show parseBody (f + 1) (b0 :: (b1 :: b2 :: (renderBody r ++ 0x22 :: tail))) = _
          rw [parseBody_multi b0 _ f 2 hn' hl]
          simp only [List.drop_succ_cons, List.drop_zero, List.take_succ_cons, List.take_zero]
          rw [ihr]
          rfl
  | case6 b0 rest n hn h2 h3 hne =>
    intro hv
    have hn' : ¬ b0.toNat < 128 := hn
    have h2' : ¬ (decide (194 ≤ b0.toNat) && decide (b0.toNat ≤ 223)) = true := h2
    have h3' : (decide (224 ≤ b0.toNat) && decide (b0.toNat ≤ 239)) = true := h3
    unfold validUTF8 at hv; simp only [hn', h2', h3', if_false, if_true, Bool.false_eq_true, ↓reduceIte] at hv
  | case7 b0 n hn h2 h3 h4 b1 b2 b3 r ih =>
    intro hv tail f hf
    have hn' : ¬ b0.toNat < 128 := hn
    have h2' : ¬ (decide (194 ≤ b0.toNat) && decide (b0.toNat ≤ 223)) = true := h2
    have h3' : ¬ (decide (224 ≤ b0.toNat) && decide (b0.toNat ≤ 239)) = true := h3
    have h4' : (decide (240 ≤ b0.toNat) && decide (b0.toNat ≤ 244)) = true := h4
    unfold validUTF8 at hv; simp only [hn', h2', h3', h4', if_false, if_true, Bool.false_eq_true, ↓reduceIte] at hv
    rw [Bool.and_eq_true] at hv
    obtain ⟨hc, hv'⟩ := hv
    have hr : renderBody (b0 :: b1 :: b2 :: b3 :: r) = b0 :: b1 :: b2 :: b3 :: renderBody r := by
      rw [renderBody.eq_def]; simp only [hn', h2', h3', h4', hc, if_false, if_true, Bool.false_eq_true, ↓reduceIte]
    rw [hr] at hf
    cases f with
    | zero => omega
    | succ f =>
      have hl : runeLen (b0 :: (b1 :: b2 :: b3 :: (renderBody r ++ 0x22 :: tail))) = 3 + 1 := by
        rw [runeLen.eq_def]; simp only [hn', h2', h3', h4', hc, if_false, if_true, Bool.false_eq_true, ↓reduceIte]
      rw [hr]
      show parseBody (f + 1) (b0 :: (b1 :: b2 :: b3 :: (renderBody r ++ 0x22 :: tail))) = _
      rw [parseBody_multi b0 _ f 3 hn' hl]
      simp only [List.drop_succ_cons, List.drop_zero, List.take_succ_cons, List.take_zero]
      rw [ih hv' tail f (by simp at hf; omega)]
      rfl
  | case8 b0 rest n hn h2 h3 h4 hne =>
    intro hv
    have hn' : ¬ b0.toNat < 128 := hn
    have h2' : ¬ (decide (194 ≤ b0.toNat) && decide (b0.toNat ≤ 223)) = true := h2
    have h3' : ¬ (decide (224 ≤ b0.toNat) && decide (b0.toNat ≤ 239)) = true := h3
    have h4' : (decide (240 ≤ b0.toNat) && decide (b0.toNat ≤ 244)) = true := h4
    unfold validUTF8 at hv; simp only [hn', h2', h3', h4', if_false, if_true, Bool.false_eq_true, ↓reduceIte] at hv
  | case9 b0 rest n hn h2 h3 h4 =>
    intro hv
    have hn' : ¬ b0.toNat < 128 := hn
    have h2' : ¬ (decide (194 ≤ b0.toNat) && decide (b0.toNat ≤ 223)) = true := h2
    have h3' : ¬ (decide (224 ≤ b0.toNat) && decide (b0.toNat ≤ 239)) = true := h3
    have h4' : ¬ (decide (240 ≤ b0.toNat) && decide (b0.toNat ≤ 244)) = true := h4
    unfold validUTF8 at hv; simp only [hn', h2', h3', h4', if_false, if_true, Bool.false_eq_true, ↓reduceIte] at hv

/-! ### numbers -/

theorem natDigitsAux_fuel : ∀ (n f f' : Nat), n < f → n < f' → natDigitsAux f n = natDigitsAux f' n := by
  intro n
  induction n using Nat.strongRecOn with
  | _ n ih =>
    intro f f' hf hf'
    obtain ⟨g, rfl⟩ : ∃ g, f = g + 1 := ⟨f - 1, by omega⟩
    obtain ⟨g', rfl⟩ : ∃ g', f' = g' + 1 := ⟨f' - 1, by omega⟩
    simp only [natDigitsAux]
    split
    · rfl
    · rw [ih (n / 10) (by omega) g g' (by omega) (by omega)]

theorem natDigitsAux_succ (f n : Nat) : natDigitsAux (f + 1) n =
    if n < 10 then [UInt8.ofNat (48 + n)] else natDigitsAux f (n / 10) ++ [UInt8.ofNat (48 + n % 10)] := rfl

theorem natDigits_small (n : Nat) (h : n < 10) : natDigits n = [UInt8.ofNat (48 + n)] := by
  simp [natDigits, natDigitsAux, h]

theorem natDigits_big (n : Nat) (h : ¬ n < 10) :
    natDigits n = natDigits (n / 10) ++ [UInt8.ofNat (48 + n % 10)] := by
  unfold natDigits
  rw [natDigitsAux_succ, if_neg h, natDigitsAux_fuel (n / 10) n (n / 10 + 1) (by omega) (by omega)]

theorem isDigit_ofNat (k : Nat) (h : k < 10) : isDigit (UInt8.ofNat (48 + k)) = true := by
  have : ∀ k : Fin 10, isDigit (UInt8.ofNat (48 + k.val)) = true := by decide
  exact this ⟨k, h⟩

theorem digit_val (k : Nat) (h : k < 10) : (UInt8.ofNat (48 + k)).toNat - 48 = k := by
  have : ∀ k : Fin 10, (UInt8.ofNat (48 + k.val)).toNat - 48 = k.val := by decide
  exact this ⟨k, h⟩

theorem natDigits_all (n : Nat) : ∀ d ∈ natDigits n, isDigit d = true := by
  induction n using Nat.strongRecOn with
  | _ n ih =>
    by_cases h : n < 10
    · rw [natDigits_small n h]; intro d hd; rw [List.mem_singleton] at hd; subst hd; exact isDigit_ofNat n h
    · rw [natDigits_big n h]; intro d hd
      simp only [List.mem_append, List.mem_singleton] at hd
      rcases hd with hd | hd
      · exact ih (n / 10) (by omega) d hd
      · subst hd; exact isDigit_ofNat _ (by omega)

theorem digitsVal_append (ds : Bytes) (d : UInt8) : digitsVal (ds ++ [d]) = digitsVal ds * 10 + (d.toNat - 48) := by
  simp [digitsVal, List.foldl_append]

theorem digitsVal_natDigits (n : Nat) : digitsVal (natDigits n) = n := by
  induction n using Nat.strongRecOn with
  | _ n ih =>
    by_cases h : n < 10
    · rw [natDigits_small n h]
      show 0 * 10 + ((UInt8.ofNat (48 + n)).toNat - 48) = n
      rw [digit_val n h]; omega
    · rw [natDigits_big n h, digitsVal_append, ih (n / 10) (by omega), digit_val _ (by omega)]; omega

/-- what may follow a number: nothing, or a byte that cannot continue it -/
def NumEnd : Bytes → Prop
  | [] => True
  | b :: _ => isDigit b = false ∧ b ≠ 0x2E ∧ b ≠ 0x65 ∧ b ≠ 0x45

theorem takeDigits_append (ds rest : Bytes) (hd : ∀ d ∈ ds, isDigit d = true) (hr : NumEnd rest) :
    takeDigits (ds ++ rest) = (ds, rest) := by
  induction ds with
  | nil =>
    cases rest with
    | nil => rfl
    | cons b r => simp [takeDigits, hr.1]
  | cons d ds ih =>
    have h1 := hd d (by simp)
    have := ih (fun x hx => hd x (by simp [hx]))
    simp [takeDigits, h1, this]

theorem natDigits_head (n : Nat) : ∃ d ds, natDigits n = d :: ds ∧ (d = 48 → n = 0 ∧ ds = []) := by
  induction n using Nat.strongRecOn with
  | _ n ih =>
    by_cases h : n < 10
    · refine ⟨_, [], natDigits_small n h, ?_⟩
      intro e
      have : ∀ k : Fin 10, UInt8.ofNat (48 + k.val) = 48 → k.val = 0 := by decide
      exact ⟨this ⟨n, h⟩ e, rfl⟩
    · obtain ⟨d, ds, e, hz⟩ := ih (n / 10) (by omega)
      refine ⟨d, ds ++ [UInt8.ofNat (48 + n % 10)], by rw [natDigits_big n h, e]; rfl, ?_⟩
      intro e0
      have := (hz e0).1
      omega

theorem intPart_natDigits (n : Nat) (rest : Bytes) (hr : NumEnd rest) :
    intPart (natDigits n ++ rest) = some (natDigits n, rest) := by
  obtain ⟨d, ds, e, hz⟩ := natDigits_head n
  have hall := natDigits_all n
  rw [e] at hall ⊢
  have hd : isDigit d = true := hall d (by simp)
  simp only [List.cons_append, intPart, hd, Bool.not_true, Bool.false_eq_true, if_false]
  by_cases h0 : d = 48
  · obtain ⟨_, hds⟩ := hz h0
    subst hds; simp [h0]
  · rw [if_neg h0, takeDigits_append ds rest (fun x hx => hall x (by simp [hx])) hr]

theorem fracPart_end (rest : Bytes) (hr : NumEnd rest) : fracPart rest = some ([], rest) := by
  cases rest with
  | nil => rfl
  | cons b r => simp [fracPart, hr.2.1]

theorem expPart_end (rest : Bytes) (hr : NumEnd rest) : expPart rest = some ([], rest) := by
  cases rest with
  | nil => rfl
  | cons b r => simp [expPart, hr.2.2.1, hr.2.2.2]

theorem parseNumberAbs_natDigits (neg : Bool) (n : Nat) (rest : Bytes) (hr : NumEnd rest) :
    parseNumberAbs neg (natDigits n ++ rest) =
      some (.int (if neg then -(Int.ofNat n) else Int.ofNat n), rest) := by
  simp [parseNumberAbs, intPart_natDigits n rest hr, fracPart_end rest hr, expPart_end rest hr, digitsVal_natDigits]


/-! ### documents -/

mutual
/-- a tree the writer is specified for: integer numbers only, every string and member name valid UTF-8 -/
def WF : Json → Bool
  | .null => true
  | .bool _ => true
  | .int _ => true
  | .numOther _ => false
  | .str s => validUTF8 s
  | .arr xs => WFList xs
  | .obj ms => WFMembers ms
def WFList : List Json → Bool
  | [] => true
  | x :: xs => WF x && WFList xs
def WFMembers : List (Bytes × Json) → Bool
  | [] => true
  | (k, v) :: ms => validUTF8 k && WF v && WFMembers ms
end

theorem skipWs_nonws (b : UInt8) (r : Bytes) (h : isWs b = false) : skipWs (b :: r) = b :: r := by
  simp [skipWs, h]

/-- starts with a byte that is neither whitespace nor a closing bracket -/
def Starts (bs : Bytes) : Prop := ∃ b r, bs = b :: r ∧ isWs b = false ∧ b ≠ 0x5D ∧ b ≠ 0x7D

theorem isDigit_starts (d : UInt8) (h : isDigit d = true) : isWs d = false ∧ d ≠ 0x5D ∧ d ≠ 0x7D ∧
    d ≠ 0x22 ∧ d ≠ 0x5B ∧ d ≠ 0x7B ∧ d ≠ 0x74 ∧ d ≠ 0x66 ∧ d ≠ 0x6E ∧ d ≠ 0x2D := by
  simp only [isDigit, Bool.and_eq_true, decide_eq_true_eq] at h
  have e (k : Nat) (hk : k < 48 ∨ 57 < k) (hk2 : k < 256) : d ≠ UInt8.ofNat k :=
    u8_ne_of_toNat (by simp; omega)
  refine ⟨?_, e 0x5D (by omega) (by omega), e 0x7D (by omega) (by omega), e 0x22 (by omega) (by omega),
    e 0x5B (by omega) (by omega), e 0x7B (by omega) (by omega), e 0x74 (by omega) (by omega),
    e 0x66 (by omega) (by omega), e 0x6E (by omega) (by omega), e 0x2D (by omega) (by omega)⟩
  have := e 0x20 (by omega) (by omega); have := e 0x09 (by omega) (by omega)
  have := e 0x0A (by omega) (by omega); have := e 0x0D (by omega) (by omega)
  simp_all [isWs]

theorem renderInt_cases (i : Int) : (∃ ds, renderInt i = 0x2D :: ds) ∨ (∃ d ds, renderInt i = d :: ds ∧ isDigit d = true) := by
  unfold renderInt
  split
  · exact Or.inl ⟨_, rfl⟩
  · obtain ⟨d, ds, e, _⟩ := natDigits_head i.natAbs
    exact Or.inr ⟨d, ds, e, natDigits_all _ d (by rw [e]; simp)⟩

theorem render_starts (j : Json) (hw : WF j = true) (rest : Bytes) : Starts (render j ++ rest) := by
  cases j with
  | null => exact ⟨0x6E, _, rfl, by decide, by decide, by decide⟩
  | bool b => cases b <;> exact ⟨_, _, rfl, by decide, by decide, by decide⟩
  | int i =>
    rcases renderInt_cases i with ⟨ds, e⟩ | ⟨d, ds, e, hd⟩
    · exact ⟨0x2D, ds ++ rest, by simp [render, e], by decide, by decide, by decide⟩
    · have := isDigit_starts d hd
      exact ⟨d, ds ++ rest, by simp [render, e], this.1, this.2.1, this.2.2.1⟩
  | numOther r => simp [WF] at hw
  | str s => exact ⟨0x22, renderBody s ++ 0x22 :: rest, by simp [render], by decide, by decide, by decide⟩
  | arr xs => exact ⟨0x5B, renderList xs ++ 0x5D :: rest, by simp [render], by decide, by decide, by decide⟩
  | obj ms => exact ⟨0x7B, renderMembers ms ++ 0x7D :: rest, by simp [render], by decide, by decide, by decide⟩

theorem parseNumber_renderInt (i : Int) (rest : Bytes) (hr : NumEnd rest) :
    parseNumber (renderInt i ++ rest) = some (.int i, rest) := by
  unfold renderInt
  split
  · rename_i h
    simp only [List.cons_append, parseNumber, if_true]
    rw [parseNumberAbs_natDigits true _ rest hr]
    simp only [if_true]
    have : -(Int.ofNat i.natAbs) = i := by rw [Int.ofNat_eq_natCast]; omega
    rw [this]
  · rename_i h
    obtain ⟨d, ds, e, _⟩ := natDigits_head i.natAbs
    have hd : isDigit d = true := natDigits_all _ d (by rw [e]; simp)
    have hne : d ≠ 0x2D := (isDigit_starts d hd).2.2.2.2.2.2.2.2.2
    have := parseNumberAbs_natDigits false i.natAbs rest hr
    rw [e] at this ⊢
    simp only [List.cons_append, parseNumber, hne, if_false] at this ⊢
    rw [this]
    simp only [Bool.false_eq_true, if_false]
    have : Int.ofNat i.natAbs = i := by rw [Int.ofNat_eq_natCast]; omega
    rw [this]

theorem numEnd_comma (r : Bytes) : NumEnd (0x2C :: r) := ⟨by decide, by decide, by decide, by decide⟩
theorem numEnd_rbracket (r : Bytes) : NumEnd (0x5D :: r) := ⟨by decide, by decide, by decide, by decide⟩
theorem numEnd_rbrace (r : Bytes) : NumEnd (0x7D :: r) := ⟨by decide, by decide, by decide, by decide⟩

theorem renderTail_cons (y : Json) (ys : List Json) : renderTail (y :: ys) = 0x2C :: renderList (y :: ys) := by
  simp [renderTail, renderList]

theorem renderMTail_cons (m : Bytes × Json) (ms : List (Bytes × Json)) :
    renderMTail (m :: ms) = 0x2C :: renderMembers (m :: ms) := by
  obtain ⟨k, v⟩ := m
  simp [renderMTail, renderMembers]

theorem skipWs_starts (bs : Bytes) (h : Starts bs) : skipWs bs = bs := by
  obtain ⟨b, r, e, hw, _, _⟩ := h
  rw [e, skipWs_nonws b r hw]

mutual
theorem parse_render : ∀ (j : Json) (rest : Bytes) (f : Nat), WF j = true → NumEnd rest →
    (render j).length < f → parseValue f (render j ++ rest) = some (j, rest)
  | .null, rest, f, _, _, hf => by
    obtain ⟨f', rfl⟩ : ∃ f', f = f' + 1 := ⟨f - 1, by omega⟩
    simp [render, litNull, parseValue, stripPrefix]
  | .bool true, rest, f, _, _, hf => by
    obtain ⟨f', rfl⟩ : ∃ f', f = f' + 1 := ⟨f - 1, by omega⟩
    simp [render, litTrue, parseValue, stripPrefix]
  | .bool false, rest, f, _, _, hf => by
    obtain ⟨f', rfl⟩ : ∃ f', f = f' + 1 := ⟨f - 1, by omega⟩
    simp [render, litFalse, parseValue, stripPrefix]
  | .int i, rest, f, _, hr, hf => by
    obtain ⟨f', rfl⟩ : ∃ f', f = f' + 1 := ⟨f - 1, by omega⟩
    have key := parseNumber_renderInt i rest hr
    simp only [render]
    rcases renderInt_cases i with ⟨ds, e⟩ | ⟨d, ds, e, hd⟩
    · rw [e] at key ⊢
      simp only [List.cons_append] at key ⊢
      rw [parseValue]
      simp only [show (0x2D : UInt8) ≠ 0x22 by decide, show (0x2D : UInt8) ≠ 0x5B by decide,
        show (0x2D : UInt8) ≠ 0x7B by decide, show (0x2D : UInt8) ≠ 0x74 by decide,
        show (0x2D : UInt8) ≠ 0x66 by decide, show (0x2D : UInt8) ≠ 0x6E by decide, if_false]
      exact key
    · rw [e] at key ⊢
      simp only [List.cons_append] at key ⊢
      obtain ⟨_, _, _, a1, a2, a3, a4, a5, a6, _⟩ := isDigit_starts d hd
      rw [parseValue]
      simp only [a1, a2, a3, a4, a5, a6, if_false]
      exact key
  | .numOther _, _, _, hw, _, _ => by simp [WF] at hw
  | .str s, rest, f, hw, _, hf => by
    obtain ⟨f', rfl⟩ : ∃ f', f = f' + 1 := ⟨f - 1, by omega⟩
    have hv : validUTF8 s = true := by simpa [WF] using hw
    simp only [render, List.cons_append, List.append_assoc, List.singleton_append, List.nil_append]
    rw [parseValue]
    simp only [if_true]
    rw [parseBody_renderBody s hv rest _ (by simp; omega)]
    rfl
  | .arr [], rest, f, _, _, hf => by
    obtain ⟨f', rfl⟩ : ∃ f', f = f' + 1 := ⟨f - 1, by omega⟩
    simp [render, renderList, parseValue, skipWs, isWs]
  | .arr (x :: xs), rest, f, hw, _, hf => by
    obtain ⟨f', rfl⟩ : ∃ f', f = f' + 1 := ⟨f - 1, by omega⟩
    have hwl : WFList (x :: xs) = true := by simpa [WF] using hw
    have hwx : WF x = true := by simp [WFList] at hwl; exact hwl.1
    have hst : Starts (renderList (x :: xs) ++ 0x5D :: rest) := by
      simp only [renderList, List.append_assoc]; exact render_starts x hwx _
    have hl : (renderList (x :: xs)).length + 1 < f' := by simp [render] at hf; omega
    have key := parseElems_render (x :: xs) rest f' (by simp) hwl hl
    simp only [render, List.cons_append, List.append_assoc, List.singleton_append, List.nil_append]
    rw [parseValue]
    simp only [show (0x5B : UInt8) ≠ 0x22 by decide, if_false, if_true]
    rw [skipWs_starts _ hst]
    obtain ⟨b, r, e, _, hb, _⟩ := hst
    rw [e] at key ⊢
    simp only [hb, if_false, key]
    rfl
  | .obj [], rest, f, _, _, hf => by
    obtain ⟨f', rfl⟩ : ∃ f', f = f' + 1 := ⟨f - 1, by omega⟩
    simp [render, renderMembers, parseValue, skipWs, isWs]
  | .obj (m :: ms), rest, f, hw, _, hf => by
    obtain ⟨f', rfl⟩ : ∃ f', f = f' + 1 := ⟨f - 1, by omega⟩
    have hwl : WFMembers (m :: ms) = true := by simpa [WF] using hw
    have hl : (renderMembers (m :: ms)).length + 1 < f' := by simp [render] at hf; omega
    have key := parseMembers_render (m :: ms) rest f' (by simp) hwl hl
    have hst : Starts (renderMembers (m :: ms) ++ 0x7D :: rest) := by
      obtain ⟨k, v⟩ := m
      exact ⟨0x22, renderBody k ++ 0x22 :: 0x3A :: (render v ++ (renderMTail ms ++ 0x7D :: rest)),
        by simp [renderMembers], by decide, by decide, by decide⟩
    simp only [render, List.cons_append, List.append_assoc, List.singleton_append, List.nil_append]
    rw [parseValue]
    simp only [show (0x7B : UInt8) ≠ 0x22 by decide, show (0x7B : UInt8) ≠ 0x5B by decide, if_false, if_true]
    rw [skipWs_starts _ hst]
    obtain ⟨b, r, e, _, _, hb⟩ := hst
    rw [e] at key ⊢
    simp only [hb, if_false, key]
    rfl
theorem parseElems_render : ∀ (l : List Json) (rest : Bytes) (f : Nat), l ≠ [] → WFList l = true →
    (renderList l).length + 1 < f → parseElems f (renderList l ++ 0x5D :: rest) = some (l, rest)
  | [], _, _, hne, _, _ => absurd rfl hne
  | x :: xs, rest, f, _, hw, hf => by
    obtain ⟨f', rfl⟩ : ∃ f', f = f' + 1 := ⟨f - 1, by omega⟩
    simp only [WFList, Bool.and_eq_true] at hw
    obtain ⟨hwx, hwxs⟩ := hw
    simp only [renderList, List.append_assoc] at hf ⊢
    rw [parseElems]
    cases xs with
    | nil =>
      simp only [renderTail, List.nil_append]
      rw [parse_render x (0x5D :: rest) f' hwx (numEnd_rbracket rest) (by simp [renderTail] at hf; omega)]
      simp [skipWs, isWs]
    | cons y ys =>
      rw [renderTail_cons] at hf ⊢
      simp only [List.cons_append]
      rw [parse_render x _ f' hwx (numEnd_comma _) (by simp at hf; omega)]
      have hwy : WF y = true := by simp [WFList] at hwxs; exact hwxs.1
      have hst : Starts (renderList (y :: ys) ++ 0x5D :: rest) := by
        simp only [renderList, List.append_assoc]; exact render_starts y hwy _
      have key := parseElems_render (y :: ys) rest f' (by simp) hwxs (by simp at hf ⊢; omega)
      simp only [skipWs_nonws 0x2C _ (by decide), if_true, skipWs_starts _ hst, key]
      rfl
theorem parseMembers_render : ∀ (l : List (Bytes × Json)) (rest : Bytes) (f : Nat), l ≠ [] → WFMembers l = true →
    (renderMembers l).length + 1 < f → parseMembers f (renderMembers l ++ 0x7D :: rest) = some (l, rest)
  | [], _, _, hne, _, _ => absurd rfl hne
  | (k, v) :: ms, rest, f, _, hw, hf => by
    obtain ⟨f', rfl⟩ : ∃ f', f = f' + 1 := ⟨f - 1, by omega⟩
    simp only [WFMembers, Bool.and_eq_true] at hw
    obtain ⟨⟨hwk, hwv⟩, hwms⟩ := hw
    simp only [renderMembers, List.cons_append, List.append_assoc] at hf ⊢
    rw [parseMembers]
    simp only [if_true]
    rw [parseBody_renderBody k hwk _ _ (by simp; omega)]
    simp only [skipWs_nonws 0x3A _ (by decide), if_true]
    cases ms with
    | nil =>
      simp only [renderMTail, List.nil_append]
      rw [skipWs_starts _ (render_starts v hwv _),
        parse_render v (0x7D :: rest) f' hwv (numEnd_rbrace rest) (by simp [renderMTail] at hf; omega)]
      simp [skipWs, isWs]
    | cons m ms' =>
      rw [renderMTail_cons] at hf ⊢
      simp only [List.cons_append]
      rw [skipWs_starts _ (render_starts v hwv _),
        parse_render v _ f' hwv (numEnd_comma _) (by simp at hf; omega)]
      have hst : Starts (renderMembers (m :: ms') ++ 0x7D :: rest) := by
        obtain ⟨k', v'⟩ := m
        exact ⟨0x22, renderBody k' ++ 0x22 :: 0x3A :: (render v' ++ (renderMTail ms' ++ 0x7D :: rest)),
          by simp [renderMembers], by decide, by decide, by decide⟩
      have key := parseMembers_render (m :: ms') rest f' (by simp) hwms (by simp at hf ⊢; omega)
      simp only [skipWs_nonws 0x2C _ (by decide), if_true, skipWs_starts _ hst, key,
        show (0x2C : UInt8) ≠ 0x7D by decide, if_false]
      rfl
end


/-- **reading back a rendered document**: for every tree the writer is specified for, `parseDoc ∘ render` is the identity -/
theorem parseDoc_render (j : Json) (hw : WF j = true) : parseDoc (render j) = some j := by
  unfold parseDoc
  have hst := render_starts j hw []
  simp only [List.append_nil] at hst
  rw [skipWs_starts _ hst]
  have := parse_render j [] (2 * (render j).length + 2) hw trivial (by omega)
  simp only [List.append_nil] at this
  rw [this]
  simp [skipWs]

/-- only whitespace -/
def AllWs (bs : Bytes) : Prop := ∀ b ∈ bs, isWs b = true

theorem skipWs_allWs_append (ws rest : Bytes) (h : AllWs ws) : skipWs (ws ++ rest) = skipWs rest := by
  induction ws with
  | nil => rfl
  | cons b r ih =>
    have hb : isWs b = true := h b (by simp)
    simp only [List.cons_append, skipWs, hb, if_true]
    exact ih (fun x hx => h x (by simp [hx]))

theorem skipWs_allWs (ws : Bytes) (h : AllWs ws) : skipWs ws = [] := by
  have := skipWs_allWs_append ws [] h
  simpa [skipWs] using this

theorem numEnd_allWs (ws : Bytes) (h : AllWs ws) : NumEnd ws := by
  cases ws with
  | nil => trivial
  | cons b r =>
    have hb : isWs b = true := h b (by simp)
    simp only [isWs, Bool.or_eq_true, decide_eq_true_eq] at hb
    refine ⟨?_, ?_, ?_, ?_⟩
    · rcases hb with ((rfl | rfl) | rfl) | rfl <;> decide
    · rcases hb with ((rfl | rfl) | rfl) | rfl <;> decide
    · rcases hb with ((rfl | rfl) | rfl) | rfl <;> decide
    · rcases hb with ((rfl | rfl) | rfl) | rfl <;> decide

/-- **whitespace around a document is immaterial**: any run of space / tab / CR / LF before and after the rendered
    document reads back to the same tree -/
theorem parseDoc_ws_render_ws (j : Json) (hw : WF j = true) (pre post : Bytes) (h1 : AllWs pre) (h2 : AllWs post) :
    parseDoc (pre ++ (render j ++ post)) = some j := by
  unfold parseDoc
  rw [skipWs_allWs_append pre _ h1, skipWs_starts _ (render_starts j hw post)]
  rw [parse_render j post _ hw (numEnd_allWs post h2) (by simp; omega)]
  simp [skipWs_allWs post h2]


end Psa.Model.JText
