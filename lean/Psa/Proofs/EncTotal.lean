import Psa.Proofs.EncMap
namespace Psa.Proofs.Enc
open Psa Psa.Model.Enc

/-! ### totality: no input makes the map reader panic (C05) -/

def NoPanic {α} (o : Outcome α) : Prop := ∀ s, o ≠ .panic s

theorem np_ok {α} (a : α) : NoPanic (Outcome.ok a) := by intro s h; cases h
theorem np_err {α} (e : ErrMask) : NoPanic (Outcome.err e : Outcome α) := by intro s h; cases h

theorem np_bind {α β} (o : Outcome α) (f : α → Outcome β) (h1 : NoPanic o) (h2 : ∀ a, o = .ok a → NoPanic (f a)) :
    NoPanic (o.bind f) := by
  cases o with
  | ok a => simpa [Outcome.bind] using h2 a rfl
  | err e => simpa [Outcome.bind] using np_err e
  | panic s => exact absurd rfl (h1 s)

theorem np_map {α β} (o : Outcome α) (f : α → β) (h1 : NoPanic o) : NoPanic (o.map f) := by
  cases o with
  | ok a => simp [Outcome.map, Outcome.bind, NoPanic]
  | err e => simp [Outcome.map, Outcome.bind, NoPanic]
  | panic s => exact absurd rfl (h1 s)

theorem np_idx0 (site : String) (l : Bytes) (h : l.length ≠ 0) : ∃ b r, l = b :: r ∧ idx site l 0 = .ok b ∧ sliceFrom site l 1 = .ok r := by
  cases l with
  | nil => simp at h
  | cons b r => exact ⟨b, r, rfl, by simp [idx], by simp [sliceFrom]⟩

theorem np_pai (ai : Nat) (data : Bytes) : NoPanic (processAdditionalInfo ai data) := by
  unfold processAdditionalInfo
  have hs : ∀ site (k : Nat) (f : Bytes → Outcome (Nat × Bytes)), ¬ data.length < k → (∀ x, NoPanic (f x)) →
      NoPanic ((sliceTo site data k).bind f) := by
    intro site k f hk hf
    have : sliceTo site data k = .ok (data.take k) := by simp [sliceTo]; omega
    rw [this]; exact hf _
  have hf : ∀ site (k : Nat) (f : Bytes → Outcome (Nat × Bytes)), ¬ data.length < k → (∀ x, NoPanic (f x)) →
      NoPanic ((sliceFrom site data k).bind f) := by
    intro site k f hk hf
    have : sliceFrom site data k = .ok (data.drop k) := by simp [sliceFrom]; omega
    rw [this]; exact hf _
  repeat' split
  all_goals first
    | exact np_ok _
    | exact np_err _
    | skip
  · rename_i h; obtain ⟨b, r, rfl, h1, h2⟩ := np_idx0 "pai:1" data (by omega)
    simp [idx, sliceFrom, Outcome.bind, NoPanic]
  · rename_i h; exact hs _ 2 _ h fun x => hf _ 2 _ h fun y => np_ok _
  · rename_i h; exact hs _ 4 _ h fun x => hf _ 4 _ h fun y => np_ok _

theorem np_add (m : OMap) (k : Int) (v : Bytes) : NoPanic (m.add k v) := by
  unfold OMap.add; split
  · exact np_err _
  · exact np_ok _

theorem np_ukv (rest : Bytes) (m : OMap) : NoPanic (unmarshalKeyValue rest m) := by
  unfold unmarshalKeyValue
  repeat' split
  all_goals first
    | exact np_ok _
    | exact np_err _
    | exact np_bind _ _ (np_add _ _ _) (fun a _ => np_ok _)

theorem np_readEntries : ∀ (n : Nat) (rest : Bytes) (m : OMap), NoPanic (readEntries n rest m)
  | 0, _, _ => np_ok _
  | n + 1, rest, m => by
    simp only [readEntries]
    exact np_bind _ _ (np_ukv rest m) (fun a _ => np_readEntries n a.1 a.2)

theorem np_readUntilBreak : ∀ (fuel : Nat) (rest : Bytes) (m : OMap), NoPanic (readUntilBreak fuel rest m)
  | 0, _, _ => np_err _
  | fuel + 1, rest, m => by
    simp only [readUntilBreak]
    split
    · exact np_err _
    · split
      · exact np_ok _
      · exact np_bind _ _ (np_ukv _ m) (fun a _ => np_readUntilBreak fuel a.1 a.2)

/-- `FromCBOR` never panics, whatever the bytes: every index and slice is guarded -/
theorem fromCBOR_total (data : Bytes) : NoPanic (fromCBOR data) := by
  unfold fromCBOR
  split
  · exact np_err _
  · rename_i h0
    obtain ⟨b, r, rfl, h1, h2⟩ := np_idx0 "FromCBOR:header" (data) h0
    have h2' : sliceFrom "FromCBOR:rest" (b :: r) 1 = .ok r := by simp [sliceFrom]
    rw [h1, h2']
    simp only [Outcome.bind]
    apply np_bind
    · split
      · apply np_bind _ _ (np_pai _ _)
        intro a _
        split
        · exact np_err _
        · rename_i h3
          obtain ⟨b2, r2, he, h4, h5⟩ := np_idx0 "FromCBOR:tagged" a.2 h3
          have h5' : sliceFrom "FromCBOR:tagged-rest" a.2 1 = .ok r2 := by rw [he]; simp [sliceFrom]
          rw [h4, h5']; simp only [Outcome.bind]; exact np_ok _
      · exact np_ok _
    · intro a _
      split
      · exact np_err _
      · apply np_bind _ _ (np_pai _ _)
        intro x _
        split
        · exact np_bind _ _ (np_readEntries _ _ _) (fun _ _ => np_ok _)
        · exact np_readUntilBreak _ _ _

end Psa.Proofs.Enc
