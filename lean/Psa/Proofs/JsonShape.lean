/- The JSON encoder emits the documented form (helpers for C12). -/
import Psa.Spec.JsonShape
import Psa.Proofs.WireShape
namespace Psa.Proofs
open Psa Psa.Model Psa.Spec

/-- the documented member names are pairwise distinct within a profile (and within a component) -/
theorem names_distinct : ((JField.of .p1).map (JField.name .p1)).Nodup ∧ ((JField.of .p2).map (JField.name .p2)).Nodup ∧
    (CField.all.map CField.name).Nodup := by decide

theorem comp_toJson_eq (sc : SwComp) (h : CompOK sc) : sc.toJson = compJson sc := by
  obtain ⟨⟨mv, hmv, _⟩, ⟨sg, hsg, _⟩⟩ := h
  obtain ⟨mt, mval, ver, sig, md⟩ := sc
  simp only at hmv hsg
  subst hmv hsg
  cases mt <;> cases ver <;> cases md <;> rfl

theorem sw_toJson_eq (l : List SwComp) (h : ∀ sc ∈ l, CompOK sc) :
    swToJson (.cont (some (l.map some))) = .arr (((l.map some).filterMap id).map compJson) := by
  simp only [swToJson, List.filterMap_map]
  congr 1
  induction l with
  | nil => rfl
  | cons x xs ih =>
    simp only [List.map_cons, List.filterMap_cons, Function.comp, id]
    rw [comp_toJson_eq x (h x (by simp))]
    congr 1
    exact ih (fun sc hsc => h sc (by simp [hsc]))

theorem p1_encode_json (c : Claims) (hp : c.prof = .p1) (h : Conformant c) : encodeJSON c = .ok (jsonDoc c) := by
  obtain ⟨prof, canonical, profile, clientId, lifecycle, implId, bootSeed, certRef, sw, noSw, nonce, instId, vsi⟩ := c
  simp only at hp; subst hp
  simp only [Conformant] at h
  obtain ⟨h1, h2, ⟨lc, h3, _⟩, ⟨im, h4, _⟩, ⟨bs, h5, _⟩, _, h7, ⟨n, h8, _⟩, ⟨ins, h9, _⟩, _⟩ := h
  subst h3 h4 h5 h8 h9
  cases clientId with
  | none => exact absurd rfl h2
  | some cid =>
  rcases h7 with ⟨hco, hns⟩ | ⟨hnc, hns⟩
  · obtain ⟨l, hne, hsw, hall⟩ := sw_of_componentsOK sw hco
    subst hsw; subst hns
    have hne' : (SwField.cont (some (l.map some))).nilOrEmpty = false := by
      cases l with
      | nil => exact absurd rfl hne
      | cons a as => rfl
    have hne'' : (SwField.cont (some (l.map some))).elems.isEmpty = false := hne'
    have hsw := sw_toJson_eq l hall
    simp only [encodeJSON, p1ToJson, jsonDoc, jsonMembers, JField.of, jsonVal, hne', hne'', heldComps, SwField.elems]
    rw [hsw]
    rcases h1 with rfl | rfl <;> cases certRef <;> cases vsi <;>
      simp [hne, jOmit, jOptBytes, jOptInt, jOptNat, JField.name, jP1Profile, jClientId, jLifecycle, jImplId, jBootSeed,
        jP1CertRef, jSw, jNoSw, jNonce, jInstId, jVsi]
  · have he : sw.nilOrEmpty = true := by simpa [SwField.nilOrEmpty, NoComponents] using hnc
    have he' : sw.elems.isEmpty = true := he
    cases noSw with
    | none => exact absurd rfl hns
    | some fl =>
    simp only [encodeJSON, p1ToJson, jsonDoc, jsonMembers, JField.of, jsonVal, he, he']
    rcases h1 with rfl | rfl <;> cases certRef <;> cases vsi <;>
      simp [jOmit, jOptBytes, jOptInt, jOptNat, JField.name, jP1Profile, jClientId, jLifecycle, jImplId, jBootSeed,
        jP1CertRef, jSw, jNoSw, jNonce, jInstId, jVsi]

theorem p2_encode_json (c : Claims) (hp : c.prof = .p2) (h : Conformant c) : encodeJSON c = .ok (jsonDoc c) := by
  obtain ⟨prof, canonical, profile, clientId, lifecycle, implId, bootSeed, certRef, sw, noSw, nonce, instId, vsi⟩ := c
  simp only at hp; subst hp
  simp only [Conformant] at h
  obtain ⟨h1, h2, ⟨lc, h3, _⟩, ⟨im, h4, _⟩, _, _, hco, ⟨n, h8, hn⟩, ⟨ins, h9, _⟩, _⟩ := h
  subst h1 h3 h4 h8 h9
  cases clientId with
  | none => exact absurd rfl h2
  | some cid =>
  obtain ⟨l, hne, hsw, hall⟩ := sw_of_componentsOK sw hco
  subst hsw
  have hne'' : (SwField.cont (some (l.map some))).elems.isEmpty = false := by
    cases l with
    | nil => exact absurd rfl hne
    | cons a as => rfl
  have hsw := sw_toJson_eq l hall
  simp only [encodeJSON, p2ToJson, jsonDoc, jsonMembers, JField.of, jsonVal, hne'', heldComps, SwField.elems,
    hashLen_nonceOK n hn]
  rw [hsw]
  cases bootSeed <;> cases certRef <;> cases vsi <;>
    simp [hne, jOmit, jOptBytes, jOptInt, jOptNat, JField.name, jP2Profile, jClientId, jLifecycle, jImplId, jBootSeed,
      jP2CertRef, jSw, jNonce, jInstId, jVsi, Outcome.bind]

theorem encode_json (c : Claims) (h : validate c = .ok ()) : encodeJSON c = .ok (jsonDoc c) := by
  have hc := (validateWith_ok_iff _ c).mp h
  have hconf : Conformant c := by
    rw [conformant_iff_all]; intro g
    exact (pass_iff g c).mp (hc g (by cases g <;> simp [validateOrder]))
  cases hp : c.prof
  · exact p1_encode_json c hp hconf
  · exact p2_encode_json c hp hconf

end Psa.Proofs
