import Psa.Proofs.JsonRoundTripCore
namespace Psa.Proofs.JRT
open Psa Psa.Model Psa.Spec Psa.Proofs.RT

theorem lookup_absent {F : Type} (fields : List F) (name : F → Bytes) (val : F → Option Json) (n : Bytes)
    (h : n ∉ fields.map name) : lookupMember (membersOf fields name val) n = none := by
  unfold lookupMember
  have : (membersOf fields name val).find? (fun x => x.1 == n) = none := by
    rw [List.find?_eq_none]
    intro x hx hxe
    have := (names_of_members fields name val).subset (List.mem_map_of_mem hx)
    simp only [beq_iff_eq] at hxe
    exact h (hxe ▸ this)
  simp [this]

theorem p1Name_ne_p2Name : p1Name ≠ p2Name := by decide

/-- **JSON decode ∘ encode** (tree level): for every valid claims-set of a built-in profile, the dispatching JSON decoder
    applied to the library's own JSON form returns the claims-set itself, up to the component container -/
theorem json_decode_encode (u : Bytes → Dec Bytes) (c : Claims) (hv : validate c = .ok ()) (hb : ClaimsBounded c)
    (hbi : Builtin c) (hu : u p2Name = .ok p2Name) :
    ∃ j, encodeJSON c = .ok j ∧ decodeClaimsJSON u builtinRegistry j = .ok (rt c) := by
  have hc : Conformant c := (Props.C01.validate_iff_conformant c).mp hv
  refine ⟨jsonDoc c, encode_json c hv, ?_⟩
  rcases hbi with ⟨hp, hcan⟩ | ⟨hp, hcan, hns⟩
  · -- profile 1
    have hm : jsonDoc c = .obj (membersOf (JField.of .p1) (JField.name .p1) (jsonVal c)) := by
      simp only [jsonDoc, jsonMembers, hp]; rfl
    have hclean := namesClean_members (JField.of .p1) (JField.name .p1) (jsonVal c) p1_names_good
    have hnd : ((JField.of .p1).map (JField.name .p1)).Nodup := names_distinct.1
    have L1 : lookupMember (membersOf (JField.of .p1) (JField.name .p1) (jsonVal c)) jP1Profile = (profStr c.profile).map .str := by
      have := lookup_members (JField.of .p1) (JField.name .p1) (jsonVal c) hnd .profile (by decide)
      rw [jv_profile] at this; exact this
    have L2 : lookupMember (membersOf (JField.of .p1) (JField.name .p1) (jsonVal c)) jP2Profile = none :=
      lookup_absent _ _ _ _ (by decide)
    unfold Conformant at hc
    simp only [hp] at hc
    obtain ⟨hprof, _, _, _, _, _, _, ⟨n, hn, _⟩, _, _⟩ := hc
    have hN : c.nonce = none ∨ ∃ b, c.nonce = some [b] := Or.inr ⟨n, hn⟩
    have hdec := p1_json_decode u c hp hb hN
    have hfinal : st1 ((profStr c.profile).map .str) c.clientId c.lifecycle c.implId c.bootSeed c.certRef (rtSw c.sw) c.noSw
        ((single c.nonce).map fun b => [b]) c.instId c.vsi = rt c := by
      obtain ⟨prof, canonical, profile, clientId, lifecycle, implId, bootSeed, certRef, sw, noSw, nonce, instId, vsi⟩ := c
      simp only [] at hp hcan hprof hn
      subst hp; subst hcan; subst hn
      rcases hprof with rfl | rfl <;> simp [st1, rt, profStr, single]
    rw [hm] at hdec ⊢
    unfold decodeClaimsJSON
    simp only [hclean, Bool.not_true, Bool.false_eq_true, if_false]
    rcases hprof with hpn | hps
    · -- no profile claim: the default entry
      have L1' : lookupMember (membersOf (JField.of .p1) (JField.name .p1) (jsonVal c)) jP1Profile = none := by
        rw [L1, hpn]; rfl
      have hd : dispatchJSON builtinRegistry (membersOf (JField.of .p1) (JField.name .p1) (jsonVal c)) = .none := by
        simp [dispatchJSON, builtinRegistry, dispatchStep, entryMatches, L1', L2]
      have hpp : profilePresent builtinRegistry (membersOf (JField.of .p1) (JField.name .p1) (jsonVal c)) = false := by
        simp [profilePresent, builtinRegistry, L1', L2]
      rw [hd]
      simp only [hpp, Bool.false_eq_true, if_false]
      have hf : builtinRegistry.find? (fun e => e.key == []) =
          some { key := [], profName := p1Name, jsonTag := jP1Profile, entry := .p1 } := by
        simp [builtinRegistry]
      rw [hf]
      simp only []
      rw [hdec, hfinal]
    · have L1' : lookupMember (membersOf (JField.of .p1) (JField.name .p1) (jsonVal c)) jP1Profile = some (.str p1Name) := by
        rw [L1, hps, hcan]; rfl
      have hd : ∃ e, dispatchJSON builtinRegistry (membersOf (JField.of .p1) (JField.name .p1) (jsonVal c)) = .found e ∧ e.entry = .p1 := by
        refine ⟨{ key := p1Name, profName := p1Name, jsonTag := jP1Profile, entry := .p1 }, ?_, rfl⟩
        simp [dispatchJSON, builtinRegistry, dispatchStep, entryMatches, L1', L2]
      obtain ⟨e, hd1, hd2⟩ := hd
      rw [hd1]
      simp only [hd2]
      rw [hdec, hfinal]
  · -- profile 2
    have hm : jsonDoc c = .obj (membersOf (JField.of .p2) (JField.name .p2) (jsonVal c)) := by
      simp only [jsonDoc, jsonMembers, hp]; rfl
    have hclean := namesClean_members (JField.of .p2) (JField.name .p2) (jsonVal c) p2_names_good
    have hnd : ((JField.of .p2).map (JField.name .p2)).Nodup := names_distinct.2.1
    unfold Conformant at hc
    simp only [hp] at hc
    obtain ⟨hprof, _, _, _, _, _, _, ⟨n, hn, _⟩, _, _⟩ := hc
    have L2 : lookupMember (membersOf (JField.of .p2) (JField.name .p2) (jsonVal c)) jP2Profile = some (.str p2Name) := by
      have := lookup_members (JField.of .p2) (JField.name .p2) (jsonVal c) hnd .profile (by decide)
      rw [jv_profile, hprof, hcan] at this; exact this
    have L1 : lookupMember (membersOf (JField.of .p2) (JField.name .p2) (jsonVal c)) jP1Profile = none :=
      lookup_absent _ _ _ _ (by decide)
    have hu' : ∀ s, profStr c.profile = some s → u s = .ok s := by
      intro s hs
      rw [hprof, hcan] at hs
      simp only [profStr, Option.some.injEq] at hs
      rw [← hs]; exact hu
    have hdec := p2_json_decode u c hp hb hu'
    have hfinal : st2 ((profStr c.profile).map .str) c.clientId c.lifecycle c.implId c.bootSeed c.certRef (rtSw c.sw)
        (nonceRt c.nonce) c.instId c.vsi = rt c := by
      obtain ⟨prof, canonical, profile, clientId, lifecycle, implId, bootSeed, certRef, sw, noSw, nonce, instId, vsi⟩ := c
      simp only [] at hp hcan hprof hn hns
      subst hp; subst hcan; subst hn; subst hns; subst hprof
      simp [st2, rt, profStr, nonceRt]
    rw [hm] at hdec ⊢
    unfold decodeClaimsJSON
    simp only [hclean, Bool.not_true, Bool.false_eq_true, if_false]
    have hd : ∃ e, dispatchJSON builtinRegistry (membersOf (JField.of .p2) (JField.name .p2) (jsonVal c)) = .found e ∧ e.entry = .p2 := by
      refine ⟨{ key := p2Name, profName := p2Name, jsonTag := jP2Profile, entry := .p2 }, ?_, rfl⟩
      simp [dispatchJSON, builtinRegistry, dispatchStep, entryMatches, L1, L2]
    obtain ⟨e, hd1, hd2⟩ := hd
    rw [hd1]
    simp only [hd2]
    rw [hdec, hfinal]

end Psa.Proofs.JRT

namespace Psa.Proofs.JRT
open Psa Psa.Model Psa.Spec Psa.Proofs.RT

theorem rtSw_congr (f g : SwField) (h : g.elems = f.elems) : rtSw g = rtSw f := by
  unfold rtSw heldComps; rw [h]

theorem conformant_no_nil (c : Claims) (hc : Conformant c) : ∀ e ∈ c.sw.elems, e ≠ none := by
  unfold Conformant at hc
  cases hp : c.prof <;> simp only [hp] at hc
  · obtain ⟨_, _, _, _, _, _, hsw, _⟩ := hc
    rcases hsw with ⟨⟨l, _, hl, _⟩, _⟩ | ⟨hn, _⟩
    · intro e he; rw [hl] at he; simp at he; obtain ⟨x, _, rfl⟩ := he; simp
    · intro e he; unfold NoComponents at hn; rw [hn] at he; cases he
  · obtain ⟨_, _, _, _, _, _, ⟨l, _, hl, _⟩, _⟩ := hc
    intro e he; rw [hl] at he; simp at he; obtain ⟨x, _, rfl⟩ := he; simp

/-- **CBOR → claims → JSON → claims → CBOR reproduces the original bytes**, and the JSON leg preserves every getter -/
theorem cbor_json_cbor (u : Bytes → Dec Bytes) (extra : List Bytes) (c : Claims) (hv : validate c = .ok ())
    (hb : ClaimsBounded c) (ht : TextOK c) (hbi : Builtin c) (hu : u p2Name = .ok p2Name) :
    ∃ b c1 j c2, encodeClaims c = .ok b ∧ decodeClaims u extra b = .ok c1 ∧ encodeJSON c1 = .ok j ∧
      decodeClaimsJSON u builtinRegistry j = .ok c2 ∧ encodeClaims c2 = .ok b ∧ ∀ g, Model.get g c2 = Model.get g c := by
  obtain ⟨b, c1, h1, h2, h3, h4, h5⟩ := decode_encode_obs u extra c hv hb ht hbi hu
  have hc1 : c1 = rt c := by
    obtain ⟨b', e1, e2⟩ := decode_encode u extra c hv hb ht hbi hu
    rw [h1] at e1; cases e1
    rw [h2] at e2; cases e2; rfl
  have hc : Conformant c := (Props.C01.validate_iff_conformant c).mp hv
  have hel : (rtSw c.sw).elems = c.sw.elems := rtSw_elems c.sw (conformant_no_nil c hc)
  have hb1 : ClaimsBounded c1 := by
    rw [hc1]
    obtain ⟨a1, a2, a3, a4, a5, a6, a7, a8, a9, a10, a11, a12⟩ := hb
    refine ⟨a1, a2, a3, a4, a5, a6, a7, a8, a9, a10, ?_, ?_⟩
    · show (rtSw c.sw).elems.length ≤ 131072; rw [hel]; exact a11
    · intro sc hsc; apply a12 sc; have : some sc ∈ (rtSw c.sw).elems := hsc; rw [hel] at this; exact this
  have hbi1 : Builtin c1 := by rw [hc1]; exact hbi
  obtain ⟨j, hj1, hj2⟩ := json_decode_encode u c1 h4 hb1 hbi1 hu
  have hrr : rt c1 = c1 := by
    rw [hc1]
    show ({ (rt c) with sw := rtSw (rt c).sw } : Claims) = rt c
    have : rtSw (rt c).sw = rtSw c.sw := rtSw_congr c.sw (rtSw c.sw) hel
    simp only [rt] at this ⊢
    rw [this]
  refine ⟨b, c1, j, c1, h1, h2, hj1, ?_, h5, h3⟩
  rw [hj2, hrr]

end Psa.Proofs.JRT
