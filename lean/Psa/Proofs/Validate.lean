/- validate ⇔ Conformant: per-claim lemmas and the walk over the getters. -/
import Psa.Proofs.Claims
namespace Psa.Proofs
open Psa Psa.Model Psa.Spec

/-! ### the component list -/

theorem filterError_err_unfiltered {α} (o : Outcome α) (m : ErrMask) (h : filterError o = .err m) :
    filtered m = false := by
  cases o with
  | ok a => simp [filterError] at h
  | err m' =>
    simp only [filterError] at h
    split at h
    · cases h
    · cases h; simp_all
  | panic s => simp [filterError] at h

theorem bind_unit_err {β} (x : Outcome Unit) (f : Unit → Outcome β) (m : ErrMask)
    (h : x.bind f = .err m) : x = .err m ∨ (x = .ok () ∧ f () = .err m) := by
  cases x <;> simp_all [Outcome.bind]

theorem comp_validate_err_unfiltered (sc : SwComp) (m : ErrMask) (h : sc.validate = .err m) :
    filtered m = false := by
  unfold SwComp.validate at h
  rcases bind_unit_err _ _ _ h with h | ⟨_, h⟩
  · exact filterError_err_unfiltered _ _ h
  rcases bind_unit_err _ _ _ h with h | ⟨_, h⟩
  · exact filterError_err_unfiltered _ _ h
  rcases bind_unit_err _ _ _ h with h | ⟨_, h⟩
  · exact filterError_err_unfiltered _ _ h
  rcases bind_unit_err _ _ _ h with h | ⟨_, h⟩
  · exact filterError_err_unfiltered _ _ h
  · exact filterError_err_unfiltered _ _ h

theorem valuesOf_ok_iff (l : List (Option SwComp)) (r : List SwComp) :
    valuesOf l = .ok r ↔ l = r.map some ∧ ∀ sc ∈ r, CompOK sc := by
  induction l generalizing r with
  | nil => cases r <;> simp [valuesOf]
  | cons x xs ih =>
    cases x with
    | none => cases r <;> simp [valuesOf]
    | some sc =>
      simp only [valuesOf]
      rcases comp_validate_cases sc with h | ⟨m, h⟩
      · rw [h]
        have hc := (comp_validate_ok_iff sc).mp h
        simp only [bind_ok_iff, Outcome.ok.injEq]
        constructor
        · rintro ⟨a, ha, rfl⟩
          have := (ih a).mp ha
          simp [this.1, hc]; exact this.2
        · intro ⟨h1, h2⟩
          cases r with
          | nil => simp at h1
          | cons y ys =>
            simp at h1
            refine ⟨ys, (ih ys).mpr ⟨h1.2, fun s hs => h2 s (by simp [hs])⟩, ?_⟩
            simp [h1.1]
      · rw [h]
        have hc : ¬ CompOK sc := fun hh => by
          have := (comp_validate_ok_iff sc).mpr hh; rw [h] at this; cases this
        constructor
        · intro hh; cases hh
        · intro ⟨h1, h2⟩
          cases r with
          | nil => simp at h1
          | cons y ys =>
            simp at h1
            exact absurd (h1.1 ▸ h2 y (by simp)) hc

theorem valuesOf_err_unfiltered (l : List (Option SwComp)) (m : ErrMask) (h : valuesOf l = .err m) :
    filtered m = false := by
  induction l with
  | nil => simp [valuesOf] at h
  | cons x xs ih =>
    cases x with
    | none => simp [valuesOf] at h; subst h; decide
    | some sc =>
      simp only [valuesOf] at h
      rcases comp_validate_cases sc with h' | ⟨m', h'⟩
      · rw [h'] at h
        cases hv : valuesOf xs with
        | ok a => simp [hv, Outcome.bind] at h
        | err m2 => simp [hv, Outcome.bind] at h; subst h; exact ih hv
        | panic s => simp [hv, Outcome.bind] at h
      · rw [h'] at h; cases h
        exact comp_validate_err_unfiltered sc _ h'

/-- the getter's component branch passes the filter iff there is a list of well-formed components -/
theorem values_pass_iff (f : SwField) (hne : f.elems ≠ []) :
    filterError ((valuesOf f.elems).bind fun l => Outcome.ok (Val.comps (some l))) = .ok () ↔ ComponentsOK f := by
  unfold ComponentsOK
  cases hv : valuesOf f.elems with
  | ok r =>
    have := (valuesOf_ok_iff _ _).mp hv
    simp only [Outcome.bind, filterError, true_iff]
    refine ⟨r, ?_, this.1, this.2⟩
    intro hr; subst hr; exact hne (by simpa using this.1)
  | err m =>
    have hf := valuesOf_err_unfiltered _ _ hv
    simp only [Outcome.bind, filterError, hf]
    simp only [Bool.false_eq_true, if_false]
    refine ⟨(fun h => by cases h), ?_⟩
    rintro ⟨l, _, h1, h2⟩
    have := (valuesOf_ok_iff f.elems l).mpr ⟨h1, h2⟩
    rw [hv] at this; cases this
  | panic s =>
    simp only [Outcome.bind, filterError]
    refine ⟨(fun h => by cases h), ?_⟩
    rintro ⟨l, _, h1, h2⟩
    have := (valuesOf_ok_iff f.elems l).mpr ⟨h1, h2⟩
    rw [hv] at this; cases this

theorem componentsOK_ne (f : SwField) (h : ComponentsOK f) : f.elems ≠ [] := by
  rcases h with ⟨l, hl, he, _⟩
  rw [he]; cases l <;> simp_all

/-! ### per-claim rules -/

def Pass (g : Getter) (c : Claims) : Prop := filterError (get g c) = .ok ()

/-- the conjunct of `Conformant` that concerns claim `g` -/
def ClaimOK : Getter → Claims → Prop
  | .profile, c => match c.prof with
    | .p1 => c.profile = none ∨ c.profile = some (.str c.canonical)
    | .p2 => c.profile = some (.str c.canonical)
  | .clientId, c => c.clientId ≠ none
  | .lifecycle, c => ∃ v, c.lifecycle = some v ∧ LifecycleOK v
  | .implId, c => ∃ b, c.implId = some b ∧ b.length = 32
  | .bootSeed, c => match c.prof with
    | .p1 => ∃ b, c.bootSeed = some b ∧ b.length = 32
    | .p2 => ∀ b, c.bootSeed = some b → 8 ≤ b.length ∧ b.length ≤ 32
  | .certRef, c => match c.prof with
    | .p1 => ∀ s, c.certRef = some s → Ean13 s ∨ Ean13p5 s
    | .p2 => ∀ s, c.certRef = some s → Ean13p5 s
  | .sw, c => match c.prof with
    | .p1 => (ComponentsOK c.sw ∧ c.noSw = none) ∨ (NoComponents c.sw ∧ c.noSw ≠ none)
    | .p2 => ComponentsOK c.sw
  | .nonce, c => ∃ n, c.nonce = some [n] ∧ HashLen n.length
  | .instId, c => ∃ b, c.instId = some b ∧ InstOK b
  | .vsi, c => ∀ s, c.vsi = some s → s ≠ []

theorem conformant_iff_all (c : Claims) : Conformant c ↔ ∀ g, ClaimOK g c := by
  unfold Conformant
  constructor
  · intro h g
    cases hp : c.prof <;> rw [hp] at h <;> obtain ⟨h1, h2, h3, h4, h5, h6, h7, h8, h9, h10⟩ := h <;>
      cases g <;> simp only [ClaimOK, hp] <;> assumption
  · intro h
    have a1 := h .profile; have a2 := h .clientId; have a3 := h .lifecycle; have a4 := h .implId
    have a5 := h .bootSeed; have a6 := h .certRef; have a7 := h .sw; have a8 := h .nonce
    have a9 := h .instId; have a10 := h .vsi
    cases hp : c.prof <;> simp only [ClaimOK, hp] at a1 a2 a3 a4 a5 a6 a7 a8 a9 a10 ⊢ <;>
      exact ⟨a1, a2, a3, a4, a5, a6, a7, a8, a9, a10⟩

theorem pass_profile (c : Claims) : Pass .profile c ↔ ClaimOK .profile c := by
  obtain ⟨prof, canonical, profile, clientId, lifecycle, implId, bootSeed, certRef, sw, noSw, nonce, instId, vsi⟩ := c
  unfold Pass ClaimOK Model.get getProfile
  simp only []
  cases prof <;> cases profile with
  | none => simp [filterError, filtered, eMissingMandatory]
  | some v =>
    cases v with
    | invalid => simp [filterError, filtered, eOther]
    | str s =>
      by_cases hs : s = canonical <;> simp [hs, filterError, filtered, eWrongProfile]

theorem pass_clientId (c : Claims) : Pass .clientId c ↔ ClaimOK .clientId c := by
  obtain ⟨prof, canonical, profile, clientId, lifecycle, implId, bootSeed, certRef, sw, noSw, nonce, instId, vsi⟩ := c
  unfold Pass ClaimOK Model.get getClientID
  simp only []
  cases clientId <;> simp [filterError, filtered, eMissingMandatory]

theorem pass_lifecycle (c : Claims) : Pass .lifecycle c ↔ ClaimOK .lifecycle c := by
  obtain ⟨prof, canonical, profile, clientId, lifecycle, implId, bootSeed, certRef, sw, noSw, nonce, instId, vsi⟩ := c
  unfold Pass ClaimOK Model.get getSecurityLifeCycle
  simp only []
  cases lifecycle with
  | none => simp [filterError, filtered, eMissingMandatory]
  | some v =>
    rcases validateLC_cases v with h | h
    · have := (validateLC_ok_iff v).mp h
      simp [h, Outcome.bind, filterError, this]
    · have : ¬ LifecycleOK v := fun hh => by
        have := (validateLC_ok_iff v).mpr hh; rw [h] at this; cases this
      simp [h, Outcome.bind, filterError, filtered, eWrongSyntax, this]

theorem pass_implId (c : Claims) : Pass .implId c ↔ ClaimOK .implId c := by
  obtain ⟨prof, canonical, profile, clientId, lifecycle, implId, bootSeed, certRef, sw, noSw, nonce, instId, vsi⟩ := c
  unfold Pass ClaimOK Model.get getImplID validateImplID
  simp only []
  cases implId with
  | none => simp [filterError, filtered, eMissingMandatory]
  | some v =>
    by_cases h : v.length = 32 <;> simp [h, Outcome.bind, filterError, filtered, eWrongSyntax]

theorem pass_bootSeed (c : Claims) : Pass .bootSeed c ↔ ClaimOK .bootSeed c := by
  obtain ⟨prof, canonical, profile, clientId, lifecycle, implId, bootSeed, certRef, sw, noSw, nonce, instId, vsi⟩ := c
  unfold Pass ClaimOK Model.get getBootSeed
  simp only []
  cases prof <;> cases bootSeed with
  | none => simp [filterError, filtered, eMissingMandatory, eMissingOptional]
  | some v =>
    simp only []
    split <;> simp_all [filterError, filtered, eWrongSyntax] <;> omega

theorem pass_certRef (c : Claims) : Pass .certRef c ↔ ClaimOK .certRef c := by
  obtain ⟨prof, canonical, profile, clientId, lifecycle, implId, bootSeed, certRef, sw, noSw, nonce, instId, vsi⟩ := c
  unfold Pass ClaimOK Model.get getCertificationReference
  simp only []
  cases prof <;> cases certRef with
  | none => simp [filterError, filtered, eMissingOptional]
  | some s =>
    simp only [← isEan13_iff, ← isEan13p5_iff]
    cases h1 : isEan13 s <;> cases h2 : isEan13p5 s <;> simp [h1, h2, filterError, filtered, eWrongSyntax]

theorem pass_sw (c : Claims) : Pass .sw c ↔ ClaimOK .sw c := by
  obtain ⟨prof, canonical, profile, clientId, lifecycle, implId, bootSeed, certRef, sw, noSw, nonce, instId, vsi⟩ := c
  unfold Pass ClaimOK Model.get getSoftwareComponents
  simp only []
  cases prof
  · -- profile 1
    simp only []
    by_cases he : sw.elems = []
    · have hn : sw.nilOrEmpty = true := by simp [SwField.nilOrEmpty, he]
      have hno : ¬ ComponentsOK sw := fun h => componentsOK_ne _ h he
      simp only [hn, if_true]
      cases noSw <;> simp [filterError, filtered, eMissingMandatory, hno, NoComponents, he]
    · have hn : sw.nilOrEmpty = false := by
        simp [SwField.nilOrEmpty, he]
      simp only [hn]
      cases noSw with
      | some n =>
        simp [filterError, filtered, eWrongSyntax, NoComponents, he]
      | none =>
        simp only [Bool.false_eq_true, if_false, values_pass_iff _ he]
        simp [NoComponents, he]
  · -- profile 2
    simp only []
    by_cases he : sw.elems = []
    · have hn : sw.nilOrEmpty = true := by simp [SwField.nilOrEmpty, he]
      have hno : ¬ ComponentsOK sw := fun h => componentsOK_ne _ h he
      simp [hn, filterError, filtered, eMissingMandatory, hno]
    · have hn : sw.nilOrEmpty = false := by
        simp [SwField.nilOrEmpty, he]
      simp only [hn, Bool.false_eq_true, if_false, values_pass_iff _ he]

theorem pass_nonce (c : Claims) : Pass .nonce c ↔ ClaimOK .nonce c := by
  obtain ⟨prof, canonical, profile, clientId, lifecycle, implId, bootSeed, certRef, sw, noSw, nonce, instId, vsi⟩ := c
  unfold Pass ClaimOK Model.get getNonce validateNonce
  simp only []
  cases nonce with
  | none => simp [filterError, filtered, eMissingMandatory]
  | some l =>
    match l with
    | [] => simp [filterError, filtered, eWrongSyntax]
    | [n] =>
      rcases validateHash_cases n with h | h
      · have := (validateHash_ok_iff n).mp h
        simp [h, Outcome.bind, filterError, this]
      · have : ¬ HashLen n.length := fun hh => by
          have := (validateHash_ok_iff n).mpr hh; rw [h] at this; cases this
        simp [h, Outcome.bind, filterError, filtered, eWrongSyntax, this]
    | a :: b :: r => simp [filterError, filtered, eWrongSyntax]

theorem pass_instId (c : Claims) : Pass .instId c ↔ ClaimOK .instId c := by
  obtain ⟨prof, canonical, profile, clientId, lifecycle, implId, bootSeed, certRef, sw, noSw, nonce, instId, vsi⟩ := c
  unfold Pass ClaimOK Model.get getInstID
  simp only []
  cases instId with
  | none => simp [filterError, filtered, eMissingMandatory]
  | some v =>
    rcases validateInstID_cases v with h | h
    · have := (validateInstID_ok_iff v).mp h
      simp [h, Outcome.bind, filterError, this]
    · have : ¬ InstOK v := fun hh => by
        have := (validateInstID_ok_iff v).mpr hh; rw [h] at this; cases this
      simp [h, Outcome.bind, filterError, filtered, eWrongSyntax, this]

theorem pass_vsi (c : Claims) : Pass .vsi c ↔ ClaimOK .vsi c := by
  obtain ⟨prof, canonical, profile, clientId, lifecycle, implId, bootSeed, certRef, sw, noSw, nonce, instId, vsi⟩ := c
  unfold Pass ClaimOK Model.get getVSI validateVSI
  simp only []
  cases vsi with
  | none => simp [filterError, filtered, eMissingOptional]
  | some v => cases v <;> simp [Outcome.bind, filterError, filtered, eWrongSyntax]

theorem pass_iff (g : Getter) (c : Claims) : Pass g c ↔ ClaimOK g c := by
  cases g
  · exact pass_profile c
  · exact pass_clientId c
  · exact pass_lifecycle c
  · exact pass_implId c
  · exact pass_bootSeed c
  · exact pass_certRef c
  · exact pass_sw c
  · exact pass_nonce c
  · exact pass_instId c
  · exact pass_vsi c

/-! ### the walk -/

theorem validateWith_ok_iff (o : List Getter) (c : Claims) :
    validateWith o c = .ok () ↔ ∀ g ∈ o, Pass g c := by
  induction o with
  | nil => simp [validateWith]
  | cons g rest ih =>
    simp only [validateWith, List.mem_cons, forall_eq_or_imp]
    unfold Pass
    cases h : filterError (get g c) with
    | ok a => simp [ih, Pass]
    | err m => simp
    | panic s => simp

end Psa.Proofs
