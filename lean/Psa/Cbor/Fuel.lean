/- Fuel-free well-formedness, and `decodeAll (enc t) = some t`. -/
import Psa.Cbor.RoundTrip
namespace Psa
namespace Cbor

mutual
/-- nesting height of a tree: the recursion depth `dec` needs -/
def height : Cbor → Nat
  | .arr xs => 1 + heightList xs
  | .map kvs => 1 + heightPairs kvs
  | .tag _ v => 1 + height v
  | _ => 1
def heightList : List Cbor → Nat
  | [] => 0
  | x :: xs => max (height x) (heightList xs)
def heightPairs : List (Cbor × Cbor) → Nat
  | [] => 0
  | (k, v) :: rest => max (max (height k) (height v)) (heightPairs rest)
end

mutual
/-- encodable and within the decoder's limits when met at nesting counter `d` -/
def OkAt (lim : Limits) : Cbor → Nat → Prop
  | .uint n, _ => n < 2 ^ 64
  | .nint n, _ => n < 2 ^ 64
  | .bstr b, _ => b.length < 2 ^ 64
  | .tstr b, _ => b.length < 2 ^ 64
  | .arr xs, d => xs.length < 2 ^ 64 ∧ d + 1 ≤ lim.maxDepth ∧ xs.length ≤ lim.maxArr ∧ OkAtList lim xs (d + 1)
  | .map kvs, d => kvs.length < 2 ^ 64 ∧ d + 1 ≤ lim.maxDepth ∧ kvs.length ≤ lim.maxMap ∧ OkAtPairs lim kvs (d + 1)
  | .tag t v, d => t < 2 ^ 64 ∧ (if isTag v then d + 1 else d) ≤ lim.maxDepth ∧ OkAt lim v (if isTag v then d + 1 else d)
  | .simple n, _ => n < 24 ∨ (32 ≤ n ∧ n < 256)
  | .f16 b, _ => b < 2 ^ 16
  | .f32 b, _ => b < 2 ^ 32
  | .f64 b, _ => b < 2 ^ 64
def OkAtList (lim : Limits) : List Cbor → Nat → Prop
  | [], _ => True
  | x :: xs, d => OkAt lim x d ∧ OkAtList lim xs d
def OkAtPairs (lim : Limits) : List (Cbor × Cbor) → Nat → Prop
  | [], _ => True
  | (k, v) :: rest, d => OkAt lim k d ∧ OkAt lim v d ∧ OkAtPairs lim rest d
end

mutual
theorem ok_of_okAt (lim : Limits) : ∀ (t : Cbor) (f d : Nat), OkAt lim t d → height t ≤ f → Ok lim t f d
  | .uint n, f, d, h, hf => by simp only [height] at hf; exact ⟨by omega, h⟩
  | .nint n, f, d, h, hf => by simp only [height] at hf; exact ⟨by omega, h⟩
  | .bstr b, f, d, h, hf => by simp only [height] at hf; exact ⟨by omega, h⟩
  | .tstr b, f, d, h, hf => by simp only [height] at hf; exact ⟨by omega, h⟩
  | .arr xs, f, d, h, hf => by
    simp only [height] at hf
    obtain ⟨h1, h2, h3, h4⟩ := h
    exact ⟨by omega, h1, h2, h3, okList_of_okAt lim xs (f - 1) (d + 1) h4 (by omega)⟩
  | .map kvs, f, d, h, hf => by
    simp only [height] at hf
    obtain ⟨h1, h2, h3, h4⟩ := h
    exact ⟨by omega, h1, h2, h3, okPairs_of_okAt lim kvs (f - 1) (d + 1) h4 (by omega)⟩
  | .tag t v, f, d, h, hf => by
    simp only [height] at hf
    obtain ⟨h1, h2, h3⟩ := h
    exact ⟨by omega, h1, h2, ok_of_okAt lim v (f - 1) _ h3 (by omega)⟩
  | .simple n, f, d, h, hf => by simp only [height] at hf; exact ⟨by omega, h⟩
  | .f16 b, f, d, h, hf => by simp only [height] at hf; exact ⟨by omega, h⟩
  | .f32 b, f, d, h, hf => by simp only [height] at hf; exact ⟨by omega, h⟩
  | .f64 b, f, d, h, hf => by simp only [height] at hf; exact ⟨by omega, h⟩
theorem okList_of_okAt (lim : Limits) : ∀ (xs : List Cbor) (f d : Nat), OkAtList lim xs d → heightList xs ≤ f →
    OkList lim xs f d
  | [], _, _, _, _ => trivial
  | x :: xs, f, d, h, hf => by
    simp only [heightList] at hf
    exact ⟨ok_of_okAt lim x f d h.1 (by omega), okList_of_okAt lim xs f d h.2 (by omega)⟩
theorem okPairs_of_okAt (lim : Limits) : ∀ (kvs : List (Cbor × Cbor)) (f d : Nat), OkAtPairs lim kvs d →
    heightPairs kvs ≤ f → OkPairs lim kvs f d
  | [], _, _, _, _ => trivial
  | (k, v) :: rest, f, d, h, hf => by
    simp only [heightPairs] at hf
    exact ⟨ok_of_okAt lim k f d h.1 (by omega), ok_of_okAt lim v f d h.2.1 (by omega),
      okPairs_of_okAt lim rest f d h.2.2 (by omega)⟩
end

theorem encHead_length_pos (mt n : Nat) : 0 < (encHead mt n).length := by
  unfold encHead; repeat' split
  all_goals simp

mutual
theorem height_le_length : ∀ t : Cbor, height t ≤ (enc t).length
  | .uint n => by simp only [height, enc]; exact encHead_length_pos 0 n
  | .nint n => by simp only [height, enc]; exact encHead_length_pos 1 n
  | .bstr b => by
    have := encHead_length_pos 2 b.length
    simp only [height, enc, List.length_append]; omega
  | .tstr b => by
    have := encHead_length_pos 3 b.length
    simp only [height, enc, List.length_append]; omega
  | .arr xs => by
    have := encHead_length_pos 4 xs.length
    have := heightList_le_length xs
    simp only [height, enc, List.length_append]; omega
  | .map kvs => by
    have := encHead_length_pos 5 kvs.length
    have := heightPairs_le_length kvs
    simp only [height, enc, List.length_append]; omega
  | .tag t v => by
    have := encHead_length_pos 6 t
    have := height_le_length v
    simp only [height, enc, List.length_append]; omega
  | .simple n => by simp only [height, enc]; split <;> simp
  | .f16 b => by simp [height, enc]
  | .f32 b => by simp [height, enc]
  | .f64 b => by simp [height, enc]
theorem heightList_le_length : ∀ xs : List Cbor, heightList xs ≤ (encList xs).length
  | [] => by simp [heightList]
  | x :: xs => by
    have := height_le_length x
    have := heightList_le_length xs
    simp only [heightList, encList, List.length_append]; omega
theorem heightPairs_le_length : ∀ kvs : List (Cbor × Cbor), heightPairs kvs ≤ (encPairs kvs).length
  | [] => by simp [heightPairs]
  | (k, v) :: rest => by
    have := height_le_length k
    have := height_le_length v
    have := heightPairs_le_length rest
    simp only [heightPairs, encPairs, List.length_append]; omega
end

/-- An encodable tree within the limits decodes back to itself, with nothing left over. -/
theorem decodeAll_enc (lim : Limits) (t : Cbor) (h : OkAt lim t 0) : decodeAll lim (enc t) = some t := by
  unfold decodeAll
  have hok : Ok lim t ((enc t).length + 1) 0 :=
    ok_of_okAt lim t _ 0 h (by have := height_le_length t; omega)
  have := dec_enc lim t _ 0 [] hok
  simp only [List.append_nil] at this
  rw [this]

theorem decodeFirst_enc (lim : Limits) (t : Cbor) (rest : Bytes) (h : OkAt lim t 0) :
    decodeFirst lim (enc t ++ rest) = some (t, rest) := by
  unfold decodeFirst
  have hok : Ok lim t ((enc t ++ rest).length + 1) 0 :=
    ok_of_okAt lim t _ 0 h (by have := height_le_length t; simp only [List.length_append]; omega)
  exact dec_enc lim t _ 0 rest hok

end Cbor
end Psa
