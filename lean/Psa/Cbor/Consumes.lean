/- The decoder returns a strict suffix of its input (termination of every loop built on it). -/
import Psa.Cbor.Basic
namespace Psa
namespace Cbor

/-- `rest` is what remains of `bs` after a non-empty prefix -/
def StrictSuffix (bs rest : Bytes) : Prop := ∃ pre, pre ≠ [] ∧ bs = pre ++ rest

def Suffix (bs rest : Bytes) : Prop := ∃ pre, bs = pre ++ rest

theorem StrictSuffix.trans_suffix {a b c : Bytes} (h1 : StrictSuffix a b) (h2 : Suffix b c) : StrictSuffix a c := by
  obtain ⟨p1, hne, rfl⟩ := h1
  obtain ⟨p2, rfl⟩ := h2
  exact ⟨p1 ++ p2, by simp [hne], by simp⟩

theorem Suffix.trans {a b c : Bytes} (h1 : Suffix a b) (h2 : Suffix b c) : Suffix a c := by
  obtain ⟨p1, rfl⟩ := h1
  obtain ⟨p2, rfl⟩ := h2
  exact ⟨p1 ++ p2, by simp⟩

theorem StrictSuffix.suffix {a b : Bytes} (h : StrictSuffix a b) : Suffix a b := by
  obtain ⟨p, _, rfl⟩ := h; exact ⟨p, rfl⟩

theorem suffix_drop (l : Bytes) (n : Nat) : Suffix l (l.drop n) := ⟨l.take n, (List.take_append_drop n l).symm⟩

theorem StrictSuffix.length_lt {a b : Bytes} (h : StrictSuffix a b) : b.length < a.length := by
  obtain ⟨p, hne, rfl⟩ := h
  cases p with
  | nil => exact absurd rfl hne
  | cons x xs => simp; omega

theorem readHead_strict (bs : Bytes) (mt ai val : Nat) (rest : Bytes) (h : readHead bs = some (mt, ai, val, rest)) :
    StrictSuffix bs rest := by
  cases bs with
  | nil => simp [readHead] at h
  | cons b tl =>
    simp only [readHead] at h
    have cons_suffix : ∀ r, Suffix tl r → StrictSuffix (b :: tl) r := by
      intro r hr; obtain ⟨p, rfl⟩ := hr; exact ⟨b :: p, by simp, by simp⟩
    split at h
    · cases h; exact cons_suffix _ ⟨[], rfl⟩
    · split at h
      · cases tl with
        | nil => simp at h
        | cons x r => simp only [Option.some.injEq, Prod.mk.injEq] at h; obtain ⟨_, _, _, rfl⟩ := h; exact cons_suffix _ ⟨[x], rfl⟩
      · split at h
        · split at h
          · cases h
          · cases h; exact cons_suffix _ (suffix_drop tl 2)
        · split at h
          · split at h
            · cases h
            · cases h; exact cons_suffix _ (suffix_drop tl 4)
          · split at h
            · split at h
              · cases h
              · cases h; exact cons_suffix _ (suffix_drop tl 8)
            · split at h
              · cases h; exact cons_suffix _ ⟨[], rfl⟩
              · cases h

theorem decSeq_suffix (f : Bytes → Option (Cbor × Bytes)) (hf : ∀ bs t r, f bs = some (t, r) → StrictSuffix bs r) :
    ∀ (n : Nat) (bs : Bytes) (xs : List Cbor) (r : Bytes), decSeq f n bs = some (xs, r) → Suffix bs r
  | 0, bs, xs, r, h => by simp [decSeq] at h; exact ⟨[], by simp [h.2]⟩
  | n + 1, bs, xs, r, h => by
    simp only [decSeq] at h
    cases hx : f bs with
    | none => simp [hx] at h
    | some p =>
      obtain ⟨x, r1⟩ := p
      simp only [hx] at h
      cases hs : decSeq f n r1 with
      | none => simp [hs] at h
      | some q =>
        obtain ⟨ys, r2⟩ := q
        simp only [hs, Option.map_some, Option.some.injEq, Prod.mk.injEq] at h
        obtain ⟨_, rfl⟩ := h
        exact (hf bs x r1 hx).suffix.trans (decSeq_suffix f hf n r1 ys r2 hs)

theorem decSeq2_suffix (f : Bytes → Option (Cbor × Bytes)) (hf : ∀ bs t r, f bs = some (t, r) → StrictSuffix bs r) :
    ∀ (n : Nat) (bs : Bytes) (xs : List (Cbor × Cbor)) (r : Bytes), decSeq2 f n bs = some (xs, r) → Suffix bs r
  | 0, bs, xs, r, h => by simp [decSeq2] at h; exact ⟨[], by simp [h.2]⟩
  | n + 1, bs, xs, r, h => by
    simp only [decSeq2] at h
    cases hk : f bs with
    | none => simp [hk] at h
    | some p =>
      obtain ⟨k, r1⟩ := p
      simp only [hk] at h
      cases hv : f r1 with
      | none => simp [hv] at h
      | some p2 =>
        obtain ⟨v, r2⟩ := p2
        simp only [hv] at h
        cases hs : decSeq2 f n r2 with
        | none => simp [hs] at h
        | some q =>
          obtain ⟨ys, r3⟩ := q
          simp only [hs, Option.map_some, Option.some.injEq, Prod.mk.injEq] at h
          obtain ⟨_, rfl⟩ := h
          exact ((hf bs k r1 hk).suffix.trans (hf r1 v r2 hv).suffix).trans (decSeq2_suffix f hf n r2 ys r3 hs)

/-- One decoded item consumes at least one byte and leaves a suffix of the input. -/
theorem dec_consumes (lim : Limits) : ∀ (fuel depth : Nat) (bs : Bytes) (t : Cbor) (rest : Bytes),
    dec lim fuel depth bs = some (t, rest) → StrictSuffix bs rest
  | 0, _, _, _, _, h => by simp [dec] at h
  | fuel + 1, depth, bs, t, rest, h => by
    simp only [dec] at h
    cases hh : readHead bs with
    | none => simp [hh] at h
    | some q =>
      obtain ⟨mt, ai, val, r0⟩ := q
      have hs0 := readHead_strict bs mt ai val r0 hh
      simp only [hh] at h
      split at h
      · cases h
      · have ih := dec_consumes lim fuel
        split at h
        · cases h; exact hs0
        · cases h; exact hs0
        · split at h
          · cases h
          · cases h; exact hs0.trans_suffix (suffix_drop _ _)
        · split at h
          · cases h
          · cases h; exact hs0.trans_suffix (suffix_drop _ _)
        · split at h
          · cases h
          · split at h
            · cases h
            · cases hs : decSeq (dec lim fuel (depth + 1)) val r0 with
              | none => simp [hs] at h
              | some q =>
                obtain ⟨xs, r⟩ := q
                simp only [hs, Option.map_some, Option.some.injEq, Prod.mk.injEq] at h
                obtain ⟨_, rfl⟩ := h
                exact hs0.trans_suffix (decSeq_suffix _ (fun b t r => ih (depth + 1) b t r) val r0 xs r hs)
        · split at h
          · cases h
          · split at h
            · cases h
            · cases hs : decSeq2 (dec lim fuel (depth + 1)) val r0 with
              | none => simp [hs] at h
              | some q =>
                obtain ⟨xs, r⟩ := q
                simp only [hs, Option.map_some, Option.some.injEq, Prod.mk.injEq] at h
                obtain ⟨_, rfl⟩ := h
                exact hs0.trans_suffix (decSeq2_suffix _ (fun b t r => ih (depth + 1) b t r) val r0 xs r hs)
        · have key : ∀ d, (if d > lim.maxDepth then none else (dec lim fuel d r0).map fun (v, r) => (Cbor.tag val v, r)) = some (t, rest) →
              StrictSuffix bs rest := by
            intro d hd
            split at hd
            · cases hd
            · cases hs : dec lim fuel d r0 with
              | none => simp [hs] at hd
              | some q =>
                obtain ⟨v, r⟩ := q
                simp only [hs, Option.map_some, Option.some.injEq, Prod.mk.injEq] at hd
                obtain ⟨_, rfl⟩ := hd
                exact hs0.trans_suffix (ih _ r0 v r hs).suffix
          exact key _ h
        · split at h
          · cases h; exact hs0
          · split at h
            · split at h
              · cases h
              · cases h; exact hs0
            · split at h
              · cases h; exact hs0
              · split at h
                · cases h; exact hs0
                · cases h; exact hs0

theorem decodeFirst_consumes (lim : Limits) (bs : Bytes) (t : Cbor) (rest : Bytes)
    (h : decodeFirst lim bs = some (t, rest)) : StrictSuffix bs rest :=
  dec_consumes lim _ 0 bs t rest h

end Cbor
end Psa
