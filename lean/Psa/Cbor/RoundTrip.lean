/- `dec ∘ enc = id` on well-formed trees within the decoder's limits. -/
import Psa.Cbor.Head
namespace Psa
namespace Cbor

def isTag : Cbor → Bool
  | .tag _ _ => true
  | _ => false

mutual
/-- `t` is encodable (arguments below 2⁶⁴, simple values in range), within the decoder's
    limits when met at nesting counter `d`, and `f` levels of recursion suffice -/
def Ok (lim : Limits) : Cbor → Nat → Nat → Prop
  | .uint n, f, _ => 0 < f ∧ n < 2 ^ 64
  | .nint n, f, _ => 0 < f ∧ n < 2 ^ 64
  | .bstr b, f, _ => 0 < f ∧ b.length < 2 ^ 64
  | .tstr b, f, _ => 0 < f ∧ b.length < 2 ^ 64
  | .arr xs, f, d => 0 < f ∧ xs.length < 2 ^ 64 ∧ d + 1 ≤ lim.maxDepth ∧ xs.length ≤ lim.maxArr ∧
      OkList lim xs (f - 1) (d + 1)
  | .map kvs, f, d => 0 < f ∧ kvs.length < 2 ^ 64 ∧ d + 1 ≤ lim.maxDepth ∧ kvs.length ≤ lim.maxMap ∧
      OkPairs lim kvs (f - 1) (d + 1)
  | .tag t v, f, d => 0 < f ∧ t < 2 ^ 64 ∧
      (if isTag v then d + 1 else d) ≤ lim.maxDepth ∧ Ok lim v (f - 1) (if isTag v then d + 1 else d)
  | .simple n, f, _ => 0 < f ∧ (n < 24 ∨ (32 ≤ n ∧ n < 256))
  | .f16 b, f, _ => 0 < f ∧ b < 2 ^ 16
  | .f32 b, f, _ => 0 < f ∧ b < 2 ^ 32
  | .f64 b, f, _ => 0 < f ∧ b < 2 ^ 64
def OkList (lim : Limits) : List Cbor → Nat → Nat → Prop
  | [], _, _ => True
  | x :: xs, f, d => Ok lim x f d ∧ OkList lim xs f d
def OkPairs (lim : Limits) : List (Cbor × Cbor) → Nat → Nat → Prop
  | [], _, _ => True
  | (k, v) :: rest, f, d => Ok lim k f d ∧ Ok lim v f d ∧ OkPairs lim rest f d
end

theorem encHead_first (mt n : Nat) (hmt : mt < 8) :
    ∃ b tl, encHead mt n = b :: tl ∧ b.toNat / 32 = mt := by
  unfold encHead
  repeat' split
  all_goals (refine ⟨_, _, rfl, ?_⟩; rw [u8]; omega)

def major : Cbor → Nat
  | .uint _ => 0 | .nint _ => 1 | .bstr _ => 2 | .tstr _ => 3 | .arr _ => 4 | .map _ => 5 | .tag _ _ => 6
  | _ => 7

theorem enc_first (v : Cbor) : ∃ b tl, enc v = b :: tl ∧ b.toNat / 32 = major v := by
  cases v with
  | uint n => simp only [enc, major]; exact encHead_first 0 n (by omega)
  | nint n => simp only [enc, major]; exact encHead_first 1 n (by omega)
  | bstr x =>
    obtain ⟨b, tl, h1, h2⟩ := encHead_first 2 x.length (by omega)
    exact ⟨b, tl ++ x, by simp [enc, h1], h2⟩
  | tstr x =>
    obtain ⟨b, tl, h1, h2⟩ := encHead_first 3 x.length (by omega)
    exact ⟨b, tl ++ x, by simp [enc, h1], h2⟩
  | arr xs =>
    obtain ⟨b, tl, h1, h2⟩ := encHead_first 4 xs.length (by omega)
    exact ⟨b, tl ++ encList xs, by simp [enc, h1], h2⟩
  | map kvs =>
    obtain ⟨b, tl, h1, h2⟩ := encHead_first 5 kvs.length (by omega)
    exact ⟨b, tl ++ encPairs kvs, by simp [enc, h1], h2⟩
  | tag t x =>
    obtain ⟨b, tl, h1, h2⟩ := encHead_first 6 t (by omega)
    exact ⟨b, tl ++ enc x, by simp [enc, h1], h2⟩
  | simple n =>
    simp only [enc, major]
    split
    · exact ⟨_, _, rfl, by rw [u8]; omega⟩
    · exact ⟨_, _, rfl, by decide⟩
  | f16 x => exact ⟨_, _, rfl, by simp [major]⟩
  | f32 x => exact ⟨_, _, rfl, by simp [major]⟩
  | f64 x => exact ⟨_, _, rfl, by simp [major]⟩

theorem startsWithTag_enc (v : Cbor) (rest : Bytes) : startsWithTag (enc v ++ rest) = isTag v := by
  obtain ⟨b, tl, h1, h2⟩ := enc_first v
  rw [h1]; simp only [List.cons_append, startsWithTag, h2]
  cases v <;> rfl

mutual
theorem dec_enc (lim : Limits) : ∀ (t : Cbor) (f d : Nat) (rest : Bytes), Ok lim t f d →
    dec lim f d (enc t ++ rest) = some (t, rest)
  | .uint n, f, d, rest, h => by
    obtain ⟨hf, hn⟩ := h
    obtain ⟨f', rfl⟩ : ∃ f', f = f' + 1 := ⟨f - 1, by omega⟩
    simp only [enc, dec, readHead_encHead 0 n rest (by omega) hn, aiOf_ne_31, if_false]
  | .nint n, f, d, rest, h => by
    obtain ⟨hf, hn⟩ := h
    obtain ⟨f', rfl⟩ : ∃ f', f = f' + 1 := ⟨f - 1, by omega⟩
    simp only [enc, dec, readHead_encHead 1 n rest (by omega) hn, aiOf_ne_31, if_false]
  | .bstr b, f, d, rest, h => by
    obtain ⟨hf, hn⟩ := h
    obtain ⟨f', rfl⟩ : ∃ f', f = f' + 1 := ⟨f - 1, by omega⟩
    simp only [enc, dec, List.append_assoc, readHead_encHead 2 b.length _ (by omega) hn, aiOf_ne_31, if_false]
    simp
  | .tstr b, f, d, rest, h => by
    obtain ⟨hf, hn⟩ := h
    obtain ⟨f', rfl⟩ : ∃ f', f = f' + 1 := ⟨f - 1, by omega⟩
    simp only [enc, dec, List.append_assoc, readHead_encHead 3 b.length _ (by omega) hn, aiOf_ne_31, if_false]
    simp
  | .arr xs, f, d, rest, h => by
    obtain ⟨hf, hn, hd, hm, hl⟩ := h
    obtain ⟨f', rfl⟩ : ∃ f', f = f' + 1 := ⟨f - 1, by omega⟩
    simp only [enc, dec, List.append_assoc, readHead_encHead 4 xs.length _ (by omega) hn, aiOf_ne_31, if_false]
    simp only [show ¬ (d + 1 > lim.maxDepth) by omega, show ¬ (xs.length > lim.maxArr) by omega, if_false]
    rw [decSeq_enc lim xs f' (d + 1) rest hl]; rfl
  | .map kvs, f, d, rest, h => by
    obtain ⟨hf, hn, hd, hm, hl⟩ := h
    obtain ⟨f', rfl⟩ : ∃ f', f = f' + 1 := ⟨f - 1, by omega⟩
    simp only [enc, dec, List.append_assoc, readHead_encHead 5 kvs.length _ (by omega) hn, aiOf_ne_31, if_false]
    simp only [show ¬ (d + 1 > lim.maxDepth) by omega, show ¬ (kvs.length > lim.maxMap) by omega, if_false]
    rw [decSeq2_enc lim kvs f' (d + 1) rest hl]; rfl
  | .tag t v, f, d, rest, h => by
    obtain ⟨hf, hn, hd, hv⟩ := h
    obtain ⟨f', rfl⟩ : ∃ f', f = f' + 1 := ⟨f - 1, by omega⟩
    simp only [enc, dec, List.append_assoc, readHead_encHead 6 t _ (by omega) hn, aiOf_ne_31, if_false,
      startsWithTag_enc]
    simp only [show ¬ ((if isTag v = true then d + 1 else d) > lim.maxDepth) by omega, if_false]
    rw [dec_enc lim v f' _ rest hv]; rfl
  | .simple n, f, d, rest, h => by
    obtain ⟨hf, hn⟩ := h
    obtain ⟨f', rfl⟩ : ∃ f', f = f' + 1 := ⟨f - 1, by omega⟩
    by_cases h24 : n < 24
    · have e1 : (224 + n) % 256 / 32 = 7 := by omega
      have e2 : (224 + n) % 256 % 32 = n := by omega
      simp [enc, dec, h24, readHead, e1, e2]
      omega
    · have hr : 32 ≤ n ∧ n < 256 := by omega
      have e3 : n % 256 = n := by omega
      simp [enc, dec, h24, readHead, e3]
      omega
  | .f16 b, f, d, rest, h => by
    obtain ⟨hf, hn⟩ := h
    obtain ⟨f', rfl⟩ : ∃ f', f = f' + 1 := ⟨f - 1, by omega⟩
    simp only [enc, dec, List.cons_append]
    rw [readHead_wide 249 _ _ 2 25 (by decide) (Or.inl ⟨rfl, rfl⟩) (beBytes_length 2 b), beNat_beBytes]
    have e3 : b % 256 ^ 2 = b := by omega
    simp [e3]
  | .f32 b, f, d, rest, h => by
    obtain ⟨hf, hn⟩ := h
    obtain ⟨f', rfl⟩ : ∃ f', f = f' + 1 := ⟨f - 1, by omega⟩
    simp only [enc, dec, List.cons_append]
    rw [readHead_wide 250 _ _ 4 26 (by decide) (Or.inr (Or.inl ⟨rfl, rfl⟩)) (beBytes_length 4 b), beNat_beBytes]
    have e3 : b % 256 ^ 4 = b := by omega
    simp [e3]
  | .f64 b, f, d, rest, h => by
    obtain ⟨hf, hn⟩ := h
    obtain ⟨f', rfl⟩ : ∃ f', f = f' + 1 := ⟨f - 1, by omega⟩
    simp only [enc, dec, List.cons_append]
    rw [readHead_wide 251 _ _ 8 27 (by decide) (Or.inr (Or.inr ⟨rfl, rfl⟩)) (beBytes_length 8 b), beNat_beBytes]
    have e3 : b % 256 ^ 8 = b := by
      have : (256:Nat) ^ 8 = 2 ^ 64 := by decide
      rw [this]; omega
    simp [e3]
theorem decSeq_enc (lim : Limits) : ∀ (xs : List Cbor) (f d : Nat) (rest : Bytes), OkList lim xs f d →
    decSeq (dec lim f d) xs.length (encList xs ++ rest) = some (xs, rest)
  | [], _, _, _, _ => rfl
  | x :: xs, f, d, rest, h => by
    obtain ⟨hx, hxs⟩ := h
    simp only [encList, List.length_cons, decSeq, List.append_assoc]
    rw [dec_enc lim x f d _ hx]
    simp only [decSeq_enc lim xs f d rest hxs]; rfl
theorem decSeq2_enc (lim : Limits) : ∀ (kvs : List (Cbor × Cbor)) (f d : Nat) (rest : Bytes), OkPairs lim kvs f d →
    decSeq2 (dec lim f d) kvs.length (encPairs kvs ++ rest) = some (kvs, rest)
  | [], _, _, _, _ => rfl
  | (k, v) :: kvs, f, d, rest, h => by
    obtain ⟨hk, hv, hr⟩ := h
    simp only [encPairs, List.length_cons, decSeq2, List.append_assoc]
    rw [dec_enc lim k f d _ hk]
    simp only []
    rw [dec_enc lim v f d _ hv]
    simp only [decSeq2_enc lim kvs f d rest hr]; rfl
end

end Cbor
end Psa
