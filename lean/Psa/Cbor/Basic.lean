/-
  CBOR data items (RFC 8949), the definite-length shortest-form encoder the
  library's encode mode produces, and the decoder of well-formed definite-length
  items with the limits of `fxamacker/cbor` v2.5.0 (valid.go): nesting depth,
  array / map sizes, reserved additional-information values, two-byte simple
  values below 32, indefinite lengths forbidden (cbor.go: IndefLengthForbidden).
  Core Lean only.
-/
import Psa.Basic
namespace Psa

inductive Cbor
  | uint (n : Nat)
  /-- the negative integer `-1 - n` -/
  | nint (n : Nat)
  | bstr (b : Bytes)
  | tstr (b : Bytes)
  | arr (xs : List Cbor)
  | map (kvs : List (Cbor × Cbor))
  | tag (t : Nat) (v : Cbor)
  /-- major type 7, values 0..23 and 32..255 (20 false, 21 true, 22 null, 23 undefined) -/
  | simple (n : Nat)
  | f16 (bits : Nat)
  | f32 (bits : Nat)
  | f64 (bits : Nat)
  deriving Repr, Inhabited

namespace Cbor

def null : Cbor := .simple 22
def undefined : Cbor := .simple 23

/-- Go-style integer value of an integer item -/
def ofInt (i : Int) : Cbor := if i ≥ 0 then .uint i.toNat else .nint (-i - 1).toNat

/-! ### encoder -/

def encHead (mt n : Nat) : Bytes :=
  if n < 24 then [UInt8.ofNat (mt * 32 + n)]
  else if n < 256 then [UInt8.ofNat (mt * 32 + 24), UInt8.ofNat n]
  else if n < 65536 then UInt8.ofNat (mt * 32 + 25) :: beBytes 2 n
  else if n < 4294967296 then UInt8.ofNat (mt * 32 + 26) :: beBytes 4 n
  else UInt8.ofNat (mt * 32 + 27) :: beBytes 8 n

mutual
def enc : Cbor → Bytes
  | .uint n => encHead 0 n
  | .nint n => encHead 1 n
  | .bstr b => encHead 2 b.length ++ b
  | .tstr b => encHead 3 b.length ++ b
  | .arr xs => encHead 4 xs.length ++ encList xs
  | .map kvs => encHead 5 kvs.length ++ encPairs kvs
  | .tag t v => encHead 6 t ++ enc v
  | .simple n => if n < 24 then [UInt8.ofNat (224 + n)] else [248, UInt8.ofNat n]
  | .f16 b => 249 :: beBytes 2 b
  | .f32 b => 250 :: beBytes 4 b
  | .f64 b => 251 :: beBytes 8 b
def encList : List Cbor → Bytes
  | [] => []
  | x :: xs => enc x ++ encList xs
def encPairs : List (Cbor × Cbor) → Bytes
  | [] => []
  | (k, v) :: rest => enc k ++ enc v ++ encPairs rest
end

/-! ### decoder -/

structure Limits where
  maxDepth : Nat := 32
  maxArr : Nat := 131072
  maxMap : Nat := 131072

/-- the head of an item: (major type, additional information, argument, rest).
    `ai = 31` is returned for the caller to judge; 28..30 and truncation fail. -/
def readHead : Bytes → Option (Nat × Nat × Nat × Bytes)
  | [] => none
  | b :: rest =>
    let mt := b.toNat / 32
    let ai := b.toNat % 32
    if ai < 24 then some (mt, ai, ai, rest)
    else if ai = 24 then
      match rest with
      | x :: r => some (mt, ai, x.toNat, r)
      | [] => none
    else if ai = 25 then
      if rest.length < 2 then none else some (mt, ai, beNat (rest.take 2), rest.drop 2)
    else if ai = 26 then
      if rest.length < 4 then none else some (mt, ai, beNat (rest.take 4), rest.drop 4)
    else if ai = 27 then
      if rest.length < 8 then none else some (mt, ai, beNat (rest.take 8), rest.drop 8)
    else if ai = 31 then some (mt, 31, 0, rest)
    else none

/-- `n` items in sequence with item decoder `f` -/
def decSeq (f : Bytes → Option (Cbor × Bytes)) : Nat → Bytes → Option (List Cbor × Bytes)
  | 0, bs => some ([], bs)
  | n + 1, bs =>
    match f bs with
    | none => none
    | some (x, r) => (decSeq f n r).map fun (xs, r') => (x :: xs, r')

/-- `n` key/value pairs in sequence -/
def decSeq2 (f : Bytes → Option (Cbor × Bytes)) : Nat → Bytes → Option (List (Cbor × Cbor) × Bytes)
  | 0, bs => some ([], bs)
  | n + 1, bs =>
    match f bs with
    | none => none
    | some (k, r) =>
      match f r with
      | none => none
      | some (v, r') => (decSeq2 f n r').map fun (kvs, r'') => ((k, v) :: kvs, r'')

def startsWithTag : Bytes → Bool
  | b :: _ => b.toNat / 32 == 6
  | [] => false

/-- one data item; `fuel` bounds the nesting of the recursion (any value ≥ input length
    suffices), `depth` is the library's nesting counter: +1 per array / map, and +1 per tag
    that is directly nested in a tag -/
def dec (lim : Limits) : Nat → Nat → Bytes → Option (Cbor × Bytes)
  | 0, _, _ => none
  | fuel + 1, depth, bs =>
    match readHead bs with
    | none => none
    | some (mt, ai, val, rest) =>
      if ai = 31 then none   -- indefinite lengths are forbidden; a stray break is malformed
      else
      match mt with
      | 0 => some (.uint val, rest)
      | 1 => some (.nint val, rest)
      | 2 => if rest.length < val then none else some (.bstr (rest.take val), rest.drop val)
      | 3 => if rest.length < val then none else some (.tstr (rest.take val), rest.drop val)
      | 4 =>
        if depth + 1 > lim.maxDepth then none
        else if val > lim.maxArr then none
        else (decSeq (dec lim fuel (depth + 1)) val rest).map fun (xs, r) => (.arr xs, r)
      | 5 =>
        if depth + 1 > lim.maxDepth then none
        else if val > lim.maxMap then none
        else (decSeq2 (dec lim fuel (depth + 1)) val rest).map fun (kvs, r) => (.map kvs, r)
      | 6 =>
        let d' := if startsWithTag rest then depth + 1 else depth
        if d' > lim.maxDepth then none
        else (dec lim fuel d' rest).map fun (v, r) => (.tag val v, r)
      | _ =>
        if ai < 24 then some (.simple val, rest)
        else if ai = 24 then (if val < 32 then none else some (.simple val, rest))
        else if ai = 25 then some (.f16 val, rest)
        else if ai = 26 then some (.f32 val, rest)
        else some (.f64 val, rest)

/-- a complete item with nothing after it (`Unmarshal`) -/
def decodeAll (lim : Limits) (bs : Bytes) : Option Cbor :=
  match dec lim (bs.length + 1) 0 bs with
  | some (t, []) => some t
  | _ => none

/-- the first item and the remaining bytes (`UnmarshalFirst`) -/
def decodeFirst (lim : Limits) (bs : Bytes) : Option (Cbor × Bytes) := dec lim (bs.length + 1) 0 bs

end Cbor
end Psa
