import Psa.Cbor.Consumes
namespace Psa
namespace Cbor

theorem Suffix.length_le {a b : Bytes} (h : Suffix a b) : b.length ≤ a.length := by
  obtain ⟨p, rfl⟩ := h; simp

/-- if every successful element decode of `g` is reproduced by `g'` whenever `g'`'s budget covers what the element
    consumed, a successful sequence decode of `g` is reproduced by `g'` when the budget covers the whole sequence -/
theorem decSeq_enough (g g' : Bytes → Option (Cbor × Bytes)) (budget : Nat)
    (hg : ∀ bs t r, g bs = some (t, r) → StrictSuffix bs r)
    (h : ∀ bs t r, g bs = some (t, r) → bs.length - r.length ≤ budget → g' bs = some (t, r)) :
    ∀ (n : Nat) (bs : Bytes) (xs : List Cbor) (r : Bytes), decSeq g n bs = some (xs, r) →
      bs.length - r.length ≤ budget → decSeq g' n bs = some (xs, r)
  | 0, _, _, _, hh, _ => hh
  | n + 1, bs, xs, r, hh, hb => by
    simp only [decSeq] at hh ⊢
    cases hx : g bs with
    | none => simp [hx] at hh
    | some p =>
      obtain ⟨x, r1⟩ := p
      simp only [hx] at hh
      cases hs : decSeq g n r1 with
      | none => simp [hs] at hh
      | some q =>
        obtain ⟨ys, r2⟩ := q
        simp only [hs, Option.map_some, Option.some.injEq, Prod.mk.injEq] at hh
        obtain ⟨rfl, rfl⟩ := hh
        have l1 := (hg bs x r1 hx).length_lt
        have l2 := (decSeq_suffix g hg n r1 ys r2 hs).length_le
        rw [h bs x r1 hx (by omega)]
        simp only []
        rw [decSeq_enough g g' budget hg h n r1 ys r2 hs (by omega)]
        rfl

theorem decSeq2_enough (g g' : Bytes → Option (Cbor × Bytes)) (budget : Nat)
    (hg : ∀ bs t r, g bs = some (t, r) → StrictSuffix bs r)
    (h : ∀ bs t r, g bs = some (t, r) → bs.length - r.length ≤ budget → g' bs = some (t, r)) :
    ∀ (n : Nat) (bs : Bytes) (xs : List (Cbor × Cbor)) (r : Bytes), decSeq2 g n bs = some (xs, r) →
      bs.length - r.length ≤ budget → decSeq2 g' n bs = some (xs, r)
  | 0, _, _, _, hh, _ => hh
  | n + 1, bs, xs, r, hh, hb => by
    simp only [decSeq2] at hh ⊢
    cases hk : g bs with
    | none => simp [hk] at hh
    | some p =>
      obtain ⟨k, r1⟩ := p
      simp only [hk] at hh
      cases hv : g r1 with
      | none => simp [hv] at hh
      | some p2 =>
        obtain ⟨v, r2⟩ := p2
        simp only [hv] at hh
        cases hs : decSeq2 g n r2 with
        | none => simp [hs] at hh
        | some q =>
          obtain ⟨ys, r3⟩ := q
          simp only [hs, Option.map_some, Option.some.injEq, Prod.mk.injEq] at hh
          obtain ⟨rfl, rfl⟩ := hh
          have l1 := (hg bs k r1 hk).length_lt
          have l2 := (hg r1 v r2 hv).length_lt
          have l3 := (decSeq2_suffix g hg n r2 ys r3 hs).length_le
          rw [h bs k r1 hk (by omega)]
          simp only []
          rw [h r1 v r2 hv (by omega)]
          simp only []
          rw [decSeq2_enough g g' budget hg h n r2 ys r3 hs (by omega)]
          rfl

/-- a successful decode never needs more fuel than the number of bytes it consumes -/
theorem dec_fuel_enough (lim : Limits) : ∀ (F d : Nat) (bs : Bytes) (t : Cbor) (rest : Bytes),
    dec lim F d bs = some (t, rest) → ∀ f, bs.length - rest.length ≤ f → dec lim f d bs = some (t, rest)
  | 0, _, _, _, _, h, _, _ => by simp [dec] at h
  | F + 1, d, bs, t, rest, h, f, hf => by
    have ih := dec_fuel_enough lim F
    have hcons := (dec_consumes lim (F + 1) d bs t rest h).length_lt
    cases f with
    | zero => omega
    | succ f =>
      rw [dec] at h
      rw [dec]
      cases hh : readHead bs with
      | none => simp [hh] at h
      | some q =>
        obtain ⟨mt, ai, val, r0⟩ := q
        have hs0 := (readHead_strict bs mt ai val r0 hh).length_lt
        simp only [hh] at h ⊢
        by_cases h31 : ai = 31
        · simp [h31] at h
        · simp only [h31, if_false] at h ⊢
          split at h
          · exact h
          · exact h
          · exact h
          · exact h
          · split at h
            · cases h
            · rename_i hd
              split at h
              · cases h
              · rename_i hm
                simp only [hd, hm, if_false]
                cases hs : decSeq (dec lim F (d + 1)) val r0 with
                | none => simp [hs] at h
                | some q =>
                  obtain ⟨xs, r⟩ := q
                  simp only [hs, Option.map_some, Option.some.injEq, Prod.mk.injEq] at h
                  obtain ⟨rfl, rfl⟩ := h
                  rw [decSeq_enough (dec lim F (d + 1)) (dec lim f (d + 1)) f
                    (fun b t r hr => dec_consumes lim F (d + 1) b t r hr)
                    (fun b t r hr hb => ih (d + 1) b t r hr f hb) val r0 xs r hs (by omega)]
                  rfl
          · split at h
            · cases h
            · rename_i hd
              split at h
              · cases h
              · rename_i hm
                simp only [hd, hm, if_false]
                cases hs : decSeq2 (dec lim F (d + 1)) val r0 with
                | none => simp [hs] at h
                | some q =>
                  obtain ⟨xs, r⟩ := q
                  simp only [hs, Option.map_some, Option.some.injEq, Prod.mk.injEq] at h
                  obtain ⟨rfl, rfl⟩ := h
                  rw [decSeq2_enough (dec lim F (d + 1)) (dec lim f (d + 1)) f
                    (fun b t r hr => dec_consumes lim F (d + 1) b t r hr)
                    (fun b t r hr hb => ih (d + 1) b t r hr f hb) val r0 xs r hs (by omega)]
                  rfl
          · have key : ∀ d', (if d' > lim.maxDepth then none else (dec lim F d' r0).map fun (v, r) => (Cbor.tag val v, r)) = some (t, rest) →
                (if d' > lim.maxDepth then none else (dec lim f d' r0).map fun (v, r) => (Cbor.tag val v, r)) = some (t, rest) := by
              intro d' hd
              split at hd
              · cases hd
              · rename_i hdd
                simp only [hdd, if_false]
                cases hs : dec lim F d' r0 with
                | none => simp [hs] at hd
                | some q =>
                  obtain ⟨v, r⟩ := q
                  simp only [hs, Option.map_some, Option.some.injEq, Prod.mk.injEq] at hd
                  obtain ⟨rfl, rfl⟩ := hd
                  rw [ih d' r0 v r hs f (by omega)]
                  rfl
            exact key _ h
          · exact h

/-- **the fuel of the model's decoder never binds**: decoding with the fuel the model uses (`length + 1`) gives the same
    answer as decoding with any larger amount -/
theorem dec_fuel_irrelevant (lim : Limits) (d : Nat) (bs : Bytes) (F : Nat) (hF : bs.length + 1 ≤ F) :
    dec lim F d bs = dec lim (bs.length + 1) d bs := by
  cases h1 : dec lim F d bs with
  | some r =>
    obtain ⟨t, rest⟩ := r
    exact (dec_fuel_enough lim F d bs t rest h1 (bs.length + 1) (by omega)).symm
  | none =>
    cases h2 : dec lim (bs.length + 1) d bs with
    | none => rfl
    | some r =>
      obtain ⟨t, rest⟩ := r
      have := dec_fuel_enough lim (bs.length + 1) d bs t rest h2 F (by omega)
      rw [h1] at this; cases this

end Cbor
end Psa
