/- Head arithmetic: big-endian bytes, `readHead ∘ encHead`. -/
import Psa.Cbor.Basic
namespace Psa
open Cbor

theorem beNat_append_single (a : Bytes) (b : UInt8) : beNat (a ++ [b]) = beNat a * 256 + b.toNat := by
  simp [beNat, List.foldl_append]

theorem beBytes_length (k n : Nat) : (beBytes k n).length = k := by
  induction k generalizing n with
  | zero => rfl
  | succ k ih => simp [beBytes, ih]

theorem beNat_beBytes (k n : Nat) : beNat (beBytes k n) = n % 256 ^ k := by
  induction k generalizing n with
  | zero => simp [beBytes, beNat, Nat.mod_one]
  | succ k ih =>
    simp only [beBytes, beNat_append_single, ih, UInt8.toNat_ofNat']
    have h8 : (2:Nat) ^ 8 = 256 := by decide
    rw [h8, Nat.pow_succ, Nat.mul_comm (256 ^ k) 256, Nat.mod_mul]
    omega

theorem take_append_len {α} (a b : List α) (k : Nat) (h : a.length = k) : (a ++ b).take k = a := by
  subst h; simp
theorem drop_append_len {α} (a b : List α) (k : Nat) (h : a.length = k) : (a ++ b).drop k = b := by
  subst h; simp

namespace Cbor

/-- additional-information value the shortest-form encoder uses for argument `n` -/
def aiOf (n : Nat) : Nat :=
  if n < 24 then n else if n < 256 then 24 else if n < 65536 then 25 else if n < 4294967296 then 26 else 27

theorem aiOf_ne_31 (n : Nat) : aiOf n ≠ 31 := by
  unfold aiOf; repeat' split
  all_goals omega

theorem u8 (n : Nat) : (UInt8.ofNat n).toNat = n % 256 := by simp

theorem readHead_wide (b : UInt8) (body rest : Bytes) (k ai : Nat) (hai : b.toNat % 32 = ai)
    (hk : (ai = 25 ∧ k = 2) ∨ (ai = 26 ∧ k = 4) ∨ (ai = 27 ∧ k = 8)) (hl : body.length = k) :
    readHead (b :: (body ++ rest)) = some (b.toNat / 32, ai, beNat body, rest) := by
  rcases hk with ⟨h1, h2⟩ | ⟨h1, h2⟩ | ⟨h1, h2⟩ <;> subst h1 <;> subst h2 <;>
    simp only [readHead, hai] <;>
    simp [take_append_len _ _ _ hl, drop_append_len _ _ _ hl] <;> omega

theorem readHead_encHead (mt n : Nat) (rest : Bytes) (hmt : mt < 8) (hn : n < 2 ^ 64) :
    readHead (encHead mt n ++ rest) = some (mt, aiOf n, n, rest) := by
  unfold encHead aiOf
  by_cases h1 : n < 24
  · have e1 : (mt * 32 + n) % 256 / 32 = mt := by omega
    have e2 : (mt * 32 + n) % 256 % 32 = n := by omega
    simp [h1, readHead, e1, e2]
  by_cases h2 : n < 256
  · have e1 : (mt * 32 + 24) % 256 / 32 = mt := by omega
    have e2 : (mt * 32 + 24) % 256 % 32 = 24 := by omega
    have e3 : n % 256 = n := by omega
    simp [h1, h2, readHead, e1, e2, e3]
  by_cases h3 : n < 65536
  · simp only [h1, h2, h3, if_false, if_true, List.cons_append]
    rw [readHead_wide _ _ _ 2 25 (by rw [u8]; omega) (Or.inl ⟨rfl, rfl⟩) (beBytes_length 2 n), beNat_beBytes, u8]
    have e1 : (mt * 32 + 25) % 256 / 32 = mt := by omega
    have e3 : n % 256 ^ 2 = n := by omega
    rw [e1, e3]
  by_cases h4 : n < 4294967296
  · simp only [h1, h2, h3, h4, if_false, if_true, List.cons_append]
    rw [readHead_wide _ _ _ 4 26 (by rw [u8]; omega) (Or.inr (Or.inl ⟨rfl, rfl⟩)) (beBytes_length 4 n), beNat_beBytes, u8]
    have e1 : (mt * 32 + 26) % 256 / 32 = mt := by omega
    have e3 : n % 256 ^ 4 = n := by omega
    rw [e1, e3]
  · simp only [h1, h2, h3, h4, if_false, List.cons_append]
    rw [readHead_wide _ _ _ 8 27 (by rw [u8]; omega) (Or.inr (Or.inr ⟨rfl, rfl⟩)) (beBytes_length 8 n), beNat_beBytes, u8]
    have e1 : (mt * 32 + 27) % 256 / 32 = mt := by omega
    have e3 : n % 256 ^ 8 = n := by
      have : (256:Nat) ^ 8 = 2 ^ 64 := by decide
      rw [this]; omega
    rw [e1, e3]

end Cbor
end Psa
