/-
  Psa.Basic — conventions shared by the whole model (DESIGN.md §3).
  Core Lean only: this file is linked into the `psadriver` executable.
-/
namespace Psa

abbrev Bytes := List UInt8

/-- The five sentinel errors of `errors.go`, as bits of a mask:
    bit i set  ⇔  `errors.Is(e, sentinelᵢ)`.  Mask 0 = an error none of the
    sentinels classifies. -/
inductive Sentinel
  | missingOptional | missingMandatory | notInProfile | wrongProfile | wrongSyntax
  deriving DecidableEq, Repr

def Sentinel.bit : Sentinel → Nat
  | .missingOptional => 1
  | .missingMandatory => 2
  | .notInProfile => 4
  | .wrongProfile => 8
  | .wrongSyntax => 16

abbrev ErrMask := Nat

def eMissingOptional : ErrMask := 1
def eMissingMandatory : ErrMask := 2
def eNotInProfile : ErrMask := 4
def eWrongProfile : ErrMask := 8
def eWrongSyntax : ErrMask := 16
def eOther : ErrMask := 0

/-- Result of a Go call: a value, an error (abstracted to what `errors.Is`
    observes), or a run-time panic at a named site. -/
inductive Outcome (α : Type) where
  | ok (a : α)
  | err (m : ErrMask)
  | panic (site : String)
  deriving DecidableEq, Repr

namespace Outcome
def isOk {α} : Outcome α → Bool
  | ok _ => true
  | _ => false
def isErr {α} : Outcome α → Bool
  | err _ => true
  | _ => false
def isPanic {α} : Outcome α → Bool
  | panic _ => true
  | _ => false
def bind {α β} (x : Outcome α) (f : α → Outcome β) : Outcome β :=
  match x with
  | ok a => f a
  | err m => err m
  | panic s => panic s
def map {α β} (f : α → β) (x : Outcome α) : Outcome β :=
  match x with
  | ok a => ok (f a)
  | err m => err m
  | panic s => panic s
instance : Monad Outcome where
  pure := ok
  bind := bind
def void {α} (x : Outcome α) : Outcome Unit := x.map (fun _ => ())
end Outcome

/-! ### Go's partial operations, explicit (DESIGN §3.1) -/

/-- `l[i]` -/
def idx (site : String) (l : Bytes) (i : Nat) : Outcome UInt8 :=
  match l[i]? with
  | some b => .ok b
  | none => .panic site

/-- `l[lo:]` -/
def sliceFrom (site : String) (l : Bytes) (lo : Nat) : Outcome Bytes :=
  if lo ≤ l.length then .ok (l.drop lo) else .panic site

/-- `l[:hi]` (with `hi ≤ len`, as for a slice whose cap = len) -/
def sliceTo (site : String) (l : Bytes) (hi : Nat) : Outcome Bytes :=
  if hi ≤ l.length then .ok (l.take hi) else .panic site

/-! ### hex / text helpers for the line protocol -/

def hexDigit (n : Nat) : Char :=
  if n < 10 then Char.ofNat (48 + n) else Char.ofNat (87 + n)

def hexOfByte (b : UInt8) : String :=
  String.ofList [hexDigit (b.toNat / 16), hexDigit (b.toNat % 16)]

def hexOf (bs : Bytes) : String :=
  String.join (bs.map hexOfByte)

def hexVal? (c : Char) : Option Nat :=
  if '0' ≤ c ∧ c ≤ '9' then some (c.toNat - 48)
  else if 'a' ≤ c ∧ c ≤ 'f' then some (c.toNat - 87)
  else if 'A' ≤ c ∧ c ≤ 'F' then some (c.toNat - 55)
  else none

def unhexAux : List Char → Bytes → Option Bytes
  | [], acc => some acc.reverse
  | [_], _ => none
  | a :: b :: rest, acc =>
    match hexVal? a, hexVal? b with
    | some x, some y => unhexAux rest (UInt8.ofNat (x * 16 + y) :: acc)
    | _, _ => none

def unhex? (s : String) : Option Bytes := unhexAux s.toList []

def strBytes (s : String) : Bytes := s.toList.flatMap String.utf8EncodeChar

end Psa

namespace Psa
/-- big-endian value of a byte string -/
def beNat (bs : Bytes) : Nat := bs.foldl (fun acc b => acc * 256 + b.toNat) 0

/-- `k`-byte big-endian representation of `n` (low `8k` bits) -/
def beBytes : Nat → Nat → Bytes
  | 0, _ => []
  | k + 1, n => beBytes k (n / 256) ++ [UInt8.ofNat (n % 256)]
end Psa
