/-
  Spec for C11: the abstract "last accepted value per claim" state of a setter
  history, and the canonical claims-set of such a state.
-/
import Psa.Model.Setters
import Psa.Spec.Conformant
namespace Psa.Spec
open Psa Psa.Model

/-- the claim a setter operation writes -/
def claimOf : SetOp → Getter
  | .clientId _ => .clientId | .lifecycle _ => .lifecycle | .implId _ => .implId
  | .bootSeed _ => .bootSeed | .certRef _ => .certRef | .sw _ => .sw
  | .nonce _ => .nonce | .instId _ => .instId | .vsi _ => .vsi

/-- the unconditional assignment of the operation's value (what a decoder would store) -/
def assign (c : Claims) : SetOp → Claims
  | .clientId v => { c with clientId := some v }
  | .lifecycle v => { c with lifecycle := some v }
  | .implId b => { c with implId := some b }
  | .bootSeed b => { c with bootSeed := some b }
  | .certRef s => { c with certRef := some s }
  | .sw none => match c.prof with
    | .p1 => { c with noSw := some 1, sw := .nilIface }
    | .p2 => { c with sw := .cont (some []) }
  | .sw (some l) => match c.prof with
    | .p1 => { c with sw := .cont (some (l.map some)), noSw := none }
    | .p2 => { c with sw := .cont (some (l.map some)) }
  | .nonce b => { c with nonce := some [b] }
  | .instId b => { c with instId := some b }
  | .vsi s => { c with vsi := some s }

/-- the value the matching getter must return after a successful (non-clearing) set -/
def valOf : SetOp → Val
  | .clientId v => .int v | .lifecycle v => .nat v | .implId b => .bytes b | .bootSeed b => .bytes b
  | .certRef s => .text s | .sw none => .comps none | .sw (some l) => .comps (some l)
  | .nonce b => .bytes b | .instId b => .bytes b | .vsi s => .text s

/-- a hash-typed byte string -/
def hashOK (b : Bytes) : Bool := b.length == 32 || b.length == 48 || b.length == 64

def compOK (sc : SwComp) : Bool :=
  (match sc.mval with | some b => hashOK b | none => false) &&
  (match sc.signer with | some b => hashOK b | none => false)

/-- does the setter of profile `p` accept the value?  (declarative, no reference to the claims-set) -/
def accepts (p : Prof) : SetOp → Bool
  | .clientId _ => true
  | .lifecycle v => decide (Spec.state v ≠ .invalid)
  | .implId b => b.length == 32
  | .bootSeed b => match p with
    | .p1 => b.length == 32
    | .p2 => decide (8 ≤ b.length ∧ b.length ≤ 32)
  | .certRef s => match p with
    | .p1 => isEan13 s || isEan13p5 s
    | .p2 => isEan13p5 s
  | .sw none => (match p with | .p1 => true | .p2 => false)
  | .sw (some l) => l.all compOK
  | .nonce b => hashOK b
  | .instId b => b.length == 33 && b.head? == some 1
  | .vsi s => !s.isEmpty

/-- last accepted value per claim (`sw`: `some none` = the nil list, `some (some l)` = a list) -/
structure Vals where
  clientId : Option Int := none
  lifecycle : Option Nat := none
  implId : Option Bytes := none
  bootSeed : Option Bytes := none
  certRef : Option Bytes := none
  sw : Option (Option (List SwComp)) := none
  nonce : Option Bytes := none
  instId : Option Bytes := none
  vsi : Option Bytes := none
  deriving DecidableEq, Repr

def Vals.set (v : Vals) : SetOp → Vals
  | .clientId x => { v with clientId := some x }
  | .lifecycle x => { v with lifecycle := some x }
  | .implId x => { v with implId := some x }
  | .bootSeed x => { v with bootSeed := some x }
  | .certRef x => { v with certRef := some x }
  | .sw x => { v with sw := some x }
  | .nonce x => { v with nonce := some x }
  | .instId x => { v with instId := some x }
  | .vsi x => { v with vsi := some x }

def Vals.upd (p : Prof) (v : Vals) (op : SetOp) : Vals :=
  if accepts p op then v.set op else v

/-- the abstract state after a history: per claim, the last value whose setter succeeded -/
def lastOk (p : Prof) (ops : List SetOp) : Vals := ops.foldl (Vals.upd p) {}

/-- the canonical claims-set holding exactly these values (a fresh object with each value set once) -/
def canon (p : Prof) (v : Vals) : Claims :=
  let c := Claims.new p
  let c := { c with clientId := v.clientId, lifecycle := v.lifecycle, implId := v.implId, bootSeed := v.bootSeed,
                    certRef := v.certRef, nonce := v.nonce.map (fun b => [b]), instId := v.instId, vsi := v.vsi }
  match v.sw with
  | none => c
  | some none => (match p with
    | .p1 => { c with noSw := some 1, sw := .nilIface }
    | .p2 => { c with sw := .cont (some []) })
  | some (some l) => { c with sw := .cont (some (l.map some)), noSw := none }

end Psa.Spec

namespace Psa.Model
/-- a nil container interface and a container holding a nil slice are indistinguishable
    through getters, validation and both encodings -/
def SwField.norm : SwField → SwField
  | .nilIface => .cont none
  | f => f
def Claims.normalize (c : Claims) : Claims := { c with sw := c.sw.norm }
end Psa.Model
