/-
  Spec for C01: what it means for a claims-set to satisfy its profile's rules,
  stated declaratively (no reference to getters, validators or their order).
-/
import Psa.Model.Claims
import Psa.Spec.Lifecycle
namespace Psa.Spec
open Psa Psa.Model

def HashLen (n : Nat) : Prop := n = 32 ∨ n = 48 ∨ n = 64

def AllDigits (s : Bytes) : Prop := ∀ b ∈ s, 48 ≤ b.toNat ∧ b.toNat ≤ 57

/-- EAN-13: exactly thirteen ASCII digits -/
def Ean13 (s : Bytes) : Prop := s.length = 13 ∧ AllDigits s

/-- EAN-13+5: thirteen digits, a hyphen, five digits -/
def Ean13p5 (s : Bytes) : Prop :=
  ∃ a b, s = a ++ 45 :: b ∧ a.length = 13 ∧ b.length = 5 ∧ AllDigits a ∧ AllDigits b

def LifecycleOK (v : Nat) : Prop := Spec.state v ≠ .invalid

/-- instance id: 33 bytes, UEID type RAND (0x01) -/
def InstOK (b : Bytes) : Prop := b.length = 33 ∧ b.head? = some 1

/-- a well-formed software component: both mandatory hashes present and of hash size -/
def CompOK (sc : SwComp) : Prop :=
  (∃ b, sc.mval = some b ∧ HashLen b.length) ∧ (∃ b, sc.signer = some b ∧ HashLen b.length)

/-- at least one component, none nil, each well-formed -/
def ComponentsOK (f : SwField) : Prop :=
  ∃ l : List SwComp, l ≠ [] ∧ f.elems = l.map some ∧ ∀ sc ∈ l, CompOK sc

def NoComponents (f : SwField) : Prop := f.elems = []

def Conformant (c : Claims) : Prop :=
  match c.prof with
  | .p1 =>
    (c.profile = none ∨ c.profile = some (.str c.canonical)) ∧
    c.clientId ≠ none ∧
    (∃ v, c.lifecycle = some v ∧ LifecycleOK v) ∧
    (∃ b, c.implId = some b ∧ b.length = 32) ∧
    (∃ b, c.bootSeed = some b ∧ b.length = 32) ∧
    (∀ s, c.certRef = some s → Ean13 s ∨ Ean13p5 s) ∧
    ((ComponentsOK c.sw ∧ c.noSw = none) ∨ (NoComponents c.sw ∧ c.noSw ≠ none)) ∧
    (∃ n, c.nonce = some [n] ∧ HashLen n.length) ∧
    (∃ b, c.instId = some b ∧ InstOK b) ∧
    (∀ s, c.vsi = some s → s ≠ [])
  | .p2 =>
    c.profile = some (.str c.canonical) ∧
    c.clientId ≠ none ∧
    (∃ v, c.lifecycle = some v ∧ LifecycleOK v) ∧
    (∃ b, c.implId = some b ∧ b.length = 32) ∧
    (∀ b, c.bootSeed = some b → 8 ≤ b.length ∧ b.length ≤ 32) ∧
    (∀ s, c.certRef = some s → Ean13p5 s) ∧
    ComponentsOK c.sw ∧
    (∃ n, c.nonce = some [n] ∧ HashLen n.length) ∧
    (∃ b, c.instId = some b ∧ InstOK b) ∧
    (∀ s, c.vsi = some s → s ≠ [])

/-- which claims are mandatory in which profile -/
def Mandatory : Prof → Getter → Bool
  | _, .certRef => false
  | _, .vsi => false
  | .p2, .bootSeed => false
  | _, _ => true

/-- per-claim rule on a value a getter returned -/
def ConformantVal (p : Prof) (canonical : Bytes) : Getter → Val → Prop
  | .profile, .text s => s = canonical
  | .clientId, .int _ => True
  | .lifecycle, .nat v => LifecycleOK v
  | .implId, .bytes b => b.length = 32
  | .bootSeed, .bytes b => match p with | .p1 => b.length = 32 | .p2 => 8 ≤ b.length ∧ b.length ≤ 32
  | .certRef, .text s => match p with | .p1 => Ean13 s ∨ Ean13p5 s | .p2 => Ean13p5 s
  | .sw, .comps none => p = .p1
  | .sw, .comps (some l) => l ≠ [] ∧ ∀ sc ∈ l, CompOK sc
  | .nonce, .bytes b => HashLen b.length
  | .instId, .bytes b => InstOK b
  | .vsi, .text s => s ≠ []
  | _, _ => False

end Psa.Spec
