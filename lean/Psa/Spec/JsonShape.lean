/-
  Spec for C12's shape clause: the documented JSON form of a claims-set — one
  member per claim that is set, documented member names, base64 text for byte
  strings, numbers for integers, component objects likewise.
-/
import Psa.Model.Json
import Psa.Spec.Wire
namespace Psa.Spec
open Psa Psa.Model

inductive CField | mtype | mval | version | signer | mdesc
  deriving DecidableEq, Repr

/-- documented member names of a software component -/
def CField.name : CField → Bytes
  | .mtype => jn "measurement-type" | .mval => jn "measurement-value" | .version => jn "version"
  | .signer => jn "signer-id" | .mdesc => jn "measurement-description"

def CField.all : List CField := [.mtype, .mval, .version, .signer, .mdesc]

def compJsonVal (sc : SwComp) : CField → Option Json
  | .mtype => sc.mtype.map .str
  | .mval => sc.mval.map jBytes
  | .version => sc.version.map .str
  | .signer => sc.signer.map jBytes
  | .mdesc => sc.mdesc.map .str

def compJson (sc : SwComp) : Json :=
  .obj (CField.all.filterMap fun f => (compJsonVal sc f).map fun v => (f.name, v))

inductive JField | profile | clientId | lifecycle | implId | bootSeed | certRef | sw | noSw | nonce | instId | vsi
  deriving DecidableEq, Repr

/-- documented member names, per profile -/
def JField.name (p : Prof) : JField → Bytes
  | .profile => (match p with | .p1 => jn "psa-profile" | .p2 => jn "eat-profile")
  | .clientId => jn "psa-client-id"
  | .lifecycle => jn "psa-security-lifecycle"
  | .implId => jn "psa-implementation-id"
  | .bootSeed => jn "psa-boot-seed"
  | .certRef => (match p with | .p1 => jn "psa-hwver" | .p2 => jn "psa-certification-reference")
  | .sw => jn "psa-software-components"
  | .noSw => jn "psa-no-software-measurements"
  | .nonce => jn "psa-nonce"
  | .instId => jn "psa-instance-id"
  | .vsi => jn "psa-verification-service-indicator"

def JField.of : Prof → List JField
  | .p1 => [.profile, .clientId, .lifecycle, .implId, .bootSeed, .certRef, .sw, .noSw, .nonce, .instId, .vsi]
  | .p2 => [.profile, .clientId, .lifecycle, .implId, .bootSeed, .certRef, .sw, .nonce, .instId, .vsi]

/-- claim `f` of `c` in JSON; `none` = the claim is not set -/
def jsonVal (c : Claims) : JField → Option Json
  | .profile => (match c.profile with | some (.str s) => some (.str s) | _ => none)
  | .clientId => c.clientId.map .int
  | .lifecycle => c.lifecycle.map fun v => .int v
  | .implId => c.implId.map jBytes
  | .bootSeed => c.bootSeed.map jBytes
  | .certRef => c.certRef.map .str
  | .sw => if c.sw.elems.isEmpty then none else some (.arr ((heldComps c.sw).map compJson))
  | .noSw => c.noSw.map fun v => .int v
  | .nonce => (match c.nonce with
    | some [b] => some (jBytes b)
    | some (a :: b :: r) => some (.arr ((a :: b :: r).map jBytes))
    | _ => none)
  | .instId => c.instId.map jBytes
  | .vsi => c.vsi.map .str

def jsonMembers (c : Claims) : List (Bytes × Json) :=
  (JField.of c.prof).filterMap fun f => (jsonVal c f).map fun v => (f.name c.prof, v)

def jsonDoc (c : Claims) : Json := .obj (jsonMembers c)

end Psa.Spec
