/-
  Spec for C14: the PSA security-lifecycle table, stated by the high byte of
  the 16-bit claim value — no reference to how the code computes it.
-/
namespace Psa.Spec

inductive LState
  | unknown | assemblyAndTest | psaRotProvisioning | secured
  | nonPsaRotDebug | recoverablePsaRotDebug | decommissioned | invalid
  deriving DecidableEq, Repr

/-- state of lifecycle value `v`: determined by `v / 256` (the high byte). -/
def state (v : Nat) : LState :=
  if v / 256 = 0x00 then .unknown
  else if v / 256 = 0x10 then .assemblyAndTest
  else if v / 256 = 0x20 then .psaRotProvisioning
  else if v / 256 = 0x30 then .secured
  else if v / 256 = 0x40 then .nonPsaRotDebug
  else if v / 256 = 0x50 then .recoverablePsaRotDebug
  else if v / 256 = 0x60 then .decommissioned
  else .invalid

/-- the enumeration order of the Go constants (`iota`) -/
def LState.code : LState → Nat
  | .unknown => 0 | .assemblyAndTest => 1 | .psaRotProvisioning => 2 | .secured => 3
  | .nonPsaRotDebug => 4 | .recoverablePsaRotDebug => 5 | .decommissioned => 6 | .invalid => 7

/-- specified state names -/
def LState.name : LState → String
  | .unknown => "unknown"
  | .assemblyAndTest => "assembly-and-test"
  | .psaRotProvisioning => "psa-rot-provisioning"
  | .secured => "secured"
  | .nonPsaRotDebug => "non-psa-rot-debug"
  | .recoverablePsaRotDebug => "recoverable-psa-rot-debug"
  | .decommissioned => "decommissioned"
  | .invalid => "invalid"

end Psa.Spec
