/-
  Spec for C10 (and the wire side of C09): the profile's wire format of a
  claims-set, stated claim by claim — a key is emitted iff its claim is set,
  with the CBOR type the profile prescribes and the exact value.
-/
import Psa.Model.Codec
namespace Psa.Spec
open Psa Psa.Model

def p1KeyOrder : List Int := [-75000, -75001, -75002, -75003, -75004, -75005, -75006, -75007, -75008, -75009, -75010]
def p2KeyOrder : List Int := [265, 2394, 2395, 2396, 2397, 2398, 2399, 10, 256, 2400]
def compKeyOrder : List Int := [1, 2, 4, 5, 6]

def keyOrder : Prof → List Int
  | .p1 => p1KeyOrder
  | .p2 => p2KeyOrder

/-- a component field on the wire -/
def compWireVal (sc : SwComp) (k : Int) : Option Cbor :=
  if k = 1 then sc.mtype.map .tstr
  else if k = 2 then sc.mval.map .bstr
  else if k = 4 then sc.version.map .tstr
  else if k = 5 then sc.signer.map .bstr
  else if k = 6 then sc.mdesc.map .tstr
  else none

def entriesOf (keys : List Int) (val : Int → Option Cbor) : List (Cbor × Cbor) :=
  keys.filterMap fun k => (val k).map fun v => (cInt k, v)

def compWire (sc : SwComp) : Cbor := .map (entriesOf compKeyOrder (compWireVal sc))

/-- the component list on the wire: an array of component maps, in order -/
def compsWire (l : List SwComp) : Cbor := .arr (l.map compWire)

/-- the components actually held (nil entries dropped: a valid claims-set has none) -/
def heldComps (f : SwField) : List SwComp := f.elems.filterMap id

/-- claim `k` of `c` on the wire; `none` = the claim is not set -/
def wireVal (c : Claims) (k : Int) : Option Cbor :=
  match c.prof with
  | .p1 =>
    if k = -75000 then (match c.profile with | some (.str s) => some (.tstr s) | _ => none)
    else if k = -75001 then c.clientId.map cInt
    else if k = -75002 then c.lifecycle.map .uint
    else if k = -75003 then c.implId.map .bstr
    else if k = -75004 then c.bootSeed.map .bstr
    else if k = -75005 then c.certRef.map .tstr
    else if k = -75006 then (if c.sw.elems.isEmpty then none else some (compsWire (heldComps c.sw)))
    else if k = -75007 then c.noSw.map .uint
    else if k = -75008 then (match c.nonce with | some [b] => some (.bstr b) | _ => none)
    else if k = -75009 then c.instId.map .bstr
    else if k = -75010 then c.vsi.map .tstr
    else none
  | .p2 =>
    if k = 265 then (match c.profile with | some (.str s) => some (.tstr s) | _ => none)
    else if k = 2394 then c.clientId.map cInt
    else if k = 2395 then c.lifecycle.map .uint
    else if k = 2396 then c.implId.map .bstr
    else if k = 2397 then c.bootSeed.map .bstr
    else if k = 2398 then c.certRef.map .tstr
    else if k = 2399 then (if c.sw.elems.isEmpty then none else some (compsWire (heldComps c.sw)))
    else if k = 10 then (match c.nonce with
      | some [b] => some (.bstr b)
      | some (a :: b :: r) => some (.arr ((a :: b :: r).map .bstr))
      | _ => none)
    else if k = 256 then c.instId.map .bstr
    else if k = 2400 then c.vsi.map .tstr
    else none

/-- the token: one entry per claim that is set, in the profile's key order -/
def wireEntries (c : Claims) : List (Cbor × Cbor) := entriesOf (keyOrder c.prof) (wireVal c)

def wireToken (c : Claims) : Cbor := .map (wireEntries c)

end Psa.Spec
