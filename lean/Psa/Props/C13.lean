/-
  C13 — Errors carry the documented sentinel class.
  Property theorems only.  Quantifier: every claims-set (any field values, any
  component list without nil entries), every getter, every setter operation,
  every error tree (any depth, any mix of %w / %v / Join / custom Is-Unwrap).
-/
import Psa.Proofs.Errors
import Psa.Tie.Funcs
namespace Psa.Props.C13
open Psa Psa.Model Psa.Spec Psa.Proofs

/-- An absent mandatory claim yields exactly the missing-mandatory class. -/
theorem absent_mandatory (g : Getter) (c : Claims) (h : Absent g c) (hm : Mandatory c.prof g = true)
    (hx : ¬ (g = .profile ∧ c.prof = .p1)) :
    Model.get g c = .err eMissingMandatory := by
  have := absent_class g c h hx; simpa [hm] using this

/-- An absent optional claim yields exactly the missing-optional class … -/
theorem absent_optional (g : Getter) (c : Claims) (h : Absent g c) (hm : Mandatory c.prof g = false) :
    Model.get g c = .err eMissingOptional := by
  have := absent_class g c h (by rintro ⟨rfl, hp⟩; simp [hp, Mandatory] at hm); simpa [hm] using this

/-- … which validation ignores. -/
theorem missing_optional_ignored (g : Getter) (c : Claims) (h : Model.get g c = .err eMissingOptional) :
    filterError (Model.get g c) = .ok () := by
  rw [h]; rfl

/-- A present but malformed value yields the wrong-syntax class; a profile mismatch the
    wrong-profile class.  (For the component list the class is that of the offending component:
    wrong-syntax for a malformed hash, missing-mandatory for an absent mandatory field.) -/
theorem malformed_class (g : Getter) (c : Claims) (m : ErrMask) (hne : ¬ Absent g c)
    (hp : c.profile ≠ some .invalid) (h : Model.get g c = .err m) :
    (g = .profile → m = eWrongProfile) ∧
    (g ≠ .profile → m = eWrongSyntax ∨ (g = .sw ∧ m = eMissingMandatory)) :=
  present_err_class g c m hne hp h

/-- Every getter error is classifiable: its mask is exactly one of the four documented classes. -/
theorem getter_error_classified (g : Getter) (c : Claims) (m : ErrMask) (hp : c.profile ≠ some .invalid)
    (h : Model.get g c = .err m) :
    m = eMissingMandatory ∨ m = eMissingOptional ∨ m = eWrongSyntax ∨ m = eWrongProfile := by
  by_cases ha : Absent g c
  · by_cases hx : g = .profile ∧ c.prof = .p1
    · obtain ⟨rfl, hp1⟩ := hx
      simp only [Absent] at ha
      simp [Model.get, getProfile, hp1, ha] at h
    · have := absent_class g c ha hx
      rw [this] at h; cases h
      cases Mandatory c.prof g <;> simp
  · have := present_err_class g c m ha hp h
    by_cases hg : g = .profile
    · exact Or.inr (Or.inr (Or.inr (this.1 hg)))
    · rcases this.2 hg with h' | ⟨_, h'⟩
      · exact Or.inr (Or.inr (Or.inl h'))
      · exact Or.inl h'

/-- Validation reports the class of an offending claim (the first one in the walk), unchanged
    by the wrapping, and never a filtered (missing-optional / not-in-profile) class. -/
theorem validate_error_class (c : Claims) (m : ErrMask) (h : validate c = .err m) :
    ∃ g, Model.get g c = .err m ∧ filtered m = false := by
  obtain ⟨g, _, hg⟩ := validateWith_err _ c m h
  exact ⟨g, hg⟩

theorem validate_error_class_any_order (o : List Getter) (c : Claims) (m : ErrMask)
    (h : validateWith o c = .err m) : ∃ g ∈ o, Model.get g c = .err m ∧ filtered m = false :=
  validateWith_err o c m h

/-- Setter errors: wrong-syntax, or for the component list the class of the offending component. -/
theorem setter_error_class (c : Claims) (op : SetOp) (m : ErrMask) (h : (applySet c op).2 = .err m) :
    m = eWrongSyntax ∨ (∃ l, op = .sw l) ∧ m = eMissingMandatory := by
  have key : ∀ (v : Outcome Unit) (c1 : Claims),
      (match v with | .ok _ => (c1, Outcome.ok ()) | e => (c, e)).2 = .err m → v = .err m := by
    intro v c1 hv; cases v <;> simp_all
  cases op with
  | clientId v => simp [applySet] at h
  | lifecycle v =>
    have := key _ _ h
    rcases validateLC_cases v with h' | h' <;> simp [h'] at this; exact Or.inl this.symm
  | implId b =>
    have := key _ _ h
    unfold validateImplID at this; split at this <;> simp at this; exact Or.inl this.symm
  | bootSeed b =>
    simp only [applySet] at h
    cases hp : c.prof <;> simp only [hp] at h <;> split at h <;> simp at h <;> exact Or.inl h.symm
  | certRef s =>
    simp only [applySet] at h
    cases hp : c.prof <;> simp only [hp] at h <;> split at h <;> simp at h <;> exact Or.inl h.symm
  | sw l =>
    simp only [applySet, replaceVals] at h
    cases hp : c.prof <;> simp only [hp] at h
    · cases l with
      | none => simp at h
      | some vals =>
        dsimp only at h
        cases hv : validateAndConvert vals with
        | ok r => simp [hv, Outcome.bind] at h
        | err m' =>
          simp [hv, Outcome.bind] at h; subst h
          rcases validateAndConvert_err_class _ _ hv with h' | h'
          · exact Or.inr ⟨⟨_, rfl⟩, h'⟩
          · exact Or.inl h'
        | panic s => simp [hv, Outcome.bind] at h
    · cases l with
      | none => simp at h; exact Or.inl h.symm
      | some vals =>
        dsimp only at h
        cases hv : validateAndConvert vals with
        | ok r => simp [hv, Outcome.bind] at h
        | err m' =>
          simp [hv, Outcome.bind] at h; subst h
          rcases validateAndConvert_err_class _ _ hv with h' | h'
          · exact Or.inr ⟨⟨_, rfl⟩, h'⟩
          · exact Or.inl h'
        | panic s => simp [hv, Outcome.bind] at h
  | nonce b =>
    have := key _ _ h
    rcases validateHash_cases b with h' | h' <;> simp [h'] at this; exact Or.inl this.symm
  | instId b =>
    have := key _ _ h
    rcases validateInstID_cases b with h' | h' <;> simp [h'] at this; exact Or.inl this.symm
  | vsi s =>
    have := key _ _ h
    unfold validateVSI at this; cases s <;> simp at this; exact Or.inl this.symm

/-- The validators regenerated from /repo on this run reject with the wrong-syntax class
    (a `%w` turned into `%v` changes the translated class and breaks these). -/
theorem generated_validator_classes (v : Bytes) (s : String) :
    (Generated.validateImplID v = .ok () ∨ Generated.validateImplID v = .err eWrongSyntax) ∧
    (Generated.validatePSAHashType v = .ok () ∨ Generated.validatePSAHashType v = .err eWrongSyntax) ∧
    (Generated.validateNonce v = .ok () ∨ Generated.validateNonce v = .err eWrongSyntax) ∧
    (Generated.validateInstID v = .ok () ∨ Generated.validateInstID v = .err eWrongSyntax) ∧
    (Generated.validateVSI s = .ok () ∨ Generated.validateVSI s = .err eWrongSyntax) := by
  rw [Tie.gen_validateImplID_spec, Tie.gen_validatePSAHashType_spec, Tie.gen_validateNonce_spec,
    Tie.gen_validateInstID_spec, Tie.gen_validateVSI_spec]
  refine ⟨?_, ?_, ?_, ?_, ?_⟩ <;> split <;> simp

/-! ### the error filter -/

/-- `FilterError` returns nil exactly for nil, missing-optional and not-in-profile errors … -/
theorem filter_nil_iff (e : Option GoErr) :
    filterGoErr e = none ↔ e = none ∨ ∃ x, e = some x ∧ (x.is .missingOptional = true ∨ x.is .notInProfile = true) := by
  cases e with
  | none => simp [filterGoErr]
  | some x => simp only [filterGoErr]; split <;> simp_all

/-- … and returns every other error unchanged. -/
theorem filter_unchanged (e : Option GoErr) (h : filterGoErr e ≠ none) : filterGoErr e = e := by
  cases e with
  | none => simp [filterGoErr] at h
  | some x => simp only [filterGoErr] at h ⊢; split <;> simp_all

/-- The mask-level filter used by the claims model is the tree-level filter. -/
theorem filter_mask_agrees (x : GoErr) : filtered x.mask = true ↔ filterGoErr (some x) = none := by
  rw [filtered_mask]; simp only [filterGoErr]; split <;> simp_all

/-- `%w` keeps the class, `%v` loses it — at any depth. -/
theorem wrapW_keeps_class (x : GoErr) (s : Sentinel) : (GoErr.wrapW x).is s = x.is s := by
  simp [GoErr.is]
theorem wrapV_loses_class (x : GoErr) (s : Sentinel) : (GoErr.wrapV x).is s = false := by
  simp [GoErr.is]
theorem wrapW_mask (x : GoErr) : (GoErr.wrapW x).mask = x.mask := by
  unfold GoErr.mask
  have h : ∀ s, (GoErr.wrapW x).is s = x.is s := fun s => by simp [GoErr.is]
  simp only [h]

-- non-vacuity
example : Model.get .bootSeed { Claims.new .p1 with bootSeed := some [1] } = .err eWrongSyntax := by decide
example : Model.get .bootSeed (Claims.new .p2) = .err eMissingOptional := by decide
example : filterGoErr (some (.join [.opaque, .wrapW (.custom .notInProfile none)])) = none := by
  simp [filterGoErr, GoErr.is, GoErr.isAny]
example : filterGoErr (some (.wrapV (.sentinel .missingOptional))) = some (.wrapV (.sentinel .missingOptional)) := by
  simp [filterGoErr, GoErr.is]

/-- the stand-alone `ValidateHashAlgID` (the regenerated code): the nine admitted names are accepted, everything else is
    refused with the wrong-syntax class and nothing else -/
theorem hash_alg_id_class (v : String) :
    (v ∈ Tie.hashAlgNames → Generated.validateHashAlgID v = .ok ()) ∧
    (v ∉ Tie.hashAlgNames → Generated.validateHashAlgID v = .err eWrongSyntax) := by
  rw [Tie.gen_validateHashAlgID_spec]
  constructor <;> intro h <;> simp [h]

end Psa.Props.C13
