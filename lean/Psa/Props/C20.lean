/-
  C20 — Only a well-formed tagged COSE_Sign1 carrying a claims map is evidence.
  Property theorems only.  Quantifier: every byte string.  `decodeEnvelope` over-approximates
  go-cose (header-parameter validation is not modelled: such inputs are `ood`, never `ok`
  without the shape below), so "the model accepts ⇒ shape" covers "the library accepts ⇒ shape".
-/
import Psa.Proofs.Evidence
namespace Psa.Props.C20
open Psa Psa.Model Psa.Proofs

/-- the shape the property names: tag 18, exactly four elements — protected bstr, unprotected
    map, payload, non-empty signature bstr — and nothing after it -/
def Sign1Shape (bs : Bytes) (prot : Bytes) (payload : Cbor) (sig : Bytes) : Prop :=
  ∃ un, Cbor.decodeAll {} bs = some (.tag 18 (.arr [.bstr prot, .map un, payload, .bstr sig])) ∧ sig ≠ []

/-- Envelope decoding succeeds only for a tag-18 array of exactly four elements of the right
    types with nothing after it. -/
theorem accepts_shape (bs : Bytes) (m : Msg) (h : decodeEnvelope bs = .ok m) :
    ∃ payload, Sign1Shape bs m.prot payload m.sig ∧
      ((∃ p, payload = .bstr p ∧ m.payload = some p) ∨ (payload = Cbor.null ∧ m.payload = none)) := by
  cases hd : Cbor.decodeAll {} bs with
  | none =>
    unfold decodeEnvelope at h
    split at h
    · rw [hd] at h; cases h
    · cases h
  | some t =>
    have key : (match some t with | some (.tag 18 (.arr xs)) => msgOfArray xs | _ => Dec.err) = .ok m := by
      unfold decodeEnvelope at h
      split at h
      · rw [hd] at h; exact h
      · cases h
    cases t with
    | tag n v =>
      by_cases hn : n = 18
      · subst hn
        cases v with
        | arr xs =>
          simp only [] at key
          unfold msgOfArray at key
          split at key
          · rename_i prot un pl sig
            split at key
            · cases key
            · split at key
              · cases key
              · rename_i hsig
                cases hpc : protClass prot with
                | err => rw [hpc] at key; cases key
                | ood => rw [hpc] at key; cases key
                | ok _ =>
                  rw [hpc] at key; simp only [] at key
                  split at key
                  · cases key
                  · split at key
                    · cases key
                      exact ⟨_, ⟨un, hd, hsig⟩, Or.inl ⟨_, rfl, rfl⟩⟩
                    · cases key
                      exact ⟨_, ⟨un, hd, hsig⟩, Or.inr ⟨rfl, rfl⟩⟩
                    · cases key
          · cases key
        | _ => cases key
      · exfalso
        split at key
        · rename_i heq; cases heq; exact hn rfl
        · cases key
    | _ => cases key

/-- Evidence decoding succeeds only if, moreover, the payload is a byte string holding exactly
    one CBOR map that decodes as a claims-set (nil, empty and non-map payloads are rejected). -/
theorem evidence_shape (u : Bytes → Dec Bytes) (extra : List Bytes) (e e' : Ev) (bs : Bytes)
    (h : evUnmarshal u extra e bs = (e', .ok ())) :
    ∃ m p kvs c, decodeEnvelope bs = .ok m ∧ Sign1Shape bs m.prot (.bstr p) m.sig ∧
      Cbor.decodeAll {} p = some (.map kvs) ∧ decodeClaims u extra p = .ok c ∧
      e' = { claims := some c, msg := some m } := by
  unfold evUnmarshal at h
  cases hd : decodeEnvelope bs with
  | err => rw [hd] at h; cases h
  | ood => rw [hd] at h; cases h
  | ok m =>
    rw [hd] at h; simp only [] at h
    cases hp : m.payload with
    | none => rw [hp] at h; cases h
    | some p =>
      rw [hp] at h; simp only [] at h
      cases hc : decodeClaims u extra p with
      | err => rw [hc] at h; cases h
      | ood => rw [hc] at h; cases h
      | ok c =>
        rw [hc] at h
        have he : e' = { claims := some c, msg := some m } := by cases h; rfl
        obtain ⟨payload, hshape, hpl⟩ := accepts_shape bs m hd
        have hpay : payload = .bstr p := by
          rcases hpl with ⟨p', h1, h2⟩ | ⟨_, h2⟩
          · rw [hp] at h2; cases h2; exact h1
          · rw [hp] at h2; cases h2
        subst hpay
        -- the claims decoder only accepts a map
        unfold decodeClaims at hc
        cases hda : Cbor.decodeAll {} p with
        | none => rw [hda] at hc; cases hc
        | some t =>
          rw [hda] at hc
          cases t with
          | map kvs => exact ⟨m, p, kvs, c, rfl, hshape, hda, by unfold decodeClaims; rw [hda]; exact hc, he⟩
          | _ => cases hc

/-- COSE_Mac0 (tag 17), COSE_Sign (tag 98), other tags and untagged messages are rejected. -/
theorem other_tags_rejected (bs : Bytes) (h : ∀ rest, bs ≠ 0xd2 :: 0x84 :: rest) : decodeEnvelope bs = .err := by
  unfold decodeEnvelope
  split
  · rename_i rest; exact absurd rfl (h rest)
  · rfl

/-- an empty signature is rejected -/
theorem empty_signature_rejected (prot : Bytes) (un : List (Cbor × Cbor)) (pl : Cbor) :
    msgOfArray [.bstr prot, .map un, pl, .bstr []] = .err := by
  unfold msgOfArray; split <;> simp_all

-- non-vacuity: a minimal envelope the model accepts
example : (decodeEnvelope [0xd2, 0x84, 0x40, 0xa0, 0x41, 0xa0, 0x41, 0x01]) =
    .ok { prot := [], payload := some [0xa0], sig := [1] } := by decide

/-- **the verdict of a COSE decode does not depend on what the Evidence held before**, and neither does the state after
    a successful one: the claims are decoded afresh from the payload, through the dispatcher (map check included), never
    into claims the Evidence already holds -/
theorem unmarshal_history_free (u : Bytes → Dec Bytes) (extra : List Bytes) (e e' : Ev) (bs : Bytes) :
    (evUnmarshal u extra e bs).2 = (evUnmarshal u extra e' bs).2 ∧
    ((evUnmarshal u extra e bs).2 = .ok () → (evUnmarshal u extra e bs).1 = (evUnmarshal u extra e' bs).1) := by
  unfold evUnmarshal
  cases decodeEnvelope bs with
  | err => simp
  | ood => simp
  | ok m =>
    cases hp : m.payload with
    | none => simp
    | some p => cases decodeClaims u extra p <;> simp

end Psa.Props.C20
