/-
  C15 — Embedding-aware codec merges, round-trips and matches the plain codec.
  Property theorems only (CBOR side of psatoken/encoding; helper lemmas in Psa/Proofs/Enc*.lean).
  Quantifiers: every struct shape (any nesting of embedded structs, any number of fields below 2³²),
  every value of it (every subset of optional fields, every typed field value), every entry count.
  The JSON side is modelled at the level of JSON trees (Psa/Model/EncodingJson.lean; the text layer is
  Go's encoding/json): theorems `json_*` below.
-/
import Psa.Proofs.EncPlain
import Psa.Tie.Encoding
import Psa.Proofs.EncJson
import Psa.Proofs.JsonTokens
namespace Psa.Props.C15
open Psa Psa.Model Psa.Model.Enc Psa.Proofs.Enc

/-- **correct length header for any number of entries** — stated about the code regenerated from /repo on
    this run: the header `ToCBOR` writes for `n` entries is a map header that the package's own reader
    (`processAdditionalInfo`, also regenerated) turns back into exactly `n`, leaving exactly the bytes that
    followed; it is never the indefinite-length marker. All four widths, every `n < 2³²`. -/
theorem header_roundtrip (n : Nat) (hn : n < 2 ^ 32) (rest : Bytes) :
    ∃ b tl, Generated.toCBORHeader n = b :: tl ∧ b.toNat / 32 = 5 ∧ b.toNat % 32 ≠ 31 ∧
      Generated.processAdditionalInfo (b.toNat % 32) (tl ++ rest) = .ok (n, rest) := by
  obtain ⟨b, tl, h1, h2, h3, h4⟩ := header_read n hn rest
  refine ⟨b, tl, by rw [Tie.Enc.gen_header_eq n hn, h1], h2, h3, ?_⟩
  rw [Tie.Enc.gen_pai_eq_model _ _ (by omega), h4]

/-- the header is also the shortest-form CBOR head, so any CBOR decoder reads the same count -/
theorem header_is_cbor_head (n : Nat) (hn : n < 2 ^ 32) (rest : Bytes) :
    Cbor.readHead (Generated.toCBORHeader n ++ rest) = some (5, Cbor.aiOf n, n, rest) := by
  rw [Tie.Enc.gen_header_eq n hn]
  exact Cbor.readHead_encHead 5 n rest (by omega) (by omega)

/-- **ordered field map: Keys and Fields agree** — the invariant holds initially and is kept by `Add` and `Delete` -/
theorem omap_invariant :
    OMInv OMap.empty ∧
    (∀ m m' k v, OMInv m → m.add k v = .ok m' → OMInv m') ∧
    (∀ m k, OMInv m → OMInv (m.delete k)) :=
  ⟨inv_empty, fun m m' k v hi h => add_inv m m' k v hi h, fun m k hi => delete_inv m k hi⟩

/-- `Add` refuses a key already present (the source of the duplicate-key error) and changes nothing else -/
theorem add_semantics (m : OMap) (k : Int) (v : Bytes) :
    (m.has k = true → m.add k v = .err eOther) ∧
    (m.has k = false → ∃ m', m.add k v = .ok m' ∧ m'.get k = some v ∧ ∀ k', k' ≠ k → m'.get k' = m.get k') := by
  refine ⟨add_dup m k v, fun h => ?_⟩
  have hadd := add_ok m k v h
  exact ⟨_, hadd, get_add_same m _ k v hadd, fun k' hne => get_add_other m _ k k' v hadd hne⟩

/-- **round trip, including the all-empty struct** -/
theorem populate_serialize (sh : Shape) (v : SVal) (hf : Fits sh v) (hn : ((specs sh).map (·.key)).Nodup)
    (hk : KeysInt64 sh) (hl : (specs sh).length < 2 ^ 32) :
    ∃ bytes, serialize sh v = .ok bytes ∧ populate sh bytes = .ok (.ok v) :=
  Psa.Proofs.Enc.populate_serialize sh v hf hn hk hl

/-- **one map, union of outer and embedded fields, omitempty honoured, stable order, equal to the plain codec** -/
theorem serialize_is_plain_map (sh : Shape) (v : SVal) (bytes : Bytes) (hf : Fits sh v)
    (hn : ((specs sh).map (·.key)).Nodup) (hl : (specs sh).length < 2 ^ 32) (h : serialize sh v = .ok bytes) :
    bytes = (Cbor.map ((present (specs sh) (flat v)).map (fun p => (cInt p.1, p.2)))).enc :=
  Psa.Proofs.Enc.serialize_is_plain_map sh v bytes hf hn hl h

/-- reading back what was written returns the same ordered map, for every entry count below 2³² -/
theorem fromCBOR_toCBOR (m : OMap) (hi : OMInv m) (hr : RawOK m.fields) (hn : m.keys.length < 2 ^ 32) :
    fromCBOR m.toCBOR = .ok m :=
  Psa.Proofs.Enc.fromCBOR_toCBOR m hi hr hn

/-- **a duplicate key in CBOR input is an error** -/
theorem duplicate_key_is_error (fs : List (Int × Bytes)) (hr : RawOK fs) (hdup : ¬ (fs.map (·.1)).Nodup)
    (hn : fs.length < 2 ^ 32) : fromCBOR (Cbor.encHead 5 fs.length ++ encFields fs) = .err eOther :=
  fromCBOR_duplicate_key fs hr hdup hn

/-- **a missing non-optional key is an error** (own fields of a struct; `popFields` is what
    `doPopulateStructFromCBOR` runs for every struct of the nest) -/
theorem missing_mandatory_is_error (fs : List FieldSpec) (m : OMap) (f : FieldSpec) (hf : f ∈ fs)
    (ho : f.omitempty = false) (hm : m.get f.key = none) : ∀ r, popFields fs m ≠ .ok r :=
  popFields_missing_any fs m f hf ho hm

/-! ### JSON side (tree level) -/

/-- **JSON round trip, including the all-empty struct** -/
theorem json_populate_serialize (sh : EncJ.ShapeJ) (v : SVal) (hf : Proofs.EncJ.Fits sh v)
    (hn : ((Proofs.EncJ.specs sh).map (·.name)).Nodup) :
    ∃ j, EncJ.serialize sh v = .ok j ∧ EncJ.populate sh j = .ok v :=
  Proofs.EncJ.populate_serialize sh v hf hn

/-- **JSON: one object, union of outer and embedded fields in declaration order, omitempty honoured** -/
theorem json_serialize_is_plain_object (sh : EncJ.ShapeJ) (v : SVal) (j : Json) (hf : Proofs.EncJ.Fits sh v)
    (hn : ((Proofs.EncJ.specs sh).map (·.name)).Nodup) (h : EncJ.serialize sh v = .ok j) :
    j = .obj (Proofs.EncJ.present (Proofs.EncJ.specs sh) (Proofs.EncJ.flat v)) :=
  Proofs.EncJ.serialize_is_plain_object sh v j hf hn h

/-- **JSON: a missing non-optional member is an error** -/
theorem json_missing_mandatory_is_error (fs : List EncJ.FieldSpecJ) (m : EncJ.JMap) (f : EncJ.FieldSpecJ) (hf : f ∈ fs)
    (ho : f.omitempty = false) (hm : m.get f.name = none) : ∀ r, EncJ.popFields fs m ≠ .ok r :=
  Proofs.EncJ.popFields_missing_any fs m f hf ho hm

/-- the JSON ordered map keeps `Keys` and `Fields` in agreement under `Add` and `Delete` -/
theorem json_omap_invariant :
    Proofs.EncJ.JInv EncJ.JMap.empty ∧
    (∀ m m' k v, Proofs.EncJ.JInv m → m.add k v = .ok m' → Proofs.EncJ.JInv m') ∧
    (∀ m k, Proofs.EncJ.JInv m → Proofs.EncJ.JInv (m.delete k)) :=
  ⟨Proofs.EncJ.inv_empty, fun m m' k v hi h => Proofs.EncJ.add_inv m m' k v hi h, fun m k hi => Proofs.EncJ.delete_inv m k hi⟩


/-! ### JSON side, token level: the two hand-written loops behind `FromJSON` (`unmarshalKeys`, `skipValue`) -/

/-- **stable key order, at the level of the code's token walk**: on the token stream Go's decoder yields for an
    object — any members, any nesting inside the member values, duplicated names included — `unmarshalKeys` leaves
    exactly the member names in document order -/
theorem json_keys_in_document_order (ms : List (Bytes × Json)) :
    JTok.unmarshalKeys (JTok.tokens (.obj ms)) = .ok (ms.map (·.1)) :=
  Proofs.JTok.unmarshalKeys_obj ms

/-- `skipValue` skips exactly one value, whatever it contains, and stops in front of what follows it -/
theorem json_skip_value_exact (v : Json) (rest : List JTok.Tok) :
    JTok.skipValue (2 * (JTok.tokens v ++ rest).length + 2) (JTok.tokens v ++ rest) = .ok rest :=
  Proofs.JTok.skipValue_tokens v _ rest (by simp only [List.length_append]; omega)

/-- **the token loops refine the tree-level ordered map** the `json_*` theorems above are about: for every document,
    the same verdict (objects only) and the same `Keys` -/
theorem json_token_layer_refines_tree (j : Json) :
    JTok.fromJSONKeys j = (match EncJ.fromJSON j with
      | .ok m => .ok m.keys
      | _ => .err) :=
  Proofs.JTok.fromJSONKeys_refines j

/-! non-vacuity: a two-level shape (outer, embedded, embedded-in-embedded) with optional fields absent and present
    meets the hypotheses, and the all-empty value of an all-optional shape does too -/
def exShape : Shape :=
  .mk [⟨1, false, .int⟩, ⟨2, true, .text⟩] [.mk [⟨-3, true, .bytes⟩] [.mk [⟨4, false, .bytes⟩] []]]
def exVal : SVal := .mk [some (.int (-5)), none] [.mk [some (.bytes [1, 2])] [.mk [none] []]]
example : Fits exShape exVal := by
  simp [exShape, exVal, Fits, FitsList, TypedAll, Typed, Proofs.Enc.Int64]
example : ((specs exShape).map (·.key)).Nodup ∧ (specs exShape).length < 2 ^ 32 := by
  simp [exShape, specs, specsList]
example : KeysInt64 exShape := by
  intro f hf; simp [exShape, specs, specsList] at hf
  rcases hf with rfl | rfl | rfl | rfl <;> simp [Proofs.Enc.Int64]
example : Fits (.mk [⟨1, true, .int⟩, ⟨2, true, .text⟩] []) (.mk [none, none] []) := by
  simp [Fits, FitsList, TypedAll, Typed]
example : serialize (.mk [⟨1, true, .int⟩, ⟨2, true, .text⟩] []) (.mk [none, none] []) = .ok [0xa0] := by decide
example : JTok.unmarshalKeys (JTok.tokens (.obj [(strBytes "a", .arr [.obj [(strBytes "x", .null)], .int 1]), (strBytes "a", .str [])]))
    = .ok [strBytes "a", strBytes "a"] := by decide
example : JTok.unmarshalKeys (JTok.tokens (.arr [])) = .err := by decide

end Psa.Props.C15
