/-
  C10 — Emitted CBOR is exactly the profile's wire format.
  Property theorems only.  Quantifier: every valid claims-set of either profile in any
  representation state (built by setters or by decoding: nil interface / empty container /
  nil slice component fields, any optional subset, any sizes) — no bound.
  `ClaimsBounded` states what is true of every Go value (int32 / uint16 / uint ranges, slice
  lengths below 2⁶⁴) plus the CBOR library's own array limit; it is needed only for the
  "is a single definite-length item with nothing after it" clause, which goes through the
  verified decoder.
-/
import Psa.Proofs.WireShape
import Psa.Props.C01
namespace Psa.Props.C10
open Psa Psa.Model Psa.Spec Psa.Proofs

/-- The CBOR produced for a valid claims-set is the profile's wire token: one map holding, in
    the profile's key order, exactly one entry per claim that is set — integer key, the
    profile's CBOR type, the exact value; absent optional claims are omitted, not null. -/
theorem encode_is_wire_token (c : Claims) (hv : validate c = .ok ()) :
    claimsToCbor c = .ok (wireToken c) ∧ encodeClaims c = .ok (wireToken c).enc := by
  have := encode_wire c hv
  exact ⟨this, by simp [encodeClaims, this, Outcome.map]⟩

/-- The keys are precisely the profile's integer keys of the claims that are set … -/
theorem wire_keys (c : Claims) :
    (wireEntries c).map Prod.fst = ((keyOrder c.prof).filter fun k => (wireVal c k).isSome).map cInt :=
  entriesOf_keys _ _

/-- … each at most once (no duplicate keys) … -/
theorem wire_keys_nodup (c : Claims) : ((wireEntries c).map Prod.fst).Nodup :=
  entriesOf_keys_nodup _ _ (keyOrder_nodup c.prof)

/-- … and an entry is present iff its claim is set, carrying exactly that claim's value. -/
theorem wire_entry_iff (c : Claims) (k v : Cbor) :
    (k, v) ∈ wireEntries c ↔ ∃ i ∈ keyOrder c.prof, k = cInt i ∧ wireVal c i = some v :=
  entriesOf_mem _ _ k v

/-- The profile key sets the property spells out. -/
theorem key_sets :
    keyOrder .p1 = [-75000, -75001, -75002, -75003, -75004, -75005, -75006, -75007, -75008, -75009, -75010] ∧
    keyOrder .p2 = [265, 2394, 2395, 2396, 2397, 2398, 2399, 10, 256, 2400] ∧
    compKeyOrder = [1, 2, 4, 5, 6] := ⟨rfl, rfl, rfl⟩

/-- No value in the token is null / undefined (nor any other simple value or float): every
    value has the CBOR type of its claim.  (Top level; component maps: `comp_no_null`.) -/
theorem wire_no_null (c : Claims) (k v : Cbor) (h : (k, v) ∈ wireEntries c) :
    (∃ s, v = .tstr s) ∨ (∃ b, v = .bstr b) ∨ (∃ n, v = .uint n) ∨ (∃ n, v = .nint n) ∨ (∃ xs, v = .arr xs) := by
  obtain ⟨i, _, _, hv⟩ := (wire_entry_iff c k v).mp h
  cases wireVal_kind c i v hv with
  | text s hv => exact Or.inl ⟨s, hv⟩
  | bytes b hv => exact Or.inr (Or.inl ⟨b, hv⟩)
  | int x hv =>
    subst hv; unfold cInt Cbor.ofInt; split
    · exact Or.inr (Or.inr (Or.inl ⟨_, rfl⟩))
    · exact Or.inr (Or.inr (Or.inr (Or.inl ⟨_, rfl⟩)))
  | uint n hv => exact Or.inr (Or.inr (Or.inl ⟨n, hv⟩))
  | comps hv => exact Or.inr (Or.inr (Or.inr (Or.inr ⟨_, hv⟩)))
  | nonces l hv => exact Or.inr (Or.inr (Or.inr (Or.inr ⟨_, hv⟩)))

/-- Components: maps over {1,2,4,5,6}, text for 1/4/6, byte strings for 2/5, a key present iff
    its field is set. -/
theorem comp_entry_iff (sc : SwComp) (k v : Cbor) :
    (k, v) ∈ entriesOf compKeyOrder (compWireVal sc) ↔ ∃ i ∈ compKeyOrder, k = cInt i ∧ compWireVal sc i = some v :=
  entriesOf_mem _ _ k v

theorem comp_no_null (sc : SwComp) (i : Int) (v : Cbor) (h : compWireVal sc i = some v) :
    (∃ s, v = .tstr s) ∨ (∃ b, v = .bstr b) := by
  unfold compWireVal at h
  repeat' split at h
  all_goals first
    | (cases h; done)
    | (obtain ⟨x, _, rfl⟩ := Option.map_eq_some_iff.mp h; first | exact Or.inl ⟨x, rfl⟩ | exact Or.inr ⟨x, rfl⟩)

/-- A single nonce is a bare byte string. -/
theorem single_nonce_bare (c : Claims) (hv : validate c = .ok ()) :
    ∃ b, wireVal c (match c.prof with | .p1 => -75008 | .p2 => 10) = some (.bstr b) := by
  have hc := (C01.validate_iff_conformant c).mp hv
  unfold Conformant at hc
  cases hp : c.prof <;> rw [hp] at hc
  · obtain ⟨_, _, _, _, _, _, _, ⟨n, hn, _⟩, _⟩ := hc
    exact ⟨n, by simp [wireVal, hp, hn]⟩
  · obtain ⟨_, _, _, _, _, _, _, ⟨n, hn, _⟩, _⟩ := hc
    exact ⟨n, by simp [wireVal, hp, hn]⟩

/-- Profile 1 never emits both the component list and the no-measurements flag. -/
theorem p1_never_both (c : Claims) (hp : c.prof = .p1) (hv : validate c = .ok ()) :
    ¬ ((wireVal c (-75006)).isSome ∧ (wireVal c (-75007)).isSome) := by
  have hc := (C01.validate_iff_conformant c).mp hv
  unfold Conformant at hc
  rw [hp] at hc
  obtain ⟨_, _, _, _, _, _, h7, _⟩ := hc
  simp only [wireVal, hp]
  rcases h7 with ⟨_, hns⟩ | ⟨hnc, _⟩
  · simp [hns]
  · have : c.sw.elems.isEmpty = true := by simpa [NoComponents] using hnc
    simp [this]

/-- The emitted bytes are a single definite-length well-formed item with nothing after it:
    the (verified) decoder reads them back as exactly the wire token. -/
theorem nothing_follows (c : Claims) (hv : validate c = .ok ()) (hb : ClaimsBounded c) :
    ∃ b, encodeClaims c = .ok b ∧ Cbor.decodeAll {} b = some (wireToken c) ∧
      ∀ extra, extra ≠ [] → Cbor.decodeAll {} (b ++ extra) = none := by
  refine ⟨_, (encode_is_wire_token c hv).2, Cbor.decodeAll_enc {} _ (okAt_wireToken c hb), ?_⟩
  intro extra hne
  have := Cbor.decodeFirst_enc {} (wireToken c) extra (okAt_wireToken c hb)
  unfold Cbor.decodeFirst at this
  unfold Cbor.decodeAll
  rw [this]
  cases extra with
  | nil => exact absurd rfl hne
  | cons a as => rfl

-- non-vacuity: the sample claims-set of C01 is valid and bounded
example : validate C01.sampleP2 = .ok () := by decide

end Psa.Props.C10
