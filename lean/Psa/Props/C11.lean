/-
  C11 — Setters accept exactly what validation accepts and are all-or-nothing.
  Property theorems only.  Quantifier: every claims-set state, every setter
  operation with every value, every history (list of operations of any length,
  valid and invalid interleaved, any order) — by induction on the history.

  The one clause that was false of the code (D9: profile 2's `SetSoftwareComponents(nil)`
  succeeded and left zero components) was repaired in /repo; the theorems are now stated
  without that exclusion.  `clear_is_exempt` records why the property exempts the empty
  non-nil list: the setter accepts it although validation rejects zero components.
-/
import Psa.Proofs.Setters
import Psa.Props.C01
namespace Psa.Props.C11
open Psa Psa.Model Psa.Spec Psa.Proofs

/-- "clear": an empty, non-nil component list (exempt from the iff and validates clauses) -/
def IsClear (op : SetOp) : Prop := op = .sw (some [])

theorem map_some_inj {α} : ∀ (a b : List α), a.map some = b.map some → a = b
  | [], [], _ => rfl
  | [], _ :: _, h => by simp at h
  | _ :: _, [], h => by simp at h
  | x :: xs, y :: ys, h => by
    simp only [List.map_cons, List.cons.injEq, Option.some.injEq] at h
    rw [h.1, map_some_inj xs ys h.2]

/-- A setter succeeds iff the value is one the same profile's validation accepts for that claim
    (`ClaimOK g c` is the conjunct of `Conformant c` for claim `g`; `assign` stores the value
    unconditionally, as a decoder would). -/
theorem set_ok_iff_valid (c : Claims) (op : SetOp) (hc : ¬ IsClear op) :
    (applySet c op).2 = .ok () ↔ ClaimOK (claimOf op) (assign c op) := by
  rw [applySet_ok_iff]
  obtain ⟨prof, canonical, profile, clientId, lifecycle, implId, bootSeed, certRef, sw, noSw, nonce, instId, vsi⟩ := c
  cases op with
  | clientId v => simp [accepts, claimOf, assign, ClaimOK]
  | lifecycle v => simp [accepts, claimOf, assign, ClaimOK, LifecycleOK]
  | implId b => simp [accepts, claimOf, assign, ClaimOK]
  | bootSeed b => cases prof <;> simp [accepts, claimOf, assign, ClaimOK]
  | certRef s => cases prof <;> simp [accepts, claimOf, assign, ClaimOK, isEan13_iff, isEan13p5_iff]
  | nonce b => simp [accepts, claimOf, assign, ClaimOK, hashOK, HashLen, or_assoc]
  | instId b => simp [accepts, claimOf, assign, ClaimOK, InstOK]
  | vsi s => cases s <;> simp [accepts, claimOf, assign, ClaimOK]
  | sw l =>
    cases l with
    | none =>
      cases prof
      · simp [accepts, claimOf, assign, ClaimOK, NoComponents, SwField.elems]
      · -- profile 2, nil list: the setter refuses, and validation refuses zero components
        simp only [accepts, claimOf, assign, ClaimOK, Bool.false_eq_true, false_iff]
        rintro ⟨l, hne, hl, _⟩
        simp only [SwField.elems] at hl
        cases l with
        | nil => exact hne rfl
        | cons a as => simp at hl
    | some vals =>
      have hne : vals ≠ [] := fun h => hc (by rw [h]; rfl)
      have key : vals.all compOK = true ↔ ComponentsOK (.cont (some (vals.map some))) := by
        unfold ComponentsOK
        simp only [SwField.elems, List.all_eq_true]
        constructor
        · intro h
          exact ⟨vals, hne, rfl, fun sc hsc => (comp_validate_ok_iff sc).mp ((compOK_iff sc).mp (h sc hsc))⟩
        · rintro ⟨l, _, hl, hall⟩ sc hsc
          have : vals = l := map_some_inj _ _ hl
          subst this
          exact (compOK_iff sc).mpr ((comp_validate_ok_iff sc).mpr (hall sc hsc))
      cases prof
      · simp only [accepts, claimOf, assign, ClaimOK]
        rw [key]
        constructor
        · intro h; exact Or.inl ⟨h, by trivial⟩
        · rintro (⟨h, _⟩ | ⟨h, _⟩)
          · exact h
          · simp [NoComponents, SwField.elems, hne] at h
      · simp only [accepts, claimOf, assign, ClaimOK]; exact key

/-- why the empty non-nil list is exempt: the setter accepts it (it is the "clear" operation) although validation
    rejects a claims-set with zero components -/
theorem clear_is_exempt :
    ∃ c : Claims, c.prof = .p2 ∧ (applySet c (.sw (some []))).2 = .ok () ∧ ¬ ClaimOK .sw (assign c (.sw (some []))) := by
  refine ⟨Claims.new .p2, rfl, by decide, ?_⟩
  intro h
  simp only [assign, ClaimOK, Claims.new] at h
  obtain ⟨l, hne, hl, _⟩ := h
  simp only [SwField.elems, List.map_nil] at hl
  cases l with
  | nil => exact hne rfl
  | cons a as => simp at hl

/-- what the clear operation does when it succeeds (it always does): zero components, and in profile 1 no
    "no measurements" assertion either; every other claim as before (`set_frame`) -/
theorem clear_leaves_nothing (c : Claims) :
    (applySet c (.sw (some []))).2 = .ok () ∧ (applySet c (.sw (some []))).1.sw.elems = [] ∧
    (c.prof = .p1 → (applySet c (.sw (some []))).1.noSw = none) := by
  obtain ⟨prof, canonical, profile, clientId, lifecycle, implId, bootSeed, certRef, sw, noSw, nonce, instId, vsi⟩ := c
  cases prof <;> cases sw <;> simp [applySet, replaceVals, validateAndConvert, Outcome.bind, SwField.elems]

/-- the repaired case: profile 2 refuses the nil list and leaves the claims-set as it was -/
theorem p2_nil_components_refused (c : Claims) (hp : c.prof = .p2) :
    (applySet c (.sw none)).2 = .err eWrongSyntax ∧ (applySet c (.sw none)).1 = c := by
  simp [applySet, hp]

/-- After success the matching getter returns exactly that value … -/
theorem set_get (c : Claims) (op : SetOp) (hc : ¬ IsClear op)
    (h : (applySet c op).2 = .ok ()) :
    Model.get (claimOf op) (applySet c op).1 = .ok (valOf op) := by
  have ha := (applySet_ok_iff c op).mp h
  rw [applySet_succ c op ha]
  obtain ⟨prof, canonical, profile, clientId, lifecycle, implId, bootSeed, certRef, sw, noSw, nonce, instId, vsi⟩ := c
  cases op with
  | clientId v => rfl
  | lifecycle v =>
    simp only [accepts, decide_eq_true_eq] at ha
    simp [claimOf, assign, Model.get, getSecurityLifeCycle, valOf, (validateLC_ok_iff v).mpr ha, Outcome.bind]
  | implId b =>
    simp only [accepts, beq_iff_eq] at ha
    simp [claimOf, assign, Model.get, getImplID, valOf, (validateImplID_ok_iff b).mpr ha, Outcome.bind]
  | bootSeed b => cases prof <;> simp_all [accepts, claimOf, assign, Model.get, getBootSeed, valOf] <;> omega
  | certRef s =>
    cases prof <;> simp_all [accepts, claimOf, assign, Model.get, getCertificationReference, valOf] <;>
      (intro h1; rcases ha with h2 | h2 <;> simp_all)
  | nonce b =>
    simp only [accepts] at ha
    simp [claimOf, assign, Model.get, getNonce, validateNonce, valOf, (hashOK_iff b).mp ha, Outcome.bind]
  | instId b =>
    have : validateInstID b = .ok () := by
      rw [validateInstID_ok_iff]; simpa [accepts, InstOK] using ha
    simp [claimOf, assign, Model.get, getInstID, valOf, this, Outcome.bind]
  | vsi s =>
    cases s with
    | nil => simp [accepts] at ha
    | cons a as => simp [claimOf, assign, Model.get, getVSI, validateVSI, valOf, Outcome.bind]
  | sw l =>
    cases l with
    | none =>
      cases prof
      · simp [claimOf, assign, Model.get, getSoftwareComponents, SwField.nilOrEmpty, SwField.elems, valOf]
      · simp [accepts] at ha
    | some vals =>
      have hne : vals ≠ [] := fun h => hc (by rw [h]; rfl)
      simp only [accepts, List.all_eq_true] at ha
      have hv : valuesOf (vals.map some) = .ok vals :=
        (valuesOf_ok_iff _ _).mpr ⟨rfl, fun sc hsc => (comp_validate_ok_iff sc).mp ((compOK_iff sc).mp (ha sc hsc))⟩
      cases prof <;>
        simp [claimOf, assign, Model.get, getSoftwareComponents, SwField.nilOrEmpty, SwField.elems, valOf, hne, hv,
          Outcome.bind]

/-- … and no other claim changes. -/
theorem set_frame (c : Claims) (op : SetOp) (h : (applySet c op).2 = .ok ()) (g : Getter) (hg : g ≠ claimOf op) :
    Model.get g (applySet c op).1 = Model.get g c := by
  rw [applySet_succ c op ((applySet_ok_iff c op).mp h)]
  exact assign_frame c op g hg

/-- After failure the claims-set is observably unchanged: every getter and the validation verdict
    are the same (the state differs at most in a nil container interface having become an empty
    container, which no getter or encoder distinguishes). -/
theorem set_fail_frame (c : Claims) (op : SetOp) (h : (applySet c op).2 ≠ .ok ()) :
    (applySet c op).1.normalize = c.normalize ∧
    (∀ g, Model.get g (applySet c op).1 = Model.get g c) ∧
    validate (applySet c op).1 = validate c := by
  have ha : accepts c.prof op = false := by
    cases hh : accepts c.prof op
    · rfl
    · exact absurd ((applySet_ok_iff c op).mpr hh) h
  have hn := applySet_fail c op ha
  exact ⟨hn, fun g => get_of_normalize_eq g _ _ hn, validate_of_normalize_eq _ _ hn⟩

/-- … and *exactly* unchanged — the unobservable part of the state included, which is what the encodings of a type
    embedding `P1Claims` show — for every refused setter call of profile 1 and every refused call of profile 2 other
    than the component list (whose refused call may turn a nil container interface into an empty container; both
    encode the same for every type, the claim having no `omitempty`). -/
theorem set_fail_exact (c : Claims) (op : SetOp) (h : (applySet c op).2 ≠ .ok ())
    (hp : c.prof = .p1 ∨ ∀ l, op ≠ .sw l) : (applySet c op).1 = c := by
  have ha : accepts c.prof op = false := by
    cases hh : accepts c.prof op
    · rfl
    · exact absurd ((applySet_ok_iff c op).mpr hh) h
  exact applySet_fail_exact c op ha hp

/-- non-vacuity: a refused component list on a profile-1 claims-set that has said "no measurements" -/
example : (applySet { Claims.new .p1 with sw := .nilIface, noSw := some 1 } (.sw (some [⟨none, none, none, none, none⟩]))).2 ≠ .ok () ∧
    (applySet { Claims.new .p1 with sw := .nilIface, noSw := some 1 } (.sw (some [⟨none, none, none, none, none⟩]))).1 =
      { Claims.new .p1 with sw := .nilIface, noSw := some 1 } := by
  constructor <;> decide

/-- the list a container operation carries -/
def opVals : ContOp → List SwComp
  | .add l => l
  | .replace l => l

/-- **The component container's own mutators** (`Add`, `Replace`) follow the same contract: accepted iff every component
    validates; on success `Add` appends and `Replace` replaces, exactly; a refused call changes nothing. -/
theorem container_ops (cur : List (Option SwComp)) (op : ContOp) :
    ((contStep cur op).2 = .ok () ↔ (opVals op).all compOK = true) ∧
    ((contStep cur op).2 = .ok () → (contStep cur op).1 =
      (match op with | .add l => cur ++ l.map some | .replace l => l.map some)) ∧
    ((contStep cur op).2 ≠ .ok () → (contStep cur op).1 = cur) := by
  cases op with
  | add l =>
    simp only [contStep, addVals, opVals]
    rcases validateAndConvert_cases l with h | ⟨m, h⟩
    · have hh := (validateAndConvert_ok_iff l).mp h
      rw [h]; simp [Outcome.bind, hh]
    · have hh : ¬ l.all compOK = true := fun hh => by
        rw [(validateAndConvert_ok_iff l).mpr hh] at h; cases h
      rw [h]; simp [Outcome.bind, hh]
  | replace l =>
    simp only [contStep, opVals]
    rcases validateAndConvert_cases l with h | ⟨m, h⟩
    · have hh := (validateAndConvert_ok_iff l).mp h
      rw [h]; simp [hh]
    · have hh : ¬ l.all compOK = true := fun hh => by
        rw [(validateAndConvert_ok_iff l).mpr hh] at h; cases h
      rw [h]; simp [hh]

/-- **History theorem** (last writer wins): after any sequence of setter calls on a fresh
    claims-set, the state is observably the canonical claims-set holding, per claim, the last
    value whose setter succeeded — independent of order, repetition and failed calls in between. -/
theorem history_lww (p : Prof) (ops : List SetOp) :
    (run (Claims.new p) ops).normalize = (canon p (lastOk p ops)).normalize := by
  unfold lastOk
  apply run_canon p ops (Claims.new p) {} (by cases p <;> rfl)
  cases p <;> rfl

/-- … hence every getter result and the validation verdict depend only on the final values. -/
theorem history_observation (p : Prof) (ops : List SetOp) :
    (∀ g, Model.get g (run (Claims.new p) ops) = Model.get g (canon p (lastOk p ops))) ∧
    validate (run (Claims.new p) ops) = validate (canon p (lastOk p ops)) :=
  ⟨fun g => get_of_normalize_eq g _ _ (history_lww p ops), validate_of_normalize_eq _ _ (history_lww p ops)⟩

/-- Two histories with the same last accepted values are observably the same claims-set. -/
theorem order_independence (p : Prof) (ops₁ ops₂ : List SetOp) (h : lastOk p ops₁ = lastOk p ops₂) :
    (run (Claims.new p) ops₁).normalize = (run (Claims.new p) ops₂).normalize := by
  rw [history_lww, history_lww, h]

/-- every value recorded by `lastOk` was accepted by its setter -/
def AllAccepted (p : Prof) (v : Vals) : Prop :=
  (∀ x, v.clientId = some x → accepts p (.clientId x) = true) ∧
  (∀ x, v.lifecycle = some x → accepts p (.lifecycle x) = true) ∧
  (∀ x, v.implId = some x → accepts p (.implId x) = true) ∧
  (∀ x, v.bootSeed = some x → accepts p (.bootSeed x) = true) ∧
  (∀ x, v.certRef = some x → accepts p (.certRef x) = true) ∧
  (∀ x, v.sw = some x → accepts p (.sw x) = true) ∧
  (∀ x, v.nonce = some x → accepts p (.nonce x) = true) ∧
  (∀ x, v.instId = some x → accepts p (.instId x) = true) ∧
  (∀ x, v.vsi = some x → accepts p (.vsi x) = true)

theorem lastOk_accepted (p : Prof) (ops : List SetOp) : AllAccepted p (lastOk p ops) := by
  unfold lastOk
  suffices h : ∀ v, AllAccepted p v → AllAccepted p (ops.foldl (Vals.upd p) v) from
    h {} (by simp [AllAccepted])
  induction ops with
  | nil => intro v hv; exact hv
  | cons op rest ih =>
    intro v hv
    apply ih
    unfold Vals.upd
    cases ha : accepts p op
    · simpa using hv
    · simp only [if_true]
      obtain ⟨h1, h2, h3, h4, h5, h6, h7, h8, h9⟩ := hv
      cases op <;> simp only [Vals.set] <;>
        refine ⟨?_, ?_, ?_, ?_, ?_, ?_, ?_, ?_, ?_⟩ <;>
        first | assumption | (intro x hx; cases hx; exact ha)

/-- A claims-set on which every mandatory claim was set successfully (and the component list not
    cleared) validates. -/
theorem all_mandatory_set_validates (p : Prof) (ops : List SetOp)
    (hcid : (lastOk p ops).clientId ≠ none) (hlc : (lastOk p ops).lifecycle ≠ none)
    (himpl : (lastOk p ops).implId ≠ none) (hboot : p = .p1 → (lastOk p ops).bootSeed ≠ none)
    (hnonce : (lastOk p ops).nonce ≠ none) (hinst : (lastOk p ops).instId ≠ none)
    (hsw : ∃ x, (lastOk p ops).sw = some x ∧ x ≠ some []) :
    validate (run (Claims.new p) ops) = .ok () := by
  rw [(history_observation p ops).2, C01.validate_iff_conformant]
  have hacc := lastOk_accepted p ops
  generalize lastOk p ops = v at *
  obtain ⟨cid, lc, impl, boot, cert, sw, nonce, inst, vsi⟩ := v
  obtain ⟨a1, a2, a3, a4, a5, a6, a7, a8, a9⟩ := hacc
  obtain ⟨x, hx, hxne⟩ := hsw
  simp only at hcid hlc himpl hboot hnonce hinst hx a1 a2 a3 a4 a5 a6 a7 a8 a9
  subst hx
  rw [conformant_iff_all]
  intro g
  -- each claim of the canonical object is the unconditional assignment of an accepted value
  cases g
  · cases p <;> cases x with
    | none => simp [canon, ClaimOK, Claims.new]
    | some l => simp [canon, ClaimOK, Claims.new]
  · cases cid with
    | none => exact absurd rfl hcid
    | some v => cases p <;> cases x <;> simp [canon, ClaimOK, Claims.new]
  · cases lc with
    | none => exact absurd rfl hlc
    | some v =>
      have := a2 v rfl; simp only [accepts, decide_eq_true_eq] at this
      cases p <;> cases x <;> simp [canon, ClaimOK, Claims.new, LifecycleOK, this]
  · cases impl with
    | none => exact absurd rfl himpl
    | some v =>
      have := a3 v rfl; simp only [accepts, beq_iff_eq] at this
      cases p <;> cases x <;> simp [canon, ClaimOK, Claims.new, this]
  · cases p
    · cases boot with
      | none => exact absurd rfl (hboot rfl)
      | some v =>
        have := a4 v rfl; simp only [accepts, beq_iff_eq] at this
        cases x <;> simp [canon, ClaimOK, Claims.new, this]
    · cases boot with
      | none => cases x <;> simp [canon, ClaimOK, Claims.new]
      | some v =>
        have := a4 v rfl; simp only [accepts, decide_eq_true_eq] at this
        cases x <;> simp [canon, ClaimOK, Claims.new, this]
  · cases cert with
    | none => cases p <;> cases x <;> simp [canon, ClaimOK, Claims.new]
    | some v =>
      have := a5 v rfl
      cases p <;> cases x <;>
        simp_all [canon, ClaimOK, Claims.new, accepts, isEan13_iff, isEan13p5_iff]
  · have hx' := a6 x rfl
    cases x with
    | none =>
      cases p
      · simp [canon, ClaimOK, Claims.new, NoComponents, SwField.elems]
      · simp [accepts] at hx'
    | some vals =>
      have hne : vals ≠ [] := fun h => hxne (by rw [h])
      simp only [accepts, List.all_eq_true] at hx'
      have hco : ComponentsOK (.cont (some (vals.map some))) :=
        ⟨vals, hne, rfl, fun sc hsc => (comp_validate_ok_iff sc).mp ((compOK_iff sc).mp (hx' sc hsc))⟩
      cases p
      · simp only [canon, ClaimOK, Claims.new]; exact Or.inl ⟨hco, by trivial⟩
      · simp only [canon, ClaimOK, Claims.new]; exact hco
  · cases nonce with
    | none => exact absurd rfl hnonce
    | some v =>
      have := a7 v rfl; simp only [accepts, hashOK, Bool.or_eq_true, beq_iff_eq] at this
      cases p <;> cases x <;> simp [canon, ClaimOK, Claims.new, HashLen, this, or_assoc.symm]
  · cases inst with
    | none => exact absurd rfl hinst
    | some v =>
      have := a8 v rfl; simp only [accepts, Bool.and_eq_true, beq_iff_eq] at this
      cases p <;> cases x <;> simp [canon, ClaimOK, Claims.new, InstOK, this]
  · cases vsi with
    | none => cases p <;> cases x <;> simp [canon, ClaimOK, Claims.new]
    | some v =>
      have := a9 v rfl
      cases v with
      | nil => simp [accepts] at this
      | cons b bs => cases p <;> cases x <;> simp [canon, ClaimOK, Claims.new]

-- non-vacuity: a concrete mixed history (an invalid call in the middle, a repeated claim)
example : lastOk .p2 [.implId (List.replicate 32 1), .implId [1], .clientId 5, .clientId 7]
    = { implId := some (List.replicate 32 1), clientId := some 7 } := by decide
example : (applySet (Claims.new .p1) (.bootSeed [1, 2])).2 = .err eWrongSyntax := by decide

end Psa.Props.C11
