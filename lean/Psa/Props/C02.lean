/-
  C02 — A modified token or a different key never verifies.
  Property theorems only.  Signatures are the *ideal functionality* (DESIGN §4 C02): the world's
  log holds exactly the (key, to-be-signed, signature) triples honest signers produced.  That is
  a hypothesis of the theorems (`hlog`), not an axiom; computational hardness of the real
  schemes is outside the model and only sampled by the correspondence run.
-/
import Psa.Props.C20
namespace Psa.Props.C02
open Psa Psa.Model Psa.Proofs

/-- one honest signing event: key, protected-header bytes, payload, signature returned -/
structure Signed where
  key : Nat
  prot : Bytes
  payload : Bytes
  sig : Bytes

/-- the log an honest world has after exactly these signing events -/
def logOf (l : List Signed) : List (Nat × Bytes × Bytes) :=
  l.map fun q => (q.key, toBeSigned q.prot externalAAD q.payload, q.sig)

def Bounded (l : List Signed) : Prop := ∀ q ∈ l, q.prot.length < 2 ^ 64 ∧ q.payload.length < 2 ^ 64

/-- Sig_structure is injective in (protected bytes, payload). -/
theorem tbs_injective (p p' pl pl' : Bytes) (hp : p.length < 2 ^ 64) (hp' : p'.length < 2 ^ 64)
    (hpl : pl.length < 2 ^ 64) (hpl' : pl'.length < 2 ^ 64)
    (h : toBeSigned p externalAAD pl = toBeSigned p' externalAAD pl') : p = p' ∧ pl = pl' :=
  Proofs.tbs_injective p p' externalAAD pl pl' hp hp' (by decide) hpl hpl' h

/-- **Soundness of verification.**  If `Verify(pk_k)` succeeds on an Evidence then key `k`
    honestly signed exactly this message: same protected-header bytes, same payload, same
    signature.  Hence a token whose payload or protected bytes differ from everything `k`
    signed, or whose signature is not the one returned for that very message, or any token
    under a key that signed nothing, never verifies. -/
theorem modified_never_verifies (kt : KeyTable) (w : World) (e : Ev) (k : Nat) (signed : List Signed)
    (hlog : w.log = logOf signed) (hb : Bounded signed)
    (hm : ∀ m pl, e.msg = some m → m.payload = some pl → m.prot.length < 2 ^ 64 ∧ pl.length < 2 ^ 64)
    (hv : evVerify kt w e k = .ok ()) :
    ∃ m pl, e.msg = some m ∧ m.payload = some pl ∧
      ∃ q ∈ signed, q.key = k ∧ q.prot = m.prot ∧ q.payload = pl ∧ q.sig = m.sig := by
  obtain ⟨m, pl, a, hmsg, hpl, _, _, _, hmem⟩ := verify_sound kt w e k hv
  refine ⟨m, pl, hmsg, hpl, ?_⟩
  rw [hlog] at hmem
  simp only [logOf, List.mem_map, Prod.mk.injEq] at hmem
  obtain ⟨q, hq, hk, htbs, hsig⟩ := hmem
  obtain ⟨hb1, hb2⟩ := hb q hq
  obtain ⟨hm1, hm2⟩ := hm m pl hmsg hpl
  obtain ⟨h1, h2⟩ := tbs_injective q.prot m.prot q.payload pl hb1 hm1 hb2 hm2 htbs
  exact ⟨q, hq, hk, h1, h2, hsig⟩

/-- different key: a key that signed nothing verifies nothing -/
theorem different_key_never_verifies (kt : KeyTable) (w : World) (e : Ev) (k : Nat) (signed : List Signed)
    (hlog : w.log = logOf signed) (hk : ∀ q ∈ signed, q.key ≠ k) : evVerify kt w e k ≠ .ok () := by
  intro hv
  obtain ⟨m, pl, a, _, _, _, _, _, hmem⟩ := verify_sound kt w e k hv
  rw [hlog] at hmem
  simp only [logOf, List.mem_map, Prod.mk.injEq] at hmem
  obtain ⟨q, hq, hk', _⟩ := hmem
  exact hk q hq hk'

/-- Verification never succeeds for a message that carries no algorithm in its protected
    header, no payload or no signature. -/
theorem verify_needs_alg_payload_sig (kt : KeyTable) (w : World) (e : Ev) (k : Nat) (m : Msg) (hmsg : e.msg = some m)
    (h : (∀ a, protAlg m.prot ≠ .alg a) ∨ m.payload = none ∨ m.sig = []) : evVerify kt w e k ≠ .ok () := by
  intro hv
  obtain ⟨m', pl, a, hm', hpl, ha, _, hs, _⟩ := verify_sound kt w e k hv
  rw [hmsg] at hm'; cases hm'
  rcases h with h | h | h
  · exact h a ha
  · rw [h] at hpl; cases hpl
  · exact hs h

/-- no message at all (a fresh Evidence) never verifies -/
theorem verify_needs_message (kt : KeyTable) (w : World) (c : Option Claims) (k : Nat) :
    evVerify kt w { claims := c, msg := none } k ≠ .ok () := by
  simp [evVerify]

/-- The algorithm is read from the *protected* bucket only: an empty protected header has none,
    whatever the unprotected bucket holds (the message model does not even carry it). -/
theorem empty_protected_has_no_alg : protAlg [] = .notFound := rfl

/-- The bytes the signature check is run on are determined by the decoded token alone: what
    `Verify` checks for a decoded Evidence is the Sig_structure over the token's own protected
    bytes and payload (external AAD empty, equal on the signing and the verifying side: T2). -/
theorem verify_checks_token_bytes (u : Bytes → Dec Bytes) (extra : List Bytes) (e e' : Ev) (bs : Bytes)
    (h : evUnmarshal u extra e bs = (e', .ok ())) :
    ∃ m p, e'.msg = some m ∧ m.payload = some p ∧ C20.Sign1Shape bs m.prot (.bstr p) m.sig := by
  obtain ⟨m, p, kvs, c, _, hshape, _, _, he⟩ := C20.evidence_shape u extra e e' bs h
  subst he
  have hp : m.payload = some p := by
    obtain ⟨payload, ⟨un, hd, _⟩, hpl⟩ := C20.accepts_shape bs m ‹_›
    obtain ⟨un', hd', _⟩ := hshape
    rw [hd] at hd'
    simp only [Option.some.injEq, Cbor.tag.injEq, Cbor.arr.injEq, List.cons.injEq, true_and, and_true] at hd'
    rcases hpl with ⟨p', h1, h2⟩ | ⟨h1, _⟩
    · rw [h1] at hd'; simp only [Cbor.bstr.injEq] at hd'; rw [h2, hd'.2]
    · rw [h1] at hd'; exact absurd hd'.2 (by simp [Cbor.null])
  exact ⟨m, p, rfl, hp, hshape⟩

-- non-vacuity: an honest world in which verification does succeed
def demoMsg : Msg := { prot := protOfAlg (-7), payload := some [0xa0], sig := [9, 9] }
def demoWorld : World := { log := logOf [{ key := 3, prot := protOfAlg (-7), payload := [0xa0], sig := [9, 9] }] }
example : evVerify (fun _ _ => true) demoWorld { claims := none, msg := some demoMsg } 3 = .ok () := by decide
example : evVerify (fun _ _ => true) demoWorld { claims := none, msg := some demoMsg } 4 ≠ .ok () := by decide
example : evVerify (fun _ _ => true) demoWorld { claims := none, msg := some { demoMsg with payload := some [0xa1] } } 3 ≠ .ok () := by
  decide

end Psa.Props.C02
