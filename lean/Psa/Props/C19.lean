/-
  C19 — An Evidence never verifies for claims other than the ones last signed or decoded.
  Property theorems only.  Quantifier: every history (list of operations of any length) of
  attach / sign / validate-and-sign (with honest, failing and empty-signature signers of any key
  and algorithm) / COSE-decode (any bytes) / verify (any key) on one Evidence — by induction on
  the history.  Signatures are the ideal functionality of C02.
-/
import Psa.Props.C02
namespace Psa.Props.C19
open Psa Psa.Model Psa.Proofs

inductive EvOp
  | setClaims (c : Claims)
  | sign (validated : Bool) (s : Signer)
  | unmarshal (bs : Bytes)
  | verify (k : Nat)

/-- state of a history: world, the Evidence, and two ghost flags -/
structure St where
  w : World
  e : Ev
  /-- claims were (re)attached since the last sign / decode operation -/
  replaced : Bool
  /-- the last signing attempt failed and no sign / decode has succeeded since -/
  lastSignFailed : Bool

inductive Out
  | unit (r : Outcome Unit)
  | token (r : Outcome Bytes)
  | dec (r : Dec Unit)

def Out.failed : Out → Bool
  | .unit (.ok _) => false
  | .token (.ok _) => false
  | .dec (.ok _) => false
  | _ => true

def Out.tokenOf : Out → Option Bytes
  | .token (.ok b) => some b
  | _ => none

def decOk {α} : Dec α → Bool
  | .ok _ => true
  | _ => false

variable (u : Bytes → Dec Bytes) (extra : List Bytes) (kt : KeyTable)

def step (s : St) : EvOp → St × Out
  | .setClaims c =>
    let (e', r) := evSetClaims s.e c
    ({ s with e := e', replaced := s.replaced || r.isOk }, .unit r)
  | .sign v sg =>
    let (w', e', r) := evSign v s.w s.e sg
    ({ w := w', e := e', replaced := false, lastSignFailed := !r.isOk }, .token r)
  | .unmarshal bs =>
    let (e', r) := evUnmarshal u extra s.e bs
    ({ s with e := e', replaced := false, lastSignFailed := s.lastSignFailed && !(decOk r) }, .dec r)
  | .verify k => (s, .unit (evVerify kt s.w s.e k))

def init : St := { w := World.empty, e := Ev.empty, replaced := false, lastSignFailed := false }

def run (ops : List EvOp) : St := ops.foldl (fun s o => (step u extra kt s o).1) init

/-- the attached claims are bound to the message: its payload is their encoding (after a
    signing operation) or they are its decoding (after a decode) -/
def Bound (e : Ev) : Prop :=
  ∀ c m b, e.claims = some c → e.msg = some m → m.payload = some b →
    encodeClaims c = .ok b ∨ decodeClaims u extra b = .ok c

/-- the message cannot verify under any key: it carries no signature -/
def Dead (e : Ev) : Prop := ∀ m, e.msg = some m → m.sig = []

def Inv (s : St) : Prop :=
  (s.replaced = false → Bound u extra s.e) ∧ (s.lastSignFailed = true → Dead s.e)

theorem doSign_fresh (w : World) (p : Bytes) (sg : Signer) :
    (doSign w { Msg.fresh with payload := some p } sg).2.1.payload = some p ∧
    ((doSign w { Msg.fresh with payload := some p } sg).2.2.isOk = false →
      (doSign w { Msg.fresh with payload := some p } sg).2.1.sig = []) := by
  unfold doSign
  simp only [Msg.fresh]
  cases sg.kind with
  | failing => simp
  | emptySig => simp
  | good =>
    by_cases hr : sg.reply = []
    · simp [hr]
    · simp [hr, Outcome.isOk]

theorem signPayload_ok (v : Bool) (c : Claims) (b : Bytes) (h : signPayload v (some c) = .ok b) :
    encodeClaims c = .ok b ∧ (v = true → validate c = .ok ()) := by
  unfold signPayload at h
  cases v with
  | false => simp [Outcome.bind] at h; exact ⟨h, fun hh => by cases hh⟩
  | true =>
    simp only [if_true] at h
    cases hv : validate c with
    | ok _ => rw [hv] at h; simp [Outcome.bind] at h; exact ⟨h, fun _ => rfl⟩
    | err m => rw [hv] at h; simp [Outcome.bind] at h
    | panic x => rw [hv] at h; simp [Outcome.bind] at h

/-- what a signing operation leaves behind: the claims untouched; a message whose payload (if
    any) is the encoding of the attached claims; no signature unless the operation succeeded -/
theorem evSign_spec (v : Bool) (w : World) (e : Ev) (sg : Signer) :
    (evSign v w e sg).2.1.claims = e.claims ∧
    ∃ m, (evSign v w e sg).2.1.msg = some m ∧
      ((evSign v w e sg).2.2.isOk = false → m.sig = []) ∧
      (∀ c b, e.claims = some c → m.payload = some b → encodeClaims c = .ok b) := by
  unfold evSign
  cases hp : signPayload v e.claims with
  | err m => exact ⟨rfl, Msg.fresh, rfl, fun _ => rfl, fun c b _ h => by cases h⟩
  | panic x => exact ⟨rfl, Msg.fresh, rfl, fun _ => rfl, fun c b _ h => by cases h⟩
  | ok payload =>
    have hd := doSign_fresh w payload sg
    refine ⟨rfl, _, rfl, hd.2, ?_⟩
    intro c b hc hb
    rw [hd.1] at hb
    have hbp : payload = b := Option.some.inj hb
    subst hbp
    rw [hc] at hp
    exact (signPayload_ok v c payload hp).1

/-- a failed signing operation returns no token -/
theorem evSign_failed_no_token (v : Bool) (w : World) (e : Ev) (sg : Signer) :
    (evSign v w e sg).2.2.isOk = false → ∀ b, (evSign v w e sg).2.2 ≠ .ok b := by
  intro h b hb; rw [hb] at h; cases h

/-- what a decode operation leaves behind: either it succeeded and the Evidence holds the decoded
    message together with the decoding of its payload, or it failed and the message is fresh -/
theorem evUnmarshal_cases (e : Ev) (bs : Bytes) :
    (∃ m p c, decodeEnvelope bs = .ok m ∧ m.payload = some p ∧ decodeClaims u extra p = .ok c ∧
      evUnmarshal u extra e bs = ({ claims := some c, msg := some m }, .ok ())) ∨
    (∃ cl r, evUnmarshal u extra e bs = ({ claims := cl, msg := some Msg.fresh }, r) ∧ decOk r = false) := by
  cases hd : decodeEnvelope bs with
  | err => right; exact ⟨e.claims, .err, by simp [evUnmarshal, hd], rfl⟩
  | ood => right; exact ⟨e.claims, .ood, by simp [evUnmarshal, hd], rfl⟩
  | ok m =>
    cases hp : m.payload with
    | none => right; exact ⟨none, .err, by simp [evUnmarshal, hd, hp], rfl⟩
    | some p =>
      cases hc : decodeClaims u extra p with
      | err => right; exact ⟨none, .err, by simp [evUnmarshal, hd, hp, hc], rfl⟩
      | ood => right; exact ⟨none, .ood, by simp [evUnmarshal, hd, hp, hc], rfl⟩
      | ok c => left; exact ⟨m, p, c, rfl, hp, hc, by simp [evUnmarshal, hd, hp, hc]⟩

/-- **The invariant holds in every reachable state** (induction on the history). -/
theorem inv_step (s : St) (op : EvOp) (h : Inv u extra s) : Inv u extra (step u extra kt s op).1 := by
  obtain ⟨hb, hd⟩ := h
  cases op with
  | setClaims c =>
    simp only [step, evSetClaims]
    cases hv : validate c with
    | ok _ =>
      refine ⟨fun hr => ?_, fun hl => ?_⟩
      · simp [Outcome.isOk] at hr
      · intro m hm; exact hd hl m hm
    | err m => exact ⟨fun hr => hb (by simpa [Outcome.isOk] using hr), hd⟩
    | panic x => exact ⟨fun hr => hb (by simpa [Outcome.isOk] using hr), hd⟩
  | sign v sg =>
    simp only [step]
    obtain ⟨hcl, m, hm, hsig, hpay⟩ := evSign_spec v s.w s.e sg
    refine ⟨fun _ => ?_, fun hl => ?_⟩
    · intro c m' b hc hm' hb'
      rw [hm] at hm'; cases hm'
      rw [hcl] at hc
      exact Or.inl (hpay c b hc hb')
    · intro m' hm'
      rw [hm] at hm'; cases hm'
      exact hsig (by simpa using hl)
  | unmarshal bs =>
    simp only [step]
    rcases evUnmarshal_cases u extra s.e bs with ⟨m, p, c, _, hp, hc, heq⟩ | ⟨cl, r, heq, hr⟩
    · rw [heq]
      refine ⟨fun _ => ?_, fun hl => ?_⟩
      · intro c' m' b hc' hm' hb'
        cases hc'; cases hm'
        rw [hp] at hb'; cases hb'
        exact Or.inr hc
      · simp [decOk] at hl
    · rw [heq]
      refine ⟨fun _ => ?_, fun _ => ?_⟩
      · intro c' m' b _ hm' hb'
        cases hm'; cases hb'
      · intro m' hm'; cases hm'; rfl
  | verify k => exact ⟨hb, hd⟩

theorem inv_reachable (ops : List EvOp) : Inv u extra (run u extra kt ops) := by
  unfold run
  suffices h : ∀ s, Inv u extra s → Inv u extra (ops.foldl (fun s o => (step u extra kt s o).1) s) from
    h init ⟨fun _ c m b hc _ _ => by simp [init, Ev.empty] at hc, fun h => by simp [init] at h⟩
  induction ops with
  | nil => intro s hs; exact hs
  | cons op rest ih => intro s hs; exact ih _ (inv_step u extra kt s op hs)

/-- (i) A failed operation returns no token. -/
theorem failed_op_no_token (s : St) (op : EvOp) (h : (step u extra kt s op).2.failed = true) :
    (step u extra kt s op).2.tokenOf = none := by
  cases op <;> simp only [step, Out.tokenOf] at h ⊢
  rename_i v sg
  cases hr : (evSign v s.w s.e sg).2.2 <;> simp_all [Out.failed]

/-- (ii) Whenever verification succeeds in a reachable state and the claims were not replaced
    since the last sign or decode, the attached claims are nil, or the payload the verified
    signature covers is their encoding / they are its decoding. -/
theorem verified_claims_bound (ops : List EvOp) (k : Nat)
    (hv : evVerify kt (run u extra kt ops).w (run u extra kt ops).e k = .ok ())
    (hr : (run u extra kt ops).replaced = false) :
    (run u extra kt ops).e.claims = none ∨
    ∃ c m b, (run u extra kt ops).e.claims = some c ∧ (run u extra kt ops).e.msg = some m ∧ m.payload = some b ∧
      (encodeClaims c = .ok b ∨ decodeClaims u extra b = .ok c) := by
  obtain ⟨m, pl, _, hm, hpl, _⟩ := verify_sound kt _ _ k hv
  cases hc : (run u extra kt ops).e.claims with
  | none => exact Or.inl rfl
  | some c => exact Or.inr ⟨c, m, pl, rfl, hm, hpl, (inv_reachable u extra kt ops).1 hr c m pl hc hm hpl⟩

/-- (iii) After a failed signing attempt verification fails, for every key, until the next
    successful sign or decode. -/
theorem no_verify_after_failed_sign (ops : List EvOp) (k : Nat) (h : (run u extra kt ops).lastSignFailed = true) :
    evVerify kt (run u extra kt ops).w (run u extra kt ops).e k ≠ .ok () := by
  intro hv
  obtain ⟨m, _, _, hm, _, _, _, hs, _⟩ := verify_sound kt _ _ k hv
  exact hs ((inv_reachable u extra kt ops).2 h m hm)

/-- (iv) A failure does not prevent a later success: whatever the history, signing valid attached
    claims with an honest signer succeeds and the result verifies under the signer's key. -/
theorem failure_not_sticky (s : St) (c : Claims) (sg : Signer) (b : Bytes) (hc : s.e.claims = some c)
    (hval : validate c = .ok ()) (henc : encodeClaims c = .ok b) (hg : sg.kind = .good) (hr : sg.reply ≠ [])
    (hkt : kt sg.key sg.alg = true) (halg : protAlg (protOfAlg sg.alg) = .alg sg.alg) :
    let s' := (step u extra kt s (.sign true sg)).1
    (step u extra kt s (.sign true sg)).2.failed = false ∧ evVerify kt s'.w s'.e sg.key = .ok () := by
  have hp : signPayload true s.e.claims = .ok b := by
    rw [hc]; simp [signPayload, hval, henc, Outcome.bind]
  simp only [step, evSign, hp, doSign, Msg.fresh, hg, hr, if_false]
  refine ⟨rfl, ?_⟩
  simp [evVerify, halg, hkt, hr, World.sigVerify]

/-- (v) Signing twice yields two tokens; each is the tag-18 envelope of its own message and the
    log holds a signature entry for each (so each verifies independently under its key). -/
theorem sign_logs_its_token (w : World) (e : Ev) (sg : Signer) (v : Bool) (tok : Bytes)
    (h : (evSign v w e sg).2.2 = .ok tok) :
    ∃ m p, (evSign v w e sg).2.1.msg = some m ∧ m.payload = some p ∧ tok = (envelopeTree m).enc ∧
      (sg.key, toBeSigned m.prot externalAAD p, m.sig) ∈ (evSign v w e sg).1.log ∧
      ∀ entry ∈ w.log, entry ∈ (evSign v w e sg).1.log := by
  unfold evSign at h ⊢
  cases hp : signPayload v e.claims with
  | err m => rw [hp] at h; cases h
  | panic x => rw [hp] at h; cases h
  | ok payload =>
    rw [hp] at h
    simp only [] at h ⊢
    unfold doSign at h ⊢
    simp only [Msg.fresh] at h ⊢
    cases hk : sg.kind with
    | failing => rw [hk] at h; cases h
    | emptySig => rw [hk] at h; cases h
    | good =>
      rw [hk] at h
      simp only [] at h ⊢
      by_cases hr : sg.reply = []
      · simp [hr] at h
      · simp only [hr, if_false] at h ⊢
        cases h
        exact ⟨_, payload, rfl, rfl, rfl, by simp, fun entry he => by simp [he]⟩

end Psa.Props.C19
