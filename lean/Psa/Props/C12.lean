/-
  C12 — JSON round-trips and is equivalent to the CBOR form.
  Property theorems only.  The claims-level theorems are about JSON trees; the `json_text_*` theorems at the end
  carry them down to bytes: the text `json.Marshal` emits for a tree (`JText.render`, modelled after `appendString`
  with HTML escaping) reads back, through the model of Go's reader (`JText.parseDoc`), to the same tree.  Both
  functions are tied to encoding/json by ops `jrender` / `jtext`; the library's own output goes through `jtext`.
-/
import Psa.Proofs.JsonShape
import Psa.Proofs.Base64
import Psa.Tie.Facts.Fields
import Psa.Props.C01
import Psa.Proofs.JsonRoundTrip
import Psa.Proofs.JsonText
import Psa.Proofs.JsonTextClaims
namespace Psa.Props.C12
open Psa Psa.Model Psa.Spec Psa.Proofs

/-- base64 (standard, padded): decoding the encoding of any byte string returns it. -/
theorem b64_roundtrip (b : Bytes) : b64dec (b64enc b) = some b := Proofs.b64_roundtrip b

/-- hence a byte-string claim written to JSON reads back exactly -/
theorem bytes_json_roundtrip (b : Bytes) : jDecBytes (jBytes b) = .ok (some b) := by
  simp [jDecBytes, jBytes, Proofs.b64_roundtrip]

/-- JSON uses the documented member names, base64 strings for byte strings, numbers for
    integers, and has one member per claim that is set — absent optional claims are omitted. -/
theorem json_shape (c : Claims) (hv : validate c = .ok ()) : encodeJSON c = .ok (jsonDoc c) :=
  encode_json c hv

/-- a member is present iff its claim is set, and carries exactly that claim's value -/
theorem json_member_iff (c : Claims) (n : Bytes) (v : Json) :
    (n, v) ∈ jsonMembers c ↔ ∃ f ∈ JField.of c.prof, n = f.name c.prof ∧ jsonVal c f = some v := by
  simp only [jsonMembers, List.mem_filterMap, Option.map_eq_some_iff, Prod.mk.injEq]
  constructor
  · rintro ⟨f, hf, w, hw, rfl, rfl⟩; exact ⟨f, hf, rfl, hw⟩
  · rintro ⟨f, hf, rfl, hw⟩; exact ⟨f, hf, v, hw, rfl, rfl⟩

/-- member names are pairwise distinct (no duplicate members) -/
theorem json_names_distinct : ((JField.of .p1).map (JField.name .p1)).Nodup ∧
    ((JField.of .p2).map (JField.name .p2)).Nodup ∧ (CField.all.map CField.name).Nodup := names_distinct

/-- The member names of the spec are the `json` struct tags read off /repo on this run. -/
theorem names_are_the_struct_tags :
    (Generated.Facts.fieldsP1Claims.filter (fun f => !f.jsonSkip)).map (fun f => strBytes f.jsonName) =
      (JField.of .p1).map (JField.name .p1) ∧
    (Generated.Facts.fieldsP2Claims.filter (fun f => !f.jsonSkip)).map (fun f => strBytes f.jsonName) =
      (JField.of .p2).map (JField.name .p2) ∧
    Generated.Facts.fieldsSwComponent.map (fun f => strBytes f.jsonName) = CField.all.map CField.name := by
  decide

/-- The dispatching decoder on a document without any profile member (or a null one) uses the
    default entry — profile 1 (the repaired behaviour, fix 222f410). -/
theorem json_no_profile_is_default (u : Bytes → Dec Bytes) (ms : List (Bytes × Json))
    (hc : namesClean ms = true) (h1 : lookupMember ms jP1Profile = none ∨ lookupMember ms jP1Profile = some .null)
    (h2 : lookupMember ms jP2Profile = none ∨ lookupMember ms jP2Profile = some .null) :
    decodeClaimsJSON u builtinRegistry (.obj ms) = unmarshalJSONInto u (Claims.new .p1) (.obj ms) := by
  unfold decodeClaimsJSON
  simp only [hc, Bool.not_true, Bool.false_eq_true, if_false]
  have hd : dispatchJSON builtinRegistry ms = .none := by
    rcases h1 with h1 | h1 <;> rcases h2 with h2 | h2 <;>
      simp [dispatchJSON, builtinRegistry, dispatchStep, entryMatches, h1, h2]
  have hp : profilePresent builtinRegistry ms = false := by
    rcases h1 with h1 | h1 <;> rcases h2 with h2 | h2 <;>
      simp [profilePresent, builtinRegistry, h1, h2]
  rw [hd]; simp only [hp, Bool.false_eq_true, if_false]
  rfl

-- non-vacuity
example : b64enc [1, 2, 3, 4] = strBytes "AQIDBA==" := by decide
example : validate C01.sampleP2 = .ok () := by decide

/-- **decoding its own JSON encoding yields the claims-set again** (tree level; the dispatcher included): for every valid
    claims-set of a built-in profile, up to the container holding the components -/
theorem json_decode_encode (u : Bytes → Dec Bytes) (c : Claims) (hv : validate c = .ok ()) (hb : Proofs.ClaimsBounded c)
    (hbi : Proofs.RT.Builtin c) (hu : u p2Name = .ok p2Name) :
    ∃ j, encodeJSON c = .ok j ∧ decodeClaimsJSON u builtinRegistry j = .ok (Proofs.RT.rt c) :=
  Proofs.JRT.json_decode_encode u c hv hb hbi hu

/-- **CBOR → claims → JSON → claims → CBOR reproduces the original bytes**, with identical getter results on the way -/
theorem cbor_json_cbor (u : Bytes → Dec Bytes) (extra : List Bytes) (c : Claims) (hv : validate c = .ok ())
    (hb : Proofs.ClaimsBounded c) (ht : Proofs.RT.TextOK c) (hbi : Proofs.RT.Builtin c) (hu : u p2Name = .ok p2Name) :
    ∃ b c1 j c2, encodeClaims c = .ok b ∧ decodeClaims u extra b = .ok c1 ∧ encodeJSON c1 = .ok j ∧
      decodeClaimsJSON u builtinRegistry j = .ok c2 ∧ encodeClaims c2 = .ok b ∧ ∀ g, Model.get g c2 = Model.get g c :=
  Proofs.JRT.cbor_json_cbor u extra c hv hb ht hbi hu

/-! ### the text layer -/

/-- **a string reads back from its JSON literal**: for every valid UTF-8 string — quotes, backslashes, control
    characters, `<`, `>`, `&`, U+2028 / U+2029 and every multi-byte sequence included — the reader applied to the
    writer's literal (and whatever follows the closing quote) returns the string and what follows -/
theorem json_text_string_roundtrip (s : Bytes) (hs : validUTF8 s = true) (tail : Bytes) (f : Nat)
    (hf : (JText.renderBody s).length < f) :
    JText.parseBody f (JText.renderBody s ++ 0x22 :: tail) = some (s, tail) :=
  JText.parseBody_renderBody s hs tail f hf

/-- **an integer of any size and sign reads back from its decimal text** (followed by nothing or by a delimiter) -/
theorem json_text_int_roundtrip (i : Int) (rest : Bytes) (hr : JText.NumEnd rest) :
    JText.parseNumber (JText.renderInt i ++ rest) = some (.int i, rest) :=
  JText.parseNumber_renderInt i rest hr

/-- **a document reads back from its text**: every tree with integer numbers and valid UTF-8 strings and member
    names, of any size and nesting -/
theorem json_text_roundtrip (j : Json) (hw : JText.WF j = true) : JText.parseDoc (JText.render j) = some j :=
  JText.parseDoc_render j hw

/-- **whitespace around a document is immaterial**: with any run of space / tab / CR / LF before and after it, the
    rendered document reads back to the same tree -/
theorem json_text_whitespace (j : Json) (hw : JText.WF j = true) (pre post : Bytes)
    (h1 : JText.AllWs pre) (h2 : JText.AllWs post) : JText.parseDoc (pre ++ (JText.render j ++ post)) = some j :=
  JText.parseDoc_ws_render_ws j hw pre post h1 h2

/-- **byte level, claims**: for every valid claims-set of a built-in profile whose text claims are valid UTF-8, the JSON
    *text* of its encoding (`render`) reads back (`parseDoc`) to the encoded document, and that document decodes
    through the dispatching decoder to the claims-set (up to the container holding the components) -/
theorem json_bytes_decode_encode (u : Bytes → Dec Bytes) (c : Claims) (hv : validate c = .ok ()) (hb : Proofs.ClaimsBounded c)
    (hbi : Proofs.RT.Builtin c) (hu : u p2Name = .ok p2Name) (ht : Proofs.RT.TextOK c) :
    ∃ j, encodeJSON c = .ok j ∧ JText.parseDoc (JText.render j) = some j ∧
      decodeClaimsJSON u builtinRegistry j = .ok (Proofs.RT.rt c) := by
  obtain ⟨j, he, hd⟩ := json_decode_encode u c hv hb hbi hu
  have hj : j = jsonDoc c := by
    have := json_shape c hv
    rw [he] at this
    cases this; rfl
  subst hj
  exact ⟨_, he, Proofs.JTC.parseDoc_render_jsonDoc c ht, hd⟩

/-- the documented JSON form of a claims-set with valid UTF-8 text is within the writer's domain: integer numbers,
    ASCII member names, base64 strings, valid UTF-8 text -/
theorem json_doc_in_text_domain (c : Claims) (ht : Proofs.RT.TextOK c) : JText.WF (jsonDoc c) = true :=
  Proofs.JTC.wf_jsonDoc c ht

-- non-vacuity: a document with an escape of each kind
example : JText.WF (.obj [(strBytes "a<b", .arr [.int (-12), .str [0x22, 0x5C, 0x0A, 0x01, 0xE2, 0x80, 0xA8, 0xC3, 0xA9], .null])]) = true := by
  decide
example : JText.parseBody 100 (strBytes "\\u00e9\\ud83d\\ude00\\n\"x") =
    some ([0xC3, 0xA9, 0xF0, 0x9F, 0x98, 0x80, 0x0A], strBytes "x") := by
  decide

end Psa.Props.C12
