/-
  C09 — CBOR encode/decode is the identity on claims and stable on bytes.
  Property theorems only.  (The observational round-trip theorem over the typed decoder is
  in `decode_encode_*`; text claims must be valid UTF-8 — the one recorded defect, D10.)
-/
import Psa.Proofs.WireShape
import Psa.Proofs.Setters
import Psa.Props.C10
import Psa.Proofs.RoundTrip
namespace Psa.Props.C09
open Psa Psa.Model Psa.Spec Psa.Proofs

/-- Encoding cannot tell a nil component interface from an empty container: together with
    C11.history_lww, the encoding of a setter-built claims-set depends only on the final values. -/
theorem encode_normalize (c : Claims) : encodeClaims c.normalize = encodeClaims c := by
  obtain ⟨prof, canonical, profile, clientId, lifecycle, implId, bootSeed, certRef, sw, noSw, nonce, instId, vsi⟩ := c
  cases prof <;> cases sw <;> rfl

/-- The bytes emitted for a valid claims-set decode (with the verified CBOR reader) to exactly
    the wire token of that claims-set: one entry per claim that is set, value for value. -/
theorem own_encoding_reads_back (c : Claims) (hv : validate c = .ok ()) (hb : ClaimsBounded c) :
    ∃ b, encodeClaims c = .ok b ∧ Cbor.decodeAll {} b = some (wireToken c) := by
  obtain ⟨b, h1, h2, _⟩ := C10.nothing_follows c hv hb
  exact ⟨b, h1, h2⟩

/-- Text that is not valid UTF-8 is the recorded exception (D10): such a claims-set validates and
    encodes, and its own encoding is rejected by the typed decoder. -/
theorem invalid_utf8_rejected_on_decode : decText (.tstr [0xff]) = .err := by decide

/-- **decode ∘ encode, through the typed decoder**: for every valid claims-set of a built-in profile whose free text is
    valid UTF-8 (the recorded exception D10 is exactly the violation of this hypothesis), the library's decoder applied
    to the library's encoding — well-formedness pass, profile dispatch on key 265, struct decode key by key, component
    arrays, nonce forms — returns the claims-set itself up to the container holding the components (`RT.rt`). `u` is the
    URL normaliser of `eat.Profile` (an oracle of the model); it must leave the profile-2 name as it is. -/
theorem decode_encode (u : Bytes → Dec Bytes) (extra : List Bytes) (c : Claims) (hv : validate c = .ok ())
    (hb : ClaimsBounded c) (ht : RT.TextOK c) (hbi : RT.Builtin c) (hu : u p2Name = .ok p2Name) :
    ∃ b, encodeClaims c = .ok b ∧ decodeClaims u extra b = .ok (RT.rt c) :=
  RT.decode_encode u extra c hv hb ht hbi hu

/-- **identical getter results, still valid, and re-encoding reproduces the bytes** -/
theorem decode_encode_obs (u : Bytes → Dec Bytes) (extra : List Bytes) (c : Claims) (hv : validate c = .ok ())
    (hb : ClaimsBounded c) (ht : RT.TextOK c) (hbi : RT.Builtin c) (hu : u p2Name = .ok p2Name) :
    ∃ b c', encodeClaims c = .ok b ∧ decodeClaims u extra b = .ok c' ∧ (∀ g, Model.get g c' = Model.get g c) ∧
      validate c' = .ok () ∧ encodeClaims c' = .ok b :=
  RT.decode_encode_obs u extra c hv hb ht hbi hu

-- non-vacuity: the sample profile-2 claims-set of C01 meets every hypothesis of the round-trip theorems
example : validate C01.sampleP2 = .ok () := by decide
example : RT.Builtin C01.sampleP2 := Or.inr ⟨rfl, rfl, rfl⟩
example : RT.TextOK C01.sampleP2 := by
  refine ⟨?_, ?_, ?_, ?_⟩
  · intro s h
    simp only [C01.sampleP2, Option.some.injEq, ProfVal.str.injEq] at h
    rw [← h]; exact RT.p2Name_text.1
  · intro s h; simp [C01.sampleP2] at h
  · intro s h; simp [C01.sampleP2] at h
  · intro sc h
    simp only [heldComps, C01.sampleP2, SwField.elems, List.filterMap_cons, id, List.filterMap_nil, List.mem_singleton] at h
    subst h
    refine ⟨?_, ?_, ?_⟩ <;> (intro s h; simp [C01.sampleComp] at h)

end Psa.Props.C09
