/-
  C09 — CBOR encode/decode is the identity on claims and stable on bytes.
  Property theorems only.  (The observational round-trip theorem over the typed decoder is
  in `decode_encode_*`; text claims must be valid UTF-8 — the one recorded defect, D10.)
-/
import Psa.Proofs.WireShape
import Psa.Proofs.Setters
import Psa.Props.C10
namespace Psa.Props.C09
open Psa Psa.Model Psa.Spec Psa.Proofs

/-- Encoding cannot tell a nil component interface from an empty container: together with
    C11.history_lww, the encoding of a setter-built claims-set depends only on the final values. -/
theorem encode_normalize (c : Claims) : encodeClaims c.normalize = encodeClaims c := by
  obtain ⟨prof, canonical, profile, clientId, lifecycle, implId, bootSeed, certRef, sw, noSw, nonce, instId, vsi⟩ := c
  cases prof <;> cases sw <;> rfl

/-- The bytes emitted for a valid claims-set decode (with the verified CBOR reader) to exactly
    the wire token of that claims-set: one entry per claim that is set, value for value. -/
theorem own_encoding_reads_back (c : Claims) (hv : validate c = .ok ()) (hb : ClaimsBounded c) :
    ∃ b, encodeClaims c = .ok b ∧ Cbor.decodeAll {} b = some (wireToken c) := by
  obtain ⟨b, h1, h2, _⟩ := C10.nothing_follows c hv hb
  exact ⟨b, h1, h2⟩

/-- Text that is not valid UTF-8 is the recorded exception (D10): such a claims-set validates and
    encodes, and its own encoding is rejected by the typed decoder. -/
theorem invalid_utf8_rejected_on_decode : decText (.tstr [0xff]) = .err := by decide

end Psa.Props.C09
