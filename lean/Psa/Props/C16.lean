/-
  C16 — Profile registry is append-only; every claims instance is independent.
  Property theorems only.  The register is modelled as an association list in *arbitrary order* (Go's map
  iteration order is unspecified); histories are lists of register / NewClaims / decode operations.
  "Declares that profile": for CBOR, the profile claim equals the profile's name; for JSON, the document carries
  the profile's own profile member with a non-null value (see DESIGN.md §C16 on this reading).
  Instance independence of the Go objects (no shared mutable state between results) has no counterpart in a
  value-semantics model: it is decided on the implementation by the harness (mutate one, read the others).
-/
import Psa.Proofs.Registry
import Psa.Tie.Facts.State
import Psa.Proofs.ProfileTag
namespace Psa.Props.C16
open Psa Psa.Model Psa.Model.Reg Psa.Proofs.Reg

theorem names_distinct : p1Name ≠ [] ∧ p2Name ≠ [] ∧ p1Name ≠ p2Name := by decide

theorem inv3 (a b t1 t2 : Bytes) (h1 : a ≠ []) (h2 : b ≠ []) (h3 : a ≠ b) :
    RegInv [{ key := [], profName := a, jsonTag := t1, entry := .p1 }, { key := a, profName := a, jsonTag := t1, entry := .p1 },
            { key := b, profName := b, jsonTag := t2, entry := .p2 }] := by
  have h1' : ¬ ([] : Bytes) = a := fun h => h1 h.symm
  have h2' : ¬ ([] : Bytes) = b := fun h => h2 h.symm
  have h3' : ¬ b = a := fun h => h3 h.symm
  constructor
  · simp [h1', h2', h3]
  · intro e he hk
    simp only [List.mem_cons, List.mem_nil_iff, or_false] at he
    rcases he with rfl | rfl | rfl
    · exact absurd rfl hk
    · rfl
    · rfl
  · simp [lookup]
  · intro e he hk
    simp only [List.mem_cons, List.mem_nil_iff, or_false] at he
    rcases he with rfl | rfl | rfl
    · refine ⟨?_, h1⟩
      simp [lookup, h1']
    · exact absurd hk h1
    · exact absurd hk h2
  · intro e1 m1 e2 m2 hp
    simp only [List.mem_cons, List.mem_nil_iff, or_false] at m1 m2
    rcases m1 with rfl | rfl | rfl <;> rcases m2 with rfl | rfl | rfl <;>
      first
        | exact ⟨rfl, rfl⟩
        | exact absurd hp h3
        | exact absurd hp h3'

/-- the register built by `init()` satisfies the invariant -/
theorem builtin_inv : RegInv builtinRegistry := by
  obtain ⟨h1, h2, h3⟩ := names_distinct
  unfold builtinRegistry
  exact inv3 p1Name p2Name jP1Profile jP2Profile h1 h2 h3

/-- **every reachable register satisfies the invariant** (keys distinct, entries coherent, default present) -/
theorem reachable_inv (ops : List Op) : RegInv (run builtinRegistry ops).1 :=
  run_inv ops _ builtin_inv

/-- **registering under an existing name fails, and so does a claims type with no identifiable profile field;
    either way all lookups are unchanged** -/
theorem failed_registration_changes_nothing (reg : Registry) (p : ProfDesc)
    (h : (lookup reg p.name).isSome ∨ p.jsonTag = none) :
    register reg p = .err eOther ∧ (step reg (.register p)).1 = reg ∧ (step reg (.register p)).2 = .err := by
  have he : register reg p = .err eOther := by
    rcases h with h | h
    · exact register_dup reg p h
    · exact register_notag reg p h
  exact ⟨he, step_register_fail reg p (by rw [he]; intro r hr; cases hr), by simp [step, he]⟩

/-! ### which claims types have an identifiable profile field (`encoding.GetProfileJSONTag`, the walk registration runs) -/

/-- the JSON tag registration stores for a claims value described by `d`: what the walk finds, `none` on any error -/
def tagOfType (d : PTag.TDesc) : Option Bytes :=
  match PTag.getProfileJSONTag d with
  | .ok t => some (strBytes t)
  | _ => none

/-- **the walk returns a tag or an error for every value** — structs, pointers, nil pointers, interfaces holding
    values or pointers, at any embedding depth (since fix 0ef7c5d; `old_walk_panicked` below is the former behaviour) -/
theorem profile_tag_total (d : PTag.TDesc) : PTag.getProfileJSONTag d ≠ .panic := Proofs.PTag.get_total d

/-- **a claims type with no identifiable profile field is refused and nothing changes**: no own field with CBOR key
    265 / -75000 or named `Profile` without a `cbor` tag, and none in any embedded struct or in what an embedded
    interface holds -/
theorem no_profile_field_registration_fails (reg : Registry) (p : ProfDesc) (d : PTag.TDesc)
    (hp : p.jsonTag = tagOfType d) (h : PTag.hasProfile d = false) (h' : ∀ e, d = .ptr e → PTag.hasProfile e = false) :
    register reg p = .err eOther ∧ (step reg (.register p)).1 = reg ∧ (step reg (.register p)).2 = .err := by
  apply failed_registration_changes_nothing reg p
  right
  rw [hp, tagOfType, Proofs.PTag.get_noProfile d h h']

/-- the walk before the repair: a claims type whose embedded interface holds a *pointer* (what the populate helpers
    require) made `NumField` panic — found by this check, replayed on the implementation, repaired in /repo 0ef7c5d -/
theorem old_walk_panicked :
    PTag.tagOfOld (.struct (.cons ⟨"I", true, "I", .iface, none, none⟩
      (.ptr (.struct (.cons ⟨"P", false, "", .ptr, some "265", some "eat-profile"⟩ .other .nil))) .nil)) = .panic := by
  decide

-- non-vacuity: the same value through the repaired walk; a type without a profile field; the own field wins
example : PTag.getProfileJSONTag (.ptr (.struct (.cons ⟨"I", true, "I", .iface, none, none⟩
      (.ptr (.struct (.cons ⟨"P", false, "", .ptr, some "265", some "eat-profile"⟩ .other .nil))) .nil))) = .ok "eat-profile" := by
  decide
example : PTag.hasProfile (.struct (.cons ⟨"A", false, "", .ptr, some "1", some "a"⟩ .other .nil)) = false := by decide

/-- **append-only**: a successful registration only adds one entry at the end; nothing is removed or replaced -/
theorem registration_appends (reg r : Registry) (p : ProfDesc) (h : register reg p = .ok r) :
    ∃ e, r = reg ++ [e] ∧ e.key = p.name := register_appends reg r p h

/-- **a new profile changes `NewClaims` and CBOR decoding only for its own name** -/
theorem new_profile_frame_cbor (reg r : Registry) (p : ProfDesc) (h : register reg p = .ok r) (n : Bytes)
    (hn : n ≠ p.name) : newClaims r n = newClaims reg n ∧ dispatchCBOR r n = dispatchCBOR reg n :=
  newClaims_frame reg r p h n hn

/-- **… and JSON decoding only for documents carrying its profile member** -/
theorem new_profile_frame_json (reg r : Registry) (p : ProfDesc) (h : register reg p = .ok r) (hi : RegInv reg)
    (ms : List (Bytes × Json)) (t : Bytes) (ht : p.jsonTag = some t) (hm : mentions ms t = false) :
    dispatchJSONOut r ms = dispatchJSONOut reg ms := json_frame reg r p h hi ms t ht hm

/-- **JSON dispatch gives the same outcome on every call regardless of registry iteration order**: for every
    reachable register and every reordering of it -/
theorem json_dispatch_order_free (ops : List Op) (r2 : Registry) (hp : (run builtinRegistry ops).1.Perm r2)
    (ms : List (Bytes × Json)) : dispatchJSONOut (run builtinRegistry ops).1 ms = dispatchJSONOut r2 ms :=
  json_dispatch_perm (reachable_inv ops) hp ms

/-- name lookups are order-free too -/
theorem lookup_order_free (ops : List Op) (r2 : Registry) (hp : (run builtinRegistry ops).1.Perm r2) (n : Bytes) :
    newClaims (run builtinRegistry ops).1 n = newClaims r2 n := by
  unfold newClaims lookup
  apply findmap_perm _ _ hp
  intro a ha b hb qa qb
  have ka : a.key = n := by simpa using qa
  have kb : b.key = n := by simpa using qb
  rw [eq_of_key_eq _ (reachable_inv ops).keysNodup a ha b hb (by rw [ka, kb])]

/-- T2: in either package, the only code that writes a package-level variable is reachable from `RegisterProfile`
    and the package's `init` alone (regenerated fact; writers are named by the exported entry points that reach them,
    so that renaming an internal helper changes nothing) — registration is the only writer the model needs -/
theorem only_registration_writes :
    Generated.Facts.globalWriters = [("psatoken", "RegisterProfile+init", "profilesRegister")] :=
  Tie.Facts.globalWriters

-- non-vacuity: a history with a successful, a duplicate and a tag-less registration
def extA : ProfDesc := { name := strBytes "http://example.com/a", jsonTag := some jP2Profile, entry := .other }
def noTag : ProfDesc := { name := strBytes "http://example.com/b", jsonTag := none, entry := .other }
example : (run builtinRegistry [.register extA, .register extA, .register noTag, .newClaims extA.name]).2
    = [.ok, .err, .err, .impl (some .other)] := by decide

end Psa.Props.C16
