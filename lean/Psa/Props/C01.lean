/-
  C01 — Validate() accepts a claims-set iff it satisfies its profile's rules.
  Property theorems only.  Quantifier: every `Claims` value of either profile —
  all byte-string lengths, all lifecycle values, all strings, component lists of
  any length with nil elements allowed; no bound anywhere.
-/
import Psa.Proofs.NoPanic
namespace Psa.Props.C01
open Psa Psa.Model Psa.Spec Psa.Proofs

/-- Validation succeeds exactly when the claims-set is conformant. -/
theorem validate_iff_conformant (c : Claims) : validate c = .ok () ↔ Conformant c := by
  unfold validate
  rw [validateWith_ok_iff, conformant_iff_all]
  constructor
  · intro h g
    exact (pass_iff g c).mp (h g (by cases g <;> simp [validateOrder]))
  · intro h g _
    exact (pass_iff g c).mpr (h g)

/-- The verdict does not depend on the order in which `ValidateClaims` walks the
    getters, nor on repetitions: any list containing all ten gives the same verdict.
    (This is what makes the tie to the source a *coverage* obligation only.) -/
theorem validate_order_irrelevant (c : Claims) (o : List Getter) (h : ∀ g, g ∈ o) :
    validateWith o c = .ok () ↔ Conformant c := by
  rw [validateWith_ok_iff, conformant_iff_all]
  exact ⟨fun hp g => (pass_iff g c).mp (hp g (h g)), fun hc g _ => (pass_iff g c).mpr (hc g)⟩

-- non-vacuity: a concrete conformant profile-2 claims-set (so both directions of the iff are inhabited)
def sampleComp : SwComp :=
  { mtype := none, mval := some (List.replicate 32 0), version := none, signer := some (List.replicate 48 7), mdesc := none }
def sampleP2 : Claims :=
  { prof := .p2, canonical := p2Name, profile := some (.str p2Name), clientId := some (-3),
    lifecycle := some 0x3000, implId := some (List.replicate 32 1), bootSeed := some (List.replicate 8 2),
    certRef := none, sw := .cont (some [some sampleComp]), noSw := none,
    nonce := some [List.replicate 64 3], instId := some (1 :: List.replicate 32 4), vsi := none }
example : validate sampleP2 = .ok () := by decide
example : validate { sampleP2 with bootSeed := some (List.replicate 7 2) } = .err eWrongSyntax := by decide


/-- a claims-set that is wrong in claim `g` only -/
def breakOne : Getter → Claims
  | .profile => { sampleP2 with profile := none }
  | .clientId => { sampleP2 with clientId := none }
  | .lifecycle => { sampleP2 with lifecycle := some 0x1100 }
  | .implId => { sampleP2 with implId := some (List.replicate 31 1) }
  | .bootSeed => { sampleP2 with bootSeed := some (List.replicate 7 2) }
  | .certRef => { sampleP2 with certRef := some [49] }
  | .sw => { sampleP2 with sw := .cont none }
  | .nonce => { sampleP2 with nonce := none }
  | .instId => { sampleP2 with instId := some (0 :: List.replicate 32 4) }
  | .vsi => { sampleP2 with vsi := some [] }

/-- Dropping any one getter from the walk lets a non-conformant claims-set through:
    coverage of all ten getters is necessary, not only sufficient. -/
theorem validate_needs_every_getter (g : Getter) :
    ∃ c, ¬ Conformant c ∧ validateWith (Getter.all.filter (· ≠ g)) c = .ok () := by
  refine ⟨breakOne g, ?_, ?_⟩
  · rw [← validate_iff_conformant]; cases g <;> decide
  · cases g <;> decide

/-- After a successful validation every mandatory getter succeeds with a conformant
    value, and every optional getter returns a conformant value or the
    missing-optional error. -/
theorem getters_after_validate (c : Claims) (h : validate c = .ok ()) (g : Getter) :
    (Mandatory c.prof g = true → ∃ v, Model.get g c = .ok v ∧ ConformantVal c.prof c.canonical g v) ∧
    (Mandatory c.prof g = false →
      (∃ v, Model.get g c = .ok v ∧ ConformantVal c.prof c.canonical g v) ∨
      Model.get g c = .err eMissingOptional) := by
  have hp : Pass g c := by
    unfold validate at h
    exact (validateWith_ok_iff _ _).mp h g (by cases g <;> simp [validateOrder])
  rcases pass_cases g c hp with ⟨v, hv⟩ | ⟨hm, he⟩
  · exact ⟨fun _ => ⟨v, hv, get_ok_conformant g c v hv⟩, fun _ => Or.inl ⟨v, hv, get_ok_conformant g c v hv⟩⟩
  · exact ⟨(fun hm' => by rw [hm] at hm'; cases hm'), fun _ => Or.inr he⟩

/-- A getter never returns a non-conformant value, validated or not. -/
theorem getter_values_conformant (g : Getter) (c : Claims) (v : Val) (h : Model.get g c = .ok v) :
    ConformantVal c.prof c.canonical g v := get_ok_conformant g c v h

/-- The verdict is one of: accepted, or rejected with an error — validation never panics,
    nil component entries included (fix 41aaac8). -/
theorem validate_total (c : Claims) : ∀ s, validate c ≠ .panic s :=
  noPanic_validateWith _ c

end Psa.Props.C01
