/-
  C06 — Decoding terminates with memory proportional to the input size.
  Property theorems only.  What a theorem can carry here: (1) termination — every decoding function of the model is a
  total Lean function, and where the model uses a fuel parameter the fuel is shown never to be what stops it, because
  every round consumes input; (2) the *logical* resource claim for the hand-written map reader — what `FromCBOR` keeps
  (number of entries, total raw bytes) is bounded by the length of the input, whatever length the header declares.
  What it cannot carry: bytes actually allocated by the Go runtime and the CBOR/JSON libraries (map growth, slices,
  the library's own pre-sizing).  That part is measured on the real code by the harness worker (TotalAlloc, wall
  clock) and the property is claimed at level `partial` for that reason.
-/
import Psa.Proofs.EncBound
import Psa.Cbor.Consumes
import Psa.Cbor.FuelFree
import Psa.Tie.Encoding
import Psa.Tie.Facts.Alloc
import Psa.Proofs.JsonTokens
namespace Psa.Props.C06
open Psa Psa.Model Psa.Model.Enc Psa.Proofs.Enc

/-- **a declared length reserves nothing**: for every byte string, if `FromCBOR` succeeds the map it returns holds at
    most one entry per two input bytes and no more raw bytes than the input had — in particular a header declaring
    2³² − 1 entries followed by nothing yields an error, not an allocation -/
theorem fromCBOR_bound (data : Bytes) (m : OMap) (h : fromCBOR data = .ok m) :
    2 * m.keys.length ≤ data.length ∧ OMap.rawBytes m ≤ data.length :=
  Proofs.Enc.fromCBOR_bound data m h

/-- each round of either loop adds exactly one entry and consumes at least two bytes -/
theorem step_consumes (rest r : Bytes) (m m' : OMap) (h : unmarshalKeyValue rest m = .ok (r, m')) :
    m'.keys.length = m.keys.length + 1 ∧ r.length + 2 ≤ rest.length := by
  have := ukv_step rest r m m' h; exact ⟨this.1, this.2.2.2⟩

/-- a definite-length map declaring more entries than half the remaining bytes is rejected -/
theorem declared_length_needs_data (n : Nat) (rest : Bytes) (h : rest.length < 2 * n) :
    ∀ r, readEntries n rest OMap.empty ≠ .ok r := by
  intro r hr
  obtain ⟨r1, m1⟩ := r
  have := readEntries_bound n rest r1 OMap.empty m1 hr
  omega

/-- **termination of the indefinite-length loop**: the fuel the model passes (`len + 1`) is never what stops the loop;
    any larger amount gives the same answer -/
theorem indefinite_loop_terminates (f : Nat) (rest : Bytes) (m : OMap) (h : rest.length < f) :
    readUntilBreak f rest m = readUntilBreak (rest.length + 1) rest m :=
  readUntilBreak_fuel f (rest.length + 1) rest m h (by omega)

/-- **progress of the item decoder** (model of the library's well-formedness pass): a decoded item consumes at least
    one byte and leaves a suffix, so every loop over items terminates within `length` rounds -/
theorem item_decoder_consumes (bs : Bytes) (t : Cbor) (rest : Bytes) (h : Cbor.decodeFirst {} bs = some (t, rest)) :
    rest.length < bs.length :=
  (Cbor.decodeFirst_consumes {} bs t rest h).length_lt

/-- **the model of the library's item decoder is not cut short by its fuel**: the fuel the model passes (`length + 1`) is
    never what makes it stop — any larger amount gives the same answer, success or failure — so the model's verdicts on
    nesting and truncation are those of an unbounded recursive descent -/
theorem item_decoder_fuel_never_binds (d : Nat) (bs : Bytes) (F : Nat) (hF : bs.length + 1 ≤ F) :
    Cbor.dec {} F d bs = Cbor.dec {} (bs.length + 1) d bs :=
  Cbor.dec_fuel_irrelevant {} d bs F hF

/-- the additional-information reader (regenerated from /repo) never returns more bytes than it was given -/
theorem header_reader_shrinks (ai : Nat) (data r : Bytes) (n : Nat) (hai : ai < 32)
    (h : Generated.processAdditionalInfo ai data = .ok (n, r)) : r.length ≤ data.length := by
  rw [Tie.Enc.gen_pai_eq_model ai data hai] at h
  exact pai_len ai data r n h

/-- T2: no buffer or map anywhere in the two packages is sized from a value read off the wire (regenerated fact: the
    only sized `make` calls copy slices already held) -/
theorem no_allocation_sized_from_input : Generated.Facts.sizedMakes =
    [("psatoken", "SwComponents.Values", "len(o.values)"), ("psatoken", "validateAndConvert", "len(vals)")] :=
  Tie.Facts.sized_makes

/-! ### the hand-written JSON token walk (`unmarshalKeys`, recursive `skipValue`) -/

/-- **the recursive walk terminates on every token stream**, well-formed or not: with fuel `2·len + 1` (resp. `+ 2`
    for the inner loop) the model never runs out of fuel — the fuel is not what stops it -/
theorem json_skip_terminates (ts : List JTok.Tok) (f : Nat) :
    (2 * ts.length + 1 ≤ f → JTok.skipValue f ts ≠ .fuel) ∧ (2 * ts.length + 2 ≤ f → JTok.skipLoop f ts ≠ .fuel) :=
  Proofs.JTok.skip_fuel_enough f ts

/-- … and the result does not depend on the fuel -/
theorem json_skip_fuel_irrelevant (ts : List JTok.Tok) (f : Nat) (hf : 2 * ts.length + 1 ≤ f) :
    JTok.skipValue f ts = JTok.skipValue (2 * ts.length + 1) ts :=
  Proofs.JTok.skip_fuel_irrelevant ts f hf

/-- every successful `skipValue` has read at least one token: the key loop of `unmarshalKeys` makes progress -/
theorem json_skip_consumes (f : Nat) (ts r : List JTok.Tok) :
    (JTok.skipValue f ts = .ok r → r.length < ts.length) ∧ (JTok.skipValue f ts = .eos r → r.length < ts.length) :=
  ⟨(Proofs.JTok.skip_consumes f ts).1 r, (Proofs.JTok.skip_consumes f ts).2.1 r⟩

/-- `unmarshalKeys` returns on every token stream -/
theorem json_key_pass_terminates (ts : List JTok.Tok) : JTok.unmarshalKeys ts ≠ .fuel :=
  Proofs.JTok.unmarshalKeys_total ts

-- non-vacuity: the hostile header `ba ff ff ff ff` (2³²−1 entries, no data) is an error, `a0` is the empty map
example : fromCBOR [0xba, 0xff, 0xff, 0xff, 0xff] = .err eOther := by decide
example : fromCBOR [0xa0] = .ok OMap.empty := by decide
example : JTok.skipValue 11 [.arrOpen, .objOpen, .arrClose, .objClose, .num] = .ok [.num] := by decide  -- closers are not matched
example : JTok.skipValue 7 [.arrOpen, .arrOpen, .arrOpen] = .err := by decide

end Psa.Props.C06
