/-
  C17 — Read-side API is safe for concurrent use.
  Property theorems only.  What the theorem is about: an interleaving semantics of *whole operations* (any schedule of
  any number of threads) over shared claims-sets and shared evidence plus per-thread private objects.  Whether an
  operation can write the shared objects is derived from the regenerated method facts (the same obligation as C18),
  and that no function besides registration writes package-level state is the regenerated `globalWriters` fact.
  What it cannot be about: data races of the Go memory model *inside* one operation and shared state inside the
  third-party packages — the race detector samples those (level: partial).
-/
import Psa.Model.Concurrent
import Psa.Props.C18
namespace Psa.Props.C17
open Psa Psa.Model Psa.Model.Conc Psa.Model.Read

/-- what all threads share: claims-sets and decoded evidence (plus, implicitly, the register and codec modes, which no
    operation below can write — `only_registration_writes`) -/
structure Shared where
  claims : List Claims
  evs : List Ev
  deriving Repr

inductive COp
  /-- a read-side operation on shared claims-set `i` -/
  | readShared (i : Nat) (op : ROp)
  /-- verification / accessors / export on shared evidence `i` -/
  | readEv (i : Nat) (op : EOp)
  /-- a read-side operation on the thread's own object `i` -/
  | readOwn (i : Nat) (op : ROp)
  /-- create a claims-set of a profile (NewClaims / decode produce a fresh value) -/
  | create (c : Claims)

inductive COut
  | r (o : Option ROut)
  | v (o : Option (Outcome Unit))
  | unit

def setAt {α} (l : List α) (i : Nat) (a : α) : List α := l.set i a

/-- the step the Go code implements, as far as the method facts `ms` say: an operation on a shared object writes back
    whatever the method leaves in the object it was called on -/
def cstep (ms : List MethodFact) (kt : KeyTable) (w : World) (havoc : Ev → Ev) (sh : Shared) (own : List Claims) :
    COp → Shared × List Claims × COut
  | .readShared i op =>
    match sh.claims[i]? with
    | none => (sh, own, .r none)
    | some c => let (c', o) := Read.step ms c op; ({ sh with claims := setAt sh.claims i c' }, own, .r (some o))
  | .readEv i op =>
    match sh.evs[i]? with
    | none => (sh, own, .v none)
    | some e => let (e', o) := Read.estep ms kt w havoc e op; ({ sh with evs := setAt sh.evs i e' }, own, .v (some o))
  | .readOwn i op =>
    match own[i]? with
    | none => (sh, own, .r none)
    | some c => let (c', o) := Read.step ms c op; (sh, setAt own i c', .r (some o))
  | .create c => (sh, own ++ [c], .unit)

def sys (kt : KeyTable) (w : World) (havoc : Ev → Ev) : Sys Shared (List Claims) COp COut :=
  { step := cstep Generated.Facts.methods kt w havoc }

theorem set_same {α} (l : List α) (i : Nat) (a : α) (h : l[i]? = some a) : setAt l i a = l := by
  unfold setAt
  apply List.ext_getElem?
  intro j
  by_cases hj : j = i
  · subst hj
    rw [List.getElem?_set_self' ]
    simp [h]
  · rw [List.getElem?_set_ne (Ne.symm hj)]

/-- **with the method facts of this run, no read-side operation changes what the threads share** -/
theorem read_side_read_only (kt : KeyTable) (w : World) (havoc : Ev → Ev) : ReadOnly (sys kt w havoc) := by
  intro sh own op
  cases op with
  | readShared i rop =>
    simp only [sys, cstep]
    cases hc : sh.claims[i]? with
    | none => rfl
    | some c =>
      simp only []
      have := C18.read_pure c rop
      rw [this, set_same _ _ _ hc]
  | readEv i eop =>
    simp only [sys, cstep]
    cases hc : sh.evs[i]? with
    | none => rfl
    | some e =>
      simp only []
      have := C18.evidence_read_pure kt w havoc e eop
      rw [this, set_same _ _ _ hc]
  | readOwn i rop =>
    simp only [sys, cstep]
    cases own[i]? <;> rfl
  | create c => rfl

/-- **for every schedule of every number of threads, the shared objects end up as they started** -/
theorem shared_unchanged (kt : KeyTable) (w : World) (havoc : Ev → Ev) (σ : List Nat) (sh : Shared)
    (L : Nat → List Claims) (P : Nat → List COp) : (runSched (sys kt w havoc) σ sh L P).1 = sh :=
  Conc.shared_unchanged _ (read_side_read_only kt w havoc) σ sh L P

/-- **each thread's results under any interleaving are its results when run alone, sequentially** -/
theorem results_as_sequential (kt : KeyTable) (w : World) (havoc : Ev → Ev) (t : Nat) (σ : List Nat) (sh : Shared)
    (L : Nat → List Claims) (P : Nat → List COp) (hfair : (P t).length ≤ σ.count t) :
    outputsOf t (runSched (sys kt w havoc) σ sh L P).2 = seqRun (sys kt w havoc) sh (L t) (P t) :=
  interleaving_eq_sequential _ (read_side_read_only kt w havoc) t σ sh L P hfair

/-- two complete schedules of the same programs give every thread the same results -/
theorem schedules_agree (kt : KeyTable) (w : World) (havoc : Ev → Ev) (t : Nat) (σ₁ σ₂ : List Nat) (sh : Shared)
    (L : Nat → List Claims) (P : Nat → List COp) (h1 : (P t).length ≤ σ₁.count t) (h2 : (P t).length ≤ σ₂.count t) :
    outputsOf t (runSched (sys kt w havoc) σ₁ sh L P).2 = outputsOf t (runSched (sys kt w havoc) σ₂ sh L P).2 := by
  rw [results_as_sequential kt w havoc t σ₁ sh L P h1, results_as_sequential kt w havoc t σ₂ sh L P h2]

/-- T2: no function of either package besides registration assigns package-level state — the codec modes and the
    register are read-only while read-side operations run -/
theorem only_registration_writes :
    Generated.Facts.globalWriters = [("psatoken", "RegisterProfile+init", "profilesRegister")] :=
  Tie.Facts.globalWriters

-- non-vacuity: a schedule of two threads reading one shared claims-set and creating their own
example : (runSched (sys (fun _ _ => true) World.empty id) [0, 1, 1, 0] { claims := [Claims.new .p1], evs := [] }
    (fun _ => []) (fun _ => [.readShared 0 .validate, .create (Claims.new .p2)])).2.length = 4 := by decide

end Psa.Props.C17
