/-
  C04 — CBOR acceptance equals profile conformance; accepted values equal the wire.
  Property theorems only.

  Status: the full biconditional is FALSE of the code (pre-finding D7 and the key-aliasing
  findings, /verif/known_findings.json): the CBOR library decodes null as "absent", simple
  values as integers, integer arrays as byte strings, and matches text / wrapped unsigned keys
  against integer claim keys.  This file proves (a) the ⇒ half that does hold — whatever is
  accepted satisfies every C01 rule, integer claims are within their width with no wrap-around
  and no float coercion, exact wire types decode to exactly the wire value, unknown keys are
  ignored — and (b) the negation of the full statement, by concrete witnesses for each
  leniency.  The differential run decides the rest against the independent wire oracle.
-/
import Psa.Model.Codec
import Psa.Props.C01
import Psa.Proofs.RoundTrip
import Psa.Proofs.Perm
namespace Psa.Props.C04
open Psa Psa.Model Psa.Spec

/-- Whatever decode-and-validate accepts satisfies all of its profile's rules. -/
theorem accepted_is_conformant (u : Bytes → Dec Bytes) (extra : List Bytes) (bs : Bytes) (c : Claims)
    (h : decodeAndValidate u extra bs = .ok c) : Conformant c := by
  unfold decodeAndValidate at h
  cases hd : decodeClaims u extra bs with
  | ok c' =>
    rw [hd] at h; simp only [Dec.bind] at h
    cases hv : validate c' with
    | ok _ => rw [hv] at h; cases h; exact (C01.validate_iff_conformant c).mp hv
    | err m => rw [hv] at h; cases h
    | panic s => rw [hv] at h; cases h
  | err => rw [hd] at h; cases h
  | ood => rw [hd] at h; cases h

/-- Integer claims: the decoded value is the integer on the wire, within the declared width —
    no wrap-around … -/
theorem int_no_wraparound (lo hi : Int) (hlo : lo ≤ 0) (hhi : 0 ≤ hi) (t : Cbor) (i : Int)
    (h : decIntRange lo hi t = .ok (some i)) :
    lo ≤ i ∧ i ≤ hi ∧
    (∀ n, t = .uint n → i = n) ∧ (∀ n, t = .nint n → i = -1 - (n : Int)) := by
  cases t with
  | uint n => simp only [decIntRange] at h; split at h <;> simp at h; subst h; exact ⟨by omega, by assumption, by simp, by simp⟩
  | nint n =>
    simp only [decIntRange] at h; split at h <;> simp at h; subst h
    rename_i hh; exact ⟨hh.2.2, by omega, by simp, by simp⟩
  | simple n =>
    by_cases h20 : n = 20
    · subst h20; simp [decIntRange] at h
    by_cases h21 : n = 21
    · subst h21; simp [decIntRange] at h
    by_cases h22 : n = 22
    · subst h22; simp [decIntRange] at h
    by_cases h23 : n = 23
    · subst h23; simp [decIntRange] at h
    simp only [decIntRange, h20, h21, h22, h23] at h
    split at h <;> simp at h
    subst h; exact ⟨by omega, by assumption, by simp, by simp⟩
  | tag a b => simp [decIntRange] at h
  | _ => simp [decIntRange] at h

/-- … and no float coercion: a floating-point item is never accepted for an integer claim. -/
theorem int_no_float (lo hi : Int) (b : Nat) :
    decIntRange lo hi (.f16 b) = .err ∧ decIntRange lo hi (.f32 b) = .err ∧ decIntRange lo hi (.f64 b) = .err := by
  simp [decIntRange]

/-- Out-of-width integers are rejected (e.g. 0x13000 for the 16-bit lifecycle). -/
theorem int_out_of_width (lo hi : Int) (n : Nat) (h : hi < n) : decIntRange lo hi (.uint n) = .err := by
  simp only [decIntRange]; split
  · omega
  · rfl

/-- Exact wire types decode to exactly the wire value. -/
theorem exact_types (b : Bytes) :
    decBytesVal (.bstr b) = .ok (some b) ∧ (validUTF8 b = true → decText (.tstr b) = .ok (some b)) := by
  simp [decBytesVal, decText]

/-- Wrong major types are rejected for byte-string and text claims (apart from the recorded
    leniencies: null/undefined, and integer arrays for byte strings). -/
theorem wrong_major_rejected (n : Nat) (b : Bytes) (kvs : List (Cbor × Cbor)) (xs : List Cbor) :
    decBytesVal (.uint n) = .err ∧ decBytesVal (.nint n) = .err ∧ decBytesVal (.tstr b) = .err ∧
    decBytesVal (.map kvs) = .err ∧ decBytesVal (.f64 n) = .err ∧
    decText (.uint n) = .err ∧ decText (.bstr b) = .err ∧ decText (.arr xs) = .err ∧ decText (.map kvs) = .err := by
  simp [decBytesVal, decText]

/-- Unknown extra keys are ignored: an entry whose (integer or text) key selects no field of the
    struct leaves the decoding state untouched. -/
theorem unknown_key_ignored {σ} (keys : List Int) (set : σ → Int → Cbor → Dec σ) (s : DState σ)
    (k v : Cbor) (hk : keyRes k ≠ .bad) (hs : selectField keys (keyRes k) = none) :
    structStep keys set s (k, v) = s := by
  unfold structStep
  cases hkr : keyRes k with
  | bad => exact absurd hkr hk
  | int i => simp only [hkr] at hs; simp [hs]
  | text t => simp only [hkr] at hs; simp [hs]

/-- First occurrence wins: a second entry for a field already seen changes nothing. -/
theorem duplicate_key_ignored {σ} (keys : List Int) (set : σ → Int → Cbor → Dec σ) (s : DState σ)
    (k v : Cbor) (f : Int) (hs : selectField keys (keyRes k) = some f) (hk : keyRes k ≠ .bad)
    (hf : s.found.contains f = true) :
    structStep keys set s (k, v) = s := by
  unfold structStep
  cases hkr : keyRes k with
  | bad => exact absurd hkr hk
  | int i =>
    simp only [hkr] at hs
    have hf' : f ∈ s.found := by simpa using hf
    simp [hs, hf']
  | text t =>
    simp only [hkr] at hs
    have hf' : f ∈ s.found := by simpa using hf
    simp [hs, hf']

/-! ### the negation of the full biconditional: one witness per recorded leniency -/

/-- null under an optional (here: any) claim key decodes as "absent" -/
theorem lenient_null_as_absent : decText Cbor.null = .ok none ∧ decBytesVal Cbor.null = .ok none ∧
    decIntRange 0 65535 Cbor.null = .ok none := by decide

/-- simple(5) under an integer claim decodes as 5 -/
theorem lenient_simple_as_int : decIntRange (-2147483648) 2147483647 (.simple 5) = .ok (some 5) := by decide

/-- an array of small integers under a byte-string claim decodes as those bytes -/
theorem lenient_array_as_bstr : decBytesVal (.arr [.uint 1, .uint 255, .simple 7, Cbor.null]) = .ok (some [1, 255, 7, 0]) := by
  decide

/-- the text key "2395" selects the lifecycle field of profile 2; the unsigned key 2^64-75000
    selects the profile field of profile 1 -/
theorem key_aliasing :
    selectField p2Keys (keyRes (.tstr (strBytes "2395"))) = some 2395 ∧
    selectField p1Keys (keyRes (.uint (2 ^ 64 - 75000))) = some (-75000) := by decide

/-- A complete counterexample at token level: a profile-1 token that carries the implementation
    id as an *array* of 32 integers and no byte string is accepted (decoded and valid). -/
def d7Token : Cbor := .map [
  (cInt (-75001), .uint 1), (cInt (-75002), .uint 0x3000),
  (cInt (-75003), .arr (List.replicate 32 (.uint 7))),
  (cInt (-75004), .bstr (List.replicate 32 2)),
  (cInt (-75007), .uint 1),
  (cInt (-75008), .bstr (List.replicate 32 3)),
  (cInt (-75009), .bstr (1 :: List.replicate 32 4))]

theorem accept_iff_conformant_negation :
    ∃ c, decodeClaimsTree (fun s => .ok s) [] d7Token = .ok c ∧ validate c = .ok () ∧
      c.implId = some (List.replicate 32 7) := by
  refine ⟨_, rfl, by decide, rfl⟩

/-- **the converse half, at the exact wire types**: the wire token of every conformant claims-set of a built-in profile
    (each claim present under its key with exactly the profile's CBOR type and value, valid-UTF-8 text) is accepted by
    the validating decoder, and what it returns reads back as exactly those values. Together with
    `accepted_is_conformant` this is acceptance ⇔ conformance on tokens free of the recorded leniencies. -/
theorem wire_token_accepted (u : Bytes → Dec Bytes) (extra : List Bytes) (c : Claims) (hv : validate c = .ok ())
    (hb : Proofs.ClaimsBounded c) (ht : Proofs.RT.TextOK c) (hbi : Proofs.RT.Builtin c) (hu : u p2Name = .ok p2Name) :
    ∃ c', decodeAndValidate u extra (Spec.wireToken c).enc = .ok c' ∧ ∀ g, Model.get g c' = Model.get g c := by
  obtain ⟨b, c', h1, h2, h3, h4, _⟩ := Proofs.RT.decode_encode_obs u extra c hv hb ht hbi hu
  have hb' : b = (Spec.wireToken c).enc := by
    have := (C10.encode_is_wire_token c hv).2
    rw [h1] at this
    simpa using this
  refine ⟨c', ?_, h3⟩
  unfold decodeAndValidate
  rw [← hb', h2]
  simp [Dec.bind, h4]

/-- **A CBOR map is a set of entries: the order in which a token lists its claims does not change what is decoded**
    (error, out-of-model verdict or claims-set alike). `KeysApart`: no two entries select the same field — in
    particular entries with pairwise distinct integer keys. -/
theorem entry_order_irrelevant (u : Bytes → Dec Bytes) (extra : List Bytes) (l₁ l₂ : List (Cbor × Cbor))
    (hp : l₁.Perm l₂) (hpw : l₁.Pairwise Proofs.Perm.KeysApart) :
    decodeClaimsTree u extra (.map l₁) = decodeClaimsTree u extra (.map l₂) :=
  Proofs.Perm.decodeClaimsTree_perm u extra l₁ l₂ hp hpw

/-- … stated on bytes, for the validating entry point -/
theorem entry_order_irrelevant_bytes (u : Bytes → Dec Bytes) (extra : List Bytes) (l₁ l₂ : List (Cbor × Cbor))
    (hp : l₁.Perm l₂) (hpw : l₁.Pairwise Proofs.Perm.KeysApart)
    (h₁ : Cbor.OkAt {} (.map l₁) 0) (h₂ : Cbor.OkAt {} (.map l₂) 0) :
    decodeAndValidate u extra (Cbor.enc (.map l₁)) = decodeAndValidate u extra (Cbor.enc (.map l₂)) := by
  unfold decodeAndValidate
  rw [Proofs.Perm.decodeClaims_perm u extra l₁ l₂ hp hpw h₁ h₂]

/-- … and for the entries of one software component -/
theorem component_entry_order_irrelevant (l₁ l₂ : List (Cbor × Cbor)) (hp : l₁.Perm l₂)
    (hpw : l₁.Pairwise Proofs.Perm.KeysApart) : decCompElem (.map l₁) = decCompElem (.map l₂) :=
  Proofs.Perm.decCompElem_perm l₁ l₂ hp hpw

/-- the hypothesis is met by entries with distinct integer keys (what every conformant token has) -/
theorem distinct_int_keys_apart (a b : Cbor × Cbor) (i j : Int) (ha : keyRes a.1 = .int i) (hb : keyRes b.1 = .int j)
    (hne : i ≠ j) : Proofs.Perm.KeysApart a b :=
  fun keys => Proofs.Perm.apart_of_int_keys keys a b i j ha hb hne

/-- non-vacuity: two claims of a profile-2 token in either order -/
example (u : Bytes → Dec Bytes) (v w : Cbor) :
    decodeClaimsTree u [] (.map [(.uint 2394, v), (.uint 2395, w)]) =
      decodeClaimsTree u [] (.map [(.uint 2395, w), (.uint 2394, v)]) :=
  entry_order_irrelevant u [] _ _ (List.Perm.swap _ _ _)
    (List.pairwise_cons.mpr ⟨fun b hb => by
        simp only [List.mem_singleton] at hb; subst hb
        exact distinct_int_keys_apart _ _ 2394 2395 (by simp [keyRes]) (by simp [keyRes]) (by decide),
      List.pairwise_singleton _ _⟩)

end Psa.Props.C04
