/-
  C14 — Security-lifecycle values map to the specified state, totally.
  Property theorems only; helper lemmas live elsewhere.
  Quantifier: every `v < 65536` (all uint16), by linear arithmetic — no enumeration.
-/
import Psa.Model.Lifecycle
import Psa.Spec.Lifecycle
import Psa.Tie.Lifecycle
namespace Psa.Props.C14
open Psa

/-- The model's mapping is the specified table. -/
theorem lifecycle_spec (v : Nat) (h : v < 65536) :
    Model.lifeCycleToState v = (Spec.state v).code := by
  unfold Model.lifeCycleToState Spec.state
  repeat' split
  all_goals (simp only [Spec.LState.code]; try omega)

/-- The code regenerated from /repo on this run is the specified table. -/
theorem lifecycle_spec_generated (v : Nat) (h : v < 65536) :
    Generated.lifeCycleToState v = (Spec.state v).code :=
  Tie.gen_lifeCycleToState_spec v h

/-- Totality: the mapping always lands on one of the eight declared states. -/
theorem lifecycle_total (v : Nat) (h : v < 65536) :
    ∃ s : Spec.LState, Generated.lifeCycleToState v = s.code :=
  ⟨Spec.state v, Tie.gen_lifeCycleToState_spec v h⟩

/-- The validator accepts a value iff its state is not the invalid state. -/
theorem lifecycle_valid_iff (v : Nat) (h : v < 65536) :
    Model.validateSecurityLifeCycle v = .ok () ↔ Spec.state v ≠ .invalid := by
  unfold Model.validateSecurityLifeCycle
  rw [lifecycle_spec v h]
  cases Spec.state v <;> simp [Model.stateIsValid, Spec.LState.code, eWrongSyntax]

theorem lifecycle_valid_iff_generated (v : Nat) (h : v < 65536) :
    Generated.validateSecurityLifeCycle v = .ok () ↔ Spec.state v ≠ .invalid := by
  rw [Tie.gen_validateSecurityLifeCycle_eq v h]; exact lifecycle_valid_iff v h

/-- A rejected value is rejected with the wrong-syntax class. -/
theorem lifecycle_invalid_class (v : Nat) (h : v < 65536) (hs : Spec.state v = .invalid) :
    Model.validateSecurityLifeCycle v = .err eWrongSyntax := by
  unfold Model.validateSecurityLifeCycle
  rw [lifecycle_spec v h, hs]; rfl

/-- State names are the specified strings (model and regenerated code). -/
theorem state_names (s : Spec.LState) :
    Model.stateString s.code = s.name ∧ Generated.stateString s.code = s.name := by
  refine ⟨?_, Tie.gen_stateString_spec s⟩
  cases s <;> rfl

/-- The seven ranges are exactly 256 values wide and start where specified. -/
theorem range_characterisation (v : Nat) (h : v < 65536) (k : Nat) (hk : k < 7) :
    (Spec.state v).code = k ↔ (k * 0x1000 ≤ v ∧ v ≤ k * 0x1000 + 0xff) := by
  unfold Spec.state
  repeat' split
  all_goals (simp only [Spec.LState.code]; omega)

-- non-vacuity: concrete values on both sides of a boundary
example : Spec.state 0x10ff = .assemblyAndTest ∧ Spec.state 0x1100 = .invalid ∧
          Spec.state 0x6000 = .decommissioned ∧ Spec.state 0x5fff = .invalid := by decide

end Psa.Props.C14

#print axioms Psa.Props.C14.lifecycle_spec
#print axioms Psa.Props.C14.lifecycle_spec_generated
#print axioms Psa.Props.C14.lifecycle_total
#print axioms Psa.Props.C14.lifecycle_valid_iff
#print axioms Psa.Props.C14.lifecycle_valid_iff_generated
#print axioms Psa.Props.C14.lifecycle_invalid_class
#print axioms Psa.Props.C14.state_names
#print axioms Psa.Props.C14.range_characterisation
