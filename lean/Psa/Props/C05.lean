/-
  C05 — No input bytes can make a decode entry point (or what it returns) panic.
  Property theorems only.  In the model a panic is a value (`Outcome.panic site`), produced exactly where
  Go's partial operations (index, slice, nil dereference, method call on a nil interface) would fault; these
  theorems say that value is never produced, for every byte string / every claims-set.
  The typed decoders of the model return `Dec α` (ok / err / outside-the-modelled-domain), which has no panic
  constructor: the CBOR/JSON/COSE *library* decoders are assumed not to panic (trusted base) and that
  assumption is exercised by the harness on the real code with `recover()` around every call.
-/
import Psa.Proofs.EncTotal
import Psa.Proofs.NoPanic
import Psa.Tie.Encoding
import Psa.Model.Json
import Psa.Model.Evidence
namespace Psa.Props.C05
open Psa Psa.Model Psa.Model.Enc

/-- **the hand-written CBOR map reader**: `FromCBOR` returns a map or an error for every byte string -/
theorem fromCBOR_total (data : Bytes) : ∀ s, fromCBOR data ≠ .panic s :=
  Proofs.Enc.fromCBOR_total data

/-- **the embedding-aware populate helper (CBOR)** never panics, for every struct shape and every byte string -/
theorem populate_total (sh : Shape) (data : Bytes) : ∀ s, populate sh data ≠ .panic s :=
  Proofs.Enc.np_map _ _ (Proofs.Enc.fromCBOR_total data)

/-- the additional-information reader *as regenerated from /repo on this run* never panics: every index and slice
    expression in it is guarded by the length test that precedes it -/
theorem processAdditionalInfo_total (ai : Nat) (data : Bytes) (h : ai < 32) :
    ∀ s, Generated.processAdditionalInfo ai data ≠ .panic s :=
  Tie.Enc.gen_pai_no_panic ai data h

/-- **whatever decoding returns can be validated**: validation never panics, for every claims-set the decoders can
    produce — absent claims, nil component entries (`[null]` on the wire), nil interface fields included -/
theorem validate_total (c : Claims) : ∀ s, validate c ≠ .panic s :=
  Proofs.noPanic_validateWith _ c

/-- **… read through every getter** -/
theorem getters_total (g : Getter) (c : Claims) : ∀ s, Model.get g c ≠ .panic s :=
  Proofs.noPanic_get g c

/-- **… re-encoded to CBOR** -/
theorem encode_cbor_total (c : Claims) : ∀ s, encodeClaims c ≠ .panic s := by
  intro s
  unfold encodeClaims claimsToCbor
  cases c.prof
  · simp [p1ToCbor, Outcome.map, Outcome.bind]
  · simp only [p2ToCbor]
    split
    · simp [Outcome.map, Outcome.bind]
    · cases c.nonce with
      | none => simp [Outcome.map, Outcome.bind]
      | some l =>
        simp only []
        split
        · simp [Outcome.map, Outcome.bind]
        · split <;> simp [Outcome.map, Outcome.bind]

/-- **… re-encoded to JSON** -/
theorem encode_json_total (c : Claims) : ∀ s, encodeJSON c ≠ .panic s := by
  intro s
  unfold encodeJSON
  cases c.prof
  · simp [p1ToJson]
  · simp only [p2ToJson]
    split
    · simp
    · cases c.nonce with
      | none => simp [Outcome.bind]
      | some l =>
        simp only []
        split
        · simp [Outcome.bind]
        · split <;> simp [Outcome.bind]

/-- **… and verified against any key**: verification of any evidence state (no envelope, no payload, empty signature,
    algorithm missing or malformed, wrong key type) returns ok or an error -/
theorem verify_total (kt : KeyTable) (w : World) (e : Ev) (k : Nat) : ∀ s, evVerify kt w e k ≠ .panic s := by
  intro s
  unfold evVerify
  repeat' split
  all_goals simp

end Psa.Props.C05
