/-
  C07 — Decoding dispatches on the declared profile, defaulting to profile 1.
  Property theorems only.  Quantifier: every CBOR tree / JSON document, every set of extra
  registered profile names (`extra`, any list).
-/
import Psa.Proofs.Dispatch
import Psa.Props.C01
import Psa.Props.C12
namespace Psa.Props.C07
open Psa Psa.Model Psa.Spec Psa.Proofs

/-- name of a built-in profile -/
def profName : Prof → Bytes
  | .p1 => p1Name
  | .p2 => p2Name

/-- CBOR: which implementation decodes the token is a function of the profile claim alone:
    absent / null (selector "") or the profile-1 name → profile 1, the profile-2 name → profile 2,
    anything unregistered → error. -/
theorem cbor_dispatch (u : Bytes → Dec Bytes) (extra : List Bytes) (t : Cbor) (name : Bytes)
    (hs : selectProfile t = .ok name) :
    (name = [] ∨ name = p1Name → decodeClaimsMap u extra t = unmarshalInto u (Claims.new .p1) t) ∧
    (name = p2Name → decodeClaimsMap u extra t = unmarshalInto u (Claims.new .p2) t) ∧
    (lookupProfile extra name = none → decodeClaimsMap u extra t = .err) := by
  refine ⟨?_, ?_, ?_⟩
  · intro h
    unfold decodeClaimsMap
    rw [hs]; simp only [Dec.bind]
    rcases h with rfl | rfl <;> simp [lookupProfile]
  · intro h; subst h
    unfold decodeClaimsMap
    rw [hs]; simp only [Dec.bind]
    have : lookupProfile extra p2Name = some .p2 := by
      unfold lookupProfile; rw [if_neg (by decide), if_pos (by decide)]
    rw [this]
  · intro h
    unfold decodeClaimsMap
    rw [hs]; simp only [Dec.bind, h]

/-- A token with no profile claim (no entry selecting key 265) is decoded as profile 1. -/
theorem no_profile_is_p1_cbor (u : Bytes → Dec Bytes) (extra : List Bytes) (kvs : List (Cbor × Cbor))
    (hk : ∀ kv ∈ kvs, keyRes kv.1 ≠ .bad ∧ selectField [265] (keyRes kv.1) = none) :
    decodeClaimsTree u extra (.map kvs) = unmarshalInto u (Claims.new .p1) (.map kvs) := by
  have hs : selectProfile (.map kvs) = .ok [] := by
    unfold selectProfile structDecode
    have key : ∀ (l : List (Cbor × Cbor)) (s : DState Bytes), (∀ kv ∈ l, keyRes kv.1 ≠ .bad ∧ selectField [265] (keyRes kv.1) = none) →
        l.foldl (structStep [265] setSelector) s = s := by
      intro l
      induction l with
      | nil => intro s _; rfl
      | cons kv rest ih =>
        intro s h
        simp only [List.foldl_cons]
        have hh := h kv (by simp)
        have : structStep [265] setSelector s kv = s := by
          obtain ⟨k, v⟩ := kv
          unfold structStep
          cases hkr : keyRes k with
          | bad => exact absurd hkr hh.1
          | int i => simp only [hkr] at hh; simp [hh.2]
          | text t => simp only [hkr] at hh; simp [hh.2]
        rw [this]
        exact ih s (fun kv' hkv' => h kv' (by simp [hkv']))
    simp only [key kvs _ hk]
    rfl
  show decodeClaimsMap u extra (.map kvs) = _
  exact (cbor_dispatch u extra (.map kvs) [] hs).1 (Or.inl rfl)

/-- JSON: a document with no (or a null) profile member is decoded as profile 1. -/
theorem no_profile_is_p1_json (u : Bytes → Dec Bytes) (ms : List (Bytes × Json)) (hc : namesClean ms = true)
    (h1 : lookupMember ms jP1Profile = none ∨ lookupMember ms jP1Profile = some .null)
    (h2 : lookupMember ms jP2Profile = none ∨ lookupMember ms jP2Profile = some .null) :
    decodeClaimsJSON u builtinRegistry (.obj ms) = unmarshalJSONInto u (Claims.new .p1) (.obj ms) :=
  C12.json_no_profile_is_default u ms hc h1 h2

/-- An unregistered profile value is an error (CBOR). -/
theorem unknown_profile_err (u : Bytes → Dec Bytes) (extra : List Bytes) (t : Cbor) (name : Bytes)
    (hs : selectProfile t = .ok name) (hn : name ≠ [] ∧ name ≠ p1Name ∧ name ≠ p2Name ∧ name ∉ extra) :
    decodeClaimsTree u extra t = .err := by
  have hm : decodeClaimsMap u extra t = .err := by
    apply (cbor_dispatch u extra t name hs).2.2
    obtain ⟨h1, h2, h3, h4⟩ := hn
    unfold lookupProfile
    simp [h1, h2, h3, h4]
  cases t <;> first | rfl | exact hm

/-- A token is only ever validated under the rules of the profile it declares, and an accepted
    token reports that same profile: whatever decode-and-validate returns is a claims-set of the
    implementation selected by the profile claim, and its profile getter returns that profile's
    name (profile 1's name when none is declared). -/
theorem accepted_reports_declared (u : Bytes → Dec Bytes) (extra : List Bytes) (t : Cbor) (c : Claims)
    (hd : decodeClaimsTree u extra t = .ok c) (hv : validate c = .ok ()) :
    ∃ name, selectProfile t = .ok name ∧
      ((name = [] ∨ name = p1Name) ∧ c.prof = .p1 ∨ name = p2Name ∧ c.prof = .p2) ∧
      getProfile c = .ok (.text (profName c.prof)) := by
  have hd : decodeClaimsMap u extra t = .ok c := by
    cases t <;> first | exact hd | cases hd
  unfold decodeClaimsMap at hd
  cases hs : selectProfile t with
  | err => rw [hs] at hd; cases hd
  | ood => rw [hs] at hd; cases hd
  | ok name =>
    rw [hs] at hd; simp only [Dec.bind] at hd
    have hgp : ∀ g, Pass g c := fun g =>
      (validateWith_ok_iff _ c).mp hv g (by cases g <;> simp [validateOrder])
    have hprofile := (pass_iff .profile c).mp (hgp .profile)
    refine ⟨name, rfl, ?_⟩
    cases hl : lookupProfile extra name with
    | none => rw [hl] at hd; cases hd
    | some e =>
      rw [hl] at hd
      cases e with
      | other => cases hd
      | p1 =>
        simp only [] at hd
        obtain ⟨hp, hcan⟩ := unmarshalInto_frame u _ t c hd
        have hp1 : c.prof = .p1 := hp
        have hcan1 : c.canonical = p1Name := hcan
        refine ⟨Or.inl ⟨?_, hp1⟩, ?_⟩
        · unfold lookupProfile at hl
          by_cases h : (name == [] || name == p1Name) = true
          · simpa using h
          · rw [if_neg h] at hl
            split at hl <;> first | (cases hl; done) | (split at hl <;> cases hl)
        · simp only [ClaimOK, hp1] at hprofile
          rw [hp1]
          unfold getProfile; simp only [hp1]
          rcases hprofile with h | h
          · simp [h, hcan1, profName]
          · simp [h, hcan1, profName]
      | p2 =>
        simp only [] at hd
        obtain ⟨hp, hcan⟩ := unmarshalInto_frame u _ t c hd
        have hp2 : c.prof = .p2 := hp
        have hcan2 : c.canonical = p2Name := hcan
        refine ⟨Or.inr ⟨?_, hp2⟩, ?_⟩
        · unfold lookupProfile at hl
          by_cases h : (name == [] || name == p1Name) = true
          · rw [if_pos h] at hl; cases hl
          · rw [if_neg h] at hl
            by_cases h' : (name == p2Name) = true
            · simpa using h'
            · rw [if_neg h'] at hl; split at hl <;> cases hl
        · simp only [ClaimOK, hp2] at hprofile
          rw [hp2]
          unfold getProfile; simp only [hp2]
          simp [hprofile, hcan2, profName]

/-- Anything that is not a CBOR map — null, undefined, a tagged item, an array … — is rejected
    (the repaired behaviour, fix d1614d8). -/
theorem non_map_rejected (u : Bytes → Dec Bytes) (extra : List Bytes) (t : Cbor) (h : ∀ kvs, t ≠ .map kvs) :
    decodeClaimsTree u extra t = .err := by
  cases t <;> first | rfl | exact absurd rfl (h _)

/-- `NewClaims(p)` reports `p` (built-in profiles). -/
theorem newClaims_reports (p : Prof) : getProfile (Claims.new p) = .ok (.text (profName p)) := by
  cases p <;> decide

-- non-vacuity: a token declaring profile 2 selects profile 2; an empty map selects profile 1
example : keyRes (cInt 265) = .int 265 ∧ selectField [265] (.int 265) = some 265 := by decide
example : selectProfile (.map []) = .ok [] := by decide

end Psa.Props.C07
