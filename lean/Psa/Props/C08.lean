/-
  C08 — Validating entry points never let an invalid claims-set through.
  Property theorems only.  The gates are compositions of `validate`, the codecs and the
  Evidence operations exactly as iclaims.go / evidence.go compose them; the content of this
  property is in the tie (T3 runs every generated claims-set through the seven real gates).
-/
import Psa.Props.C19
import Psa.Model.Json
namespace Psa.Props.C08
open Psa Psa.Model

/-- `ValidateAndEncodeClaimsToCBOR` -/
def validateAndEncode (c : Claims) : Outcome Bytes :=
  match validate c with
  | .ok _ => encodeClaims c
  | .err m => .err m
  | .panic s => .panic s

/-- `ValidateAndEncodeClaimsToJSON` -/
def validateAndEncodeJSON (c : Claims) : Outcome Json :=
  match validate c with
  | .ok _ => encodeJSON c
  | .err m => .err m
  | .panic s => .panic s

/-- `DecodeAndValidateClaimsFromJSON` -/
def decodeAndValidateJSON (u : Bytes → Dec Bytes) (reg : List RegEntry) (j : Json) : Dec Claims :=
  (decodeClaimsJSON u reg j).bind fun c => match validate c with | .ok _ => .ok c | _ => .err

/-- `DecodeAndValidateEvidenceFromCOSE` -/
def decodeAndValidateEvidence (u : Bytes → Dec Bytes) (extra : List Bytes) (bs : Bytes) : Dec Ev :=
  match evUnmarshal u extra Ev.empty bs with
  | (e, .ok _) => (match e.claims with
    | some c => (match validate c with | .ok _ => .ok e | _ => .err)
    | none => .err)
  | (_, .err) => .err
  | (_, .ood) => .ood

/-- gate 1, SetClaims: fails whenever validation fails and then attaches nothing; otherwise
    attaches exactly the claims -/
theorem setClaims_gate (e : Ev) (c : Claims) :
    (validate c ≠ .ok () → (evSetClaims e c).2 ≠ .ok () ∧ (evSetClaims e c).1 = e) ∧
    (validate c = .ok () → evSetClaims e c = ({ e with claims := some c }, .ok ())) := by
  unfold evSetClaims
  cases h : validate c <;> simp

/-- gates 2 and 3: fail whenever validation fails (emitting no bytes), otherwise behave exactly
    like the non-validating encoder -/
theorem encode_gates (c : Claims) :
    (validate c ≠ .ok () → (∀ b, validateAndEncode c ≠ .ok b) ∧ (∀ j, validateAndEncodeJSON c ≠ .ok j)) ∧
    (validate c = .ok () → validateAndEncode c = encodeClaims c ∧ validateAndEncodeJSON c = encodeJSON c) := by
  unfold validateAndEncode validateAndEncodeJSON
  cases h : validate c <;> simp

/-- gate 4, ValidateAndSign: fails whenever validation fails, returning no token and leaving a
    message that cannot verify; otherwise it is `Sign` -/
theorem sign_gate (w : World) (e : Ev) (c : Claims) (sg : Signer) (hc : e.claims = some c) :
    (validate c ≠ .ok () → (∀ t, (evSign true w e sg).2.2 ≠ .ok t) ∧ (evSign true w e sg).2.1.msg = some Msg.fresh ∧
        (evSign true w e sg).1 = w) ∧
    (validate c = .ok () → evSign true w e sg = evSign false w e sg) := by
  constructor
  · intro hv
    have hp : (∃ m, signPayload true e.claims = .err m) ∨ (∃ x, signPayload true e.claims = .panic x) := by
      rw [hc]; unfold signPayload
      cases h : validate c with
      | ok _ => exact absurd h hv
      | err m => exact Or.inl ⟨m, by simp [h, Outcome.bind]⟩
      | panic x => exact Or.inr ⟨x, by simp [h, Outcome.bind]⟩
    unfold evSign
    rcases hp with ⟨m, hm⟩ | ⟨x, hx⟩
    · rw [hm]; refine ⟨?_, rfl, rfl⟩; intro t h; simp at h
    · rw [hx]; refine ⟨?_, rfl, rfl⟩; intro t h; simp at h
  · intro hv
    have hp : signPayload true e.claims = signPayload false e.claims := by
      rw [hc]; unfold signPayload; simp [hv, Outcome.bind]
    unfold evSign
    rw [hp]

/-- gates 5–7: decode-and-validate fails whenever the decoded claims-set fails validation
    (returning nothing), otherwise returns exactly what the non-validating decoder returns -/
theorem decode_gates (u : Bytes → Dec Bytes) (extra : List Bytes) (reg : List RegEntry) (bs : Bytes) (j : Json) :
    (∀ c, decodeClaims u extra bs = .ok c →
      (validate c ≠ .ok () → decodeAndValidate u extra bs = .err) ∧
      (validate c = .ok () → decodeAndValidate u extra bs = .ok c)) ∧
    (∀ c, decodeClaimsJSON u reg j = .ok c →
      (validate c ≠ .ok () → decodeAndValidateJSON u reg j = .err) ∧
      (validate c = .ok () → decodeAndValidateJSON u reg j = .ok c)) ∧
    (∀ e c, evUnmarshal u extra Ev.empty bs = (e, .ok ()) → e.claims = some c →
      (validate c ≠ .ok () → decodeAndValidateEvidence u extra bs = .err) ∧
      (validate c = .ok () → decodeAndValidateEvidence u extra bs = .ok e)) := by
  refine ⟨?_, ?_, ?_⟩
  · intro c hc
    unfold decodeAndValidate
    rw [hc]; simp only [Dec.bind]
    cases h : validate c <;> simp
  · intro c hc
    unfold decodeAndValidateJSON
    rw [hc]; simp only [Dec.bind]
    cases h : validate c <;> simp
  · intro e c he hc
    unfold decodeAndValidateEvidence
    rw [he]; simp only [hc]
    cases h : validate c <;> simp

/-- a decode failure is a gate failure too -/
theorem decode_gate_decode_failure (u : Bytes → Dec Bytes) (extra : List Bytes) (bs : Bytes)
    (h : decodeClaims u extra bs = .err) : decodeAndValidate u extra bs = .err := by
  unfold decodeAndValidate; rw [h]; rfl

end Psa.Props.C08
