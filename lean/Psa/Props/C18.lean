/-
  C18 — Reading, validating, encoding and verifying do not change anything.
  Property theorems only.  The step function decides from the *regenerated method facts* whether a Go method can
  change the caller's object; `facts_read_only` is the obligation that fails when a read-side method starts to
  assign through a pointer receiver, to write through a field, or to call a mutating method on a field.
  The no-retained-reference clause (overwriting the input buffer) has no counterpart in a value-semantics model:
  it is decided on the implementation by the harness (reachable-memory walk + overwrite + re-read).
-/
import Psa.Model.ReadSide
import Psa.Generated.Facts
import Psa.Tie.Facts.State
namespace Psa.Props.C18
open Psa Psa.Model Psa.Model.Read

def allOps : List ROp :=
  [.validate, .encCbor, .encJson, .get .profile, .get .clientId, .get .lifecycle, .get .implId, .get .bootSeed,
   .get .certRef, .get .sw, .get .nonce, .get .instId, .get .vsi]

theorem allOps_complete (op : ROp) : op ∈ allOps := by
  cases op with
  | get g => cases g <;> simp [allOps]
  | _ => simp [allOps]

/-- **T2 obligation**: per the code regenerated from /repo on this run, no method that a read-side operation runs on a
    claims object can change the caller's object — value receivers may assign their own copy only, nothing is written
    through a field, and only read-only methods are invoked on fields -/
theorem facts_read_only_table :
    (allOps.all fun op => [Prof.p1, Prof.p2].all fun p =>
      !(methodsOf p op).any (writesCaller Generated.Facts.methods (recvOf p))) = true := by decide

theorem facts_read_only (p : Prof) (op : ROp) (hop : op ∈ allOps) :
    (methodsOf p op).any (writesCaller Generated.Facts.methods (recvOf p)) = false := by
  have h := facts_read_only_table
  rw [List.all_eq_true] at h
  have h2 := h op hop
  rw [List.all_eq_true] at h2
  have h3 := h2 p (by cases p <;> simp)
  simpa using h3

/-- … and the same for the read-side methods of Evidence -/
theorem facts_evidence_read_only : ∀ op : EOp, writesCaller Generated.Facts.methods "Evidence" (eMethod op) = false := by
  intro op; cases op <;> simp only [eMethod] <;> decide

/-- **a read-side operation leaves the claims-set unchanged** — every claims-set, valid or not -/
theorem read_pure (c : Claims) (op : ROp) : (step Generated.Facts.methods c op).1 = c := by
  unfold step
  have := facts_read_only c.prof op (allOps_complete op)
  simp [this]

/-- **any sequence of read-side operations leaves it unchanged, and every operation returns what it returns on the
    original object** — so repeating an operation gives the same result, and encoding is deterministic -/
theorem reads_pure : ∀ (ops : List ROp) (c : Claims),
    (run Generated.Facts.methods c ops).1 = c ∧ (run Generated.Facts.methods c ops).2 = ops.map (eval c)
  | [], c => ⟨rfl, rfl⟩
  | op :: ops, c => by
    simp only [run]
    have h1 := read_pure c op
    have hstep : step Generated.Facts.methods c op = (c, eval c op) := by
      apply Prod.ext
      · exact h1
      · rfl
    rw [hstep]
    have ih := reads_pure ops c
    exact ⟨ih.1, by simp [ih.2]⟩

/-- repeating an operation right after itself returns the same result -/
theorem read_repeatable (c : Claims) (op : ROp) :
    (run Generated.Facts.methods c [op, op]).2 = [eval c op, eval c op] := by
  simpa using (reads_pure [op, op] c).2

/-- verification, the identity accessors and JSON export leave the Evidence unchanged, whatever they return -/
theorem evidence_read_pure (kt : KeyTable) (w : World) (havoc : Ev → Ev) (e : Ev) (op : EOp) :
    (estep Generated.Facts.methods kt w havoc e op).1 = e := by
  unfold estep
  simp [facts_evidence_read_only op]

/-- what profile 1's marshallers do to *their copy* is invisible in the bytes: encoding the normalised copy gives
    the same result (so a value receiver loses nothing) -/
theorem marshal_copy_invisible (c : Claims) :
    encodeClaims (bodyEffect c .encCbor) = encodeClaims c ∧ encodeJSON (bodyEffect c .encJson) = encodeJSON c := by
  obtain ⟨prof, canonical, profile, clientId, lifecycle, implId, bootSeed, certRef, sw, noSw, nonce, instId, vsi⟩ := c
  cases prof
  · cases sw with
    | nilIface => exact ⟨rfl, rfl⟩
    | cont v =>
      cases v with
      | none => exact ⟨rfl, rfl⟩
      | some l =>
        cases l with
        | nil => exact ⟨rfl, rfl⟩
        | cons x xs => exact ⟨rfl, rfl⟩
  · exact ⟨rfl, rfl⟩

/-- a method that *did* assign through a pointer receiver would be visible: the theorem is not vacuous in its
    dependence on the facts -/
example : writesCaller [{ recv := "P1Claims", name := "MarshalCBOR", pointer := true, assigns := ["SwComponents"],
                          deep := [], calls := ["SwComponents.IsEmpty"] }] "P1Claims" "MarshalCBOR" = true := by decide
example : writesCaller [{ recv := "Evidence", name := "Verify", pointer := true, assigns := ["message"],
                          deep := [], calls := ["message.Verify"] }] "Evidence" "Verify" = true := by decide

end Psa.Props.C18
