/-
  C03 — Sign → decode → verify round trip binds exactly the validated claims.
  Property theorems only.  Ideal signatures as in C02.  `Small` bounds the sizes of the byte
  strings involved below 2⁶⁴ (true of every Go value); it is needed where the verified CBOR
  decoder reads the envelope back.
-/
import Psa.Props.C19
import Psa.Props.C09
namespace Psa.Props.C03
open Psa Psa.Model Psa.Proofs

/-- The protected header `{1: alg}` carries the signer's algorithm. -/
theorem protected_carries_alg (alg : Int) (h : -2 ^ 63 ≤ alg ∧ alg < 2 ^ 63) : protAlg (protOfAlg alg) = .alg alg := by
  unfold protAlg
  rw [if_neg (protOfAlg_ne alg)]
  unfold protOfAlg
  rw [Cbor.decodeAll_enc {} _ (okAt_protMap alg h)]
  exact algOfMap_cInt alg


/-- `ValidateAndSign` of a valid claims-set with an honest signer yields the tagged COSE_Sign1
    whose payload is byte-identical to the validated CBOR encoding of the claims, whose protected
    header is `{1: alg}`, and whose signature is the signer's reply; the signing Evidence itself
    verifies under the signer's key. -/
theorem sign_roundtrip (kt : KeyTable) (w : World) (e : Ev) (c : Claims) (sg : Signer) (b : Bytes)
    (hc : e.claims = some c) (hval : validate c = .ok ()) (henc : encodeClaims c = .ok b)
    (hg : sg.kind = .good) (hr : sg.reply ≠ []) (hkt : kt sg.key sg.alg = true)
    (ha : -2 ^ 63 ≤ sg.alg ∧ sg.alg < 2 ^ 63) :
    (evSign true w e sg).2.2 = .ok (envelopeTree { prot := protOfAlg sg.alg, payload := some b, sig := sg.reply }).enc ∧
    (evSign true w e sg).2.1 = { e with msg := some { prot := protOfAlg sg.alg, payload := some b, sig := sg.reply } } ∧
    evVerify kt (evSign true w e sg).1 (evSign true w e sg).2.1 sg.key = .ok () := by
  have hp : signPayload true e.claims = .ok b := by
    rw [hc]; simp [signPayload, hval, henc, Outcome.bind]
  have hs : evSign true w e sg =
      ({ log := (sg.key, toBeSigned (protOfAlg sg.alg) externalAAD b, sg.reply) :: w.log },
       { e with msg := some { prot := protOfAlg sg.alg, payload := some b, sig := sg.reply } },
       .ok (envelopeTree { prot := protOfAlg sg.alg, payload := some b, sig := sg.reply }).enc) := by
    simp only [evSign, hp, doSign, Msg.fresh, hg, hr, if_false]
  rw [hs]
  refine ⟨rfl, rfl, ?_⟩
  simp [evVerify, protected_carries_alg sg.alg ha, hkt, hr, World.sigVerify]


/-- Decoding the issued token gives back exactly the message that was signed (same protected
    bytes, payload, signature), and the claims exposed are the decoding of that very payload. -/
theorem decode_issued_token (u : Bytes → Dec Bytes) (extra : List Bytes) (e0 : Ev) (alg : Int) (b sig : Bytes)
    (ha : -2 ^ 63 ≤ alg ∧ alg < 2 ^ 63) (hs : sig ≠ [])
    (h1 : (protOfAlg alg).length < 2 ^ 64) (h2 : b.length < 2 ^ 64) (h3 : sig.length < 2 ^ 64) :
    decodeEnvelope (envelopeTree { prot := protOfAlg alg, payload := some b, sig := sig }).enc =
      .ok { prot := protOfAlg alg, payload := some b, sig := sig } ∧
    (∀ c, decodeClaims u extra b = .ok c →
      evUnmarshal u extra e0 (envelopeTree { prot := protOfAlg alg, payload := some b, sig := sig }).enc =
        ({ claims := some c, msg := some { prot := protOfAlg alg, payload := some b, sig := sig } }, .ok ())) := by
  have hdec := Cbor.decodeAll_enc {} _ (okAt_envelope (protOfAlg alg) b sig h1 h2 h3)
  have hpre : ∃ rest, (envelopeTree { prot := protOfAlg alg, payload := some b, sig := sig }).enc = 0xd2 :: 0x84 :: rest := by
    simp only [envelopeTree, Cbor.enc, Cbor.encHead]
    exact ⟨_, rfl⟩
  obtain ⟨rest, hpre⟩ := hpre
  have henv : decodeEnvelope (envelopeTree { prot := protOfAlg alg, payload := some b, sig := sig }).enc =
      .ok { prot := protOfAlg alg, payload := some b, sig := sig } := by
    unfold decodeEnvelope
    rw [hpre]
    simp only []
    rw [← hpre, hdec]
    simp only [envelopeTree, msgOfArray, Cbor.hasTagPairs, Bool.false_eq_true, if_false, hs, protClass_ok alg ha,
      List.isEmpty_nil, Bool.not_true]
  refine ⟨henv, ?_⟩
  intro c hc
  unfold evUnmarshal
  rw [henv]
  simp only [hc]

/-- The claims exposed by a decoded Evidence are always the decoding of the payload the
    signature covers. -/
theorem claims_from_verified_payload (u : Bytes → Dec Bytes) (extra : List Bytes) (e e' : Ev) (bs : Bytes)
    (h : evUnmarshal u extra e bs = (e', .ok ())) :
    ∃ m p c, e'.msg = some m ∧ m.payload = some p ∧ e'.claims = some c ∧ decodeClaims u extra p = .ok c := by
  rcases C19.evUnmarshal_cases u extra e bs with ⟨m, p, c, _, hp, hc, heq⟩ | ⟨cl, r, heq, hr⟩
  · rw [heq] at h; cases h
    exact ⟨m, p, c, rfl, hp, rfl, hc⟩
  · rw [heq] at h; cases h; simp [C19.decOk] at hr

end Psa.Props.C03
