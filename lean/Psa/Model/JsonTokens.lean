/-
  psatoken/encoding, JSON side, *token* layer (encoding/json.go: `unmarshalKeys`, `skipValue`): the two
  hand-written loops that walk a `json.Decoder` token stream to recover the member names of the top-level
  object in document order.  `json.Decoder.Token()` enters as "head of a token list, error when the list is
  exhausted" (Go's decoder returns io.EOF or a syntax error there; either way an error that the loops return
  as it is).  `tokens` is the token stream Go's decoder yields for a document tree (the harness tokenises real
  documents with the real decoder and hands the stream to the driver, so this function is compared too).

  `skipValue` is recursive in Go; the model is structurally recursive on a fuel argument and
  `Psa/Proofs/JsonTokens.lean` shows that fuel `2·len + 2` never binds, so the fuel is no bound of the model.
-/
import Psa.Model.EncodingJson
namespace Psa.Model.JTok
open Psa Psa.Model

inductive Tok
  | objOpen | objClose | arrOpen | arrClose
  /-- a string token: a member name or a string value -/
  | str (s : Bytes)
  /-- number, `true`/`false`, `null` -/
  | num | bool | null
  deriving DecidableEq, Repr, Inhabited

/-- result of `skipValue` -/
inductive Skip
  /-- `nil`: one value skipped; the decoder stands at `rest` -/
  | ok (rest : List Tok)
  /-- `errEndOfStream`: a closing delimiter was read -/
  | eos (rest : List Tok)
  /-- the error `decoder.Token()` returned -/
  | err
  /-- the model ran out of fuel (shown impossible for fuel ≥ 2·len + 2) -/
  | fuel
  deriving DecidableEq, Repr

mutual
/-- `skipValue(decoder)` -/
def skipValue : Nat → List Tok → Skip
  | 0, _ => .fuel
  | _ + 1, [] => .err
  | f + 1, t :: rest =>
    match t with
    | .objOpen | .arrOpen => skipLoop f rest
    | .objClose | .arrClose => .eos rest
    | _ => .ok rest
/-- the `for { if err := skipValue(decoder); … }` loop inside `skipValue` -/
def skipLoop : Nat → List Tok → Skip
  | 0, _ => .fuel
  | f + 1, ts =>
    match skipValue f ts with
    | .ok rest => skipLoop f rest
    | .eos rest => .ok rest
    | .err => .err
    | .fuel => .fuel
end

/-- result of `unmarshalKeys` -/
inductive Keys
  | ok (keys : List Bytes)
  | err
  | fuel
  deriving DecidableEq, Repr

/-- the `for { token … }` loop of `unmarshalKeys`; `acc` is `keys` so far -/
def keysLoop : Nat → List Tok → List Bytes → Keys
  | 0, _, _ => .fuel
  | _ + 1, [], _ => .err
  | f + 1, t :: rest, acc =>
    match t with
    | .objClose => .ok acc
    | .str k =>
      match skipValue (2 * rest.length + 2) rest with
      | .ok rest' => keysLoop f rest' (acc ++ [k])
      | .eos _ => .err           -- errEndOfStream comes back as an error of unmarshalKeys
      | .err => .err
      | .fuel => .fuel
    | _ => .err                  -- "expected string"

/-- `unmarshalKeys(data)` on the token stream of `data` -/
def unmarshalKeys (ts : List Tok) : Keys :=
  match ts with
  | [] => .err
  | .objOpen :: rest => keysLoop (rest.length + 1) rest []
  | _ :: _ => .err               -- "expected start of object"

/-! ### the token stream of a document -/

mutual
def tokens : Json → List Tok
  | .null => [.null]
  | .bool _ => [.bool]
  | .int _ => [.num]
  | .numOther _ => [.num]
  | .str s => [.str s]
  | .arr xs => .arrOpen :: (tokensList xs ++ [.arrClose])
  | .obj ms => .objOpen :: (tokensMembers ms ++ [.objClose])
def tokensList : List Json → List Tok
  | [] => []
  | x :: xs => tokens x ++ tokensList xs
def tokensMembers : List (Bytes × Json) → List Tok
  | [] => []
  | (k, v) :: ms => .str k :: (tokens v ++ tokensMembers ms)
end

/-- nesting depth of a token list read from the left (what Go's recursion depth follows) -/
def maxDepth : List Tok → Nat → Nat → Nat
  | [], _, m => m
  | t :: ts, d, m =>
    match t with
    | .objOpen | .arrOpen => maxDepth ts (d + 1) (max m (d + 1))
    | .objClose | .arrClose => maxDepth ts (d - 1) m
    | _ => maxDepth ts d m

/-- `FromJSON` at token level: the names `unmarshalKeys` leaves in `Keys` -/
def fromJSONKeys (j : Json) : Keys := unmarshalKeys (tokens j)

end Psa.Model.JTok
