/-
  Code-shaped model of the claims layer: claims_p1.go, claims_p2.go,
  swcomponent.go, swcomponents.go, iswcomponent.go, iclaims.go:ValidateClaims,
  errors.go:FilterError, and the Validate* family of claims_common.go.

  One Lean function per Go function that matters, same order of checks.
  A nil pointer field is `none`.  Go strings are byte sequences.

  Representation notes (what is *modelled*, DESIGN §5):
  * `Claims` covers both P1Claims and P2Claims.  Fields that one profile does
    not have (`noSw` for profile 2) are ignored by that profile's functions.
  * `profile`: P1 `*string` is `some (.str s)`; P2 `*eat.Profile` is
    `some (.str s)` with `s` what `Profile.Get()` returns, or `some .invalid`
    for a zero `eat.Profile{}` (whose `Get()` fails).
  * `nonce`: P1 `*[]byte` is `some [b]`; P2 `*eat.Nonce` is `some l`.
    Values with `prof = p1` and a non-singleton list are not the image of any
    Go value (`Claims.WF` excludes them; the driver refuses them).
-/
import Psa.Basic
import Psa.Model.Lifecycle
namespace Psa.Model
open Psa

inductive Prof | p1 | p2
  deriving DecidableEq, Repr

inductive ProfVal
  | str (s : Bytes)
  | invalid
  deriving DecidableEq, Repr

structure SwComp where
  mtype : Option Bytes     -- key 1, text, optional
  mval : Option Bytes      -- key 2, bstr, mandatory
  version : Option Bytes   -- key 4, text, optional
  signer : Option Bytes    -- key 5, bstr, mandatory
  mdesc : Option Bytes     -- key 6, text, optional
  deriving DecidableEq, Repr

/-- the `ISwComponents` interface field -/
inductive SwField
  | nilIface
  /-- `&SwComponents{values}`: `none` = nil slice, inner `none` = nil element -/
  | cont (vals : Option (List (Option SwComp)))
  deriving DecidableEq, Repr

structure Claims where
  prof : Prof
  canonical : Bytes
  profile : Option ProfVal
  clientId : Option Int
  lifecycle : Option Nat
  implId : Option Bytes
  bootSeed : Option Bytes
  certRef : Option Bytes
  sw : SwField
  noSw : Option Nat
  nonce : Option (List Bytes)
  instId : Option Bytes
  vsi : Option Bytes
  deriving DecidableEq, Repr

def p1Name : Bytes := strBytes "PSA_IOT_PROFILE_1"
def p2Name : Bytes := strBytes "http://arm.com/psa/2.0.0"

def Claims.WF (c : Claims) : Prop :=
  match c.prof with
  | .p1 => (c.nonce = none ∨ ∃ b, c.nonce = some [b]) ∧ c.profile ≠ some .invalid
  | .p2 => c.noSw = none

/-! ### claims_common.go validators -/

def validateImplID (v : Bytes) : Outcome Unit :=
  if v.length != 32 then .err eWrongSyntax else .ok ()

def validatePSAHashType (b : Bytes) : Outcome Unit :=
  let l := b.length
  if l != 32 && l != 48 && l != 64 then .err eWrongSyntax else .ok ()

def validateNonce (v : Bytes) : Outcome Unit := validatePSAHashType v

def validateInstID (v : Bytes) : Outcome Unit :=
  if v.length != 33 then .err eWrongSyntax
  else (idx "ValidateInstID" v 0).bind fun b =>
    if b.toNat != 1 then .err eWrongSyntax else .ok ()

def validateVSI (v : Bytes) : Outcome Unit :=
  if v.isEmpty then .err eWrongSyntax else .ok ()

def isDigit (b : UInt8) : Bool := 48 ≤ b.toNat && b.toNat ≤ 57

/-- `^\d{13}$` on a Go string -/
def isEan13 (s : Bytes) : Bool := s.length == 13 && s.all isDigit

/-- `^\d{13}-\d{5}$` on a Go string -/
def isEan13p5 (s : Bytes) : Bool :=
  s.length == 19 && (s.take 13).all isDigit && s[13]? == some 45 && (s.drop 14).all isDigit

/-! ### errors.go -/

/-- `FilterError`: nil for nil, missing-optional and not-in-profile errors. -/
def filtered (m : ErrMask) : Bool := m &&& 5 != 0

def filterError {α} (o : Outcome α) : Outcome Unit :=
  match o with
  | .ok _ => .ok ()
  | .err m => if filtered m then .ok () else .err m
  | .panic s => .panic s

/-! ### software components -/

def SwComp.getMeasurementType (sc : SwComp) : Outcome Bytes :=
  match sc.mtype with | none => .err eMissingOptional | some v => .ok v
def SwComp.getMeasurementValue (sc : SwComp) : Outcome Bytes :=
  match sc.mval with
  | none => .err eMissingMandatory
  | some v => (validatePSAHashType v).bind fun _ => .ok v
def SwComp.getVersion (sc : SwComp) : Outcome Bytes :=
  match sc.version with | none => .err eMissingOptional | some v => .ok v
def SwComp.getSignerID (sc : SwComp) : Outcome Bytes :=
  match sc.signer with
  | none => .err eMissingMandatory
  | some v => (validatePSAHashType v).bind fun _ => .ok v
def SwComp.getMeasurementDesc (sc : SwComp) : Outcome Bytes :=
  match sc.mdesc with | none => .err eMissingOptional | some v => .ok v

/-- `ValidateSwComponent` (iswcomponent.go), getters in source order -/
def SwComp.validate (sc : SwComp) : Outcome Unit :=
  (filterError sc.getMeasurementType).bind fun _ =>
  (filterError sc.getMeasurementValue).bind fun _ =>
  (filterError sc.getVersion).bind fun _ =>
  (filterError sc.getSignerID).bind fun _ =>
  filterError sc.getMeasurementDesc

/-- `SwComponents.Values()`: validates every element in order; a nil `*SwComponent`
    (what decoding a null array element yields) is a wrong-syntax error (fix 41aaac8;
    before it, the value-receiver call on the nil pointer panicked). -/
def valuesOf : List (Option SwComp) → Outcome (List SwComp)
  | [] => .ok []
  | none :: _ => .err eWrongSyntax
  | some sc :: rest =>
    match sc.validate with
    | .ok _ => (valuesOf rest).bind fun l => .ok (sc :: l)
    | .err m => .err m
    | .panic s => .panic s

def SwField.elems : SwField → List (Option SwComp)
  | .nilIface => []
  | .cont none => []
  | .cont (some l) => l

/-- `c.SwComponents == nil || c.SwComponents.IsEmpty()` -/
def SwField.nilOrEmpty (f : SwField) : Bool := f.elems.isEmpty

/-! ### getters -/

inductive Getter
  | profile | clientId | lifecycle | implId | bootSeed | certRef | sw | nonce | instId | vsi
  deriving DecidableEq, Repr

inductive Val
  | text (b : Bytes)
  | int (i : Int)
  | nat (n : Nat)
  | bytes (b : Bytes)
  | comps (l : Option (List SwComp))
  deriving DecidableEq, Repr

def getProfile (c : Claims) : Outcome Val :=
  match c.prof with
  | .p1 =>
    match c.profile with
    | none => .ok (.text c.canonical)
    | some (.str p) => if p != c.canonical then .err eWrongProfile else .ok (.text p)
    | some .invalid => .err eOther
  | .p2 =>
    match c.profile with
    | none => .err eMissingMandatory
    | some .invalid => .err eOther
    | some (.str p) => if p != c.canonical then .err eWrongProfile else .ok (.text p)

def getClientID (c : Claims) : Outcome Val :=
  match c.clientId with
  | none => .err eMissingMandatory
  | some v => .ok (.int v)

def getSecurityLifeCycle (c : Claims) : Outcome Val :=
  match c.lifecycle with
  | none => .err eMissingMandatory
  | some v => (validateSecurityLifeCycle v).bind fun _ => .ok (.nat v)

def getImplID (c : Claims) : Outcome Val :=
  match c.implId with
  | none => .err eMissingMandatory
  | some v => (validateImplID v).bind fun _ => .ok (.bytes v)

def getBootSeed (c : Claims) : Outcome Val :=
  match c.prof with
  | .p1 =>
    match c.bootSeed with
    | none => .err eMissingMandatory
    | some v => if v.length != 32 then .err eWrongSyntax else .ok (.bytes v)
  | .p2 =>
    match c.bootSeed with
    | none => .err eMissingOptional
    | some v => if v.length < 8 || v.length > 32 then .err eWrongSyntax else .ok (.bytes v)

def getCertificationReference (c : Claims) : Outcome Val :=
  match c.certRef with
  | none => .err eMissingOptional
  | some s =>
    match c.prof with
    | .p1 => if !isEan13 s && !isEan13p5 s then .err eWrongSyntax else .ok (.text s)
    | .p2 => if !isEan13p5 s then .err eWrongSyntax else .ok (.text s)

def getSoftwareComponents (c : Claims) : Outcome Val :=
  match c.prof with
  | .p1 =>
    if c.sw.nilOrEmpty then
      match c.noSw with
      | none => .err eMissingMandatory
      | some _ => .ok (.comps none)
    else
      match c.noSw with
      | some _ => .err eWrongSyntax
      | none => (valuesOf c.sw.elems).bind fun l => .ok (.comps (some l))
  | .p2 =>
    if c.sw.nilOrEmpty then .err eMissingMandatory
    else (valuesOf c.sw.elems).bind fun l => .ok (.comps (some l))

def getNonce (c : Claims) : Outcome Val :=
  match c.nonce with
  | none => .err eMissingMandatory
  | some [n] => (validateNonce n).bind fun _ => .ok (.bytes n)
  | some _ => .err eWrongSyntax

def getInstID (c : Claims) : Outcome Val :=
  match c.instId with
  | none => .err eMissingMandatory
  | some v => (validateInstID v).bind fun _ => .ok (.bytes v)

def getVSI (c : Claims) : Outcome Val :=
  match c.vsi with
  | none => .err eMissingOptional
  | some v => (validateVSI v).bind fun _ => .ok (.text v)

def get : Getter → Claims → Outcome Val
  | .profile => getProfile
  | .clientId => getClientID
  | .lifecycle => getSecurityLifeCycle
  | .implId => getImplID
  | .bootSeed => getBootSeed
  | .certRef => getCertificationReference
  | .sw => getSoftwareComponents
  | .nonce => getNonce
  | .instId => getInstID
  | .vsi => getVSI

def Getter.all : List Getter :=
  [.profile, .clientId, .lifecycle, .implId, .bootSeed, .certRef, .sw, .nonce, .instId, .vsi]

/-- `ValidateClaims` walking the getters in `order` through `FilterError`. -/
def validateWith : List Getter → Claims → Outcome Unit
  | [], _ => .ok ()
  | g :: rest, c =>
    match filterError (get g c) with
    | .ok _ => validateWith rest c
    | .err m => .err m
    | .panic s => .panic s

/-- the order in iclaims.go:ValidateClaims (tied to the source by T2) -/
def validateOrder : List Getter :=
  [.profile, .lifecycle, .implId, .sw, .nonce, .instId, .vsi, .clientId, .bootSeed, .certRef]

def validate (c : Claims) : Outcome Unit := validateWith validateOrder c

/-! ### constructors (newP1Claims / newP2Claims) -/

def Claims.new (p : Prof) : Claims :=
  match p with
  | .p1 => { prof := .p1, canonical := p1Name, profile := some (.str p1Name), clientId := none,
             lifecycle := none, implId := none, bootSeed := none, certRef := none,
             sw := .cont none, noSw := none, nonce := none, instId := none, vsi := none }
  | .p2 => { prof := .p2, canonical := p2Name, profile := some (.str p2Name), clientId := none,
             lifecycle := none, implId := none, bootSeed := none, certRef := none,
             sw := .cont none, noSw := none, nonce := none, instId := none, vsi := none }

end Psa.Model
