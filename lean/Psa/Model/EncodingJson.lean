/-
  psatoken/encoding, JSON side (encoding/json.go) at the level of JSON *trees*: the ordered field map
  (`structFieldsJSON`: member names in document order + a name ↦ raw value map in which the last duplicate wins),
  serialise / populate over struct shapes.  The text layer (tokeniser, string escapes, number syntax) is Go's
  encoding/json and enters as the driver's / harness's tree parser.
-/
import Psa.Model.Json
import Psa.Model.Encoding
namespace Psa.Model.EncJ
open Psa Psa.Model

structure JMap where
  /-- `Keys`: every member name, in order (duplicates in the input stay duplicated here) -/
  keys : List Bytes
  /-- `Fields`: name ↦ raw value -/
  fields : List (Bytes × Json)

def JMap.empty : JMap := { keys := [], fields := [] }

def JMap.has (m : JMap) (k : Bytes) : Bool := m.fields.any (·.1 == k)

def JMap.add (m : JMap) (k : Bytes) (v : Json) : Outcome JMap :=
  if m.has k then .err eOther else .ok { keys := m.keys ++ [k], fields := m.fields ++ [(k, v)] }

def JMap.get (m : JMap) (k : Bytes) : Option Json := (m.fields.find? (·.1 == k)).map (·.2)

/-- `Delete` (after fix 9cf080f): drops the field and filters every occurrence of the name out of `Keys` -/
def JMap.delete (m : JMap) (k : Bytes) : JMap :=
  { keys := m.keys.filter (· != k), fields := m.fields.filter (·.1 != k) }

/-- `ToJSON`: one object, members in `Keys` order -/
def JMap.toJSON (m : JMap) : Json := .obj (m.keys.map fun k => (k, (m.get k).getD .null))

/-- what `json.Unmarshal(data, &map)` leaves for a member list: the last value of every name -/
def lastWins : List (Bytes × Json) → List (Bytes × Json)
  | [] => []
  | (k, v) :: rest => if rest.any (·.1 == k) then lastWins rest else (k, v) :: lastWins rest

/-- `FromJSON`: the document must be an object -/
def fromJSON : Json → Dec JMap
  | .obj ms => .ok { keys := ms.map (·.1), fields := lastWins ms }
  | _ => .err

structure FieldSpecJ where
  name : Bytes
  omitempty : Bool
  ty : Enc.FTy

inductive ShapeJ
  | mk (fields : List FieldSpecJ) (embeds : List ShapeJ)

def jFVal : Option Enc.FVal → Json
  | none => .null
  | some (.int i) => .int i
  | some (.text s) => .str s
  | some (.bytes b) => jBytes b

def addFields : List FieldSpecJ → List (Option Enc.FVal) → JMap → Outcome JMap
  | f :: fs, v :: vs, m =>
    if f.omitempty && v.isNone then addFields fs vs m
    else (m.add f.name (jFVal v)).bind fun m' => addFields fs vs m'
  | _, _, m => .ok m

mutual
/-- `doSerializeStructToJSON` -/
def serializeInto : ShapeJ → Enc.SVal → JMap → Outcome JMap
  | .mk fields embeds, .mk vals evals, m => (addFields fields vals m).bind fun m' => serializeEmbeds embeds evals m'
def serializeEmbeds : List ShapeJ → List Enc.SVal → JMap → Outcome JMap
  | s :: ss, v :: vs, m => (serializeInto s v m).bind fun m' => serializeEmbeds ss vs m'
  | _, _, m => .ok m
end

/-- `SerializeStructToJSON` -/
def serialize (sh : ShapeJ) (v : Enc.SVal) : Outcome Json := (serializeInto sh v JMap.empty).map JMap.toJSON

def decFVal (ty : Enc.FTy) (j : Json) : Dec (Option Enc.FVal) :=
  match ty with
  | .int => (jDecInt (-9223372036854775808) 9223372036854775807 j).map fun o => o.map .int
  | .text => (jDecText j).map fun o => o.map .text
  | .bytes => (jDecBytes j).map fun o => o.map .bytes

def popFields : List FieldSpecJ → JMap → Dec (List (Option Enc.FVal) × JMap)
  | [], m => .ok ([], m)
  | f :: fs, m =>
    match m.get f.name with
    | none => if f.omitempty then (popFields fs m).map fun (vs, m') => (none :: vs, m') else .err
    | some raw =>
      (decFVal f.ty raw).bind fun v => (popFields fs (m.delete f.name)).map fun (vs, m') => (v :: vs, m')

mutual
/-- `doPopulateStructFromJSON` -/
def populateFrom : ShapeJ → JMap → Dec (Enc.SVal × JMap)
  | .mk fields embeds, m =>
    (popFields fields m).bind fun (vals, m') => (populateEmbeds embeds m').map fun (evs, m'') => (.mk vals evs, m'')
def populateEmbeds : List ShapeJ → JMap → Dec (List Enc.SVal × JMap)
  | [], m => .ok ([], m)
  | s :: ss, m => (populateFrom s m).bind fun (v, m') => (populateEmbeds ss m').map fun (vs, m'') => (v :: vs, m'')
end

/-- `PopulateStructFromJSON` -/
def populate (sh : ShapeJ) (j : Json) : Dec Enc.SVal :=
  (fromJSON j).bind fun m => (populateFrom sh m).map (·.1)

end Psa.Model.EncJ
