/- Code-shaped model of the lifecycle functions of claims_common.go. -/
import Psa.Basic
namespace Psa.Model

def lifeCycleToState (v : Nat) : Nat :=
  if 0 ≤ v ∧ v ≤ 0x00ff then 0
  else if 0x1000 ≤ v ∧ v ≤ 0x10ff then 1
  else if 0x2000 ≤ v ∧ v ≤ 0x20ff then 2
  else if 0x3000 ≤ v ∧ v ≤ 0x30ff then 3
  else if 0x4000 ≤ v ∧ v ≤ 0x40ff then 4
  else if 0x5000 ≤ v ∧ v ≤ 0x50ff then 5
  else if 0x6000 ≤ v ∧ v ≤ 0x60ff then 6
  else 7

def stateIsValid (o : Nat) : Bool := o < 7

def stateString (o : Nat) : String :=
  match o with
  | 0 => "unknown"
  | 1 => "assembly-and-test"
  | 2 => "psa-rot-provisioning"
  | 3 => "secured"
  | 4 => "non-psa-rot-debug"
  | 5 => "recoverable-psa-rot-debug"
  | 6 => "decommissioned"
  | _ => "invalid"

def validateSecurityLifeCycle (v : Nat) : Outcome Unit :=
  if !(stateIsValid (lifeCycleToState v)) then .err eWrongSyntax else .ok ()

end Psa.Model
