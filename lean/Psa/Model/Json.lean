/-
  JSON side of the claims layer, at tree level (DESIGN §4 C12): what
  `encoding/json` does for the struct tags and field types of the claims types,
  with the text layer (escaping, number syntax, whitespace) left to Go — the
  harness tokenises Go's JSON text into these trees.  Modelled, not verified.
-/
import Psa.Model.Codec
namespace Psa.Model
open Psa

inductive Json
  | null
  | bool (b : Bool)
  /-- a number literal that is an integer (`-?[0-9]+` without fraction/exponent) -/
  | int (i : Int)
  /-- any other number literal (raw text) -/
  | numOther (raw : Bytes)
  /-- a string, as its decoded UTF-8 bytes -/
  | str (s : Bytes)
  | arr (xs : List Json)
  | obj (ms : List (Bytes × Json))
  deriving Repr, Inhabited

/-! ### base64 (standard alphabet, padded) -/

def b64char (n : Nat) : UInt8 :=
  if n < 26 then UInt8.ofNat (65 + n)
  else if n < 52 then UInt8.ofNat (97 + (n - 26))
  else if n < 62 then UInt8.ofNat (48 + (n - 52))
  else if n = 62 then 43 else 47

def b64val (c : UInt8) : Option Nat :=
  let n := c.toNat
  if 65 ≤ n ∧ n ≤ 90 then some (n - 65)
  else if 97 ≤ n ∧ n ≤ 122 then some (n - 97 + 26)
  else if 48 ≤ n ∧ n ≤ 57 then some (n - 48 + 52)
  else if n = 43 then some 62
  else if n = 47 then some 63
  else none

def b64enc : Bytes → Bytes
  | [] => []
  | [a] =>
    let x := a.toNat
    [b64char (x / 4), b64char (x % 4 * 16), 61, 61]
  | [a, b] =>
    let x := a.toNat; let y := b.toNat
    [b64char (x / 4), b64char (x % 4 * 16 + y / 16), b64char (y % 16 * 4), 61]
  | a :: b :: c :: rest =>
    let x := a.toNat; let y := b.toNat; let z := c.toNat
    b64char (x / 4) :: b64char (x % 4 * 16 + y / 16) :: b64char (y % 16 * 4 + z / 64) :: b64char (z % 64) :: b64enc rest

/-- strict decoder (Go's `base64.StdEncoding`): length a multiple of 4, `=` padding only in the
    last quantum; trailing bits of a padded quantum are not checked -/
def b64dec : Bytes → Option Bytes
  | [] => some []
  | a :: b :: c :: d :: rest =>
    match b64val a, b64val b with
    | some x, some y =>
      if c = 61 then (if d = 61 ∧ rest = [] then some [UInt8.ofNat (x * 4 + y / 16)] else none)
      else
        match b64val c with
        | none => none
        | some z =>
          if d = 61 then
            (if rest = [] then some [UInt8.ofNat (x * 4 + y / 16), UInt8.ofNat (y % 16 * 16 + z / 4)] else none)
          else
            match b64val d with
            | none => none
            | some w =>
              (b64dec rest).map fun r =>
                UInt8.ofNat (x * 4 + y / 16) :: UInt8.ofNat (y % 16 * 16 + z / 4) :: UInt8.ofNat (z % 4 * 64 + w) :: r
    | _, _ => none
  | _ => none

/-! ### member names (struct tags; tied to the source by T2) -/

def jn (s : String) : Bytes := strBytes s

def jP1Profile := jn "psa-profile"
def jP2Profile := jn "eat-profile"
def jClientId := jn "psa-client-id"
def jLifecycle := jn "psa-security-lifecycle"
def jImplId := jn "psa-implementation-id"
def jBootSeed := jn "psa-boot-seed"
def jP1CertRef := jn "psa-hwver"
def jP2CertRef := jn "psa-certification-reference"
def jSw := jn "psa-software-components"
def jNoSw := jn "psa-no-software-measurements"
def jNonce := jn "psa-nonce"
def jInstId := jn "psa-instance-id"
def jVsi := jn "psa-verification-service-indicator"
def jMType := jn "measurement-type"
def jMVal := jn "measurement-value"
def jVersion := jn "version"
def jSigner := jn "signer-id"
def jMDesc := jn "measurement-description"

/-! ### encoding -/

def jBytes (b : Bytes) : Json := .str (b64enc b)
def jOptBytes : Option Bytes → Json
  | none => .null
  | some b => jBytes b
def jOmit (name : Bytes) : Option Json → List (Bytes × Json)
  | none => []
  | some v => [(name, v)]

def SwComp.toJson (sc : SwComp) : Json :=
  .obj (jOmit jMType (sc.mtype.map .str) ++ [(jMVal, jOptBytes sc.mval)] ++ jOmit jVersion (sc.version.map .str) ++
        [(jSigner, jOptBytes sc.signer)] ++ jOmit jMDesc (sc.mdesc.map .str))

def swToJson : SwField → Json
  | .nilIface => .null
  | .cont none => .null
  | .cont (some l) => .arr (l.map fun | none => .null | some sc => sc.toJson)

def jOptInt : Option Int → Json
  | none => .null
  | some i => .int i
def jOptNat : Option Nat → Json
  | none => .null
  | some i => .int i

def p1ToJson (c : Claims) : Outcome Json :=
  .ok (.obj (
    jOmit jP1Profile (match c.profile with | some (.str s) => some (.str s) | _ => none) ++
    [(jClientId, jOptInt c.clientId), (jLifecycle, jOptNat c.lifecycle),
     (jImplId, jOptBytes c.implId), (jBootSeed, jOptBytes c.bootSeed)] ++
    jOmit jP1CertRef (c.certRef.map .str) ++
    jOmit jSw (if c.sw.nilOrEmpty then none else some (swToJson c.sw)) ++
    jOmit jNoSw (c.noSw.map fun n => .int n) ++
    [(jNonce, match c.nonce with | some [b] => jBytes b | _ => .null),
     (jInstId, jOptBytes c.instId)] ++
    jOmit jVsi (c.vsi.map .str)))

def p2ToJson (c : Claims) : Outcome Json :=
  match c.profile with
  | some .invalid => .err eOther
  | prof =>
    let nonce : Outcome Json := match c.nonce with
      | none => .ok .null
      | some l => if !nonceOK l then .err eOther
                  else match l with
                    | [b] => .ok (jBytes b)
                    | _ => .ok (.arr (l.map jBytes))
    nonce.bind fun nv =>
    .ok (.obj (
      [(jP2Profile, match prof with | some (.str s) => .str s | _ => .null),
       (jClientId, jOptInt c.clientId), (jLifecycle, jOptNat c.lifecycle), (jImplId, jOptBytes c.implId)] ++
      jOmit jBootSeed (c.bootSeed.map jBytes) ++
      jOmit jP2CertRef (c.certRef.map .str) ++
      [(jSw, swToJson c.sw), (jNonce, nv), (jInstId, jOptBytes c.instId)] ++
      jOmit jVsi (c.vsi.map .str)))

/-- `EncodeClaimsToJSON` (tree level) -/
def encodeJSON (c : Claims) : Outcome Json :=
  match c.prof with
  | .p1 => p1ToJson c
  | .p2 => p2ToJson c

/-! ### decoding (the modelled domain: members of the expected JSON type, no duplicate
    or differently-cased member names; everything else is `ood`) -/

def jDecText : Json → Dec (Option Bytes)
  | .str s => .ok (some s)
  | .null => .ok none
  | _ => .err

def jDecInt (lo hi : Int) : Json → Dec (Option Int)
  | .int i => if lo ≤ i ∧ i ≤ hi then .ok (some i) else .err
  | .null => .ok none
  | _ => .err

def jDecBytes : Json → Dec (Option Bytes)
  | .str s => (match b64dec s with | some b => .ok (some b) | none => if s.contains 13 || s.contains 10 then .ood else .err)
  | .null => .ok none
  | .arr _ => .ood      -- Go decodes an array of numbers element-wise into []byte
  | _ => .err

def lookupMember (ms : List (Bytes × Json)) (name : Bytes) : Option Json := (ms.find? (·.1 == name)).map (·.2)

def lowerByte (b : UInt8) : UInt8 := if 65 ≤ b.toNat ∧ b.toNat ≤ 90 then UInt8.ofNat (b.toNat + 32) else b
def lowerBytes (s : Bytes) : Bytes := s.map lowerByte

/-- member names are pairwise different even ignoring ASCII case, and all ASCII -/
def noDupB : List Bytes → Bool
  | [] => true
  | x :: xs => !xs.contains x && noDupB xs

def namesClean (ms : List (Bytes × Json)) : Bool :=
  noDupB (ms.map fun m => lowerBytes m.1) && ms.all fun m => m.1.all fun b => b.toNat < 128

/-- a member named `name` exactly; a member differing only in case makes the document `ood` -/
def member (ms : List (Bytes × Json)) (name : Bytes) : Dec (Option Json) :=
  match lookupMember ms name with
  | some v => .ok (some v)
  | none => if ms.any (fun m => lowerBytes m.1 == lowerBytes name) then .ood else .ok none

def jDecComp : Json → Dec (Option SwComp)
  | .null => .ok none
  | .obj ms =>
    if !namesClean ms then .ood else
    (member ms jMType).bind fun a => (member ms jMVal).bind fun b => (member ms jVersion).bind fun c =>
    (member ms jSigner).bind fun d => (member ms jMDesc).bind fun e =>
    let f {α} (o : Option Json) (g : Json → Dec (Option α)) : Dec (Option α) := match o with | none => .ok none | some j => g j
    -- all members are decoded even after an error (which then wins over a later ood? no: Go stops
    -- at nothing, the first error is reported) — here: ood dominates, then err
    match f a jDecText, f b jDecBytes, f c jDecText, f d jDecBytes, f e jDecText with
    | .ok a', .ok b', .ok c', .ok d', .ok e' => .ok (some { mtype := a', mval := b', version := c', signer := d', mdesc := e' })
    | r1, r2, r3, r4, r5 =>
      if r1 == .ood || r2 == .ood || r3 == .ood || r4 == .ood || r5 == .ood then .ood else .err
  | _ => .err

def jDecComps : Json → Dec (Option (List (Option SwComp)))
  | .null => .ok none
  | .arr xs => (decAll jDecComp xs).map some
  | _ => .err

/-- into the interface field: JSON null makes the interface itself nil -/
def jDecSw (cur : SwField) (j : Json) : Dec SwField :=
  match j with
  | .null => .ok .nilIface
  | _ => match cur with
    | .nilIface => .err
    | .cont _ => (jDecComps j).map .cont

def jDecNonceElem : Json → Dec Bytes
  | .str s => (match b64dec s with | some b => .ok b | none => if s.contains 13 || s.contains 10 then .ood else .err)
  | _ => .err

def jDecEatNonce : Json → Dec (Option (List Bytes))
  | .null => .ok none
  | .arr xs => (decAll jDecNonceElem xs).map some
  | j => (jDecNonceElem j).map fun b => some [b]

def jDecEatProfile (urlNorm : Bytes → Dec Bytes) : Json → Dec (Option ProfVal)
  | .null => .ok none
  | .str s => (match urlNorm s with
      | .ok u => .ok (some (.str u))
      | .err => .ood      -- falls back to OID parsing: not modelled
      | .ood => .ood)
  | _ => .err

def combine {α} (c : Claims) (rs : List (Dec (Claims → Claims))) (_ : α) : Dec Claims :=
  if rs.any (· matches .ood) then .ood
  else if rs.any (· matches .err) then .err
  else .ok (rs.foldl (fun acc r => match r with | .ok f => f acc | _ => acc) c)

def fld {α} (ms : List (Bytes × Json)) (name : Bytes) (dec : Json → Dec α) (set : α → Claims → Claims) :
    Dec (Claims → Claims) :=
  match member ms name with
  | .ood => .ood
  | .err => .err
  | .ok none => .ok id
  | .ok (some j) => (dec j).map set

/-- `(*P1Claims).UnmarshalJSON` / `(*P2Claims).UnmarshalJSON` on the object `c0` -/
def unmarshalJSONInto (urlNorm : Bytes → Dec Bytes) (c0 : Claims) (j : Json) : Dec Claims :=
  let c := { c0 with profile := none }
  match j with
  | .null => .ok c
  | .obj ms =>
    if !namesClean ms then .ood else
    match c.prof with
    | .p1 => combine c [
        fld ms jP1Profile jDecText (fun x c => { c with profile := x.map .str }),
        fld ms jClientId (jDecInt (-2147483648) 2147483647) (fun x c => { c with clientId := x }),
        fld ms jLifecycle (jDecInt 0 65535) (fun x c => { c with lifecycle := x.map Int.toNat }),
        fld ms jImplId jDecBytes (fun x c => { c with implId := x }),
        fld ms jBootSeed jDecBytes (fun x c => { c with bootSeed := x }),
        fld ms jP1CertRef jDecText (fun x c => { c with certRef := x }),
        fld ms jSw (jDecSw c.sw) (fun x c => { c with sw := x }),
        fld ms jNoSw (jDecInt 0 18446744073709551615) (fun x c => { c with noSw := x.map Int.toNat }),
        fld ms jNonce jDecBytes (fun x c => { c with nonce := x.map fun b => [b] }),
        fld ms jInstId jDecBytes (fun x c => { c with instId := x }),
        fld ms jVsi jDecText (fun x c => { c with vsi := x })] ()
    | .p2 => combine c [
        fld ms jP2Profile (jDecEatProfile urlNorm) (fun x c => { c with profile := x }),
        fld ms jClientId (jDecInt (-2147483648) 2147483647) (fun x c => { c with clientId := x }),
        fld ms jLifecycle (jDecInt 0 65535) (fun x c => { c with lifecycle := x.map Int.toNat }),
        fld ms jImplId jDecBytes (fun x c => { c with implId := x }),
        fld ms jBootSeed jDecBytes (fun x c => { c with bootSeed := x }),
        fld ms jP2CertRef jDecText (fun x c => { c with certRef := x }),
        fld ms jSw (jDecSw c.sw) (fun x c => { c with sw := x }),
        fld ms jNonce jDecEatNonce (fun x c => { c with nonce := x }),
        fld ms jInstId jDecBytes (fun x c => { c with instId := x }),
        fld ms jVsi jDecText (fun x c => { c with vsi := x })] ()
  | _ => .err

/-! ### dispatch (iclaims.go:DecodeClaimsFromJSON) -/

/-- one entry of the profile register as the JSON dispatcher sees it -/
structure RegEntry where
  /-- name it is registered under ("" = the default entry) -/
  key : Bytes
  /-- `entry.Profile.GetName()` -/
  profName : Bytes
  /-- JSON member name of the profile field of its claims type -/
  jsonTag : Bytes
  /-- which claims implementation it creates -/
  entry : Entry
  deriving Repr

def builtinRegistry : List RegEntry :=
  [{ key := [], profName := p1Name, jsonTag := jP1Profile, entry := .p1 },
   { key := p1Name, profName := p1Name, jsonTag := jP1Profile, entry := .p1 },
   { key := p2Name, profName := p2Name, jsonTag := jP2Profile, entry := .p2 }]

inductive Dispatch
  | found (e : RegEntry)
  | none
  | multiple
  deriving Repr

/-- the range over the register: an entry matches when the document has a member named by the
    entry's JSON tag whose value is the string equal to the entry's profile name -/
def entryMatches (ms : List (Bytes × Json)) (e : RegEntry) : Bool :=
  match lookupMember ms e.jsonTag with
  | some (.str s) => s == e.profName
  | _ => false

def dispatchStep (ms : List (Bytes × Json)) (acc : Dispatch) (e : RegEntry) : Dispatch :=
  match acc with
  | .multiple => .multiple
  | _ =>
    if entryMatches ms e then
      match acc with
      | .found f => if f.profName != e.profName then .multiple else .found e
      | _ => .found e
    else acc

def dispatchJSON (reg : List RegEntry) (ms : List (Bytes × Json)) : Dispatch :=
  reg.foldl (dispatchStep ms) .none

/-- some entry's profile member is present with a non-null value -/
def profilePresent (reg : List RegEntry) (ms : List (Bytes × Json)) : Bool :=
  reg.any fun e => match lookupMember ms e.jsonTag with
    | some .null => false
    | some _ => true
    | none => false

/-- `DecodeClaimsFromJSON`: the document is first read as a generic map (so it must be an
    object), the register is searched for a matching profile, then the typed decode runs -/
def decodeClaimsJSON (urlNorm : Bytes → Dec Bytes) (reg : List RegEntry) (j : Json) : Dec Claims :=
  match j with
  | .obj ms =>
    if !namesClean ms then .ood else
    match dispatchJSON reg ms with
    | .found e =>
      (match e.entry with
       | .p1 => unmarshalJSONInto urlNorm (Claims.new .p1) j
       | .p2 => unmarshalJSONInto urlNorm (Claims.new .p2) j
       | .other => .ood)
    | .none =>
      -- no registered profile member present (or only null ones): the default entry
      if profilePresent reg ms then .err
      else (match reg.find? (fun e => e.key == []) with
        | none => .err
        | some e => (match e.entry with
          | .p1 => unmarshalJSONInto urlNorm (Claims.new .p1) j
          | .p2 => unmarshalJSONInto urlNorm (Claims.new .p2) j
          | .other => .ood))
    | .multiple => .err
  | _ => .err

end Psa.Model
