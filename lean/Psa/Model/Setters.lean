/-
  Setters of claims_p1.go / claims_p2.go / swcomponent.go and the component
  container's Replace (swcomponents.go), code-shaped: validate, then assign.
-/
import Psa.Model.Claims
namespace Psa.Model
open Psa

inductive SetOp
  | clientId (v : Int)
  | lifecycle (v : Nat)
  | implId (b : Bytes)
  | bootSeed (b : Bytes)
  | certRef (s : Bytes)
  /-- `none` = a nil slice; only the library's own component type, no nil elements -/
  | sw (l : Option (List SwComp))
  | nonce (b : Bytes)
  | instId (b : Bytes)
  | vsi (s : Bytes)
  deriving DecidableEq, Repr

/-- `validateAndConvert`: validates every element, converts all before anything is swapped in -/
def validateAndConvert : List SwComp → Outcome (List (Option SwComp))
  | [] => .ok []
  | sc :: rest =>
    match sc.validate with
    | .ok _ => (validateAndConvert rest).bind fun l => .ok (some sc :: l)
    | .err m => .err m
    | .panic s => .panic s

/-- `(*SwComponents).Replace` on a container holding `old` -/
def replaceVals (vals : List SwComp) : Outcome (Option (List (Option SwComp))) :=
  (validateAndConvert vals).bind fun l => .ok (some l)

/-- `(*SwComponents).Add` on a container holding `old`: everything is validated and converted first, then appended -/
def addVals (old : List (Option SwComp)) (vals : List SwComp) : Outcome (List (Option SwComp)) :=
  (validateAndConvert vals).bind fun l => .ok (old ++ l)

/-- the container's own mutators -/
inductive ContOp
  | add (l : List SwComp)
  | replace (l : List SwComp)
  deriving DecidableEq, Repr

def contStep (cur : List (Option SwComp)) : ContOp → List (Option SwComp) × Outcome Unit
  | .add l =>
    match addVals cur l with
    | .ok n => (n, .ok ())
    | .err m => (cur, .err m)
    | .panic s => (cur, .panic s)
  | .replace l =>
    match validateAndConvert l with
    | .ok n => (n, .ok ())
    | .err m => (cur, .err m)
    | .panic s => (cur, .panic s)

def applySet (c : Claims) (op : SetOp) : Claims × Outcome Unit :=
  match op with
  | .clientId v => ({ c with clientId := some v }, .ok ())
  | .lifecycle v =>
    match validateSecurityLifeCycle v with
    | .ok _ => ({ c with lifecycle := some v }, .ok ())
    | e => (c, e)
  | .implId b =>
    match validateImplID b with
    | .ok _ => ({ c with implId := some b }, .ok ())
    | e => (c, e)
  | .bootSeed b =>
    match c.prof with
    | .p1 => if b.length != 32 then (c, .err eWrongSyntax) else ({ c with bootSeed := some b }, .ok ())
    | .p2 => if b.length < 8 || b.length > 32 then (c, .err eWrongSyntax) else ({ c with bootSeed := some b }, .ok ())
  | .certRef s =>
    match c.prof with
    | .p1 => if !isEan13 s && !isEan13p5 s then (c, .err eWrongSyntax) else ({ c with certRef := some s }, .ok ())
    | .p2 => if !isEan13p5 s then (c, .err eWrongSyntax) else ({ c with certRef := some s }, .ok ())
  | .sw l =>
    match c.prof with
    | .p1 =>
      match l with
      | none => ({ c with noSw := some 1, sw := .nilIface }, .ok ())
      | some vals =>
        -- the new list is built aside and attached only on success (fix for D11): a refused list leaves
        -- the claims-set, the nil container included, as it was
        match replaceVals vals with
        | .ok nv => ({ c with sw := .cont nv, noSw := none }, .ok ())
        | .err m => (c, .err m)
        | .panic s => (c, .panic s)
    | .p2 =>
      match l with
      | none => (c, .err eWrongSyntax)   -- the claim is mandatory: a nil list is not a value (fix for D9)
      | some vals =>
        let c1 := match c.sw with | .nilIface => { c with sw := .cont none } | _ => c
        match replaceVals vals with
        | .ok nv => ({ c1 with sw := .cont nv }, .ok ())
        | .err m => (c1, .err m)
        | .panic s => (c1, .panic s)
  | .nonce b =>
    match validatePSAHashType b with
    | .ok _ => ({ c with nonce := some [b] }, .ok ())
    | e => (c, e)
  | .instId b =>
    match validateInstID b with
    | .ok _ => ({ c with instId := some b }, .ok ())
    | e => (c, e)
  | .vsi s =>
    match validateVSI s with
    | .ok _ => ({ c with vsi := some s }, .ok ())
    | e => (c, e)

def run (c : Claims) (ops : List SetOp) : Claims := ops.foldl (fun c o => (applySet c o).1) c

/-! component setters (swcomponent.go) -/
inductive CompOp
  | mtype (s : Bytes) | mval (b : Bytes) | version (s : Bytes) | signer (b : Bytes) | mdesc (s : Bytes)
  deriving DecidableEq, Repr

def applyCompSet (sc : SwComp) (op : CompOp) : SwComp × Outcome Unit :=
  match op with
  | .mtype s => ({ sc with mtype := some s }, .ok ())
  | .mval b =>
    match validatePSAHashType b with
    | .ok _ => ({ sc with mval := some b }, .ok ())
    | e => (sc, e)
  | .version s => ({ sc with version := some s }, .ok ())
  | .signer b =>
    match validatePSAHashType b with
    | .ok _ => ({ sc with signer := some b }, .ok ())
    | e => (sc, e)
  | .mdesc s => ({ sc with mdesc := some s }, .ok ())

end Psa.Model
