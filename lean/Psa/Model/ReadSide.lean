/-
  Read-side operations in operational form: `step : State → Op → State × Out`, so that "does not change
  its operand" is a statement and not an accident of typing.  Whether a Go method can change the caller's
  object is *derived from how the method is declared* (receiver kind, receiver fields it assigns or writes
  through, methods it invokes on receiver fields) — the facts regenerated from /repo (tie T2).
-/
import Psa.Model.Json
import Psa.Model.Evidence
import Psa.Model.FactTypes
namespace Psa.Model.Read
open Psa Psa.Model

/-- methods of field types that are themselves read-only (value receivers of this library, and the accessors /
    verification of veraison/eat and go-cose, which are trusted) -/
def readOnlyCalls : List String :=
  ["SwComponents.IsEmpty", "SwComponents.Values", "Profile.Get", "Claims.GetImplID", "Claims.GetInstID",
   "message.Verify"]

/-- may the caller's object differ after this method returns? -/
def writesCaller (ms : List MethodFact) (recv name : String) : Bool :=
  match ms.find? (fun m => m.recv == recv && m.name == name) with
  | none => true                              -- no such method: assume the worst
  | some m =>
    (m.pointer && !m.assigns.isEmpty)         -- assigns a field through a pointer receiver
    || !m.deep.isEmpty                        -- writes through a field (shared even by a copy)
    || m.calls.any (fun c => !readOnlyCalls.contains c)

inductive ROp
  | validate
  | get (g : Getter)
  | encCbor
  | encJson
  deriving DecidableEq, Repr

inductive ROut
  | unit (o : Outcome Unit)
  | val (o : Outcome Val)
  | bytes (o : Outcome Bytes)
  | json (o : Outcome Json)

def recvOf : Prof → String
  | .p1 => "P1Claims"
  | .p2 => "P2Claims"

def getterMethod : Getter → String
  | .profile => "GetProfile" | .clientId => "GetClientID" | .lifecycle => "GetSecurityLifeCycle"
  | .implId => "GetImplID" | .bootSeed => "GetBootSeed" | .certRef => "GetCertificationReference"
  | .sw => "GetSoftwareComponents" | .nonce => "GetNonce" | .instId => "GetInstID" | .vsi => "GetVSI"

/-- the Go methods an operation runs on the claims object (profile 2 has no marshal methods of its own:
    the codec reads the struct through reflection) -/
def methodsOf (p : Prof) : ROp → List String
  | .validate => ["Validate"]
  | .get g => [getterMethod g]
  | .encCbor => (match p with | .p1 => ["MarshalCBOR"] | .p2 => [])
  | .encJson => (match p with | .p1 => ["MarshalJSON"] | .p2 => [])

def eval (c : Claims) : ROp → ROut
  | .validate => .unit (validate c)
  | .get g => .val (Model.get g c)
  | .encCbor => .bytes (encodeClaims c)
  | .encJson => .json (encodeJSON c)

/-- what the method body does to the object it holds: profile 1's marshallers drop an empty container -/
def bodyEffect (c : Claims) : ROp → Claims
  | .encCbor => (match c.prof with | .p1 => if c.sw.nilOrEmpty then { c with sw := .nilIface } else c | .p2 => c)
  | .encJson => (match c.prof with | .p1 => if c.sw.nilOrEmpty then { c with sw := .nilIface } else c | .p2 => c)
  | _ => c

def step (ms : List MethodFact) (c : Claims) (op : ROp) : Claims × ROut :=
  let touched := (methodsOf c.prof op).any (writesCaller ms (recvOf c.prof))
  (if touched then bodyEffect c op else c, eval c op)

def run (ms : List MethodFact) (c : Claims) : List ROp → Claims × List ROut
  | [] => (c, [])
  | op :: ops => let (c1, o) := step ms c op; let (c2, os) := run ms c1 ops; (c2, o :: os)

/-! evidence -/
inductive EOp
  | verify (k : Nat)
  | getInstID
  | getImplID
  | marshalJSON

def eMethod : EOp → String
  | .verify _ => "Verify" | .getInstID => "GetInstanceID" | .getImplID => "GetImplementationID" | .marshalJSON => "MarshalJSON"

/-- a read-side method of Evidence that wrote its receiver would leave *some other* evidence behind -/
def estep (ms : List MethodFact) (kt : KeyTable) (w : World) (havoc : Ev → Ev) (e : Ev) (op : EOp) : Ev × Outcome Unit :=
  let out := match op with
    | .verify k => evVerify kt w e k
    | _ => .ok ()
  (if writesCaller ms "Evidence" (eMethod op) then havoc e else e, out)

end Psa.Model.Read
