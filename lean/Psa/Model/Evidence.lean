/-
  The COSE_Sign1 envelope and `Evidence` (evidence.go + the parts of
  veraison/go-cose v1.3.0-rc.1 it drives), with signatures as an *ideal
  functionality*: the world carries a log of (key, to-be-signed bytes,
  signature) triples written only by signing; verification is membership.
  go-cose's header-parameter validation is over-approximated (any well-formed
  map is accepted), which is the sound direction for C20.
-/
import Psa.Model.Codec
namespace Psa.Model
open Psa

/-- what `ProtectedHeader.Algorithm()` reports -/
inductive AlgHdr
  | alg (a : Int)
  | notFound
  | invalid
  deriving DecidableEq, Repr

/-- `cose.Sign1Message` as far as psatoken uses it -/
structure Msg where
  /-- content of the protected-header byte string ([] = empty protected header) -/
  prot : Bytes
  /-- `nil` payload = `none` -/
  payload : Option Bytes
  sig : Bytes
  deriving DecidableEq, Repr

/-- `cose.NewSign1Message()` -/
def Msg.fresh : Msg := { prot := [], payload := none, sig := [] }

structure Ev where
  claims : Option Claims
  msg : Option Msg
  deriving DecidableEq, Repr

def Ev.empty : Ev := { claims := none, msg := none }

mutual
def Cbor.hasTag : Cbor → Bool
  | .tag _ _ => true
  | .arr xs => Cbor.hasTagList xs
  | .map kvs => Cbor.hasTagPairs kvs
  | _ => false
def Cbor.hasTagList : List Cbor → Bool
  | [] => false
  | x :: xs => Cbor.hasTag x || Cbor.hasTagList xs
def Cbor.hasTagPairs : List (Cbor × Cbor) → Bool
  | [] => false
  | (k, v) :: rest => Cbor.hasTag k || Cbor.hasTag v || Cbor.hasTagPairs rest
end

/-- the `alg` (label 1) parameter of a protected-header map -/
def algOfMap : List (Cbor × Cbor) → AlgHdr
  | [] => .notFound
  | (.uint 1, v) :: _ =>
    (match v with
     | .uint n => .alg n
     | .nint n => .alg (-1 - (n : Int))
     | _ => .invalid)
  | _ :: rest => algOfMap rest

/-- `Headers.Protected.Algorithm()` of a message whose protected bytes are `prot` -/
def protAlg (prot : Bytes) : AlgHdr :=
  if prot = [] then .notFound
  else match Cbor.decodeAll {} prot with
    | some (.map kvs) => algOfMap kvs
    | _ => .invalid

/-- Sig_structure: `["Signature1", protected, external_aad, payload]`, encoded -/
def sigStructure (prot ext payload : Bytes) : Cbor :=
  .arr [.tstr (strBytes "Signature1"), .bstr prot, .bstr ext, .bstr payload]

def toBeSigned (prot ext payload : Bytes) : Bytes := (sigStructure prot ext payload).enc

/-- the external AAD psatoken passes to both Sign and Verify (tied by T2) -/
def externalAAD : Bytes := []

/-- ideal signature functionality -/
structure World where
  log : List (Nat × Bytes × Bytes)
  deriving Repr

def World.empty : World := { log := [] }

/-- `verifier.Verify(tbs, sig)` for the key `k` -/
def World.sigVerify (w : World) (k : Nat) (tbs sig : Bytes) : Bool := w.log.contains (k, tbs, sig)

inductive SignerKind
  /-- signs: the oracle returns `reply` (supplied by the environment) -/
  | good
  /-- `Sign` returns an error -/
  | failing
  /-- `Sign` returns no error and an empty signature -/
  | emptySig
  deriving DecidableEq, Repr

structure Signer where
  key : Nat
  alg : Int
  kind : SignerKind
  reply : Bytes
  deriving Repr

/-- protected header `{1: alg}` as encoded by go-cose -/
def protOfAlg (alg : Int) : Bytes := (Cbor.map [(.uint 1, cInt alg)]).enc

/-- tag-18 envelope around a message (`Sign1Message.MarshalCBOR`) -/
def envelopeTree (m : Msg) : Cbor :=
  .tag 18 (.arr [.bstr m.prot, .map [], (match m.payload with | some p => .bstr p | none => .null), .bstr m.sig])

/-- `(*Evidence).SetClaims` -/
def evSetClaims (e : Ev) (c : Claims) : Ev × Outcome Unit :=
  match validate c with
  | .ok _ => ({ e with claims := some c }, .ok ())
  | .err m => (e, .err m)
  | .panic s => (e, .panic s)

/-- `doSign` on a message whose payload has been set -/
def doSign (w : World) (m : Msg) (s : Signer) : World × Msg × Outcome Bytes :=
  let m1 := { m with prot := protOfAlg s.alg }
  match m1.payload with
  | none => (w, m1, .err eOther)                    -- ErrMissingPayload
  | some p =>
    match s.kind with
    | .failing => (w, m1, .err eOther)
    | .emptySig => (w, m1, .err eOther)             -- MarshalCBOR: ErrEmptySignature
    | .good =>
      if s.reply = [] then (w, m1, .err eOther)
      else
        let w' : World := { log := (s.key, toBeSigned m1.prot externalAAD p, s.reply) :: w.log }
        let m2 := { m1 with sig := s.reply }
        (w', m2, .ok (envelopeTree m2).enc)

/-- the payload `Sign` (`validated = false`) / `ValidateAndSign` (`validated = true`) compute:
    `ValidateAndSign` calls `Validate()` on the claims (a nil interface panics), `Sign` encodes
    them as they are (a nil interface encodes as CBOR null) -/
def signPayload (validated : Bool) (claims : Option Claims) : Outcome Bytes :=
  match claims with
  | none => if validated then .panic "nil claims" else .ok [0xf6]
  | some c => (if validated then validate c else .ok ()).bind fun _ => encodeClaims c

/-- `(*Evidence).Sign` / `(*Evidence).ValidateAndSign`: fresh message first, then payload, then `doSign` -/
def evSign (validated : Bool) (w : World) (e : Ev) (s : Signer) : World × Ev × Outcome Bytes :=
  match signPayload validated e.claims with
  | .err m => (w, { e with msg := some Msg.fresh }, .err m)
  | .panic x => (w, { e with msg := some Msg.fresh }, .panic x)
  | .ok payload =>
    let r := doSign w { Msg.fresh with payload := some payload } s
    (r.1, { e with msg := some r.2.1 }, r.2.2)

/-- header maps whose validation by go-cose the model reproduces exactly: the empty protected
    header, or exactly `{1: <integer>}`; an empty unprotected map.  Anything else that is a
    well-formed map is `ood` (go-cose's header-parameter rules are not modelled). -/
def protClass (prot : Bytes) : Dec Unit :=
  if prot = [] then .ok ()
  else match Cbor.decodeAll {} prot with
    | some (.map [(.uint 1, .uint _)]) => .ok ()
    | some (.map [(.uint 1, .nint n)]) => if n < 2 ^ 63 then .ok () else .ood
    | some (.map kvs) => if Cbor.hasTagPairs kvs then .err else .ood
    | _ => .err

/-- the four elements of a COSE_Sign1 array, typed as go-cose types them; tags forbidden -/
def msgOfArray : List Cbor → Dec Msg
  | [.bstr prot, .map un, pl, .bstr sig] =>
    if Cbor.hasTagPairs un then .err
    else if sig = [] then .err
    else
      match protClass prot with
      | .err => .err
      | .ood => .ood
      | .ok _ =>
        if !un.isEmpty then .ood
        else match pl with
          | .bstr p => .ok { prot := prot, payload := some p, sig := sig }
          | .simple 22 => .ok { prot := prot, payload := none, sig := sig }
          | _ => .err
  | _ => .err

/-- `Sign1Message.UnmarshalCBOR`: the `d2 84` prefix, then a 4-array -/
def decodeEnvelope (bs : Bytes) : Dec Msg :=
  match bs with
  | 0xd2 :: 0x84 :: _ =>
    (match Cbor.decodeAll {} bs with
     | some (.tag 18 (.arr xs)) => msgOfArray xs
     | _ => .err)
  | _ => .err

/-- `(*Evidence).UnmarshalCOSE` -/
def evUnmarshal (urlNorm : Bytes → Dec Bytes) (extra : List Bytes) (e : Ev) (bs : Bytes) : Ev × Dec Unit :=
  match decodeEnvelope bs with
  | .err => ({ e with msg := some Msg.fresh }, .err)
  | .ood => ({ e with msg := some Msg.fresh }, .ood)
  | .ok m =>
    -- a failed claims decode clears the claims and leaves a fresh message (fix 930c217)
    match m.payload with
    | none => ({ claims := none, msg := some Msg.fresh }, .err)        -- decoding of an empty buffer fails
    | some p =>
      match decodeClaims urlNorm extra p with
      | .ok c => ({ claims := some c, msg := some m }, .ok ())
      | .err => ({ claims := none, msg := some Msg.fresh }, .err)
      | .ood => ({ claims := none, msg := some Msg.fresh }, .ood)

/-- the environment's knowledge that key `k` legitimately signed the token `bs` elsewhere -/
def World.know (w : World) (k : Nat) (bs : Bytes) : World :=
  match decodeEnvelope bs with
  | .ok m => (match m.payload with
    | some p => { log := (k, toBeSigned m.prot externalAAD p, m.sig) :: w.log }
    | none => w)
  | _ => w

/-- which (algorithm, key) pairs `cose.NewVerifier` accepts: a parameter of the environment -/
abbrev KeyTable := Nat → Int → Bool

/-- `(*Evidence).Verify` with the public key of `k` -/
def evVerify (kt : KeyTable) (w : World) (e : Ev) (k : Nat) : Outcome Unit :=
  match e.msg with
  | none => .err eOther
  | some m =>
    match protAlg m.prot with
    | .notFound => .err eOther
    | .invalid => .err eOther
    | .alg a =>
      if !kt k a then .err eOther
      else match m.payload with
        | none => .err eOther
        | some p =>
          if m.sig = [] then .err eOther
          else if w.sigVerify k (toBeSigned m.prot externalAAD p) m.sig then .ok () else .err eOther

end Psa.Model
