/-
  Go error values as `errors.Is` sees them (DESIGN §3.5) and `FilterError`
  (errors.go) on arbitrary error trees.
-/
import Psa.Basic
namespace Psa.Model
open Psa

/-- An error value, abstracted to its `Unwrap`/`Is` structure. -/
inductive GoErr
  /-- one of the five sentinel errors of errors.go -/
  | sentinel (s : Sentinel)
  /-- `errors.New(..)`: matches nothing but itself -/
  | opaque
  /-- `fmt.Errorf("..%w..", e)` -/
  | wrapW (e : GoErr)
  /-- `fmt.Errorf("..%v..", e)`: the chain is cut -/
  | wrapV (e : GoErr)
  /-- `errors.Join(es…)` or `fmt.Errorf` with several `%w` -/
  | join (es : List GoErr)
  /-- a user type with `Is(t) = (t == s)` and `Unwrap() = inner` -/
  | custom (s : Sentinel) (inner : Option GoErr)

mutual
/-- `errors.Is(e, s)` for a sentinel `s` -/
def GoErr.is : GoErr → Sentinel → Bool
  | .sentinel t, s => t == s
  | .opaque, _ => false
  | .wrapW e, s => e.is s
  | .wrapV _, _ => false
  | .join es, s => GoErr.isAny es s
  | .custom t none, s => t == s
  | .custom t (some e), s => t == s || e.is s
def GoErr.isAny : List GoErr → Sentinel → Bool
  | [], _ => false
  | e :: es, s => e.is s || GoErr.isAny es s
end

/-- the `errors.Is` mask of an error value -/
def GoErr.mask (e : GoErr) : ErrMask :=
  (if e.is .missingOptional then 1 else 0) + (if e.is .missingMandatory then 2 else 0) +
  (if e.is .notInProfile then 4 else 0) + (if e.is .wrongProfile then 8 else 0) +
  (if e.is .wrongSyntax then 16 else 0)

/-- `FilterError(v, e)`: `none` is Go's nil error -/
def filterGoErr (e : Option GoErr) : Option GoErr :=
  match e with
  | none => none
  | some e => if e.is .missingOptional || e.is .notInProfile then none else some e

end Psa.Model
