/-
  JSON *text* layer: what Go's `encoding/json` does between bytes and the document trees of `Psa/Model/Json.lean`.

  * `render` — the bytes `json.Marshal` emits for a tree (compact; `appendString` with `escapeHTML = true`:
    `"` and `\` escaped, `\b \f \n \r \t`, other controls and `< > &` as `\u00XX`, U+2028 / U+2029 as `\u202X`,
    every byte that does not start a valid UTF-8 sequence as `\ufffd`).  The library's JSON output is the result of
    `json.Marshal` over `MarshalJSON` methods, which Go re-compacts and re-escapes, so this is its text form too.
  * `parseDoc` — the reader behind `json.Unmarshal` / `json.Valid` / `Decoder.Token`: RFC 8259 grammar (whitespace,
    literals, number syntax, strings with every escape), strings decoded as `unquote` does (`\uXXXX` with surrogate
    pairs, unpaired surrogates and invalid UTF-8 replaced by U+FFFD).  Member order and duplicates are kept.

  Both are structurally recursive on a fuel argument; `Psa/Proofs/JsonText.lean` shows the fuel used by `parseDoc`
  (the input length) never binds on rendered documents and that `parseDoc ∘ render` is the identity.
  Not modelled: the nesting limit (10 000) of Go's scanner — deeper inputs are not sent to op `jtext`.
-/
import Psa.Model.JsonTokens
namespace Psa.Model.JText
open Psa Psa.Model

/-! ### strings: rendering -/

/-- lower-case hexadecimal digit, as Go's `hex` table -/
def hexDigit (n : Nat) : UInt8 := if n < 10 then UInt8.ofNat (48 + n) else UInt8.ofNat (87 + n)

def hexVal (c : UInt8) : Option Nat :=
  let n := c.toNat
  if 48 ≤ n ∧ n ≤ 57 then some (n - 48)
  else if 97 ≤ n ∧ n ≤ 102 then some (n - 87)
  else if 65 ≤ n ∧ n ≤ 70 then some (n - 55)
  else none

/-- what `appendString` emits for one byte below 0x80 -/
def escAscii (b : UInt8) : Bytes :=
  let n := b.toNat
  if n = 0x22 ∨ n = 0x5C then [0x5C, b]
  else if n = 8 then [0x5C, 0x62]
  else if n = 12 then [0x5C, 0x66]
  else if n = 10 then [0x5C, 0x6E]
  else if n = 13 then [0x5C, 0x72]
  else if n = 9 then [0x5C, 0x74]
  else if n < 0x20 ∨ n = 0x3C ∨ n = 0x3E ∨ n = 0x26 then
    [0x5C, 0x75, 0x30, 0x30, hexDigit (n / 16), hexDigit (n % 16)]
  else [b]

/-- `\ufffd` -/
def escFFFD : Bytes := [0x5C, 0x75, 0x66, 0x66, 0x66, 0x64]
/-- `\u2028`, `\u2029` -/
def esc202 (last : UInt8) : Bytes := [0x5C, 0x75, 0x32, 0x30, 0x32, last]

/-- the inside of a string literal, as `appendString` writes it (same case split as `validUTF8`) -/
def renderBody : Bytes → Bytes
  | [] => []
  | b0 :: rest =>
    let n := b0.toNat
    if n < 0x80 then escAscii b0 ++ renderBody rest
    else if 0xC2 ≤ n && n ≤ 0xDF then
      match rest with
      | b1 :: r => if isCont b1 then b0 :: b1 :: renderBody r else escFFFD ++ renderBody (b1 :: r)
      | [] => escFFFD
    else if 0xE0 ≤ n && n ≤ 0xEF then
      match rest with
      | b1 :: b2 :: r =>
        let lo := if n == 0xE0 then 0xA0 else 0x80
        let hi := if n == 0xED then 0x9F else 0xBF
        if (lo ≤ b1.toNat && b1.toNat ≤ hi) && isCont b2 then
          (if n == 0xE2 && b1.toNat == 0x80 && b2.toNat == 0xA8 then esc202 0x38 ++ renderBody r
           else if n == 0xE2 && b1.toNat == 0x80 && b2.toNat == 0xA9 then esc202 0x39 ++ renderBody r
           else b0 :: b1 :: b2 :: renderBody r)
        else escFFFD ++ renderBody (b1 :: b2 :: r)
      | [b1] => escFFFD ++ renderBody [b1]
      | [] => escFFFD
    else if 0xF0 ≤ n && n ≤ 0xF4 then
      match rest with
      | b1 :: b2 :: b3 :: r =>
        let lo := if n == 0xF0 then 0x90 else 0x80
        let hi := if n == 0xF4 then 0x8F else 0xBF
        if (lo ≤ b1.toNat && b1.toNat ≤ hi) && isCont b2 && isCont b3 then b0 :: b1 :: b2 :: b3 :: renderBody r
        else escFFFD ++ renderBody (b1 :: b2 :: b3 :: r)
      | [b1, b2] => escFFFD ++ renderBody [b1, b2]
      | [b1] => escFFFD ++ renderBody [b1]
      | [] => escFFFD
    else escFFFD ++ renderBody rest

/-! ### numbers -/

def isDigit (b : UInt8) : Bool := 48 ≤ b.toNat && b.toNat ≤ 57

/-- decimal digits of `n`, most significant first (fuel `n + 1` is enough: the argument at least halves) -/
def natDigitsAux : Nat → Nat → Bytes
  | 0, _ => []
  | f + 1, n => if n < 10 then [UInt8.ofNat (48 + n)] else natDigitsAux f (n / 10) ++ [UInt8.ofNat (48 + n % 10)]
def natDigits (n : Nat) : Bytes := natDigitsAux (n + 1) n

def renderInt (i : Int) : Bytes := if i < 0 then 0x2D :: natDigits i.natAbs else natDigits i.natAbs

def takeDigits : Bytes → Bytes × Bytes
  | [] => ([], [])
  | b :: r => if isDigit b then ((b :: (takeDigits r).1), (takeDigits r).2) else ([], b :: r)

def digitsVal (ds : Bytes) : Nat := ds.foldl (fun a d => a * 10 + (d.toNat - 48)) 0

/-- integer part: `0` or a non-zero digit followed by digits -/
def intPart : Bytes → Option (Bytes × Bytes)
  | [] => none
  | d :: r =>
    if !isDigit d then none
    else if d = 48 then some ([d], r)
    else some (d :: (takeDigits r).1, (takeDigits r).2)

/-- optional fraction: `.` and at least one digit -/
def fracPart : Bytes → Option (Bytes × Bytes)
  | [] => some ([], [])
  | b :: r =>
    if b = 0x2E then (if (takeDigits r).1 = [] then none else some (b :: (takeDigits r).1, (takeDigits r).2))
    else some ([], b :: r)

def signPart : Bytes → Bytes × Bytes
  | [] => ([], [])
  | s :: r => if s = 0x2B ∨ s = 0x2D then ([s], r) else ([], s :: r)

/-- optional exponent: `e`/`E`, optional sign, at least one digit -/
def expPart : Bytes → Option (Bytes × Bytes)
  | [] => some ([], [])
  | e :: r =>
    if e = 0x65 ∨ e = 0x45 then
      (if (takeDigits (signPart r).2).1 = [] then none
       else some (e :: ((signPart r).1 ++ (takeDigits (signPart r).2).1), (takeDigits (signPart r).2).2))
    else some ([], e :: r)

def parseNumberAbs (neg : Bool) (bs : Bytes) : Option (Json × Bytes) :=
  match intPart bs with
  | none => none
  | some (ip, r2) =>
    match fracPart r2 with
    | none => none
    | some (fp, r5) =>
      match expPart r5 with
      | none => none
      | some (ep, r9) =>
        if fp = [] ∧ ep = [] then
          some (.int (if neg then -(Int.ofNat (digitsVal ip)) else Int.ofNat (digitsVal ip)), r9)
        else some (.numOther ((if neg then [0x2D] else []) ++ ip ++ fp ++ ep), r9)

def parseNumber : Bytes → Option (Json × Bytes)
  | [] => none
  | b :: r => if b = 0x2D then parseNumberAbs true r else parseNumberAbs false (b :: r)

/-! ### strings: reading (`unquote`) -/

/-- length of the valid UTF-8 sequence at the head, 0 when there is none (`utf8.DecodeRune` reporting `RuneError, 1`) -/
def runeLen : Bytes → Nat
  | [] => 0
  | b0 :: rest =>
    let n := b0.toNat
    if n < 0x80 then 1
    else if 0xC2 ≤ n && n ≤ 0xDF then
      match rest with
      | b1 :: _ => if isCont b1 then 2 else 0
      | _ => 0
    else if 0xE0 ≤ n && n ≤ 0xEF then
      match rest with
      | b1 :: b2 :: _ =>
        let lo := if n == 0xE0 then 0xA0 else 0x80
        let hi := if n == 0xED then 0x9F else 0xBF
        if (lo ≤ b1.toNat && b1.toNat ≤ hi) && isCont b2 then 3 else 0
      | _ => 0
    else if 0xF0 ≤ n && n ≤ 0xF4 then
      match rest with
      | b1 :: b2 :: b3 :: _ =>
        let lo := if n == 0xF0 then 0x90 else 0x80
        let hi := if n == 0xF4 then 0x8F else 0xBF
        if (lo ≤ b1.toNat && b1.toNat ≤ hi) && isCont b2 && isCont b3 then 4 else 0
      | _ => 0
    else 0

/-- `utf8.EncodeRune` for a rune that is not a surrogate and at most U+10FFFF -/
def encodeRune (r : Nat) : Bytes :=
  if r < 0x80 then [UInt8.ofNat r]
  else if r < 0x800 then [UInt8.ofNat (0xC0 + r / 64), UInt8.ofNat (0x80 + r % 64)]
  else if r < 0x10000 then [UInt8.ofNat (0xE0 + r / 4096), UInt8.ofNat (0x80 + r / 64 % 64), UInt8.ofNat (0x80 + r % 64)]
  else [UInt8.ofNat (0xF0 + r / 262144), UInt8.ofNat (0x80 + r / 4096 % 64), UInt8.ofNat (0x80 + r / 64 % 64),
        UInt8.ofNat (0x80 + r % 64)]

def fffd : Bytes := [0xEF, 0xBF, 0xBD]

/-- four hexadecimal digits -/
def hex4 : Bytes → Option (Nat × Bytes)
  | a :: b :: c :: d :: r =>
    match hexVal a, hexVal b, hexVal c, hexVal d with
    | some w, some x, some y, some z => some (((w * 16 + x) * 16 + y) * 16 + z, r)
    | _, _, _, _ => none
  | _ => none

/-- `\uXXXX` at the head (`getu4`) -/
def getu4 : Bytes → Option (Nat × Bytes)
  | b :: u :: r => if b = 0x5C ∧ u = 0x75 then hex4 r else none
  | _ => none

def isSurrogate (r : Nat) : Bool := 0xD800 ≤ r && r < 0xE000

/-- the inside of a string literal up to and including the closing quote: decoded bytes and what follows.
    `none` = syntax error (control character, bad escape, no closing quote). -/
def parseBody : Nat → Bytes → Option (Bytes × Bytes)
  | 0, _ => none
  | _ + 1, [] => none
  | f + 1, b0 :: rest =>
    if b0 = 0x22 then some ([], rest)
    else if b0 = 0x5C then
      match rest with
      | [] => none
      | c :: r =>
        if c = 0x75 then
          match hex4 r with
          | none => none
          | some (rr, r1) =>
            if isSurrogate rr then
              match getu4 r1 with
              | some (rr1, r2) =>
                if rr < 0xDC00 ∧ 0xDC00 ≤ rr1 ∧ rr1 < 0xE000 then
                  (parseBody f r2).map fun p => (encodeRune ((rr - 0xD800) * 1024 + (rr1 - 0xDC00) + 0x10000) ++ p.1, p.2)
                else (parseBody f r1).map fun p => (fffd ++ p.1, p.2)
              | none => (parseBody f r1).map fun p => (fffd ++ p.1, p.2)
            else (parseBody f r1).map fun p => (encodeRune rr ++ p.1, p.2)
        else
          let simple : Option UInt8 :=
            if c = 0x22 ∨ c = 0x5C ∨ c = 0x2F then some c
            else if c = 0x62 then some 8
            else if c = 0x66 then some 12
            else if c = 0x6E then some 10
            else if c = 0x72 then some 13
            else if c = 0x74 then some 9
            else none
          match simple with
          | none => none
          | some x => (parseBody f r).map fun p => (x :: p.1, p.2)
    else if b0.toNat < 0x20 then none
    else if b0.toNat < 0x80 then (parseBody f rest).map fun p => (b0 :: p.1, p.2)
    else
      let n := runeLen (b0 :: rest)
      if n = 0 then (parseBody f rest).map fun p => (fffd ++ p.1, p.2)
      else (parseBody f (rest.drop (n - 1))).map fun p => (b0 :: rest.take (n - 1) ++ p.1, p.2)

/-! ### values -/

def isWs (b : UInt8) : Bool := b = 0x20 || b = 0x09 || b = 0x0A || b = 0x0D

def skipWs : Bytes → Bytes
  | [] => []
  | b :: r => if isWs b then skipWs r else b :: r

def litTrue : Bytes := [0x74, 0x72, 0x75, 0x65]
def litFalse : Bytes := [0x66, 0x61, 0x6C, 0x73, 0x65]
def litNull : Bytes := [0x6E, 0x75, 0x6C, 0x6C]

/-- `bs` starts with `p`: what follows -/
def stripPrefix : Bytes → Bytes → Option Bytes
  | [], bs => some bs
  | _ :: _, [] => none
  | p :: ps, b :: bs => if p = b then stripPrefix ps bs else none

mutual
def render : Json → Bytes
  | .null => litNull
  | .bool true => litTrue
  | .bool false => litFalse
  | .int i => renderInt i
  | .numOther raw => raw
  | .str s => 0x22 :: (renderBody s ++ [0x22])
  | .arr xs => 0x5B :: (renderList xs ++ [0x5D])
  | .obj ms => 0x7B :: (renderMembers ms ++ [0x7D])
def renderList : List Json → Bytes
  | [] => []
  | x :: xs => render x ++ renderTail xs
def renderTail : List Json → Bytes
  | [] => []
  | x :: xs => 0x2C :: (render x ++ renderTail xs)
def renderMembers : List (Bytes × Json) → Bytes
  | [] => []
  | (k, v) :: ms => 0x22 :: (renderBody k ++ 0x22 :: 0x3A :: (render v ++ renderMTail ms))
def renderMTail : List (Bytes × Json) → Bytes
  | [] => []
  | (k, v) :: ms => 0x2C :: 0x22 :: (renderBody k ++ 0x22 :: 0x3A :: (render v ++ renderMTail ms))
end

mutual
/-- one value at the head of `bs` (no leading whitespace) -/
def parseValue : Nat → Bytes → Option (Json × Bytes)
  | 0, _ => none
  | _ + 1, [] => none
  | f + 1, b :: r =>
    if b = 0x22 then (parseBody (r.length + 1) r).map fun p => (.str p.1, p.2)
    else if b = 0x5B then
      match skipWs r with
      | [] => none
      | c :: r' => if c = 0x5D then some (.arr [], r') else (parseElems f (c :: r')).map fun p => (.arr p.1, p.2)
    else if b = 0x7B then
      match skipWs r with
      | [] => none
      | c :: r' => if c = 0x7D then some (.obj [], r') else (parseMembers f (c :: r')).map fun p => (.obj p.1, p.2)
    else if b = 0x74 then (stripPrefix litTrue (b :: r)).map fun r' => (.bool true, r')
    else if b = 0x66 then (stripPrefix litFalse (b :: r)).map fun r' => (.bool false, r')
    else if b = 0x6E then (stripPrefix litNull (b :: r)).map fun r' => (.null, r')
    else parseNumber (b :: r)
/-- elements of a non-empty array, up to and including `]` -/
def parseElems : Nat → Bytes → Option (List Json × Bytes)
  | 0, _ => none
  | f + 1, bs =>
    match parseValue f bs with
    | none => none
    | some (x, r) =>
      match skipWs r with
      | [] => none
      | c :: r' =>
        if c = 0x2C then (parseElems f (skipWs r')).map fun p => (x :: p.1, p.2)
        else if c = 0x5D then some ([x], r')
        else none
/-- members of a non-empty object, up to and including `}` -/
def parseMembers : Nat → Bytes → Option (List (Bytes × Json) × Bytes)
  | 0, _ => none
  | _ + 1, [] => none
  | f + 1, q :: r =>
    if q = 0x22 then
      match parseBody (r.length + 1) r with
      | none => none
      | some (k, r1) =>
        match skipWs r1 with
        | [] => none
        | c :: r2 =>
          if c = 0x3A then
            match parseValue f (skipWs r2) with
            | none => none
            | some (v, r3) =>
              match skipWs r3 with
              | [] => none
              | d :: r4 =>
                if d = 0x2C then (parseMembers f (skipWs r4)).map fun p => ((k, v) :: p.1, p.2)
                else if d = 0x7D then some ([(k, v)], r4)
                else none
          else none
    else none
end

/-- a whole document: optional whitespace, one value, optional whitespace, end of input -/
def parseDoc (bs : Bytes) : Option Json :=
  match parseValue (2 * bs.length + 2) (skipWs bs) with
  | none => none
  | some (j, rest) => if skipWs rest = [] then some j else none

end Psa.Model.JText
