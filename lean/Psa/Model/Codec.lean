/-
  CBOR codec of the claims layer: what `em.Marshal` / `dm.Unmarshal` of
  fxamacker/cbor v2.5.0 do for the struct tags and field types of P1Claims,
  P2Claims, SwComponent, the component container and the `eat` types
  (DESIGN §3.4).  The library is *modelled* here, not verified; the tie is the
  differential run (T3) and the tag table (T2).
-/
import Psa.Cbor.Basic
import Psa.Model.Claims
import Psa.Model.Utf8
namespace Psa.Model
open Psa

/-! ### encoding -/

def cInt (i : Int) : Cbor := Cbor.ofInt i
def cOptBytes : Option Bytes → Cbor
  | none => .null
  | some b => .bstr b
def cOptText : Option Bytes → Cbor
  | none => .null
  | some b => .tstr b

/-- `(key, value)` unless the field is `omitempty` and nil -/
def kvOmit (key : Int) : Option Cbor → List (Cbor × Cbor)
  | none => []
  | some v => [(cInt key, v)]

def SwComp.toCbor (sc : SwComp) : Cbor :=
  .map (kvOmit 1 (sc.mtype.map .tstr) ++ [(cInt 2, cOptBytes sc.mval)] ++ kvOmit 4 (sc.version.map .tstr) ++
        [(cInt 5, cOptBytes sc.signer)] ++ kvOmit 6 (sc.mdesc.map .tstr))

def compElemToCbor : Option SwComp → Cbor
  | none => .null
  | some sc => sc.toCbor

/-- the container's `MarshalCBOR`: the slice of component pointers -/
def swToCbor : SwField → Cbor
  | .nilIface => .null
  | .cont none => .null
  | .cont (some l) => .arr (l.map compElemToCbor)

/-- `eat.Nonce.MarshalCBOR`: validates (≥ 1 entry, each 8..64 bytes), single entry bare -/
def nonceOK (l : List Bytes) : Bool := !l.isEmpty && l.all fun b => 8 ≤ b.length && b.length ≤ 64

def p1ToCbor (c : Claims) : Outcome Cbor :=
  .ok (.map (
    kvOmit (-75000) (match c.profile with | some (.str s) => some (.tstr s) | _ => none) ++
    [(cInt (-75001), match c.clientId with | none => .null | some v => cInt v),
     (cInt (-75002), match c.lifecycle with | none => .null | some v => .uint v),
     (cInt (-75003), cOptBytes c.implId),
     (cInt (-75004), cOptBytes c.bootSeed)] ++
    kvOmit (-75005) (c.certRef.map .tstr) ++
    -- MarshalCBOR drops an empty container; `omitempty` drops the nil interface
    kvOmit (-75006) (if c.sw.nilOrEmpty then none else some (swToCbor c.sw)) ++
    kvOmit (-75007) (c.noSw.map .uint) ++
    [(cInt (-75008), match c.nonce with | some [b] => .bstr b | _ => .null),
     (cInt (-75009), cOptBytes c.instId)] ++
    kvOmit (-75010) (c.vsi.map .tstr)))

def p2ToCbor (c : Claims) : Outcome Cbor :=
  match c.profile with
  | some .invalid => .err eOther          -- "invalid type for EAT profile"
  | prof =>
    let nonce : Outcome Cbor := match c.nonce with
      | none => .ok .null
      | some l => if !nonceOK l then .err eOther
                  else match l with
                    | [b] => .ok (.bstr b)
                    | _ => .ok (.arr (l.map .bstr))
    nonce.bind fun nv =>
    .ok (.map (
      [(cInt 265, match prof with | some (.str s) => .tstr s | _ => .null),
       (cInt 2394, match c.clientId with | none => .null | some v => cInt v),
       (cInt 2395, match c.lifecycle with | none => .null | some v => .uint v),
       (cInt 2396, cOptBytes c.implId)] ++
      kvOmit 2397 (c.bootSeed.map .bstr) ++
      kvOmit 2398 (c.certRef.map .tstr) ++
      [(cInt 2399, swToCbor c.sw), (cInt 10, nv), (cInt 256, cOptBytes c.instId)] ++
      kvOmit 2400 (c.vsi.map .tstr)))

def claimsToCbor (c : Claims) : Outcome Cbor :=
  match c.prof with
  | .p1 => p1ToCbor c
  | .p2 => p2ToCbor c

/-- `EncodeClaimsToCBOR` -/
def encodeClaims (c : Claims) : Outcome Bytes := (claimsToCbor c).map Cbor.enc

/-! ### decoding -/

/-- result of a typed decode: a value, an error, or "outside the modelled domain" (CBOR tags,
    OID profiles): the properties give no verdict there and the model gives none either -/
inductive Dec (α : Type) where
  | ok (a : α)
  | err
  | ood
  deriving DecidableEq, Repr

namespace Dec
def bind {α β} (x : Dec α) (f : α → Dec β) : Dec β :=
  match x with
  | ok a => f a
  | err => err
  | ood => ood
def map {α β} (f : α → β) (x : Dec α) : Dec β := x.bind fun a => ok (f a)
end Dec

def isNullish : Cbor → Bool
  | .simple 22 => true
  | .simple 23 => true
  | _ => false

/-- into an integer kind with range `lo..hi` (`fillPositiveInt` / `fillNegativeInt`): simple
    values other than false/true/null/undefined are taken as unsigned integers -/
def decIntRange (lo hi : Int) : Cbor → Dec (Option Int)
  | .uint n => if (n : Int) ≤ hi then .ok (some n) else .err
  | .nint n => if lo < 0 ∧ n < 2 ^ 63 ∧ lo ≤ -1 - (n : Int) then .ok (some (-1 - (n : Int))) else .err
  | .simple 20 => .err
  | .simple 21 => .err
  | .simple 22 => .ok none
  | .simple 23 => .ok none
  | .simple n => if (n : Int) ≤ hi then .ok (some n) else .err
  | .tag _ _ => .ood
  | _ => .err

/-- into `*string`: text only, valid UTF-8 only -/
def decText : Cbor → Dec (Option Bytes)
  | .tstr b => if validUTF8 b then .ok (some b) else .err
  | .simple 22 => .ok none
  | .simple 23 => .ok none
  | .tag _ _ => .ood
  | _ => .err

/-- one element of an array decoded into `[]byte` (a `uint8`): null leaves the zero value -/
def decByteElem (t : Cbor) : Dec UInt8 :=
  match decIntRange 0 255 t with
  | .ok none => .ok 0
  | .ok (some i) => .ok (UInt8.ofNat i.toNat)
  | .err => .err
  | .ood => .ood

def decAll {α β} (f : α → Dec β) : List α → Dec (List β)
  | [] => .ok []
  | x :: xs =>
    match f x, decAll f xs with
    | .ood, _ => .ood
    | _, .ood => .ood
    | .err, _ => .err
    | _, .err => .err
    | .ok a, .ok as => .ok (a :: as)

/-- into `[]byte` (also `eat.UEID`): a byte string — or an array of small integers -/
def decBytesVal : Cbor → Dec (Option Bytes)
  | .bstr b => .ok (some b)
  | .arr xs => (decAll decByteElem xs).map some
  | .simple 22 => .ok none
  | .simple 23 => .ok none
  | .tag _ _ => .ood
  | _ => .err

/-- int64 value of an integer map key (`nameAsInt`); unsigned keys ≥ 2⁶³ wrap around -/
inductive KeyRes | int (i : Int) | text (s : Bytes) | bad
  deriving DecidableEq, Repr

def keyRes : Cbor → KeyRes
  | .uint n => .int (if n < 2 ^ 63 then n else (n : Int) - 2 ^ 64)
  | .nint n => if n < 2 ^ 63 then .int (-1 - (n : Int)) else .bad
  | .tstr s => if validUTF8 s then .text s else .bad
  | _ => .bad

def intText (i : Int) : Bytes := strBytes (toString i)

/-- the struct field a map key selects: integer keys by value, text keys by the field's name,
    which for a `keyasint` field is the decimal text of its key -/
def selectField (fieldKeys : List Int) : KeyRes → Option Int
  | .int i => if fieldKeys.contains i then some i else none
  | .text s => fieldKeys.find? fun k => intText k == s
  | .bad => none

structure DState (σ : Type) where
  val : σ
  found : List Int
  bad : Bool
  ood : Bool

/-- `parseMapToStruct`: first occurrence of a field wins, unknown keys are skipped, a key that
    is neither integer nor text (or out of int64 range, or invalid UTF-8) is an error, errors
    do not stop the walk -/
def structStep {σ} (fieldKeys : List Int) (set : σ → Int → Cbor → Dec σ) (s : DState σ) (kv : Cbor × Cbor) :
    DState σ :=
  let kr := keyRes kv.1
  match kr with
  | .bad => { s with bad := true }
  | _ =>
    match selectField fieldKeys kr with
    | none => s
    | some k =>
      if s.found.contains k then s
      else
        match set s.val k kv.2 with
        | .ok v => { s with val := v, found := k :: s.found }
        | .err => { s with found := k :: s.found, bad := true }
        | .ood => { s with found := k :: s.found, ood := true }

def structDecode {σ} (fieldKeys : List Int) (set : σ → Int → Cbor → Dec σ) (init : σ) (kvs : List (Cbor × Cbor)) :
    Dec σ :=
  let s := kvs.foldl (structStep fieldKeys set) { val := init, found := [], bad := false, ood := false }
  if s.ood then .ood else if s.bad then .err else .ok s.val

/-! components -/

def compKeys : List Int := [1, 2, 4, 5, 6]
def emptyComp : SwComp := { mtype := none, mval := none, version := none, signer := none, mdesc := none }

def setComp (sc : SwComp) (k : Int) (v : Cbor) : Dec SwComp :=
  if k = 1 then (decText v).map fun x => { sc with mtype := x }
  else if k = 2 then (decBytesVal v).map fun x => { sc with mval := x }
  else if k = 4 then (decText v).map fun x => { sc with version := x }
  else if k = 5 then (decBytesVal v).map fun x => { sc with signer := x }
  else (decText v).map fun x => { sc with mdesc := x }

/-- one element of the component array into `*SwComponent` -/
def decCompElem : Cbor → Dec (Option SwComp)
  | .map kvs => (structDecode compKeys setComp emptyComp kvs).map some
  | .simple 22 => .ok none
  | .simple 23 => .ok none
  | .tag _ _ => .ood
  | _ => .err

/-- the container's `UnmarshalCBOR` into `[]*SwComponent` -/
def decCompsVal : Cbor → Dec (Option (List (Option SwComp)))
  | .arr xs => (decAll decCompElem xs).map some
  | .simple 22 => .ok none
  | .simple 23 => .ok none
  | .tag _ _ => .ood
  | _ => .err

/-- into the `ISwComponents` interface field holding `cur` -/
def decSwField (cur : SwField) (v : Cbor) : Dec SwField :=
  match cur with
  | .nilIface => if isNullish v then .ok .nilIface else (match v with | .tag _ _ => .ood | _ => .err)
  | .cont _ => (decCompsVal v).map .cont

/-! profile 1 -/

def p1Keys : List Int := [-75000, -75001, -75002, -75003, -75004, -75005, -75006, -75007, -75008, -75009, -75010]

def setP1 (c : Claims) (k : Int) (v : Cbor) : Dec Claims :=
  if k = -75000 then (decText v).map fun x => { c with profile := x.map .str }
  else if k = -75001 then (decIntRange (-2147483648) 2147483647 v).map fun x => { c with clientId := x }
  else if k = -75002 then (decIntRange 0 65535 v).map fun x => { c with lifecycle := x.map Int.toNat }
  else if k = -75003 then (decBytesVal v).map fun x => { c with implId := x }
  else if k = -75004 then (decBytesVal v).map fun x => { c with bootSeed := x }
  else if k = -75005 then (decText v).map fun x => { c with certRef := x }
  else if k = -75006 then (decSwField c.sw v).map fun x => { c with sw := x }
  else if k = -75007 then (decIntRange 0 18446744073709551615 v).map fun x => { c with noSw := x.map Int.toNat }
  else if k = -75008 then (decBytesVal v).map fun x => { c with nonce := x.map fun b => [b] }
  else if k = -75009 then (decBytesVal v).map fun x => { c with instId := x }
  else (decText v).map fun x => { c with vsi := x }

/-! profile 2 -/

def p2Keys : List Int := [265, 2394, 2395, 2396, 2397, 2398, 2399, 10, 256, 2400]

/-- `eat.Profile.UnmarshalCBOR`: a text string that parses as an absolute URL (`urlNorm`: its
    `String()` form, `err` when it is not one, `ood` when the model cannot tell), or a byte string holding an OID (not modelled) -/
def decEatProfile (urlNorm : Bytes → Dec Bytes) : Cbor → Dec (Option ProfVal)
  | .tstr s => if !validUTF8 s then .err else (urlNorm s).map fun u => some (.str u)
  | .bstr _ => .ood
  | .simple 22 => .ok none
  | .simple 23 => .ok none
  | .tag _ _ => .ood
  | _ => .err

/-- one `eat` nonce: `[]byte` rules, null gives the empty value -/
def decNonceElem (t : Cbor) : Dec Bytes := (decBytesVal t).map fun x => x.getD []

/-- `eat.Nonce.UnmarshalCBOR`: an array is a list of nonces, anything else a single nonce -/
def decEatNonce : Cbor → Dec (Option (List Bytes))
  | .simple 22 => .ok none
  | .simple 23 => .ok none
  | .arr xs => (decAll decNonceElem xs).map some
  | .tag _ _ => .ood
  | t => (decNonceElem t).map fun b => some [b]

def setP2 (urlNorm : Bytes → Dec Bytes) (c : Claims) (k : Int) (v : Cbor) : Dec Claims :=
  if k = 265 then (decEatProfile urlNorm v).map fun x => { c with profile := x }
  else if k = 2394 then (decIntRange (-2147483648) 2147483647 v).map fun x => { c with clientId := x }
  else if k = 2395 then (decIntRange 0 65535 v).map fun x => { c with lifecycle := x.map Int.toNat }
  else if k = 2396 then (decBytesVal v).map fun x => { c with implId := x }
  else if k = 2397 then (decBytesVal v).map fun x => { c with bootSeed := x }
  else if k = 2398 then (decText v).map fun x => { c with certRef := x }
  else if k = 2399 then (decSwField c.sw v).map fun x => { c with sw := x }
  else if k = 10 then (decEatNonce v).map fun x => { c with nonce := x }
  else if k = 256 then (decBytesVal v).map fun x => { c with instId := x }
  else (decText v).map fun x => { c with vsi := x }

/-- `(*P1Claims).UnmarshalCBOR` / `(*P2Claims).UnmarshalCBOR` on the object `c0`: the profile
    pointer is cleared first; a null item leaves everything else as it was -/
def unmarshalInto (urlNorm : Bytes → Dec Bytes) (c0 : Claims) (t : Cbor) : Dec Claims :=
  let c := { c0 with profile := none }
  match t with
  | .map kvs =>
    (match c.prof with
     | .p1 => structDecode p1Keys setP1 c kvs
     | .p2 => structDecode p2Keys (setP2 urlNorm) c kvs)
  | .simple 22 => .ok c
  | .simple 23 => .ok c
  | .tag _ _ => .ood
  | _ => .err

/-! dispatch (iclaims.go:DecodeClaimsFromCBOR) -/

/-- the selector struct `{Profile string "265,keyasint"}`: null leaves "" -/
def setSelector (_ : Bytes) (_ : Int) (v : Cbor) : Dec Bytes :=
  match v with
  | .tstr s => if validUTF8 s && !s.isEmpty then .ok s else .err   -- an explicitly empty profile is unknown (fix 5875131)
  | .simple 22 => .ok []
  | .simple 23 => .ok []
  | .tag _ _ => .ood
  | _ => .err

def selectProfile (t : Cbor) : Dec Bytes :=
  match t with
  | .map kvs => structDecode [265] setSelector [] kvs
  | .simple 22 => .ok []
  | .simple 23 => .ok []
  | .tag _ _ => .ood
  | _ => .err

inductive Entry | p1 | p2 | other
  deriving DecidableEq, Repr

/-- the profile register: "" and the profile-1 name give profile 1, the profile-2 name
    profile 2, `extra` are further registered names (whose claims types are not modelled) -/
def lookupProfile (extra : List Bytes) (name : Bytes) : Option Entry :=
  if name == [] || name == p1Name then some .p1
  else if name == p2Name then some .p2
  else if extra.contains name then some .other
  else none

def decodeClaimsMap (urlNorm : Bytes → Dec Bytes) (extra : List Bytes) (t : Cbor) : Dec Claims :=
  (selectProfile t).bind fun name =>
  match lookupProfile extra name with
  | none => .err
  | some .other => .ood
  | some .p1 => unmarshalInto urlNorm (Claims.new .p1) t
  | some .p2 => unmarshalInto urlNorm (Claims.new .p2) t

def decodeClaimsTree (urlNorm : Bytes → Dec Bytes) (extra : List Bytes) (t : Cbor) : Dec Claims :=
  -- a claims-set is a CBOR map: whatever else the selector decode lets through (null,
  -- undefined, tagged items) is rejected (fix d1614d8)
  match t with
  | .map _ => decodeClaimsMap urlNorm extra t
  | _ => .err

/-- `DecodeClaimsFromCBOR`: one well-formed item, nothing after it -/
def decodeClaims (urlNorm : Bytes → Dec Bytes) (extra : List Bytes) (bs : Bytes) : Dec Claims :=
  match Cbor.decodeAll {} bs with
  | none => .err
  | some t => decodeClaimsTree urlNorm extra t

/-- `DecodeAndValidateClaimsFromCBOR` -/
def decodeAndValidate (urlNorm : Bytes → Dec Bytes) (extra : List Bytes) (bs : Bytes) : Dec Claims :=
  (decodeClaims urlNorm extra bs).bind fun c =>
  match validate c with
  | .ok _ => .ok c
  | _ => .err

end Psa.Model
