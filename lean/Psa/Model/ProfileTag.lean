/-
  encoding.GetProfileJSONTag / doGetProfileJSONTag / collectEmbedded (encoding/json.go, encoding/embedded.go):
  how registration finds the JSON member name of a claims type's profile field.  The reflect walk is modelled over a
  description of the value (`TDesc`): what `reflect` reports for each struct field (name, anonymous, type name, kind,
  first part of the `cbor` and `json` tags) and, for anonymous fields, the description of the field's value (for an
  interface: of the value it holds).  Go's partial operation here is `reflect.Value.NumField`, which panics on
  anything that is not a struct; the model returns `Res.panic` there.
-/
import Psa.Basic
namespace Psa.Model.PTag
open Psa

inductive Kind | struct | iface | ptr | other
  deriving DecidableEq, Repr

structure Field where
  name : String
  anonymous : Bool
  typeName : String
  kind : Kind
  /-- `strings.Split(tag, ",")[0]` of the `cbor` tag, if the field has one -/
  cborKey : Option String
  /-- likewise for the `json` tag -/
  jsonName : Option String
  deriving DecidableEq, Repr

mutual
/-- a `reflect.Value` as far as the walk looks at it -/
inductive TDesc
  | struct (fs : FList)
  /-- a non-nil pointer -/
  | ptr (elem : TDesc)
  | nilptr
  /-- the zero Value (`Elem()` of a nil interface) -/
  | invalid
  | other
/-- the fields of a struct value; `v` is the field's value (looked at for anonymous fields only) -/
inductive FList
  | nil
  | cons (f : Field) (v : TDesc) (rest : FList)
end

inductive Res
  | ok (tag : String)
  /-- `errNoProfile` -/
  | noProfile
  /-- `no "json" tag associated with profile field` -/
  | noJsonTag
  | panic
  deriving DecidableEq, Repr

/-- `collectEmbedded`: is the field an embedded struct / interface, and was a value collected for it -/
def collect (f : Field) (v : TDesc) : Bool × Option TDesc :=
  if !f.anonymous then (false, none)
  else if f.name == f.typeName && (f.kind == .struct || f.kind == .iface) then
    if f.kind == .iface then
      match v with
      | .invalid => (true, none)       -- no value underlying the interface
      | d => (true, some d)
    else (true, some v)
  else (false, none)

def isProfileKey (k : String) : Bool := k == "265" || k == "-75000"

/-- the `for` loop over the struct's own fields: the field found by CBOR key (the loop breaks there), else the
    field named `Profile` that has no `cbor` tag -/
def ownField : FList → Option Field → Option Field
  | .nil, byName => byName
  | .cons f v rest, byName =>
    if (collect f v).1 then ownField rest byName
    else match f.cborKey with
      | some k => if isProfileKey k then some f else ownField rest byName
      | none => if f.name == "Profile" then ownField rest (some f) else ownField rest byName

mutual
/-- `doGetProfileJSONTag` (as repaired: a pointer is followed, as the sibling walks of the package do; anything
    that is not a struct has no profile field) -/
def tagOf : TDesc → Res
  | .struct fs =>
    match ownField fs none with
    | some f => (match f.jsonName with | some n => .ok n | none => .noJsonTag)
    | none => embedsTag fs
  | .ptr (.struct fs) =>
    match ownField fs none with
    | some f => (match f.jsonName with | some n => .ok n | none => .noJsonTag)
    | none => embedsTag fs
  | _ => .noProfile
/-- the loop over the collected embedded values: the first one that yields a tag or an error other than
    `errNoProfile` decides -/
def embedsTag : FList → Res
  | .nil => .noProfile
  | .cons f v rest =>
    match collect f v with
    | (true, some _) =>
      (match tagOf v with
       | .noProfile => embedsTag rest
       | r => r)
    | _ => embedsTag rest
end

/-! the same walk *before* the repair (defect C16, DESIGN §10): `NumField` on whatever the interface holds -/
mutual
def tagOfOld : TDesc → Res
  | .struct fs =>
    match ownField fs none with
    | some f => (match f.jsonName with | some n => .ok n | none => .noJsonTag)
    | none => embedsTagOld fs
  | _ => .panic
def embedsTagOld : FList → Res
  | .nil => .noProfile
  | .cons f v rest =>
    match collect f v with
    | (true, some _) =>
      (match tagOfOld v with
       | .noProfile => embedsTagOld rest
       | r => r)
    | _ => embedsTagOld rest
end

/-- `GetProfileJSONTag(iface)`: a pointer argument is followed once -/
def getProfileJSONTag : TDesc → Res
  | .ptr e => tagOf e
  | d => tagOf d

/-! ### what "has an identifiable profile field" means, said without the walk -/

def Field.isProfile (f : Field) : Bool :=
  match f.cborKey with
  | some k => isProfileKey k
  | none => f.name == "Profile"

mutual
def hasProfile : TDesc → Bool
  | .struct fs => hasProfileF fs
  | .ptr (.struct fs) => hasProfileF fs
  | _ => false
def hasProfileF : FList → Bool
  | .nil => false
  | .cons f v rest =>
    (match collect f v with
     | (true, some _) => hasProfile v
     | (true, none) => false
     | (false, _) => f.isProfile) || hasProfileF rest
end

end Psa.Model.PTag
