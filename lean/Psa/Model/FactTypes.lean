/- Types of the facts the extractor reads off /repo (tie T2). -/
import Psa.Basic
namespace Psa

structure RegexNF where
  anchoredStart : Bool
  anchoredEnd : Bool
  items : List (String × Nat)
  deriving DecidableEq, Repr

structure FieldFact where
  name : String
  goType : String
  cborKey : Int
  keyAsInt : Bool
  cborOmitEmpty : Bool
  cborSkip : Bool
  jsonName : String
  jsonOmitEmpty : Bool
  jsonSkip : Bool
  deriving DecidableEq, Repr

structure MethodFact where
  recv : String
  name : String
  pointer : Bool
  assigns : List String
  /-- receiver fields written *through* (index, dereference, nested field): shared even under a value receiver -/
  deep : List String
  /-- methods invoked on receiver fields, as "Field.Method" -/
  calls : List String
  deriving DecidableEq, Repr

end Psa
