/- `utf8.Valid` of Go (RFC 3629: no overlong forms, no surrogates, ≤ U+10FFFF). -/
import Psa.Basic
namespace Psa

def isCont (b : UInt8) : Bool := 0x80 ≤ b.toNat && b.toNat ≤ 0xBF

def validUTF8 : Bytes → Bool
  | [] => true
  | b0 :: rest =>
    let n := b0.toNat
    if n < 0x80 then validUTF8 rest
    else if 0xC2 ≤ n && n ≤ 0xDF then
      match rest with
      | b1 :: r => isCont b1 && validUTF8 r
      | _ => false
    else if 0xE0 ≤ n && n ≤ 0xEF then
      match rest with
      | b1 :: b2 :: r =>
        let lo := if n == 0xE0 then 0xA0 else 0x80
        let hi := if n == 0xED then 0x9F else 0xBF
        (lo ≤ b1.toNat && b1.toNat ≤ hi) && isCont b2 && validUTF8 r
      | _ => false
    else if 0xF0 ≤ n && n ≤ 0xF4 then
      match rest with
      | b1 :: b2 :: b3 :: r =>
        let lo := if n == 0xF0 then 0x90 else 0x80
        let hi := if n == 0xF4 then 0x8F else 0xBF
        (lo ≤ b1.toNat && b1.toNat ≤ hi) && isCont b2 && isCont b3 && validUTF8 r
      | _ => false
    else false

end Psa
