/-
  An interleaving semantics of whole operations: threads take turns (any schedule), every operation sees the
  shared state and the executing thread's own objects, and returns the new shared state, the thread's new
  objects and an output.  Nothing here says that operations leave the shared state alone: that is a hypothesis
  of the theorems (`ReadOnly`), discharged for the library's read-side operations in Psa/Props/C17.lean from
  the regenerated method facts.
-/
import Psa.Basic
namespace Psa.Model.Conc

structure Sys (Sh Lo Op Out : Type) where
  step : Sh → Lo → Op → Sh × Lo × Out

variable {Sh Lo Op Out : Type}

/-- one thread alone -/
def seqRun (sys : Sys Sh Lo Op Out) (sh : Sh) : Lo → List Op → List Out
  | _, [] => []
  | l, op :: ops => let (_, l', o) := sys.step sh l op; o :: seqRun sys sh l' ops

def update {α} (f : Nat → α) (t : Nat) (a : α) : Nat → α := fun u => if u = t then a else f u

/-- any schedule: `σ` names the thread that moves next; a thread with nothing left to do skips its turn -/
def runSched (sys : Sys Sh Lo Op Out) : List Nat → Sh → (Nat → Lo) → (Nat → List Op) → Sh × List (Nat × Out)
  | [], sh, _, _ => (sh, [])
  | t :: σ, sh, L, P =>
    match P t with
    | [] => runSched sys σ sh L P
    | op :: rest =>
      let (sh', l', o) := sys.step sh (L t) op
      let (shf, evs) := runSched sys σ sh' (update L t l') (update P t rest)
      (shf, (t, o) :: evs)

/-- no operation changes the shared state -/
def ReadOnly (sys : Sys Sh Lo Op Out) : Prop := ∀ sh l op, (sys.step sh l op).1 = sh

/-- the outputs thread `t` saw -/
def outputsOf (t : Nat) (evs : List (Nat × Out)) : List Out := (evs.filter (·.1 == t)).map (·.2)

theorem update_same {α} (f : Nat → α) (t : Nat) (a : α) : update f t a t = a := by simp [update]
theorem update_other {α} (f : Nat → α) (t u : Nat) (a : α) (h : u ≠ t) : update f t a u = f u := by simp [update, h]

/-- **shared state is never changed**, whatever the schedule -/
theorem shared_unchanged (sys : Sys Sh Lo Op Out) (hro : ReadOnly sys) :
    ∀ (σ : List Nat) (sh : Sh) (L : Nat → Lo) (P : Nat → List Op), (runSched sys σ sh L P).1 = sh
  | [], _, _, _ => rfl
  | t :: σ, sh, L, P => by
    simp only [runSched]
    cases hp : P t with
    | nil => simp only []; exact shared_unchanged sys hro σ sh L P
    | cons op rest =>
      simp only []
      have h1 := hro sh (L t) op
      have ih := shared_unchanged sys hro σ (sys.step sh (L t) op).1 (update L t (sys.step sh (L t) op).2.1) (update P t rest)
      rw [ih, h1]

/-- **projection**: under any schedule, what thread `t` observes is what it observes running alone, sequentially, from
    the same initial state — as far as the schedule lets it get -/
theorem projection (sys : Sys Sh Lo Op Out) (hro : ReadOnly sys) (t : Nat) :
    ∀ (σ : List Nat) (sh : Sh) (L : Nat → Lo) (P : Nat → List Op),
      outputsOf t (runSched sys σ sh L P).2 = seqRun sys sh (L t) ((P t).take (σ.count t))
  | [], _, _, _ => by simp [runSched, outputsOf, seqRun]
  | u :: σ, sh, L, P => by
    simp only [runSched]
    by_cases hut : u = t
    · subst hut
      cases hp : P u with
      | nil =>
        simp only []
        rw [projection sys hro u σ sh L P, hp]; simp
      | cons op rest =>
        simp only [List.count_cons_self, List.take_succ_cons, seqRun]
        have h1 := hro sh (L u) op
        have ih := projection sys hro u σ (sys.step sh (L u) op).1 (update L u (sys.step sh (L u) op).2.1) (update P u rest)
        rw [update_same, update_same, h1] at ih
        simp only [outputsOf, List.filter_cons, beq_self_eq_true, if_true, List.map_cons]
        simp only [outputsOf] at ih
        rw [h1, ih]
    · have hc : (u :: σ).count t = σ.count t := by simp [List.count_cons, hut]
      rw [hc]
      cases hp : P u with
      | nil => simp only []; exact projection sys hro t σ sh L P
      | cons op rest =>
        simp only []
        have h1 := hro sh (L u) op
        have ih := projection sys hro t σ (sys.step sh (L u) op).1 (update L u (sys.step sh (L u) op).2.1) (update P u rest)
        rw [update_other _ _ _ _ (Ne.symm hut), update_other _ _ _ _ (Ne.symm hut), h1] at ih
        have hne : (u == t) = false := by simp [hut]
        simp only [outputsOf, List.filter_cons, hne, Bool.false_eq_true, if_false]
        simp only [outputsOf] at ih
        rw [h1]
        exact ih

/-- **every complete interleaving agrees with the sequential run, thread by thread** (hence all interleavings agree
    with each other) -/
theorem interleaving_eq_sequential (sys : Sys Sh Lo Op Out) (hro : ReadOnly sys) (t : Nat) (σ : List Nat) (sh : Sh)
    (L : Nat → Lo) (P : Nat → List Op) (hfair : (P t).length ≤ σ.count t) :
    outputsOf t (runSched sys σ sh L P).2 = seqRun sys sh (L t) (P t) := by
  rw [projection sys hro t σ sh L P, List.take_of_length_le hfair]

end Psa.Model.Conc
