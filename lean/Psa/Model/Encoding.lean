/-
  psatoken/encoding: the embedding-aware codec (encoding/{cbor,json,embedded}.go),
  transliterated with Go's partial operations explicit (`idx`, `sliceFrom`, …):
  the hand-rolled CBOR map-header reader/writer, the ordered field map, and
  serialise / populate over struct *shapes*.  Library decoders enter as the
  total functions of `Psa.Cbor` (assumed not to panic).
-/
import Psa.Cbor.Basic
import Psa.Model.Codec
import Psa.Model.Evidence
namespace Psa.Model.Enc
open Psa

/-! ### processAdditionalInfo (encoding/cbor.go) — hand model; tied to the regenerated
    translation by `Psa.Tie.Encoding` -/

def processAdditionalInfo (ai : Nat) (data : Bytes) : Outcome (Nat × Bytes) :=
  if ai < 24 then .ok (ai, data)
  else if ai < 28 then
    if ai = 24 then
      (if data.length < 1 then .err eOther
       else (idx "pai:1" data 0).bind fun b => (sliceFrom "pai:1s" data 1).bind fun r => .ok (b.toNat, r))
    else if ai = 25 then
      (if data.length < 2 then .err eOther
       else (sliceTo "pai:2" data 2).bind fun h => (sliceFrom "pai:2s" data 2).bind fun r => .ok (beNat h, r))
    else if ai = 26 then
      (if data.length < 4 then .err eOther
       else (sliceTo "pai:4" data 4).bind fun h => (sliceFrom "pai:4s" data 4).bind fun r => .ok (beNat h, r))
    else .err eOther
  else if ai = 31 then .ok (0, data)
  else .err eOther

/-! ### the ordered field map (structFieldsCBOR) -/

structure OMap where
  /-- `Keys`: insertion order -/
  keys : List Int
  /-- `Fields`: key ↦ raw encoded value -/
  fields : List (Int × Bytes)
  deriving Repr, DecidableEq

def OMap.empty : OMap := { keys := [], fields := [] }

def OMap.has (m : OMap) (k : Int) : Bool := m.fields.any (·.1 == k)

def OMap.add (m : OMap) (k : Int) (v : Bytes) : Outcome OMap :=
  if m.has k then .err eOther else .ok { keys := m.keys ++ [k], fields := m.fields ++ [(k, v)] }

def OMap.get (m : OMap) (k : Int) : Option Bytes := (m.fields.find? (·.1 == k)).map (·.2)

/-- `Delete` (after fix 9cf080f): drop the field, filter the key list in place -/
def OMap.delete (m : OMap) (k : Int) : OMap :=
  { keys := m.keys.filter (· != k), fields := m.fields.filter (·.1 != k) }

/-- the `if/else` ladder of `ToCBOR` writing the map header for `n` entries — hand model; tied to
    the regenerated translation by `Psa.Tie.Encoding` -/
def mapHeader (n : Nat) : Bytes :=
  if n = 0 then [0xa0]
  else if n < 24 then [UInt8.ofNat (0xa0 + n)]
  else if n ≤ 255 then [0xb8, UInt8.ofNat n]
  else if n ≤ 65535 then 0xb9 :: beBytes 2 n
  else 0xba :: beBytes 4 n

def encEntries (m : OMap) : List Int → Bytes
  | [] => []
  | k :: ks => (cInt k).enc ++ (m.get k).getD [] ++ encEntries m ks

/-- `ToCBOR` -/
def OMap.toCBOR (m : OMap) : Bytes := mapHeader m.keys.length ++ encEntries m m.keys

/-- `dm.UnmarshalFirst(rest, &raw)`: the bytes of the first well-formed item, and the rest -/
def rawFirst (bs : Bytes) : Option (Bytes × Cbor × Bytes) :=
  match Cbor.decodeFirst {} bs with
  | some (t, rest) => some (bs.take (bs.length - rest.length), t, rest)
  | none => none

/-- marker (inside `Outcome.err`) for inputs outside the modelled domain: items carrying CBOR tags,
    whose built-in-tag validation by the library is not modelled -/
def eOod : ErrMask := 4096

/-- a key or value carrying a CBOR tag (outside the modelled domain) -/
def kvTagged (kt : Cbor) (r1 : Bytes) : Bool :=
  Cbor.hasTag kt || (match rawFirst r1 with | some (_, vt, _) => Cbor.hasTag vt | none => false)

/-- `unmarshalKeyValue`: an integer key (Go `int`), any value kept raw, then `Add` -/
def unmarshalKeyValue (rest : Bytes) (m : OMap) : Outcome (Bytes × OMap) :=
  match rawFirst rest with
  | none => .err eOther
  | some (_, kt, r1) =>
    if kvTagged kt r1 then .err eOod else
    match decIntRange (-9223372036854775808) 9223372036854775807 kt with
    | .ok (some k) =>
      (match rawFirst r1 with
       | none => .err eOther
       | some (raw, _, r2) => (m.add k raw).bind fun m' => .ok (r2, m'))
    | .ok none => -- null / undefined into an `int`: a no-op leaving 0
      (match rawFirst r1 with
       | none => .err eOther
       | some (raw, _, r2) => (m.add 0 raw).bind fun m' => .ok (r2, m'))
    | _ => .err eOther

/-- the definite-length loop `for i < mapLen` -/
def readEntries : Nat → Bytes → OMap → Outcome (Bytes × OMap)
  | 0, rest, m => .ok (rest, m)
  | n + 1, rest, m => (unmarshalKeyValue rest m).bind fun (r, m') => readEntries n r m'

/-- the indefinite-length loop `for len(rest) > 0 { if rest[0] == 0xff … }`; `fuel` ≥ length -/
def readUntilBreak : Nat → Bytes → OMap → Outcome OMap
  | 0, _, _ => .err eOther
  | fuel + 1, rest, m =>
    match rest with
    | [] => .err eOther                 -- "unexpected EOF": no break found
    | b :: _ =>
      if b = 0xff then .ok m
      else (unmarshalKeyValue rest m).bind fun (r, m') => readUntilBreak fuel r m'

/-- `(*structFieldsCBOR).FromCBOR` (after fixes c48f47f, e161666, a6352a0) -/
def fromCBOR (data : Bytes) : Outcome OMap :=
  if data.length = 0 then .err eOther
  else
    (idx "FromCBOR:header" data 0).bind fun header =>
    (sliceFrom "FromCBOR:rest" data 1).bind fun rest =>
    let ai := header.toNat % 32
    let mt := header.toNat / 32
    let afterTag : Outcome (Nat × Nat × Bytes) :=
      if mt = 6 then
        (processAdditionalInfo ai rest).bind fun (_, rest') =>
        if rest'.length = 0 then .err eOther
        else
          (idx "FromCBOR:tagged" rest' 0).bind fun h2 =>
          (sliceFrom "FromCBOR:tagged-rest" rest' 1).bind fun r2 => .ok (h2.toNat / 32, h2.toNat % 32, r2)
      else .ok (mt, ai, rest)
    afterTag.bind fun (mt, ai, rest) =>
    if mt ≠ 5 then .err eOther
    else
      (processAdditionalInfo ai rest).bind fun (mapLen, rest) =>
      if ai ≠ 31 then (readEntries mapLen rest OMap.empty).bind fun (_, m) => .ok m
      else readUntilBreak (rest.length + 1) rest OMap.empty

/-! ### struct shapes, values, serialise / populate (CBOR) -/

inductive FTy | int | text | bytes
  deriving DecidableEq, Repr

inductive FVal
  | int (i : Int)
  | text (s : Bytes)
  | bytes (b : Bytes)
  deriving DecidableEq, Repr

structure FieldSpec where
  key : Int
  omitempty : Bool
  ty : FTy
  deriving DecidableEq, Repr

/-- a struct type following the claims convention: own tagged pointer fields, then embedded structs -/
inductive Shape
  | mk (fields : List FieldSpec) (embeds : List Shape)

/-- a value of a shape: one optional value per own field (nil pointer = none), then the embedded values -/
inductive SVal
  | mk (vals : List (Option FVal)) (embeds : List SVal)

def encFVal : Option FVal → Cbor
  | none => .null
  | some (.int i) => cInt i
  | some (.text s) => .tstr s
  | some (.bytes b) => .bstr b

def addFields : List FieldSpec → List (Option FVal) → OMap → Outcome OMap
  | f :: fs, v :: vs, m =>
    if f.omitempty && v.isNone then addFields fs vs m
    else (m.add f.key (encFVal v).enc).bind fun m' => addFields fs vs m'
  | _, _, m => .ok m

mutual
/-- `doSerializeStructToCBOR`: own fields in order, then each embedded struct -/
def serializeInto : Shape → SVal → OMap → Outcome OMap
  | .mk fields embeds, .mk vals evals, m => (addFields fields vals m).bind fun m' => serializeEmbeds embeds evals m'
def serializeEmbeds : List Shape → List SVal → OMap → Outcome OMap
  | s :: ss, v :: vs, m => (serializeInto s v m).bind fun m' => serializeEmbeds ss vs m'
  | _, _, m => .ok m
end

/-- `SerializeStructToCBOR` -/
def serialize (sh : Shape) (v : SVal) : Outcome Bytes := (serializeInto sh v OMap.empty).map OMap.toCBOR

def decFVal (ty : FTy) (raw : Bytes) : Dec (Option FVal) :=
  match Cbor.decodeAll {} raw with
  | none => .err
  | some t =>
    match ty with
    | .int => (decIntRange (-9223372036854775808) 9223372036854775807 t).map fun o => o.map .int
    | .text => (decText t).map fun o => o.map .text
    | .bytes => (decBytesVal t).map fun o => o.map .bytes

def popFields : List FieldSpec → OMap → Dec (List (Option FVal) × OMap)
  | [], m => .ok ([], m)
  | f :: fs, m =>
    match m.get f.key with
    | none => if f.omitempty then (popFields fs m).map fun (vs, m') => (none :: vs, m') else .err
    | some raw =>
      (decFVal f.ty raw).bind fun v => (popFields fs (m.delete f.key)).map fun (vs, m') => (v :: vs, m')

mutual
/-- `doPopulateStructFromCBOR` -/
def populateFrom : Shape → OMap → Dec (SVal × OMap)
  | .mk fields embeds, m =>
    (popFields fields m).bind fun (vals, m') => (populateEmbeds embeds m').map fun (evs, m'') => (.mk vals evs, m'')
def populateEmbeds : List Shape → OMap → Dec (List SVal × OMap)
  | [], m => .ok ([], m)
  | s :: ss, m => (populateFrom s m).bind fun (v, m') => (populateEmbeds ss m').map fun (vs, m'') => (v :: vs, m'')
end

/-- `PopulateStructFromCBOR` -/
def populate (sh : Shape) (data : Bytes) : Outcome (Dec SVal) :=
  (fromCBOR data).map fun m => (populateFrom sh m).map (·.1)

end Psa.Model.Enc
