/-
  The profile register (profile.go) as a state machine: an association list in *arbitrary order*
  (Go's map iteration order), written only by registration.
-/
import Psa.Model.Json
namespace Psa.Model.Reg
open Psa Psa.Model

/-- what registration needs to know about an `IProfile` -/
structure ProfDesc where
  /-- `GetName()` -/
  name : Bytes
  /-- JSON member name of the profile field of `GetClaims()`'s type; `none`: no identifiable field -/
  jsonTag : Option Bytes
  /-- which claims implementation `GetClaims()` creates -/
  entry : Entry
  deriving Repr

abbrev Registry := List RegEntry

def lookup (reg : Registry) (key : Bytes) : Option RegEntry := reg.find? (·.key == key)

/-- `registerProfileUnderName`: existence check, then tag discovery, then insert -/
def registerUnder (reg : Registry) (key : Bytes) (p : ProfDesc) : Outcome Registry :=
  if (lookup reg key).isSome then .err eOther
  else match p.jsonTag with
    | none => .err eOther
    | some t => .ok (reg ++ [{ key := key, profName := p.name, jsonTag := t, entry := p.entry }])

/-- `RegisterProfile` -/
def register (reg : Registry) (p : ProfDesc) : Outcome Registry := registerUnder reg p.name p

/-- `NewClaims(name)`: which implementation is created, if any -/
def newClaims (reg : Registry) (name : Bytes) : Option Entry := (lookup reg name).map (·.entry)

/-- CBOR dispatch: the entry registered under the declared name ("" when none is declared) -/
def dispatchCBOR (reg : Registry) (declared : Bytes) : Option Entry := (lookup reg declared).map (·.entry)

/-- the outcome of JSON dispatch as far as the caller can see it: which implementation decodes the
    document, or an error -/
inductive JOut | impl (e : Entry) | error
  deriving DecidableEq, Repr

/-- no entry matched: the default entry, unless some registered profile member is present -/
def defaultOut (reg : Registry) (ms : List (Bytes × Json)) : JOut :=
  if profilePresent reg ms then .error
  else match lookup reg [] with
    | none => .error
    | some e => .impl e.entry

def dispatchJSONOut (reg : Registry) (ms : List (Bytes × Json)) : JOut :=
  match dispatchJSON reg ms with
  | .found e => .impl e.entry
  | .multiple => .error
  | .none => defaultOut reg ms

/-! operations of a history -/
inductive Op
  | register (p : ProfDesc)
  | newClaims (name : Bytes)
  | decodeCBOR (declared : Bytes)
  | decodeJSON (ms : List (Bytes × Json))

inductive Out
  | ok | err
  | impl (e : Option Entry)
  | jout (o : JOut)
  deriving DecidableEq, Repr

def step (reg : Registry) : Op → Registry × Out
  | .register p => match register reg p with
    | .ok r => (r, .ok)
    | _ => (reg, .err)
  | .newClaims n => (reg, .impl (newClaims reg n))
  | .decodeCBOR d => (reg, .impl (dispatchCBOR reg d))
  | .decodeJSON ms => (reg, .jout (dispatchJSONOut reg ms))

def run (reg : Registry) : List Op → Registry × List Out
  | [] => (reg, [])
  | op :: ops => let (r, o) := step reg op; let (r', os) := run r ops; (r', o :: os)

end Psa.Model.Reg
