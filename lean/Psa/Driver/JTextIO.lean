/- Text-layer ops of the JSON model: `jtext` (bytes → tree, `parseDoc`), `jrender` (tree → bytes, `render`),
   `jlex` (bytes → the token stream `Decoder.Token` yields) (IO glue). -/
import Psa.Driver.JsonIO
import Psa.Model.JsonText
namespace Psa.Driver
open Psa Psa.Model Psa.Model.JText

/-- `jtext <hex>`: what `json.Valid` / the tokeniser make of the document -/
def opJText (args : List String) : String :=
  match args with
  | [h] =>
    match unhex? (if h == "-" then "" else h) with
    | none => "bad-op"
    | some bs =>
      match parseDoc bs with
      | some j => "ok " ++ fmtJson j
      | none => "err"
  | _ => "bad-op"

/-- `jrender <tree>`: the bytes `json.Marshal` emits -/
def opJRender (args : List String) : String :=
  match args with
  | [t] =>
    match parseJsonStr? t with
    | some j => "text=" ++ hexOf (render j)
    | none => "bad-op"
  | _ => "bad-op"

end Psa.Driver
