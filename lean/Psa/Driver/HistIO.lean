/- `hist` op: setter histories (unverified IO glue). -/
import Psa.Driver.ClaimsIO
import Psa.Model.Setters
namespace Psa.Driver
open Psa Psa.Model

def parseSetOp? (s : String) : Option SetOp :=
  match s.splitOn ":" with
  | [k, v] =>
    match k with
    | "cid" => v.toInt?.map .clientId
    | "lc" => v.toNat?.map .lifecycle
    | "impl" => (xBytes? v).map .implId
    | "boot" => (xBytes? v).map .bootSeed
    | "cert" => (xBytes? v).map .certRef
    | "nonce" => (xBytes? v).map .nonce
    | "inst" => (xBytes? v).map .instId
    | "vsi" => (xBytes? v).map .vsi
    | "sw" =>
      if v == "nil" then some (.sw none)
      else do
        let l ← parseList? v ';' parseComp?
        let l' ← allSome l
        some (.sw (some l'))
    | _ => none
  | _ => none

def runHist (c : Claims) : List SetOp → List String → Claims × List String
  | [], acc => (c, acc.reverse)
  | o :: rest, acc =>
    let (c', r) := applySet c o
    runHist c' rest (fmtUnit r :: acc)

def opHist (args : List String) : String :=
  let fs := fields args
  match lookup fs "p", lookup fs "ops" with
  | some p, some ops =>
    let prof := if p == "1" then Prof.p1 else Prof.p2
    -- the object the history starts from: a fresh claims-set, or (start=…, fields separated by '&') any state
    let start : Option Claims := match lookup fs "start" with
      | none => some (Claims.new prof)
      | some st => parseClaims? (st.splitOn "&")
    match start, allSome ((ops.splitOn "|").map parseSetOp?) with
    | some c0, some l =>
      let (c, rs) := runHist c0 l []
      "r=" ++ ",".intercalate rs ++ " final=" ++ (fmtClaims c).replace " " ";" ++ " " ++ fmtObs c
    | _, _ => "bad-op"
  | _, _ => "bad-op"

/-- `cont ops=add:[…]|replace:[…]`: the component container's own mutators, from an empty container -/
def parseContOp? (s : String) : Option ContOp :=
  match s.splitOn ":" with
  | [k, v] => do
    let l ← parseList? v ';' parseComp?
    let l' ← allSome l
    if k == "add" then some (.add l') else if k == "replace" then some (.replace l') else none
  | _ => none

def runCont (cur : List (Option SwComp)) : List ContOp → List String → List (Option SwComp) × List String
  | [], acc => (cur, acc.reverse)
  | o :: rest, acc =>
    let (c', r) := contStep cur o
    runCont c' rest (fmtUnit r :: acc)

def opCont (args : List String) : String :=
  match lookup (fields args) "ops" with
  | some ops =>
    match allSome ((ops.splitOn "|").map parseContOp?) with
    | some l =>
      let (c, rs) := runCont [] l []
      "r=" ++ ",".intercalate rs ++ " final=[" ++ ";".intercalate (c.map fmtCompDesc) ++ "]"
    | none => "bad-op"
  | none => "bad-op"

end Psa.Driver
