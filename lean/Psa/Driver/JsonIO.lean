/- JSON tree (de)serialisation for the line protocol and the `jenc` / `jdec` ops (IO glue). -/
import Psa.Driver.CodecIO
import Psa.Model.Json
namespace Psa.Driver
open Psa Psa.Model

partial def fmtJson : Json → String
  | .null => "n"
  | .bool true => "T"
  | .bool false => "F"
  | .int i => "i" ++ toString i
  | .numOther r => "r" ++ hexOf r
  | .str s => "s" ++ hexOf s
  | .arr xs => "[" ++ ",".intercalate (xs.map fmtJson) ++ "]"
  | .obj ms => "{" ++ ",".intercalate (ms.map fun m => hexOf m.1 ++ ":" ++ fmtJson m.2) ++ "}"

def takeHex (cs : List Char) : List Char × List Char := cs.span fun c => (hexVal? c).isSome

def takeInt (cs : List Char) : List Char × List Char :=
  match cs with
  | '-' :: rest => let (d, r) := rest.span Char.isDigit; ('-' :: d, r)
  | _ => cs.span Char.isDigit

mutual
partial def parseJson (cs : List Char) : Option (Json × List Char) :=
  match cs with
  | 'n' :: r => some (.null, r)
  | 'T' :: r => some (.bool true, r)
  | 'F' :: r => some (.bool false, r)
  | 'i' :: r =>
    let (d, r') := takeInt r
    (String.ofList d).toInt?.map fun i => (.int i, r')
  | 'r' :: r =>
    let (h, r') := takeHex r
    (unhexAux h []).map fun b => (.numOther b, r')
  | 's' :: r =>
    let (h, r') := takeHex r
    (unhexAux h []).map fun b => (.str b, r')
  | '[' :: ']' :: r => some (.arr [], r)
  | '[' :: r => (parseJsonList r).map fun (xs, r') => (.arr xs, r')
  | '{' :: '}' :: r => some (.obj [], r)
  | '{' :: r => (parseJsonMembers r).map fun (ms, r') => (.obj ms, r')
  | _ => none
partial def parseJsonList (cs : List Char) : Option (List Json × List Char) := do
  let (x, r) ← parseJson cs
  match r with
  | ',' :: r' => do
    let (xs, r'') ← parseJsonList r'
    some (x :: xs, r'')
  | ']' :: r' => some ([x], r')
  | _ => none
partial def parseJsonMembers (cs : List Char) : Option (List (Bytes × Json) × List Char) := do
  let (h, r) := takeHex cs
  let k ← unhexAux h []
  match r with
  | ':' :: r1 => do
    let (v, r2) ← parseJson r1
    match r2 with
    | ',' :: r3 => do
      let (ms, r4) ← parseJsonMembers r3
      some ((k, v) :: ms, r4)
    | '}' :: r3 => some ([(k, v)], r3)
    | _ => none
  | _ => none
end

def parseJsonStr? (s : String) : Option Json :=
  match parseJson s.toList with
  | some (j, []) => some j
  | _ => none

def opJenc (args : List String) : String :=
  match parseClaims? args with
  | some c =>
    match encodeJSON c with
    | .ok j => "json=" ++ fmtJson j
    | .err _ => "json=err"
    | .panic _ => "json=panic"
  | none => "bad-op"

def fmtDecRes (r : Dec Claims) : String :=
  match r with
  | .err => "dec=err"
  | .ood => "ood"
  | .ok c =>
    let acc := match validate c with | .ok _ => "accepted" | .err _ => "rejected" | .panic _ => "panic"
    "dec=ok:" ++ (fmtClaims c).replace " " ";" ++ " " ++ acc ++ " " ++ fmtObs c

def opJdec (args : List String) : String :=
  match args with
  | [t] =>
    match parseJsonStr? t with
    | some j => fmtDecRes (decodeClaimsJSON urlNormDriver builtinRegistry j)
    | none => "bad-op"
  | _ => "bad-op"

end Psa.Driver
