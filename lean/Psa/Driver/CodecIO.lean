/- `enc` / `decv` ops: CBOR codec of claims (unverified IO glue). -/
import Psa.Driver.ClaimsIO
import Psa.Model.Codec
namespace Psa.Driver
open Psa Psa.Model

def isLower (b : UInt8) : Bool := 97 ≤ b.toNat && b.toNat ≤ 122
def isAlnum (b : UInt8) : Bool := isLower b || (65 ≤ b.toNat && b.toNat ≤ 90) || (48 ≤ b.toNat && b.toNat ≤ 57)

/-- Go's `url.Parse(s)` followed by `IsAbs` / `String()`, on the strings the model can judge:
    no colon → not absolute; `scheme:rest` with a lower-case scheme and an unreserved rest →
    absolute and printed unchanged; anything else is outside the modelled domain. -/
def urlNormDriver (s : Bytes) : Dec Bytes :=
  if !s.contains 58 then .err
  else
    let scheme := s.takeWhile (· != 58)
    let rest := (s.dropWhile (· != 58)).drop 1
    let schemeOK := (match scheme with | c :: cs => isLower c && cs.all (fun b => isLower b || (48 ≤ b.toNat && b.toNat ≤ 57)) | [] => false)
    let restOK := !rest.isEmpty && rest.all (fun b => isAlnum b || b == 47 || b == 46 || b == 95 || b == 45 || b == 126)
    if schemeOK && restOK then .ok s else .ood

def fmtDecv (extra : List Bytes) (bs : Bytes) : String :=
  match decodeClaims urlNormDriver extra bs with
  | .err => "dec=err"
  | .ood => "ood"
  | .ok c =>
    let acc := match validate c with | .ok _ => "accepted" | .err _ => "rejected" | .panic _ => "panic"
    "dec=ok:" ++ (fmtClaims c).replace " " ";" ++ " " ++ acc ++ " " ++ fmtObs c

def opDecv (args : List String) : String :=
  match (if args.isEmpty then [""] else args) with
  | [h] => match unhex? h with
    | some bs => fmtDecv [] bs
    | none => "bad-op"
  | _ => "bad-op"

def fmtEnc (c : Claims) : String :=
  match encodeClaims c with
  | .ok b => "cbor=" ++ hexOf b
  | .err _ => "cbor=err"
  | .panic _ => "cbor=panic"

def opEnc (args : List String) : String :=
  match parseClaims? args with
  | some c => fmtEnc c
  | none => "bad-op"

end Psa.Driver
