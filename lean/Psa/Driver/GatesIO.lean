/- `gates` op: the seven validating entry points (IO glue). -/
import Psa.Driver.DispatchIO
namespace Psa.Driver
open Psa Psa.Model

def okErrU (o : Outcome Unit) : String := match o with | .ok _ => "ok" | _ => "err"

def opGates (args : List String) : String :=
  match parseClaims? args with
  | none => "bad-op"
  | some c =>
    let v := validate c
    let enc := encodeClaims c
    let jenc := encodeJSON c
    let both (a : Bool) (b : Bool) : String := if a && b then "ok" else "err"
    let dv : Option String := match enc with
      | .ok b => (match decodeAndValidate urlNormDriver [] b with
        | .ok _ => some "ok" | .err => some "err" | .ood => none)
      | _ => some "na"
    let dvj : Option String := match jenc with
      | .ok j => (match decodeClaimsJSON urlNormDriver builtinRegistry j with
        | .ok c' => some (okErrU (validate c')) | .err => some "err" | .ood => none)
      | _ => some "na"
    match dv, dvj with
    | some a, some b =>
      s!"v={okErrU v} set={okErrU v} venc={both v.isOk enc.isOk} vjenc={both v.isOk jenc.isOk} vsign={both v.isOk enc.isOk} dvc={a} dvj={b} dve={a}"
    | _, _ => "ood"

end Psa.Driver
