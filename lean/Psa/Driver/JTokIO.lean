/- Token-layer ops of the JSON ordered field map: `jskip`, `jkeys` (IO glue). -/
import Psa.Driver.ClaimsIO
import Psa.Model.JsonTokens
namespace Psa.Driver
open Psa Psa.Model.JTok

def parseTok? (s : String) : Option Tok :=
  if s == "{" then some .objOpen
  else if s == "}" then some .objClose
  else if s == "[" then some .arrOpen
  else if s == "]" then some .arrClose
  else if s == "n" then some .num
  else if s == "b" then some .bool
  else if s == "z" then some .null
  else if s.startsWith "s" then (unhex? (s.drop 1).toString).map .str
  else none

def parseToks? (arg : String) : Option (List Tok) :=
  if arg == "-" then some [] else allSome ((arg.splitOn ",").map parseTok?)

/-- `jskip <tokens>`: one call of `skipValue` on a decoder that will yield these tokens and then an error -/
def opJSkip (args : List String) : String :=
  match args with
  | [a] =>
    match parseToks? a with
    | none => "bad-op"
    | some ts =>
      match skipValue (2 * ts.length + 2) ts with
      | .ok rest => s!"ok rest={rest.length}"
      | .eos rest => s!"eos rest={rest.length}"
      | .err => "err"
      | .fuel => "fuel"
  | _ => "bad-op"

/-- `jkeys <tokens>`: `unmarshalKeys` -/
def opJKeys (args : List String) : String :=
  match args with
  | [a] =>
    match parseToks? a with
    | none => "bad-op"
    | some ts =>
      match unmarshalKeys ts with
      | .ok keys => "ok keys=[" ++ ",".intercalate (keys.map hexOf) ++ "]"
      | .err => "err"
      | .fuel => "fuel"
  | _ => "bad-op"

end Psa.Driver
