/- `reg` op: a history of register / NewClaims / decode operations on the profile register (C16). -/
import Psa.Driver.DispatchIO
import Psa.Model.Registry
namespace Psa.Driver
open Psa Psa.Model Psa.Model.Reg

def parseKind? (s : String) : Option Entry :=
  if s == "1" then some .p1 else if s == "2" then some .p2 else if s == "x" then some .other else none

/-- CBOR token → the name its profile claim declares ("" when none); `none`: the token is rejected before dispatch -/
def declaredOf (bs : Bytes) : Option (Dec Bytes) :=
  match Cbor.decodeAll {} bs with
  | none => none
  | some t => match t with
    | .map _ => some (selectProfile t)
    | _ => none

inductive HOp
  | op (o : Op)
  | cbor (bs : Bytes)

def parseHOp? (s : String) : Option HOp :=
  match s.splitOn "~" with
  | ["R", n, t, k] => do
    let n ← unhex? n
    let tag ← if t == "-" then some none else (unhex? t).map some
    let e ← parseKind? k
    some (.op (.register { name := n, jsonTag := tag, entry := e }))
  | ["N", n] => (unhex? n).map fun n => .op (.newClaims n)
  | ["C", h] => (unhex? h).map .cbor
  | ["J", j] => match parseJsonStr? j with
    | some (.obj ms) => some (.op (.decodeJSON ms))
    | _ => none
  | _ => none

def fmtEntry : Option Entry → String
  | some .p1 => "p1"
  | some .p2 => "p2"
  | some .other => "x"
  | none => "none"

def fmtOut : Out → String
  | .ok => "ok"
  | .err => "err"
  | .impl e => "impl=" ++ fmtEntry e
  | .jout (.impl e) => "j=" ++ fmtEntry (some e)
  | .jout .error => "j=error"

def runRegHist (reg : Registry) : List HOp → List String
  | [] => []
  | .op o :: rest => let (r, out) := step reg o; fmtOut out :: runRegHist r rest
  | .cbor bs :: rest =>
    let s := match declaredOf bs with
      | none => "impl=none"
      | some (.ok name) => fmtOut (step reg (.decodeCBOR name)).2
      | some .err => "impl=none"
      | some .ood => "ood"
    s :: runRegHist reg rest

def opReg (args : List String) : String :=
  let fs := fields args
  match lookup fs "ops" with
  | none => "bad-op"
  | some s =>
    match allSome ((s.splitOn "|").map parseHOp?) with
    | none => "bad-op"
    | some ops =>
      let outs := runRegHist builtinRegistry ops
      if outs.contains "ood" then "r=" ++ ",".intercalate outs ++ " ood" else "r=" ++ ",".intercalate outs

end Psa.Driver
