/- Parser for error-tree lines of the `filter` op (unverified IO glue). -/
import Psa.Driver.Parse
import Psa.Model.GoErr
namespace Psa.Driver
open Psa Psa.Model

def sentinelOfNat? : Nat → Option Sentinel
  | 0 => some .missingOptional | 1 => some .missingMandatory | 2 => some .notInProfile
  | 3 => some .wrongProfile | 4 => some .wrongSyntax | _ => none

def digitVal? (c : Char) : Option Nat := if '0' ≤ c ∧ c ≤ '9' then some (c.toNat - 48) else none

mutual
partial def parseErr (cs : List Char) : Option (GoErr × List Char) :=
  match cs with
  | 'S' :: d :: rest => do
    let s ← (digitVal? d) >>= sentinelOfNat?
    some (.sentinel s, rest)
  | 'D' :: d :: rest => do
    let i ← digitVal? d
    let s ← sentinelOfNat? (i % 3)
    some (.wrapW (.sentinel s), rest)
  | 'O' :: rest => some (.opaque, rest)
  | 'W' :: '(' :: rest => do
    let (e, r) ← parseErr rest
    match r with | ')' :: r' => some (.wrapW e, r') | _ => none
  | 'V' :: '(' :: rest => do
    let (e, r) ← parseErr rest
    match r with | ')' :: r' => some (.wrapV e, r') | _ => none
  | 'J' :: '(' :: rest => do
    let (es, r) ← parseErrList rest
    some (.join es, r)
  | 'M' :: '(' :: rest => do
    let (es, r) ← parseErrList rest
    some (.join es, r)
  | 'C' :: d :: '(' :: ')' :: rest => do
    let s ← (digitVal? d) >>= sentinelOfNat?
    some (.custom s none, rest)
  | 'C' :: d :: '(' :: rest => do
    let s ← (digitVal? d) >>= sentinelOfNat?
    let (e, r) ← parseErr rest
    match r with | ')' :: r' => some (.custom s (some e), r') | _ => none
  | _ => none
partial def parseErrList (cs : List Char) : Option (List GoErr × List Char) := do
  let (e, r) ← parseErr cs
  match r with
  | ',' :: r' => do
    let (es, r'') ← parseErrList r'
    some (e :: es, r'')
  | ')' :: r' => some ([e], r')
  | _ => none
end

def opFilter (args : List String) : String :=
  match args with
  | ["nil"] => "filter=nil mask=0"
  | [t] =>
    match parseErr t.toList with
    | some (e, []) =>
      let res := match filterGoErr (some e) with | none => "nil" | some _ => "same"
      s!"filter={res} mask={e.mask}"
    | _ => "bad-op"
  | _ => "bad-op"

end Psa.Driver
