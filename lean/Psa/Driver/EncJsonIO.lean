/- JSON-side ops of the embedding-aware codec: `serj`, `popj` (IO glue). -/
import Psa.Driver.EncIO
import Psa.Driver.JsonIO
import Psa.Model.EncodingJson
namespace Psa.Driver
open Psa Psa.Model Psa.Model.EncJ
open Psa.Model.Enc (FVal FTy SVal)

def parseFValJ? (ty v : String) : Option (Option FVal) :=
  if v == "_" then some none
  else if ty == "i" then v.toInt?.map fun i => some (.int i)
  else if ty == "t" then (unhex? v).map fun b => some (.text b)
  else if ty == "b" then (unhex? v).map fun b => some (.bytes b)
  else none

/-- `serj name:o|m:ty:val , …` — the flattened field list of a struct value (own fields, then embedded) -/
def opSerJ (args : List String) : String :=
  match args with
  | [l] =>
    let items := if l.isEmpty then [] else l.splitOn ","
    let parsed := allSome (items.map fun it =>
      match it.splitOn ":" with
      | [n, o, ty, v] => do
        let name ← unhex? n
        let val ← parseFValJ? ty v
        let t := if ty == "i" then FTy.int else if ty == "t" then FTy.text else FTy.bytes
        some (({ name := name, omitempty := o == "o", ty := t } : FieldSpecJ), val)
      | _ => none)
    match parsed with
    | none => "bad-op"
    | some fvs =>
      match serialize (.mk (fvs.map (·.1)) []) (.mk (fvs.map (·.2)) []) with
      | .ok j => "json=" ++ fmtJson j
      | .err _ => "err"
      | .panic _ => "panic"
  | [] => "json={}"
  | _ => "bad-op"

def fj (n : String) (o : Bool) (t : FTy) : FieldSpecJ := { name := strBytes n, omitempty := o, ty := t }

def jInner : ShapeJ := .mk [fj "i1" true .int, fj "i2" false .text, fj "i3" true .bytes] []
def jInner2 : ShapeJ := .mk [fj "j1" false .bytes, fj "j2" true .int] []
def jFlat : ShapeJ := .mk [fj "a" true .int, fj "b" false .text, fj "c" true .bytes, fj "d" false .int, fj "e" true .text] []
def jOne : ShapeJ := .mk [fj "x" true .int, fj "y" false .text] [jInner]
def jMid : ShapeJ := .mk [fj "m" true .text] [jInner2]
def jTwo : ShapeJ := .mk [fj "z" false .int] [jMid, jInner]
def jAllOpt : ShapeJ := .mk [fj "a" true .int, fj "b" true .text] []

def fmtFVal : Option FVal → String
  | none => "_"
  | some (.int i) => "i" ++ toString i
  | some (.text s) => "t" ++ hexOf s
  | some (.bytes b) => "b" ++ hexOf b

mutual
partial def flatVals : SVal → List (Option FVal)
  | .mk vals evs => vals ++ flatValsList evs
partial def flatValsList : List SVal → List (Option FVal)
  | [] => []
  | v :: vs => flatVals v ++ flatValsList vs
end

/-- member names must be ASCII and free of duplicates up to case for the model to speak (encoding/json matches
    struct fields case-insensitively nowhere here, but the text layer's handling of odd names is not modelled) -/
def opPopJ (args : List String) : String :=
  match args with
  | [sh, t] =>
    let shape := if sh == "flat" then some jFlat else if sh == "one" then some jOne else if sh == "two" then some jTwo
      else if sh == "inner" then some jInner else if sh == "allopt" then some jAllOpt else none
    match shape, parseJsonStr? t with
    | some s, some j =>
      (match populate s j with
       | .ok v => "ok " ++ "|".intercalate ((flatVals v).map fmtFVal)
       | .err => "err"
       | .ood => "ood")
    | _, _ => "bad-op"
  | _ => "bad-op"

end Psa.Driver
