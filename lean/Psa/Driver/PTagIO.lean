/- `jtag`: the profile-field walk of encoding.GetProfileJSONTag on a described value (IO glue). -/
import Psa.Driver.ClaimsIO
import Psa.Model.ProfileTag
namespace Psa.Driver
open Psa Psa.Model.PTag

def strOfX? (s : String) : Option String :=
  (xOpt? s).bind fun o => o.map fun b => String.mk (b.map fun c => Char.ofNat c.toNat)

def optStrOfX? (s : String) : Option (Option String) :=
  if s == "_" then some none else (strOfX? s).map some

mutual
partial def parseDesc : List String → Option (TDesc × List String)
  | "S" :: n :: rest => do
    let k ← n.toNat?
    let (fs, rest') ← parseFields k rest
    some (.struct fs, rest')
  | "P" :: rest => do
    let (d, rest') ← parseDesc rest
    some (.ptr d, rest')
  | "N" :: rest => some (.nilptr, rest)
  | "Z" :: rest => some (.invalid, rest)
  | "O" :: rest => some (.other, rest)
  | _ => none
partial def parseFields : Nat → List String → Option (FList × List String)
  | 0, rest => some (.nil, rest)
  | k + 1, name :: an :: tn :: kd :: ck :: jn :: rest => do
    let name ← strOfX? name
    let tn ← strOfX? tn
    let kind ← (match kd with | "s" => some Kind.struct | "i" => some Kind.iface | "p" => some Kind.ptr | "o" => some Kind.other | _ => none)
    let ck ← optStrOfX? ck
    let jn ← optStrOfX? jn
    let (v, rest1) ← parseDesc rest
    let (fs, rest2) ← parseFields k rest1
    some (.cons { name := name, anonymous := an == "a", typeName := tn, kind := kind, cborKey := ck, jsonName := jn } v fs, rest2)
  | _, _ => none
end

def opJTag (args : List String) : String :=
  match args with
  | [a] =>
    match parseDesc (a.splitOn ",") with
    | some (d, []) =>
      (match getProfileJSONTag d with
       | .ok t => "ok tag=" ++ fmtX (strBytes t)
       | .noProfile => "err no-profile"
       | .noJsonTag => "err no-json-tag"
       | .panic => "panic") ++ s!" has={hasProfile (match d with | .ptr e => e | d => d)}"
    | _ => "bad-op"
  | _ => "bad-op"

end Psa.Driver
