/- Line-protocol parsing helpers for the driver (unverified IO glue; trusted base). -/
import Psa.Basic
namespace Psa.Driver

/-- split `s` on character `c` at nesting depth 0 w.r.t. (), [] and {} -/
def splitTop (s : String) (c : Char) : List String :=
  let rec go (cs : List Char) (depth : Nat) (cur : List Char) (acc : List String) : List String :=
    match cs with
    | [] => (String.ofList cur.reverse :: acc).reverse
    | x :: xs =>
      if x == c && depth == 0 then go xs depth [] (String.ofList cur.reverse :: acc)
      else if x == '(' || x == '[' || x == '{' then go xs (depth + 1) (x :: cur) acc
      else if x == ')' || x == ']' || x == '}' then go xs (depth - 1) (x :: cur) acc
      else go xs depth (x :: cur) acc
  go s.toList 0 [] []

/-- key=value fields of a line after the op word -/
def fields (toks : List String) : List (String × String) :=
  toks.filterMap fun t =>
    match t.splitOn "=" with
    | k :: rest@(_ :: _) => some (k, "=".intercalate rest)
    | _ => none

def lookup (fs : List (String × String)) (k : String) : Option String :=
  (fs.find? (·.1 == k)).map (·.2)

/-- `_` = absent, otherwise hex bytes -/
def optHex? (s : String) : Option (Option Bytes) :=
  if s == "_" then some none else (unhex? s).map some

def optNat? (s : String) : Option (Option Nat) :=
  if s == "_" then some none else s.toNat?.map some

def optInt? (s : String) : Option (Option Int) :=
  if s == "_" then some none else s.toInt?.map some

/-- strip one pair of enclosing brackets -/
def unwrap (s : String) (o c : Char) : Option String :=
  let cs := s.toList
  match cs with
  | x :: rest =>
    if x == o && rest.getLast? == some c then some (String.ofList rest.dropLast) else none
  | [] => none

def fmtOutcome {α} (f : α → String) : Outcome α → String
  | .ok a => "ok:" ++ f a
  | .err m => "err:" ++ toString m
  | .panic _ => "panic"

def fmtUnit (o : Outcome Unit) : String :=
  match o with
  | .ok _ => "ok"
  | .err m => "err:" ++ toString m
  | .panic _ => "panic"

end Psa.Driver
