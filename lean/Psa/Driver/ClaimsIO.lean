/- Line-protocol (de)serialisation of claims-sets (unverified IO glue; trusted base). -/
import Psa.Driver.Parse
import Psa.Model.Claims
namespace Psa.Driver
open Psa Psa.Model

/-- `_` = absent, `x<hex>` = bytes -/
def xOpt? (s : String) : Option (Option Bytes) :=
  if s == "_" then some none
  else match s.toList with
    | 'x' :: rest => (unhexAux rest []).map some
    | _ => none

def xBytes? (s : String) : Option Bytes :=
  match s.toList with
  | 'x' :: rest => unhexAux rest []
  | _ => none

def fmtX (b : Bytes) : String := "x" ++ hexOf b
def fmtXOpt : Option Bytes → String
  | none => "_"
  | some b => fmtX b

def allSome {α} : List (Option α) → Option (List α)
  | [] => some []
  | none :: _ => none
  | some a :: rest => (allSome rest).map (a :: ·)

def parseComp? (s : String) : Option (Option SwComp) :=
  if s == "N" then some none
  else do
    let inner ← unwrap s '(' ')'
    match (inner.splitOn ",").map xOpt? with
    | [some a, some b, some c, some d, some e] =>
      some (some { mtype := a, mval := b, version := c, signer := d, mdesc := e })
    | _ => none

def parseList? {α} (s : String) (sep : Char) (f : String → Option α) : Option (List α) := do
  let inner ← unwrap s '[' ']'
  if inner.isEmpty then some []
  else allSome ((splitTop inner sep).map f)

def parseSw? (s : String) : Option SwField :=
  if s == "nil" then some .nilIface
  else if s == "none" then some (.cont none)
  else (parseList? s ';' parseComp?).map fun l => .cont (some l)

def parseProf? (s : String) : Option (Option ProfVal) :=
  if s == "_" then some none
  else if s == "inv" then some (some .invalid)
  else match s.toList with
    | 's' :: rest => (unhexAux rest []).map fun b => some (.str b)
    | _ => none

def parseNonce? (s : String) : Option (Option (List Bytes)) :=
  if s == "_" then some none
  else (parseList? s ',' xBytes?).map some

def parseClaimsFields? (fs : List (String × String)) : Option Claims := do
  let p ← lookup fs "p"
  let prof ← if p == "1" then some Prof.p1 else if p == "2" then some Prof.p2 else none
  let canon ← (lookup fs "canon") >>= xBytes?
  let profile ← (lookup fs "prof") >>= parseProf?
  let cid ← (lookup fs "cid") >>= optInt?
  let lc ← (lookup fs "lc") >>= optNat?
  let impl ← (lookup fs "impl") >>= xOpt?
  let boot ← (lookup fs "boot") >>= xOpt?
  let cert ← (lookup fs "cert") >>= xOpt?
  let sw ← (lookup fs "sw") >>= parseSw?
  let nosw ← (lookup fs "nosw") >>= optNat?
  let nonce ← (lookup fs "nonce") >>= parseNonce?
  let inst ← (lookup fs "inst") >>= xOpt?
  let vsi ← (lookup fs "vsi") >>= xOpt?
  some { prof := prof, canonical := canon, profile := profile, clientId := cid, lifecycle := lc,
         implId := impl, bootSeed := boot, certRef := cert, sw := sw, noSw := nosw, nonce := nonce,
         instId := inst, vsi := vsi }

def parseClaims? (toks : List String) : Option Claims := parseClaimsFields? (fields toks)

def fmtCompDesc : Option SwComp → String
  | none => "N"
  | some sc => "(" ++ fmtXOpt sc.mtype ++ "," ++ fmtXOpt sc.mval ++ "," ++ fmtXOpt sc.version ++ ","
      ++ fmtXOpt sc.signer ++ "," ++ fmtXOpt sc.mdesc ++ ")"

def fmtSw : SwField → String
  | .nilIface => "nil"
  | .cont none => "none"
  | .cont (some l) => "[" ++ ";".intercalate (l.map fmtCompDesc) ++ "]"

def fmtOptNat : Option Nat → String
  | none => "_"
  | some n => toString n
def fmtOptInt : Option Int → String
  | none => "_"
  | some n => toString n

def fmtProf : Option ProfVal → String
  | none => "_"
  | some .invalid => "inv"
  | some (.str s) => "s" ++ hexOf s

def fmtNonce : Option (List Bytes) → String
  | none => "_"
  | some l => "[" ++ ",".intercalate (l.map fmtX) ++ "]"

def fmtClaims (c : Claims) : String :=
  "p=" ++ (match c.prof with | .p1 => "1" | .p2 => "2") ++
  " canon=" ++ fmtX c.canonical ++ " prof=" ++ fmtProf c.profile ++ " cid=" ++ fmtOptInt c.clientId ++
  " lc=" ++ fmtOptNat c.lifecycle ++ " impl=" ++ fmtXOpt c.implId ++ " boot=" ++ fmtXOpt c.bootSeed ++
  " cert=" ++ fmtXOpt c.certRef ++ " sw=" ++ fmtSw c.sw ++ " nosw=" ++ fmtOptNat c.noSw ++
  " nonce=" ++ fmtNonce c.nonce ++ " inst=" ++ fmtXOpt c.instId ++ " vsi=" ++ fmtXOpt c.vsi

def fmtSwCompVal (sc : SwComp) : String := fmtCompDesc (some sc)

def fmtValX : Val → String
  | .text b => fmtX b
  | .int i => toString i
  | .nat n => toString n
  | .bytes b => fmtX b
  | .comps none => "nil"
  | .comps (some l) => "[" ++ ";".intercalate (l.map fmtSwCompVal) ++ "]"

def fmtGetX (o : Outcome Val) : String := fmtOutcome fmtValX o

def getterName : Getter → String
  | .profile => "profile" | .clientId => "clientId" | .lifecycle => "lifecycle" | .implId => "implId"
  | .bootSeed => "bootSeed" | .certRef => "certRef" | .sw => "sw" | .nonce => "nonce"
  | .instId => "instId" | .vsi => "vsi"

/-- the observation table: validate verdict and the ten getters -/
def fmtObs (c : Claims) : String :=
  "v=" ++ fmtUnit (validate c) ++
  String.join (Getter.all.map fun g => " " ++ getterName g ++ "=" ++ fmtGetX (get g c))

end Psa.Driver
