/- `newclaims` / `dispatch-cbor` / `dispatch-json` ops (IO glue). -/
import Psa.Driver.JsonIO
namespace Psa.Driver
open Psa Psa.Model

def parseRegEntry? (s : String) : Option RegEntry :=
  match s.splitOn "~" with
  | [k, p, t, kind] => do
    let k ← unhex? k
    let p ← unhex? p
    let t ← unhex? t
    let e ← if kind == "1" then some Entry.p1 else if kind == "2" then some Entry.p2 else if kind == "x" then some Entry.other else none
    some { key := k, profName := p, jsonTag := t, entry := e }
  | _ => none

def parseReg? (s : String) : Option (List RegEntry) := allSome ((s.splitOn ";").map parseRegEntry?)

def typeName : Prof → String
  | .p1 => "*psatoken.P1Claims"
  | .p2 => "*psatoken.P2Claims"

def fmtDispatch (r : Dec Claims) : String :=
  match r with
  | .err => "err"
  | .ood => "ood"
  | .ok c =>
    let p := match getProfile c with
      | .ok (.text s) => "profile=x" ++ hexOf s
      | _ => "profile=err"
    let acc := match validate c with | .ok _ => "true" | _ => "false"
    s!"ok type={typeName c.prof} {p} accepted={acc}"

def regExtras (reg : List RegEntry) : List Bytes := (reg.filter (·.entry == .other)).map (·.key)

def opNewClaims (args : List String) : String :=
  let fs := fields args
  match (lookup fs "reg") >>= parseReg?, (lookup fs "name") >>= xBytes? with
  | some reg, some name =>
    match reg.find? (·.key == name) with
    | none => "err"
    | some e => match e.entry with
      | .p1 => fmtDispatch (.ok (Claims.new .p1))
      | .p2 => fmtDispatch (.ok (Claims.new .p2))
      | .other => "ood"
  | _, _ => "bad-op"

def opDispatchCbor (args : List String) : String :=
  match args with
  | [r, h] =>
    match (fields [r] |> fun fs => lookup fs "reg") >>= parseReg?, unhex? h with
    | some reg, some bs => fmtDispatch (decodeClaims urlNormDriver (regExtras reg) bs)
    | _, _ => "bad-op"
  | _ => "bad-op"

def opDispatchJson (args : List String) : String :=
  match args with
  | [r, t] =>
    match (fields [r] |> fun fs => lookup fs "reg") >>= parseReg?, parseJsonStr? t with
    | some reg, some j => fmtDispatch (decodeClaimsJSON urlNormDriver reg j)
    | _, _ => "bad-op"
  | _ => "bad-op"

end Psa.Driver
