/- `ev` op: histories of operations on one Evidence (IO glue). -/
import Psa.Driver.GatesIO
import Psa.Model.Evidence
namespace Psa.Driver
open Psa Psa.Model

inductive EvOp
  | setClaims (c : Claims)
  | sign (validated : Bool) (s : Signer)
  | unmarshal (bs : Bytes)
  | verify (k : Nat)
  | know (k : Nat) (bs : Bytes)
  | mutate (c : Claims)
  /-- `ev.SetClaims(ev.Claims)`: the object already attached is attached again -/
  | reattach

def parseKeys? (s : String) : Option (List (Nat × String)) :=
  allSome ((s.splitOn ",").map fun e =>
    match e.splitOn ":" with
    | [i, f] => i.toNat?.map fun n => (n, f)
    | _ => none)

/-- `cose.NewVerifier(alg, key)`: the key type must fit the algorithm family -/
def keyTable (keys : List (Nat × String)) : KeyTable := fun k a =>
  match (keys.find? (·.1 == k)).map (·.2) with
  | some "ec" => a == -7 || a == -35 || a == -36
  | some "ed" => a == -8
  | some "rsa" => a == -37 || a == -38 || a == -39
  | _ => false

def parseEvOp? (s : String) : Option EvOp :=
  match s.splitOn ":" with
  | ["setclaims", d] => (parseClaims? (d.splitOn "&")).map .setClaims
  | ["mutate", d] => (parseClaims? (d.splitOn "&")).map .mutate
  | ["reattach"] => some .reattach
  | [kind, k, a, mode, sg] =>
    if kind != "sign" && kind != "vsign" then none else do
      let k ← k.toNat?
      let a ← a.toInt?
      let sg ← xBytes? sg
      let m ← if mode == "good" then some SignerKind.good else if mode == "failing" then some SignerKind.failing
              else if mode == "emptysig" then some SignerKind.emptySig else none
      some (.sign (kind == "vsign") { key := k, alg := a, kind := m, reply := sg })
  | ["unmarshal", h] => (unhex? h).map .unmarshal
  | ["verify", k] => k.toNat?.map .verify
  | ["know", k, h] => do
    let k ← k.toNat?
    let b ← unhex? h
    some (.know k b)
  | _ => none

def fmtOB (o : Outcome Bytes) : String :=
  match o with
  | .ok b => "ok:" ++ hexOf b
  | .err _ => "err"
  | .panic _ => "panic"

def runEv (kt : KeyTable) : World → Ev → List EvOp → List String → Bool → (Ev × List String × Bool)
  | _, e, [], acc, ood => (e, acc.reverse, ood)
  | w, e, op :: rest, acc, ood =>
    match op with
    | .setClaims c =>
      let (e', r) := evSetClaims e c
      runEv kt w e' rest ((match r with | .ok _ => "ok" | .err _ => "err" | .panic _ => "panic") :: acc) ood
    | .sign v s =>
      let (w', e', r) := evSign v w e s
      runEv kt w' e' rest (fmtOB r :: acc) ood
    | .unmarshal bs =>
      let (e', r) := evUnmarshal urlNormDriver [] e bs
      let (s, o) := match r with | .ok _ => ("ok", false) | .err => ("err", false) | .ood => ("ood", true)
      runEv kt w e' rest (s :: acc) (ood || o)
    | .mutate c => runEv kt w { e with claims := some c } rest ("ok" :: acc) ood
    | .reattach =>
      match e.claims with
      | none => runEv kt w e rest ("panic" :: acc) ood
      | some c =>
        let (e', r) := evSetClaims e c
        runEv kt w e' rest ((match r with | .ok _ => "ok" | .err _ => "err" | .panic _ => "panic") :: acc) ood
    | .know k bs => runEv kt (w.know k bs) e rest ("-" :: acc) ood
    | .verify k => runEv kt w e rest (okErrU (evVerify kt w e k) :: acc) ood

def fmtEvClaims (e : Ev) : String :=
  match e.claims with
  | none => "nil"
  | some c => (fmtClaims c).replace " " "&"

def opEv (args : List String) : String :=
  let fs := fields args
  match (lookup fs "keys") >>= parseKeys?, lookup fs "ops" with
  | some keys, some ops =>
    match allSome ((ops.splitOn "|").map parseEvOp?) with
    | some l =>
      let (e, rs, ood) := runEv (keyTable keys) World.empty Ev.empty l [] false
      if ood then "ood" else "r=" ++ ",".intercalate rs ++ " claims=" ++ fmtEvClaims e
    | none => "bad-op"
  | _, _ => "bad-op"

def parseKnown? (s : String) : Option (List (Nat × Bytes)) :=
  if s.isEmpty then some [] else
  allSome ((s.splitOn ",").map fun e =>
    match e.splitOn ":" with
    | [k, h] => do
      let k ← k.toNat?
      let b ← unhex? h
      some (k, b)
    | _ => none)

/-- decode a (possibly tampered) token and verify it under key `verify`, in a world where the
    listed tokens were legitimately signed by the listed keys -/
def opTamper (args : List String) : String :=
  let fs := fields args
  match (lookup fs "keys") >>= parseKeys?, (lookup fs "know") >>= parseKnown?, (lookup fs "tok") >>= unhex?,
        (lookup fs "verify") >>= String.toNat? with
  | some keys, some known, some tok, some vk =>
    let w := known.foldl (fun w kt => w.know kt.1 kt.2) World.empty
    let (e, r) := evUnmarshal urlNormDriver [] Ev.empty tok
    match r with
    | .ood => "ood"
    | .err => "reject"
    | .ok _ => match evVerify (keyTable keys) w e vk with
      | .ok _ => "accept"
      | _ => "reject"
  | _, _, _, _ => "bad-op"

def opEnvelope (args : List String) : String :=
  match (if args.isEmpty then [""] else args) with
  | [h] =>
    match unhex? h with
    | some bs =>
      match (evUnmarshal urlNormDriver [] Ev.empty bs).2 with
      | .ok _ => "accept"
      | .err => "reject"
      | .ood => "ood"
    | none => "bad-op"
  | _ => "bad-op"

end Psa.Driver
