/- ops of the embedding-aware codec: `ser`, `hdr`, `synth`, `pop`, `omap` (IO glue). -/
import Psa.Driver.EvIO
import Psa.Model.Encoding
namespace Psa.Driver
open Psa Psa.Model Psa.Model.Enc

def fmtKeyNode (t : Cbor) : String :=
  match t with
  | .uint n => toString n
  | .nint n => toString (-1 - (n : Int))
  | _ => "?"

def fmtEntriesOf (bs : Bytes) : String :=
  match Cbor.decodeAll {} bs with
  | some (.map kvs) => ",".intercalate (kvs.map fun kv => fmtKeyNode kv.1 ++ "=" ++ hexOf kv.2.enc)
  | _ => "?"

/-- `ser k:o|m:hex|_ , …` — the flattened field list of a struct value (own fields, then embedded) -/
def opSer (args : List String) : String :=
  match args with
  | [l] =>
    let items := if l.isEmpty then [] else l.splitOn ","
    let step (acc : Option (Outcome OMap)) (it : String) : Option (Outcome OMap) :=
      match acc, it.splitOn ":" with
      | some (.ok m), [k, o, v] =>
        match k.toInt? with
        | none => none
        | some key =>
          if v == "_" then
            if o == "o" then some (.ok m) else some (m.add key [0xf6])
          else match unhex? v with
            | some raw => some (m.add key raw)
            | none => none
      | some r, [_, _, _] => some r
      | _, _ => none
    match items.foldl step (some (.ok OMap.empty)) with
    | some (.ok m) => "entries=" ++ fmtEntriesOf m.toCBOR
    | some (.err _) => "err"
    | some (.panic _) => "panic"
    | none => "bad-op"
  | [] => "entries=" ++ fmtEntriesOf OMap.empty.toCBOR
  | _ => "bad-op"

def opHdr (args : List String) : String :=
  match args with
  | [n] => match n.toNat? with
    | some k => "header=" ++ hexOf (mapHeader k)
    | none => "bad-op"
  | _ => "bad-op"

/-- length of the serialisation of a synthetic flat struct with fields 1..n holding 0..n-1 -/
def synthLen (n : Nat) : Nat :=
  (mapHeader n).length + (List.range n).foldl (fun acc i => acc + (cInt (i + 1 : Nat)).enc.length + (cInt (i : Nat)).enc.length) 0

def opSynth (args : List String) : String :=
  match args with
  | [n] => match n.toNat? with
    | some k => s!"len={synthLen k}"
    | none => "bad-op"
  | _ => "bad-op"

def fs (k : Int) (o : Bool) (t : FTy) : FieldSpec := { key := k, omitempty := o, ty := t }

def shInner : Shape := .mk [fs 10 true .int, fs 11 false .text, fs 12 true .bytes] []
def shInner2 : Shape := .mk [fs (-20) false .bytes, fs (-21) true .int] []
def shFlat : Shape := .mk [fs 1 true .int, fs 2 false .text, fs 3 true .bytes, fs (-4) false .int, fs 500 true .text] []
def shMid : Shape := .mk [fs 30 true .text] [shInner2]
def shTwo : Shape := .mk [fs 1 false .int] [shMid, shInner]

def opPop (args : List String) : String :=
  match args with
  | [sh, h] =>
    let shape := if sh == "flat" then some shFlat else if sh == "two" then some shTwo else none
    match shape, unhex? h with
    | some s, some bs =>
      match populate s bs with
      | .ok (.ok _) => "ok"
      | .ok .err => "err"
      | .ok .ood => "ood"
      | .err m => if m == eOod then "ood" else "err"
      | .panic _ => "panic"
    | _, _ => "bad-op"
  | [sh] => if sh == "flat" || sh == "two" then "err" else "bad-op"
  | _ => "bad-op"

def opOmap (args : List String) : String :=
  match args with
  | [h] => match unhex? h with
    | some bs => (match fromCBOR bs with
      | .ok m => s!"ok keys={m.keys.length}"
      | .err m => if m == eOod then "ood" else "err"
      | .panic _ => "panic")
    | none => "bad-op"
  | [] => "err"
  | _ => "bad-op"

end Psa.Driver
