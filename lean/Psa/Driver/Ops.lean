/- Dispatch of protocol operations to model functions. -/
import Psa.Driver.Parse
import Psa.Model.Lifecycle
import Psa.Spec.Lifecycle
import Psa.Model.Claims
import Psa.Model.Setters
import Psa.Driver.ClaimsIO
import Psa.Driver.ErrIO
import Psa.Driver.HistIO
import Psa.Driver.CodecIO
import Psa.Driver.JsonIO
import Psa.Driver.DispatchIO
import Psa.Driver.GatesIO
import Psa.Driver.EvIO
import Psa.Driver.EncIO
import Psa.Driver.RegIO
import Psa.Driver.EncJsonIO
import Psa.Driver.JTokIO
import Psa.Driver.PTagIO
import Psa.Driver.JTextIO
namespace Psa.Driver
open Psa

def fmtSwComp (sc : Model.SwComp) : String :=
  let o (x : Option Bytes) : String := match x with | none => "_" | some b => hexOf b
  "(" ++ o sc.mtype ++ "," ++ o sc.mval ++ "," ++ o sc.version ++ "," ++ o sc.signer ++ "," ++ o sc.mdesc ++ ")"

def fmtVal : Model.Val → String
  | .text b => hexOf b
  | .int i => toString i
  | .nat n => toString n
  | .bytes b => hexOf b
  | .comps none => "nil"
  | .comps (some l) => "[" ++ ";".intercalate (l.map fmtSwComp) ++ "]"

def fmtGet (o : Outcome Model.Val) : String := fmtOutcome fmtVal o

/-- set lifecycle on a fresh claims-set of profile `p`, then get; and get on a bare struct -/
def lcAccessors (p : Model.Prof) (tag : String) (v : Nat) : String :=
  let c0 := Model.Claims.new p
  let (c1, r) := Model.applySet c0 (.lifecycle v)
  let raw : Model.Claims := { c0 with profile := none, sw := .nilIface, lifecycle := some v }
  s!" {tag}set={fmtUnit r} {tag}get={fmtGet (Model.getSecurityLifeCycle c1)} {tag}raw={fmtGet (Model.getSecurityLifeCycle raw)}"

def opLc (args : List String) : String :=
  match args with
  | [vs] =>
    match vs.toNat? with
    | some v =>
      let st := Model.lifeCycleToState v
      s!"state={st} name={Model.stateString st} valid={Model.stateIsValid st} validate={fmtUnit (Model.validateSecurityLifeCycle v)} spec={(Spec.state v).code}{lcAccessors .p1 "p1" v}{lcAccessors .p2 "p2" v}"
    | none => "bad-op"
  | _ => "bad-op"

def opLcName (args : List String) : String :=
  match args with
  | [vs] =>
    match vs.toNat? with
    | some o => s!"name={Model.stateString o} valid={Model.stateIsValid o}"
    | none => "bad-op"
  | _ => "bad-op"

def opObs (args : List String) : String :=
  match parseClaims? args with
  | some c => fmtObs c
  | none => "bad-op"

def runLine (l : String) : String :=
  match l.splitOn " " with
  | caseNo :: op :: args =>
    let r := match op with
      | "lc" => opLc args
      | "lcname" => opLcName args
      | "obs" => opObs args
      | "filter" => opFilter args
      | "hist" => opHist args
      | "cont" => opCont args
      | "decv" => opDecv args
      | "enc" => opEnc args
      | "jenc" => opJenc args
      | "jdec" => opJdec args
      | "newclaims" => opNewClaims args
      | "gates" => opGates args
      | "ev" => opEv args
      | "tamper" => opTamper args
      | "envelope" => opEnvelope args
      | "ser" => opSer args
      | "hdr" => opHdr args
      | "synth" => opSynth args
      | "pop" => opPop args
      | "omap" => opOmap args
      | "serj" => opSerJ args
      | "popj" => opPopJ args
      | "jskip" => opJSkip args
      | "jkeys" => opJKeys args
      | "jtag" => opJTag args
      | "jtext" => opJText args
      | "jrender" => opJRender args
      | "reg" => opReg args
      | "dispatch-cbor" => opDispatchCbor args
      | "dispatch-json" => opDispatchJson args
      | _ => "bad-op"
    caseNo ++ " " ++ r
  | _ => "bad-line"

end Psa.Driver
