/-
  Tie T1 for the `Validate*` family of claims_common.go: the definitions
  regenerated from the Go source on this run satisfy the specification of each
  validator (accepts exactly …, rejects with the wrong-syntax class, never
  panics), and therefore coincide with the hand-written model the property
  theorems are about.  Proof scripts do not mention the generated text.
-/
import Psa.Generated.Funcs
import Psa.Model.Claims
namespace Psa.Tie
open Psa

theorem gen_validateImplID_spec (v : Bytes) :
    Generated.validateImplID v = if v.length = 32 then .ok () else .err eWrongSyntax := by
  unfold Generated.validateImplID
  simp only [eWrongSyntax]
  repeat' split
  all_goals simp_all

theorem gen_validatePSAHashType_spec (v : Bytes) :
    Generated.validatePSAHashType v =
      if v.length = 32 ∨ v.length = 48 ∨ v.length = 64 then .ok () else .err eWrongSyntax := by
  unfold Generated.validatePSAHashType
  simp only [eWrongSyntax]
  repeat' split
  all_goals simp_all

theorem gen_validateNonce_spec (v : Bytes) :
    Generated.validateNonce v =
      if v.length = 32 ∨ v.length = 48 ∨ v.length = 64 then .ok () else .err eWrongSyntax := by
  unfold Generated.validateNonce
  exact gen_validatePSAHashType_spec v

theorem gen_validateInstID_spec (v : Bytes) :
    Generated.validateInstID v =
      if v.length = 33 ∧ v.head? = some 1 then .ok () else .err eWrongSyntax := by
  unfold Generated.validateInstID
  simp only [eWrongSyntax, idx]
  cases v with
  | nil => simp
  | cons b bs =>
    simp only [List.getElem?_cons_zero, Outcome.bind, List.head?_cons, Option.some.injEq]
    repeat' split
    all_goals simp_all
    all_goals (first | (rename_i h1 h2; exact h2 (UInt8.toNat_inj.mp (by simpa using h1))) | (rename_i h1 h2; subst h2; simp at h1))

theorem gen_validateVSI_spec (s : String) :
    Generated.validateVSI s = if s = "" then .err eWrongSyntax else .ok () := by
  unfold Generated.validateVSI
  simp only [eWrongSyntax]
  repeat' split
  all_goals simp_all

/-! the hand-written model satisfies the same specifications, hence equals the generated code -/

theorem gen_validateImplID_eq (v : Bytes) : Generated.validateImplID v = Model.validateImplID v := by
  rw [gen_validateImplID_spec]; unfold Model.validateImplID; split <;> simp_all

theorem gen_validatePSAHashType_eq (v : Bytes) :
    Generated.validatePSAHashType v = Model.validatePSAHashType v := by
  rw [gen_validatePSAHashType_spec]; unfold Model.validatePSAHashType
  simp only []
  split <;> simp_all <;> omega

theorem gen_validateNonce_eq (v : Bytes) : Generated.validateNonce v = Model.validateNonce v := by
  unfold Generated.validateNonce Model.validateNonce; exact gen_validatePSAHashType_eq v

theorem model_validateInstID_spec (v : Bytes) :
    Model.validateInstID v =
      if v.length = 33 ∧ v.head? = some 1 then .ok () else .err eWrongSyntax := by
  unfold Model.validateInstID
  simp only [idx]
  cases v with
  | nil => simp
  | cons b bs =>
    simp only [List.getElem?_cons_zero, Outcome.bind, List.head?_cons, Option.some.injEq]
    repeat' split
    all_goals simp_all
    all_goals (first | (rename_i h1 h2; exact h2 (UInt8.toNat_inj.mp (by simpa using h1))) | (rename_i h1 h2; subst h2; simp at h1))

theorem gen_validateInstID_eq (v : Bytes) : Generated.validateInstID v = Model.validateInstID v := by
  rw [gen_validateInstID_spec, model_validateInstID_spec]

theorem strBytes_nil (s : String) : strBytes s = [] ↔ s = "" := by
  unfold strBytes
  constructor
  · intro h
    rw [List.flatMap_eq_nil_iff] at h
    have : s.toList = [] := by
      cases hs : s.toList with
      | nil => rfl
      | cons c cs =>
        have := h c (by simp [hs])
        have hl := String.length_utf8EncodeChar c
        rw [this] at hl
        have := Char.utf8Size_pos c
        simp at hl; omega
    exact String.toList_eq_nil_iff.mp this
  · rintro rfl; rfl

/-- Go strings are byte sequences in the model -/
theorem gen_validateVSI_eq (s : String) : Generated.validateVSI s = Model.validateVSI (strBytes s) := by
  rw [gen_validateVSI_spec]; unfold Model.validateVSI
  by_cases h : s = ""
  · subst h; rfl
  · have : strBytes s ≠ [] := fun hh => h ((strBytes_nil s).mp hh)
    cases hb : strBytes s with
    | nil => exact absurd hb this
    | cons a as => simp [h]

/-- the nine IANA hash-function names PSA admits -/
def hashAlgNames : List String := ["md2", "md5", "sha-1", "sha-224", "sha-256", "sha-384", "sha-512", "shake128", "shake256"]

/-- `ValidateHashAlgID` (regenerated code): accepts exactly the nine names, every refusal is of the wrong-syntax class -/
theorem gen_validateHashAlgID_spec (v : String) :
    Generated.validateHashAlgID v = (if v ∈ hashAlgNames then .ok () else .err eWrongSyntax) := by
  unfold Generated.validateHashAlgID hashAlgNames
  by_cases h0 : v = ""
  · subst h0; decide
  · simp only [beq_iff_eq, h0, if_false, Bool.or_eq_true, List.mem_cons, List.mem_nil_iff, or_false, or_assoc]
    rfl

end Psa.Tie
