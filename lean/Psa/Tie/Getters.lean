/-
  T1 for the claim getters: the getters of `P1Claims`, `P2Claims` and `SwComponent` that depend on one field of their
  receiver, as regenerated from /repo (`Psa/Generated/Getters.lean`), are the model's getters. The three getters that
  go through other types' code (`GetProfile`, `GetSoftwareComponents`, profile 2's `GetNonce` over `eat.Nonce`) stay
  tied by facts and correspondence only.
-/
import Psa.Generated.Getters
import Psa.Model.Claims
import Psa.Model.Setters
namespace Psa.Tie.Getters
open Psa Psa.Model

theorem clientId_p1 (c : Claims) : Generated.p1GetClientID c.clientId = Model.get .clientId c := by
  simp only [Model.get, getClientID, Generated.p1GetClientID]; cases c.clientId <;> rfl
theorem clientId_p2 (c : Claims) : Generated.p2GetClientID c.clientId = Model.get .clientId c := by
  simp only [Model.get, getClientID, Generated.p2GetClientID]; cases c.clientId <;> rfl

theorem lifecycle_p1 (c : Claims) : Generated.p1GetSecurityLifeCycle c.lifecycle = Model.get .lifecycle c := by
  simp only [Model.get, getSecurityLifeCycle, Generated.p1GetSecurityLifeCycle]; cases c.lifecycle <;> rfl
theorem lifecycle_p2 (c : Claims) : Generated.p2GetSecurityLifeCycle c.lifecycle = Model.get .lifecycle c := by
  simp only [Model.get, getSecurityLifeCycle, Generated.p2GetSecurityLifeCycle]; cases c.lifecycle <;> rfl

theorem implId_p1 (c : Claims) : Generated.p1GetImplID c.implId = Model.get .implId c := by
  simp only [Model.get, getImplID, Generated.p1GetImplID]; cases c.implId <;> rfl
theorem implId_p2 (c : Claims) : Generated.p2GetImplID c.implId = Model.get .implId c := by
  simp only [Model.get, getImplID, Generated.p2GetImplID]; cases c.implId <;> rfl

theorem bootSeed_p1 (c : Claims) (hp : c.prof = .p1) : Generated.p1GetBootSeed c.bootSeed = Model.get .bootSeed c := by
  simp only [Model.get, getBootSeed, Generated.p1GetBootSeed, hp]; cases c.bootSeed <;> rfl
theorem bootSeed_p2 (c : Claims) (hp : c.prof = .p2) : Generated.p2GetBootSeed c.bootSeed = Model.get .bootSeed c := by
  simp only [Model.get, getBootSeed, Generated.p2GetBootSeed, hp]
  cases c.bootSeed with
  | none => rfl
  | some v => simp only []; by_cases h1 : v.length < 8 <;> by_cases h2 : v.length > 32 <;> simp [h1, h2, eWrongSyntax]

theorem certRef_p1 (c : Claims) (hp : c.prof = .p1) :
    Generated.p1GetCertificationReference c.certRef = Model.get .certRef c := by
  simp only [Model.get, getCertificationReference, Generated.p1GetCertificationReference, hp]; cases c.certRef <;> rfl
theorem certRef_p2 (c : Claims) (hp : c.prof = .p2) :
    Generated.p2GetCertificationReference c.certRef = Model.get .certRef c := by
  simp only [Model.get, getCertificationReference, Generated.p2GetCertificationReference, hp]; cases c.certRef <;> rfl

/-- profile 1 holds one nonce (`*[]byte`); the model's list form of it is `some [n]` -/
theorem nonce_p1 (c : Claims) (n : Option Bytes) (h : c.nonce = n.map fun b => [b]) :
    Generated.p1GetNonce n = Model.get .nonce c := by
  simp only [Model.get, getNonce, Generated.p1GetNonce, h]; cases n <;> rfl

theorem instId_p1 (c : Claims) : Generated.p1GetInstID c.instId = Model.get .instId c := by
  simp only [Model.get, getInstID, Generated.p1GetInstID]; cases c.instId <;> rfl
theorem instId_p2 (c : Claims) : Generated.p2GetInstID c.instId = Model.get .instId c := by
  simp only [Model.get, getInstID, Generated.p2GetInstID]; cases c.instId <;> rfl

theorem vsi_p1 (c : Claims) : Generated.p1GetVSI c.vsi = Model.get .vsi c := by
  simp only [Model.get, getVSI, Generated.p1GetVSI]; cases c.vsi <;> rfl
theorem vsi_p2 (c : Claims) : Generated.p2GetVSI c.vsi = Model.get .vsi c := by
  simp only [Model.get, getVSI, Generated.p2GetVSI]; cases c.vsi <;> rfl

/-- the two mandatory, hash-typed fields of a software component -/
theorem comp_mval (sc : SwComp) :
    Generated.compGetMeasurementValue sc.mval = (sc.getMeasurementValue).bind fun b => .ok (.bytes b) := by
  simp only [SwComp.getMeasurementValue, Generated.compGetMeasurementValue]
  cases sc.mval with
  | none => rfl
  | some v => simp only []; cases validatePSAHashType v <;> rfl
theorem comp_signer (sc : SwComp) :
    Generated.compGetSignerID sc.signer = (sc.getSignerID).bind fun b => .ok (.bytes b) := by
  simp only [SwComp.getSignerID, Generated.compGetSignerID]
  cases sc.signer with
  | none => rfl
  | some v => simp only []; cases validatePSAHashType v <;> rfl

/-! ### setters: the regenerated verdict decides, the one assignment follows

`eff r c c'`: what a setter whose regenerated body yields `r` does to the claims-set `c`, `c'` being `c` with the field
assigned (the translator has checked that `<recv>.<Field> = &v; return nil` is all that follows the validations). -/

def eff {α} (r : Outcome Unit) (c c' : α) : α × Outcome Unit :=
  match r with
  | .ok _ => (c', .ok ())
  | .err m => (c, .err m)
  | .panic s => (c, .panic s)

theorem set_clientId_p1 (c : Claims) (v : Int) :
    applySet c (.clientId v) = eff (Generated.p1SetClientID v) c { c with clientId := some v } := rfl
theorem set_clientId_p2 (c : Claims) (v : Int) :
    applySet c (.clientId v) = eff (Generated.p2SetClientID v) c { c with clientId := some v } := rfl

theorem set_lifecycle_p1 (c : Claims) (v : Nat) :
    applySet c (.lifecycle v) = eff (Generated.p1SetSecurityLifeCycle v) c { c with lifecycle := some v } := by
  simp only [applySet, Generated.p1SetSecurityLifeCycle, eff]; cases validateSecurityLifeCycle v <;> rfl
theorem set_lifecycle_p2 (c : Claims) (v : Nat) :
    applySet c (.lifecycle v) = eff (Generated.p2SetSecurityLifeCycle v) c { c with lifecycle := some v } := by
  simp only [applySet, Generated.p2SetSecurityLifeCycle, eff]; cases validateSecurityLifeCycle v <;> rfl

theorem set_implId_p1 (c : Claims) (v : Bytes) :
    applySet c (.implId v) = eff (Generated.p1SetImplID v) c { c with implId := some v } := by
  simp only [applySet, Generated.p1SetImplID, eff]; cases validateImplID v <;> rfl
theorem set_implId_p2 (c : Claims) (v : Bytes) :
    applySet c (.implId v) = eff (Generated.p2SetImplID v) c { c with implId := some v } := by
  simp only [applySet, Generated.p2SetImplID, eff]; cases validateImplID v <;> rfl

theorem set_bootSeed_p1 (c : Claims) (v : Bytes) (hp : c.prof = .p1) :
    applySet c (.bootSeed v) = eff (Generated.p1SetBootSeed v) c { c with bootSeed := some v } := by
  simp only [applySet, Generated.p1SetBootSeed, eff, hp]; by_cases h : v.length != 32 <;> simp [h, eWrongSyntax]
theorem set_bootSeed_p2 (c : Claims) (v : Bytes) (hp : c.prof = .p2) :
    applySet c (.bootSeed v) = eff (Generated.p2SetBootSeed v) c { c with bootSeed := some v } := by
  simp only [applySet, Generated.p2SetBootSeed, eff, hp]
  by_cases h1 : v.length < 8 <;> by_cases h2 : v.length > 32 <;> simp [h1, h2, eWrongSyntax]

theorem set_certRef_p1 (c : Claims) (v : Bytes) (hp : c.prof = .p1) :
    applySet c (.certRef v) = eff (Generated.p1SetCertificationReference v) c { c with certRef := some v } := by
  simp only [applySet, Generated.p1SetCertificationReference, eff, hp]
  by_cases h : (!isEan13 v && !isEan13p5 v) = true <;> simp [h, eWrongSyntax]
theorem set_certRef_p2 (c : Claims) (v : Bytes) (hp : c.prof = .p2) :
    applySet c (.certRef v) = eff (Generated.p2SetCertificationReference v) c { c with certRef := some v } := by
  simp only [applySet, Generated.p2SetCertificationReference, eff, hp]
  by_cases h : (!isEan13p5 v) = true <;> simp [h, eWrongSyntax]

theorem set_nonce_p1 (c : Claims) (v : Bytes) :
    applySet c (.nonce v) = eff (Generated.p1SetNonce v) c { c with nonce := some [v] } := by
  simp only [applySet, Generated.p1SetNonce, eff]; cases validatePSAHashType v <;> rfl

theorem set_instId_p1 (c : Claims) (v : Bytes) :
    applySet c (.instId v) = eff (Generated.p1SetInstID v) c { c with instId := some v } := by
  simp only [applySet, Generated.p1SetInstID, eff]; cases validateInstID v <;> rfl

theorem set_vsi_p1 (c : Claims) (v : Bytes) :
    applySet c (.vsi v) = eff (Generated.p1SetVSI v) c { c with vsi := some v } := by
  simp only [applySet, Generated.p1SetVSI, eff]; cases validateVSI v <;> rfl
theorem set_vsi_p2 (c : Claims) (v : Bytes) :
    applySet c (.vsi v) = eff (Generated.p2SetVSI v) c { c with vsi := some v } := by
  simp only [applySet, Generated.p2SetVSI, eff]; cases validateVSI v <;> rfl

/-- the component's own setters -/
theorem comp_set_mval (sc : SwComp) (v : Bytes) :
    applyCompSet sc (.mval v) = eff (Generated.compSetMeasurementValue v) sc { sc with mval := some v } := by
  simp only [applyCompSet, Generated.compSetMeasurementValue, eff]; cases validatePSAHashType v <;> rfl
theorem comp_set_signer (sc : SwComp) (v : Bytes) :
    applyCompSet sc (.signer v) = eff (Generated.compSetSignerID v) sc { sc with signer := some v } := by
  simp only [applyCompSet, Generated.compSetSignerID, eff]; cases validatePSAHashType v <;> rfl
theorem comp_set_mtype (sc : SwComp) (v : Bytes) :
    applyCompSet sc (.mtype v) = eff (Generated.compSetMeasurementType v) sc { sc with mtype := some v } := rfl
theorem comp_set_version (sc : SwComp) (v : Bytes) :
    applyCompSet sc (.version v) = eff (Generated.compSetVersion v) sc { sc with version := some v } := rfl
theorem comp_set_mdesc (sc : SwComp) (v : Bytes) :
    applyCompSet sc (.mdesc v) = eff (Generated.compSetMeasurementDesc v) sc { sc with mdesc := some v } := rfl

end Psa.Tie.Getters
