/-
  T1 for the encoding package: the regenerated translations of `processAdditionalInfo` and of the
  map-header ladder of `ToCBOR` (Psa/Generated/Funcs.lean, rewritten from /repo on every run) are
  proved equal to panic-free specifications, and so is the hand model.  A change to either Go function
  changes the generated definition and these proofs stop checking.
-/
import Psa.Generated.Funcs
import Psa.Model.Encoding
import Psa.Cbor.Head
import Psa.Proofs.EncRead
namespace Psa.Tie.Enc
open Psa Psa.Model.Enc

/-- what the additional-information reader must do, without partial operations -/
def paiSpec (ai : Nat) (data : Bytes) : Outcome (Nat × Bytes) :=
  if ai < 24 then .ok (ai, data)
  else if ai = 24 then (match data with | [] => .err eOther | b :: r => .ok (b.toNat, r))
  else if ai = 25 then (if data.length < 2 then .err eOther else .ok (beNat (data.take 2), data.drop 2))
  else if ai = 26 then (if data.length < 4 then .err eOther else .ok (beNat (data.take 4), data.drop 4))
  else if ai = 31 then .ok (0, data)
  else .err eOther

theorem gen_pai_spec (ai : Nat) (data : Bytes) (h : ai < 32) :
    Generated.processAdditionalInfo ai data = paiSpec ai data := by
  unfold Generated.processAdditionalInfo paiSpec
  by_cases h1 : ai < 24
  · simp [h1]
  by_cases h2 : ai < 28
  · have : ai = 24 ∨ ai = 25 ∨ ai = 26 ∨ ai = 27 := by omega
    rcases this with rfl | rfl | rfl | rfl
    · cases data <;> simp [sliceTo, sliceFrom, idx, Outcome.bind, eOther]
    · have ht : ∀ l : Bytes, List.take 2 (List.take 2 l) = List.take 2 l := fun l => by simp [List.take_take]
      simp [sliceTo, sliceFrom, Outcome.bind, eOther, ht]; split <;> simp_all <;> omega
    · have ht : ∀ l : Bytes, List.take 4 (List.take 4 l) = List.take 4 l := fun l => by simp [List.take_take]
      simp [sliceTo, sliceFrom, Outcome.bind, eOther, ht]; split <;> simp_all <;> omega
    · simp [eOther]
  · by_cases h3 : ai = 31
    · subst h3; simp
    · have : ¬ ai = 24 ∧ ¬ ai = 25 ∧ ¬ ai = 26 := by omega
      simp [h1, h2, h3, eOther, this]

theorem model_pai_spec (ai : Nat) (data : Bytes) (h : ai < 32) :
    processAdditionalInfo ai data = paiSpec ai data := by
  unfold processAdditionalInfo paiSpec
  by_cases h1 : ai < 24
  · simp [h1]
  by_cases h2 : ai < 28
  · have : ai = 24 ∨ ai = 25 ∨ ai = 26 ∨ ai = 27 := by omega
    rcases this with rfl | rfl | rfl | rfl
    · cases data <;> simp [sliceTo, sliceFrom, idx, Outcome.bind, eOther]
    · simp [sliceTo, sliceFrom, idx, Outcome.bind, eOther]; split <;> simp_all <;> omega
    · simp [sliceTo, sliceFrom, idx, Outcome.bind, eOther]; split <;> simp_all <;> omega
    · simp [eOther]
  · by_cases h3 : ai = 31
    · subst h3; simp
    · have : ¬ ai = 24 ∧ ¬ ai = 25 ∧ ¬ ai = 26 := by omega
      simp [h1, h2, h3, eOther, this]

theorem gen_pai_eq_model (ai : Nat) (data : Bytes) (h : ai < 32) :
    Generated.processAdditionalInfo ai data = processAdditionalInfo ai data := by
  rw [gen_pai_spec ai data h, model_pai_spec ai data h]

theorem or160 : ∀ n, n < 24 → 160 ||| n = 160 + n := by decide

theorem gen_header_eq (n : Nat) (h : n < 2 ^ 32) : Generated.toCBORHeader n = Cbor.encHead 5 n := by
  unfold Generated.toCBORHeader Cbor.encHead
  by_cases h0 : n = 0
  · subst h0; simp
  by_cases h1 : n < 24
  · have : n % 256 = n := by omega
    simp [h0, h1, this, or160 n h1]
  by_cases h2 : n < 256
  · have h2' : n ≤ 255 := by omega
    have : n % 256 = n := by omega
    simp [h0, h1, h2, h2', this]
  by_cases h3 : n < 65536
  · have h2' : ¬ n ≤ 255 := by omega
    have h3' : n ≤ 65535 := by omega
    have : n % 65536 = n := by omega
    simp [h0, h1, h2, h2', h3, h3', this]
  · have h2' : ¬ n ≤ 255 := by omega
    have h3' : ¬ n ≤ 65535 := by omega
    have h4 : n < 4294967296 := by omega
    have : n % 4294967296 = n := by omega
    simp [h0, h1, h2, h2', h3, h3', h4, this]

theorem model_header_eq (n : Nat) (h : n < 2 ^ 32) : mapHeader n = Cbor.encHead 5 n := Psa.Proofs.Enc.mapHeader_eq_encHead n h

theorem gen_header_eq_model (n : Nat) (h : n < 2 ^ 32) : Generated.toCBORHeader n = mapHeader n := by
  rw [gen_header_eq n h, model_header_eq n h]

/-- the specification never panics: with the two equalities above, neither does the Go function
    (every index and slice expression in it is guarded by the length test before it) -/
theorem paiSpec_no_panic (ai : Nat) (data : Bytes) : ∀ s, paiSpec ai data ≠ .panic s := by
  intro s; unfold paiSpec
  repeat' split
  all_goals simp

theorem gen_pai_no_panic (ai : Nat) (data : Bytes) (h : ai < 32) : ∀ s, Generated.processAdditionalInfo ai data ≠ .panic s := by
  rw [gen_pai_spec ai data h]; exact paiSpec_no_panic ai data

end Psa.Tie.Enc
