/-
  Tie T2: facts read off /repo's source on this run (Psa/Generated/Facts.lean)
  equal the values the model was written against.  One named theorem per fact,
  so a broken tie names the fact.  Facts the theorems quantify over (getter
  order, AAD bytes) are tied by the weaker obligations the theorems need.
-/
import Psa.Generated.Facts
namespace Psa.Tie.Facts
open Psa Psa.Generated

/-! ### constants and names -/
theorem implIDLen : List.lookup "ImplIDLen" Facts.intConsts = some 32 := by decide
theorem instIDLen : List.lookup "InstIDLen" Facts.intConsts = some 33 := by decide
theorem lifecycle_bounds :
    [ "SecurityLifecycleUnknownMin", "SecurityLifecycleUnknownMax",
      "SecurityLifecycleAssemblyAndTestMin", "SecurityLifecycleAssemblyAndTestMax",
      "SecurityLifecyclePsaRotProvisioningMin", "SecurityLifecyclePsaRotProvisioningMax",
      "SecurityLifecycleSecuredMin", "SecurityLifecycleSecuredMax",
      "SecurityLifecycleNonPsaRotDebugMin", "SecurityLifecycleNonPsaRotDebugMax",
      "SecurityLifecycleRecoverablePsaRotDebugMin", "SecurityLifecycleRecoverablePsaRotDebugMax",
      "SecurityLifecycleDecommissionedMin", "SecurityLifecycleDecommissionedMax" ].map (fun k => List.lookup k Facts.intConsts)
    = [some 0x0000, some 0x00ff, some 0x1000, some 0x10ff, some 0x2000, some 0x20ff, some 0x3000, some 0x30ff,
       some 0x4000, some 0x40ff, some 0x5000, some 0x50ff, some 0x6000, some 0x60ff] := by decide
theorem state_codes :
    ["StateUnknown", "StateAssemblyAndTest", "StatePSAROTProvisioning", "StateSecured", "StateNonPSAROTDebug",
     "StateRecoverablePSAROTDebug", "StateDecommissioned", "StateInvalid"].map (fun k => List.lookup k Facts.intConsts)
    = [some 0, some 1, some 2, some 3, some 4, some 5, some 6, some 7] := by decide
theorem profile1Name : Facts.profile1Name = "PSA_IOT_PROFILE_1" := by decide
theorem profile2Name : Facts.profile2Name = "http://arm.com/psa/2.0.0" := by decide

/-! ### the two certification-reference patterns (normal form) -/
theorem certRefP1RE : Facts.certificationReferenceP1RE =
    some { anchoredStart := true, anchoredEnd := true, items := [("digit", 13)] } := by decide
theorem certRefP2RE : Facts.certificationReferenceP2RE =
    some { anchoredStart := true, anchoredEnd := true, items := [("digit", 13), ("lit:-", 1), ("digit", 5)] } := by decide

/-! ### getter coverage of the two validation walks (order is irrelevant: C01.validate_order_irrelevant) -/
theorem validateClaims_covers :
    ∀ g ∈ ["GetProfile", "GetClientID", "GetSecurityLifeCycle", "GetImplID", "GetBootSeed",
           "GetCertificationReference", "GetSoftwareComponents", "GetNonce", "GetInstID", "GetVSI"],
      g ∈ Facts.validateClaimsOrder := by decide
theorem validateSwComponent_covers :
    ∀ g ∈ ["GetMeasurementType", "GetMeasurementValue", "GetVersion", "GetSignerID", "GetMeasurementDesc"],
      g ∈ Facts.validateSwComponentOrder := by decide

/-! ### struct tags: CBOR keys, types, omitempty, JSON names -/
theorem fieldsP1Claims : Facts.fieldsP1Claims = [
  { name := "Profile", goType := "*string", cborKey := (-75000), keyAsInt := true, cborOmitEmpty := true, cborSkip := false, jsonName := "psa-profile", jsonOmitEmpty := true, jsonSkip := false },
  { name := "ClientID", goType := "*int32", cborKey := (-75001), keyAsInt := true, cborOmitEmpty := false, cborSkip := false, jsonName := "psa-client-id", jsonOmitEmpty := false, jsonSkip := false },
  { name := "SecurityLifeCycle", goType := "*uint16", cborKey := (-75002), keyAsInt := true, cborOmitEmpty := false, cborSkip := false, jsonName := "psa-security-lifecycle", jsonOmitEmpty := false, jsonSkip := false },
  { name := "ImplID", goType := "*[]byte", cborKey := (-75003), keyAsInt := true, cborOmitEmpty := false, cborSkip := false, jsonName := "psa-implementation-id", jsonOmitEmpty := false, jsonSkip := false },
  { name := "BootSeed", goType := "*[]byte", cborKey := (-75004), keyAsInt := true, cborOmitEmpty := false, cborSkip := false, jsonName := "psa-boot-seed", jsonOmitEmpty := false, jsonSkip := false },
  { name := "CertificationReference", goType := "*string", cborKey := (-75005), keyAsInt := true, cborOmitEmpty := true, cborSkip := false, jsonName := "psa-hwver", jsonOmitEmpty := true, jsonSkip := false },
  { name := "SwComponents", goType := "ISwComponents", cborKey := (-75006), keyAsInt := true, cborOmitEmpty := true, cborSkip := false, jsonName := "psa-software-components", jsonOmitEmpty := true, jsonSkip := false },
  { name := "NoSwMeasurements", goType := "*uint", cborKey := (-75007), keyAsInt := true, cborOmitEmpty := true, cborSkip := false, jsonName := "psa-no-software-measurements", jsonOmitEmpty := true, jsonSkip := false },
  { name := "Nonce", goType := "*[]byte", cborKey := (-75008), keyAsInt := true, cborOmitEmpty := false, cborSkip := false, jsonName := "psa-nonce", jsonOmitEmpty := false, jsonSkip := false },
  { name := "InstID", goType := "*[]byte", cborKey := (-75009), keyAsInt := true, cborOmitEmpty := false, cborSkip := false, jsonName := "psa-instance-id", jsonOmitEmpty := false, jsonSkip := false },
  { name := "VSI", goType := "*string", cborKey := (-75010), keyAsInt := true, cborOmitEmpty := true, cborSkip := false, jsonName := "psa-verification-service-indicator", jsonOmitEmpty := true, jsonSkip := false },
  { name := "CanonicalProfile", goType := "string", cborKey := 0, keyAsInt := false, cborOmitEmpty := false, cborSkip := true, jsonName := "-", jsonOmitEmpty := false, jsonSkip := true }
] := by decide
theorem fieldsP2Claims : Facts.fieldsP2Claims = [
  { name := "Profile", goType := "*eat.Profile", cborKey := (265), keyAsInt := true, cborOmitEmpty := false, cborSkip := false, jsonName := "eat-profile", jsonOmitEmpty := false, jsonSkip := false },
  { name := "ClientID", goType := "*int32", cborKey := (2394), keyAsInt := true, cborOmitEmpty := false, cborSkip := false, jsonName := "psa-client-id", jsonOmitEmpty := false, jsonSkip := false },
  { name := "SecurityLifeCycle", goType := "*uint16", cborKey := (2395), keyAsInt := true, cborOmitEmpty := false, cborSkip := false, jsonName := "psa-security-lifecycle", jsonOmitEmpty := false, jsonSkip := false },
  { name := "ImplID", goType := "*[]byte", cborKey := (2396), keyAsInt := true, cborOmitEmpty := false, cborSkip := false, jsonName := "psa-implementation-id", jsonOmitEmpty := false, jsonSkip := false },
  { name := "BootSeed", goType := "*[]byte", cborKey := (2397), keyAsInt := true, cborOmitEmpty := true, cborSkip := false, jsonName := "psa-boot-seed", jsonOmitEmpty := true, jsonSkip := false },
  { name := "CertificationReference", goType := "*string", cborKey := (2398), keyAsInt := true, cborOmitEmpty := true, cborSkip := false, jsonName := "psa-certification-reference", jsonOmitEmpty := true, jsonSkip := false },
  { name := "SwComponents", goType := "ISwComponents", cborKey := (2399), keyAsInt := true, cborOmitEmpty := false, cborSkip := false, jsonName := "psa-software-components", jsonOmitEmpty := false, jsonSkip := false },
  { name := "Nonce", goType := "*eat.Nonce", cborKey := (10), keyAsInt := true, cborOmitEmpty := false, cborSkip := false, jsonName := "psa-nonce", jsonOmitEmpty := false, jsonSkip := false },
  { name := "InstID", goType := "*eat.UEID", cborKey := (256), keyAsInt := true, cborOmitEmpty := false, cborSkip := false, jsonName := "psa-instance-id", jsonOmitEmpty := false, jsonSkip := false },
  { name := "VSI", goType := "*string", cborKey := (2400), keyAsInt := true, cborOmitEmpty := true, cborSkip := false, jsonName := "psa-verification-service-indicator", jsonOmitEmpty := true, jsonSkip := false },
  { name := "CanonicalProfile", goType := "string", cborKey := 0, keyAsInt := false, cborOmitEmpty := false, cborSkip := true, jsonName := "-", jsonOmitEmpty := false, jsonSkip := true }
] := by decide
theorem fieldsSwComponent : Facts.fieldsSwComponent = [
  { name := "MeasurementType", goType := "*string", cborKey := (1), keyAsInt := true, cborOmitEmpty := true, cborSkip := false, jsonName := "measurement-type", jsonOmitEmpty := true, jsonSkip := false },
  { name := "MeasurementValue", goType := "*[]byte", cborKey := (2), keyAsInt := true, cborOmitEmpty := false, cborSkip := false, jsonName := "measurement-value", jsonOmitEmpty := false, jsonSkip := false },
  { name := "Version", goType := "*string", cborKey := (4), keyAsInt := true, cborOmitEmpty := true, cborSkip := false, jsonName := "version", jsonOmitEmpty := true, jsonSkip := false },
  { name := "SignerID", goType := "*[]byte", cborKey := (5), keyAsInt := true, cborOmitEmpty := false, cborSkip := false, jsonName := "signer-id", jsonOmitEmpty := false, jsonSkip := false },
  { name := "MeasurementDesc", goType := "*string", cborKey := (6), keyAsInt := true, cborOmitEmpty := true, cborSkip := false, jsonName := "measurement-description", jsonOmitEmpty := true, jsonSkip := false }
] := by decide

/-! ### codec options -/
theorem encOptions_indefForbidden : ("IndefLength", "cbor.IndefLengthForbidden") ∈ Facts.encOptions := by decide
theorem decOptions_indefForbidden : ("IndefLength", "cbor.IndefLengthForbidden") ∈ Facts.decOptions := by decide

/-! ### envelope -/
theorem aad_sign_eq_verify : Facts.signAAD = Facts.verifyAAD ∧ Facts.signAAD ≠ none := by decide
theorem aad_empty : Facts.signAAD = some "[]byte(\"\")" := by decide
theorem verify_alg_from_protected : Facts.verifyAlgSource = "e.message.Headers.Protected" := by decide
theorem fresh_message_first :
    Facts.firstStmtSign = "e.message = cose.NewSign1Message()" ∧
    Facts.firstStmtValidateAndSign = "e.message = cose.NewSign1Message()" ∧
    Facts.firstStmtUnmarshalCOSE = "e.message = cose.NewSign1Message()" := by decide

/-! ### package-level state: written only by registration -/
theorem globalWriters : Facts.globalWriters = [("psatoken", "registerProfileUnderName", "profilesRegister")] := by decide

/-! ### read-side methods: exist, and those with pointer receivers assign no receiver field -/
def readSide : List (String × String) :=
  [("Evidence", "Verify"), ("Evidence", "GetInstanceID"), ("Evidence", "GetImplementationID"), ("Evidence", "MarshalJSON"),
   ("P1Claims", "Validate"), ("P1Claims", "MarshalCBOR"), ("P1Claims", "MarshalJSON"),
   ("P1Claims", "GetProfile"), ("P1Claims", "GetClientID"), ("P1Claims", "GetSecurityLifeCycle"), ("P1Claims", "GetImplID"),
   ("P1Claims", "GetBootSeed"), ("P1Claims", "GetCertificationReference"), ("P1Claims", "GetSoftwareComponents"),
   ("P1Claims", "GetNonce"), ("P1Claims", "GetInstID"), ("P1Claims", "GetVSI"),
   ("P2Claims", "Validate"),
   ("P2Claims", "GetProfile"), ("P2Claims", "GetClientID"), ("P2Claims", "GetSecurityLifeCycle"), ("P2Claims", "GetImplID"),
   ("P2Claims", "GetBootSeed"), ("P2Claims", "GetCertificationReference"), ("P2Claims", "GetSoftwareComponents"),
   ("P2Claims", "GetNonce"), ("P2Claims", "GetInstID"), ("P2Claims", "GetVSI"),
   ("SwComponent", "Validate"), ("SwComponent", "GetMeasurementType"), ("SwComponent", "GetMeasurementValue"),
   ("SwComponent", "GetVersion"), ("SwComponent", "GetSignerID"), ("SwComponent", "GetMeasurementDesc"),
   ("SwComponents", "Validate"), ("SwComponents", "Values"), ("SwComponents", "IsEmpty"),
   ("SwComponents", "MarshalCBOR"), ("SwComponents", "MarshalJSON")]

theorem readside_exist :
    ∀ rm ∈ readSide, Facts.methods.any (fun m => m.recv == rm.1 && m.name == rm.2) = true := by decide

theorem readside_pointer_methods_assign_nothing :
    ∀ m ∈ Facts.methods, (m.recv, m.name) ∈ readSide → m.pointer = true → m.assigns = [] := by decide

/-- value-receiver read-side methods may normalise their private copy only -/
theorem readside_value_methods_own_copy :
    ∀ m ∈ Facts.methods, (m.recv, m.name) ∈ readSide → m.assigns ≠ [] → m.pointer = false := by decide

/-! ### encoding package: the field map is not pre-sized from the declared length (C06) -/
/-- the only `make` calls with a size are sized from slices already in memory — none from a length a sender declares,
    and none anywhere in the encoding package -/
theorem sized_makes : Facts.sizedMakes =
    [("psatoken", "SwComponents.Values", "len(o.values)"), ("psatoken", "validateAndConvert", "len(vals)")] := by decide

/-- `FromCBOR` takes the definite-length branch exactly when the additional information is not 31 -/
theorem fromCBOR_indefinite_test : Facts.fromCBORIndefiniteTest = "additionalInfo!=31" := by decide

end Psa.Tie.Facts
