/- Tie T2, all topics (umbrella; the checks import the topic modules under Psa/Tie/Facts/). -/
import Psa.Tie.Facts.Consts
import Psa.Tie.Facts.Fields
import Psa.Tie.Facts.Envelope
import Psa.Tie.Facts.State
import Psa.Tie.Facts.Alloc
