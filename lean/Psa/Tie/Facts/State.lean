/-
  Tie T2 (package-level state is written only by registration; read-side methods cannot write their caller's object): facts read off /repo's source on this run (Psa/Generated/Facts.lean) equal the values the model was
  written against.  One named theorem per fact, so a broken tie names the fact; one module per topic, so a property is
  tied only to the facts its theorems rest on.
-/
import Psa.Generated.Facts
namespace Psa.Tie.Facts
open Psa Psa.Generated

/-! ### package-level state: written only by registration -/
theorem globalWriters : Facts.globalWriters = [("psatoken", "RegisterProfile+init", "profilesRegister")] := by decide

/-! ### read-side methods: exist, and those with pointer receivers assign no receiver field -/
def readSide : List (String × String) :=
  [("Evidence", "Verify"), ("Evidence", "GetInstanceID"), ("Evidence", "GetImplementationID"), ("Evidence", "MarshalJSON"),
   ("P1Claims", "Validate"), ("P1Claims", "MarshalCBOR"), ("P1Claims", "MarshalJSON"),
   ("P1Claims", "GetProfile"), ("P1Claims", "GetClientID"), ("P1Claims", "GetSecurityLifeCycle"), ("P1Claims", "GetImplID"),
   ("P1Claims", "GetBootSeed"), ("P1Claims", "GetCertificationReference"), ("P1Claims", "GetSoftwareComponents"),
   ("P1Claims", "GetNonce"), ("P1Claims", "GetInstID"), ("P1Claims", "GetVSI"),
   ("P2Claims", "Validate"),
   ("P2Claims", "GetProfile"), ("P2Claims", "GetClientID"), ("P2Claims", "GetSecurityLifeCycle"), ("P2Claims", "GetImplID"),
   ("P2Claims", "GetBootSeed"), ("P2Claims", "GetCertificationReference"), ("P2Claims", "GetSoftwareComponents"),
   ("P2Claims", "GetNonce"), ("P2Claims", "GetInstID"), ("P2Claims", "GetVSI"),
   ("SwComponent", "Validate"), ("SwComponent", "GetMeasurementType"), ("SwComponent", "GetMeasurementValue"),
   ("SwComponent", "GetVersion"), ("SwComponent", "GetSignerID"), ("SwComponent", "GetMeasurementDesc"),
   ("SwComponents", "Validate"), ("SwComponents", "Values"), ("SwComponents", "IsEmpty"),
   ("SwComponents", "MarshalCBOR"), ("SwComponents", "MarshalJSON")]

theorem readside_exist :
    ∀ rm ∈ readSide, Facts.methods.any (fun m => m.recv == rm.1 && m.name == rm.2) = true := by decide

theorem readside_pointer_methods_assign_nothing :
    ∀ m ∈ Facts.methods, (m.recv, m.name) ∈ readSide → m.pointer = true → m.assigns = [] := by decide

/-- value-receiver read-side methods may normalise their private copy only -/
theorem readside_value_methods_own_copy :
    ∀ m ∈ Facts.methods, (m.recv, m.name) ∈ readSide → m.assigns ≠ [] → m.pointer = false := by decide

end Psa.Tie.Facts
