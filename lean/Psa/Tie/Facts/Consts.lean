/-
  Tie T2 (constants, profile names, certification-reference patterns, getter coverage of the validation walks): facts read off /repo's source on this run (Psa/Generated/Facts.lean) equal the values the model was
  written against.  One named theorem per fact, so a broken tie names the fact; one module per topic, so a property is
  tied only to the facts its theorems rest on.
-/
import Psa.Generated.Facts
namespace Psa.Tie.Facts
open Psa Psa.Generated

/-! ### constants and names -/
theorem implIDLen : List.lookup "ImplIDLen" Facts.intConsts = some 32 := by decide
theorem instIDLen : List.lookup "InstIDLen" Facts.intConsts = some 33 := by decide
theorem lifecycle_bounds :
    [ "SecurityLifecycleUnknownMin", "SecurityLifecycleUnknownMax",
      "SecurityLifecycleAssemblyAndTestMin", "SecurityLifecycleAssemblyAndTestMax",
      "SecurityLifecyclePsaRotProvisioningMin", "SecurityLifecyclePsaRotProvisioningMax",
      "SecurityLifecycleSecuredMin", "SecurityLifecycleSecuredMax",
      "SecurityLifecycleNonPsaRotDebugMin", "SecurityLifecycleNonPsaRotDebugMax",
      "SecurityLifecycleRecoverablePsaRotDebugMin", "SecurityLifecycleRecoverablePsaRotDebugMax",
      "SecurityLifecycleDecommissionedMin", "SecurityLifecycleDecommissionedMax" ].map (fun k => List.lookup k Facts.intConsts)
    = [some 0x0000, some 0x00ff, some 0x1000, some 0x10ff, some 0x2000, some 0x20ff, some 0x3000, some 0x30ff,
       some 0x4000, some 0x40ff, some 0x5000, some 0x50ff, some 0x6000, some 0x60ff] := by decide
theorem state_codes :
    ["StateUnknown", "StateAssemblyAndTest", "StatePSAROTProvisioning", "StateSecured", "StateNonPSAROTDebug",
     "StateRecoverablePSAROTDebug", "StateDecommissioned", "StateInvalid"].map (fun k => List.lookup k Facts.intConsts)
    = [some 0, some 1, some 2, some 3, some 4, some 5, some 6, some 7] := by decide
theorem profile1Name : Facts.profile1Name = "PSA_IOT_PROFILE_1" := by decide
theorem profile2Name : Facts.profile2Name = "http://arm.com/psa/2.0.0" := by decide

/-! ### the two certification-reference patterns (normal form) -/
theorem certRefP1RE : Facts.certificationReferenceP1RE =
    some { anchoredStart := true, anchoredEnd := true, items := [("digit", 13)] } := by decide
theorem certRefP2RE : Facts.certificationReferenceP2RE =
    some { anchoredStart := true, anchoredEnd := true, items := [("digit", 13), ("lit:-", 1), ("digit", 5)] } := by decide

/-! ### getter coverage of the two validation walks (order is irrelevant: C01.validate_order_irrelevant) -/
theorem validateClaims_covers :
    ∀ g ∈ ["GetProfile", "GetClientID", "GetSecurityLifeCycle", "GetImplID", "GetBootSeed",
           "GetCertificationReference", "GetSoftwareComponents", "GetNonce", "GetInstID", "GetVSI"],
      g ∈ Facts.validateClaimsOrder := by decide
theorem validateSwComponent_covers :
    ∀ g ∈ ["GetMeasurementType", "GetMeasurementValue", "GetVersion", "GetSignerID", "GetMeasurementDesc"],
      g ∈ Facts.validateSwComponentOrder := by decide

end Psa.Tie.Facts
