/-
  Tie T2 (struct tags (CBOR keys, Go types, omitempty, JSON names) and codec options): facts read off /repo's source on this run (Psa/Generated/Facts.lean) equal the values the model was
  written against.  One named theorem per fact, so a broken tie names the fact; one module per topic, so a property is
  tied only to the facts its theorems rest on.
-/
import Psa.Generated.Facts
namespace Psa.Tie.Facts
open Psa Psa.Generated

/-! ### struct tags: CBOR keys, types, omitempty, JSON names -/
theorem fieldsP1Claims : Facts.fieldsP1Claims = [
  { name := "Profile", goType := "*string", cborKey := (-75000), keyAsInt := true, cborOmitEmpty := true, cborSkip := false, jsonName := "psa-profile", jsonOmitEmpty := true, jsonSkip := false },
  { name := "ClientID", goType := "*int32", cborKey := (-75001), keyAsInt := true, cborOmitEmpty := false, cborSkip := false, jsonName := "psa-client-id", jsonOmitEmpty := false, jsonSkip := false },
  { name := "SecurityLifeCycle", goType := "*uint16", cborKey := (-75002), keyAsInt := true, cborOmitEmpty := false, cborSkip := false, jsonName := "psa-security-lifecycle", jsonOmitEmpty := false, jsonSkip := false },
  { name := "ImplID", goType := "*[]byte", cborKey := (-75003), keyAsInt := true, cborOmitEmpty := false, cborSkip := false, jsonName := "psa-implementation-id", jsonOmitEmpty := false, jsonSkip := false },
  { name := "BootSeed", goType := "*[]byte", cborKey := (-75004), keyAsInt := true, cborOmitEmpty := false, cborSkip := false, jsonName := "psa-boot-seed", jsonOmitEmpty := false, jsonSkip := false },
  { name := "CertificationReference", goType := "*string", cborKey := (-75005), keyAsInt := true, cborOmitEmpty := true, cborSkip := false, jsonName := "psa-hwver", jsonOmitEmpty := true, jsonSkip := false },
  { name := "SwComponents", goType := "ISwComponents", cborKey := (-75006), keyAsInt := true, cborOmitEmpty := true, cborSkip := false, jsonName := "psa-software-components", jsonOmitEmpty := true, jsonSkip := false },
  { name := "NoSwMeasurements", goType := "*uint", cborKey := (-75007), keyAsInt := true, cborOmitEmpty := true, cborSkip := false, jsonName := "psa-no-software-measurements", jsonOmitEmpty := true, jsonSkip := false },
  { name := "Nonce", goType := "*[]byte", cborKey := (-75008), keyAsInt := true, cborOmitEmpty := false, cborSkip := false, jsonName := "psa-nonce", jsonOmitEmpty := false, jsonSkip := false },
  { name := "InstID", goType := "*[]byte", cborKey := (-75009), keyAsInt := true, cborOmitEmpty := false, cborSkip := false, jsonName := "psa-instance-id", jsonOmitEmpty := false, jsonSkip := false },
  { name := "VSI", goType := "*string", cborKey := (-75010), keyAsInt := true, cborOmitEmpty := true, cborSkip := false, jsonName := "psa-verification-service-indicator", jsonOmitEmpty := true, jsonSkip := false },
  { name := "CanonicalProfile", goType := "string", cborKey := 0, keyAsInt := false, cborOmitEmpty := false, cborSkip := true, jsonName := "-", jsonOmitEmpty := false, jsonSkip := true }
] := by decide
theorem fieldsP2Claims : Facts.fieldsP2Claims = [
  { name := "Profile", goType := "*eat.Profile", cborKey := (265), keyAsInt := true, cborOmitEmpty := false, cborSkip := false, jsonName := "eat-profile", jsonOmitEmpty := false, jsonSkip := false },
  { name := "ClientID", goType := "*int32", cborKey := (2394), keyAsInt := true, cborOmitEmpty := false, cborSkip := false, jsonName := "psa-client-id", jsonOmitEmpty := false, jsonSkip := false },
  { name := "SecurityLifeCycle", goType := "*uint16", cborKey := (2395), keyAsInt := true, cborOmitEmpty := false, cborSkip := false, jsonName := "psa-security-lifecycle", jsonOmitEmpty := false, jsonSkip := false },
  { name := "ImplID", goType := "*[]byte", cborKey := (2396), keyAsInt := true, cborOmitEmpty := false, cborSkip := false, jsonName := "psa-implementation-id", jsonOmitEmpty := false, jsonSkip := false },
  { name := "BootSeed", goType := "*[]byte", cborKey := (2397), keyAsInt := true, cborOmitEmpty := true, cborSkip := false, jsonName := "psa-boot-seed", jsonOmitEmpty := true, jsonSkip := false },
  { name := "CertificationReference", goType := "*string", cborKey := (2398), keyAsInt := true, cborOmitEmpty := true, cborSkip := false, jsonName := "psa-certification-reference", jsonOmitEmpty := true, jsonSkip := false },
  { name := "SwComponents", goType := "ISwComponents", cborKey := (2399), keyAsInt := true, cborOmitEmpty := false, cborSkip := false, jsonName := "psa-software-components", jsonOmitEmpty := false, jsonSkip := false },
  { name := "Nonce", goType := "*eat.Nonce", cborKey := (10), keyAsInt := true, cborOmitEmpty := false, cborSkip := false, jsonName := "psa-nonce", jsonOmitEmpty := false, jsonSkip := false },
  { name := "InstID", goType := "*eat.UEID", cborKey := (256), keyAsInt := true, cborOmitEmpty := false, cborSkip := false, jsonName := "psa-instance-id", jsonOmitEmpty := false, jsonSkip := false },
  { name := "VSI", goType := "*string", cborKey := (2400), keyAsInt := true, cborOmitEmpty := true, cborSkip := false, jsonName := "psa-verification-service-indicator", jsonOmitEmpty := true, jsonSkip := false },
  { name := "CanonicalProfile", goType := "string", cborKey := 0, keyAsInt := false, cborOmitEmpty := false, cborSkip := true, jsonName := "-", jsonOmitEmpty := false, jsonSkip := true }
] := by decide
theorem fieldsSwComponent : Facts.fieldsSwComponent = [
  { name := "MeasurementType", goType := "*string", cborKey := (1), keyAsInt := true, cborOmitEmpty := true, cborSkip := false, jsonName := "measurement-type", jsonOmitEmpty := true, jsonSkip := false },
  { name := "MeasurementValue", goType := "*[]byte", cborKey := (2), keyAsInt := true, cborOmitEmpty := false, cborSkip := false, jsonName := "measurement-value", jsonOmitEmpty := false, jsonSkip := false },
  { name := "Version", goType := "*string", cborKey := (4), keyAsInt := true, cborOmitEmpty := true, cborSkip := false, jsonName := "version", jsonOmitEmpty := true, jsonSkip := false },
  { name := "SignerID", goType := "*[]byte", cborKey := (5), keyAsInt := true, cborOmitEmpty := false, cborSkip := false, jsonName := "signer-id", jsonOmitEmpty := false, jsonSkip := false },
  { name := "MeasurementDesc", goType := "*string", cborKey := (6), keyAsInt := true, cborOmitEmpty := true, cborSkip := false, jsonName := "measurement-description", jsonOmitEmpty := true, jsonSkip := false }
] := by decide

/-! ### codec options -/
theorem encOptions_indefForbidden : ("IndefLength", "cbor.IndefLengthForbidden") ∈ Facts.encOptions := by decide
theorem decOptions_indefForbidden : ("IndefLength", "cbor.IndefLengthForbidden") ∈ Facts.decOptions := by decide

end Psa.Tie.Facts
