/-
  Tie T2 (the encoding package: no allocation sized from the input; the definite/indefinite test): facts read off /repo's source on this run (Psa/Generated/Facts.lean) equal the values the model was
  written against.  One named theorem per fact, so a broken tie names the fact; one module per topic, so a property is
  tied only to the facts its theorems rest on.
-/
import Psa.Generated.Facts
namespace Psa.Tie.Facts
open Psa Psa.Generated

/-! ### encoding package: the field map is not pre-sized from the declared length (C06) -/
/-- the only `make` calls with a size are sized from slices already in memory — none from a length a sender declares,
    and none anywhere in the encoding package -/
theorem sized_makes : Facts.sizedMakes =
    [("psatoken", "SwComponents.Values", "len(o.values)"), ("psatoken", "validateAndConvert", "len(vals)")] := by decide

/-- `FromCBOR` takes the definite-length branch exactly when the additional information is not 31 -/
theorem fromCBOR_indefinite_test : Facts.fromCBORIndefiniteTest = "additionalInfo!=31" := by decide

end Psa.Tie.Facts
