/-
  Tie T2 (the envelope: external AAD, algorithm source, fresh message first): facts read off /repo's source on this run (Psa/Generated/Facts.lean) equal the values the model was
  written against.  One named theorem per fact, so a broken tie names the fact; one module per topic, so a property is
  tied only to the facts its theorems rest on.
-/
import Psa.Generated.Facts
namespace Psa.Tie.Facts
open Psa Psa.Generated

/-! ### envelope -/
theorem aad_sign_eq_verify : Facts.signAAD = Facts.verifyAAD ∧ Facts.signAAD ≠ none := by decide
theorem aad_empty : Facts.signAAD = some "[]byte(\"\")" := by decide
theorem verify_alg_from_protected : Facts.verifyAlgSource = "e.message.Headers.Protected" := by decide
theorem fresh_message_first :
    Facts.firstStmtSign = "e.message = cose.NewSign1Message()" ∧
    Facts.firstStmtValidateAndSign = "e.message = cose.NewSign1Message()" ∧
    Facts.firstStmtUnmarshalCOSE = "e.message = cose.NewSign1Message()" := by decide

end Psa.Tie.Facts
