/-
  Tie T1 for C14 (DESIGN §2.1 rule (a)): the definitions *regenerated from the
  Go source on this run* satisfy the specification directly.  The proof scripts
  do not mention the generated text, so any rewrite of the Go code that keeps
  the table keeps these proofs; an off-by-one in a bound breaks `omega`.
-/
import Psa.Generated.Funcs
import Psa.Spec.Lifecycle
import Psa.Model.Lifecycle
namespace Psa.Tie
open Psa

/-- Generated `LifeCycleToState` = the high-byte table, for every uint16. -/
theorem gen_lifeCycleToState_spec (v : Nat) (h : v < 65536) :
    Generated.lifeCycleToState v = (Spec.state v).code := by
  unfold Generated.lifeCycleToState Spec.state
  simp only [Bool.and_eq_true, decide_eq_true_eq]
  repeat' split
  all_goals (simp only [Spec.LState.code]; try omega)

/-- Generated `IsValid` = "code below the invalid sentinel". -/
theorem gen_stateIsValid_spec (s : Spec.LState) :
    Generated.stateIsValid s.code = decide (s ≠ .invalid) := by
  cases s <;> simp [Generated.stateIsValid, Spec.LState.code]

/-- Generated `String()` = the specified names. -/
theorem gen_stateString_spec (s : Spec.LState) :
    Generated.stateString s.code = s.name := by
  cases s <;> simp [Generated.stateString, Spec.LState.code, Spec.LState.name]

/-- every code ≥ 7 (not a declared state) prints as "invalid" -/
theorem gen_stateString_other (o : Nat) (h : 7 ≤ o) : Generated.stateString o = "invalid" := by
  unfold Generated.stateString
  repeat' split
  all_goals (first | rfl | (simp at *; omega))

/-- Generated validator = Model validator (code shape needed by the claims model). -/
theorem gen_validateSecurityLifeCycle_eq (v : Nat) (h : v < 65536) :
    Generated.validateSecurityLifeCycle v = Model.validateSecurityLifeCycle v := by
  have hg := gen_lifeCycleToState_spec v h
  have hm : Model.lifeCycleToState v = (Spec.state v).code := by
    unfold Model.lifeCycleToState Spec.state
    repeat' split
    all_goals (simp only [Spec.LState.code]; try omega)
  unfold Generated.validateSecurityLifeCycle Model.validateSecurityLifeCycle
  rw [hg, hm]
  cases Spec.state v <;> simp [Generated.stateIsValid, Model.stateIsValid, Spec.LState.code, eWrongSyntax]

end Psa.Tie
