import Psa.Proofs.Dispatch
open Psa Psa.Model
example : getProfile (Claims.new .p1) = .ok (.text p1Name) := by decide
