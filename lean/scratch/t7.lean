import Psa.Proofs.Dispatch
open Psa Psa.Model
example (extra : List Bytes) : lookupProfile extra p2Name = some .p2 := by
      unfold lookupProfile; rw [if_neg (by decide), if_pos (by decide)]
