import Psa.Proofs.Dispatch
open Psa Psa.Model
example : selectProfile (.map [(cInt 265, .tstr p2Name)]) = .ok p2Name := by decide
