import Psa.Proofs.Errors
#print axioms Psa.Proofs.validateWith_err
#print axioms Psa.Proofs.present_err_class
#print axioms Psa.Proofs.filtered_mask
#check @Psa.Proofs.present_err_class
