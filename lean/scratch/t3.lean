example (n : Nat) : (UInt8.ofNat n).toNat = n % 256 := by simp
example (n : Nat) : (UInt8.ofNat n).toNat = n % 256 := UInt8.toNat_ofNat' 
#check @UInt8.toNat_ofNat
#check @UInt8.toNat_ofNat'
