import Psa.Proofs.Dispatch
open Psa Psa.Model
set_option maxHeartbeats 400000
example : selectProfile (.map []) = .ok [] := by decide
