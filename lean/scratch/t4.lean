import Psa.Proofs.Validate
import Psa.Model.Json
open Psa Psa.Model
theorem dec_map_ok' {α β} (x : Dec α) (f : α → β) (b : β) (h : x.map f = .ok b) : ∃ a, x = .ok a ∧ f a = b := by
  cases x <;> simp [Dec.map, Dec.bind] at h; exact ⟨_, rfl, h⟩
example (c : Claims) (k : Int) (v : Cbor) (c' : Claims) (h : setP1 c k v = .ok c') :
    c'.prof = c.prof ∧ c'.canonical = c.canonical := by
  unfold setP1 at h
  split at h
  · obtain ⟨a, _, ha⟩ := dec_map_ok' _ _ _ h; rw [← ha]; exact ⟨rfl, rfl⟩
  sorry
