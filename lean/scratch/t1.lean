import Psa.Generated.Funcs
import Psa.Model.Claims
open Psa

theorem gen_validateImplID_spec (v : Bytes) :
    Generated.validateImplID v = if v.length = 32 then .ok () else .err eWrongSyntax := by
  unfold Generated.validateImplID
  simp only [eWrongSyntax]
  repeat' split
  all_goals simp_all

theorem gen_validatePSAHashType_spec (v : Bytes) :
    Generated.validatePSAHashType v =
      if v.length = 32 ∨ v.length = 48 ∨ v.length = 64 then .ok () else .err eWrongSyntax := by
  unfold Generated.validatePSAHashType
  simp only [eWrongSyntax]
  repeat' split
  all_goals simp_all

theorem gen_validateInstID_spec (v : Bytes) :
    Generated.validateInstID v =
      if v.length = 33 ∧ v.head? = some 1 then .ok () else .err eWrongSyntax := by
  unfold Generated.validateInstID
  simp only [eWrongSyntax, idx]
  cases v with
  | nil => simp
  | cons b bs =>
    simp only [List.getElem?_cons_zero, Outcome.bind, List.head?_cons, Option.some.injEq]
    repeat' split
    all_goals simp_all
    all_goals (first | (rename_i h1 h2; exact h2 (UInt8.toNat_inj.mp (by simpa using h1))) | (rename_i h1 h2; subst h2; simp at h1))
