/-
  psadriver — runs the model's executable definitions on the operations the Go
  harness wrote (one per line) and prints one canonical result per line.
  Core Lean only (links as a `lean_exe`).
-/
import Psa.Driver.Ops
open Psa Psa.Driver

partial def loop (hin : IO.FS.Stream) (hout : IO.FS.Stream) : IO Unit := do
  let line ← hin.getLine
  if line.isEmpty then return ()
  let l := line.trimAsciiEnd.toString
  if l.isEmpty || l.startsWith "#" || l.startsWith "!" then
    loop hin hout
  else
    hout.putStrLn (runLine l)
    loop hin hout

def main : IO Unit := do
  let hin ← IO.getStdin
  let hout ← IO.getStdout
  loop hin hout
  hout.flush
