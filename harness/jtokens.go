package main

// Token layer of the JSON ordered field map (encoding/json.go: unmarshalKeys, skipValue), run alone through the
// hooks and compared with the Lean model of the two loops (Psa/Model/JsonTokens.lean, ops `jskip`, `jkeys`).
// The token stream handed to the model is produced here with Go's own json.Decoder over the same bytes, up to
// the first error the decoder reports (the model treats the end of the list as "Token() returned an error").
// Independent oracles on the implementation: no panic; on a well-formed document, skipValue skips exactly the
// first value; unmarshalKeys of an object leaves the member names in document order, duplicates included
// (names as the harness's own tree parser reads them); every other document is refused.

import (
	"bytes"
	"encoding/hex"
	"encoding/json"
	"fmt"
	"strings"

	"github.com/veraison/psatoken/encoding"
)

// tokenise: the decoder's token stream in protocol syntax, and whether the stream ended in io.EOF cleanly.
func tokeniseJSON(data []byte) (toks []string, n int) {
	dec := json.NewDecoder(bytes.NewReader(data))
	for {
		t, err := dec.Token()
		if err != nil {
			return toks, len(toks)
		}
		switch v := t.(type) {
		case json.Delim:
			toks = append(toks, string(rune(v)))
		case string:
			toks = append(toks, "s"+hex.EncodeToString([]byte(v)))
		case float64, json.Number:
			toks = append(toks, "n")
		case bool:
			toks = append(toks, "b")
		case nil:
			toks = append(toks, "z")
		default:
			toks = append(toks, "?")
		}
	}
}

func tokArg(toks []string) string {
	if len(toks) == 0 {
		return "-"
	}
	return strings.Join(toks, ",")
}

// randJSON: a document tree with nesting, duplicate member names, empty containers and awkward strings.
func randJSON(rng *Rng, depth int) *JTree {
	k := rng.Intn(10)
	if depth <= 0 && k >= 6 {
		k = rng.Intn(6)
	}
	switch k {
	case 0:
		return jN()
	case 1:
		return &JTree{Kind: jBool, B: rng.Bool()}
	case 2:
		return jI(int64(rng.Intn(2000)) - 1000)
	case 3:
		return &JTree{Kind: jNumOther, Raw: Pick(rng, []string{"1.5", "-0.0", "1e3", "2E-2", "12345678901234567890.5"})}
	case 4, 5:
		return jS(Pick(rng, jtokNames))
	case 6, 7:
		n := rng.Intn(4)
		t := jA()
		for i := 0; i < n; i++ {
			t.Kids = append(t.Kids, randJSON(rng, depth-1))
		}
		return t
	default:
		n := rng.Intn(4)
		t := jO()
		for i := 0; i < n; i++ {
			t.Mem = append(t.Mem, jM(Pick(rng, jtokNames), randJSON(rng, depth-1)))
		}
		return t
	}
}

var jtokNames = []string{"a", "b", "a", "", "k1", "psa-profile", "omitempty", "-", "é", "q\"uote", "back\\slash", "nl\n", "{", "]", "null", " ", "x y"}

// nestedDoc: `depth` containers open at once around a scalar, arrays and objects mixed by `mask`.
func nestedDoc(depth int, mask uint64) []byte {
	var b, e bytes.Buffer
	for i := 0; i < depth; i++ {
		if mask>>(uint(i)%64)&1 == 1 {
			b.WriteString(`{"a":`)
			e.WriteString("}")
		} else {
			b.WriteString("[")
			e.WriteString("]")
		}
	}
	b.WriteString("1")
	cl := e.Bytes()
	for i := len(cl) - 1; i >= 0; i-- {
		b.WriteByte(cl[i])
	}
	return b.Bytes()
}

func jtokOne(r *Run, class string, data []byte, wellFormed bool, tree *JTree) {
	toks, _ := tokeniseJSON(data)
	arg := tokArg(toks)
	// skipValue
	var rem int
	var eos bool
	var err error
	r.About("jskip " + hex.EncodeToString(data))
	pan, what := safely(func() { rem, eos, err = encoding.VerifSkipValue(data) })
	res := "err"
	if pan {
		res = "panic"
	} else if err == nil && eos {
		res = fmt.Sprintf("eos rest=%d", rem)
	} else if err == nil {
		res = fmt.Sprintf("ok rest=%d", rem)
	}
	r.Case(class+"/skip", false, "jskip "+arg, res)
	if pan {
		r.Fail("no-panic", fmt.Sprintf("skipValue panics on %q: %v", trunc(string(data), 200), what))
	}
	if wellFormed && tree != nil && !pan {
		if err != nil || eos || rem != 0 {
			r.Fail("key-order", fmt.Sprintf("skipValue on the well-formed document %q: err=%v endOfStream=%v tokens left=%d (expected to skip exactly the document)", trunc(string(data), 200), err, eos, rem))
		}
	}
	// unmarshalKeys
	var keys []string
	r.About("jkeys " + hex.EncodeToString(data))
	pan, what = safely(func() { keys, err = encoding.VerifUnmarshalKeys(data) })
	res = "err"
	if pan {
		res = "panic"
	} else if err == nil {
		hs := make([]string, len(keys))
		for i, k := range keys {
			hs[i] = hex.EncodeToString([]byte(k))
		}
		res = "ok keys=[" + strings.Join(hs, ",") + "]"
	}
	r.Case(class+"/keys", false, "jkeys "+arg, res)
	if pan {
		r.Fail("no-panic", fmt.Sprintf("unmarshalKeys panics on %q: %v", trunc(string(data), 200), what))
		return
	}
	if wellFormed && tree != nil {
		if tree.Kind == jObj {
			want := make([]string, len(tree.Mem))
			for i, m := range tree.Mem {
				want[i] = m.Name
			}
			if err != nil || fmt.Sprintf("%q", keys) != fmt.Sprintf("%q", want) {
				r.Fail("key-order", fmt.Sprintf("unmarshalKeys of %q: keys %q err=%v, expected the member names in document order %q", trunc(string(data), 200), keys, err, want))
			}
			// the same through FromJSON (json.Unmarshal first), as the populate helper reaches it
			om := encoding.VerifNewOrderedMapJSON()
			var ferr error
			if p2, w2 := safely(func() { ferr = om.FromJSON(data) }); p2 {
				r.Fail("no-panic", fmt.Sprintf("FromJSON panics on %q: %v", trunc(string(data), 200), w2))
			} else if ferr != nil || fmt.Sprintf("%q", om.Keys()) != fmt.Sprintf("%q", want) {
				r.Fail("key-order", fmt.Sprintf("FromJSON of %q: keys %q err=%v, expected %q", trunc(string(data), 200), om.Keys(), ferr, want))
			}
		} else if err == nil {
			r.Fail("key-order", fmt.Sprintf("unmarshalKeys accepted the non-object document %q (keys %q)", trunc(string(data), 200), keys))
		}
	}
}

// jtokCases: the stream. reps random documents; each also truncated, with one delimiter swapped, and concatenated.
func jtokCases(r *Run, rng *Rng, reps int, maxNest int) {
	fixed := []string{`{}`, `[]`, `null`, ` null `, `1`, `"s"`, `true`, `{"a":1}`, `{"a":1,"a":2}`, `{"two":1,"two":2}`,
		`{"a":{"a":[{"a":{}}]},"b":[[],[[]]]}`, `{"a":null,"b":[null]}`, `[1,2]`, `[{"a":1}]`, `{"a":[1,{"b":2},[3]],"c":"d"}`,
		`{"a":1} {"b":2}`, `1 2 3`, `[] {}`, `{"a":1}]`, `{"a":1}}`, `]`, `}`, `{`, `[`, `{"a"`, `{"a":`, `{"a":1,`, `{"a":[}`, `[1,]`, `{1:2}`,
		`{"a":1,"b"}`, ``, ` `, `nul`, `{"a":tru}`, `{"-":1,"omitempty":2}`, `{"":0}`}
	for _, s := range fixed {
		t, perr := parseJSONText([]byte(s))
		jtokOne(r, "tokens/fixed", []byte(s), perr == nil, t)
	}
	for rep := 0; rep < reps; rep++ {
		t := randJSON(rng, 1+rng.Intn(5))
		if rep%3 == 0 && t.Kind != jObj {
			t = jO(jM("k", t), jM(Pick(rng, jtokNames), randJSON(rng, 2)))
		}
		data := []byte(t.Text())
		back, perr := parseJSONText(data)
		jtokOne(r, "tokens/document", data, perr == nil, back)
		switch rep % 4 {
		case 0: // truncated
			if len(data) > 1 {
				jtokOne(r, "tokens/truncated", data[:1+rng.Intn(len(data)-1)], false, nil)
			}
		case 1: // one structural byte swapped for another
			m := append([]byte(nil), data...)
			var pos []int
			for i, c := range m {
				if strings.IndexByte("{}[],:", c) >= 0 {
					pos = append(pos, i)
				}
			}
			if len(pos) > 0 {
				m[Pick(rng, pos)] = "{}[],:"[rng.Intn(6)]
				jtokOne(r, "tokens/delimiter-swapped", m, false, nil)
			}
		case 2: // several values in one stream
			u := randJSON(rng, 2)
			jtokOne(r, "tokens/stream", []byte(t.Text()+" "+u.Text()), false, nil)
		case 3: // a stray closer after / instead of the value
			jtokOne(r, "tokens/stray-closer", append(append([]byte(nil), data...), "]}"[rng.Intn(2)]), false, nil)
		}
	}
	// nesting: every depth 1..maxNest (arrays, objects, mixed) at top level and under a member
	for d := 1; d <= maxNest; d++ {
		if d > 80 && d%7 != 0 && d != maxNest {
			continue
		}
		for _, mask := range []uint64{0, ^uint64(0), rng.U64()} {
			inner := nestedDoc(d, mask)
			t, perr := parseJSONText(inner)
			jtokOne(r, "tokens/nested", inner, perr == nil, t)
			doc := []byte(`{"k":` + string(inner) + `,"l":0}`)
			t2, perr2 := parseJSONText(doc)
			jtokOne(r, "tokens/nested-member", doc, perr2 == nil, t2)
		}
	}
}
