package main

// The wire format of PSA tokens as the specifications state it (C04, C10),
// evaluated on independent CBOR trees: which tokens are conformant, which
// encodings are left open (no verdict), and the claims a conformant token carries.

import (
	"fmt"
	"unicode/utf8"

	psa "github.com/veraison/psatoken"
)

var p1KeyList = []int64{-75000, -75001, -75002, -75003, -75004, -75005, -75006, -75007, -75008, -75009, -75010}
var p2KeyList = []int64{265, 2394, 2395, 2396, 2397, 2398, 2399, 10, 256, 2400}
var compKeyList = []int64{1, 2, 4, 5, 6}

func optB(b *[]byte) *Node {
	if b == nil {
		return nil
	}
	return nBstr(*b)
}
func optS(s *string) *Node {
	if s == nil {
		return nil
	}
	return nTstr(*s)
}

func compNode(c CompDesc) *Node {
	if c.Nil {
		return nNull()
	}
	m := &Node{Kind: kMap}
	add := func(k int64, v *Node) {
		if v != nil {
			m.Pairs = append(m.Pairs, [2]*Node{nInt(k), v})
		}
	}
	if c.MT != nil {
		add(1, nTstr(string(*c.MT)))
	}
	add(2, optB(c.MV))
	if c.Ver != nil {
		add(4, nTstr(string(*c.Ver)))
	}
	add(5, optB(c.SID))
	if c.MD != nil {
		add(6, nTstr(string(*c.MD)))
	}
	return m
}

// tokenOf: the wire form the profile prescribes for the claims present in d
// (absent claims are simply not emitted; the result is conformant iff d is).
func tokenOf(d *ClaimsDesc) *Node {
	m := &Node{Kind: kMap}
	add := func(k int64, v *Node) {
		if v != nil {
			m.Pairs = append(m.Pairs, [2]*Node{nInt(k), v})
		}
	}
	var cid, lc, sw, nosw, nonce *Node
	if d.CID != nil {
		cid = nInt(int64(*d.CID))
	}
	if d.LC != nil {
		lc = nUint(uint64(*d.LC))
	}
	if d.SwKind == SwList && (len(d.Sw) > 0 || d.P == 2) {
		sw = &Node{Kind: kArr}
		for _, c := range d.Sw {
			sw.Kids = append(sw.Kids, compNode(c))
		}
	}
	if d.NoSw != nil {
		nosw = nUint(uint64(*d.NoSw))
	}
	if d.Nonce != nil {
		if len(*d.Nonce) == 1 {
			nonce = nBstr((*d.Nonce)[0])
		} else {
			nonce = &Node{Kind: kArr}
			for _, b := range *d.Nonce {
				nonce.Kids = append(nonce.Kids, nBstr(b))
			}
		}
	}
	if d.P == 1 {
		add(-75000, optS(d.Prof))
		add(-75001, cid)
		add(-75002, lc)
		add(-75003, optB(d.Impl))
		add(-75004, optB(d.Boot))
		add(-75005, optS(d.Cert))
		add(-75006, sw)
		add(-75007, nosw)
		add(-75008, nonce)
		add(-75009, optB(d.Inst))
		add(-75010, optS(d.VSI))
	} else {
		add(265, optS(d.Prof))
		add(2394, cid)
		add(2395, lc)
		add(2396, optB(d.Impl))
		add(2397, optB(d.Boot))
		add(2398, optS(d.Cert))
		add(2399, sw)
		add(10, nonce)
		add(256, optB(d.Inst))
		add(2400, optS(d.VSI))
	}
	return m
}

type wireResult struct {
	Verdict  bool   // false: an encoding the specifications leave open, or outside the claim-key space
	Why      string // reason for no verdict / first reason for non-conformance
	Conf     bool
	Declared int         // 1 | 2 | 0 (unknown profile)
	Desc     *ClaimsDesc // claims carried (when conformant)
}

func keyInt(n *Node) (int64, bool) {
	switch n.Kind {
	case kUint:
		if n.N < 1<<63 {
			return int64(n.N), true
		}
	case kNint:
		if n.N < 1<<63 {
			return -1 - int64(n.N), true
		}
	}
	return 0, false
}

func sameKey(a, b *Node) bool {
	if a.Kind != b.Kind {
		return false
	}
	switch a.Kind {
	case kUint, kNint, kSimple, kF16, kF32, kF64:
		return a.N == b.N
	case kBstr, kTstr:
		return string(a.B) == string(b.B)
	}
	return string(a.Bytes()) == string(b.Bytes())
}

func hasDupKeys(m *Node) bool {
	for i := range m.Pairs {
		for j := i + 1; j < len(m.Pairs); j++ {
			if sameKey(m.Pairs[i][0], m.Pairs[j][0]) {
				return true
			}
		}
	}
	return false
}

func lookupInt(m *Node, k int64) *Node {
	for _, p := range m.Pairs {
		if p[0].isInt(k) {
			return p[1]
		}
	}
	return nil
}

// wireSpec judges a token tree.
func wireSpec(n *Node) wireResult {
	nov := func(why string) wireResult { return wireResult{Verdict: false, Why: why} }
	bad := func(decl int, why string) wireResult {
		return wireResult{Verdict: true, Conf: false, Declared: decl, Why: why}
	}
	if n.hasTag() {
		return nov("tagged item")
	}
	if n.Kind != kMap {
		return bad(0, "not a map")
	}
	if n.hasIndef() {
		return bad(0, "indefinite length")
	}
	if hasDupKeys(n) {
		return nov("duplicate keys")
	}
	for _, p := range n.Pairs {
		k := p[0]
		if k.Kind != kUint && k.Kind != kNint && k.Kind != kTstr {
			return nov("key outside the claim-key space (neither integer nor text)")
		}
		if k.Kind == kTstr && !utf8.Valid(k.B) {
			return nov("text key that is not valid UTF-8")
		}
		if k.Kind == kNint && k.N >= 1<<63 {
			return nov("integer key below -2^63")
		}
	}
	// declared profile
	decl := 1
	if pv := lookupInt(n, 265); pv != nil {
		if pv.Kind != kTstr {
			return bad(0, "profile claim (265) is not a text string")
		}
		switch string(pv.B) {
		case psa.Profile2Name:
			decl = 2
		case psa.Profile1Name:
			return nov("profile-1 name under key 265")
		default:
			return bad(0, "unregistered profile")
		}
	}
	d := &ClaimsDesc{P: decl, Canon: canonOf(decl), SwKind: SwNilSlice}
	text := func(v *Node, what string) (*string, string) {
		if v.Kind != kTstr {
			return nil, what + ": not a text string"
		}
		if !utf8.Valid(v.B) {
			return nil, what + ": invalid UTF-8"
		}
		s := string(v.B)
		return &s, ""
	}
	bstr := func(v *Node, what string) (*[]byte, string) {
		if v.Kind != kBstr {
			return nil, what + ": not a byte string"
		}
		b := append([]byte{}, v.B...)
		return &b, ""
	}
	comps := func(v *Node) ([]CompDesc, string, bool) {
		if v.Kind != kArr {
			return nil, "software components: not an array", true
		}
		var out []CompDesc
		for i, e := range v.Kids {
			if e.Kind != kMap {
				return nil, fmt.Sprintf("component %d: not a map", i), true
			}
			if hasDupKeys(e) {
				return nil, "duplicate keys in component", false
			}
			var c CompDesc
			for _, p := range e.Pairs {
				if p[0].Kind != kUint && p[0].Kind != kNint && p[0].Kind != kTstr {
					return nil, "component key outside the key space", false
				}
				if p[0].Kind == kTstr && !utf8.Valid(p[0].B) || p[0].Kind == kNint && p[0].N >= 1<<63 {
					return nil, "component key outside the key space", false
				}
				k, ok := keyInt(p[0])
				if !ok || p[0].Kind == kTstr {
					continue
				}
				var why string
				switch k {
				case 1:
					var s *string
					s, why = text(p[1], "measurement type")
					c.MT = spb(s)
				case 2:
					c.MV, why = bstr(p[1], "measurement value")
				case 4:
					var s *string
					s, why = text(p[1], "version")
					c.Ver = spb(s)
				case 5:
					c.SID, why = bstr(p[1], "signer id")
				case 6:
					var s *string
					s, why = text(p[1], "measurement description")
					c.MD = spb(s)
				}
				if why != "" {
					return nil, fmt.Sprintf("component %d: %s", i, why), true
				}
			}
			out = append(out, c)
		}
		if out == nil {
			out = []CompDesc{}
		}
		return out, "", true
	}
	keys := p1KeyList
	if decl == 2 {
		keys = p2KeyList
	}
	for _, k := range keys {
		v := lookupInt(n, k)
		if v == nil {
			continue
		}
		var why string
		idx := k
		if decl == 1 {
			idx = -75000 - k // 0..10
		}
		switch {
		case decl == 1 && idx == 0:
			d.Prof, why = text(v, "profile")
		case decl == 2 && k == 265:
			d.Prof, why = text(v, "profile")
		case decl == 1 && idx == 1, decl == 2 && k == 2394:
			i, ok := keyInt(v)
			if !ok || i > 2147483647 || i < -2147483648 {
				why = "client id: not an integer within int32"
			} else {
				d.CID = i32p(int32(i))
			}
		case decl == 1 && idx == 2, decl == 2 && k == 2395:
			if v.Kind != kUint || v.N > 65535 {
				why = "security lifecycle: not an unsigned integer within 16 bits"
			} else {
				d.LC = u16p(uint16(v.N))
			}
		case decl == 1 && idx == 3, decl == 2 && k == 2396:
			d.Impl, why = bstr(v, "implementation id")
		case decl == 1 && idx == 4, decl == 2 && k == 2397:
			d.Boot, why = bstr(v, "boot seed")
		case decl == 1 && idx == 5, decl == 2 && k == 2398:
			d.Cert, why = text(v, "certification reference")
		case decl == 1 && idx == 6, decl == 2 && k == 2399:
			var ok bool
			d.Sw, why, ok = comps(v)
			if !ok {
				return nov(why)
			}
			d.SwKind = SwList
		case decl == 1 && idx == 7:
			if v.Kind != kUint {
				why = "no-software-measurements: not an unsigned integer"
			} else if v.N != 1 {
				return nov("no-software-measurements flag other than 1")
			} else {
				d.NoSw = uip(1)
			}
		case decl == 1 && idx == 8:
			var b *[]byte
			b, why = bstr(v, "nonce")
			if b != nil {
				l := [][]byte{*b}
				d.Nonce = &l
			}
		case decl == 2 && k == 10:
			if v.Kind == kArr {
				if len(v.Kids) == 1 {
					return nov("one-element nonce array")
				}
				l := [][]byte{}
				for _, e := range v.Kids {
					if e.Kind != kBstr {
						why = "nonce array element: not a byte string"
						break
					}
					l = append(l, e.B)
				}
				d.Nonce = &l
			} else {
				var b *[]byte
				b, why = bstr(v, "nonce")
				if b != nil {
					l := [][]byte{*b}
					d.Nonce = &l
				}
			}
		case decl == 1 && idx == 9, decl == 2 && k == 256:
			d.Inst, why = bstr(v, "instance id")
		case decl == 1 && idx == 10, decl == 2 && k == 2400:
			d.VSI, why = text(v, "verification service indicator")
		}
		if why != "" {
			return bad(decl, why)
		}
	}
	if !conformant(d) {
		for g := 0; g < 10; g++ {
			if s := specGetter(d, g); s != stOK && s != stMissingOptional {
				return bad(decl, fmt.Sprintf("claim %s violates the profile's rule (status %d)", getterNames[g], s))
			}
		}
	}
	return wireResult{Verdict: true, Conf: true, Declared: decl, Desc: d}
}
