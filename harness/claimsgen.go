package main

// Generator of claims-set descriptions: valid bases, single-claim deviations
// (boundary classes, byte-string lengths 0..80 exhaustively, the single-edit
// neighbourhood of certification references), random products and masking pairs.

import (
	"encoding/base64"
	"fmt"
	"strings"

	psa "github.com/veraison/psatoken"
)

const extCanon = "http://example.com/psa/ext/1.0"

func bp(b []byte) *[]byte   { return &b }
func sp(s string) *string   { return &s }
func i32p(v int32) *int32   { return &v }
func u16p(v uint16) *uint16 { return &v }
func uip(v uint) *uint      { return &v }

func fill(n int, seed byte) []byte {
	b := make([]byte, n)
	for i := range b {
		b[i] = seed + byte(i)
	}
	return b
}

func instOf(n int, first byte, seed byte) []byte {
	b := fill(n, seed)
	if n > 0 {
		b[0] = first
	}
	return b
}

var lcValidEdges = []uint16{0x0000, 0x00ff, 0x1000, 0x10ff, 0x2000, 0x20ff, 0x3000, 0x30ff, 0x4000, 0x40ff, 0x5000, 0x50ff, 0x6000, 0x60ff, 0x3042}
var lcInvalidEdges = []uint16{0x0100, 0x0fff, 0x1100, 0x1fff, 0x2100, 0x2fff, 0x3100, 0x3fff, 0x4100, 0x4fff, 0x5100, 0x5fff, 0x6100, 0x7000, 0x8000, 0xffff}

const ean13 = "1234567890123"
const ean13p5 = "1234567890123-12345"

var textPool = []string{"", "a", "PSA", "1.2.3", "BL", "héllo", "日本", "a\"b\\c", "line\nbreak", "\x00", "tab\there", "SHA256", "sha-256", "M1", "https://x.example/v?a=1&b=<2>", "\u2028",
	// text that looks like a JSON escape when written out literally
	"C:\\u0026\\updates", "\\u003c", "x\\\\u003e", "\\n", "\\\"", "\\u00e9", "&amp;", "</script>", "\x7f", "\\",
	// text that is exactly one JSON structural token (a tokenising reader must not take the string for the delimiter)
	"[", "]", "{", "}", ",", ":", "null", "true", "\"", "[]", "{}"}
var badUTF8 = []string{"\xff", "a\xc3", "\xed\xa0\x80", "ok\xfe"}

// hexLookingDigests: 48-byte values whose (unpadded, 64-character) base64 text consists of hexadecimal digits only —
// a reader that "also accepts hex" must not take them for 32 bytes of hex
var hexLookingDigests = func() [][]byte {
	var out [][]byte
	for _, s := range []string{"deadBEEF", "00000000", "ABCDEF01", "cafe0123"} {
		b, err := base64.StdEncoding.DecodeString(strings.Repeat(s, 8))
		if err != nil || len(b) != 48 {
			panic("hexLookingDigests")
		}
		out = append(out, b)
	}
	return out
}()

func validComp(r *Rng) CompDesc {
	c := CompDesc{MV: bp(fill(Pick(r, []int{32, 48, 64}), byte(r.Intn(200)))), SID: bp(fill(Pick(r, []int{32, 48, 64}), byte(r.Intn(200))))}
	if r.Chance(6) {
		c.MV = bp(append([]byte{}, Pick(r, hexLookingDigests)...))
	}
	if r.Chance(6) {
		c.SID = bp(append([]byte{}, Pick(r, hexLookingDigests)...))
	}
	if r.Chance(40) {
		c.MT = bp([]byte(Pick(r, textPool)))
	}
	if r.Chance(40) {
		c.Ver = bp([]byte(Pick(r, textPool)))
	}
	if r.Chance(40) {
		c.MD = bp([]byte(Pick(r, textPool)))
	}
	return c
}

func canonOf(p int) string {
	if p == 1 {
		return psa.Profile1Name
	}
	return psa.Profile2Name
}

// baseValid: a conformant claims-set of profile p with a random optional subset.
func baseValid(r *Rng, p int) ClaimsDesc {
	d := ClaimsDesc{P: p, Canon: canonOf(p)}
	if r.Chance(8) {
		d.Canon = extCanon
	}
	if p == 2 || r.Chance(60) {
		d.Prof = sp(d.Canon)
	}
	d.CID = i32p(Pick(r, []int32{0, 1, -1, 2147483647, -2147483648, 23, -24, 24, -25, 255, 256, -256, -257, 65535, 65536, -65537, int32(r.U64())}))
	d.LC = u16p(Pick(r, lcValidEdges))
	if r.Chance(30) {
		hi := uint16(r.Intn(7)) << 12
		d.LC = u16p(hi | uint16(r.Intn(256)))
	}
	d.Impl = bp(fill(32, byte(r.Intn(250))))
	if p == 1 {
		d.Boot = bp(fill(32, byte(r.Intn(250))))
	} else if r.Chance(60) {
		d.Boot = bp(fill(8+r.Intn(25), byte(r.Intn(250))))
	}
	if r.Chance(40) {
		if p == 1 && r.Bool() {
			d.Cert = sp(ean13)
		} else {
			d.Cert = sp(ean13p5)
		}
	}
	if p == 1 && r.Chance(25) {
		d.NoSw = uip(1)
		d.SwKind = Pick(r, []int{SwNilIface, SwNilSlice, SwList})
	} else {
		d.SwKind = SwList
		n := 1 + r.Intn(4)
		if r.Chance(4) {
			// long lists: nothing in the profile bounds their number (a codec option below what the encoder emits shows here)
			n = Pick(r, []int{32, 33, 40, 129, 300})
		}
		for i := 0; i < n; i++ {
			d.Sw = append(d.Sw, validComp(r))
		}
	}
	nn := [][]byte{fill(Pick(r, []int{32, 48, 64}), byte(r.Intn(250)))}
	d.Nonce = &nn
	d.Inst = bp(instOf(33, 1, byte(r.Intn(250))))
	if r.Chance(40) {
		d.VSI = sp(Pick(r, textPool[1:]))
	}
	return d
}

type deviation struct {
	claim string
	class string
	apply func(d *ClaimsDesc)
}

// certNeighbourhood: every single edit (delete, insert, substitute) of s over a small alphabet.
func certNeighbourhood(s string) []string {
	alpha := []string{"0", "9", "-", "a", " ", "\n", "\x00", "١", "\xff"}
	seen := map[string]bool{s: true}
	var out []string
	add := func(x string) {
		if !seen[x] {
			seen[x] = true
			out = append(out, x)
		}
	}
	for i := 0; i < len(s); i++ {
		add(s[:i] + s[i+1:])
		for _, a := range alpha {
			add(s[:i] + a + s[i+1:])
		}
	}
	for i := 0; i <= len(s); i++ {
		for _, a := range alpha {
			add(s[:i] + a + s[i:])
		}
	}
	// the same number of *bytes*, one of the digits not an ASCII digit: k ASCII digits replaced by one decimal digit of
	// another script that takes k bytes in UTF-8
	for _, wide := range []string{"٢", "१", "𝟏", "０"} {
		for i := 0; i+len(wide) <= len(s); i++ {
			if !strings.Contains(s[i:i+len(wide)], "-") {
				add(s[:i] + wide + s[i+len(wide):])
			}
		}
	}
	return out
}

// deviations: every way (per DESIGN §4 vocabulary) in which one claim of a
// claims-set of profile p is made absent / boundary / just-outside / wrong-shape.
func deviations(p int, thorough bool) []deviation {
	var out []deviation
	add := func(claim, class string, f func(d *ClaimsDesc)) { out = append(out, deviation{claim, class, f}) }

	// profile
	add("profile", "absent", func(d *ClaimsDesc) { d.Prof = nil })
	add("profile", "canonical", func(d *ClaimsDesc) { d.Prof = sp(d.Canon) })
	other := psa.Profile2Name
	if p == 2 {
		other = "http://arm.com/psa/3.0.0"
	}
	add("profile", "other", func(d *ClaimsDesc) { d.Prof = sp(other) })
	add("profile", "other-ext", func(d *ClaimsDesc) { d.Prof = sp(extCanon + "x") })
	if p == 1 {
		add("profile", "empty", func(d *ClaimsDesc) { d.Prof = sp("") })
		add("profile", "canon+space", func(d *ClaimsDesc) { d.Prof = sp(d.Canon + " ") })
		add("profile", "case-lower", func(d *ClaimsDesc) { d.Prof = sp(strings.ToLower(d.Canon)) })
		add("profile", "case-upper", func(d *ClaimsDesc) { d.Prof = sp(strings.ToUpper(d.Canon)) })
		add("profile", "case-path", func(d *ClaimsDesc) {
			d.Prof = sp(strings.Replace(strings.Replace(d.Canon, "psa", "PSA", 1), "IOT", "iot", 1))
		})
		add("profile", "prefix", func(d *ClaimsDesc) { d.Prof = sp(d.Canon[:len(d.Canon)-1]) })
	} else {
		add("profile", "case-path", func(d *ClaimsDesc) { d.Prof = sp(strings.Replace(d.Canon, "/psa/", "/PSA/", 1)) })
		add("profile", "invalid-zero", func(d *ClaimsDesc) { d.Prof = nil; d.ProfInvalid = true })
	}
	add("canonical", "extension", func(d *ClaimsDesc) {
		if d.Prof != nil && *d.Prof == d.Canon {
			d.Prof = sp(extCanon)
		}
		d.Canon = extCanon
	})
	add("canonical", "extension-mismatch", func(d *ClaimsDesc) {
		d.Prof = sp(d.Canon)
		d.Canon = extCanon
	})
	// client id
	add("clientId", "absent", func(d *ClaimsDesc) { d.CID = nil })
	for _, v := range []int32{0, -1, 1, 2147483647, -2147483648} {
		v := v
		add("clientId", fmt.Sprintf("v%d", v), func(d *ClaimsDesc) { d.CID = i32p(v) })
	}
	// lifecycle
	add("lifecycle", "absent", func(d *ClaimsDesc) { d.LC = nil })
	for _, v := range lcValidEdges {
		v := v
		add("lifecycle", "valid-edge", func(d *ClaimsDesc) { d.LC = u16p(v) })
	}
	for _, v := range lcInvalidEdges {
		v := v
		add("lifecycle", "invalid-edge", func(d *ClaimsDesc) { d.LC = u16p(v) })
	}
	// byte-string claims, lengths 0..80 exhaustively
	add("implId", "absent", func(d *ClaimsDesc) { d.Impl = nil })
	add("bootSeed", "absent", func(d *ClaimsDesc) { d.Boot = nil })
	add("nonce", "absent", func(d *ClaimsDesc) { d.Nonce = nil })
	add("instId", "absent", func(d *ClaimsDesc) { d.Inst = nil })
	for n := 0; n <= 80; n++ {
		n := n
		add("implId", fmt.Sprintf("len%d", n), func(d *ClaimsDesc) { d.Impl = bp(fill(n, 3)) })
		add("bootSeed", fmt.Sprintf("len%d", n), func(d *ClaimsDesc) { d.Boot = bp(fill(n, 5)) })
		add("nonce", fmt.Sprintf("len%d", n), func(d *ClaimsDesc) { l := [][]byte{fill(n, 7)}; d.Nonce = &l })
		add("instId", fmt.Sprintf("len%d-rand", n), func(d *ClaimsDesc) { d.Inst = bp(instOf(n, 1, 9)) })
		add("instId", fmt.Sprintf("len%d-type0", n), func(d *ClaimsDesc) { d.Inst = bp(instOf(n, 0, 9)) })
		add("sw", fmt.Sprintf("mval-len%d", n), func(d *ClaimsDesc) {
			d.NoSw = nil
			d.SwKind = SwList
			d.Sw = []CompDesc{{MV: bp(fill(n, 1)), SID: bp(fill(32, 2))}}
		})
		add("sw", fmt.Sprintf("signer-len%d", n), func(d *ClaimsDesc) {
			d.NoSw = nil
			d.SwKind = SwList
			d.Sw = []CompDesc{{MV: bp(fill(48, 1)), SID: bp(fill(n, 2)), MT: bp([]byte("BL"))}}
		})
	}
	for _, t := range []byte{2, 3, 0xff} {
		t := t
		add("instId", fmt.Sprintf("type%d", t), func(d *ClaimsDesc) { d.Inst = bp(instOf(33, t, 9)) })
	}
	if p == 2 {
		add("nonce", "empty-list", func(d *ClaimsDesc) { l := [][]byte{}; d.Nonce = &l })
		add("nonce", "two", func(d *ClaimsDesc) { l := [][]byte{fill(32, 1), fill(32, 2)}; d.Nonce = &l })
		add("nonce", "three", func(d *ClaimsDesc) { l := [][]byte{fill(32, 1), fill(48, 2), fill(64, 3)}; d.Nonce = &l })
		add("nonce", "two-one-bad", func(d *ClaimsDesc) { l := [][]byte{fill(32, 1), fill(4, 2)}; d.Nonce = &l })
	}
	// certification reference
	add("certRef", "absent", func(d *ClaimsDesc) { d.Cert = nil })
	add("certRef", "ean13", func(d *ClaimsDesc) { d.Cert = sp(ean13) })
	add("certRef", "ean13+5", func(d *ClaimsDesc) { d.Cert = sp(ean13p5) })
	for _, s := range []string{"", "abc", "0000000000000", "9999999999999-99999", ean13 + "\n", "\n" + ean13, ean13p5 + "\n", ean13 + "-", ean13 + "-1234", ean13 + "-123456",
		ean13 + ean13, "x" + ean13p5 + "y", "１２３４５６７８９０１２３", ean13[:12] + "٣", ean13 + "_12345", ean13 + " 12345"} {
		s := s
		add("certRef", "shape", func(d *ClaimsDesc) { d.Cert = sp(s) })
	}
	nb := append(certNeighbourhood(ean13), certNeighbourhood(ean13p5)...)
	if !thorough {
		// quick: every 7th neighbour (the thorough tier runs all of them)
		var sub []string
		for i, s := range nb {
			if i%7 == 0 || strings.ContainsAny(s, "٢१𝟏０١") {
				sub = append(sub, s)
			}
		}
		nb = sub
	}
	for _, s := range nb {
		s := s
		add("certRef", "edit", func(d *ClaimsDesc) { d.Cert = sp(s) })
	}
	// verification service indicator
	add("vsi", "absent", func(d *ClaimsDesc) { d.VSI = nil })
	add("vsi", "empty", func(d *ClaimsDesc) { d.VSI = sp("") })
	for _, s := range textPool[1:] {
		s := s
		add("vsi", "text", func(d *ClaimsDesc) { d.VSI = sp(s) })
	}
	add("vsi", "bad-utf8", func(d *ClaimsDesc) { d.VSI = sp(badUTF8[0]) })
	// software components / no-measurements flag
	add("sw", "nil-iface", func(d *ClaimsDesc) { d.SwKind = SwNilIface; d.Sw = nil })
	add("sw", "nil-slice", func(d *ClaimsDesc) { d.SwKind = SwNilSlice; d.Sw = nil })
	add("sw", "empty-list", func(d *ClaimsDesc) { d.SwKind = SwList; d.Sw = []CompDesc{} })
	add("sw", "nil-element", func(d *ClaimsDesc) { d.NoSw = nil; d.SwKind = SwList; d.Sw = []CompDesc{{Nil: true}} })
	add("sw", "valid-then-nil", func(d *ClaimsDesc) {
		d.NoSw = nil
		d.SwKind = SwList
		d.Sw = []CompDesc{{MV: bp(fill(32, 1)), SID: bp(fill(32, 2))}, {Nil: true}}
	})
	add("sw", "nil-then-valid", func(d *ClaimsDesc) {
		d.NoSw = nil
		d.SwKind = SwList
		d.Sw = []CompDesc{{Nil: true}, {MV: bp(fill(32, 1)), SID: bp(fill(32, 2))}}
	})
	add("sw", "nil-in-the-middle", func(d *ClaimsDesc) {
		d.NoSw = nil
		d.SwKind = SwList
		d.Sw = []CompDesc{{MV: bp(fill(32, 1)), SID: bp(fill(32, 2))}, {Nil: true}, {MV: bp(fill(48, 3)), SID: bp(fill(64, 4)), Ver: bp([]byte("2"))}}
	})
	add("sw", "no-mval", func(d *ClaimsDesc) { d.NoSw = nil; d.SwKind = SwList; d.Sw = []CompDesc{{SID: bp(fill(32, 2))}} })
	add("sw", "no-signer", func(d *ClaimsDesc) { d.NoSw = nil; d.SwKind = SwList; d.Sw = []CompDesc{{MV: bp(fill(32, 2))}} })
	add("sw", "all-absent", func(d *ClaimsDesc) { d.NoSw = nil; d.SwKind = SwList; d.Sw = []CompDesc{{}} })
	add("sw", "only-text", func(d *ClaimsDesc) {
		d.NoSw = nil
		d.SwKind = SwList
		d.Sw = []CompDesc{{MT: bp([]byte("a")), Ver: bp([]byte("")), MD: bp([]byte("z"))}}
	})
	add("sw", "empty-texts", func(d *ClaimsDesc) {
		d.NoSw = nil
		d.SwKind = SwList
		d.Sw = []CompDesc{{MT: bp([]byte("")), Ver: bp([]byte("")), MD: bp([]byte("")), MV: bp(fill(64, 1)), SID: bp(fill(64, 2))}}
	})
	add("sw", "last-bad-of-4", func(d *ClaimsDesc) {
		d.NoSw = nil
		d.SwKind = SwList
		g := CompDesc{MV: bp(fill(32, 1)), SID: bp(fill(48, 2))}
		d.Sw = []CompDesc{g, g, g, {MV: bp(fill(33, 1)), SID: bp(fill(48, 2))}}
	})
	add("noSw", "flag1", func(d *ClaimsDesc) { d.NoSw = uip(1) })
	add("noSw", "flag0", func(d *ClaimsDesc) { d.NoSw = uip(0) })
	add("noSw", "flag7", func(d *ClaimsDesc) { d.NoSw = uip(7) })
	add("noSw", "flag-absent", func(d *ClaimsDesc) { d.NoSw = nil })
	add("noSw", "flag+empty", func(d *ClaimsDesc) { d.NoSw = uip(1); d.SwKind = SwList; d.Sw = []CompDesc{} })
	add("noSw", "flag+nil", func(d *ClaimsDesc) { d.NoSw = uip(1); d.SwKind = SwNilIface; d.Sw = nil })
	add("noSw", "flag+list", func(d *ClaimsDesc) {
		d.NoSw = uip(1)
		d.SwKind = SwList
		d.Sw = []CompDesc{{MV: bp(fill(32, 1)), SID: bp(fill(32, 2))}}
	})
	for _, fv := range []uint{0, 7, 1 << 40} {
		fv := fv
		add("noSw", "flag-value+list", func(d *ClaimsDesc) {
			d.NoSw = uip(fv)
			d.SwKind = SwList
			d.Sw = []CompDesc{{MV: bp(fill(32, 1)), SID: bp(fill(32, 2))}, {MV: bp(fill(48, 3)), SID: bp(fill(64, 4))}}
		})
	}
	return out
}

// normalise: profile-2 descriptions carry no flag (the struct has no such field).
func normalise(d *ClaimsDesc) {
	if d.P == 2 {
		d.NoSw = nil
	}
	if d.P == 1 {
		d.ProfInvalid = false
		if d.Nonce != nil && len(*d.Nonce) != 1 {
			l := [][]byte{fill(32, 1)}
			d.Nonce = &l
		}
	}
	if d.SwKind != SwList {
		d.Sw = nil
	}
}

// randomComp: each field independently absent / valid / invalid.
func randomComp(r *Rng) CompDesc {
	if r.Chance(4) {
		return CompDesc{Nil: true}
	}
	f := func() *[]byte {
		switch r.Intn(10) {
		case 0:
			return nil
		case 1:
			return bp(fill(Pick(r, []int{0, 1, 31, 33, 47, 49, 63, 65, 80}), 1))
		}
		return bp(fill(Pick(r, []int{32, 48, 64}), byte(r.Intn(100))))
	}
	t := func() *[]byte {
		if r.Chance(50) {
			return nil
		}
		return bp([]byte(Pick(r, textPool)))
	}
	return CompDesc{MT: t(), MV: f(), Ver: t(), SID: f(), MD: t()}
}

// randomClaims: product of independent per-claim draws, mostly valid.
func randomClaims(r *Rng, p int, devs []deviation, nDev int) ClaimsDesc {
	d := baseValid(r, p)
	for i := 0; i < nDev; i++ {
		Pick(r, devs).apply(&d)
	}
	if r.Chance(15) {
		d.SwKind = SwList
		d.Sw = nil
		n := r.Intn(5)
		for i := 0; i < n; i++ {
			if r.Chance(70) {
				d.Sw = append(d.Sw, validComp(r))
			} else {
				d.Sw = append(d.Sw, randomComp(r))
			}
		}
		if d.Sw == nil {
			d.Sw = []CompDesc{}
		}
	}
	normalise(&d)
	return d
}
