package main

import (
	"bytes"
	"fmt"
	"os"
	"path/filepath"
	"reflect"
	"strings"
	"sync"

	cose "github.com/veraison/go-cose"
	psa "github.com/veraison/psatoken"
	"github.com/veraison/psatoken/encoding"
)

func init() { props["C17"] = runC17 }

// c17Shared: what all goroutines of a round read.
type c17Shared struct {
	claims []psa.IClaims
	descs  []ClaimsDesc
	evs    []*psa.Evidence
	toks   [][]byte
	tokKey []int
	cbor   [][]byte // encoded claims to decode privately
	json   [][]byte
	synthT reflect.Type // a struct type with key numbers never used before in this process
	ext    []ExtProfile
}

func buildShared(rng *Rng, round int) *c17Shared {
	s := &c17Shared{}
	ks := keys()
	for i := 0; i < 10; i++ {
		var d ClaimsDesc
		switch i % 5 {
		case 0: // profile 1 decoded from a no-measurements token: non-nil, empty component container
			d = *c19Claims(rng, true)
			for d.P != 1 {
				d = *c19Claims(rng, true)
			}
			d.Sw = nil
			d.NoSw = uip(Pick(rng, []uint{1, 0, 7, 1 << 33}))
			tokb := tokenOf(&d).Bytes()
			c, err := psa.DecodeClaimsFromCBOR(tokb)
			if err == nil {
				s.claims = append(s.claims, c)
				if dd, ok := DescOf(c); ok {
					d = dd
				}
				s.descs = append(s.descs, d)
				continue
			}
			fallthrough
		case 1, 2:
			d = *c19Claims(rng, true)
		default:
			d = *c19Claims(rng, false)
		}
		s.claims = append(s.claims, d.Build())
		s.descs = append(s.descs, d)
	}
	for i := 0; i < 6; i++ {
		d := c19Claims(rng, true)
		k := ks[rng.Intn(len(ks))]
		tok, _, err := signedToken(d, k, Pick(rng, k.algs))
		if err != nil {
			continue
		}
		ev, err := psa.DecodeEvidenceFromCOSE(append([]byte{}, tok...))
		if err != nil {
			continue
		}
		s.evs = append(s.evs, ev)
		s.toks = append(s.toks, tok)
		s.tokKey = append(s.tokKey, k.id)
		s.cbor = append(s.cbor, tokenOf(d).Bytes())
		s.json = append(s.json, []byte(jsonOf(d).Text()))
		if i == 0 {
			// a document declaring both built-in profiles at once: refused, by every goroutine, every time
			two := jsonOf(d).clone()
			two.set("psa-profile", jS(psa.Profile1Name))
			two.set("eat-profile", jS(psa.Profile2Name))
			s.cbor = append(s.cbor, tokenOf(d).Bytes())
			s.json = append(s.json, []byte(two.Text()))
		}
	}
	// envelopes with unusual header placements, genuinely signed by hand (shared, verified from many goroutines)
	for _, ht := range handTokens(rng) {
		ev, err := psa.DecodeEvidenceFromCOSE(append([]byte{}, ht.tok...))
		if err != nil {
			continue
		}
		s.evs = append(s.evs, ev)
		s.toks = append(s.toks, ht.tok)
		s.tokKey = append(s.tokKey, ht.key.id)
	}
	fields := make([]reflect.StructField, 24)
	for i := range fields {
		key := 100000 + round*100 + i
		fields[i] = reflect.StructField{Name: fmt.Sprintf("F%d", i), Type: reflect.TypeOf((*int64)(nil)),
			Tag: reflect.StructTag(fmt.Sprintf(`cbor:"%d,keyasint,omitempty" json:"r%df%d,omitempty"`, key, round, i))}
	}
	s.synthT = reflect.StructOf(fields)
	s.ext = []ExtProfile{{Name: extName(700 + round%5), Base: 1}, {Name: extName(800 + round%5), Base: 2}}
	return s
}

// c17Thread: one goroutine's program — derived from its own PRNG only, so it can be re-run sequentially.
func c17Thread(s *c17Shared, seed uint64, nOps int) []string {
	rng := NewRng(seed)
	ks := keys()
	ops := claimsReadOps()
	var out []string
	var own []psa.IClaims
	var ownEv []*psa.Evidence
	emit := func(format string, a ...interface{}) { out = append(out, fmt.Sprintf(format, a...)) }
	for n := 0; n < nOps; n++ {
		pan, what := safely(func() {
			switch c := rng.Intn(100); {
			case c < 30: // read a shared claims-set
				i := rng.Intn(len(s.claims))
				op := Pick(rng, ops)
				emit("shared[%d].%s=%s", i, op.name, op.f(s.claims[i]))
			case c < 45 && len(s.evs) > 0: // read a shared Evidence
				i := rng.Intn(len(s.evs))
				switch rng.Intn(4) {
				case 0, 1:
					k := ks[rng.Intn(len(ks))]
					if rng.Chance(40) {
						k = ks[s.tokKey[i]]
					}
					emit("ev[%d].Verify(%d)=%s", i, k.id, okErr(s.evs[i].Verify(k.pub)))
				case 2:
					p := s.evs[i].GetInstanceID()
					emit("ev[%d].GetInstanceID=%v", i, p != nil && len(*p) > 0)
				default:
					b, err := s.evs[i].MarshalJSON()
					emit("ev[%d].MarshalJSON=%d/%s", i, len(b), okErr(err))
				}
			case c < 55: // create
				name := Pick(rng, []string{psa.Profile1Name, psa.Profile2Name, "", s.ext[0].Name, s.ext[1].Name, "nope",
					// near-miss spellings: unknown, every time, whoever asked before
					" " + psa.Profile1Name, "psa_iot_profile_1", "HTTP://ARM.COM/PSA/2.0.0", psa.Profile2Name + " ", strings.ToUpper(s.ext[1].Name)})
				cl, err := psa.NewClaims(name)
				emit("NewClaims(%q)=%s/%T", name, okErr(err), cl)
				if err == nil {
					own = append(own, cl)
				}
			case c < 65 && len(s.cbor) > 0: // decode privately
				i := rng.Intn(len(s.cbor))
				if rng.Bool() {
					cl, err := psa.DecodeClaimsFromCBOR(append([]byte{}, s.cbor[i]...))
					emit("DecodeCBOR[%d]=%s", i, okErr(err))
					if err == nil {
						own = append(own, cl)
						emit(" obs=%s", observe(cl).String())
					}
				} else {
					cl, err := psa.DecodeClaimsFromJSON(append([]byte{}, s.json[i]...))
					emit("DecodeJSON[%d]=%s", i, okErr(err))
					if err == nil {
						own = append(own, cl)
						emit(" obs=%s", observe(cl).String())
					}
				}
			case c < 72 && len(s.toks) > 0:
				i := rng.Intn(len(s.toks))
				ev, err := psa.DecodeEvidenceFromCOSE(append([]byte{}, s.toks[i]...))
				emit("DecodeCOSE[%d]=%s", i, okErr(err))
				if err == nil {
					ownEv = append(ownEv, ev)
					emit(" verify=%s", okErr(ev.Verify(ks[s.tokKey[i]].pub)))
				}
			case c < 82 && len(own) > 0: // mutate and read an own object
				cl := own[rng.Intn(len(own))]
				_ = cl.SetClientID(int32(rng.Intn(100000)))
				_ = cl.SetNonce(fill(32, byte(rng.Intn(250))))
				op := Pick(rng, ops)
				emit("own.%s=%s", op.name, op.f(cl))
				// … and rewrite in place, with the values they hold, everything reachable from the goroutine's own
				// object through exported fields: no effect, unless "distinct" objects share memory
				touchExported(cl)
				if len(ownEv) > 0 {
					touchExported(ownEv[rng.Intn(len(ownEv))])
				}
			case c < 88 && len(own) > 0: // sign own claims, verify
				cl := own[rng.Intn(len(own))]
				k := ks[rng.Intn(2)]
				signer, _ := cose.NewSigner(k.algs[0], k.priv)
				ev := &psa.Evidence{}
				if ev.SetClaims(cl) == nil {
					_, err := ev.ValidateAndSign(signer)
					emit("own.Sign=%s verify=%s", okErr(err), okErr(ev.Verify(k.pub)))
				} else {
					ev.Claims = cl
					_, err := ev.Sign(signer)
					emit("own.SignUnvalidated=%s", okErr(err))
				}
			case c < 94: // the embedding-aware codec on a struct type nobody has used before this round
				v := reflect.New(s.synthT)
				for i := 0; i < s.synthT.NumField(); i++ {
					if rng.Bool() {
						x := int64(rng.Intn(1000))
						v.Elem().Field(i).Set(reflect.ValueOf(&x))
					}
				}
				b, err := encoding.SerializeStructToCBOR(extEM, v.Interface())
				w := reflect.New(s.synthT)
				perr := encoding.PopulateStructFromCBOR(extDM, b, w.Interface())
				jb, jerr := encoding.SerializeStructToJSON(v.Interface())
				jw := reflect.New(s.synthT)
				jperr := encoding.PopulateStructFromJSON(jb, jw.Interface())
				emit("synth=%s/%s/%v %s/%s/%v", okErr(err), okErr(perr), reflect.DeepEqual(v.Interface(), w.Interface()),
					okErr(jerr), okErr(jperr), reflect.DeepEqual(v.Interface(), jw.Interface()))
			default: // extension-profile claims through the embedding-aware codec
				e := s.ext[rng.Intn(2)]
				cl := e.GetClaims()
				_ = cl.SetImplID(fill(32, 7))
				b, err := psa.EncodeClaimsToCBOR(cl)
				jb, jerr := psa.EncodeClaimsToJSON(cl)
				emit("ext.Encode=%s/%s %s/%s", hx(b), okErr(err), jb, okErr(jerr))
			}
		})
		if pan {
			emit("PANIC:%v", what)
		}
	}
	return out
}

func runC17(r *Run, rng *Rng, thorough bool) {
	rounds := 5
	nOps := 150
	if thorough {
		rounds = 120
		nOps = 300
	}
	raceLog := os.Getenv("VERIF_RACE_LOG")
	for round := 0; round < rounds; round++ {
		G := []int{16, 32, 64}[round%3]
		seedBase := rng.U64()
		shSeed := rng.U64()
		var fails [][2]string
		var sharedLines [][2]string
		psa.VerifWithScratchRegistry(func() {
			s := buildShared(NewRng(shSeed), round)
			for _, e := range s.ext {
				_ = psa.RegisterProfile(e)
			}
			fieldBefore := make([]string, len(s.claims))
			for i, c := range s.claims {
				fieldBefore[i] = fieldSnap(c)
			}
			evBefore := make([]string, len(s.evs))
			for i, ev := range s.evs {
				b, _ := ev.VerifMessage().MarshalCBOR()
				evBefore[i] = hx(b) + "|" + fieldSnap(ev.Claims)
			}
			r.About(fmt.Sprintf("concurrent round=%d goroutines=%d seed=%d shared-seed=%d", round, G, seedBase, shSeed))
			// concurrent phase first: nothing of this round's types / objects has been touched sequentially
			conc := make([][]string, G)
			var wg sync.WaitGroup
			start := make(chan struct{})
			for g := 0; g < G; g++ {
				wg.Add(1)
				go func(g int) {
					defer wg.Done()
					<-start
					conc[g] = c17Thread(s, seedBase+uint64(g)*7919, nOps)
				}(g)
			}
			close(start)
			wg.Wait()
			// (b) shared objects unchanged
			for i, c := range s.claims {
				if now := fieldSnap(c); now != fieldBefore[i] {
					fails = append(fails, [2]string{"shared-object-changed", fmt.Sprintf("shared claims-set %d changed under concurrent read-only use:\n%s\n%s", i, fieldBefore[i], now)})
				}
			}
			for i, ev := range s.evs {
				b, _ := ev.VerifMessage().MarshalCBOR()
				if now := hx(b) + "|" + fieldSnap(ev.Claims); now != evBefore[i] {
					fails = append(fails, [2]string{"shared-object-changed", fmt.Sprintf("shared Evidence %d changed under concurrent read-only use", i)})
				}
			}
			// (c) the same programs, one after the other, on freshly built shared objects
			s2 := buildShared(NewRng(shSeed), round)
			for g := 0; g < G; g++ {
				seq := c17Thread(s2, seedBase+uint64(g)*7919, nOps)
				if len(seq) != len(conc[g]) {
					fails = append(fails, [2]string{"differs-from-sequential", fmt.Sprintf("goroutine %d produced %d results concurrently, %d sequentially", g, len(conc[g]), len(seq))})
					continue
				}
				for i := range seq {
					if seq[i] != conc[g][i] {
						fails = append(fails, [2]string{"differs-from-sequential", fmt.Sprintf("goroutine %d, result %d: concurrent %s, sequential %s", g, i, trunc(conc[g][i], 300), trunc(seq[i], 300))})
						break
					}
				}
				for _, l := range conc[g] {
					if strings.HasPrefix(l, "PANIC:") {
						fails = append(fails, [2]string{"panic", trunc(l, 300)})
						break
					}
				}
			}
			// (d) the model's view of the shared claims-sets after the concurrent phase
			for i, c := range s.claims {
				if hasBadUTF8(&s.descs[i]) {
					continue
				}
				sharedLines = append(sharedLines, [2]string{"obs " + s.descs[i].Line(), observe(c).String()})
			}
		})
		class := fmt.Sprintf("round/%d-goroutines", G)
		for _, l := range sharedLines {
			r.Case(class, false, l[0], l[1])
		}
		r.ImplOnly(class, false, fmt.Sprintf("concurrent round=%d goroutines=%d seed=%d shared-seed=%d ops=%d", round, G, seedBase, shSeed, nOps))
		for _, f := range fails {
			r.Fail(f[0], f[1])
		}
		// (a) race detector reports written so far
		if raceLog != "" {
			files, _ := filepath.Glob(raceLog + ".*")
			for _, f := range files {
				b, _ := os.ReadFile(f)
				if bytes.Contains(b, []byte("DATA RACE")) {
					r.Fail("data-race", raceSummary(string(b)))
					os.Remove(f)
				}
			}
		}
	}
	r.extra["race_detector"] = raceLog != ""
}

// raceSummary: the first report, reduced to its psatoken / encoding frames.
func raceSummary(s string) string {
	var keep []string
	for _, l := range strings.Split(s, "\n") {
		t := strings.TrimSpace(l)
		if strings.HasPrefix(t, "WARNING: DATA RACE") || strings.HasPrefix(t, "Write at") || strings.HasPrefix(t, "Read at") ||
			strings.HasPrefix(t, "Previous write") || strings.HasPrefix(t, "Previous read") ||
			strings.Contains(t, "psatoken") {
			keep = append(keep, t)
		}
		if len(keep) > 14 {
			break
		}
	}
	return strings.Join(keep, " | ")
}
