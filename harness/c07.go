package main

import (
	"fmt"
	"strings"

	psa "github.com/veraison/psatoken"
)

func init() { props["C07"] = runC07 }

type regSpec struct {
	extras []ExtProfile
}

func (rs regSpec) proto() string {
	// name~profName~jsonTag~kind entries of the whole register as the dispatcher sees it
	parts := []string{
		"~" + hx([]byte(psa.Profile1Name)) + "~" + hx([]byte("psa-profile")) + "~1",
		hx([]byte(psa.Profile1Name)) + "~" + hx([]byte(psa.Profile1Name)) + "~" + hx([]byte("psa-profile")) + "~1",
		hx([]byte(psa.Profile2Name)) + "~" + hx([]byte(psa.Profile2Name)) + "~" + hx([]byte("eat-profile")) + "~2",
	}
	for _, e := range rs.extras {
		tag := "eat-profile"
		if e.Base == 1 {
			tag = "psa-profile"
		}
		parts = append(parts, hx([]byte(e.Name))+"~"+hx([]byte(e.Name))+"~"+hx([]byte(tag))+"~x")
	}
	return strings.Join(parts, ";")
}

func (rs regSpec) registered(name string) (ExtProfile, bool) {
	for _, e := range rs.extras {
		if e.Name == name {
			return e, true
		}
	}
	return ExtProfile{}, false
}

// dispatchResult: what a decode call returned, reduced to what C07 talks about.
type dispatchResult struct {
	ok       bool
	typ      string
	profile  string
	profErr  error
	accepted bool
	panicked bool
}

func (d dispatchResult) String() string {
	if d.panicked {
		return "panic"
	}
	if !d.ok {
		return "err"
	}
	p := "profile=err"
	if d.profErr == nil {
		p = "profile=x" + hx([]byte(d.profile))
	}
	return fmt.Sprintf("ok type=%s %s accepted=%v", d.typ, p, d.accepted)
}

func dispatch(decode func() (psa.IClaims, error)) dispatchResult {
	var r dispatchResult
	var c psa.IClaims
	var err error
	if p, _ := safely(func() { c, err = decode() }); p {
		r.panicked = true
		return r
	}
	if err != nil || c == nil {
		return r
	}
	r.ok = true
	r.typ = fmt.Sprintf("%T", c)
	if p, _ := safely(func() {
		r.profile, r.profErr = c.GetProfile()
		r.accepted = c.Validate() == nil
	}); p {
		r.panicked = true
	}
	return r
}

func typeOfBase(base int, ext bool) string {
	switch {
	case ext && base == 1:
		return "*main.ExtP1Claims"
	case ext:
		return "*main.ExtP2Claims"
	case base == 1:
		return "*psatoken.P1Claims"
	}
	return "*psatoken.P2Claims"
}

func runC07(r *Run, rng *Rng, thorough bool) {
	rounds := 40
	if thorough {
		rounds = 400
	}
	for round := 0; round < rounds; round++ {
		nExtra := round % 4
		var rs regSpec
		for i := 0; i < nExtra; i++ {
			rs.extras = append(rs.extras, ExtProfile{Name: extName(round*10 + i), Base: 1 + (round+i)%2})
		}
		psa.VerifWithScratchRegistry(func() {
			for _, e := range rs.extras {
				if err := psa.RegisterProfile(e); err != nil {
					panic(err)
				}
			}
			// a registration that is refused (no identifiable profile field; a name already taken) registers nothing:
			// the names stay unregistered for NewClaims and for both decoders
			refused := fmt.Sprintf("http://example.com/psa/refused/%d", round)
			refusedErr := psa.RegisterProfile(NoTagProfile{Name: refused})
			_ = psa.RegisterProfile(ExtProfile{Name: psa.Profile2Name, Base: 1})
			regp := rs.proto()
			// NewClaims(p) reports p
			names := []string{psa.Profile1Name, psa.Profile2Name, "", "http://example.com/unregistered", "PSA_IOT_PROFILE_2", refused}
			if refusedErr == nil {
				r.ImplOnly("refused-registration", false, "register no-tag profile "+refused)
				r.Fail("unknown-profile-error", "RegisterProfile of a claims type without a profile field succeeded")
			}
			for _, e := range rs.extras {
				names = append(names, e.Name)
			}
			for _, n := range names {
				res := dispatch(func() (psa.IClaims, error) { return psa.NewClaims(n) })
				r.Case("new-claims", false, fmt.Sprintf("newclaims reg=%s name=x%s", regp, hx([]byte(n))), res.String())
				_, isExt := rs.registered(n)
				known := n == psa.Profile1Name || n == psa.Profile2Name || n == "" || isExt
				if res.ok != known {
					r.Fail("new-claims", fmt.Sprintf("NewClaims(%q) ok=%v, registered=%v", n, res.ok, known))
				} else if res.ok && n != "" && (res.profErr != nil || res.profile != n) {
					r.Fail("new-claims-reports", fmt.Sprintf("NewClaims(%q).GetProfile() = %q, %v", n, res.profile, res.profErr))
				}
			}
			// documents / items that are not a JSON object / CBOR map at all
			for _, j := range []*JTree{jN(), jA(), jI(1), jS("x"), {Kind: jBool, B: true}, jO()} {
				text := []byte(j.Text())
				jres := dispatch(func() (psa.IClaims, error) { return psa.DecodeClaimsFromJSON(append([]byte{}, text...)) })
				r.Case("json/non-object", false, fmt.Sprintf("dispatch-json reg=%s %s", regp, j.Proto()), jres.String())
				if j.Kind != jObj && jres.ok {
					r.Fail("non-object-accepted", "DecodeClaimsFromJSON accepts a document that is not an object: "+j.Text())
				}
			}
			for _, n := range []*Node{nNull(), nUndef(), nArr(), nUint(1), nTstr("x"), nSimple(21), nTag(55799, nMap()), nMap()} {
				buf := n.Bytes()
				cres := dispatch(func() (psa.IClaims, error) { return psa.DecodeClaimsFromCBOR(append([]byte{}, buf...)) })
				r.Case("cbor/non-map", false, fmt.Sprintf("dispatch-cbor reg=%s %s", regp, hx(buf)), cres.String())
				if n.Kind != kMap && cres.ok {
					r.Fail("non-map-accepted", "DecodeClaimsFromCBOR accepts an item that is not a map: "+n.String())
				}
			}
			// tokens: a valid base of each profile, the profile claim varied
			for p := 1; p <= 2; p++ {
				for rep := 0; rep < 3; rep++ {
					d := baseValid(rng, p)
					d.Canon = canonOf(p)
					d.Prof = sp(d.Canon)
					normalise(&d)
					tok := tokenOf(&d)
					doc := jsonOf(&d)
					type variant struct {
						class    string
						cborKey  int64 // key to set (0 = none)
						val      *Node // nil = delete
						jsonName string
						jval     *JTree // nil = delete
						declared string // "" = none declared; "?" = no verdict
					}
					profKey, otherKey := int64(-75000), int64(265)
					jn, jo := "psa-profile", "eat-profile"
					if p == 2 {
						profKey, otherKey = 265, -75000
						jn, jo = "eat-profile", "psa-profile"
					}
					vs := []variant{
						{"as-is", 0, nil, "", nil, d.Canon},
						{"profile-absent", profKey, nil, jn, nil, ""},
						{"profile-null", profKey, nNull(), jn, jN(), ""},
						{"profile-unknown", profKey, nTstr("http://example.com/unregistered"), jn, jS("http://example.com/unregistered"), "!unknown"},
						{"profile-refused-registration", profKey, nTstr(refused), jn, jS(refused), "!unknown"},
						{"profile-other", profKey, nTstr(canonOf(3 - p)), jn, jS(canonOf(3 - p)), "?"},
						{"other-key-too", otherKey, nTstr(canonOf(3 - p)), jo, jS(canonOf(3 - p)), "?"},
						{"other-key-null", otherKey, nNull(), jo, jN(), d.Canon},
						{"null+other-unknown", -1, nil, "", nil, "!unknown"},
						{"unknown+other-null", -2, nil, "", nil, "!unknown"},
						{"profile-empty-string", profKey, nTstr(""), jn, jS(""), "!unknown"},
						// JSON only: a profile member that is present with a value of another type declares something, and it is
						// not a registered name (an absent or null member is the only "no profile declared")
						{"other-key-number", 0, nil, jo, jI(2), "?"},
						{"other-key-bool", 0, nil, jo, &JTree{Kind: jBool, B: true}, "?"},
						{"other-key-array", 0, nil, jo, jA(jS(canonOf(3 - p))), "?"},
						{"other-key-object", 0, nil, jo, jO(), "?"},
						{"own-key-number", 0, nil, jn, jI(1), "?"},
						{"absent+other-number", -3, nil, "", nil, "!unknown"},
					}
					if p == 2 {
						for _, sp := range []string{"HTTP://arm.com/psa/2.0.0", "http://arm.com/psa/2.0.0#", "http://ARM.com/psa/2.0.0", "http://arm.com/psa/2.0.0/"} {
							vs = append(vs, variant{"profile-near-miss", profKey, nTstr(sp), jn, jS(sp), "!unknown"})
						}
					}
					for _, e := range rs.extras {
						// JSON: the value counts as declared only under the member name of the extension's own profile field
						d1, d2 := "?", "?"
						if e.Base == p {
							d1 = "?ext:" + e.Name
						}
						if p == 2 && e.Base == 2 {
							d2 = "?ext:" + e.Name
						}
						vs = append(vs, variant{"profile-extra", profKey, nTstr(e.Name), jn, jS(e.Name), d1})
						vs = append(vs, variant{"extra-under-265", 265, nTstr(e.Name), "eat-profile", jS(e.Name), d2})
					}
					for _, v := range vs {
						t := tok.clone()
						j := doc.clone()
						switch v.cborKey {
						case -1: // own profile member null, the other profile's member an unregistered value
							setKey(t, profKey, nNull())
							setKey(t, otherKey, nTstr("http://example.com/unregistered"))
							j.set(jn, jN())
							j.set(jo, jS("http://example.com/unregistered"))
						case -3: // own profile member absent, the other profile's member present with a number
							delKey(t, profKey)
							setKey(t, otherKey, nTstr("http://example.com/unregistered"))
							j.del(jn)
							j.set(jo, jI(2))
						case -2:
							setKey(t, profKey, nTstr("http://example.com/unregistered"))
							setKey(t, otherKey, nNull())
							j.set(jn, jS("http://example.com/unregistered"))
							j.set(jo, jN())
						}
						if v.cborKey != 0 && v.cborKey != -1 && v.cborKey != -2 && v.cborKey != -3 {
							if v.val == nil {
								delKey(t, v.cborKey)
							} else {
								setKey(t, v.cborKey, v.val.clone())
							}
						}
						if v.jsonName != "" {
							if v.jval == nil {
								j.del(v.jsonName)
							} else {
								j.set(v.jsonName, v.jval.clone())
							}
						}
						if rng.Bool() {
							shuffle(rng, t)
						}
						if rng.Chance(35) {
							// the dispatching key in a longer-than-necessary (still well-formed) integer encoding
							for _, pr := range t.Pairs {
								if pr[0].isInt(265) {
									pr[0].W = Pick(rng, []int{4, 8})
								}
							}
						}
						buf := t.Bytes()
						cres := dispatch(func() (psa.IClaims, error) { return psa.DecodeClaimsFromCBOR(append([]byte{}, buf...)) })
						r.Case(fmt.Sprintf("p%d/cbor/%s", p, v.class), false, fmt.Sprintf("dispatch-cbor reg=%s %s", regp, hx(buf)), cres.String())
						text := []byte(j.Text())
						jres := dispatch(func() (psa.IClaims, error) { return psa.DecodeClaimsFromJSON(append([]byte{}, text...)) })
						r.Case(fmt.Sprintf("p%d/json/%s", p, v.class), false, fmt.Sprintf("dispatch-json reg=%s %s", regp, j.Proto()), jres.String())
						// the same document with the profile name written with JSON string escapes declares the same profile
						if esc := strings.NewReplacer(`"http://arm.com/psa/2.0.0"`, `"http:\/\/arm.com\/psa\/2.0.0"`, `"PSA_IOT_PROFILE_1"`, `"PSA\u005fIOT_PROFILE_1"`,
							`"http://example.com/`, `"http:\/\/example.com\/`).Replace(string(text)); esc != string(text) {
							eres := dispatch(func() (psa.IClaims, error) { return psa.DecodeClaimsFromJSON([]byte(esc)) })
							r.ImplOnly(fmt.Sprintf("p%d/json-escaped/%s", p, v.class), true, "dispatch-json-escaped "+esc)
							if eres.String() != jres.String() {
								r.Fail("json-dispatch-order", fmt.Sprintf("json %s: the document with its profile name written with string escapes is dispatched differently: %s vs %s", v.class, eres, jres))
							}
						}
						c07Judge(r, rs, p, v.class, v.declared, "cbor", cres, t)
						c07Judge(r, rs, p, v.class, v.declared, "json", jres, nil)
						// the register is a Go map: repeat the JSON dispatch to cover its iteration orders
						for rep := 0; rep < 24; rep++ {
							again := dispatch(func() (psa.IClaims, error) { return psa.DecodeClaimsFromJSON(append([]byte{}, text...)) })
							if again.String() != jres.String() {
								r.Fail("json-dispatch-order", fmt.Sprintf("json %s: outcome differs between calls: %s vs %s", v.class, jres, again))
								break
							}
							if rep%8 == 0 {
								c07Judge(r, rs, p, v.class, v.declared, "json", again, nil)
							}
						}
						// profile 1 carries its profile claim under -75000: an accepted profile-1 token has none or the profile-1 name there
						if pv := lookupInt(t, -75000); cres.ok && cres.accepted && cres.typ == "*psatoken.P1Claims" && pv != nil && pv.Kind == kTstr && string(pv.B) != psa.Profile1Name {
							r.Fail("reports-declared", fmt.Sprintf("cbor %s: accepted as profile 1 although the token's profile claim is %q", v.class, string(pv.B)))
						}
					}
				}
			}
		})
	}
	renamedDispatch(r, rng, map[bool]int{false: 60, true: 1500}[thorough])
}

// c07Judge: the property's clauses on one decode result.
func c07Judge(r *Run, rs regSpec, p int, class, declared, ser string, res dispatchResult, t *Node) {
	if res.panicked {
		return
	}
	// in CBOR the dispatching claim is key 265 only: a profile-1 token never carries it, so
	// "declared" for CBOR is what sits under 265 (absent => profile 1)
	if ser == "cbor" && t != nil {
		pv := lookupInt(t, 265)
		switch {
		case pv == nil || pv.Kind == kSimple:
			declared = ""
		case pv.Kind == kTstr:
			s := string(pv.B)
			if s == psa.Profile1Name || s == psa.Profile2Name {
				declared = s
			} else if _, ok := rs.registered(s); ok {
				declared = "?ext:" + s
			} else {
				declared = "!unknown"
			}
		}
		if declared == psa.Profile2Name && p == 1 || strings.HasPrefix(declared, "?ext:") {
			// a profile-1 body under a profile-2 / extension declaration: decodes, validated under the declared rules
		}
	}
	switch {
	case declared == "?":
		return
	case declared == "!unknown":
		if res.ok {
			r.Fail("unknown-profile-error", fmt.Sprintf("%s %s: unregistered profile value decoded as %s", ser, class, res.typ))
		}
	case strings.HasPrefix(declared, "?ext:"):
		name := strings.TrimPrefix(declared, "?ext:")
		e, _ := rs.registered(name)
		if !res.ok {
			return // e.g. a text profile on the wire of an extension with other key conventions
		}
		if res.typ != typeOfBase(e.Base, true) {
			r.Fail("dispatch-type", fmt.Sprintf("%s %s: declared %q decoded as %s", ser, class, name, res.typ))
		}
		if res.accepted && (res.profErr != nil || res.profile != name) {
			r.Fail("reports-declared", fmt.Sprintf("%s %s: accepted token reports profile %q (%v), declared %q", ser, class, res.profile, res.profErr, name))
		}
	case declared == "":
		if !res.ok {
			r.Fail("no-profile-is-p1", fmt.Sprintf("%s %s: token without a profile claim is rejected by decoding", ser, class))
		} else if res.typ != "*psatoken.P1Claims" {
			r.Fail("no-profile-is-p1", fmt.Sprintf("%s %s: token without a profile claim decoded as %s", ser, class, res.typ))
		} else if res.accepted && res.profile != psa.Profile1Name {
			r.Fail("reports-declared", fmt.Sprintf("%s %s: accepted profile-less token reports %q", ser, class, res.profile))
		}
	default:
		want := "*psatoken.P1Claims"
		if declared == psa.Profile2Name {
			want = "*psatoken.P2Claims"
		}
		if !res.ok {
			r.Fail("dispatch-type", fmt.Sprintf("%s %s: token declaring %q is rejected by decoding", ser, class, declared))
		} else if res.typ != want {
			r.Fail("dispatch-type", fmt.Sprintf("%s %s: declared %q decoded as %s", ser, class, declared, res.typ))
		} else if res.accepted && (res.profErr != nil || res.profile != declared) {
			r.Fail("reports-declared", fmt.Sprintf("%s %s: accepted token reports %q (%v), declared %q", ser, class, res.profile, res.profErr, declared))
		}
	}
}
