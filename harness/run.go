package main

import (
	"bufio"
	"encoding/json"
	"fmt"
	"hash/fnv"
	"os"
	"path/filepath"
	"sort"
)

// Run collects the three output streams of one harness execution.
type Run struct {
	Prop, Tier string
	Seed       int64
	dir        string
	ops, impl  *bufio.Writer
	fo, fi     *os.File
	n          int
	hist       map[string]int
	samples    []string
	distinct   map[uint64]struct{}
	nontrivial map[uint64]struct{}
	Fails      []Fail
	Known      []Fail
	curOp      string
	curClass   string
	cur        *os.File // the operation about to run: survives a crash of this process
	extra      map[string]interface{}
}

type Fail struct {
	Case   int    `json:"case"`
	Class  string `json:"class"`
	Clause string `json:"clause"`
	Detail string `json:"detail"`
	Op     string `json:"op"`
	Sig    string `json:"signature,omitempty"`
}

func NewRun(prop, tier string, seed int64, dir string) (*Run, error) {
	if err := os.MkdirAll(dir, 0o755); err != nil {
		return nil, err
	}
	fo, err := os.Create(filepath.Join(dir, "ops.txt"))
	if err != nil {
		return nil, err
	}
	fi, err := os.Create(filepath.Join(dir, "impl.out"))
	if err != nil {
		return nil, err
	}
	r := &Run{Prop: prop, Tier: tier, Seed: seed, dir: dir, fo: fo, fi: fi,
		ops: bufio.NewWriterSize(fo, 1<<20), impl: bufio.NewWriterSize(fi, 1<<20),
		hist: map[string]int{}, distinct: map[uint64]struct{}{}, nontrivial: map[uint64]struct{}{},
		extra: map[string]interface{}{}}
	fmt.Fprintf(r.ops, "#psa-verif 1 prop=%s tier=%s seed=%d\n", prop, tier, seed)
	r.cur, _ = os.Create(filepath.Join(dir, "current.txt"))
	return r, nil
}

// Case records one operation and what the implementation did with it.
// class: generator class (for the histogram); trivial: all-valid / all-absent case.
func (r *Run) Case(class string, trivial bool, op, implResult string) int {
	r.n++
	r.curOp, r.curClass = op, class
	fmt.Fprintf(r.ops, "%d %s\n", r.n, op)
	fmt.Fprintf(r.impl, "%d %s\n", r.n, implResult)
	r.hist[class]++
	h := fnv.New64a()
	h.Write([]byte(op))
	k := h.Sum64()
	r.distinct[k] = struct{}{}
	if !trivial {
		r.nontrivial[k] = struct{}{}
	}
	if len(r.samples) < 12 && (r.n < 4 || r.hist[class] == 1) {
		s := op
		if len(s) > 400 {
			s = s[:400] + "…"
		}
		r.samples = append(r.samples, s+"  =>  "+trunc(implResult, 200))
	}
	return r.n
}

func trunc(s string, n int) string {
	if len(s) > n {
		return s[:n] + "…"
	}
	return s
}

// ImplOnly records a case that is not sent to the model (outside its domain):
// only the property oracle looks at it.
func (r *Run) ImplOnly(class string, trivial bool, op string) int {
	r.n++
	r.curOp, r.curClass = op, class
	r.hist[class+"(impl-only)"]++
	h := fnv.New64a()
	h.Write([]byte(op))
	k := h.Sum64()
	r.distinct[k] = struct{}{}
	if !trivial {
		r.nontrivial[k] = struct{}{}
	}
	return r.n
}

// About records the operation that is about to be executed against the implementation, so
// that a fatal error (out of memory, stack overflow) which kills this process still names it.
func (r *Run) About(op string) {
	if r.cur == nil {
		return
	}
	b := []byte(op + "\n")
	r.cur.WriteAt(b, 0)
	r.cur.Truncate(int64(len(b)))
}

// Fail records a violation of the property by the implementation on the current case.
func (r *Run) Fail(clause, detail string) {
	r.FailSig(clause, detail, "")
}

func (r *Run) FailSig(clause, detail, sig string) {
	if len(r.Fails) < 2000 {
		r.Fails = append(r.Fails, Fail{r.n, r.curClass, clause, trunc(detail, 600), trunc(r.curOp, 4000), sig})
	}
}

func (r *Run) Close() error {
	if r.cur != nil {
		r.cur.Close()
		os.Remove(filepath.Join(r.dir, "current.txt"))
	}
	r.ops.Flush()
	r.impl.Flush()
	r.fo.Close()
	r.fi.Close()
	classes := make([]string, 0, len(r.hist))
	for k := range r.hist {
		classes = append(classes, k)
	}
	sort.Strings(classes)
	st := map[string]interface{}{
		"prop": r.Prop, "tier": r.Tier, "seed": r.Seed,
		"evaluations": r.n, "distinct": len(r.distinct), "distinct_nontrivial": len(r.nontrivial),
		"histogram": r.hist, "samples": r.samples, "fails": r.Fails, "extra": r.extra,
	}
	b, _ := json.MarshalIndent(st, "", " ")
	return os.WriteFile(filepath.Join(r.dir, "stats.json"), b, 0o644)
}
