package main

// Checks of the extension-profile paths: claims types that embed P1Claims / P2Claims, are registered with
// RegisterProfile and encode through psatoken/encoding. The Lean model does not contain these user-defined types;
// the property oracles judge the implementation directly (cases are recorded as implementation-only).

import (
	"bytes"
	"fmt"
	"reflect"
	"unicode/utf8"

	"github.com/veraison/eat"
	cose "github.com/veraison/go-cose"
	psa "github.com/veraison/psatoken"
)

func p2Base(rng *Rng, canon string, valid bool) ClaimsDesc {
	for {
		d := baseValid(rng, 2)
		if !valid {
			devs := deviations(2, false)
			Pick(rng, devs).apply(&d)
		}
		d.Canon = canon
		d.Prof = sp(canon)
		normalise(&d)
		if hasBadUTF8(&d) || hasNilComp(&d) || d.ProfInvalid {
			continue
		}
		if conformant(&d) == valid {
			return d
		}
	}
}

func applyDesc(c psa.IClaims, d *ClaimsDesc) bool {
	for _, o := range historyOf(d) {
		if err := o.Apply(c); err != nil {
			return false
		}
	}
	return true
}

// extGates (C08): every validating entry point consults the claims-set's own Validate() — an extension's added rule
// included.
func extGates(r *Run, rng *Rng, n int) {
	signer, pub := c08Signer()
	name := extName(50)
	psa.VerifWithScratchRegistry(func() {
		if err := psa.RegisterProfile(StrictExtProfile{Name: name}); err != nil {
			panic(err)
		}
		for i := 0; i < n; i++ {
			d := p2Base(rng, name, true)
			c := StrictExtProfile{Name: name}.GetClaims().(*StrictExtClaims)
			if !applyDesc(c, &d) {
				continue
			}
			switch i % 4 {
			case 1:
				v := int64(rng.Intn(1000))
				c.Extra = &v
			case 2:
				v := int64(-1 - rng.Intn(1000))
				c.Extra = &v
			case 3:
				v := int64(0)
				c.Extra = &v
			}
			valid := c.Validate() == nil
			baseOK := psa.ValidateClaims(c) == nil
			r.ImplOnly("extension/strict-gates", false, fmt.Sprintf("strict-ext extra=%v valid=%v %s", c.Extra != nil, valid, d.Line()))
			if !baseOK {
				r.Fail("ext-setup", "base claims of the extension do not validate")
				continue
			}
			fail := func(gate string, ok bool) {
				if ok != valid {
					r.Fail("gate-iff-valid", fmt.Sprintf("extension profile with a rule of its own: %s ok=%v although Validate()==nil is %v", gate, ok, valid))
				}
			}
			ev := &psa.Evidence{}
			fail("SetClaims", ev.SetClaims(c) == nil)
			_, e1 := psa.ValidateAndEncodeClaimsToCBOR(c)
			fail("ValidateAndEncodeClaimsToCBOR", e1 == nil)
			_, e2 := psa.ValidateAndEncodeClaimsToJSON(c)
			fail("ValidateAndEncodeClaimsToJSON", e2 == nil)
			ev2 := &psa.Evidence{Claims: c}
			_, e3 := ev2.ValidateAndSign(signer)
			fail("ValidateAndSign", e3 == nil)
			// decode-and-validate on the unvalidated encodings
			if sb, err := psa.EncodeClaimsToCBOR(c); err == nil {
				_, e4 := psa.DecodeAndValidateClaimsFromCBOR(sb)
				fail("DecodeAndValidateClaimsFromCBOR", e4 == nil)
			}
			if sj, err := psa.EncodeClaimsToJSON(c); err == nil {
				_, e5 := psa.DecodeAndValidateClaimsFromJSON(sj)
				fail("DecodeAndValidateClaimsFromJSON", e5 == nil)
			}
			ev3 := &psa.Evidence{Claims: c}
			if tok, err := ev3.Sign(signer); err == nil {
				_, e6 := psa.DecodeAndValidateEvidenceFromCOSE(tok)
				fail("DecodeAndValidateEvidenceFromCOSE", e6 == nil)
				_ = pub
			}
		}
	})
}

// extValidate (C01): the shared validation walk treats "not in this profile" / "optional and absent" as absent whichever
// of the documented sentinels the extension's getter uses, and still applies every other rule.
func extValidate(r *Run, rng *Rng, n int) {
	for i := 0; i < n; i++ {
		valid := i%3 != 0
		d := p2Base(rng, canonOf(2), valid)
		d.VSI = nil
		normalise(&d)
		want := conformant(&d)
		c := &NoVsiExtClaims{}
		base := d.Build().(*psa.P2Claims)
		c.P2Claims = *base
		var err error
		pan, _ := safely(func() { err = c.Validate() })
		r.ImplOnly("extension/base-sentinels", false, "novsi-ext "+d.Line())
		if pan {
			r.Fail("validate-iff-conformant", "extension Validate() panicked")
			continue
		}
		if (err == nil) != want {
			r.Fail("validate-iff-conformant", fmt.Sprintf("extension whose getters report absence with ErrNotInProfile / a wrapped ErrMissingOptional: Validate()==nil is %v, conformant=%v (%v)", err == nil, want, err))
		}
	}
}

func extraString(c psa.IClaims) string {
	rv := reflect.ValueOf(c).Elem()
	out := ""
	for _, f := range []string{"Extra", "A", "B", "C"} {
		fv := rv.FieldByName(f)
		if !fv.IsValid() {
			continue
		}
		if fv.IsNil() {
			out += f + "=_ "
		} else {
			out += fmt.Sprintf("%s=%v ", f, fv.Elem().Interface())
		}
	}
	return out
}

type tagOrderProfile struct{ Name string }

func (p tagOrderProfile) GetName() string { return p.Name }
func (p tagOrderProfile) GetClaims() psa.IClaims {
	ep := eat.Profile{}
	if err := ep.Set(p.Name); err != nil {
		panic(err)
	}
	return &TagOrderExtClaims{P2Claims: psa.P2Claims{Profile: &ep, SwComponents: psa.VerifNewSwComponents(nil), CanonicalProfile: p.Name}}
}

// extClaimsSet: a valid claims-set of one of the registered extension profiles with its extra claims set to
// boundary values (absent, zero, extremes).
func extClaimsSet(rng *Rng, i int, exts []psa.IProfile) (psa.IClaims, ClaimsDesc, bool) {
	e := exts[i%len(exts)]
	c := e.GetClaims()
	base := 2
	switch c.(type) {
	case *ExtP1Claims:
		base = 1
	}
	d := baseValid(rng, base)
	d.Canon = e.GetName()
	d.Prof = sp(e.GetName())
	normalise(&d)
	if hasBadUTF8(&d) || (base == 1 && d.NoSw != nil) {
		return nil, d, false
	}
	if !applyDesc(c, &d) {
		return nil, d, false
	}
	ints := []int64{0, 1, -1, 23, 24, 1<<63 - 1, -(1 << 63)}
	pick := func() *int64 {
		if rng.Chance(30) {
			return nil
		}
		v := Pick(rng, ints)
		return &v
	}
	switch x := c.(type) {
	case *ExtP1Claims:
		x.Extra = pick()
	case *ExtP2Claims:
		x.Extra = pick()
	case *TagOrderExtClaims:
		x.A, x.C = pick(), pick()
		if rng.Chance(60) {
			s := Pick(rng, []string{"", "x", "héllo"})
			x.B = &s
		}
	}
	return c, d, true
}

func extProfiles() []psa.IProfile {
	return []psa.IProfile{ExtProfile{Name: extName(61), Base: 1}, ExtProfile{Name: extName(62), Base: 2}, tagOrderProfile{Name: extName(63)}}
}

// extSignRoundTrip (C03): sign -> decode -> verify binds exactly the validated claims, extra claims included.
func extSignRoundTrip(r *Run, rng *Rng, n int) {
	ks := keys()
	psa.VerifWithScratchRegistry(func() {
		exts := extProfiles()[1:] // a profile-1 based extension cannot be selected from CBOR (its profile claim is not eat_profile)
		for _, e := range exts {
			if err := psa.RegisterProfile(e); err != nil {
				panic(err)
			}
		}
		for i := 0; i < n; i++ {
			c, d, ok := extClaimsSet(rng, i, exts)
			if !ok {
				continue
			}
			k := ks[rng.Intn(len(ks))]
			alg := Pick(rng, k.algs)
			signer, _ := cose.NewSigner(alg, k.priv)
			r.ImplOnly("extension/sign-roundtrip", false, fmt.Sprintf("ext-sign %T %s alg=%v %s", c, extraString(c), alg, d.Line()))
			ev := &psa.Evidence{}
			if err := ev.SetClaims(c); err != nil {
				r.Fail("sign-valid", fmt.Sprintf("valid extension claims refused by SetClaims: %v", err))
				continue
			}
			tok, err := ev.ValidateAndSign(signer)
			if err != nil {
				r.Fail("sign-valid", fmt.Sprintf("ValidateAndSign of valid extension claims fails: %v", err))
				continue
			}
			want, _ := psa.ValidateAndEncodeClaimsToCBOR(c)
			if _, payload, _, _ := envelopeParts(tok); !bytes.Equal(payload, want) {
				r.Fail("payload-is-validated-encoding", "extension: the signed payload differs from ValidateAndEncodeClaimsToCBOR of the claims")
			}
			e2, err := psa.DecodeAndValidateEvidenceFromCOSE(tok)
			if err != nil {
				r.Fail("decode-issued", fmt.Sprintf("extension: the issued token does not decode and validate: %v", err))
				continue
			}
			if e2.Verify(k.pub) != nil {
				r.Fail("verify-issued", "extension: the issued token does not verify with the signing key")
			}
			if reflect.TypeOf(e2.Claims) != reflect.TypeOf(c) {
				r.Fail("claims-equal", fmt.Sprintf("extension: decoded as %T, signed %T", e2.Claims, c))
				continue
			}
			g1, g2 := gettersOnly(observe(c)), gettersOnly(observe(e2.Claims))
			if g1 != g2 || extraString(c) != extraString(e2.Claims) {
				r.Fail("claims-equal", fmt.Sprintf("extension: decoded claims differ from the signed ones: %s | %s  vs  %s | %s", g1, extraString(c), g2, extraString(e2.Claims)))
			}
		}
	})
}

// extWire (C10): the wire format of extension claims-sets: one definite map, the base profile's keys for the claims that
// are set plus the extension's own, nothing null for an absent optional claim, no key twice.
func extWire(r *Run, rng *Rng, n int) {
	exts := extProfiles()
	for i := 0; i < n; i++ {
		c, d, ok := extClaimsSet(rng, i, exts)
		if !ok {
			continue
		}
		b, err := psa.ValidateAndEncodeClaimsToCBOR(c)
		r.ImplOnly("extension/wire", false, fmt.Sprintf("ext-wire %T %s %s", c, extraString(c), d.Line()))
		if err != nil {
			r.Fail("encode-valid", fmt.Sprintf("valid extension claims-set does not encode: %v", err))
			continue
		}
		nd, rest, perr := parseNode(b, 0)
		if perr != nil || len(rest) != 0 || nd.Kind != kMap || nd.Indef {
			r.Fail("wire-format", fmt.Sprintf("extension: output is not one definite-length map: %x", b))
			continue
		}
		seen := map[string]bool{}
		extraKeys := map[int64]string{-75100: "Extra/A", -75101: "B", -75102: "C"}
		baseMap := &Node{Kind: kMap}
		rv := reflect.ValueOf(c).Elem()
		present := map[int64]bool{}
		for _, p := range nd.Pairs {
			ks := p[0].String()
			if seen[ks] {
				r.Fail("wire-format", "extension: key "+ks+" emitted twice")
			}
			seen[ks] = true
			if p[0].Kind != kUint && p[0].Kind != kNint {
				r.Fail("wire-format", "extension: non-integer key "+ks)
				continue
			}
			k, _ := keyInt(p[0])
			if _, isExtra := extraKeys[k]; isExtra {
				present[k] = true
				if p[1].Kind == kSimple {
					r.Fail("wire-format", fmt.Sprintf("extension: claim %d emitted as a simple value (null) instead of being omitted", k))
				}
				continue
			}
			baseMap.Pairs = append(baseMap.Pairs, p)
		}
		// extension claims present iff set
		for k, fields := range map[int64][]string{-75100: {"Extra", "A"}, -75101: {"B"}, -75102: {"C"}} {
			set, has := false, false
			for _, f := range fields {
				fv := rv.FieldByName(f)
				if fv.IsValid() {
					has = true
					set = set || !fv.IsNil()
				}
			}
			if has && set != present[k] {
				r.Fail("wire-format", fmt.Sprintf("extension: claim %d set=%v emitted=%v", k, set, present[k]))
			}
		}
		// the base part is the base profile's wire format
		if why := wireFormatOK(baseMap.Bytes(), &d); why != "" {
			r.Fail("wire-format", "extension, base claims: "+why)
		}
	}
	// an extension that re-declares a key of its base profile: refused, or at least never a key twice
	for i := 0; i < 4; i++ {
		d := p2Base(rng, canonOf(2), true)
		c := &ClashExtClaims{}
		c.P2Claims = *(d.Build().(*psa.P2Claims))
		if i%2 == 0 {
			c.MyVSI = sp("mine")
		}
		if i < 2 {
			c.VSI = sp("base")
		} else {
			c.VSI = nil
		}
		b, err := psa.EncodeClaimsToCBOR(c)
		r.ImplOnly("extension/key-clash", false, fmt.Sprintf("ext-clash mine=%v base=%v", c.MyVSI != nil, c.VSI != nil))
		if err != nil {
			continue
		}
		nd, rest, perr := parseNode(b, 0)
		if perr != nil || len(rest) != 0 || nd.Kind != kMap {
			r.Fail("wire-format", fmt.Sprintf("extension re-declaring key 2400: output is not one well-formed map: %x", b))
			continue
		}
		seen := map[string]bool{}
		for _, p := range nd.Pairs {
			if seen[p[0].String()] {
				r.Fail("wire-format", "extension re-declaring key 2400: the key is emitted twice")
			}
			seen[p[0].String()] = true
		}
	}
}

// extJSON (C12): the JSON form of extension claims-sets: members for exactly the claims that are set, the extension's
// own included (a claim holding its type's zero value is present, not absent); decode(encode) gives the same claims;
// CBOR -> claims -> JSON -> claims -> CBOR reproduces the bytes.
func extJSON(r *Run, rng *Rng, n int) {
	jsonNames := map[string][]string{"ext-extra": {"Extra"}, "ext-a": {"A"}, "ext-b": {"B"}, "ext-c": {"C"}}
	psa.VerifWithScratchRegistry(func() {
		exts := extProfiles()
		for _, e := range exts {
			if err := psa.RegisterProfile(e); err != nil {
				panic(err)
			}
		}
		for i := 0; i < n; i++ {
			c, d, ok := extClaimsSet(rng, i, exts)
			if !ok {
				continue
			}
			r.ImplOnly("extension/json", false, fmt.Sprintf("ext-json %T %s %s", c, extraString(c), d.Line()))
			j, err := psa.ValidateAndEncodeClaimsToJSON(c)
			if err != nil {
				r.Fail("json-encode-valid", fmt.Sprintf("valid extension claims-set does not encode to JSON: %v", err))
				continue
			}
			tree, perr := parseJSONText(j)
			if perr != nil || tree.Kind != jObj {
				r.Fail("json-well-formed", fmt.Sprintf("extension: emitted JSON is not one object: %s", j))
				continue
			}
			rv := reflect.ValueOf(c).Elem()
			seen := map[string]bool{}
			for _, m := range tree.Mem {
				if seen[m.Name] {
					r.Fail("json-shape", "extension: member "+m.Name+" emitted twice")
				}
				seen[m.Name] = true
			}
			for name, fields := range jsonNames {
				for _, f := range fields {
					fv := rv.FieldByName(f)
					if !fv.IsValid() {
						continue
					}
					if fv.IsNil() == seen[name] {
						r.Fail("json-shape", fmt.Sprintf("extension: claim %s set=%v but member present=%v in %s", name, !fv.IsNil(), seen[name], trunc(string(j), 200)))
					}
				}
			}
			c2, err := psa.DecodeAndValidateClaimsFromJSON(j)
			if err != nil {
				r.Fail("json-roundtrip", fmt.Sprintf("extension: the library's own JSON is rejected: %v", err))
				continue
			}
			if reflect.TypeOf(c2) != reflect.TypeOf(c) || gettersOnly(observe(c)) != gettersOnly(observe(c2)) || extraString(c) != extraString(c2) {
				r.Fail("json-roundtrip", fmt.Sprintf("extension: claims differ after JSON round trip: %T %s vs %T %s", c, extraString(c), c2, extraString(c2)))
			}
			// CBOR -> claims -> JSON -> claims -> CBOR
			b, err := psa.EncodeClaimsToCBOR(c)
			if err != nil {
				continue
			}
			c1 := exts[i%len(exts)].GetClaims()
			if err := extDM.Unmarshal(b, c1); err != nil {
				r.Fail("cbor-json-cbor", fmt.Sprintf("extension: own CBOR rejected: %v", err))
				continue
			}
			j1, err := psa.EncodeClaimsToJSON(c1)
			if err != nil {
				r.Fail("cbor-json-cbor", fmt.Sprintf("extension: decoded claims do not encode to JSON: %v", err))
				continue
			}
			c3, err := psa.DecodeClaimsFromJSON(j1)
			if err != nil {
				r.Fail("cbor-json-cbor", fmt.Sprintf("extension: CBOR->claims->JSON rejected by the JSON decoder: %v", err))
				continue
			}
			if b3, err := psa.EncodeClaimsToCBOR(c3); err != nil || !bytes.Equal(b, b3) {
				r.Fail("cbor-json-cbor", fmt.Sprintf("extension: CBOR->claims->JSON->claims->CBOR differs: %x vs %x (err %v)", b, b3, err))
			}
		}
	})
}

// renamedRoundTrips (C09): the built-in claims types under a registered name of their own: decode(encode) keeps every
// getter result (the profile's included), the verdict, and the bytes.
func renamedRoundTrips(r *Run, rng *Rng, n int) {
	psa.VerifWithScratchRegistry(func() {
		profs := []RenamedProfile{{Name: extName(71), Base: 2}, {Name: "PSA_IOT_PROFILE_1_RENAMED", Base: 1, WithClaim: true}, {Name: "PSA_IOT_PROFILE_1_BARE", Base: 1}}
		for _, p := range profs {
			if err := psa.RegisterProfile(p); err != nil {
				panic(err)
			}
		}
		for i := 0; i < n; i++ {
			p := profs[i%len(profs)]
			d := baseValid(rng, p.Base)
			d.Canon = p.Name
			d.Prof = nil
			if p.Base == 2 || p.WithClaim {
				d.Prof = sp(p.Name)
			}
			normalise(&d)
			if hasBadUTF8(&d) {
				continue
			}
			c := p.GetClaims()
			if !applyDesc(c, &d) {
				r.Fail("setter-valid", "a valid value is refused by a setter of a renamed built-in profile")
				continue
			}
			r.ImplOnly(fmt.Sprintf("renamed/base%d", p.Base), false, fmt.Sprintf("renamed base=%d claim=%v %s", p.Base, p.WithClaim, d.Line()))
			if err := c.Validate(); err != nil {
				r.Fail("renamed-valid", fmt.Sprintf("valid claims-set of a renamed built-in profile does not validate: %v", err))
				continue
			}
			b, err := psa.ValidateAndEncodeClaimsToCBOR(c)
			if err != nil {
				r.Fail("encode-valid", fmt.Sprintf("renamed profile: valid claims-set does not encode: %v", err))
				continue
			}
			var c2 psa.IClaims
			if p.Base == 2 {
				c2, err = psa.DecodeClaimsFromCBOR(append([]byte{}, b...)) // dispatched on key 265
			} else {
				c2 = p.GetClaims() // CBOR dispatch cannot select a profile-1 based profile: through its own claims object
				err = extDM.Unmarshal(b, c2)
			}
			if err != nil {
				r.Fail("decode-own-encoding", fmt.Sprintf("renamed profile: own encoding rejected: %v", err))
				continue
			}
			o1, o2 := observe(c), observe(c2)
			if o1.String() != o2.String() {
				r.Fail("roundtrip-getters", fmt.Sprintf("renamed profile: results differ after decode(encode):\n before: %s\n after:  %s", trunc(o1.String(), 300), trunc(o2.String(), 300)))
			}
			if b2, err := psa.EncodeClaimsToCBOR(c2); err != nil || !bytes.Equal(b, b2) {
				r.Fail("roundtrip-bytes", fmt.Sprintf("renamed profile: re-encoding differs: %x vs %x (%v)", b, b2, err))
			}
		}
	})
}

// renamedDispatch (C07): NewClaims and both dispatchers on built-in claims types registered under names of their own.
func renamedDispatch(r *Run, rng *Rng, n int) {
	psa.VerifWithScratchRegistry(func() {
		profs := []RenamedProfile{{Name: extName(72), Base: 2}, {Name: "PSA_IOT_PROFILE_1_RENAMED", Base: 1, WithClaim: true}, {Name: "PSA_IOT_PROFILE_1_BARE", Base: 1}}
		for _, p := range profs {
			if err := psa.RegisterProfile(p); err != nil {
				panic(err)
			}
		}
		for i := 0; i < n; i++ {
			p := profs[i%len(profs)]
			r.ImplOnly(fmt.Sprintf("renamed-dispatch/base%d", p.Base), i >= len(profs)*2, fmt.Sprintf("renamed-dispatch base=%d claim=%v", p.Base, p.WithClaim))
			c, err := psa.NewClaims(p.Name)
			if err != nil {
				r.Fail("new-claims", fmt.Sprintf("NewClaims(%q) of a registered profile fails: %v", p.Name, err))
				continue
			}
			if got, gerr := c.GetProfile(); gerr != nil || got != p.Name {
				r.Fail("new-claims-reports", fmt.Sprintf("NewClaims(%q).GetProfile() = %q, %v", p.Name, got, gerr))
			}
			// a valid token declaring that profile is decoded under it and reports it
			d := baseValid(rng, p.Base)
			d.Canon, d.Prof = p.Name, sp(p.Name)
			normalise(&d)
			if hasBadUTF8(&d) {
				continue
			}
			src := RenamedProfile{Name: p.Name, Base: p.Base, WithClaim: true}.GetClaims()
			if !applyDesc(src, &d) {
				continue
			}
			j, err := psa.ValidateAndEncodeClaimsToJSON(src)
			if err != nil {
				r.Fail("encode-valid", fmt.Sprintf("renamed profile: %v", err))
				continue
			}
			cj, err := psa.DecodeAndValidateClaimsFromJSON(j)
			if err != nil {
				r.Fail("declared-profile", fmt.Sprintf("a valid JSON token declaring the registered profile %q is refused: %v", p.Name, err))
			} else if got, gerr := cj.GetProfile(); gerr != nil || got != p.Name {
				r.Fail("accepted-reports-declared", fmt.Sprintf("JSON token declaring %q: decoded claims report %q, %v", p.Name, got, gerr))
			}
			if p.Base == 2 {
				b, _ := psa.ValidateAndEncodeClaimsToCBOR(src)
				cb, err := psa.DecodeAndValidateClaimsFromCBOR(b)
				if err != nil {
					r.Fail("declared-profile", fmt.Sprintf("a valid CBOR token declaring the registered profile %q is refused: %v", p.Name, err))
				} else if got, gerr := cb.GetProfile(); gerr != nil || got != p.Name {
					r.Fail("accepted-reports-declared", fmt.Sprintf("CBOR token declaring %q: decoded claims report %q, %v", p.Name, got, gerr))
				}
			}
		}
	})
}

// componentCopies (C10, C11): a software component is a value; a copy of one (a := tmpl) is another component. Setting a
// field of the copy changes what the copy emits, and nothing of what the template or other copies emit.
func componentCopies(r *Run, rng *Rng, n int) {
	compObs := func(c *psa.SwComponent) string {
		mt, e1 := c.GetMeasurementType()
		mv, e2 := c.GetMeasurementValue()
		ve, e3 := c.GetVersion()
		si, e4 := c.GetSignerID()
		md, e5 := c.GetMeasurementDesc()
		return fmt.Sprintf("%q/%v %x/%v %q/%v %x/%v %q/%v", mt, e1 != nil, mv, e2 != nil, ve, e3 != nil, si, e4 != nil, md, e5 != nil)
	}
	for i := 0; i < n; i++ {
		p := 1 + i%2
		tmpl := psa.SwComponent{}
		_ = tmpl.SetMeasurementValue(fill(32, byte(1+rng.Intn(200))))
		_ = tmpl.SetSignerID(fill(Pick(rng, []int{32, 48, 64}), byte(1+rng.Intn(200))))
		if rng.Chance(70) {
			_ = tmpl.SetVersion("1.2.0")
		}
		if rng.Chance(70) {
			_ = tmpl.SetMeasurementType("BL")
		}
		if rng.Chance(70) {
			_ = tmpl.SetMeasurementDesc("sha-256")
		}
		a, b := tmpl, tmpl
		tBefore, bBefore := compObs(&tmpl), compObs(&b)
		what := rng.Intn(5)
		var err error
		switch what {
		case 0:
			err = a.SetVersion("3.4.5")
		case 1:
			err = a.SetMeasurementType("M1")
		case 2:
			err = a.SetMeasurementDesc("other")
		case 3:
			err = a.SetMeasurementValue(fill(48, 0xee))
		default:
			err = a.SetSignerID(fill(32, 0xdd))
		}
		r.ImplOnly(fmt.Sprintf("component-copies/p%d", p), false, fmt.Sprintf("component-copies p=%d setter=%d tmpl=%s", p, what, tBefore))
		if err != nil {
			r.Fail("setter-valid", fmt.Sprintf("component setter %d refuses a valid value: %v", what, err))
			continue
		}
		if compObs(&tmpl) != tBefore || compObs(&b) != bBefore {
			r.Fail("set-frame", fmt.Sprintf("setting field %d of a copy of a component changed the template or a sibling copy: template %s -> %s", what, tBefore, compObs(&tmpl)))
		}
		// both copies in one claims-set: each emits its own values
		d := baseValid(rng, p)
		d.Canon, d.Prof = canonOf(p), sp(canonOf(p))
		d.NoSw, d.SwKind = nil, SwList
		d.Sw = []CompDesc{validComp(rng)}
		normalise(&d)
		if hasBadUTF8(&d) {
			continue
		}
		c, _ := psa.NewClaims(canonOf(p))
		if !applyDesc(c, &d) {
			continue
		}
		if err := c.SetSoftwareComponents([]psa.ISwComponent{&a, &b}); err != nil {
			r.Fail("setter-valid", fmt.Sprintf("two valid components refused: %v", err))
			continue
		}
		enc, err := psa.ValidateAndEncodeClaimsToCBOR(c)
		if err != nil {
			r.Fail("encode-valid", fmt.Sprintf("claims-set with two component copies does not encode: %v", err))
			continue
		}
		dec, err := psa.DecodeAndValidateClaimsFromCBOR(enc)
		if err != nil {
			r.Fail("decode-own-encoding", fmt.Sprintf("%v", err))
			continue
		}
		got, _ := dec.GetSoftwareComponents()
		if len(got) != 2 {
			r.Fail("wire-format", fmt.Sprintf("two components set, %d emitted", len(got)))
			continue
		}
		ga, gb := got[0].(*psa.SwComponent), got[1].(*psa.SwComponent)
		if compObs(ga) != compObs(&a) || compObs(gb) != bBefore {
			r.Fail("wire-format", fmt.Sprintf("components emitted with values other than the ones held: first %s (holds %s), second %s (holds %s)", compObs(ga), compObs(&a), compObs(gb), bBefore))
		}
	}
}

// heldOutputs: what an encoder returned belongs to the caller. Each output is kept as returned, next to a private copy
// taken at once; after later calls of the same (or any other) encoder the two must still be equal.
type heldOutputs struct {
	kept, copies [][]byte
	what         []string
}

func (h *heldOutputs) add(what string, b []byte) {
	if b == nil {
		return
	}
	h.kept = append(h.kept, b)
	h.copies = append(h.copies, append([]byte{}, b...))
	h.what = append(h.what, what)
	if len(h.kept) > 6 {
		h.kept, h.copies, h.what = h.kept[1:], h.copies[1:], h.what[1:]
	}
}

// check reports the first held output that a later call has overwritten.
func (h *heldOutputs) check() string {
	for i := range h.kept {
		if !bytes.Equal(h.kept[i], h.copies[i]) {
			return fmt.Sprintf("the bytes returned by an earlier %s changed after a later encoding call (%d bytes; first difference at %d)", h.what[i], len(h.kept[i]), firstDiff(h.kept[i], h.copies[i]))
		}
	}
	return ""
}

func firstDiff(a, b []byte) int {
	for i := 0; i < len(a) && i < len(b); i++ {
		if a[i] != b[i] {
			return i
		}
	}
	return len(a)
}

// signThenSignElsewhere (C03): an Evidence that signed keeps verifying, and its token keeps decoding, whatever is
// encoded or signed afterwards elsewhere.
func signThenSignElsewhere(r *Run, rng *Rng, n int) {
	ks := keys()
	for i := 0; i < n; i++ {
		k := ks[rng.Intn(6)]
		signer, _ := cose.NewSigner(k.algs[0], k.priv)
		da, db := c19Claims(rng, true), c19Claims(rng, true)
		evA, evB := &psa.Evidence{}, &psa.Evidence{}
		if evA.SetClaims(da.Build()) != nil || evB.SetClaims(db.Build()) != nil {
			continue
		}
		r.ImplOnly("two-evidences", false, fmt.Sprintf("two-evidences key=%d", k.id))
		tokA, err := evA.ValidateAndSign(signer)
		if err != nil {
			r.Fail("sign-valid", fmt.Sprintf("ValidateAndSign of valid claims fails: %v", err))
			continue
		}
		tokACopy := append([]byte{}, tokA...)
		// elsewhere: another Evidence signs, other claims are encoded
		_, _ = evB.ValidateAndSign(signer)
		_, _ = psa.ValidateAndEncodeClaimsToCBOR(db.Build())
		_, _ = psa.EncodeClaimsToJSON(db.Build())
		if err := evA.Verify(k.pub); err != nil {
			r.Fail("verify-issued", fmt.Sprintf("the signing Evidence no longer verifies after other claims were encoded and signed elsewhere: %v", err))
		}
		if !bytes.Equal(tokA, tokACopy) {
			r.Fail("verify-issued", "the token returned by ValidateAndSign changed after a later call")
		}
		if e2, err := psa.DecodeAndValidateEvidenceFromCOSE(tokA); err != nil || e2.Verify(k.pub) != nil {
			r.Fail("decode-issued", fmt.Sprintf("the issued token no longer decodes and verifies after later calls: %v", err))
		}
		// the payload signed is the encoding of the claims as they are at the time of signing: a setter called on the
		// attached object after SetClaims counts
		dc := c19Claims(rng, true)
		c := dc.Build()
		evC := &psa.Evidence{}
		if evC.SetClaims(c) != nil {
			continue
		}
		nonce := fill(32, byte(1+rng.Intn(250)))
		if c.SetNonce(nonce) != nil || c.SetClientID(int32(rng.Intn(1000))) != nil {
			continue
		}
		tokC, err := evC.ValidateAndSign(signer)
		if err != nil {
			r.Fail("sign-valid", fmt.Sprintf("ValidateAndSign after a setter on the attached claims fails: %v", err))
			continue
		}
		want, _ := psa.ValidateAndEncodeClaimsToCBOR(c)
		if _, payload, _, ok := envelopeParts(tokC); !ok || !bytes.Equal(payload, want) {
			r.Fail("payload-is-validated-encoding", "after SetClaims and a later setter call on the attached claims, the signed payload is not the encoding of the claims as they now are")
		}
	}
}

// revalidate (C01): the verdict depends on what the claims-set holds now, not on what it held when it was last
// validated: a component changed in place through the pointer the getter hands out, or a second token decoded into the
// same object, is seen by the next Validate().
func revalidate(r *Run, rng *Rng, n int) {
	for i := 0; i < n; i++ {
		p := 1 + i%2
		d := baseValid(rng, p)
		d.Canon, d.Prof = canonOf(p), sp(canonOf(p))
		d.NoSw, d.SwKind = nil, SwList
		d.Sw = []CompDesc{validComp(rng), validComp(rng)}
		normalise(&d)
		if hasBadUTF8(&d) || !conformant(&d) {
			continue
		}
		r.ImplOnly(fmt.Sprintf("revalidate/p%d", p), false, fmt.Sprintf("revalidate %d %s", i%4, d.Line()))
		var c psa.IClaims
		if i%4 < 2 {
			c, _ = psa.NewClaims(canonOf(p))
			if !applyDesc(c, &d) {
				continue
			}
		} else {
			c, _ = psa.DecodeClaimsFromCBOR(tokenOf(&d).Bytes())
		}
		if c == nil || c.Validate() != nil {
			r.Fail("validate-iff-conformant", "a conformant claims-set does not validate")
			continue
		}
		comps, err := c.GetSoftwareComponents()
		if err != nil || len(comps) != 2 {
			continue
		}
		switch i % 2 {
		case 0:
			// a component made malformed in place
			short := fill(31, 9)
			comps[1].(*psa.SwComponent).MeasurementValue = &short
			if c.Validate() == nil {
				r.Fail("validate-iff-conformant", "a component was given a 31-byte measurement value in place (through the pointer GetSoftwareComponents returned) and the claims-set still validates")
			}
			if _, gerr := c.GetSoftwareComponents(); gerr == nil {
				r.Fail("getters-after-validate", "GetSoftwareComponents succeeds on a list holding a component with a 31-byte measurement value")
			}
		default:
			// a second token, with a malformed component, decoded into the same object
			bad := d
			bad.Sw = []CompDesc{validComp(rng), {MV: bp(fill(31, 9)), SID: bp(fill(32, 1))}}
			tok := tokenOf(&bad).Bytes()
			var derr error
			switch x := c.(type) {
			case *psa.P1Claims:
				if i%4 == 1 {
					derr = x.UnmarshalJSON([]byte(jsonOf(&bad).Text()))
				} else {
					derr = x.UnmarshalCBOR(tok)
				}
			case *psa.P2Claims:
				if i%4 == 1 {
					derr = x.UnmarshalJSON([]byte(jsonOf(&bad).Text()))
				} else {
					derr = x.UnmarshalCBOR(tok)
				}
			}
			if derr == nil && c.Validate() == nil {
				r.Fail("validate-iff-conformant", "a token with a malformed component was decoded into a claims-set that had validated before, and it still validates")
			}
		}
	}
}

// decodedThenChanged (C09, C12): a decoded claims-set is an ordinary claims-set. After a component is changed through
// the pointer the getter hands out, or the buffer it was decoded from is overwritten, encoding gives the claims as they
// now are; an Evidence renders the claims it holds now, not the ones it held when it was last rendered.
func decodedThenChanged(r *Run, rng *Rng, n int) {
	for i := 0; i < n; i++ {
		p := 1 + i%2
		d := baseValid(rng, p)
		d.Canon, d.Prof = canonOf(p), sp(canonOf(p))
		d.NoSw, d.SwKind = nil, SwList
		d.Sw = []CompDesc{validComp(rng), validComp(rng)}
		normalise(&d)
		if hasBadUTF8(&d) || !conformant(&d) {
			continue
		}
		r.ImplOnly(fmt.Sprintf("decoded-then-changed/p%d", p), false, "decoded-then-changed "+d.Line())
		buf := tokenOf(&d).Bytes()
		c, err := psa.DecodeClaimsFromCBOR(buf)
		if err != nil {
			continue
		}
		// the input buffer is the caller's again once the decoder has returned
		for k := range buf {
			buf[k] = 0xff
		}
		enc0, err := psa.ValidateAndEncodeClaimsToCBOR(c)
		if err != nil || !bytes.Equal(enc0, tokenOf(&d).Bytes()) {
			r.Fail("roundtrip-bytes", fmt.Sprintf("after the input buffer was overwritten, the decoded claims-set encodes to something else than the token it was decoded from (%v)", err))
			continue
		}
		comps, err := c.GetSoftwareComponents()
		if err != nil || len(comps) != 2 {
			continue
		}
		newMV := fill(48, byte(1+rng.Intn(250)))
		if comps[0].(*psa.SwComponent).SetMeasurementValue(newMV) != nil || comps[1].(*psa.SwComponent).SetVersion("9.9.9") != nil {
			continue
		}
		want := d
		want.Sw = []CompDesc{d.Sw[0], d.Sw[1]}
		want.Sw[0].MV = bp(newMV)
		want.Sw[1].Ver = bp([]byte("9.9.9"))
		enc1, err := psa.ValidateAndEncodeClaimsToCBOR(c)
		if err != nil || !bytes.Equal(enc1, tokenOf(&want).Bytes()) {
			r.Fail("roundtrip-getters", "a component of a decoded claims-set was changed through its setters; the encoding does not carry the new values")
		}
		c2, err := psa.DecodeClaimsFromCBOR(enc1)
		if err != nil || gettersOnly(observe(c2)) != gettersOnly(observe(c)) {
			r.Fail("roundtrip-getters", "decode(encode(x)) differs from x after a component of the decoded x was changed in place")
		}
		j1, err := psa.ValidateAndEncodeClaimsToJSON(c)
		if jt, perr := parseJSONText(j1); err != nil || perr != nil || sortedMembers(jt) != sortedMembers(jsonOf(&want)) {
			r.Fail("json-shape", "a component of a decoded claims-set was changed through its setters; the JSON does not carry the new values")
		}
		// Evidence.MarshalJSON follows the attached claims
		ev := &psa.Evidence{}
		if ev.SetClaims(c) != nil {
			continue
		}
		before, _ := ev.MarshalJSON()
		_ = c.SetClientID(int32(-1 - rng.Intn(1000)))
		after, _ := ev.MarshalJSON()
		now, _ := psa.EncodeClaimsToJSON(c)
		ta, e1 := parseJSONText(after)
		tn, e2 := parseJSONText(now)
		if e1 != nil || e2 != nil || sortedMembers(ta) != sortedMembers(tn) {
			r.Fail("json-shape", fmt.Sprintf("Evidence.MarshalJSON after a setter on the attached claims renders %s, the claims are %s (before the setter: %s)", trunc(string(after), 120), trunc(string(now), 120), trunc(string(before), 60)))
		}
	}
}

// illFormedTextNeverEmitted (C10): a token whose text claim is not valid UTF-8 is refused by the decoder; should a
// decoder ever let one through, what the validating encoder then emits must still be well-formed CBOR text.
func illFormedTextNeverEmitted(r *Run, rng *Rng, n int) {
	var walk func(nd *Node) bool
	walk = func(nd *Node) bool {
		if nd.Kind == kTstr && !utf8.Valid(nd.B) {
			return false
		}
		for _, k := range nd.Kids {
			if !walk(k) {
				return false
			}
		}
		for _, pr := range nd.Pairs {
			if !walk(pr[0]) || !walk(pr[1]) {
				return false
			}
		}
		return true
	}
	for i := 0; i < n; i++ {
		p := 1 + i%2
		d := baseValid(rng, p)
		d.Canon, d.Prof = canonOf(p), sp(canonOf(p))
		normalise(&d)
		if hasBadUTF8(&d) || !conformant(&d) {
			continue
		}
		bad := Pick(rng, badUTF8)
		switch {
		case i%3 == 0 || len(d.Sw) == 0:
			d.VSI = sp(bad)
		case i%3 == 1:
			d.Sw[0].MD = bp([]byte(bad))
		default:
			d.Sw[0].Ver = bp([]byte(bad))
		}
		tok := tokenOf(&d).Bytes()
		r.ImplOnly(fmt.Sprintf("ill-formed-text/p%d", p), false, "ill-formed-text "+hx(tok))
		c, err := psa.DecodeAndValidateClaimsFromCBOR(tok)
		if err != nil {
			continue
		}
		out, err := psa.ValidateAndEncodeClaimsToCBOR(c)
		if err != nil {
			continue
		}
		if nd, _, perr := parseNode(out, 0); perr != nil || !walk(nd) {
			r.Fail("wire-format", fmt.Sprintf("a token carrying text that is not valid UTF-8 was accepted and is re-emitted with that text: %x", out))
		}
	}
}
