package main

// Keys that are *related* to the signer's key without being it (C02, implementation only — the model's keys are
// opaque identities): for an elliptic-curve key the point with the other Y of the same X, the neighbouring X; for RSA
// the same modulus with another exponent and a neighbouring modulus; for Ed25519 the key with one bit changed. A
// verification with any of them must fail, before and after the genuine key has been used (a verifier that caches or
// compares keys by a lossy digest of them accepts a relative), and the genuine key must still verify afterwards.

import (
	"crypto"
	"crypto/ecdsa"
	"crypto/ed25519"
	"crypto/rsa"
	"fmt"
	"math/big"

	psa "github.com/veraison/psatoken"
)

func relativesOf(pub crypto.PublicKey) (out []crypto.PublicKey, names []string) {
	switch k := pub.(type) {
	case *ecdsa.PublicKey:
		p := k.Curve.Params().P
		out = append(out, &ecdsa.PublicKey{Curve: k.Curve, X: new(big.Int).Set(k.X), Y: new(big.Int).Sub(p, k.Y)})
		names = append(names, "same X, other Y")
		// another point sharing the low bytes of X is not easily found; the point 2P stands for "any other point"
		x2, y2 := k.Curve.Double(k.X, k.Y)
		out = append(out, &ecdsa.PublicKey{Curve: k.Curve, X: x2, Y: y2})
		names = append(names, "the doubled point")
	case ecdsa.PublicKey:
		return relativesOf(&k)
	case *rsa.PublicKey:
		out = append(out, &rsa.PublicKey{N: new(big.Int).Set(k.N), E: 3}, &rsa.PublicKey{N: new(big.Int).Set(k.N), E: k.E + 2},
			&rsa.PublicKey{N: new(big.Int).Add(k.N, big.NewInt(2)), E: k.E})
		names = append(names, "same modulus, exponent 3", "same modulus, exponent+2", "modulus+2")
	case ed25519.PublicKey:
		for _, bit := range []int{0, 7, 255, 100} {
			c := append(ed25519.PublicKey(nil), k...)
			c[bit/8] ^= 1 << uint(bit%8)
			out = append(out, c)
			names = append(names, fmt.Sprintf("bit %d changed", bit))
		}
	}
	return
}

func relatedKeys(r *Run, class string, tok []byte, pub crypto.PublicKey) {
	rel, names := relativesOf(pub)
	verify := func(k crypto.PublicKey) (err error, pan bool) {
		pan, _ = safely(func() {
			var ev *psa.Evidence
			ev, err = psa.DecodeEvidenceFromCOSE(append([]byte{}, tok...))
			if err == nil {
				err = ev.Verify(k)
			}
		})
		return
	}
	r.ImplOnly(class+"related-key", false, "related-key "+hx(tok))
	check := func(when string) {
		for i, k := range rel {
			if err, pan := verify(k); pan {
				r.Fail("wrong-key-verifies", fmt.Sprintf("Verify with a related key (%s, %s) panics", names[i], when))
			} else if err == nil {
				r.Fail("wrong-key-verifies", fmt.Sprintf("a token verifies with a key that is not the signer's: %s (%s)", names[i], when))
			}
		}
	}
	check("before the signer's key was used")
	if err, _ := verify(pub); err != nil {
		r.Fail("untampered-rejected", fmt.Sprintf("the signer's key no longer verifies its token after related keys were tried: %v", err))
	}
	check("after the signer's key verified the token")
	if err, _ := verify(pub); err != nil {
		r.Fail("untampered-rejected", fmt.Sprintf("the signer's key no longer verifies its token after related keys were tried: %v", err))
	}
}
