package main

// Extension claims types with optional claims of every *kind* the codec convention allows (round 8): by-value slices
// (nil is absent, empty is a value), pointers (nil is absent, a pointer to the zero value is a value), a raw CBOR item,
// and a second level of embedding (Vendor{Mid{P2Claims}}). Judged on the implementation only, like the other extension
// types: CBOR and JSON round trips through the dispatching decoders (every field, nil / empty / zero kept apart), the
// emitted map (base keys all there, extension keys present exactly for the fields that hold a value), CBOR -> claims ->
// JSON -> claims -> CBOR, and independence of decoded claims from the caller's buffer.

import (
	"bytes"
	"fmt"
	"reflect"

	"github.com/fxamacker/cbor/v2"
	"github.com/veraison/eat"
	psa "github.com/veraison/psatoken"
	"github.com/veraison/psatoken/encoding"
)

type RichExtClaims struct {
	psa.P2Claims
	Blob  []byte          `cbor:"-75110,keyasint,omitempty" json:"ext-blob,omitempty"`
	Tags  []string        `cbor:"-75111,keyasint,omitempty" json:"ext-tags,omitempty"`
	Count *uint64         `cbor:"-75112,keyasint,omitempty" json:"ext-count,omitempty"`
	Flag  *bool           `cbor:"-75113,keyasint,omitempty" json:"ext-flag,omitempty"`
	Raw   cbor.RawMessage `cbor:"-75114,keyasint,omitempty" json:"ext-raw,omitempty"`
	Note  *string         `cbor:"-75115,keyasint,omitempty" json:"ext-note,omitempty"`
}

func (o *RichExtClaims) Validate() error { return psa.ValidateClaims(o) }
func (o RichExtClaims) MarshalCBOR() ([]byte, error) {
	return encoding.SerializeStructToCBOR(extEM, &o)
}
func (o *RichExtClaims) UnmarshalCBOR(data []byte) error {
	return encoding.PopulateStructFromCBOR(extDM, data, o)
}
func (o RichExtClaims) MarshalJSON() ([]byte, error) { return encoding.SerializeStructToJSON(&o) }
func (o *RichExtClaims) UnmarshalJSON(data []byte) error {
	return encoding.PopulateStructFromJSON(data, o)
}

// two levels of embedding
type MidClaims struct {
	psa.P2Claims
	Mid *int64 `cbor:"-75120,keyasint,omitempty" json:"ext-mid,omitempty"`
}
type DeepExtClaims struct {
	MidClaims
	Vendor *string `cbor:"-75121,keyasint,omitempty" json:"ext-vendor,omitempty"`
}

func (o *DeepExtClaims) Validate() error { return psa.ValidateClaims(o) }
func (o DeepExtClaims) MarshalCBOR() ([]byte, error) {
	return encoding.SerializeStructToCBOR(extEM, &o)
}
func (o *DeepExtClaims) UnmarshalCBOR(data []byte) error {
	return encoding.PopulateStructFromCBOR(extDM, data, o)
}
func (o DeepExtClaims) MarshalJSON() ([]byte, error) { return encoding.SerializeStructToJSON(&o) }
func (o *DeepExtClaims) UnmarshalJSON(data []byte) error {
	return encoding.PopulateStructFromJSON(data, o)
}

type richProfile struct {
	Name string
	Deep bool
}

func (p richProfile) GetName() string { return p.Name }
func (p richProfile) GetClaims() psa.IClaims {
	ep := eat.Profile{}
	if err := ep.Set(p.Name); err != nil {
		panic(err)
	}
	base := psa.P2Claims{Profile: &ep, SwComponents: psa.VerifNewSwComponents(nil), CanonicalProfile: p.Name}
	if p.Deep {
		return &DeepExtClaims{MidClaims: MidClaims{P2Claims: base}}
	}
	return &RichExtClaims{P2Claims: base}
}

// extFields: the extension fields of a claims-set as text, nil / empty / zero kept apart.
func extFields(c psa.IClaims) string {
	show := func(v reflect.Value) string {
		switch v.Kind() {
		case reflect.Ptr:
			if v.IsNil() {
				return "absent"
			}
			return fmt.Sprintf("&%v", v.Elem().Interface())
		case reflect.Slice:
			if v.IsNil() {
				return "absent"
			}
			return fmt.Sprintf("%d:%x", v.Len(), fmt.Sprint(v.Interface()))
		}
		return fmt.Sprint(v.Interface())
	}
	switch x := c.(type) {
	case *RichExtClaims:
		v := reflect.ValueOf(x).Elem()
		return fmt.Sprintf("blob=%s tags=%s count=%s flag=%s raw=%s note=%s", show(v.FieldByName("Blob")), show(v.FieldByName("Tags")),
			show(v.FieldByName("Count")), show(v.FieldByName("Flag")), show(v.FieldByName("Raw")), show(v.FieldByName("Note")))
	case *DeepExtClaims:
		v := reflect.ValueOf(x).Elem()
		return fmt.Sprintf("mid=%s vendor=%s", show(v.FieldByName("Mid")), show(v.FieldByName("Vendor")))
	}
	return "?"
}

// richExt: n claims-sets of the two types. `clauses` names the failure clause per oracle for the calling property:
// "cbor", "json", "wire", "chain", "buffer" (an oracle whose clause is missing is not run).
func richExt(r *Run, rng *Rng, n int, clauses map[string]string) {
	psa.VerifWithScratchRegistry(func() { richExtIn(r, rng, n, clauses) })
}

func richExtIn(r *Run, rng *Rng, n int, clauses map[string]string) {
	profs := []richProfile{{Name: extName(81)}, {Name: extName(82), Deep: true}}
	for _, p := range profs {
		if err := psa.RegisterProfile(p); err != nil {
			r.ImplOnly("rich-extension/register", false, "rich-ext register "+p.Name)
			r.Fail("harness", fmt.Sprintf("cannot register %s: %v", p.Name, err))
			return
		}
	}
	for i := 0; i < n; i++ {
		p := profs[i%2]
		c := p.GetClaims()
		d := baseValid(rng, 2)
		d.Canon, d.Prof = p.Name, sp(p.Name)
		normalise(&d)
		if hasBadUTF8(&d) || !applyDesc(c, &d) {
			continue
		}
		wantKeys := map[int64]bool{}
		switch x := c.(type) {
		case *RichExtClaims:
			switch rng.Intn(3) {
			case 0:
				x.Blob = []byte{}
			case 1:
				x.Blob = fill(1+rng.Intn(5), 9)
			}
			switch rng.Intn(3) {
			case 0:
				x.Tags = []string{}
			case 1:
				x.Tags = []string{"a", ""}
			}
			if rng.Chance(70) {
				v := Pick(rng, []uint64{0, 0, 1, 1 << 40})
				x.Count = &v
			}
			if rng.Chance(70) {
				v := rng.Chance(30)
				x.Flag = &v
			}
			if rng.Chance(60) {
				x.Raw = Pick(rng, []cbor.RawMessage{{0x00}, {0x40}, {0x82, 0x01, 0x60}, {0xa1, 0x01, 0x02}, {0xf6}, {0x18, 0x64}})
			}
			if rng.Chance(60) {
				v := Pick(rng, []string{"", "", "note", "é"})
				x.Note = &v
			}
			wantKeys[-75110], wantKeys[-75111], wantKeys[-75112] = x.Blob != nil, x.Tags != nil, x.Count != nil
			wantKeys[-75113], wantKeys[-75114], wantKeys[-75115] = x.Flag != nil, x.Raw != nil, x.Note != nil
		case *DeepExtClaims:
			if rng.Chance(70) {
				v := Pick(rng, []int64{0, 0, -1, 1 << 40})
				x.Mid = &v
			}
			if rng.Chance(70) {
				v := Pick(rng, []string{"", "acme"})
				x.Vendor = &v
			}
			wantKeys[-75120], wantKeys[-75121] = x.Mid != nil, x.Vendor != nil
		}
		op := fmt.Sprintf("rich-ext %s %s %s", p.Name, d.Line(), extFields(c))
		r.ImplOnly("rich-extension/"+map[bool]string{false: "kinds", true: "two-levels"}[p.Deep], false, op)
		fail := func(which, detail string) {
			if cl, ok := clauses[which]; ok {
				r.Fail(cl, detail+" ["+trunc(op, 400)+"]")
			}
		}
		want := gettersOnly(observe(c)) + " " + extFields(c)
		var b, j []byte
		var err error
		if pan, what := safely(func() { b, err = psa.ValidateAndEncodeClaimsToCBOR(c) }); pan || err != nil {
			fail("cbor", fmt.Sprintf("a valid extension claims-set does not encode to CBOR: %v %v", err, what))
			continue
		}
		// the emitted map: every key the base profile emits for these claims, and the extension keys exactly for
		// the fields that hold a value
		if _, has := clauses["wire"]; has {
			d2 := d
			d2.Canon, d2.Prof = canonOf(2), sp(canonOf(2))
			if bb, e := psa.EncodeClaimsToCBOR(d2.Build()); e == nil {
				emitted, baseKeys := topLevelKeys(b), topLevelKeys(bb)
				for k := range baseKeys {
					if !emitted[k] {
						fail("wire", fmt.Sprintf("the extension's CBOR lacks the profile's key %d: %x", k, b))
					}
				}
				for k, w := range wantKeys {
					if emitted[k] != w {
						fail("wire", fmt.Sprintf("extension key %d present=%v, its field holds a value: %v (%x)", k, emitted[k], w, b))
					}
				}
				for k := range emitted {
					if _, known := wantKeys[k]; !known && !baseKeys[k] {
						fail("wire", fmt.Sprintf("the extension's CBOR carries the key %d that no field declares: %x", k, b))
					}
				}
			}
		}
		buf := append([]byte{}, b...)
		var c2 psa.IClaims
		if pan, what := safely(func() { c2, err = psa.DecodeAndValidateClaimsFromCBOR(buf) }); pan || err != nil {
			fail("cbor", fmt.Sprintf("the extension's own CBOR does not decode and validate: %v %v (%x)", err, what, b))
			continue
		}
		if got := gettersOnly(observe(c2)) + " " + extFields(c2); got != want {
			fail("cbor", fmt.Sprintf("CBOR round trip changes the claims:\n before: %s\n after:  %s", want, got))
		}
		if b2, e := psa.EncodeClaimsToCBOR(c2); e != nil || !bytes.Equal(b, b2) {
			fail("cbor", fmt.Sprintf("re-encoding the decoded extension claims gives other bytes: %x vs %x (%v)", b, b2, e))
		}
		// decoded claims keep no reference to the caller's buffer
		if _, has := clauses["buffer"]; has {
			for k := range buf {
				buf[k] = 0xAA
			}
			if got := gettersOnly(observe(c2)) + " " + extFields(c2); got != want {
				fail("buffer", fmt.Sprintf("overwriting the decoded buffer changes the claims:\n before: %s\n after:  %s", want, got))
			} else if b3, e := psa.EncodeClaimsToCBOR(c2); e != nil || !bytes.Equal(b, b3) {
				fail("buffer", fmt.Sprintf("overwriting the decoded buffer changes the encoding: %x vs %x (%v)", b, b3, e))
			}
		}
		// JSON
		if pan, what := safely(func() { j, err = psa.ValidateAndEncodeClaimsToJSON(c) }); pan || err != nil {
			fail("json", fmt.Sprintf("a valid extension claims-set does not encode to JSON: %v %v", err, what))
			continue
		}
		jbuf := append([]byte{}, j...)
		var c3 psa.IClaims
		if pan, what := safely(func() { c3, err = psa.DecodeAndValidateClaimsFromJSON(jbuf) }); pan || err != nil {
			fail("json", fmt.Sprintf("the extension's own JSON does not decode and validate: %v %v (%s)", err, what, j))
			continue
		}
		if got := gettersOnly(observe(c3)) + " " + extFields(c3); got != want {
			fail("json", fmt.Sprintf("JSON round trip changes the claims:\n before: %s\n after:  %s\n json: %s", want, got, j))
		}
		if _, has := clauses["buffer"]; has {
			for k := range jbuf {
				jbuf[k] = 0xAA
			}
			if got := gettersOnly(observe(c3)) + " " + extFields(c3); got != want {
				fail("buffer", fmt.Sprintf("overwriting the decoded JSON buffer changes the claims:\n before: %s\n after:  %s", want, got))
			}
		}
		// CBOR -> claims -> JSON -> claims -> CBOR
		if j2, e := psa.EncodeClaimsToJSON(c2); e != nil {
			fail("chain", fmt.Sprintf("claims decoded from CBOR do not encode to JSON: %v", e))
		} else if c4, e := psa.DecodeClaimsFromJSON(j2); e != nil {
			fail("chain", fmt.Sprintf("CBOR->claims->JSON is rejected by the JSON decoder: %v (%s)", e, j2))
		} else if b4, e := psa.EncodeClaimsToCBOR(c4); e != nil || !bytes.Equal(b, b4) {
			fail("chain", fmt.Sprintf("CBOR->claims->JSON->claims->CBOR differs: %x vs %x (%v)", b, b4, e))
		}
	}
}

// topLevelKeys: the integer keys of the map `b` encodes, read with the harness's own CBOR reader.
func topLevelKeys(b []byte) map[int64]bool {
	out := map[int64]bool{}
	n, rest, err := parseNode(b, 0)
	if err != nil || len(rest) != 0 || n.Kind != kMap {
		return out
	}
	for _, pr := range n.Pairs {
		if k, ok := keyInt(pr[0]); ok {
			out[k] = true
		}
	}
	return out
}
