package main

import (
	"encoding/hex"
	"errors"
	"fmt"

	psa "github.com/veraison/psatoken"
)

// errMask abstracts an error to what errors.Is observes (DESIGN §3.5).
func errMask(err error) int {
	m := 0
	if errors.Is(err, psa.ErrMissingOptional) {
		m |= 1
	}
	if errors.Is(err, psa.ErrMissingMandatory) {
		m |= 2
	}
	if errors.Is(err, psa.ErrNotInProfile) {
		m |= 4
	}
	if errors.Is(err, psa.ErrWrongProfile) {
		m |= 8
	}
	if errors.Is(err, psa.ErrWrongSyntax) {
		m |= 16
	}
	return m
}

func fmtErr(err error) string {
	if err == nil {
		return "ok"
	}
	return fmt.Sprintf("err:%d", errMask(err))
}

func hx(b []byte) string { return hex.EncodeToString(b) }

// safely runs f, converting a panic into ok=false.
func safely(f func()) (panicked bool, val interface{}) {
	defer func() {
		if r := recover(); r != nil {
			panicked, val = true, r
		}
	}()
	f()
	return false, nil
}
