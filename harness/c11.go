package main

import (
	"fmt"
	"reflect"
	"strings"

	psa "github.com/veraison/psatoken"
)

func init() { props["C11"] = runC11 }

// SetOp: one setter call.
type SetOp struct {
	Kind  string // cid lc impl boot cert sw nonce inst vsi
	I     int32
	U     uint16
	B     []byte
	Comps []CompDesc
	Nil   bool // sw: nil slice
}

func (o SetOp) String() string {
	switch o.Kind {
	case "cid":
		return fmt.Sprintf("cid:%d", o.I)
	case "lc":
		return fmt.Sprintf("lc:%d", o.U)
	case "sw":
		if o.Nil {
			return "sw:nil"
		}
		parts := make([]string, len(o.Comps))
		for i, c := range o.Comps {
			parts[i] = c.String()
		}
		return "sw:[" + strings.Join(parts, ";") + "]"
	}
	return o.Kind + ":x" + hx(o.B)
}

func (o SetOp) Apply(c psa.IClaims) error {
	switch o.Kind {
	case "cid":
		return c.SetClientID(o.I)
	case "lc":
		return c.SetSecurityLifeCycle(o.U)
	case "impl":
		return c.SetImplID(append([]byte{}, o.B...))
	case "boot":
		return c.SetBootSeed(append([]byte{}, o.B...))
	case "cert":
		return c.SetCertificationReference(string(o.B))
	case "nonce":
		return c.SetNonce(append([]byte{}, o.B...))
	case "inst":
		return c.SetInstID(append([]byte{}, o.B...))
	case "vsi":
		return c.SetVSI(string(o.B))
	case "sw":
		if o.Nil {
			return c.SetSoftwareComponents(nil)
		}
		l := make([]psa.ISwComponent, len(o.Comps))
		for i, cd := range o.Comps {
			l[i] = cd.Build()
		}
		return c.SetSoftwareComponents(l)
	}
	panic("bad op")
}

var opGetter = map[string]int{"cid": 1, "lc": 2, "impl": 3, "boot": 4, "cert": 5, "sw": 6, "nonce": 7, "inst": 8, "vsi": 9}

// acceptable: would the same profile's validation accept this value for this claim?
// (oracle: put the value into an otherwise valid claims-set and ask the spec)
func (o SetOp) acceptable(p int) bool {
	d := ClaimsDesc{P: p, Canon: canonOf(p)}
	switch o.Kind {
	case "cid":
		d.CID = i32p(o.I)
	case "lc":
		d.LC = u16p(o.U)
	case "impl":
		d.Impl = bp(o.B)
	case "boot":
		d.Boot = bp(o.B)
	case "cert":
		d.Cert = sp(string(o.B))
	case "nonce":
		l := [][]byte{o.B}
		d.Nonce = &l
	case "inst":
		d.Inst = bp(o.B)
	case "vsi":
		d.VSI = sp(string(o.B))
	case "sw":
		if o.Nil {
			if p == 1 {
				d.NoSw = uip(1)
				d.SwKind = SwNilIface
			} else {
				d.SwKind = SwNilSlice
			}
		} else {
			d.SwKind = SwList
			d.Sw = o.Comps
		}
	}
	return specGetter(&d, opGetter[o.Kind]) == stOK
}

func (o SetOp) isClear() bool { return o.Kind == "sw" && !o.Nil && len(o.Comps) == 0 }

func opValuePool(p int, thorough bool) []SetOp {
	var out []SetOp
	for _, v := range []int32{0, 1, -1, 23, 24, -24, -25, 255, 256, 65535, 65536, -65537, 2147483647, -2147483648} {
		out = append(out, SetOp{Kind: "cid", I: v})
	}
	for _, v := range append(append([]uint16{}, lcValidEdges...), lcInvalidEdges...) {
		out = append(out, SetOp{Kind: "lc", U: v})
	}
	for n := 0; n <= 80; n++ {
		out = append(out, SetOp{Kind: "impl", B: fill(n, 11)}, SetOp{Kind: "boot", B: fill(n, 13)},
			SetOp{Kind: "nonce", B: fill(n, 17)}, SetOp{Kind: "inst", B: instOf(n, 1, 19)}, SetOp{Kind: "inst", B: instOf(n, 0, 19)},
			SetOp{Kind: "sw", Comps: []CompDesc{{MV: bp(fill(n, 1)), SID: bp(fill(32, 2))}}},
			SetOp{Kind: "sw", Comps: []CompDesc{{MV: bp(fill(64, 1)), SID: bp(fill(n, 2)), Ver: bp([]byte("1.0"))}}})
	}
	out = append(out, SetOp{Kind: "inst", B: instOf(33, 2, 1)}, SetOp{Kind: "inst", B: instOf(33, 0xff, 1)})
	certs := []string{ean13, ean13p5, "", "abc", ean13 + "\n", "\n" + ean13p5, ean13 + "-", ean13 + "-1234", ean13 + "-123456", "x" + ean13, ean13p5 + "y"}
	nb := append(certNeighbourhood(ean13), certNeighbourhood(ean13p5)...)
	for i, s := range nb {
		if thorough || i%9 == 0 || strings.ContainsAny(s, "٢१𝟏０١") {
			certs = append(certs, s)
		}
	}
	for _, s := range certs {
		out = append(out, SetOp{Kind: "cert", B: []byte(s)})
	}
	for _, s := range textPool {
		out = append(out, SetOp{Kind: "vsi", B: []byte(s)})
	}
	out = append(out, SetOp{Kind: "vsi", B: []byte(badUTF8[0])})
	g := CompDesc{MV: bp(fill(32, 1)), SID: bp(fill(48, 2))}
	out = append(out,
		SetOp{Kind: "sw", Nil: true},
		SetOp{Kind: "sw", Comps: []CompDesc{}},
		SetOp{Kind: "sw", Comps: []CompDesc{g}},
		SetOp{Kind: "sw", Comps: []CompDesc{g, g, g, g}},
		SetOp{Kind: "sw", Comps: []CompDesc{{SID: bp(fill(32, 2))}}},
		SetOp{Kind: "sw", Comps: []CompDesc{{MV: bp(fill(32, 2))}}},
		SetOp{Kind: "sw", Comps: []CompDesc{{}}},
		SetOp{Kind: "sw", Comps: []CompDesc{g, {MV: bp(fill(31, 2)), SID: bp(fill(32, 1))}}},
		SetOp{Kind: "sw", Comps: []CompDesc{{MT: bp([]byte("")), MV: bp(fill(48, 2)), Ver: bp([]byte("é")), SID: bp(fill(64, 1)), MD: bp([]byte("d"))}}},
	)
	return out
}

func randomOp(r *Rng, p int, pool []SetOp) SetOp {
	if r.Chance(25) {
		// a random component list
		n := r.Intn(5)
		cs := []CompDesc{}
		for i := 0; i < n; i++ {
			if r.Chance(75) {
				cs = append(cs, validComp(r))
			} else {
				c := randomComp(r)
				c.Nil = false
				cs = append(cs, c)
			}
		}
		return SetOp{Kind: "sw", Comps: cs}
	}
	// valid-heavy mix
	for tries := 0; tries < 4; tries++ {
		o := Pick(r, pool)
		if o.acceptable(p) || r.Chance(40) {
			return o
		}
	}
	return Pick(r, pool)
}

type snapshot struct {
	obs        obsRes
	cbor, json string
	desc       string
}

func snap(c psa.IClaims) snapshot {
	var s snapshot
	s.obs = observe(c)
	if p, _ := safely(func() {
		b, err := psa.EncodeClaimsToCBOR(c)
		if err != nil {
			s.cbor = "err"
		} else {
			s.cbor = hx(b)
		}
		j, err := psa.EncodeClaimsToJSON(c)
		if err != nil {
			s.json = "err"
		} else {
			s.json = string(j)
		}
	}); p {
		s.cbor, s.json = "panic", "panic"
	}
	if d, ok := DescOf(c); ok {
		s.desc = d.Line()
	} else {
		s.desc = "ood"
	}
	return s
}

func (s snapshot) String() string { return s.obs.String() + " cbor=" + s.cbor + " json=" + s.json }

// getter results of every claim other than g
func othersEqual(a, b obsRes, g int) (bool, string) {
	for i := range a.G {
		if i == g {
			continue
		}
		if a.G[i].String() != b.G[i].String() {
			return false, a.G[i].Name
		}
	}
	return true, ""
}

func runHistory(r *Run, class string, p int, ops []SetOp) { runHistoryOn(r, class, p, ops, nil, nil) }

// histStart: an object a history starts from instead of a fresh claims-set (built field by field, or decoded)
type histStart struct {
	desc  ClaimsDesc
	mk    func() psa.IClaims
	valid bool
}

// runHistoryOn: mk == nil: a fresh claims-set of the built-in profile p (also run through the model); otherwise the
// objects come from mk (an extension type embedding the built-in one, encoded through psatoken/encoding) and the
// history is judged on the implementation alone.
func runHistoryOn(r *Run, class string, p int, ops []SetOp, mk func() psa.IClaims, st *histStart) {
	fresh := func() psa.IClaims {
		if mk != nil {
			return mk()
		}
		c, err := psa.NewClaims(canonOf(p))
		if err != nil {
			panic(err)
		}
		return c
	}
	c := fresh()
	if st != nil {
		c = st.mk()
	}
	strs := make([]string, len(ops))
	for i, o := range ops {
		strs[i] = o.String()
	}
	line := fmt.Sprintf("hist p=%d ops=%s", p, strings.Join(strs, "|"))
	if mk != nil {
		line = "ext-" + line
	}
	if st != nil {
		line = fmt.Sprintf("hist p=%d start=%s ops=%s", p, strings.ReplaceAll(st.desc.Line(), " ", "&"), strings.Join(strs, "|"))
	}
	res := make([]string, len(ops))
	lastOK := map[string]SetOp{}
	var order []string
	type pending struct{ clause, detail, sig string }
	var fails []pending
	for i, o := range ops {
		before := snap(c)
		var e error
		pan, _ := safely(func() { e = o.Apply(c) })
		after := snap(c)
		if pan {
			res[i] = "panic"
			fails = append(fails, pending{"setter-panic", o.String(), ""})
			continue
		}
		res[i] = fmtErr(e)
		g := opGetter[o.Kind]
		want := o.acceptable(p)
		if !o.isClear() && (e == nil) != want {
			fails = append(fails, pending{"setter-iff-valid", fmt.Sprintf("step %d %s: setter ok=%v, validation accepts the value=%v", i, o, e == nil, want), ""})
		}
		if e == nil && o.isClear() {
			// the clear operation leaves zero components and, in profile 1, no "no measurements" assertion either
			// (theorem C11.clear_leaves_nothing)
			if ad, ok := DescOf(c); ok && (len(ad.Sw) != 0 || (p == 1 && ad.NoSw != nil)) {
				fails = append(fails, pending{"set-get", fmt.Sprintf("step %d %s: after the clear operation the claims-set holds %d components, no-measurements flag present=%v", i, o, len(ad.Sw), ad.NoSw != nil), ""})
			}
		}
		if e == nil {
			if _, seen := lastOK[o.Kind]; !seen {
				order = append(order, o.Kind)
			}
			lastOK[o.Kind] = o
			if !o.isClear() && want {
				gr := after.obs.G[g]
				wv := o.wantGetter(p)
				if gr.Err != nil || gr.Val != wv {
					fails = append(fails, pending{"set-get", fmt.Sprintf("step %d %s: getter returns %v, want %s", i, o, gr, wv), ""})
				}
			}
			if ok, name := othersEqual(before.obs, after.obs, g); !ok {
				fails = append(fails, pending{"set-frame", fmt.Sprintf("step %d %s changed claim %s", i, o, name), ""})
			}
		} else {
			if before.String() != after.String() { // observable state: getters, verdict, both encodings
				fails = append(fails, pending{"fail-unchanged", fmt.Sprintf("step %d %s failed but the claims-set changed", i, o), ""})
			}
		}
	}
	final := snap(c)
	if mk != nil {
		r.ImplOnly(class, false, line)
	} else {
		r.Case(class, false, line, "r="+strings.Join(res, ",")+" final="+strings.ReplaceAll(final.desc, " ", ";")+" "+final.obs.String())
	}
	for _, f := range fails {
		r.FailSig(f.clause, f.detail, f.sig)
	}
	if st != nil {
		// a history on an object that already held values: when the result validates, it is observably the
		// claims-set built from its final values by setter calls on a fresh object (the encoding depends only on
		// the values held, not on how they got there)
		if final.obs.VErr == nil {
			// (a no-measurements flag other than 1 is a value no setter produces)
			if fd, ok := DescOf(c); ok && !hasBadUTF8(&fd) && (fd.NoSw == nil || *fd.NoSw == 1) {
				c2 := fresh()
				// the profile claim is not reachable by a setter: as held
				for _, f := range []string{"Profile", "CanonicalProfile"} {
					reflect.ValueOf(c2).Elem().FieldByName(f).Set(reflect.ValueOf(c).Elem().FieldByName(f))
				}
				okAll := true
				for _, o := range historyOf(&fd) {
					if e := o.Apply(c2); e != nil {
						okAll = false
						r.Fail("replay-last", fmt.Sprintf("value %s held by a claims-set that validates is refused by its setter: %v", o, e))
					}
				}
				if canon := snap(c2); okAll && canon.String() != final.String() {
					what, a, b := "getters", final.obs.String(), canon.obs.String()
					if a == b {
						what, a, b = "cbor", final.cbor, canon.cbor
					}
					if a == b {
						what, a, b = "json", final.json, canon.json
					}
					i := 0
					for i < len(a) && i < len(b) && a[i] == b[i] {
						i++
					}
					lo := i - 40
					if lo < 0 {
						lo = 0
					}
					r.Fail("order-independence", fmt.Sprintf("claims-set reached from a pre-loaded object differs from the one built from the same values by setters (%s): …%s | …%s", what, trunc(a[lo:], 160), trunc(b[lo:], 160)))
				}
			}
		}
		return
	}
	// all mandatory claims set successfully (and not cleared) => validates
	mand := []string{"cid", "lc", "impl", "sw", "nonce", "inst"}
	if p == 1 {
		mand = append(mand, "boot")
	}
	all := true
	for _, k := range mand {
		o, ok := lastOK[k]
		if !ok || o.isClear() {
			all = false
		}
	}
	if all && final.obs.VErr != nil {
		r.Fail("all-mandatory-set-validates", fmt.Sprintf("every mandatory claim was set successfully, Validate() = %v", final.obs.VErr))
	}
	// the encoding depends only on the final values: replay the last accepted value per claim on a fresh object
	c2 := fresh()
	for _, k := range []string{"vsi", "sw", "inst", "cert", "nonce", "cid", "boot", "lc", "impl"} {
		if o, ok := lastOK[k]; ok {
			if e := o.Apply(c2); e != nil {
				r.Fail("replay-last", fmt.Sprintf("%s accepted in the history is rejected on a fresh object: %v", o, e))
			}
		}
	}
	canon := snap(c2)
	if canon.String() != final.String() {
		r.Fail("order-independence", fmt.Sprintf("history result differs from the canonical object of its last accepted values:\n history: %s\n canon:   %s", final, canon))
	}
}

func (o SetOp) wantGetter(p int) string {
	switch o.Kind {
	case "cid":
		return fmt.Sprint(o.I)
	case "lc":
		return fmt.Sprint(o.U)
	case "sw":
		if o.Nil {
			return "nil"
		}
		parts := make([]string, len(o.Comps))
		for i, c := range o.Comps {
			parts[i] = c.String()
		}
		return "[" + strings.Join(parts, ";") + "]"
	}
	return "x" + hx(o.B)
}

func runC11(r *Run, rng *Rng, thorough bool) {
	nHist := 4000
	if thorough {
		nHist = 300000
	}
	for p := 1; p <= 2; p++ {
		pool := opValuePool(p, thorough)
		// every setter x every value class, alone on a fresh object
		for _, o := range pool {
			runHistory(r, fmt.Sprintf("p%d/single/%s", p, o.Kind), p, []SetOp{o})
		}
		// every value after a valid full history (setter on a populated object)
		full := validHistory(rng, p)
		for i, o := range pool {
			if thorough || i%3 == 0 {
				runHistory(r, fmt.Sprintf("p%d/after-full/%s", p, o.Kind), p, append(append([]SetOp{}, full...), o))
			}
		}
		for i := 0; i < nHist; i++ {
			n := 1 + rng.Intn(40)
			ops := make([]SetOp, n)
			for j := range ops {
				ops[j] = randomOp(rng, p, pool)
			}
			runHistory(r, fmt.Sprintf("p%d/history", p), p, ops)
		}
		// permutations of one valid history: same final encoding (checked through the canonical replay)
		for i := 0; i < nHist/10; i++ {
			h := validHistory(rng, p)
			for j := len(h) - 1; j > 0; j-- {
				k := rng.Intn(j + 1)
				h[j], h[k] = h[k], h[j]
			}
			runHistory(r, fmt.Sprintf("p%d/permuted-valid", p), p, h)
		}
		// histories on objects that already hold values: built field by field (any state, invalid ones included) or
		// decoded from CBOR / JSON; the setters' contract does not depend on what the claims-set holds
		for i := 0; i < nHist/2; i++ {
			d := baseValid(rng, p)
			if i%3 == 0 {
				Pick(rng, deviations(p, false)).apply(&d)
			}
			normalise(&d)
			if hasBadUTF8(&d) || hasNilComp(&d) || d.ProfInvalid {
				continue
			}
			st := &histStart{desc: d, valid: conformant(&d)}
			kind := []string{"built", "cbor", "json"}[i%3]
			switch kind {
			case "built":
				dd := d
				st.mk = func() psa.IClaims { return dd.Build() }
			default:
				var b []byte
				var err error
				if kind == "cbor" {
					b, err = psa.EncodeClaimsToCBOR(d.Build())
				} else {
					b, err = psa.EncodeClaimsToJSON(d.Build())
				}
				if err != nil {
					continue
				}
				dec := func() psa.IClaims {
					var c psa.IClaims
					var e error
					if kind == "cbor" {
						c, e = psa.DecodeClaimsFromCBOR(b)
					} else {
						c, e = psa.DecodeClaimsFromJSON(b)
					}
					if e != nil {
						return nil
					}
					return c
				}
				c0 := dec()
				if c0 == nil {
					continue
				}
				dd, ok := DescOf(c0)
				if !ok || dd.P != p {
					continue
				}
				st.desc, st.mk, st.valid = dd, dec, conformant(&dd)
			}
			n := 1 + rng.Intn(6)
			ops := make([]SetOp, n)
			for j := range ops {
				ops[j] = randomOp(rng, p, pool)
			}
			runHistoryOn(r, fmt.Sprintf("p%d/preloaded-%s", p, kind), p, ops, nil, st)
		}
		// the same on extension claims-sets (a type embedding the built-in one, encoded through psatoken/encoding):
		// what a failed setter leaves behind in the embedded struct shows in the extension's encodings
		mk := func() psa.IClaims { return ExtProfile{Name: canonOf(p), Base: p}.GetClaims() }
		for i, o := range pool {
			if thorough || i%3 == 0 {
				runHistoryOn(r, fmt.Sprintf("ext-p%d/after-full/%s", p, o.Kind), p, append(append([]SetOp{}, full...), o), mk, nil)
			}
		}
		for i := 0; i < nHist/4; i++ {
			n := 1 + rng.Intn(30)
			ops := make([]SetOp, n)
			for j := range ops {
				ops[j] = randomOp(rng, p, pool)
			}
			runHistoryOn(r, fmt.Sprintf("ext-p%d/history", p), p, ops, mk, nil)
		}
	}
	componentCopies(r, rng, map[bool]int{false: 200, true: 5000}[thorough])
	surfaceContainer(r, rng, map[bool]int{false: 400, true: 20000}[thorough])
}

func validHistory(r *Rng, p int) []SetOp {
	d := baseValid(r, p)
	ops := []SetOp{{Kind: "cid", I: *d.CID}, {Kind: "lc", U: *d.LC}, {Kind: "impl", B: *d.Impl},
		{Kind: "nonce", B: (*d.Nonce)[0]}, {Kind: "inst", B: *d.Inst}}
	if d.Boot != nil {
		ops = append(ops, SetOp{Kind: "boot", B: *d.Boot})
	}
	if d.Cert != nil && (p == 1 || isEAN13p5(*d.Cert)) {
		ops = append(ops, SetOp{Kind: "cert", B: []byte(*d.Cert)})
	}
	if d.VSI != nil {
		ops = append(ops, SetOp{Kind: "vsi", B: []byte(*d.VSI)})
	}
	if d.SwKind == SwList && len(d.Sw) > 0 {
		ops = append(ops, SetOp{Kind: "sw", Comps: d.Sw})
	} else {
		ops = append(ops, SetOp{Kind: "sw", Nil: true})
	}
	return ops
}
