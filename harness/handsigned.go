package main

// Envelopes assembled and signed by hand (not through go-cose), so that the signature is genuinely valid over a
// Sig_structure the library would never produce — notably one whose protected header carries no algorithm while the
// unprotected header names one.

import (
	"crypto"
	"crypto/ecdsa"
	"crypto/ed25519"
	"crypto/rand"
	"crypto/rsa"
	"crypto/sha256"
	"fmt"

	psa "github.com/veraison/psatoken"
)

// handSign: signature of key k over Sig_structure ["Signature1", protected, h”, payload] (ES256 for the P-256 keys,
// EdDSA for the Ed25519 keys).
func handSign(k *keyInfo, protected, payload []byte) []byte {
	tbs := nArr(nTstr("Signature1"), nBstr(protected), nBstr(nil), nBstr(payload)).Bytes()
	switch priv := k.priv.(type) {
	case *ecdsa.PrivateKey:
		h := sha256.Sum256(tbs)
		rr, ss, err := ecdsa.Sign(rand.Reader, priv, h[:])
		if err != nil {
			panic(err)
		}
		n := (priv.Curve.Params().BitSize + 7) / 8
		sig := make([]byte, 2*n)
		rr.FillBytes(sig[:n])
		ss.FillBytes(sig[n:])
		return sig
	case ed25519.PrivateKey:
		return ed25519.Sign(priv, tbs)
	}
	panic("handSign: key family")
}

type handTok struct {
	label   string
	tok     []byte
	key     *keyInfo
	protAlg bool // the protected header carries the (right) algorithm
}

// handTokens: for a P-256 and an Ed25519 key, envelopes over a valid claims payload with the algorithm in the protected
// header (control: must verify), only in the unprotected header (integer, text), or nowhere.
func handTokens(rng *Rng) []handTok {
	var out []handTok
	d := c19Claims(rng, true)
	payload, err := psa.ValidateAndEncodeClaimsToCBOR(d.Build())
	if err != nil {
		panic(err)
	}
	for _, k := range []*keyInfo{keys()[0], keys()[4]} {
		alg, name := int64(-7), "ES256"
		if k.family == "ed" {
			alg, name = -8, "EdDSA"
		}
		protAlg := nMap([2]*Node{nUint(1), nInt(alg)}).Bytes()
		type variant struct {
			label   string
			prot    []byte
			unprot  *Node
			protAlg bool
		}
		vs := []variant{
			{"alg-protected", protAlg, nMap(), true},
			{"alg-protected+kid", protAlg, nMap([2]*Node{nUint(4), nBstr([]byte("kid-1"))}), true},
			{"alg-unprotected-only/empty-protected", nil, nMap([2]*Node{nUint(1), nInt(alg)}), false},
			{"alg-unprotected-only/empty-map-protected", []byte{0xa0}, nMap([2]*Node{nUint(1), nInt(alg)}), false},
			{"alg-unprotected-only/other-protected", nMap([2]*Node{nUint(3), nUint(60)}).Bytes(), nMap([2]*Node{nUint(1), nInt(alg)}), false},
			{"alg-unprotected-text", nil, nMap([2]*Node{nUint(1), nTstr(name)}), false},
			{"alg-unprotected-bytes", nil, nMap([2]*Node{nUint(1), nBstr([]byte{1})}), false},
			{"alg-unprotected-array", nil, nMap([2]*Node{nUint(1), nArr(nInt(alg))}), false},
			{"alg-unprotected-null", nil, nMap([2]*Node{nUint(1), nNull()}), false},
			{"alg-unprotected-big", nil, nMap([2]*Node{nUint(1), nUint(1<<63 + 5)}), false},
			{"alg-nowhere", nil, nMap(), false},
			{"alg-nowhere/kid", []byte{0xa0}, nMap([2]*Node{nUint(4), nBstr([]byte("kid-1"))}), false},
		}
		for _, v := range vs {
			sig := handSign(k, v.prot, payload)
			out = append(out, handTok{label: fmt.Sprintf("%s/%s", k.family, v.label),
				tok: envelope(nBstr(v.prot), v.unprot, nBstr(payload), nBstr(sig)), key: k, protAlg: v.protAlg})
		}
	}
	return out
}

// handSignedChecks: C02 — a message whose protected header carries no algorithm never verifies (whatever the unprotected
// header says, and although the signature is genuine over what was signed); the control with the algorithm in the
// protected header verifies with the signing key and with no other.
func handSignedChecks(r *Run, rng *Rng) {
	for _, ht := range handTokens(rng) {
		r.ImplOnly("hand-signed/"+ht.label, false, "hand-signed "+ht.label+" "+hx(ht.tok))
		var ev *psa.Evidence
		var err error
		if pan, what := safely(func() { ev, err = psa.DecodeEvidenceFromCOSE(append([]byte{}, ht.tok...)) }); pan {
			r.Fail("no-panic", fmt.Sprintf("decoding a hand-signed envelope panics: %v", what))
			continue
		}
		if err != nil {
			if ht.protAlg {
				r.Fail("control-decodes", fmt.Sprintf("%s: a well-formed token signed by hand does not decode: %v", ht.label, err))
			}
			continue
		}
		if ht.protAlg {
			// key objects no signature can be checked with: a panic inside the crypto library is not ours to judge, but
			// "verified" is wrong
			for name, bad := range map[string]crypto.PublicKey{"short ed25519 key": ed25519.PublicKey([]byte{1, 2, 3}), "nil *ecdsa.PublicKey": (*ecdsa.PublicKey)(nil),
				"nil *rsa.PublicKey": (*rsa.PublicKey)(nil), "zero rsa.PublicKey": &rsa.PublicKey{}, "zero ecdsa.PublicKey": &ecdsa.PublicKey{}} {
				var verr error
				if pan, _ := safely(func() { verr = ev.Verify(bad) }); !pan && verr == nil {
					r.Fail("different-key-verifies", fmt.Sprintf("%s: Verify with a %s reports success", ht.label, name))
				}
			}
		}
		for _, k := range keys() {
			var verr error
			if pan, what := safely(func() { verr = ev.Verify(k.pub) }); pan {
				r.Fail("no-panic", fmt.Sprintf("%s: Verify panics: %v", ht.label, what))
				continue
			}
			switch {
			case !ht.protAlg && verr == nil:
				r.Fail("no-alg-never-verifies", fmt.Sprintf("%s: verification succeeds (key %d) for a message without an algorithm in its protected header", ht.label, k.id))
			case ht.protAlg && k == ht.key && verr != nil:
				r.Fail("control-verifies", fmt.Sprintf("%s: a genuine signature does not verify with the signing key: %v", ht.label, verr))
			case ht.protAlg && k != ht.key && verr == nil:
				r.Fail("different-key-verifies", fmt.Sprintf("%s: verifies with key %d, signed with key %d", ht.label, k.id, ht.key.id))
			}
		}
	}
}
