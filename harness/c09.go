package main

import (
	"bytes"
	"crypto/rand"
	"fmt"
	"sort"
	"strings"
	"unicode/utf8"

	cose "github.com/veraison/go-cose"
	psa "github.com/veraison/psatoken"
)

func init() {
	props["C09"] = runC09
	props["C10"] = runC10
}

func encLine(c psa.IClaims) (line string, out []byte, err error, panicked bool) {
	panicked, _ = safely(func() { out, err = psa.EncodeClaimsToCBOR(c) })
	switch {
	case panicked:
		line = "cbor=panic"
	case err != nil:
		line = "cbor=err"
	default:
		line = "cbor=" + hx(out)
	}
	return
}

func gettersOnly(o obsRes) string {
	parts := make([]string, len(o.G))
	for i, g := range o.G {
		parts[i] = g.Name + "=" + g.String()
	}
	return strings.Join(parts, " ")
}

func hasBadUTF8(d *ClaimsDesc) bool {
	bad := func(b *[]byte) bool { return b != nil && !utf8.Valid(*b) }
	if d.VSI != nil && !utf8.ValidString(*d.VSI) {
		return true
	}
	if d.Cert != nil && !utf8.ValidString(*d.Cert) {
		return true
	}
	if d.Prof != nil && !utf8.ValidString(*d.Prof) {
		return true
	}
	for _, c := range d.Sw {
		if bad(c.MT) || bad(c.Ver) || bad(c.MD) {
			return true
		}
	}
	return false
}

// validClaimsObjects: valid claims-sets obtained in the three ways an application gets them.
func eachValidObject(rng *Rng, n int, visit func(class string, c psa.IClaims, d ClaimsDesc)) {
	for p := 1; p <= 2; p++ {
		for i := 0; i < n; i++ {
			d := baseValid(rng, p)
			d.Canon = canonOf(p)
			if d.Prof != nil {
				d.Prof = sp(d.Canon)
			}
			if rng.Chance(6) {
				// text that is not valid UTF-8 (pre-finding D10)
				switch rng.Intn(2) {
				case 0:
					d.VSI = sp(Pick(rng, badUTF8))
				default:
					if len(d.Sw) > 0 {
						d.Sw[0].MD = bp([]byte(Pick(rng, badUTF8)))
					}
				}
			}
			if rng.Chance(3) && len(d.Sw) > 0 {
				// many components (the decoder's own limits must not be below what the encoder emits)
				for len(d.Sw) < Pick(rng, []int{16, 17, 40, 200}) {
					d.Sw = append(d.Sw, validComp(rng))
				}
			}
			if d.NoSw != nil && rng.Chance(30) {
				// the flag is an unsigned integer of the platform's word size; every value says "no measurements"
				d.NoSw = uip(Pick(rng, []uint{0, 7, 1 << 32, 1 << 53, 1<<53 + 1, 1<<63 - 1, 1 << 63, 1<<64 - 2, 1<<64 - 1}))
			}
			normalise(&d)
			switch i % 3 {
			case 0:
				visit(fmt.Sprintf("p%d/direct", p), d.Build(), d)
			case 1:
				// through setters on a fresh object
				c, _ := psa.NewClaims(canonOf(p))
				ops := historyOf(&d)
				ok := true
				for _, o := range ops {
					if err := o.Apply(c); err != nil {
						ok = false
					}
				}
				if !ok {
					continue
				}
				dd, okd := DescOf(c)
				if !okd {
					continue
				}
				visit(fmt.Sprintf("p%d/setters", p), c, dd)
			default:
				// obtained by decoding (the library's own encoding of the direct object)
				b, err := psa.EncodeClaimsToCBOR(d.Build())
				if err != nil {
					continue
				}
				c, err := psa.DecodeClaimsFromCBOR(b)
				if err != nil {
					if hasBadUTF8(&d) {
						visit(fmt.Sprintf("p%d/direct", p), d.Build(), d)
					}
					continue
				}
				dd, okd := DescOf(c)
				if !okd {
					continue
				}
				visit(fmt.Sprintf("p%d/decoded", p), c, dd)
			}
		}
	}
}

func historyOf(d *ClaimsDesc) []SetOp {
	ops := []SetOp{}
	if d.CID != nil {
		ops = append(ops, SetOp{Kind: "cid", I: *d.CID})
	}
	if d.LC != nil {
		ops = append(ops, SetOp{Kind: "lc", U: *d.LC})
	}
	if d.Impl != nil {
		ops = append(ops, SetOp{Kind: "impl", B: *d.Impl})
	}
	if d.Boot != nil {
		ops = append(ops, SetOp{Kind: "boot", B: *d.Boot})
	}
	if d.Cert != nil {
		ops = append(ops, SetOp{Kind: "cert", B: []byte(*d.Cert)})
	}
	if d.Nonce != nil && len(*d.Nonce) == 1 {
		ops = append(ops, SetOp{Kind: "nonce", B: (*d.Nonce)[0]})
	}
	if d.Inst != nil {
		ops = append(ops, SetOp{Kind: "inst", B: *d.Inst})
	}
	if d.VSI != nil {
		ops = append(ops, SetOp{Kind: "vsi", B: []byte(*d.VSI)})
	}
	if d.SwKind == SwList && len(d.Sw) > 0 {
		ops = append(ops, SetOp{Kind: "sw", Comps: d.Sw})
	} else if d.P == 1 && d.NoSw != nil {
		ops = append(ops, SetOp{Kind: "sw", Nil: true})
	}
	return ops
}

func runC09(r *Run, rng *Rng, thorough bool) {
	n := 3000
	if thorough {
		n = 200000
	}
	// valid claims-sets: decode(encode(c)) has the same getter results; encode again is byte-identical
	eachValidObject(rng, n, func(class string, c psa.IClaims, d ClaimsDesc) {
		line, b, err, pan := encLine(c)
		r.Case(class, false, "enc "+d.Line(), line)
		if pan {
			return
		}
		sig := ""
		if hasBadUTF8(&d) {
			sig = "C09:invalid-utf8-text"
		}
		if !conformant(&d) {
			return
		}
		if err != nil {
			r.FailSig("encode-valid", fmt.Sprintf("valid claims-set does not encode: %v", err), sig)
			return
		}
		// the model's decoder on the library's bytes, against the library's decoder (struct state, getters, verdict)
		if sig == "" && rng.Chance(50) {
			r.Case(class+"/decode-own-encoding", false, "decv "+hx(b), decv(b).line)
		}
		c2, err := psa.DecodeClaimsFromCBOR(append([]byte{}, b...))
		if err != nil {
			r.FailSig("decode-own-encoding", fmt.Sprintf("the encoding of a valid claims-set is rejected by the decoder: %v", err), sig)
			return
		}
		g1, g2 := gettersOnly(observe(c)), gettersOnly(observe(c2))
		if g1 != g2 {
			r.FailSig("roundtrip-getters", fmt.Sprintf("getter results differ after decode(encode):\n before: %s\n after:  %s", g1, g2), sig)
		}
		b2, err := psa.EncodeClaimsToCBOR(c2)
		if err != nil || !bytes.Equal(b, b2) {
			r.FailSig("roundtrip-bytes", fmt.Sprintf("re-encoding differs: %x vs %x (err %v)", b, b2, err), sig)
		}
	})
	extRoundTrips(r, rng, n/6)
	richExt(r, rng, 300, map[string]string{"cbor": "roundtrip", "json": "roundtrip"})
	renamedRoundTrips(r, rng, n/10)
	// decodable-but-invalid (and valid) tokens of the C04 generator: never lies
	nTok := 0
	genTokens(rng, false, func(tc tokCase) {
		if len(tc.extra) > 0 {
			return
		}
		nTok++
		if !thorough && nTok%3 != 0 {
			return
		}
		buf := tc.n.Bytes()
		c, err := psa.DecodeClaimsFromCBOR(append([]byte{}, buf...))
		if err != nil {
			return
		}
		d, okd := DescOf(c)
		if !okd {
			return
		}
		if hasNilComp(&d) {
			return // validation of such a set is C05's business
		}
		line, b, err, pan := encLine(c)
		r.Case("decoded-token/"+tc.class, false, "enc "+d.Line(), line)
		if pan || err != nil {
			return // an error is allowed for an invalid claims-set
		}
		c2, err := psa.DecodeClaimsFromCBOR(append([]byte{}, b...))
		sig := ""
		if hasBadUTF8(&d) {
			sig = "C09:invalid-utf8-text"
		}
		if err != nil {
			if conformant(&d) {
				r.FailSig("decode-own-encoding", fmt.Sprintf("re-encoding of a decoded valid token is rejected: %v", err), sig)
			}
			// for an invalid set: emitted bytes that do not decode do not "decode to something else"
			return
		}
		g1, g2 := gettersOnly(observe(c)), gettersOnly(observe(c2))
		if g1 != g2 {
			r.FailSig("never-lies", fmt.Sprintf("decoded-but-invalid claims-set re-encodes to bytes that decode to different getter results:\n before: %s\n after:  %s", g1, g2), sig)
		}
	})
	decodedThenChanged(r, rng, map[bool]int{false: 150, true: 4000}[thorough])
}

// extRoundTrips: a registered extension profile (base claims embedded + one optional integer
// claim, serialised through the embedding-aware codec) under the same two clauses.
func extRoundTrips(r *Run, rng *Rng, n int) {
	psa.VerifWithScratchRegistry(func() {
		exts := []ExtProfile{{Name: extName(1), Base: 1}, {Name: extName(2), Base: 2}}
		for _, e := range exts {
			if err := psa.RegisterProfile(e); err != nil {
				panic(err)
			}
		}
		for i := 0; i < n; i++ {
			e := exts[i%2]
			d := baseValid(rng, e.Base)
			d.Canon = e.Name
			d.Prof = sp(e.Name)
			normalise(&d)
			if hasBadUTF8(&d) {
				continue
			}
			if e.Base == 1 && d.NoSw != nil {
				// the profile-1 normalisation of an empty component list lives in P1Claims.MarshalCBOR,
				// which an embedding extension type does not go through: not a library property
				continue
			}
			c := e.GetClaims()
			for _, o := range historyOf(&d) {
				if err := o.Apply(c); err != nil {
					panic(fmt.Sprintf("ext setter %s: %v", o, err))
				}
			}
			var extra *int64
			switch i % 5 {
			case 1:
				extra = new(int64)
			case 2:
				v := int64(rng.U64())
				extra = &v
			case 3:
				v := int64(-1)
				extra = &v
			}
			invalid := false
			switch x := c.(type) {
			case *ExtP1Claims:
				x.Extra = extra
				if i%7 == 6 {
					x.VSI = sp("") // decodable but invalid
					invalid = true
				}
			case *ExtP2Claims:
				x.Extra = extra
				if i%7 == 6 {
					x.CertificationReference = sp("")
					invalid = true
				}
			}
			getExtra := func(ic psa.IClaims) string {
				var p *int64
				switch x := ic.(type) {
				case *ExtP1Claims:
					p = x.Extra
				case *ExtP2Claims:
					p = x.Extra
				default:
					return fmt.Sprintf("type %T", ic)
				}
				if p == nil {
					return "extra=_"
				}
				return fmt.Sprintf("extra=%d", *p)
			}
			class := fmt.Sprintf("extension/base%d", e.Base)
			r.ImplOnly(class, false, fmt.Sprintf("ext base=%d %s invalid=%v %s", e.Base, getExtra(c), invalid, d.Line()))
			var b []byte
			var err error
			if p, _ := safely(func() { b, err = psa.EncodeClaimsToCBOR(c) }); p {
				r.Fail("ext-no-panic", "encoding an extension claims-set panicked")
				continue
			}
			if err != nil {
				if !invalid {
					r.Fail("encode-valid", fmt.Sprintf("valid extension claims-set does not encode: %v", err))
				}
				continue
			}
			var c2 psa.IClaims
			decode := func(buf []byte) (psa.IClaims, error) {
				if e.Base == 2 {
					return psa.DecodeClaimsFromCBOR(buf) // dispatched on key 265
				}
				// CBOR dispatch knows profile 1 only by the absence of key 265 (iclaims.go), so an
				// extension built on profile 1 is decoded through its own claims type
				x := e.GetClaims()
				return x, x.(*ExtP1Claims).UnmarshalCBOR(buf)
			}
			if p, _ := safely(func() { c2, err = decode(append([]byte{}, b...)) }); p {
				r.Fail("ext-no-panic", "decoding an extension token panicked")
				continue
			}
			if err != nil {
				if !invalid {
					r.Fail("decode-own-encoding", fmt.Sprintf("extension profile: own encoding rejected: %v (%x)", err, b))
				}
				continue
			}
			g1 := gettersOnly(observe(c)) + " " + getExtra(c)
			g2 := gettersOnly(observe(c2)) + " " + getExtra(c2)
			if g1 != g2 {
				clause := "roundtrip-getters"
				if invalid {
					clause = "never-lies"
				}
				r.Fail(clause, fmt.Sprintf("extension profile: getter results differ after decode(encode):\n before: %s\n after:  %s", g1, g2))
			}
			if b2, err := psa.EncodeClaimsToCBOR(c2); err != nil || !bytes.Equal(b, b2) {
				r.Fail("roundtrip-bytes", fmt.Sprintf("extension profile: re-encoding differs: %x vs %x (%v)", b, b2, err))
			}
		}
	})
}

func sortedPairs(m *Node) string {
	ps := make([]string, len(m.Pairs))
	for i, p := range m.Pairs {
		ps[i] = hx(p[0].Bytes()) + ":" + hx(p[1].Bytes())
	}
	sort.Strings(ps)
	return strings.Join(ps, ",")
}

// wireFormatOK: the C10 judgement on emitted bytes, by the independent reader.
func wireFormatOK(b []byte, d *ClaimsDesc) string {
	n, rest, err := parseNode(b, 0)
	if err != nil {
		return "not well-formed CBOR: " + err.Error()
	}
	if len(rest) != 0 {
		return fmt.Sprintf("%d bytes follow the map", len(rest))
	}
	if n.Kind != kMap {
		return "not a map"
	}
	if !n.canonicalShape() {
		return "indefinite length or non-shortest head"
	}
	if hasDupKeys(n) {
		return "duplicate keys"
	}
	keys := p1KeyList
	if d.P == 2 {
		keys = p2KeyList
	}
	for _, p := range n.Pairs {
		k, ok := keyInt(p[0])
		found := false
		for _, x := range keys {
			if ok && x == k {
				found = true
			}
		}
		if !found {
			return "key outside the profile's key set: " + p[0].String()
		}
		if p[1].Kind == kSimple {
			return "null / simple value under key " + p[0].String()
		}
	}
	if d.P == 1 && lookupInt(n, -75006) != nil && lookupInt(n, -75007) != nil {
		return "both the component list and the no-measurements flag"
	}
	if sw := lookupInt(n, map[int]int64{1: -75006, 2: 2399}[d.P]); sw != nil {
		if sw.Kind != kArr {
			return "components not an array"
		}
		for _, e := range sw.Kids {
			if e.Kind != kMap || hasDupKeys(e) {
				return "component not a map / duplicate keys"
			}
			for _, cp := range e.Pairs {
				k, ok := keyInt(cp[0])
				if !ok || (k != 1 && k != 2 && k != 4 && k != 5 && k != 6) {
					return "component key outside {1,2,4,5,6}"
				}
				if cp[1].Kind == kSimple {
					return "null in component"
				}
			}
		}
	}
	// exactly the claims that are set, each with its type and exact value
	want := tokenOf(d)
	if sortedPairs(n) != sortedPairs(want) {
		return fmt.Sprintf("entries differ from the claims set:\n emitted: %s\n claims:  %s", n, want)
	}
	return ""
}

func runC10(r *Run, rng *Rng, thorough bool) {
	n := 3000
	if thorough {
		n = 200000
	}
	held := &heldOutputs{}
	type olderObj struct {
		c psa.IClaims
		d ClaimsDesc
	}
	var older []olderObj
	eachValidObject(rng, n, func(class string, c psa.IClaims, d ClaimsDesc) {
		if !conformant(&d) {
			return
		}
		var b []byte
		var err error
		pan, _ := safely(func() { b, err = psa.ValidateAndEncodeClaimsToCBOR(c) })
		line := "cbor=" + hx(b)
		if pan {
			line = "cbor=panic"
		} else if err != nil {
			line = "cbor=err"
		}
		r.Case(class, false, "enc "+d.Line(), line)
		if pan || err != nil {
			r.Fail("encode-valid", fmt.Sprintf("valid claims-set does not encode: %v", err))
			return
		}
		if why := wireFormatOK(b, &d); why != "" {
			r.Fail("wire-format", why)
		}
		// a claims-set built earlier and still alive is emitted with *its* claims, whatever was built, set or decoded
		// since (objects of one profile must not share a container)
		if len(older) > 0 {
			o := older[rng.Intn(len(older))]
			if ob, oerr := psa.ValidateAndEncodeClaimsToCBOR(o.c); oerr != nil {
				r.Fail("encode-valid", fmt.Sprintf("a valid claims-set built earlier no longer encodes after other claims-sets were built: %v", oerr))
			} else if why := wireFormatOK(ob, &o.d); why != "" {
				r.Fail("wire-format", "a claims-set built earlier, encoded after other claims-sets of its profile were built: "+why)
			}
		}
		dd := d
		older = append(older, olderObj{c, dd})
		if len(older) > 6 {
			older = older[1:]
		}
		// the same claims-set after a trip through the JSON codec is emitted in the same wire format
		if jb, jerr := psa.EncodeClaimsToJSON(c); jerr == nil && !hasBadUTF8(&d) {
			if cj, derr := psa.DecodeAndValidateClaimsFromJSON(jb); derr == nil {
				if bj, eerr := psa.ValidateAndEncodeClaimsToCBOR(cj); eerr != nil {
					r.Fail("encode-valid", fmt.Sprintf("a valid claims-set decoded from its own JSON does not encode to CBOR: %v", eerr))
				} else if why := wireFormatOK(bj, &d); why != "" {
					r.Fail("wire-format", "claims-set decoded from JSON, then encoded to CBOR: "+why)
				}
			}
		}
		// … and stays what it was: outputs of earlier calls are not overwritten by later ones
		held.add("ValidateAndEncodeClaimsToCBOR", b)
		if b2, err := psa.EncodeClaimsToCBOR(c); err == nil {
			held.add("EncodeClaimsToCBOR", b2)
		}
		if why := held.check(); why != "" {
			r.Fail("wire-format", why)
		}
	})
	// whatever the validating encoder emits is in the wire format: also for claims-sets the rules say are invalid, should
	// the validator ever let one through (the structural rules — one definite map, no key twice, nothing null, never
	// both the component list and the flag — do not depend on the verdict)
	eachClaimsCase(rng, false, n/2, func(class string, d ClaimsDesc, ndev int) {
		if conformant(&d) || hasNilComp(&d) {
			return
		}
		var b []byte
		var err error
		pan, _ := safely(func() { b, err = psa.ValidateAndEncodeClaimsToCBOR(d.Build()) })
		r.ImplOnly("nonconformant/"+class, true, "venc-nonconformant "+d.Line())
		if pan || err != nil {
			return
		}
		if why := wireFormatOK(b, &d); why != "" {
			r.Fail("wire-format", "emitted by the validating encoder for a claims-set outside the profile's rules: "+why)
		}
	})
	// payload of ValidateAndSign output — on a fresh Evidence, on an Evidence that was decoded from a token (claims
	// changed through a setter in between or not), on an Evidence decoded from a token whose payload is *not* in the
	// wire format (unknown key, non-shortest head), and on an Evidence that signed before
	ks := keys()
	nEv := 120
	if thorough {
		nEv = 6000
	}
	for i := 0; i < nEv; i++ {
		d := c19Claims(rng, true)
		k := ks[rng.Intn(2)]
		signer, _ := cose.NewSigner(k.algs[0], k.priv)
		var ev *psa.Evidence
		class := ""
		switch i % 4 {
		case 0:
			class = "vsign/fresh"
			ev = &psa.Evidence{}
			if ev.SetClaims(d.Build()) != nil {
				continue
			}
		case 1:
			class = "vsign/after-decode"
			tok, _, err := signedToken(d, k, k.algs[0])
			if err != nil {
				continue
			}
			ev, err = psa.DecodeEvidenceFromCOSE(tok)
			if err != nil {
				continue
			}
			if rng.Bool() {
				_ = ev.Claims.SetNonce(fill(Pick(rng, []int{32, 48, 64}), byte(rng.Intn(250))))
				_ = ev.Claims.SetClientID(int32(rng.Intn(100000)) - 50000)
			}
		case 2:
			class = "vsign/after-decode-of-foreign-payload"
			// a payload that decodes and validates but is not in the wire format: an unknown key and a non-shortest head
			t := tokenOf(d)
			t.Pairs = append(t.Pairs, [2]*Node{nUint(99999), nTstr("not a PSA claim")})
			if len(t.Pairs) > 1 {
				t.Pairs[1][0].W = 8
			}
			m := cose.NewSign1Message()
			m.Payload = t.Bytes()
			m.Headers.Protected.SetAlgorithm(k.algs[0])
			if m.Sign(rand.Reader, []byte(""), signer) != nil {
				continue
			}
			tok, err := m.MarshalCBOR()
			if err != nil {
				continue
			}
			ev, err = psa.DecodeEvidenceFromCOSE(tok)
			if err != nil {
				continue
			}
		default:
			class = "vsign/twice"
			ev = &psa.Evidence{}
			if ev.SetClaims(d.Build()) != nil {
				continue
			}
			if _, err := ev.ValidateAndSign(signer); err != nil {
				continue
			}
			_ = ev.Claims.SetNonce(fill(32, byte(rng.Intn(250))))
		}
		if ev.Claims.Validate() != nil {
			continue
		}
		now, ok := DescOf(ev.Claims)
		if !ok {
			continue
		}
		tok, err := ev.ValidateAndSign(signer)
		line := "cbor=err"
		var payload []byte
		if err == nil {
			_, payload, _, _ = envelopeParts(tok)
			line = "cbor=" + hx(payload)
		}
		r.Case(class, false, "enc "+now.Line(), line)
		if err != nil {
			r.Fail("encode-valid", fmt.Sprintf("ValidateAndSign of valid claims fails: %v", err))
			continue
		}
		if why := wireFormatOK(payload, &now); why != "" {
			r.Fail("wire-format", "payload of ValidateAndSign: "+why)
		}
	}
	extWire(r, rng, map[bool]int{false: 400, true: 10000}[thorough])
	componentCopies(r, rng, map[bool]int{false: 200, true: 5000}[thorough])
	illFormedTextNeverEmitted(r, rng, map[bool]int{false: 120, true: 3000}[thorough])
	richExt(r, rng, 300, map[string]string{"wire": "wire-format", "cbor": "encode-valid"})
}
