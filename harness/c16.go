package main

import (
	"fmt"
	"reflect"
	"sort"
	"strings"

	psa "github.com/veraison/psatoken"
)

func init() { props["C16"] = runC16 }

// ---- lenient extension claims types: decoding into them always succeeds, so that a decode call shows the
// dispatcher's choice and nothing else. The embedded nil interface only provides the method set. ----

type lenEat struct {
	psa.IClaims `cbor:"-" json:"-"`
	Prof        *string `cbor:"265,keyasint" json:"eat-profile"`
}
type lenPsa struct {
	psa.IClaims `cbor:"-" json:"-"`
	Prof        *string `cbor:"-75000,keyasint" json:"psa-profile"`
}
type lenMy struct {
	psa.IClaims `cbor:"-" json:"-"`
	Prof        *string `cbor:"265,keyasint" json:"my-profile"`
}
type lenOther struct {
	psa.IClaims `cbor:"-" json:"-"`
	Prof        *string `cbor:"-75000,keyasint" json:"other-profile"`
}
type lenNamed struct {
	psa.IClaims `cbor:"-" json:"-"`
	Profile     *string `json:"named-profile"` // found by field name
}

func (*lenEat) UnmarshalCBOR([]byte) error   { return nil }
func (*lenEat) UnmarshalJSON([]byte) error   { return nil }
func (*lenPsa) UnmarshalCBOR([]byte) error   { return nil }
func (*lenPsa) UnmarshalJSON([]byte) error   { return nil }
func (*lenMy) UnmarshalCBOR([]byte) error    { return nil }
func (*lenMy) UnmarshalJSON([]byte) error    { return nil }
func (*lenOther) UnmarshalCBOR([]byte) error { return nil }
func (*lenOther) UnmarshalJSON([]byte) error { return nil }
func (*lenNamed) UnmarshalCBOR([]byte) error { return nil }
func (*lenNamed) UnmarshalJSON([]byte) error { return nil }

// lenDeep: the profile field sits in the *second* embedded struct, behind one that has no profile field at all
type lenMeta struct {
	Note *string `cbor:"-75200,keyasint,omitempty" json:"note,omitempty"`
}
type lenInner struct {
	Prof *string `cbor:"265,keyasint" json:"deep-profile"`
}
type lenDeep struct {
	psa.IClaims `cbor:"-" json:"-"`
	lenMeta
	lenInner
}

// lenBad: the profile field found through embedding has no JSON tag (registration must be refused)
type lenBadInner struct {
	Prof *string `cbor:"265,keyasint"`
}
type lenBad struct {
	psa.IClaims `cbor:"-" json:"-"`
	lenMeta
	lenBadInner
}

func (*lenDeep) UnmarshalCBOR([]byte) error { return nil }
func (*lenDeep) UnmarshalJSON([]byte) error { return nil }
func (*lenBad) UnmarshalCBOR([]byte) error  { return nil }
func (*lenBad) UnmarshalJSON([]byte) error  { return nil }

// three distinct claims types that print alike (reflect.Type.String() is "main.twinClaims" for each — a type's printed
// name is not its identity): two with different profile members, one with no profile field at all
type twinProfile struct {
	name string
	mk   func() psa.IClaims
}

func (p twinProfile) GetName() string        { return p.name }
func (p twinProfile) GetClaims() psa.IClaims { return p.mk() }

func mkTwinA() psa.IClaims {
	type twinClaims struct {
		psa.IClaims `cbor:"-" json:"-"`
		Prof        *string `cbor:"265,keyasint" json:"twin-a-profile"`
	}
	return &twinClaims{}
}
func mkTwinB() psa.IClaims {
	type twinClaims struct {
		psa.IClaims `cbor:"-" json:"-"`
		Prof        *string `cbor:"265,keyasint" json:"twin-b-profile"`
	}
	return &twinClaims{}
}
func mkTwinC() psa.IClaims {
	type twinClaims struct {
		psa.IClaims `cbor:"-" json:"-"`
		X           *int64 `cbor:"1,keyasint" json:"x"`
	}
	return &twinClaims{}
}

// twinRegistrations: registration looks at the claims type it is given, not at one that merely prints the same.
func twinRegistrations(r *Run) {
	psa.VerifWithScratchRegistry(func() {
		na, nb, nc := "http://example.com/psa/twin/a", "http://example.com/psa/twin/b", "http://example.com/psa/twin/c"
		r.ImplOnly("twin-types", false, "twin-types "+fmt.Sprintf("%T %T %T", mkTwinA(), mkTwinB(), mkTwinC()))
		if err := psa.RegisterProfile(twinProfile{na, mkTwinA}); err != nil {
			r.Fail("register-outcome", fmt.Sprintf("registering the first twin type: %v", err))
			return
		}
		if err := psa.RegisterProfile(twinProfile{nb, mkTwinB}); err != nil {
			r.Fail("register-outcome", fmt.Sprintf("registering a second type that prints like the first: %v", err))
			return
		}
		if err := psa.RegisterProfile(twinProfile{nc, mkTwinC}); err == nil {
			r.Fail("register-outcome", "a claims type without a profile field was registered (a type printing the same was registered before)")
		}
		if _, err := psa.NewClaims(nc); err == nil {
			r.Fail("new-claims", "NewClaims knows a profile whose registration must have failed")
		}
		if _, tag, ok := psa.VerifRegistryEntry(nb); !ok || tag != "twin-b-profile" {
			r.Fail("registered-not-found", fmt.Sprintf("the second twin is stored with the profile member %q, its own is twin-b-profile", tag))
		}
		for _, tc := range []struct {
			member, name string
			want         psa.IClaims
		}{{"twin-a-profile", na, mkTwinA()}, {"twin-b-profile", nb, mkTwinB()}} {
			doc := fmt.Sprintf(`{%q:%q}`, tc.member, tc.name)
			for rep := 0; rep < 8; rep++ {
				c, err := psa.DecodeClaimsFromJSON([]byte(doc))
				if err != nil || reflect.TypeOf(c) != reflect.TypeOf(tc.want) {
					r.Fail("frame", fmt.Sprintf("a JSON token declaring %s under its member %s is decoded as %T (%v)", tc.name, tc.member, c, err))
					break
				}
			}
		}
	})
}

var lenTags = []string{"eat-profile", "psa-profile", "my-profile", "other-profile", "named-profile", "deep-profile"}

const lenKinds = 8

// tag: the JSON member identifying the profile of kind k; ok = false: no identifiable profile field
func (p LenProfile) tag() (string, bool) {
	switch {
	case p.Kind < 5:
		return lenTags[p.Kind], true
	case p.Kind == 6:
		return "deep-profile", true
	}
	return "", false
}

type LenProfile struct {
	Name string
	Kind int // 0..4: index into lenTags; 5 = no identifiable profile field; 6 = lenDeep; 7 = lenBad
}

func (p LenProfile) GetName() string { return p.Name }
func (p LenProfile) GetClaims() psa.IClaims {
	switch p.Kind {
	case 0:
		return &lenEat{}
	case 1:
		return &lenPsa{}
	case 2:
		return &lenMy{}
	case 3:
		return &lenOther{}
	case 4:
		return &lenNamed{}
	case 6:
		return &lenDeep{}
	case 7:
		return &lenBad{}
	}
	return &noTagClaims{}
}
func (p LenProfile) proto() string {
	tag := "-"
	if t, ok := p.tag(); ok {
		tag = hx([]byte(t))
	}
	return "R~" + hx([]byte(p.Name)) + "~" + tag + "~x"
}

func kindOf(c psa.IClaims) string {
	switch c.(type) {
	case *psa.P1Claims:
		return "p1"
	case *psa.P2Claims:
		return "p2"
	case nil:
		return "none"
	}
	return "x"
}

// regSnapshot: what every lookup of the register returns.
func regSnapshot() string {
	names := psa.VerifRegistryNames()
	sort.Strings(names)
	parts := make([]string, len(names))
	for i, n := range names {
		p, tag, _ := psa.VerifRegistryEntry(n)
		parts[i] = fmt.Sprintf("%q->%T/%v/%s", n, p, p, tag)
	}
	return strings.Join(parts, ";")
}

type c16Probe struct {
	cbor     []byte
	json     *JTree
	declared string   // CBOR: the name in key 265 ("" when none)
	mentions []string // JSON: profile members carried with a non-null value
}

func (p c16Probe) run() string {
	if p.json != nil {
		text := []byte(p.json.Text())
		one := func(t []byte) string {
			c, err := psa.DecodeClaimsFromJSON(t)
			if err != nil {
				return "j=error"
			}
			return "j=" + kindOf(c)
		}
		res := one(text)
		// the same document with its strings written with JSON escapes (\/ for /, \u0026 for &) says the same
		esc := strings.NewReplacer("/", `\/`, "&", `\u0026`, "_", `\u005f`).Replace(string(text))
		if esc != string(text) {
			if r2 := one([]byte(esc)); r2 != res {
				return res + " but-with-string-escapes:" + r2
			}
		}
		return res
	}
	c, err := psa.DecodeClaimsFromCBOR(append([]byte{}, p.cbor...))
	if err != nil {
		return "impl=none"
	}
	return "impl=" + kindOf(c)
}

func (p c16Probe) proto() string {
	if p.json != nil {
		return "J~" + p.json.Proto()
	}
	return "C~" + hx(p.cbor)
}

func c16Names(i int) string {
	if i == 3 {
		return "HTTP://example.com/reg/3?a=1&b=2" // a spelling that URL printing would change, characters JSON escapes
	}
	return fmt.Sprintf("http://example.com/reg/%d", i)
}

func genProbe(rng *Rng, names []string) c16Probe {
	val := func() (*Node, *JTree, string) {
		switch rng.Intn(8) {
		case 0:
			return nNull(), jN(), ""
		case 1:
			return nTstr("http://example.com/unregistered"), jS("http://example.com/unregistered"), "http://example.com/unregistered"
		case 2:
			return nUint(5), jI(5), "!"
		default:
			n := Pick(rng, names)
			return nTstr(n), jS(n), n
		}
	}
	if rng.Bool() {
		// CBOR: entries under 265 and/or -75000, plus an unrelated key
		t := nMap()
		declared := ""
		if rng.Chance(75) {
			n, _, d := val()
			t.Pairs = append(t.Pairs, [2]*Node{nUint(265), n})
			declared = d
		}
		if rng.Chance(40) {
			// key -75000 plays no part in CBOR dispatch; keep it a text or null so that the typed decode that follows
			// dispatch cannot fail on it (the outcome then shows the dispatcher's choice alone)
			n, _, d := val()
			for d == "!" {
				n, _, d = val()
			}
			t.Pairs = append(t.Pairs, [2]*Node{nInt(-75000), n})
		}
		if rng.Chance(30) {
			t.Pairs = append(t.Pairs, [2]*Node{nUint(2394), nInt(7)})
		}
		return c16Probe{cbor: t.Bytes(), declared: declared}
	}
	doc := jO()
	var mentions []string
	used := map[string]bool{}
	for k := 0; k < rng.Intn(4); k++ {
		tag := Pick(rng, lenTags)
		if used[tag] {
			continue
		}
		used[tag] = true
		_, j, _ := val()
		doc.Mem = append(doc.Mem, jM(tag, j))
		if j.Kind != jNull {
			mentions = append(mentions, tag)
		}
	}
	if rng.Chance(30) {
		doc.Mem = append(doc.Mem, jM("psa-client-id", jI(7)))
	}
	return c16Probe{json: doc, mentions: mentions}
}

func contains(xs []string, x string) bool {
	for _, y := range xs {
		if y == x {
			return true
		}
	}
	return false
}

func runC16(r *Run, rng *Rng, thorough bool) {
	ptagCases(r)
	nHist := 800
	if thorough {
		nHist = 6000
	}
	for h := 0; h < nHist; h++ {
		nExtra := rng.Intn(9) // 0..8 extra profiles
		var pool []LenProfile
		for i := 0; i < nExtra; i++ {
			pool = append(pool, LenProfile{c16Names(i), rng.Intn(lenKinds)})
		}
		// candidates that must fail: builtin names, the default entry's name
		pool = append(pool, LenProfile{psa.Profile1Name, 0}, LenProfile{psa.Profile2Name, 1}, LenProfile{"", rng.Intn(5)})
		names := []string{psa.Profile1Name, psa.Profile2Name, "", "PSA_IOT_PROFILE_2"}
		for i := 0; i < nExtra; i++ {
			names = append(names, c16Names(i))
		}
		// fixed probes watched across the whole history (frame clause)
		var probes []c16Probe
		for i := 0; i < 24; i++ {
			probes = append(probes, genProbe(rng, names[:len(names)]))
		}
		var protos, results []string
		var fails [][2]string
		fail := func(clause, detail string) { fails = append(fails, [2]string{clause, detail}) }
		psa.VerifWithScratchRegistry(func() {
			registered := map[string]LenProfile{}
			before := make([]string, len(probes))
			for i, p := range probes {
				before[i] = p.run()
			}
			nOps := 6 + rng.Intn(20)
			for k := 0; k < nOps; k++ {
				switch c := rng.Intn(10); {
				case c < 4: // register / re-register
					p := Pick(rng, pool)
					snap := regSnapshot()
					err := psa.RegisterProfile(p)
					protos = append(protos, p.proto())
					results = append(results, okErr(err))
					_, dup := registered[p.Name]
					builtin := p.Name == psa.Profile1Name || p.Name == psa.Profile2Name || p.Name == "" // "" is the default entry
					_, tagOK := p.tag()
					wantErr := dup || builtin || !tagOK
					if (err != nil) != wantErr {
						fail("register-outcome", fmt.Sprintf("RegisterProfile(%q, kind %d): err=%v, expected failure=%v", p.Name, p.Kind, err, wantErr))
					}
					after := regSnapshot()
					if err != nil {
						if after != snap {
							fail("failed-registration-changes-lookups", fmt.Sprintf("register changed by a failed registration of %q:\n%s\n%s", p.Name, snap, after))
						}
					} else {
						registered[p.Name] = p
						if !strings.Contains(after, fmt.Sprintf("%q->", p.Name)) {
							fail("registered-not-found", fmt.Sprintf("%q registered but not in the register", p.Name))
						}
						// every earlier entry still there, unchanged (append-only)
						for _, ent := range strings.Split(snap, ";") {
							if ent != "" && !strings.Contains(after, ent) {
								fail("append-only", fmt.Sprintf("registering %q changed or removed the entry %s", p.Name, ent))
							}
						}
						if len(psa.VerifRegistryNames()) != strings.Count(snap, ";")+2 {
							fail("append-only", fmt.Sprintf("registering %q: %d entries afterwards", p.Name, len(psa.VerifRegistryNames())))
						}
					}
					// frame: probes that do not declare this profile decode exactly as before
					for i, pr := range probes {
						now := pr.run()
						declares := false
						if pr.json != nil {
							ptag, pok := p.tag()
							declares = pok && contains(pr.mentions, ptag)
						} else {
							declares = pr.declared == p.Name
						}
						if now != before[i] && (err != nil || !declares) {
							fail("frame", fmt.Sprintf("RegisterProfile(%q kind %d, err=%v) changed the outcome of %s from %s to %s although it does not declare that profile",
								p.Name, p.Kind, err, pr.proto(), before[i], now))
						}
						before[i] = now
					}
				case c < 6: // NewClaims
					n := Pick(rng, names)
					cl, err := psa.NewClaims(n)
					protos = append(protos, "N~"+hx([]byte(n)))
					res := "impl=none"
					if err == nil {
						res = "impl=" + kindOf(cl)
					}
					results = append(results, res)
					_, isReg := registered[n]
					known := isReg || n == "" || n == psa.Profile1Name || n == psa.Profile2Name
					if (err == nil) != known {
						fail("new-claims", fmt.Sprintf("NewClaims(%q): err=%v, registered=%v", n, err, known))
					}
				default: // decode (CBOR or JSON), JSON repeated to cover map iteration orders
					pr := genProbe(rng, names)
					if rng.Chance(35) {
						// directed: a document carrying the profile members of two registered profiles at once
						type nt struct{ name, tag string }
						cands := []nt{{psa.Profile1Name, "psa-profile"}, {psa.Profile2Name, "eat-profile"}}
						for _, lp := range registered {
							if lt, lok := lp.tag(); lok {
								cands = append(cands, nt{lp.Name, lt})
							}
						}
						a, b := Pick(rng, cands), Pick(rng, cands)
						if a.tag != b.tag {
							doc := jO(jM(a.tag, jS(a.name)), jM(b.tag, jS(b.name)))
							if rng.Bool() {
								doc.Mem = append(doc.Mem, jM("psa-client-id", jI(1)))
							}
							pr = c16Probe{json: doc, mentions: []string{a.tag, b.tag}}
						}
					}
					first := pr.run()
					protos = append(protos, pr.proto())
					results = append(results, first)
					if strings.Contains(first, "but-with-string-escapes") {
						fail("frame", fmt.Sprintf("DecodeClaimsFromJSON(%s): %s (the same document, its strings written with JSON escapes)", pr.json.Text(), first))
					}
					// a CBOR token declaring (key 265) a name that was registered is decoded with that registration's type
					if pr.json == nil && pr.declared != "" && pr.declared != "!" {
						if lp, isReg := registered[pr.declared]; isReg {
							if _, okTag := lp.tag(); okTag && first != "impl=x" {
								fail("registered-not-found", fmt.Sprintf("a CBOR token declaring the registered profile %q is decoded as %s", pr.declared, first))
							}
						}
					}
					if pr.json != nil {
						for rep := 0; rep < 63; rep++ {
							if again := pr.run(); again != first {
								fail("json-dispatch-order", fmt.Sprintf("DecodeClaimsFromJSON(%s) gives %s and %s on different calls", pr.json.Text(), first, again))
								break
							}
						}
					}
				}
			}
		})
		class := fmt.Sprintf("history/%d-extra", nExtra)
		r.Case(class, false, "reg ops="+strings.Join(protos, "|"), "r="+strings.Join(results, ","))
		for _, f := range fails {
			r.Fail(f[0], f[1])
		}
	}
	c16Instances(r, rng, thorough)
	twinRegistrations(r)
}

// c16Instances: every call that creates or decodes claims returns a fresh instance sharing no mutable state
// with earlier results — no memory reachable from two results, and mutating one (through setters and in place
// through every pointer it holds) changes nothing observable in the others.
func c16Instances(r *Run, rng *Rng, thorough bool) {
	reps := 120
	if thorough {
		reps = 1500
	}
	for rep := 0; rep < reps; rep++ {
		p := 1 + rep%2
		d := c19Claims(rng, true)
		for d.P != p {
			d = c19Claims(rng, true)
		}
		tok := tokenOf(d).Bytes()
		jtxt := []byte(jsonOf(d).Text())
		ext := ExtProfile{Name: extName(900 + rep%3), Base: p}
		var objs []psa.IClaims
		var labels []string
		var fails [][2]string
		psa.VerifWithScratchRegistry(func() {
			_ = psa.RegisterProfile(ext)
			mk := []struct {
				label string
				f     func() (psa.IClaims, error)
			}{
				{"NewClaims", func() (psa.IClaims, error) { return psa.NewClaims(canonOf(p)) }},
				{"NewClaims", func() (psa.IClaims, error) { return psa.NewClaims(canonOf(p)) }},
				{"NewClaims-default", func() (psa.IClaims, error) { return psa.NewClaims("") }},
				{"NewClaims-ext", func() (psa.IClaims, error) { return psa.NewClaims(ext.Name) }},
				{"NewClaims-ext", func() (psa.IClaims, error) { return psa.NewClaims(ext.Name) }},
				{"DecodeCBOR", func() (psa.IClaims, error) { return psa.DecodeClaimsFromCBOR(append([]byte{}, tok...)) }},
				{"DecodeCBOR", func() (psa.IClaims, error) { return psa.DecodeClaimsFromCBOR(append([]byte{}, tok...)) }},
				{"DecodeJSON", func() (psa.IClaims, error) { return psa.DecodeClaimsFromJSON(append([]byte{}, jtxt...)) }},
				{"DecodeJSON", func() (psa.IClaims, error) { return psa.DecodeClaimsFromJSON(append([]byte{}, jtxt...)) }},
				{"NewClaims", func() (psa.IClaims, error) { return psa.NewClaims(canonOf(p)) }},
			}
			for _, m := range mk {
				c, err := m.f()
				if err != nil || c == nil {
					continue
				}
				objs = append(objs, c)
				labels = append(labels, m.label)
			}
			// (1) no memory reachable from two results
			regs := make([][]memRegion, len(objs))
			for i, o := range objs {
				regs[i] = regionsOf(o)
			}
			for i := range objs {
				for j := i + 1; j < len(objs); j++ {
					if sh := sharedRegion(regs[i], regs[j]); sh != nil {
						fails = append(fails, [2]string{"instances-share-memory", fmt.Sprintf("%s #%d (%T) and %s #%d (%T) both refer to the same memory: %s / %s",
							labels[i], i, objs[i], labels[j], j, objs[j], sh[0].path, sh[1].path)})
					}
				}
			}
			// (2) mutate one instance every way a caller can; the others read the same as before
			victim := rng.Intn(len(objs))
			before := make([]string, len(objs))
			for i, o := range objs {
				before[i] = observe(o).String()
			}
			mutateEverything(rng, objs[victim])
			for i, o := range objs {
				if i == victim {
					continue
				}
				if now := observe(o).String(); now != before[i] {
					fails = append(fails, [2]string{"instances-share-state", fmt.Sprintf("mutating %s #%d changed what %s #%d reads:\n%s\n%s", labels[victim], victim, labels[i], i, before[i], now)})
				}
			}
			// and what is created afterwards is pristine
			c1, _ := psa.NewClaims(canonOf(p))
			c2, _ := psa.NewClaims(canonOf(p))
			if c1 != nil && c2 != nil {
				fresh := observe(c2).String()
				mutateEverything(rng, c1)
				c3, _ := psa.NewClaims(canonOf(p))
				if now := observe(c3).String(); now != fresh {
					fails = append(fails, [2]string{"instances-share-state", fmt.Sprintf("a claims-set created after another was mutated is not pristine:\n%s\n%s", fresh, now)})
				}
			}
		})
		r.ImplOnly(fmt.Sprintf("instances/p%d", p), false, fmt.Sprintf("instances p%d %s", p, d.Line()))
		for _, f := range fails {
			r.Fail(f[0], f[1])
		}
	}
}

// mutateEverything: all setters with fresh values, then every reachable byte scribbled in place.
func mutateEverything(rng *Rng, c psa.IClaims) {
	safely(func() {
		_ = c.SetClientID(int32(rng.Intn(1000) + 77777))
		_ = c.SetSecurityLifeCycle(0x3000 + uint16(rng.Intn(200)))
		_ = c.SetImplID(fill(32, 0xe1))
		_ = c.SetBootSeed(fill(32, 0xe2))
		_ = c.SetNonce(fill(48, 0xe3))
		_ = c.SetInstID(append([]byte{0x01}, fill(32, 0xe4)...))
		_ = c.SetVSI("https://mutated.example/vsi")
		_ = c.SetCertificationReference("9999999999999-99999")
		_ = c.SetCertificationReference("9999999999999")
		comp := psa.SwComponent{}
		mv, sid := fill(32, 0xe5), fill(32, 0xe6)
		comp.MeasurementValue, comp.SignerID = &mv, &sid
		_ = c.SetSoftwareComponents([]psa.ISwComponent{&comp})
	})
	safely(func() { scribble(c) })
}
