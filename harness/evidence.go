package main

// Keys, signers (honest and faulty) and Evidence operation histories shared by
// C02, C03, C19, C20.

import (
	"crypto"
	"crypto/ecdsa"
	"crypto/ed25519"
	"crypto/elliptic"
	"crypto/rand"
	"crypto/rsa"
	"errors"
	"fmt"
	"io"
	"reflect"
	"strings"
	"sync"

	cose "github.com/veraison/go-cose"
	psa "github.com/veraison/psatoken"
)

type keyInfo struct {
	id     int
	family string // ec ed rsa
	priv   crypto.Signer
	pub    crypto.PublicKey
	algs   []cose.Algorithm // algorithms this key signs with
}

var (
	keyOnce sync.Once
	allKeys []*keyInfo
)

func keys() []*keyInfo {
	keyOnce.Do(func() {
		add := func(family string, priv crypto.Signer, algs ...cose.Algorithm) {
			allKeys = append(allKeys, &keyInfo{id: len(allKeys), family: family, priv: priv, pub: priv.Public(), algs: algs})
		}
		for i := 0; i < 2; i++ {
			k, _ := ecdsa.GenerateKey(elliptic.P256(), rand.Reader)
			add("ec", k, cose.AlgorithmES256)
		}
		k384, _ := ecdsa.GenerateKey(elliptic.P384(), rand.Reader)
		add("ec", k384, cose.AlgorithmES384)
		k521, _ := ecdsa.GenerateKey(elliptic.P521(), rand.Reader)
		add("ec", k521, cose.AlgorithmES512)
		for i := 0; i < 2; i++ {
			_, ed, _ := ed25519.GenerateKey(rand.Reader)
			add("ed", ed, cose.AlgorithmEdDSA)
		}
		for i := 0; i < 2; i++ {
			r, err := rsa.GenerateKey(rand.Reader, 2048)
			if err != nil {
				panic(err)
			}
			add("rsa", r, cose.AlgorithmPS256, cose.AlgorithmPS384, cose.AlgorithmPS512)
		}
	})
	return allKeys
}

func keysProto() string {
	parts := []string{}
	for _, k := range keys() {
		parts = append(parts, fmt.Sprintf("%d:%s", k.id, k.family))
	}
	return strings.Join(parts, ",")
}

// faultSigner: a cose.Signer that misbehaves.
type faultSigner struct {
	alg  cose.Algorithm
	mode string // failing | emptysig
}

func (f *faultSigner) Algorithm() cose.Algorithm { return f.alg }
func (f *faultSigner) Sign(_ io.Reader, _ []byte) ([]byte, error) {
	if f.mode == "failing" {
		return nil, errors.New("injected signer fault")
	}
	return []byte{}, nil
}

// ---- operations on one Evidence ----

type evOp struct {
	Kind  string // setclaims sign vsign unmarshal verify
	D     *ClaimsDesc
	Key   int
	Alg   cose.Algorithm
	Mode  string // good failing emptysig
	Bytes []byte
	sig   []byte // filled in after execution (oracle reply for the model)
}

func (o *evOp) proto() string {
	switch o.Kind {
	case "setclaims":
		return "setclaims:" + strings.ReplaceAll(o.D.Line(), " ", "&")
	case "sign", "vsign":
		return fmt.Sprintf("%s:%d:%d:%s:x%s", o.Kind, o.Key, int64(o.Alg), o.Mode, hx(o.sig))
	case "unmarshal":
		return "unmarshal:" + hx(o.Bytes)
	case "know":
		return fmt.Sprintf("know:%d:%s", o.Key, hx(o.Bytes))
	case "mutate":
		return "mutate:" + strings.ReplaceAll(o.D.Line(), " ", "&")
	case "reattach":
		return "reattach"
	default:
		return fmt.Sprintf("verify:%d", o.Key)
	}
}

type evStep struct {
	res   string // ok err panic
	token []byte
}

type evRun struct {
	ev       *psa.Evidence
	steps    []evStep
	replaced bool // SetClaims since the last successful/attempted sign or decode
}

func (o *evOp) signer() cose.Signer {
	if o.Mode != "good" {
		return &faultSigner{alg: o.Alg, mode: o.Mode}
	}
	s, err := cose.NewSigner(o.Alg, keys()[o.Key].priv)
	if err != nil {
		panic(err)
	}
	return s
}

// exec runs the operation; the real signature bytes are recorded in the op.
func (o *evOp) exec(ev *psa.Evidence) evStep {
	var st evStep
	var err error
	pan, _ := safely(func() {
		switch o.Kind {
		case "setclaims":
			err = ev.SetClaims(o.D.Build())
		case "mutate":
			// the application changes the attached claims object behind the Evidence's back: in place
			// when the types allow (the Evidence keeps the very same object), else by assignment
			n := o.D.Build()
			if ev.Claims != nil && reflect.TypeOf(ev.Claims) == reflect.TypeOf(n) {
				reflect.ValueOf(ev.Claims).Elem().Set(reflect.ValueOf(n).Elem())
			} else {
				ev.Claims = n
			}
		case "reattach":
			err = ev.SetClaims(ev.Claims)
		case "sign":
			st.token, err = ev.Sign(o.signer())
		case "vsign":
			st.token, err = ev.ValidateAndSign(o.signer())
		case "unmarshal":
			err = ev.UnmarshalCOSE(append([]byte{}, o.Bytes...))
		case "verify":
			err = ev.Verify(keys()[o.Key].pub)
		}
	})
	if o.Kind == "know" {
		st.res = "-"
		return st
	}
	switch {
	case pan:
		st.res = "panic"
	case err != nil:
		st.res = "err"
	default:
		st.res = "ok"
	}
	if (o.Kind == "sign" || o.Kind == "vsign") && !pan {
		if m := ev.VerifMessage(); m != nil {
			o.sig = append([]byte{}, m.Signature...)
		}
	}
	return st
}

func evClaimsDesc(ev *psa.Evidence) string {
	if ev.Claims == nil {
		return "nil"
	}
	d, ok := DescOf(ev.Claims)
	if !ok {
		return "ood"
	}
	return strings.ReplaceAll(d.Line(), " ", "&")
}

func stepString(o *evOp, st evStep) string {
	if (o.Kind == "sign" || o.Kind == "vsign") && st.res == "ok" {
		return "ok:" + hx(st.token)
	}
	return st.res
}

// signedToken: a token for claims d signed by key k with alg a.
func signedToken(d *ClaimsDesc, k *keyInfo, alg cose.Algorithm) ([]byte, *psa.Evidence, error) {
	s, err := cose.NewSigner(alg, k.priv)
	if err != nil {
		return nil, nil, err
	}
	ev := &psa.Evidence{Claims: d.Build()}
	tok, err := ev.Sign(s)
	return tok, ev, err
}

// envelopeParts: protected content, payload, signature of a decoded token (independent reader).
func envelopeParts(tok []byte) (prot, payload, sig []byte, ok bool) {
	n, rest, err := parseNode(tok, 0)
	if err != nil || len(rest) != 0 || n.Kind != kTag || n.N != 18 {
		return
	}
	a := n.Kids[0]
	if a.Kind != kArr || len(a.Kids) != 4 || a.Kids[0].Kind != kBstr || a.Kids[2].Kind != kBstr || a.Kids[3].Kind != kBstr {
		return
	}
	return a.Kids[0].B, a.Kids[2].B, a.Kids[3].B, true
}
