// harness: generates cases, runs the real psatoken library on them in-process,
// evaluates each property on the implementation (P_impl) and writes the line
// protocol for the Lean driver (DESIGN.md §2.1 T3, §2.2).
//
//	harness run -prop C14 -tier quick -seed 1 -dir .work/C14
package main

import (
	"flag"
	"fmt"
	"os"
)

type propFn func(r *Run, rng *Rng, thorough bool)

var props = map[string]propFn{}

func main() {
	if len(os.Args) < 2 {
		fmt.Fprintln(os.Stderr, "usage: harness run|worker …")
		os.Exit(2)
	}
	switch os.Args[1] {
	case "run":
		fs := flag.NewFlagSet("run", flag.ExitOnError)
		prop := fs.String("prop", "", "property id")
		tier := fs.String("tier", "quick", "quick|thorough")
		seed := fs.Int64("seed", 1, "PRNG seed")
		dir := fs.String("dir", "", "output directory")
		fs.Parse(os.Args[2:])
		f, ok := props[*prop]
		if !ok || *dir == "" {
			fmt.Fprintln(os.Stderr, "unknown property or missing -dir")
			os.Exit(2)
		}
		r, err := NewRun(*prop, *tier, *seed, *dir)
		if err != nil {
			fmt.Fprintln(os.Stderr, err)
			os.Exit(2)
		}
		f(r, NewRng(uint64(*seed)), *tier == "thorough")
		if err := r.Close(); err != nil {
			fmt.Fprintln(os.Stderr, err)
			os.Exit(2)
		}
	case "worker":
		workerMain(os.Args[2:])
	default:
		fmt.Fprintln(os.Stderr, "unknown subcommand")
		os.Exit(2)
	}
}
