package main

// Independent CBOR reader (not the library's): bytes -> Node, recording head
// widths and indefinite lengths, so that C10 can judge emitted bytes.

import (
	"encoding/binary"
	"errors"
)

var errTrunc = errors.New("truncated")

func parseHead(b []byte) (mt byte, ai byte, n uint64, w int, rest []byte, err error) {
	if len(b) == 0 {
		return 0, 0, 0, 0, nil, errTrunc
	}
	mt, ai = b[0]>>5, b[0]&0x1f
	b = b[1:]
	switch {
	case ai < 24:
		return mt, ai, uint64(ai), 0, b, nil
	case ai == 24:
		if len(b) < 1 {
			return 0, 0, 0, 0, nil, errTrunc
		}
		return mt, ai, uint64(b[0]), 1, b[1:], nil
	case ai == 25:
		if len(b) < 2 {
			return 0, 0, 0, 0, nil, errTrunc
		}
		return mt, ai, uint64(binary.BigEndian.Uint16(b)), 2, b[2:], nil
	case ai == 26:
		if len(b) < 4 {
			return 0, 0, 0, 0, nil, errTrunc
		}
		return mt, ai, uint64(binary.BigEndian.Uint32(b)), 4, b[4:], nil
	case ai == 27:
		if len(b) < 8 {
			return 0, 0, 0, 0, nil, errTrunc
		}
		return mt, ai, binary.BigEndian.Uint64(b), 8, b[8:], nil
	case ai == 31:
		return mt, ai, 0, 0, b, nil
	}
	return 0, 0, 0, 0, nil, errors.New("reserved additional information")
}

func shortest(n uint64, w int) bool {
	switch {
	case n < 24:
		return w == 0
	case n < 1<<8:
		return w == 1
	case n < 1<<16:
		return w == 2
	case n < 1<<32:
		return w == 4
	}
	return w == 8
}

// parseNode reads one item; depth guards the recursion.
func parseNode(b []byte, depth int) (*Node, []byte, error) {
	if depth > 64 {
		return nil, nil, errors.New("too deep")
	}
	mt, ai, n, w, rest, err := parseHead(b)
	if err != nil {
		return nil, nil, err
	}
	fw := w
	if shortest(n, w) {
		fw = 0
	} else if w == 0 {
		fw = 0
	}
	switch mt {
	case 0, 1:
		if ai == 31 {
			return nil, nil, errors.New("bad ai")
		}
		return &Node{Kind: int(mt), N: n, W: fw}, rest, nil
	case 2, 3:
		kind := kBstr
		if mt == 3 {
			kind = kTstr
		}
		if ai == 31 {
			out := &Node{Kind: kind, Indef: true}
			for {
				if len(rest) == 0 {
					return nil, nil, errTrunc
				}
				if rest[0] == 0xff {
					return out, rest[1:], nil
				}
				c, r, err := parseNode(rest, depth+1)
				if err != nil || c.Kind != kind || c.Indef {
					return nil, nil, errors.New("bad chunk")
				}
				out.B = append(out.B, c.B...)
				rest = r
			}
		}
		if uint64(len(rest)) < n {
			return nil, nil, errTrunc
		}
		return &Node{Kind: kind, B: append([]byte{}, rest[:n]...), W: fw}, rest[n:], nil
	case 4:
		out := &Node{Kind: kArr, W: fw, Kids: []*Node{}}
		if ai == 31 {
			out.Indef = true
			for {
				if len(rest) == 0 {
					return nil, nil, errTrunc
				}
				if rest[0] == 0xff {
					return out, rest[1:], nil
				}
				c, r, err := parseNode(rest, depth+1)
				if err != nil {
					return nil, nil, err
				}
				out.Kids = append(out.Kids, c)
				rest = r
			}
		}
		if n > uint64(len(rest)) {
			return nil, nil, errTrunc
		}
		for i := uint64(0); i < n; i++ {
			c, r, err := parseNode(rest, depth+1)
			if err != nil {
				return nil, nil, err
			}
			out.Kids = append(out.Kids, c)
			rest = r
		}
		return out, rest, nil
	case 5:
		out := &Node{Kind: kMap, W: fw}
		if ai == 31 {
			out.Indef = true
			for {
				if len(rest) == 0 {
					return nil, nil, errTrunc
				}
				if rest[0] == 0xff {
					return out, rest[1:], nil
				}
				k, r, err := parseNode(rest, depth+1)
				if err != nil {
					return nil, nil, err
				}
				v, r2, err := parseNode(r, depth+1)
				if err != nil {
					return nil, nil, err
				}
				out.Pairs = append(out.Pairs, [2]*Node{k, v})
				rest = r2
			}
		}
		if n > uint64(len(rest)) {
			return nil, nil, errTrunc
		}
		for i := uint64(0); i < n; i++ {
			k, r, err := parseNode(rest, depth+1)
			if err != nil {
				return nil, nil, err
			}
			v, r2, err := parseNode(r, depth+1)
			if err != nil {
				return nil, nil, err
			}
			out.Pairs = append(out.Pairs, [2]*Node{k, v})
			rest = r2
		}
		return out, rest, nil
	case 6:
		if ai == 31 {
			return nil, nil, errors.New("bad ai")
		}
		c, r, err := parseNode(rest, depth+1)
		if err != nil {
			return nil, nil, err
		}
		return &Node{Kind: kTag, N: n, W: fw, Kids: []*Node{c}}, r, nil
	default:
		switch {
		case ai < 24:
			return &Node{Kind: kSimple, N: n}, rest, nil
		case ai == 24:
			if n < 32 {
				return nil, nil, errors.New("bad simple")
			}
			return &Node{Kind: kSimple, N: n}, rest, nil
		case ai == 25:
			return &Node{Kind: kF16, N: n}, rest, nil
		case ai == 26:
			return &Node{Kind: kF32, N: n}, rest, nil
		case ai == 27:
			return &Node{Kind: kF64, N: n}, rest, nil
		}
		return nil, nil, errors.New("break")
	}
}

// canonicalShape: definite lengths and shortest heads throughout
func (n *Node) canonicalShape() bool {
	if n.Indef || n.W != 0 {
		return false
	}
	for _, k := range n.Kids {
		if !k.canonicalShape() {
			return false
		}
	}
	for _, p := range n.Pairs {
		if !p[0].canonicalShape() || !p[1].canonicalShape() {
			return false
		}
	}
	return true
}
