package main

import (
	"fmt"
	"reflect"
	"unsafe"
)

// memRegion: a piece of heap memory an object graph refers to (through a pointer, slice or map).
type memRegion struct {
	lo, hi uintptr // [lo, hi)
	path   string
}

// regionsOf walks everything reachable from v (exported and unexported fields) and lists the memory
// it points to. Strings are immutable in Go and are left out; so are funcs, channels and type data.
func regionsOf(v interface{}) []memRegion {
	var out []memRegion
	seen := map[uintptr]bool{}
	var walk func(rv reflect.Value, path string, depth int)
	walk = func(rv reflect.Value, path string, depth int) {
		if depth > 40 || !rv.IsValid() {
			return
		}
		switch rv.Kind() {
		case reflect.Ptr:
			if rv.IsNil() {
				return
			}
			p := rv.Pointer()
			sz := rv.Type().Elem().Size()
			if sz > 0 {
				if seen[p] {
					return
				}
				seen[p] = true
				out = append(out, memRegion{p, p + sz, path})
			}
			walk(rv.Elem(), path+"*", depth+1)
		case reflect.Interface:
			if !rv.IsNil() {
				walk(rv.Elem(), path, depth+1)
			}
		case reflect.Slice:
			if rv.IsNil() || rv.Cap() == 0 {
				return
			}
			p := rv.Pointer()
			sz := uintptr(rv.Cap()) * rv.Type().Elem().Size()
			if sz > 0 && !seen[p] {
				seen[p] = true
				out = append(out, memRegion{p, p + sz, path + "[]"})
			}
			if k := rv.Type().Elem().Kind(); k == reflect.Ptr || k == reflect.Interface || k == reflect.Slice || k == reflect.Struct || k == reflect.Map || k == reflect.Array {
				for i := 0; i < rv.Len(); i++ {
					walk(rv.Index(i), fmt.Sprintf("%s[%d]", path, i), depth+1)
				}
			}
		case reflect.Array:
			for i := 0; i < rv.Len(); i++ {
				walk(rv.Index(i), fmt.Sprintf("%s[%d]", path, i), depth+1)
			}
		case reflect.Map:
			if rv.IsNil() {
				return
			}
			p := rv.Pointer()
			if !seen[p] {
				seen[p] = true
				out = append(out, memRegion{p, p + 1, path + "{map}"})
			}
			it := rv.MapRange()
			for it.Next() {
				walk(it.Value(), path+"{}", depth+1)
			}
		case reflect.Struct:
			for i := 0; i < rv.NumField(); i++ {
				walk(rv.Field(i), path+"."+rv.Type().Field(i).Name, depth+1)
			}
		}
	}
	walk(reflect.ValueOf(v), "", 0)
	return out
}

// sharedRegion: some memory that both graphs refer to (nil when they are disjoint).
func sharedRegion(a, b []memRegion) *[2]memRegion {
	for _, x := range a {
		for _, y := range b {
			if x.lo < y.hi && y.lo < x.hi {
				return &[2]memRegion{x, y}
			}
		}
	}
	return nil
}

// pointsInto: a region of the graph that lies inside buf's backing array.
func pointsInto(rs []memRegion, buf []byte) *memRegion {
	if cap(buf) == 0 {
		return nil
	}
	lo := uintptr(unsafe.Pointer(unsafe.SliceData(buf)))
	hi := lo + uintptr(cap(buf))
	for i, x := range rs {
		if x.lo < hi && lo < x.hi {
			return &rs[i]
		}
	}
	return nil
}

// scribble changes, in place, every byte / integer / string reachable from v through pointers, slices, maps
// and interfaces (exported or not) — what a caller holding v can do to the memory v refers to.
func scribble(v interface{}) {
	seen := map[uintptr]bool{}
	var walk func(rv reflect.Value, depth int)
	settable := func(rv reflect.Value) reflect.Value {
		if rv.CanSet() {
			return rv
		}
		if rv.CanAddr() {
			return reflect.NewAt(rv.Type(), unsafe.Pointer(rv.UnsafeAddr())).Elem()
		}
		return rv
	}
	walk = func(rv reflect.Value, depth int) {
		if depth > 40 || !rv.IsValid() {
			return
		}
		switch rv.Kind() {
		case reflect.Ptr:
			if rv.IsNil() || seen[rv.Pointer()] {
				return
			}
			seen[rv.Pointer()] = true
			walk(rv.Elem(), depth+1)
		case reflect.Interface:
			if !rv.IsNil() {
				walk(rv.Elem(), depth+1)
			}
		case reflect.Slice:
			if rv.IsNil() {
				return
			}
			for i := 0; i < rv.Len(); i++ {
				walk(rv.Index(i), depth+1)
			}
		case reflect.Array:
			for i := 0; i < rv.Len(); i++ {
				walk(rv.Index(i), depth+1)
			}
		case reflect.Map:
			if rv.IsNil() {
				return
			}
			it := rv.MapRange()
			for it.Next() {
				walk(it.Value(), depth+1)
			}
		case reflect.Struct:
			for i := 0; i < rv.NumField(); i++ {
				walk(rv.Field(i), depth+1)
			}
		case reflect.Uint8, reflect.Uint16, reflect.Uint32, reflect.Uint64, reflect.Uint:
			if s := settable(rv); s.CanSet() {
				s.SetUint(s.Uint() ^ 0x55)
			}
		case reflect.Int8, reflect.Int16, reflect.Int32, reflect.Int64, reflect.Int:
			if s := settable(rv); s.CanSet() {
				s.SetInt(s.Int() ^ 0x55)
			}
		case reflect.String:
			if s := settable(rv); s.CanSet() {
				s.SetString(s.String() + "~scribbled")
			}
		case reflect.Bool:
			if s := settable(rv); s.CanSet() {
				s.SetBool(!s.Bool())
			}
		}
	}
	walk(reflect.ValueOf(v), 0)
}

// touchExported rewrites, in place and with the value it already holds, everything a user of the package can reach from v
// through exported fields, pointers, slices and interfaces (`*c.Profile = *c.Profile`). Nothing changes value; but if
// two objects that are supposed to be distinct share such memory, two goroutines touching "their own" object write the
// same location, which the race detector reports.
func touchExported(v interface{}) {
	seen := map[uintptr]bool{}
	var walk func(x reflect.Value, depth int)
	walk = func(x reflect.Value, depth int) {
		if depth > 8 || !x.IsValid() {
			return
		}
		switch x.Kind() {
		case reflect.Ptr:
			if x.IsNil() || seen[x.Pointer()] {
				return
			}
			seen[x.Pointer()] = true
			e := x.Elem()
			if e.CanSet() {
				tmp := reflect.New(e.Type()).Elem()
				tmp.Set(e)
				e.Set(tmp)
			}
			walk(e, depth+1)
		case reflect.Interface:
			if !x.IsNil() {
				walk(x.Elem(), depth+1)
			}
		case reflect.Struct:
			for i := 0; i < x.NumField(); i++ {
				if x.Type().Field(i).PkgPath == "" { // exported
					walk(x.Field(i), depth+1)
				}
			}
		case reflect.Slice:
			for i := 0; i < x.Len() && i < 64; i++ {
				el := x.Index(i)
				if el.CanSet() && el.Kind() != reflect.Ptr && el.Kind() != reflect.Interface {
					tmp := reflect.New(el.Type()).Elem()
					tmp.Set(el)
					el.Set(tmp)
				}
				walk(el, depth+1)
			}
		}
	}
	walk(reflect.ValueOf(v), 0)
}
