package main

import (
	"bytes"
	"crypto/rand"
	"fmt"
	"strings"

	cose "github.com/veraison/go-cose"
	psa "github.com/veraison/psatoken"
)

func init() {
	props["C02"] = runC02
	props["C03"] = runC03
}

type knownTok struct {
	key int
	tok []byte
}

// tamperCase: decode tok and verify under key vk; returns accept/reject.
func tamperCase(r *Run, class string, known []knownTok, tok []byte, vk int) {
	parts := make([]string, len(known))
	for i, k := range known {
		parts[i] = fmt.Sprintf("%d:%s", k.key, hx(k.tok))
	}
	res := "reject"
	var ev *psa.Evidence
	var err error
	pan, _ := safely(func() {
		ev, err = psa.DecodeEvidenceFromCOSE(append([]byte{}, tok...))
		if err == nil {
			err = ev.Verify(keys()[vk].pub)
		}
	})
	if pan {
		res = "panic"
	} else if err == nil {
		res = "accept"
	}
	r.Case(class, false, fmt.Sprintf("tamper keys=%s know=%s tok=%s verify=%d", keysProto(), strings.Join(parts, ","), hx(tok), vk), res)
	if res != "accept" {
		return
	}
	// accepted: the (protected, payload, signature) must be exactly those of a token signed by that key
	p, pl, sg, ok := envelopeParts(tok)
	if !ok {
		r.Fail("accepted-malformed", "a token the independent reader does not recognise as tag-18 [bstr, map, bstr, bstr] verifies")
		return
	}
	for _, k := range known {
		if k.key != vk {
			continue
		}
		kp, kpl, ksg, _ := envelopeParts(k.tok)
		if bytes.Equal(p, kp) && bytes.Equal(pl, kpl) && bytes.Equal(sg, ksg) {
			return
		}
	}
	r.Fail("tampered-verifies", fmt.Sprintf("token verifies under key %d although its protected header / payload / signature are not those of any token that key signed (class %s)", vk, class))
}

func sigStructureBytes(prot, payload []byte) []byte {
	return nArr(nTstr("Signature1"), nBstr(prot), nBstr(nil), nBstr(payload)).Bytes()
}

func rawSign(k *keyInfo, alg cose.Algorithm, tbs []byte) []byte {
	s, err := cose.NewSigner(alg, k.priv)
	if err != nil {
		panic(err)
	}
	sig, err := s.Sign(rand.Reader, tbs)
	if err != nil {
		panic(err)
	}
	return sig
}

func envelope(prot *Node, unprot *Node, payload *Node, sig *Node) []byte {
	return nTag(18, nArr(prot, unprot, payload, sig)).Bytes()
}

func runC02(r *Run, rng *Rng, thorough bool) {
	ks := keys()
	type combo struct {
		k   *keyInfo
		alg cose.Algorithm
	}
	var combos []combo
	for _, k := range ks {
		if k.id == 1 || k.id == 5 || k.id == 7 {
			continue // second key of each family: the "other key"
		}
		for _, a := range k.algs {
			combos = append(combos, combo{k, a})
		}
	}
	otherKey := func(k *keyInfo) *keyInfo {
		switch k.family {
		case "ec":
			if k.id == 0 {
				return ks[1]
			}
			return ks[0]
		case "ed":
			return ks[5]
		}
		return ks[7]
	}
	nClaims := 2
	if thorough {
		nClaims = 8
	}
	for _, cb := range combos {
		for ci := 0; ci < nClaims; ci++ {
			d := c19Claims(rng, true)
			tok, _, err := signedToken(d, cb.k, cb.alg)
			if err != nil {
				panic(err)
			}
			d2 := c19Claims(rng, true)
			tok2, _, _ := signedToken(d2, cb.k, cb.alg)
			ok2 := otherKey(cb.k)
			tok3, _, _ := signedToken(d, ok2, ok2.algs[0])
			known := []knownTok{{cb.k.id, tok}, {cb.k.id, tok2}, {ok2.id, tok3}}
			cls := fmt.Sprintf("%v/", cb.alg)
			// untampered, right and wrong key
			tamperCase(r, cls+"untampered", known, tok, cb.k.id)
			tamperCase(r, cls+"wrong-key", known, tok, ok2.id)
			tamperCase(r, cls+"wrong-key-family", known, tok, ks[(cb.k.id+4)%8].id)
			relatedKeys(r, cls, tok, cb.k.pub)
			// every single-bit flip (quick: every bit of the first 24 bytes and of the signature tail, every 7th elsewhere)
			nbits := len(tok) * 8
			for i := 0; i < nbits; i++ {
				if !thorough && i >= 24*8 && i < nbits-40*8 && i%7 != 0 {
					continue
				}
				if !thorough && cb.k.family == "rsa" && i%3 != 0 {
					continue
				}
				tamperCase(r, cls+"bit-flip", known, flipBit(tok, i), cb.k.id)
			}
			// splices between two tokens of the same key and a token of another key
			p1, pl1, s1, _ := envelopeParts(tok)
			p2, pl2, s2, _ := envelopeParts(tok2)
			p3, pl3, s3, _ := envelopeParts(tok3)
			mk := func(p, pl, s []byte) []byte { return envelope(nBstr(p), nMap(), nBstr(pl), nBstr(s)) }
			for _, v := range [][]byte{mk(p1, pl2, s1), mk(p1, pl1, s2), mk(p1, pl2, s2), mk(p1, pl3, s1), mk(p1, pl1, s3), mk(p3, pl1, s1), mk(p3, pl3, s1), mk(p2, pl1, s1),
				mk(p1, pl1, append(append([]byte{}, s1...), 0)), mk(p1, pl1, s1[:len(s1)-1]), mk(p1, append(append([]byte{}, pl1...), 0), s1), mk(p1, pl1[:len(pl1)-1], s1),
				mk(p1, pl1, rng.Bytes(len(s1))), mk(p1, pl1, make([]byte, len(s1))), mk(p1, rng.Bytes(len(pl1)), s1)} {
				tamperCase(r, cls+"splice", known, v, cb.k.id)
				tamperCase(r, cls+"splice", known, v, ok2.id)
			}
			// the payload re-framed: the same claims bytes behind a tag / inside a wrapper / with another head encoding,
			// protected header and signature kept (the bytes differ, so it must not decode-and-verify)
			{
				var reframed [][]byte
				for _, t := range []uint64{61, 55799, 24, 18, 0, 1, 22, 23, 1 << 16, 1 << 32} {
					reframed = append(reframed, append(headFor(6, t), pl1...))
				}
				reframed = append(reframed, nBstr(pl1).Bytes(), append([]byte{0x81}, pl1...), append([]byte{0x00}, pl1...),
					append(append([]byte{}, pl1...), 0xf6), append([]byte{0xd8, 0x3d, 0xd8, 0x3d}, pl1...))
				if pn, _, err := parseNode(pl1, 0); err == nil && pn.Kind == kMap {
					for _, w := range []int{1, 2, 4, 8} {
						q := pn.clone()
						q.W = w
						reframed = append(reframed, q.Bytes())
					}
					q := pn.clone()
					q.Indef = true
					reframed = append(reframed, q.Bytes())
					if len(pn.Pairs) > 1 {
						q = pn.clone()
						q.Pairs[0], q.Pairs[1] = q.Pairs[1], q.Pairs[0]
						reframed = append(reframed, q.Bytes())
					}
				}
				for _, pl := range reframed {
					tamperCase(r, cls+"payload-reframed", known, mk(p1, pl, s1), cb.k.id)
				}
			}
			// the protected header re-serialised: same map, other bytes (non-shortest heads), original signature
			if pn, _, err := parseNode(p1, 0); err == nil && pn.Kind == kMap && len(pn.Pairs) == 1 {
				for _, w := range []int{1, 2, 4, 8} {
					for which := 0; which < 3; which++ {
						q := pn.clone()
						switch which {
						case 0:
							q.W = w
						case 1:
							q.Pairs[0][0].W = w
						default:
							q.Pairs[0][1].W = w
						}
						v := mk(q.Bytes(), pl1, s1)
						tamperCase(r, cls+"protected-reserialised", known, v, cb.k.id)
					}
				}
				q := pn.clone()
				q.Indef = true
				tamperCase(r, cls+"protected-reserialised", known, mk(q.Bytes(), pl1, s1), cb.k.id)
				// the protected bstr itself with a non-shortest head: same content bytes -> still the signed message
				for _, w := range []int{1, 2, 4} {
					pb := nBstr(p1)
					pb.W = w
					tamperCase(r, cls+"protected-bstr-head", known, envelope(pb, nMap(), nBstr(pl1), nBstr(s1)), cb.k.id)
				}
			}
			// a message without a signature never verifies: sign, then a signing attempt that fails (signer error / empty
			// signature) on the same Evidence, then Verify with the signer's key and with another key
			for _, mode := range []string{"failing", "emptysig"} {
				dd := *d
				ops := []*evOp{{Kind: "setclaims", D: &dd}, {Kind: "sign", Key: cb.k.id, Alg: cb.alg, Mode: "good"}, {Kind: "verify", Key: cb.k.id},
					{Kind: "sign", Key: cb.k.id, Alg: cb.alg, Mode: mode}, {Kind: "verify", Key: cb.k.id}, {Kind: "verify", Key: ok2.id},
					{Kind: "vsign", Key: cb.k.id, Alg: cb.alg, Mode: mode}, {Kind: "verify", Key: cb.k.id}}
				want := []string{"ok", "ok*", "ok", "err", "err", "err", "err", "err"}
				ev := &psa.Evidence{}
				res := make([]string, len(ops))
				protos := make([]string, len(ops))
				for i, o := range ops {
					res[i] = stepString(o, o.exec(ev))
					protos[i] = o.proto()
				}
				r.Case(cls+"faulted-resign", false, fmt.Sprintf("ev keys=%s ops=%s", keysProto(), strings.Join(protos, "|")),
					"r="+strings.Join(res, ",")+" claims="+evClaimsDesc(ev))
				for i := range ops {
					okw := res[i] == want[i] || (want[i] == "ok*" && strings.HasPrefix(res[i], "ok"))
					if !okw {
						r.Fail("no-signature-never-verifies", fmt.Sprintf("step %d (%s): %s, expected %s", i, trunc(protos[i], 40), trunc(res[i], 12), want[i]))
					}
				}
			}
			// one Evidence object used repeatedly: right key, then a wrong key; a second token, then a wrong key
			{
				ops := []*evOp{{Kind: "know", Key: cb.k.id, Bytes: tok}, {Kind: "know", Key: cb.k.id, Bytes: tok2}, {Kind: "know", Key: ok2.id, Bytes: tok3},
					{Kind: "unmarshal", Bytes: tok}, {Kind: "verify", Key: cb.k.id}, {Kind: "verify", Key: ok2.id}, {Kind: "verify", Key: cb.k.id},
					{Kind: "unmarshal", Bytes: tok2}, {Kind: "verify", Key: ok2.id}, {Kind: "verify", Key: cb.k.id},
					{Kind: "unmarshal", Bytes: tok3}, {Kind: "verify", Key: cb.k.id}, {Kind: "verify", Key: ok2.id}}
				want := []string{"-", "-", "-", "ok", "ok", "err", "ok", "ok", "err", "ok", "ok", "err", "ok"}
				ev := &psa.Evidence{}
				res := make([]string, len(ops))
				protos := make([]string, len(ops))
				for i, o := range ops {
					res[i] = stepString(o, o.exec(ev))
					protos[i] = o.proto()
				}
				r.Case(cls+"evidence-reused", false, fmt.Sprintf("ev keys=%s ops=%s", keysProto(), strings.Join(protos, "|")),
					"r="+strings.Join(res, ",")+" claims="+evClaimsDesc(ev))
				for i := range ops {
					if res[i] != want[i] {
						r.Fail("wrong-key-on-reused-evidence", fmt.Sprintf("step %d (%s): %s, expected %s", i, trunc(protos[i], 40), res[i], want[i]))
						break
					}
				}
			}
			// truncations
			for n := 0; n < len(tok); n += 1 + len(tok)/40 {
				tamperCase(r, cls+"truncate", known, tok[:n], cb.k.id)
			}
			// random multi-byte edits
			nEdits := 40
			if thorough {
				nEdits = 400
			}
			for i := 0; i < nEdits; i++ {
				v := append([]byte{}, tok...)
				for j := 0; j < 1+rng.Intn(4); j++ {
					v[rng.Intn(len(v))] = byte(rng.U64())
				}
				tamperCase(r, cls+"multi-byte", known, v, cb.k.id)
			}
			// envelopes that are correctly signed for their own Sig_structure but lack what Verify must insist on
			algN := nInt(int64(cb.alg))
			{
				// alg only in the unprotected bucket
				sig := rawSign(cb.k, cb.alg, sigStructureBytes(nil, pl1))
				tamperCase(r, cls+"alg-unprotected-only", known, envelope(nBstr(nil), nMap([2]*Node{nUint(1), algN}), nBstr(pl1), nBstr(sig)), cb.k.id)
				// alg nowhere
				tamperCase(r, cls+"alg-nowhere", known, envelope(nBstr(nil), nMap(), nBstr(pl1), nBstr(sig)), cb.k.id)
				// alg as a text string in the protected bucket
				pt := nMap([2]*Node{nUint(1), nTstr(cb.alg.String())}).Bytes()
				sigT := rawSign(cb.k, cb.alg, sigStructureBytes(pt, pl1))
				tamperCase(r, cls+"alg-text", known, envelope(nBstr(pt), nMap(), nBstr(pl1), nBstr(sigT)), cb.k.id)
				// nil payload (detached), signed over an empty payload
				sigN := rawSign(cb.k, cb.alg, sigStructureBytes(p1, nil))
				tamperCase(r, cls+"nil-payload", known, envelope(nBstr(p1), nMap(), nNull(), nBstr(sigN)), cb.k.id)
				tamperCase(r, cls+"empty-payload", known, envelope(nBstr(p1), nMap(), nBstr(nil), nBstr(sigN)), cb.k.id)
				// empty / nil signature
				tamperCase(r, cls+"empty-signature", known, envelope(nBstr(p1), nMap(), nBstr(pl1), nBstr(nil)), cb.k.id)
				tamperCase(r, cls+"nil-signature", known, envelope(nBstr(p1), nMap(), nBstr(pl1), nNull()), cb.k.id)
			}
		}
	}
	handSignedChecks(r, rng)
}

func runC03(r *Run, rng *Rng, thorough bool) {
	ks := keys()
	n := 40
	if thorough {
		n = 400
	}
	for _, k := range ks {
		for _, alg := range k.algs {
			for i := 0; i < n; i++ {
				d := c19Claims(rng, true)
				c := d.Build()
				s, err := cose.NewSigner(alg, k.priv)
				if err != nil {
					panic(err)
				}
				ev := &psa.Evidence{}
				o1 := &evOp{Kind: "setclaims", D: d}
				o2 := &evOp{Kind: "vsign", Key: k.id, Alg: alg, Mode: "good"}
				o3 := &evOp{Kind: "verify", Key: k.id}
				st1 := o1.exec(ev)
				st2 := o2.exec(ev)
				st3 := o3.exec(ev)
				line := fmt.Sprintf("ev keys=%s ops=%s|%s|%s", keysProto(), o1.proto(), o2.proto(), o3.proto())
				r.Case(fmt.Sprintf("%v", alg), false, line, "r="+stepString(o1, st1)+","+stepString(o2, st2)+","+stepString(o3, st3)+" claims="+evClaimsDesc(ev))
				_ = s
				if st1.res != "ok" || st2.res != "ok" {
					r.Fail("sign-valid", fmt.Sprintf("SetClaims/ValidateAndSign of a valid claims-set: %s / %s", st1.res, trunc(st2.res, 8)))
					continue
				}
				if st3.res != "ok" {
					r.Fail("verify-signing-evidence", "Verify on the signing Evidence fails")
				}
				want, err := psa.ValidateAndEncodeClaimsToCBOR(c)
				if err != nil {
					continue
				}
				prot, payload, _, ok := envelopeParts(st2.token)
				if !ok {
					r.Fail("tagged-sign1", "ValidateAndSign output is not a tag-18 [bstr, map, bstr, bstr]")
					continue
				}
				if !bytes.Equal(payload, want) {
					r.Fail("payload-is-validated-encoding", "the signed payload differs from ValidateAndEncodeClaimsToCBOR of the claims")
				}
				if why := wireFormatOK(payload, d); why != "" {
					r.Fail("payload-wire-format", why)
				}
				pn, rest, perr := parseNode(prot, 0)
				if perr != nil || len(rest) != 0 || pn.Kind != kMap || lookupInt(pn, 1) == nil || !lookupInt(pn, 1).isInt(int64(alg)) {
					r.Fail("protected-alg", "the protected header does not carry the signer's algorithm")
				}
				ev2, err := psa.DecodeAndValidateEvidenceFromCOSE(append([]byte{}, st2.token...))
				if err != nil {
					r.Fail("decode-own-token", fmt.Sprintf("the issued token is rejected: %v", err))
					continue
				}
				if g1, g2 := gettersOnly(observe(c)), gettersOnly(observe(ev2.Claims)); g1 != g2 {
					r.Fail("claims-equal", fmt.Sprintf("decoded claims differ from the originals:\n orig: %s\n dec:  %s", g1, g2))
				}
				if err := ev2.Verify(k.pub); err != nil {
					r.Fail("verify-decoded", fmt.Sprintf("verification with the matching key fails: %v", err))
				}
				// re-sign on the Evidence that decoded the token, with another key/algorithm: the new token
				// carries the new signer's algorithm and verifies under the new key
				{
					k2 := ks[(k.id+2)%len(ks)]
					o4 := &evOp{Kind: "unmarshal", Bytes: st2.token}
					o5 := &evOp{Kind: "vsign", Key: k2.id, Alg: k2.algs[0], Mode: "good"}
					o6 := &evOp{Kind: "verify", Key: k2.id}
					ev3 := &psa.Evidence{}
					s4, s5, s6 := o4.exec(ev3), o5.exec(ev3), o6.exec(ev3)
					r.Case(fmt.Sprintf("%v/resign", alg), false, fmt.Sprintf("ev keys=%s ops=know:%d:%s|%s|%s|%s", keysProto(), k.id, hx(st2.token), o4.proto(), o5.proto(), o6.proto()),
						"r=-,"+stepString(o4, s4)+","+stepString(o5, s5)+","+stepString(o6, s6)+" claims="+evClaimsDesc(ev3))
					if s5.res != "ok" || s6.res != "ok" {
						r.Fail("resign", fmt.Sprintf("decode, then ValidateAndSign with another key: %s, Verify: %s", trunc(s5.res, 6), s6.res))
					} else {
						ev4, err := psa.DecodeEvidenceFromCOSE(append([]byte{}, s5.token...))
						p4, _, _, _ := envelopeParts(s5.token)
						pn4, _, _ := parseNode(p4, 0)
						if err != nil || ev4.Verify(k2.pub) != nil {
							r.Fail("resign", "the re-signed token does not decode / verify under the new signer's key")
						} else if pn4 == nil || pn4.Kind != kMap || lookupInt(pn4, 1) == nil || !lookupInt(pn4, 1).isInt(int64(k2.algs[0])) {
							r.Fail("protected-alg", "the re-signed token's protected header does not carry the new signer's algorithm")
						}
					}
				}
				// the claims exposed are the decoding of the payload the signature covers
				c3, err := psa.DecodeClaimsFromCBOR(append([]byte{}, ev2.VerifMessage().Payload...))
				if err != nil || gettersOnly(observe(c3)) != gettersOnly(observe(ev2.Claims)) {
					r.Fail("claims-from-covered-payload", "Evidence.Claims is not the decoding of message.Payload")
				}
			}
		}
	}
	extSignRoundTrip(r, rng, map[bool]int{false: 300, true: 6000}[thorough])
	signThenSignElsewhere(r, rng, map[bool]int{false: 150, true: 3000}[thorough])
	eachClaimsCase(rng, false, map[bool]int{false: 300, true: 8000}[thorough], func(class string, d ClaimsDesc, ndev int) {
		if conformant(&d) || hasNilComp(&d) || hasBadUTF8(&d) || d.ProfInvalid {
			return
		}
		k := ks[rng.Intn(2)]
		signer, _ := cose.NewSigner(k.algs[0], k.priv)
		ev := &psa.Evidence{Claims: d.Build()}
		var tok []byte
		var err error
		if pan, _ := safely(func() { tok, err = ev.ValidateAndSign(signer) }); pan || err != nil {
			return
		}
		r.ImplOnly("nonconformant/"+class, true, "vsign-nonconformant "+d.Line())
		e2, derr := psa.DecodeAndValidateEvidenceFromCOSE(tok)
		if derr != nil {
			r.Fail("decode-issued", fmt.Sprintf("ValidateAndSign issued a token (for a claims-set outside the profile's rules) that the library itself does not decode and validate: %v", derr))
		} else if gettersOnly(observe(e2.Claims)) != gettersOnly(observe(ev.Claims)) {
			r.Fail("claims-equal", "the claims decoded from an issued token differ from the ones signed")
		}
	})
}
