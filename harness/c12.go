package main

import (
	"bytes"
	"fmt"
	"strings"

	psa "github.com/veraison/psatoken"
)

func init() { props["C12"] = runC12 }

// jdecLine: what the implementation does with a JSON document.
func jdecLine(text []byte) (line string, c psa.IClaims, ok bool, panicked bool) {
	var err error
	if p, _ := safely(func() { c, err = psa.DecodeClaimsFromJSON(append([]byte{}, text...)) }); p {
		return "dec=panic", nil, false, true
	}
	if err != nil {
		return "dec=err", nil, false, false
	}
	d, okd := DescOf(c)
	o := observe(c)
	ds := "ood"
	if okd {
		ds = strings.ReplaceAll(d.Line(), " ", ";")
	}
	acc := "rejected"
	var c2 psa.IClaims
	var err2 error
	if p, _ := safely(func() { c2, err2 = psa.DecodeAndValidateClaimsFromJSON(append([]byte{}, text...)) }); p || o.VPanic {
		acc = "panic"
		panicked = true
	} else if err2 == nil && c2 != nil {
		acc = "accepted"
	}
	return "dec=ok:" + ds + " " + acc + " " + o.String(), c, true, panicked
}

func runC12(r *Run, rng *Rng, thorough bool) {
	n := 2500
	if thorough {
		n = 150000
	}
	eachValidObject(rng, n, func(class string, c psa.IClaims, d ClaimsDesc) {
		if hasBadUTF8(&d) || !conformant(&d) {
			return
		}
		var j []byte
		var err error
		if p, _ := safely(func() { j, err = psa.EncodeClaimsToJSON(c) }); p {
			r.Case(class, false, "jenc "+d.Line(), "json=panic")
			return
		}
		if err != nil {
			r.Case(class, false, "jenc "+d.Line(), "json=err")
			r.Fail("json-encode-valid", fmt.Sprintf("valid claims-set does not encode to JSON: %v", err))
			return
		}
		tree, perr := parseJSONText(j)
		if perr != nil {
			r.Case(class, false, "jenc "+d.Line(), "json=unparseable")
			r.Fail("json-well-formed", fmt.Sprintf("emitted JSON does not parse: %v: %s", perr, j))
			return
		}
		r.Case(class, false, "jenc "+d.Line(), "json="+tree.Proto())
		// documented member names, base64 for byte strings, absent optional claims omitted
		if got, want := sortedMembers(tree), sortedMembers(jsonOf(&d)); got != want {
			r.Fail("json-shape", fmt.Sprintf("emitted JSON differs from the documented form:\n emitted: %s\n expect:  %s", tree.Text(), jsonOf(&d).Text()))
		}
		// decode(encode) through the dispatching decoder: identical getter results
		line, c2, ok, _ := jdecLine(j)
		r.Case(class+"/own-json", false, "jdec "+tree.Proto(), line)
		if !ok {
			r.Fail("json-roundtrip", fmt.Sprintf("the library's own JSON is rejected by DecodeClaimsFromJSON: %s", trunc(string(j), 300)))
		} else if g1, g2 := gettersOnly(observe(c)), gettersOnly(observe(c2)); g1 != g2 {
			r.Fail("json-roundtrip", fmt.Sprintf("getter results differ after JSON round trip:\n before: %s\n after:  %s", g1, g2))
		}
		deprecatedAliases(r, "own JSON", j)
		// CBOR -> claims -> JSON -> claims -> CBOR reproduces the bytes
		b, err := psa.EncodeClaimsToCBOR(c)
		if err != nil {
			return
		}
		c1, err := psa.DecodeClaimsFromCBOR(append([]byte{}, b...))
		if err != nil {
			return // C09's business
		}
		j1, err := psa.EncodeClaimsToJSON(c1)
		if err != nil {
			r.Fail("cbor-json-cbor", fmt.Sprintf("decoded claims do not encode to JSON: %v", err))
			return
		}
		c3, err := psa.DecodeClaimsFromJSON(j1)
		if err != nil {
			r.Fail("cbor-json-cbor", fmt.Sprintf("CBOR->claims->JSON is rejected by the JSON decoder: %v: %s", err, trunc(string(j1), 300)))
			return
		}
		b3, err := psa.EncodeClaimsToCBOR(c3)
		if err != nil || !bytes.Equal(b, b3) {
			r.Fail("cbor-json-cbor", fmt.Sprintf("CBOR->claims->JSON->claims->CBOR differs: %x vs %x (err %v)", b, b3, err))
		}
	})
	extJSON(r, rng, map[bool]int{false: 400, true: 10000}[thorough])
}
