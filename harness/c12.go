package main

import (
	"bytes"
	"encoding/json"
	"fmt"
	"strings"

	psa "github.com/veraison/psatoken"
)

func init() { props["C12"] = runC12 }

// jsonWrongTyped: values of each JSON type, to stand where a claim of some other type is expected
var jsonWrongTyped = []*JTree{jN(), jA(), jO(), jS(""), jS("x"), jS("AAAA"), jI(0), jI(-1), jI(70000), {Kind: jBool, B: true}, jA(jN()), jA(jI(1), jI(2)),
	{Kind: jNumOther, Raw: "0.5"}, {Kind: jNumOther, Raw: "1e3"}, jS("!!!"), jO(jM("a", jI(1)))}

// jdecLine: what the implementation does with a JSON document.
func jdecLine(text []byte) (line string, c psa.IClaims, ok bool, panicked bool) {
	var err error
	if p, _ := safely(func() { c, err = psa.DecodeClaimsFromJSON(append([]byte{}, text...)) }); p {
		return "dec=panic", nil, false, true
	}
	if err != nil {
		return "dec=err", nil, false, false
	}
	d, okd := DescOf(c)
	o := observe(c)
	ds := "ood"
	if okd {
		ds = strings.ReplaceAll(d.Line(), " ", ";")
	}
	acc := "rejected"
	var c2 psa.IClaims
	var err2 error
	if p, _ := safely(func() { c2, err2 = psa.DecodeAndValidateClaimsFromJSON(append([]byte{}, text...)) }); p || o.VPanic {
		acc = "panic"
		panicked = true
	} else if err2 == nil && c2 != nil {
		acc = "accepted"
	}
	return "dec=ok:" + ds + " " + acc + " " + o.String(), c, true, panicked
}

func runC12(r *Run, rng *Rng, thorough bool) {
	n := 2500
	if thorough {
		n = 150000
	}
	held := &heldOutputs{}
	eachValidObject(rng, n, func(class string, c psa.IClaims, d ClaimsDesc) {
		if hasBadUTF8(&d) || !conformant(&d) {
			return
		}
		var j []byte
		var err error
		// the JSON a caller was handed stays what it was, whatever is encoded afterwards (both entry points)
		if why := held.check(); why != "" {
			r.ImplOnly("held-json", false, "held-json")
			r.Fail("json-roundtrip", "a JSON encoding handed out earlier no longer decodes to its claims: "+why)
			held = &heldOutputs{}
		}
		if vj, verr := psa.ValidateAndEncodeClaimsToJSON(c); verr == nil {
			held.add("ValidateAndEncodeClaimsToJSON", vj)
		}
		if p, _ := safely(func() { j, err = psa.EncodeClaimsToJSON(c) }); p {
			r.Case(class, false, "jenc "+d.Line(), "json=panic")
			return
		}
		if err != nil {
			r.Case(class, false, "jenc "+d.Line(), "json=err")
			r.Fail("json-encode-valid", fmt.Sprintf("valid claims-set does not encode to JSON: %v", err))
			return
		}
		tree, perr := parseJSONText(j)
		if perr != nil {
			r.Case(class, false, "jenc "+d.Line(), "json=unparseable")
			r.Fail("json-well-formed", fmt.Sprintf("emitted JSON does not parse: %v: %s", perr, j))
			return
		}
		r.Case(class, false, "jenc "+d.Line(), "json="+tree.Proto())
		jtextOne(r, class+"/text", j) // the model's reader on the bytes the library emitted
		held.add("EncodeClaimsToJSON", j)
		// documented member names, base64 for byte strings, absent optional claims omitted
		if got, want := sortedMembers(tree), sortedMembers(jsonOf(&d)); got != want {
			r.Fail("json-shape", fmt.Sprintf("emitted JSON differs from the documented form:\n emitted: %s\n expect:  %s", tree.Text(), jsonOf(&d).Text()))
		}
		// decode(encode) through the dispatching decoder: identical getter results
		line, c2, ok, _ := jdecLine(j)
		r.Case(class+"/own-json", false, "jdec "+tree.Proto(), line)
		if !ok {
			r.Fail("json-roundtrip", fmt.Sprintf("the library's own JSON is rejected by DecodeClaimsFromJSON: %s", trunc(string(j), 300)))
		} else if g1, g2 := gettersOnly(observe(c)), gettersOnly(observe(c2)); g1 != g2 {
			r.Fail("json-roundtrip", fmt.Sprintf("getter results differ after JSON round trip:\n before: %s\n after:  %s", g1, g2))
		}
		deprecatedAliases(r, "own JSON", j)
		// the same document with one member (of the claims-set or of a component) given a value of another JSON type:
		// what the typed decoder makes of it, against the model's typed JSON decoder
		for rep := 0; rep < 2; rep++ {
			mt := tree.clone()
			holder := mt
			if rng.Chance(35) {
				for _, m := range mt.Mem {
					if m.Name == "psa-software-components" && m.Val.Kind == jArr && len(m.Val.Kids) > 0 && m.Val.Kids[0].Kind == jObj {
						holder = m.Val.Kids[rng.Intn(len(m.Val.Kids))]
					}
				}
			}
			if len(holder.Mem) == 0 {
				continue
			}
			mi := rng.Intn(len(holder.Mem))
			holder.Mem[mi].Val = Pick(rng, jsonWrongTyped).clone()
			mline, _, _, _ := jdecLine([]byte(mt.Text()))
			r.Case(class+"/member-retyped", false, "jdec "+mt.Proto(), mline)
		}
		// CBOR -> claims -> JSON -> claims -> CBOR reproduces the bytes
		b, err := psa.EncodeClaimsToCBOR(c)
		if err != nil {
			return
		}
		c1, err := psa.DecodeClaimsFromCBOR(append([]byte{}, b...))
		if err != nil {
			return // C09's business
		}
		j1, err := psa.EncodeClaimsToJSON(c1)
		if err != nil {
			r.Fail("cbor-json-cbor", fmt.Sprintf("decoded claims do not encode to JSON: %v", err))
			return
		}
		c3, err := psa.DecodeClaimsFromJSON(j1)
		if err != nil {
			r.Fail("cbor-json-cbor", fmt.Sprintf("CBOR->claims->JSON is rejected by the JSON decoder: %v: %s", err, trunc(string(j1), 300)))
			return
		}
		b3, err := psa.EncodeClaimsToCBOR(c3)
		if err != nil || !bytes.Equal(b, b3) {
			r.Fail("cbor-json-cbor", fmt.Sprintf("CBOR->claims->JSON->claims->CBOR differs: %x vs %x (err %v)", b, b3, err))
		}
	})
	jtextCases(r, rng, map[bool]int{false: 1500, true: 60000}[thorough])
	extJSON(r, rng, map[bool]int{false: 400, true: 10000}[thorough])
	richExt(r, rng, 300, map[string]string{"json": "json-roundtrip", "chain": "cbor-json-cbor"})
	evidenceJSON(r, rng, map[bool]int{false: 60, true: 1500}[thorough])
	decodedThenChanged(r, rng, map[bool]int{false: 150, true: 4000}[thorough])
}

// evidenceJSON: the JSON form of an Evidence is the JSON form of the claims it holds *now* — also when it was signed
// or decoded over other claims before (an envelope held from an earlier Sign / UnmarshalCOSE must not leak into it).
func evidenceJSON(r *Run, rng *Rng, n int) {
	ks := keys()
	for i := 0; i < n; i++ {
		p1, p2 := 1+i%2, 1+(i/2)%2
		d1, d2 := baseValid(rng, p1), baseValid(rng, p2)
		d1.Canon, d1.Prof = canonOf(p1), sp(canonOf(p1))
		d2.Canon, d2.Prof = canonOf(p2), sp(canonOf(p2))
		normalise(&d1)
		normalise(&d2)
		if hasBadUTF8(&d1) || hasBadUTF8(&d2) || !conformant(&d1) || !conformant(&d2) {
			continue
		}
		r.ImplOnly("evidence-json", false, "evidence-json "+d1.Line()+" then "+d2.Line())
		tok, ev, err := signedToken(&d1, ks[0], ks[0].algs[0])
		if err != nil {
			continue
		}
		for _, how := range []string{"signed", "decoded"} {
			if how == "decoded" {
				ev = &psa.Evidence{}
				if err := ev.UnmarshalCOSE(tok); err != nil {
					break
				}
			}
			c2 := d2.Build()
			if err := ev.SetClaims(c2); err != nil {
				continue
			}
			want, werr := psa.EncodeClaimsToJSON(c2)
			got, gerr := json.Marshal(ev)
			if werr != nil || gerr != nil {
				r.Fail("json-roundtrip", fmt.Sprintf("evidence (%s over other claims, then SetClaims): JSON encoding fails: %v / %v", how, werr, gerr))
				continue
			}
			wt, _ := parseJSONText(want)
			gt, _ := parseJSONText(got)
			if wt == nil || gt == nil || wt.Proto() != gt.Proto() {
				r.Fail("json-roundtrip", fmt.Sprintf("evidence (%s over other claims, then SetClaims): its JSON form %s is not the JSON form of the claims it holds %s", how, trunc(string(got), 300), trunc(string(want), 300)))
			}
		}
	}
}
