package main

// Tag options at the edge of the convention (C15): a "-" name followed by a comma or by options, option words the codec
// does not know (omitzero, string), options in any order.  Whatever the serialisers decide to emit for such a field,
// populating a fresh struct from that output must succeed and must restore every field whose key is in the output —
// the two walks of one codec have to read a tag the same way.  Judged on the implementation only.

import (
	"fmt"
	"reflect"

	"github.com/veraison/psatoken/encoding"
)

type oddTags struct {
	A  *int64  `cbor:"1,keyasint" json:"a"`
	D1 *int64  `cbor:"-,omitempty" json:"-,"`
	D2 *string `cbor:"-," json:"-,omitempty"`
	OZ *int64  `cbor:"2,keyasint,omitzero" json:"oz,omitzero"`
	OS *string `cbor:"3,omitzero,keyasint,omitempty" json:"os,omitzero,omitempty"`
	ST *int64  `cbor:"4,keyasint,toarray" json:"st,string,omitempty"`
	Z  *string `cbor:"5,keyasint,omitempty" json:"z,omitempty"`
}

func oddTagCases(r *Run, rng *Rng, reps int) {
	for rep := 0; rep < reps; rep++ {
		src := &oddTags{}
		v := reflect.ValueOf(src).Elem()
		mask := rep
		if rep >= 1<<uint(v.NumField()) {
			mask = rng.Intn(1 << uint(v.NumField()))
		}
		for i := 0; i < v.NumField(); i++ {
			if mask>>uint(i)&1 == 1 {
				switch v.Field(i).Type().Elem().Kind() {
				case reflect.Int64:
					x := int64(rng.Intn(3)) - 1 // zero values included: omitzero looks at them
					v.Field(i).Set(reflect.ValueOf(&x))
				case reflect.String:
					x := Pick(rng, []string{"", "s", "0"})
					v.Field(i).Set(reflect.ValueOf(&x))
				}
			}
		}
		for _, codec := range []string{"cbor", "json"} {
			r.ImplOnly("odd-tags/"+codec, false, fmt.Sprintf("oddtags %s mask=%d", codec, mask))
			var out []byte
			var err error
			pan, what := safely(func() {
				if codec == "cbor" {
					out, err = encoding.SerializeStructToCBOR(extEM, src)
				} else {
					out, err = encoding.SerializeStructToJSON(src)
				}
			})
			if pan {
				r.Fail("serialize-fails", fmt.Sprintf("odd tags: serialiser (%s) panics: %v", codec, what))
				continue
			}
			if err != nil {
				continue // refusing such a struct is no violation
			}
			dst := &oddTags{}
			pan, what = safely(func() {
				if codec == "cbor" {
					err = encoding.PopulateStructFromCBOR(extDM, out, dst)
				} else {
					err = encoding.PopulateStructFromJSON(out, dst)
				}
			})
			if pan || err != nil {
				r.Fail("roundtrip-"+codec, fmt.Sprintf("odd tags: populate of the serialiser's own output %x fails: panic=%v (%v) err=%v", out, pan, what, err))
				continue
			}
			// second trip: what was restored serialises to the same bytes (so nothing emitted was dropped)
			var out2 []byte
			if codec == "cbor" {
				out2, err = encoding.SerializeStructToCBOR(extEM, dst)
			} else {
				out2, err = encoding.SerializeStructToJSON(dst)
			}
			if err != nil || string(out2) != string(out) {
				r.Fail("roundtrip-"+codec, fmt.Sprintf("odd tags: serialise(populate(x)) = %x differs from x = %x (%v): a field that was emitted is not read back", out2, out, err))
			}
		}
	}
}
