package main

import (
	"bytes"
	"encoding/json"
	"fmt"
	"reflect"
	"strings"
	"unicode/utf8"

	cbor "github.com/fxamacker/cbor/v2"
	"github.com/veraison/psatoken/encoding"
)

func init() { props["C15"] = runC15 }

// ---- static shapes following the claims convention (pointer fields, keyasint) ----

type ShInner struct {
	I1 *int64  `cbor:"10,keyasint,omitempty" json:"i1,omitempty"`
	I2 *string `cbor:"11,keyasint" json:"i2"`
	I3 *[]byte `cbor:"12,keyasint,omitempty" json:"i3,omitempty"`
}
type ShInner2 struct {
	J1 *[]byte `cbor:"-20,keyasint" json:"j1"`
	J2 *int64  `cbor:"-21,keyasint,omitempty" json:"j2,omitempty"`
}
type ShFlat struct {
	A *int64  `cbor:"1,keyasint,omitempty" json:"a,omitempty"`
	B *string `cbor:"2,keyasint" json:"b"`
	C *[]byte `cbor:"3,keyasint,omitempty" json:"c,omitempty"`
	D *int64  `cbor:"-4,keyasint" json:"d"`
	E *string `cbor:"500,keyasint,omitempty" json:"e,omitempty"`
	S string  `cbor:"-" json:"-"`
}
type ShOne struct {
	X *int64 `cbor:"1,keyasint,omitempty" json:"x,omitempty"`
	ShInner
	Y *string `cbor:"2,keyasint" json:"y"`
}
type ShMid struct {
	M *string `cbor:"30,keyasint,omitempty" json:"m,omitempty"`
	ShInner2
}
type ShTwo struct {
	ShMid
	Z *int64 `cbor:"1,keyasint" json:"z"`
	ShInner
}
type IExt interface{ Marker() }

func (*ShInner2) Marker() {}

type ShIface struct {
	P *int64 `cbor:"1,keyasint,omitempty" json:"p,omitempty"`
	IExt
	Q *[]byte `cbor:"2,keyasint,omitempty" json:"q,omitempty"`
}
type ShAllOpt struct {
	A *int64  `cbor:"1,keyasint,omitempty" json:"a,omitempty"`
	B *string `cbor:"2,keyasint,omitempty" json:"b,omitempty"`
}

// ShTagOrder: the same options written in other orders (the key is always the first element of the tag;
// omitempty counts wherever it stands among the options).
type ShTagOrder struct {
	Note string  // no tags at all: not part of the map, in either direction
	A    *int64  `cbor:"1,omitempty" json:"a,omitempty"`
	B    *string `cbor:"2,omitempty,keyasint" json:"b,omitempty"`
	C    *[]byte `cbor:"3,keyasint,omitempty" json:"c,omitempty"`
	D    *int64  `cbor:"4" json:"d"`
	O    *int64  `cbor:"5" json:"omitempty"` // a mandatory member that happens to be *named* omitempty
	ShInner2
}

// ShWideKeys: integer keys that need an 8-byte head, and a JSON tag whose omitempty is followed by another option
type ShWideKeys struct {
	A *int64  `cbor:"4294967303,keyasint,omitempty" json:"a,omitempty,omitzero"`
	B *string `cbor:"-4294967297,keyasint" json:"b"`
	C *[]byte `cbor:"7,keyasint,omitempty" json:"c,omitempty,string"`
	D *int64  `cbor:"-1,keyasint,omitempty" json:"d,omitempty"`
}

// ShIfaceVal: the embedded interface holds a struct *by value* (the serialisers read it like any other; the populate
// helpers cannot write to it and must say so with an error)
type IExtV interface{ MarkerV() }
type ShValInner struct {
	J1 *[]byte `cbor:"-20,keyasint" json:"j1"`
	J2 *int64  `cbor:"-21,keyasint,omitempty" json:"j2,omitempty"`
}

func (ShValInner) MarkerV() {}

type ShIfaceVal struct {
	P *int64 `cbor:"1,keyasint,omitempty" json:"p,omitempty"`
	IExtV
	Q *[]byte `cbor:"2,keyasint,omitempty" json:"q,omitempty"`
}

// fieldRef: one settable pointer field reachable through embedding, in serialisation order
type fieldRef struct {
	v    reflect.Value
	key  int
	name string
	omit bool
}

// walkFields mirrors the documented convention (own fields in order, then embedded structs).
func walkFields(v reflect.Value, out *[]fieldRef) {
	t := v.Type()
	var embeds []reflect.Value
	for i := 0; i < t.NumField(); i++ {
		f := t.Field(i)
		if f.Anonymous {
			fv := v.Field(i)
			if f.Type.Kind() == reflect.Interface {
				if fv.IsNil() {
					continue
				}
				fv = fv.Elem()
				if fv.Kind() == reflect.Ptr {
					fv = fv.Elem()
				}
			}
			embeds = append(embeds, fv)
			continue
		}
		tag := f.Tag.Get("cbor")
		if tag == "" || tag == "-" {
			continue
		}
		parts := strings.Split(tag, ",")
		var k int
		fmt.Sscan(parts[0], &k)
		jn := strings.Split(f.Tag.Get("json"), ",")[0]
		*out = append(*out, fieldRef{v.Field(i), k, jn, strings.Contains(tag, "omitempty")})
	}
	for _, e := range embeds {
		walkFields(e, out)
	}
}

func setRandom(r *Rng, fr fieldRef) {
	switch fr.v.Type().Elem().Kind() {
	case reflect.Int64:
		x := Pick(r, []int64{0, 1, -1, 23, 24, 255, 256, -25, 1 << 40, -(1 << 40)})
		fr.v.Set(reflect.ValueOf(&x))
	case reflect.String:
		x := Pick(r, textPool)
		fr.v.Set(reflect.ValueOf(&x))
	default:
		x := fill(r.Intn(40), byte(r.Intn(200)))
		fr.v.Set(reflect.ValueOf(&x))
	}
}

func shapeInstances() []func() interface{} {
	return []func() interface{}{
		func() interface{} { return &ShFlat{} },
		func() interface{} { return &ShOne{} },
		func() interface{} { return &ShTwo{} },
		func() interface{} { return &ShIface{IExt: &ShInner2{}} },
		func() interface{} { return &ShIface{} },
		func() interface{} { return &ShAllOpt{} },
		func() interface{} { return &ShInner{} },
		func() interface{} { return &ShTagOrder{} },
		func() interface{} { return &ShWideKeys{} },
	}
}

// twoValue: a ShTwo with the fields selected by mask set to random values.
func twoValue(r *Rng, mask int) *ShTwo {
	src := &ShTwo{}
	var frs []fieldRef
	walkFields(reflect.ValueOf(src).Elem(), &frs)
	for i, fr := range frs {
		if mask>>uint(i)&1 == 1 {
			setRandom(r, fr)
		}
	}
	return src
}

// jsonFieldDesc: "namehex:o|m:ty:val" of one field for the model's serj op; flatVal: the model's rendering of a field value.
func fieldTy(fr fieldRef) string {
	switch fr.v.Type().Elem().Kind() {
	case reflect.Int64:
		return "i"
	case reflect.String:
		return "t"
	}
	return "b"
}

func flatVal(fr fieldRef) string {
	if fr.v.IsNil() {
		return "_"
	}
	switch x := fr.v.Elem().Interface().(type) {
	case int64:
		return fmt.Sprintf("i%d", x)
	case string:
		return "t" + hx([]byte(x))
	case []byte:
		return "b" + hx(x)
	}
	return "?"
}

func jsonFieldDesc(fr fieldRef) string {
	o := "m"
	if fr.omit {
		o = "o"
	}
	v := flatVal(fr)
	if v != "_" {
		v = v[1:]
	}
	return hx([]byte(fr.name)) + ":" + o + ":" + fieldTy(fr) + ":" + v
}

func flatVals(v interface{}) string {
	var frs []fieldRef
	walkFields(reflect.ValueOf(v).Elem(), &frs)
	parts := make([]string, len(frs))
	for i, fr := range frs {
		parts[i] = flatVal(fr)
	}
	return strings.Join(parts, "|")
}

var jsonShapeName = map[int]string{0: "flat", 1: "one", 2: "two", 5: "allopt", 6: "inner"}

func fmtEntries(n *Node) string {
	if n == nil || n.Kind != kMap {
		return "?"
	}
	parts := make([]string, len(n.Pairs))
	for i, p := range n.Pairs {
		parts[i] = p[0].String() + "=" + hx(p[1].Bytes())
	}
	return strings.Join(parts, ",")
}

func runC15(r *Run, rng *Rng, thorough bool) {
	reps := 300
	if thorough {
		reps = 3000
	}
	held := &heldOutputs{}
	sameNameTypes(r)
	// (1) shapes x values x optional subsets
	for si, mk := range shapeInstances() {
		var probe []fieldRef
		walkFields(reflect.ValueOf(mk()).Elem(), &probe)
		nf := len(probe)
		for rep := 0; rep < reps; rep++ {
			src := mk()
			var frs []fieldRef
			walkFields(reflect.ValueOf(src).Elem(), &frs)
			mask := rng.Intn(1 << uint(nf))
			if rep < 1<<uint(nf) {
				mask = rep // every subset first
			}
			desc := []string{}
			for i, fr := range frs {
				if mask>>uint(i)&1 == 1 {
					setRandom(rng, fr)
				}
				val := "_"
				if !fr.v.IsNil() {
					b, _ := extEM.Marshal(fr.v.Interface())
					val = hx(b)
				}
				o := "m"
				if fr.omit {
					o = "o"
				}
				desc = append(desc, fmt.Sprintf("%d:%s:%s", fr.key, o, val))
			}
			class := fmt.Sprintf("shape%d", si)
			line := "ser " + strings.Join(desc, ",")
			var out []byte
			var err error
			if p, _ := safely(func() { out, err = encoding.SerializeStructToCBOR(extEM, src) }); p {
				r.Case(class, false, line, "panic")
				r.Fail("serialize-panics", "SerializeStructToCBOR panicked")
				continue
			}
			if err != nil {
				r.Case(class, false, line, "err")
				r.Fail("serialize-fails", fmt.Sprintf("SerializeStructToCBOR: %v", err))
				continue
			}
			n, rest, perr := parseNode(out, 0)
			if perr != nil || len(rest) != 0 || n.Kind != kMap {
				r.Case(class, false, line, "cbor="+hx(out))
				r.Fail("one-map", fmt.Sprintf("output is not a single CBOR map: %x", out))
				continue
			}
			r.Case(class, false, line, "entries="+fmtEntries(n))
			// union of outer and embedded fields, in order, omitempty honoured
			var want []string
			for _, fr := range frs {
				if fr.v.IsNil() && fr.omit {
					continue
				}
				b, _ := extEM.Marshal(fr.v.Interface())
				want = append(want, nInt(int64(fr.key)).String()+"="+hx(b))
			}
			if got := fmtEntries(n); got != strings.Join(want, ",") {
				r.Fail("union-in-order", fmt.Sprintf("entries %s, expected %s", got, strings.Join(want, ",")))
			}
			if out2, _ := encoding.SerializeStructToCBOR(extEM, src); !bytes.Equal(out, out2) {
				r.Fail("stable-order", "serialising twice gives different bytes")
			}
			held.add("SerializeStructToCBOR", out)
			// populate a fresh struct: reproduces the value (including the all-empty struct)
			dst := mk()
			var perr2 error
			if p, _ := safely(func() { perr2 = encoding.PopulateStructFromCBOR(extDM, out, dst) }); p {
				r.Fail("populate-panics", fmt.Sprintf("PopulateStructFromCBOR panicked on %x", out))
			} else if perr2 != nil {
				r.Fail("roundtrip", fmt.Sprintf("PopulateStructFromCBOR rejects the serialiser's output %x: %v", out, perr2))
			} else if !reflect.DeepEqual(src, dst) {
				r.Fail("roundtrip", fmt.Sprintf("populate(serialize(v)) != v for %x", out))
			}
			// no embedding: same map as the plain marshaller
			if si == 0 || si == 5 || si == 6 {
				plain, err := extEM.Marshal(src)
				pn, _, perr := parseNode(plain, 0)
				if err != nil || perr != nil || sortedPairs(pn) != sortedPairs(n) {
					r.Fail("matches-plain", fmt.Sprintf("flat struct: embedding-aware %x vs plain %x", out, plain))
				}
			}
			// JSON side
			var jout []byte
			var jerr error
			if p, _ := safely(func() { jout, jerr = encoding.SerializeStructToJSON(src) }); p || jerr != nil {
				r.Fail("serialize-json", fmt.Sprintf("SerializeStructToJSON: panic=%v err=%v", p, jerr))
				continue
			}
			held.add("SerializeStructToJSON", jout)
			if why := held.check(); why != "" {
				r.Fail("stable-order", why)
			}
			jt, jperr := parseJSONText(jout)
			if jperr != nil || jt.Kind != jObj {
				r.Fail("one-object", fmt.Sprintf("JSON output is not a single object: %s", jout))
				continue
			}
			if !hasNonUTF8Text(frs) {
				jd := make([]string, len(frs))
				for i, fr := range frs {
					jd[i] = jsonFieldDesc(fr)
				}
				r.Case(class+"/json", false, "serj "+strings.Join(jd, ","), "json="+jt.Proto())
			}
			var jwant []string
			for _, fr := range frs {
				if fr.v.IsNil() && fr.omit {
					continue
				}
				b, _ := json.Marshal(fr.v.Interface())
				jwant = append(jwant, fr.name+"="+string(b))
			}
			jgot := make([]string, len(jt.Mem))
			for i, m := range jt.Mem {
				jgot[i] = m.Name + "=" + m.Val.Text()
			}
			if strings.Join(jgot, ",") != strings.Join(jwant, ",") {
				r.Fail("union-in-order-json", fmt.Sprintf("members %v, expected %v", jgot, jwant))
			}
			jdst := mk()
			var jperr2 error
			if p, _ := safely(func() { jperr2 = encoding.PopulateStructFromJSON(jout, jdst) }); p {
				r.Fail("populate-panics", fmt.Sprintf("PopulateStructFromJSON panicked on %s", jout))
			} else if jperr2 != nil {
				r.Fail("roundtrip-json", fmt.Sprintf("PopulateStructFromJSON rejects the serialiser's output %s: %v", jout, jperr2))
			} else if !reflect.DeepEqual(src, jdst) {
				r.Fail("roundtrip-json", fmt.Sprintf("populate(serialize(v)) != v for %s", jout))
			}
			if si == 0 || si == 5 || si == 6 {
				plain, _ := json.Marshal(src)
				pt, perr := parseJSONText(plain)
				if perr != nil || sortedMembers(pt) != sortedMembers(jt) {
					r.Fail("matches-plain-json", fmt.Sprintf("flat struct: embedding-aware %s vs plain %s", jout, plain))
				}
			}
		}
	}
	// (2) every subset of the entries of a fully populated value: populate succeeds iff no mandatory key is missing,
	// and then yields the value with exactly the removed optional fields nil (CBOR and JSON; all shapes)
	for si, mk := range shapeInstances() {
		src := mk()
		var frs []fieldRef
		walkFields(reflect.ValueOf(src).Elem(), &frs)
		for _, fr := range frs {
			setRandom(rng, fr)
		}
		nf := len(frs)
		if nf == 0 {
			continue
		}
		full, err := encoding.SerializeStructToCBOR(extEM, src)
		jfull, jerr := encoding.SerializeStructToJSON(src)
		if err != nil || jerr != nil {
			continue
		}
		fn, _, _ := parseNode(full, 0)
		jt, _ := parseJSONText(jfull)
		if fn == nil || jt == nil || len(fn.Pairs) != nf || len(jt.Mem) != nf {
			continue
		}
		for mask := 0; mask < 1<<uint(nf); mask++ {
			if !thorough && nf > 6 && mask%5 != 0 && mask != 1<<uint(nf)-1 {
				continue
			}
			sub := &Node{Kind: kMap}
			jsub := &JTree{Kind: jObj}
			missingMandatory := false
			want := mk()
			var wfrs []fieldRef
			walkFields(reflect.ValueOf(want).Elem(), &wfrs)
			for i, fr := range frs {
				if mask>>uint(i)&1 == 1 {
					sub.Pairs = append(sub.Pairs, fn.Pairs[i])
					jsub.Mem = append(jsub.Mem, jt.Mem[i])
					wfrs[i].v.Set(fr.v)
				} else if !fr.omit {
					missingMandatory = true
				}
			}
			class := fmt.Sprintf("subset/shape%d", si)
			in := sub.Bytes()
			dst := mk()
			var perr error
			pan, _ := safely(func() { perr = encoding.PopulateStructFromCBOR(extDM, in, dst) })
			if si == 0 || si == 2 {
				r.Case(class, false, fmt.Sprintf("pop %s %s", map[int]string{0: "flat", 2: "two"}[si], hx(in)), okErr(perr))
			} else {
				r.ImplOnly(class, false, fmt.Sprintf("pop shape%d %s", si, hx(in)))
			}
			switch {
			case pan:
				r.Fail("populate-panics", fmt.Sprintf("PopulateStructFromCBOR panicked on %x", in))
			case missingMandatory && perr == nil:
				r.Fail("missing-mandatory", fmt.Sprintf("shape %d: a missing non-optional key is not an error (CBOR input %x)", si, in))
			case !missingMandatory && perr != nil:
				r.Fail("roundtrip", fmt.Sprintf("shape %d: populate rejects %x although every non-optional key is present: %v", si, in, perr))
			case !missingMandatory && !reflect.DeepEqual(want, dst):
				r.Fail("roundtrip", fmt.Sprintf("shape %d: populate of %x does not give the expected value", si, in))
			}
			jin := []byte(jsub.Text())
			jdst := mk()
			var jperr error
			jpan, _ := safely(func() { jperr = encoding.PopulateStructFromJSON(jin, jdst) })
			if name, ok := jsonShapeName[si]; ok && !hasNonUTF8Text(frs) {
				res := "err"
				if !jpan && jperr == nil {
					res = "ok " + flatVals(jdst)
				}
				r.Case(class+"/json", false, "popj "+name+" "+jsub.Proto(), res)
			} else {
				r.ImplOnly(class+"/json", false, fmt.Sprintf("popj shape%d %s", si, jin))
			}
			switch {
			case jpan:
				r.Fail("populate-panics", fmt.Sprintf("PopulateStructFromJSON panicked on %s", jin))
			case missingMandatory && jperr == nil:
				r.Fail("missing-mandatory", fmt.Sprintf("shape %d: a missing non-optional member is not an error (JSON input %s)", si, jin))
			case !missingMandatory && jperr != nil:
				r.Fail("roundtrip-json", fmt.Sprintf("shape %d: populate rejects %s although every non-optional member is present: %v", si, jin, jperr))
			case !missingMandatory && !reflect.DeepEqual(want, jdst):
				r.Fail("roundtrip-json", fmt.Sprintf("shape %d: populate of %s does not give the expected value", si, jin))
			}
			// a duplicated entry is an error in CBOR input (whichever entry is repeated, wherever it is put)
			if len(sub.Pairs) > 0 && mask%3 == 0 {
				di := rng.Intn(len(sub.Pairs))
				dupn := &Node{Kind: kMap, Pairs: append(append([][2]*Node{}, sub.Pairs...), sub.Pairs[di])}
				din := dupn.Bytes()
				var derr error
				dpan, _ := safely(func() { derr = encoding.PopulateStructFromCBOR(extDM, din, mk()) })
				if si == 0 || si == 2 {
					r.Case(class+"/duplicate", false, fmt.Sprintf("pop %s %s", map[int]string{0: "flat", 2: "two"}[si], hx(din)), okErr(derr))
				} else {
					r.ImplOnly(class+"/duplicate", false, fmt.Sprintf("pop shape%d %s", si, hx(din)))
				}
				if dpan || derr == nil {
					r.Fail("duplicate-key", fmt.Sprintf("shape %d: duplicate key in CBOR input %x: panic=%v err=%v", si, din, dpan, derr))
				}
			}
		}
	}
	// (3) header boundaries through the ordered map (hook) and through synthetic flat structs
	sizes := []int{0, 1, 2, 22, 23, 24, 25, 26, 254, 255, 256, 257, 1000, 65534, 65535, 65536, 65537}
	if thorough {
		sizes = append(sizes, 70000, 131071)
		for n := 3; n < 300; n++ {
			sizes = append(sizes, n)
		}
	}
	for _, n := range sizes {
		om := encoding.VerifNewOrderedMapCBOR()
		for i := 0; i < n; i++ {
			if err := om.Add(i-n/2, []byte{0x01}); err != nil {
				r.Fail("omap-add", err.Error())
			}
		}
		out, err := om.ToCBOR(extEM)
		if err != nil {
			r.Case("header-boundary", false, fmt.Sprintf("hdr %d", n), "err")
			r.Fail("header", fmt.Sprintf("ToCBOR with %d keys: %v", n, err))
			continue
		}
		hl := 1
		if n >= 24 {
			hl = 2
		}
		if n > 255 {
			hl = 3
		}
		if n > 65535 {
			hl = 5
		}
		r.Case("header-boundary", false, fmt.Sprintf("hdr %d", n), "header="+hx(out[:hl]))
		pn, rest, perr := parseNode(out, 0)
		if perr != nil || len(rest) != 0 || pn.Kind != kMap || len(pn.Pairs) != n {
			r.Fail("header", fmt.Sprintf("%d keys: the emitted header does not announce the %d entries that follow (%x…)", n, n, out[:min(8, len(out))]))
			continue
		}
		om2 := encoding.VerifNewOrderedMapCBOR()
		var ferr error
		if p, _ := safely(func() { ferr = om2.FromCBOR(extDM, out) }); p {
			r.Fail("header", fmt.Sprintf("FromCBOR panicked on a map of %d keys", n))
		} else if ferr != nil {
			r.Fail("header-readback", fmt.Sprintf("FromCBOR rejects ToCBOR's output for %d keys: %v", n, ferr))
		} else if !reflect.DeepEqual(om.Keys(), om2.Keys()) || om2.NumFields() != n {
			r.Fail("header-readback", fmt.Sprintf("%d keys: read back %d keys / %d fields", n, len(om2.Keys()), om2.NumFields()))
		}
	}
	for _, n := range []int{0, 23, 24, 255, 256} {
		synthRoundTrip(r, n)
	}
	if thorough {
		for _, n := range []int{65535, 65536, 70000} {
			synthRoundTrip(r, n)
		}
	}
	_ = cbor.RawMessage{}
	// (5) an embedded interface holding a struct by value: serialised like any embedded struct (its mandatory fields
	// included, also when every field is empty); populate cannot write to it: an error, never a panic
	{
		x, bs := int64(5), []byte{1, 2}
		for vi, src := range []*ShIfaceVal{{IExtV: ShValInner{}}, {P: &x, IExtV: ShValInner{J1: &bs}}, {IExtV: ShValInner{J1: &bs, J2: &x}, Q: &bs}, {P: &x}} {
			var frs []fieldRef
			walkFields(reflect.ValueOf(src).Elem(), &frs)
			var want, jwant []string
			for _, fr := range frs {
				if fr.v.IsNil() && fr.omit {
					continue
				}
				b, _ := extEM.Marshal(fr.v.Interface())
				want = append(want, nInt(int64(fr.key)).String()+"="+hx(b))
				jb, _ := json.Marshal(fr.v.Interface())
				jwant = append(jwant, fr.name+"="+string(jb))
			}
			r.ImplOnly("shape-iface-by-value", false, fmt.Sprintf("ser-iface-by-value %d", vi))
			var out, jout []byte
			var err, jerr error
			if p, what := safely(func() {
				out, err = encoding.SerializeStructToCBOR(extEM, src)
				jout, jerr = encoding.SerializeStructToJSON(src)
			}); p || err != nil || jerr != nil {
				r.Fail("serialize-fails", fmt.Sprintf("struct with an interface-held value: panic=%v (%v) err=%v/%v", p, what, err, jerr))
				continue
			}
			if n, rest, perr := parseNode(out, 0); perr != nil || len(rest) != 0 || n.Kind != kMap || fmtEntries(n) != strings.Join(want, ",") {
				r.Fail("union-in-order", fmt.Sprintf("interface-held value: CBOR %x, expected entries %s", out, strings.Join(want, ",")))
			}
			if jt, perr := parseJSONText(jout); perr != nil || jt.Kind != jObj {
				r.Fail("one-object", fmt.Sprintf("JSON output is not a single object: %s", jout))
			} else {
				jgot := make([]string, len(jt.Mem))
				for i, m := range jt.Mem {
					jgot[i] = m.Name + "=" + m.Val.Text()
				}
				if strings.Join(jgot, ",") != strings.Join(jwant, ",") {
					r.Fail("union-in-order-json", fmt.Sprintf("interface-held value: members %v, expected %v", jgot, jwant))
				}
			}
			for _, viaJSON := range []bool{false, true} {
				dst := &ShIfaceVal{IExtV: ShValInner{}}
				var perr error
				p, what := safely(func() {
					if viaJSON {
						perr = encoding.PopulateStructFromJSON(jout, dst)
					} else {
						perr = encoding.PopulateStructFromCBOR(extDM, out, dst)
					}
				})
				if p {
					r.Fail("populate-panics", fmt.Sprintf("populating a struct whose embedded interface holds a value panics (json=%v): %v", viaJSON, what))
				} else if perr == nil && src.IExtV != nil && !reflect.DeepEqual(src, dst) {
					r.Fail("roundtrip", "populate reports success but did not reproduce the value held by the interface")
				}
			}
		}
	}
	// (6) structs outside the convention are refused with an error, never a panic and never a malformed map: two fields
	// with one JSON name (CBOR unaffected), a CBOR key that is not an integer
	{
		x := int64(1)
		// (built with reflect.StructOf: a literal with a repeated JSON name does not pass go vet)
		pI := reflect.TypeOf((*int64)(nil))
		dupT := reflect.StructOf([]reflect.StructField{
			{Name: "A", Type: pI, Tag: `cbor:"1,keyasint" json:"a"`},
			{Name: "B", Type: pI, Tag: `cbor:"2,keyasint" json:"a"`},
		})
		mkDup := func() interface{} {
			v := reflect.New(dupT)
			v.Elem().Field(0).Set(reflect.ValueOf(&x))
			v.Elem().Field(1).Set(reflect.ValueOf(&x))
			return v.Interface()
		}
		type badKey struct {
			A *int64 `cbor:"abc,keyasint" json:"a"`
		}
		r.ImplOnly("shape-outside-convention", false, "ser-outside-convention")
		var err error
		if p, what := safely(func() { _, err = encoding.SerializeStructToJSON(mkDup()) }); p || err == nil {
			r.Fail("duplicate-key", fmt.Sprintf("two fields with the same JSON name: panic=%v (%v) err=%v (an error is expected)", p, what, err))
		}
		if p, what := safely(func() { _, err = encoding.SerializeStructToCBOR(extEM, mkDup()) }); p || err != nil {
			r.Fail("serialize-fails", fmt.Sprintf("distinct CBOR keys: panic=%v (%v) err=%v", p, what, err))
		}
		// the same faults one level down, in an embedded struct: still an error
		type innerDup struct {
			B *int64 `cbor:"1,keyasint" json:"b"`
		}
		type outerDup struct {
			A *int64 `cbor:"1,keyasint" json:"a"`
			innerDup
		}
		type innerBad struct {
			B *int64 `cbor:"xyz,keyasint" json:"a"`
		}
		type outerBad struct {
			A *int64 `cbor:"1,keyasint" json:"a"`
			innerBad
		}
		for name, f := range map[string]func() error{
			"embedded field re-declares CBOR key 1": func() error {
				_, e := encoding.SerializeStructToCBOR(extEM, &outerDup{A: &x, innerDup: innerDup{B: &x}})
				return e
			},
			"embedded field re-declares JSON name a": func() error {
				_, e := encoding.SerializeStructToJSON(&outerBad{A: &x, innerBad: innerBad{B: &x}})
				return e
			},
			"embedded field with a non-integer CBOR key": func() error {
				_, e := encoding.SerializeStructToCBOR(extEM, &outerBad{A: &x, innerBad: innerBad{B: &x}})
				return e
			},
			"populate into an embedded non-integer CBOR key": func() error { return encoding.PopulateStructFromCBOR(extDM, []byte{0xa1, 0x01, 0x02}, &outerBad{}) },
		} {
			if p, what := safely(func() { err = f() }); p || err == nil {
				r.Fail("duplicate-key", fmt.Sprintf("%s: panic=%v (%v) err=%v (an error is expected)", name, p, what, err))
			}
		}
		for _, f := range []func() error{
			func() error { _, e := encoding.SerializeStructToCBOR(extEM, &badKey{A: &x}); return e },
			func() error { return encoding.PopulateStructFromCBOR(extDM, []byte{0xa1, 0x01, 0x02}, &badKey{}) },
		} {
			if p, what := safely(func() { err = f() }); p || err == nil {
				r.Fail("serialize-fails", fmt.Sprintf("non-integer CBOR key in a tag: panic=%v (%v) err=%v (an error is expected)", p, what, err))
			}
		}
	}
	// (7) the ordered field map behind both codecs (reached through the hooks): keys come back in the order of the
	// input, Delete removes exactly the named key wherever it stands, and what is left serialises in the original order
	for rep := 0; rep < reps/3; rep++ {
		n := 1 + rng.Intn(12)
		keys := rng.Perm(40)[:n]
		m := nMap()
		var jmem []string
		for _, k := range keys {
			m.Pairs = append(m.Pairs, [2]*Node{nInt(int64(k - 10)), nUint(uint64(k))})
			jmem = append(jmem, fmt.Sprintf(`"k%d":%d`, k, k))
		}
		omc := encoding.VerifNewOrderedMapCBOR()
		omj := encoding.VerifNewOrderedMapJSON()
		r.ImplOnly("ordered-map/delete", false, fmt.Sprintf("omap-delete n=%d", n))
		if err := omc.FromCBOR(extDM, m.Bytes()); err != nil {
			r.Fail("populate-panics", fmt.Sprintf("FromCBOR of a plain map: %v", err))
			continue
		}
		if err := omj.FromJSON([]byte("{" + strings.Join(jmem, ",") + "}")); err != nil {
			r.Fail("populate-panics", fmt.Sprintf("FromJSON of a plain object: %v", err))
			continue
		}
		wantC := make([]int, n)
		wantJ := make([]string, n)
		for i, k := range keys {
			wantC[i], wantJ[i] = k-10, fmt.Sprintf("k%d", k)
		}
		cmp := func(stage string) {
			if fmt.Sprint(omc.Keys()) != fmt.Sprint(wantC) || omc.NumFields() != len(wantC) {
				r.Fail("stable-order", fmt.Sprintf("%s: CBOR field map keys %v (%d fields), expected %v", stage, omc.Keys(), omc.NumFields(), wantC))
			}
			if fmt.Sprint(omj.Keys()) != fmt.Sprint(wantJ) || omj.NumFields() != len(wantJ) {
				r.Fail("stable-order", fmt.Sprintf("%s: JSON field map keys %v (%d fields), expected %v", stage, omj.Keys(), omj.NumFields(), wantJ))
			}
		}
		cmp("after reading")
		for d := 0; d < 1+rng.Intn(4); d++ {
			var ki int
			if rng.Chance(80) && len(wantC) > 0 {
				ki = rng.Intn(len(wantC))
				omc.Delete(wantC[ki])
				omj.Delete(wantJ[ki])
				wantC = append(append([]int{}, wantC[:ki]...), wantC[ki+1:]...)
				wantJ = append(append([]string{}, wantJ[:ki]...), wantJ[ki+1:]...)
			} else {
				omc.Delete(1000 + d) // not there
				omj.Delete("absent")
			}
			cmp("after Delete")
		}
		out, err := omc.ToCBOR(extEM)
		if nd, rest, perr := parseNode(out, 0); err != nil || perr != nil || len(rest) != 0 || nd.Kind != kMap || len(nd.Pairs) != len(wantC) {
			r.Fail("one-map", fmt.Sprintf("after Delete the field map serialises to %x (%v)", out, err))
		} else {
			for i, p := range nd.Pairs {
				if k, ok := keyInt(p[0]); !ok || int(k) != wantC[i] {
					r.Fail("stable-order", fmt.Sprintf("after Delete entry %d has key %s, expected %d", i, p[0], wantC[i]))
				}
			}
		}
		jout, jerr := omj.ToJSON()
		if jt, perr := parseJSONText(jout); jerr != nil || perr != nil || jt.Kind != jObj || len(jt.Mem) != len(wantJ) {
			r.Fail("one-object", fmt.Sprintf("after Delete the field map serialises to %s (%v)", jout, jerr))
		} else {
			for i, mm := range jt.Mem {
				if mm.Name != wantJ[i] {
					r.Fail("stable-order", fmt.Sprintf("after Delete member %d is %q, expected %q", i, mm.Name, wantJ[i]))
				}
			}
		}
	}
	// (8) the token layer behind FromJSON: unmarshalKeys / skipValue alone, against the model of the two loops
	jtokCases(r, rng, reps, 300)
	// (9) tag options at the edge of the convention: both walks of a codec must read a tag the same way
	oddTagCases(r, rng, reps)
}

// hasNonUTF8Text: a text value that JSON cannot carry unchanged (encoding/json substitutes U+FFFD)
func hasNonUTF8Text(frs []fieldRef) bool {
	for _, fr := range frs {
		if fr.v.IsNil() {
			continue
		}
		if x, ok := fr.v.Elem().Interface().(string); ok && !utf8.ValidString(x) {
			return true
		}
	}
	return false
}

// synthRoundTrip: a synthetic flat struct type with n optional *int64 fields, all set.
func synthRoundTrip(r *Run, n int) {
	fields := make([]reflect.StructField, n)
	for i := range fields {
		fields[i] = reflect.StructField{Name: fmt.Sprintf("F%d", i), Type: reflect.TypeOf((*int64)(nil)),
			Tag: reflect.StructTag(fmt.Sprintf(`cbor:"%d,keyasint,omitempty" json:"f%d,omitempty"`, i+1, i))}
	}
	t := reflect.StructOf(fields)
	src := reflect.New(t)
	for i := 0; i < n; i++ {
		x := int64(i)
		src.Elem().Field(i).Set(reflect.ValueOf(&x))
	}
	out, err := encoding.SerializeStructToCBOR(extEM, src.Interface())
	res := "err"
	if err == nil {
		res = fmt.Sprintf("len=%d", len(out))
	}
	r.Case("synthetic-flat", false, fmt.Sprintf("synth %d", n), res)
	if err != nil {
		r.Fail("synthetic", fmt.Sprintf("serialize %d fields: %v", n, err))
		return
	}
	pn, rest, perr := parseNode(out, 0)
	if perr != nil || len(rest) != 0 || pn.Kind != kMap || len(pn.Pairs) != n {
		r.Fail("header", fmt.Sprintf("synthetic struct with %d keys: header does not announce the entries that follow", n))
		return
	}
	dst := reflect.New(t)
	var perr2 error
	if p, _ := safely(func() { perr2 = encoding.PopulateStructFromCBOR(extDM, out, dst.Interface()) }); p || perr2 != nil {
		r.Fail("roundtrip", fmt.Sprintf("synthetic struct with %d keys: populate panic=%v err=%v", n, p, perr2))
	} else if !reflect.DeepEqual(src.Interface(), dst.Interface()) {
		r.Fail("roundtrip", fmt.Sprintf("synthetic struct with %d keys: populate(serialize(v)) != v", n))
	}
	plain, _ := extEM.Marshal(src.Interface())
	pp, _, _ := parseNode(plain, 0)
	if pp == nil || sortedPairs(pp) != sortedPairs(pn) {
		r.Fail("matches-plain", fmt.Sprintf("synthetic struct with %d keys differs from the plain marshaller", n))
	}
}
