package main

// Independent CBOR trees and encoder (not the library's): what the C04 / C20
// generators assemble tokens and envelopes from.

import (
	"encoding/binary"
	"fmt"
	"strings"
)

const (
	kUint = iota
	kNint
	kBstr
	kTstr
	kArr
	kMap
	kTag
	kSimple
	kF16
	kF32
	kF64
)

type Node struct {
	Kind  int
	N     uint64 // uint value, nint argument (-1-N), tag number, simple value, float bits
	B     []byte
	Kids  []*Node    // array elements; tag content is Kids[0]
	Pairs [][2]*Node // map entries
	W     int        // forced head width in bytes (0 = shortest; 1,2,4,8)
	Indef bool       // indefinite-length string / array / map
}

func nUint(v uint64) *Node         { return &Node{Kind: kUint, N: v} }
func nNint(v uint64) *Node         { return &Node{Kind: kNint, N: v} }
func nBstr(b []byte) *Node         { return &Node{Kind: kBstr, B: b} }
func nTstr(s string) *Node         { return &Node{Kind: kTstr, B: []byte(s)} }
func nArr(k ...*Node) *Node        { return &Node{Kind: kArr, Kids: k} }
func nMap(p ...[2]*Node) *Node     { return &Node{Kind: kMap, Pairs: p} }
func nTag(t uint64, c *Node) *Node { return &Node{Kind: kTag, N: t, Kids: []*Node{c}} }
func nSimple(v uint64) *Node       { return &Node{Kind: kSimple, N: v} }
func nNull() *Node                 { return nSimple(22) }
func nUndef() *Node                { return nSimple(23) }
func nInt(i int64) *Node {
	if i >= 0 {
		return nUint(uint64(i))
	}
	return nNint(uint64(-1 - i))
}

func head(out []byte, mt byte, n uint64, w int) []byte {
	if w == 0 {
		switch {
		case n < 24:
			return append(out, mt<<5|byte(n))
		case n < 1<<8:
			w = 1
		case n < 1<<16:
			w = 2
		case n < 1<<32:
			w = 4
		default:
			w = 8
		}
	}
	switch w {
	case 1:
		return append(out, mt<<5|24, byte(n))
	case 2:
		out = append(out, mt<<5|25)
		return binary.BigEndian.AppendUint16(out, uint16(n))
	case 4:
		out = append(out, mt<<5|26)
		return binary.BigEndian.AppendUint32(out, uint32(n))
	default:
		out = append(out, mt<<5|27)
		return binary.BigEndian.AppendUint64(out, n)
	}
}

func (n *Node) enc(out []byte) []byte {
	switch n.Kind {
	case kUint:
		return head(out, 0, n.N, n.W)
	case kNint:
		return head(out, 1, n.N, n.W)
	case kBstr, kTstr:
		mt := byte(2)
		if n.Kind == kTstr {
			mt = 3
		}
		if n.Indef {
			out = append(out, mt<<5|31)
			// two chunks
			h := len(n.B) / 2
			out = head(out, mt, uint64(h), 0)
			out = append(out, n.B[:h]...)
			out = head(out, mt, uint64(len(n.B)-h), 0)
			out = append(out, n.B[h:]...)
			return append(out, 0xff)
		}
		out = head(out, mt, uint64(len(n.B)), n.W)
		return append(out, n.B...)
	case kArr:
		if n.Indef {
			out = append(out, 4<<5|31)
		} else {
			out = head(out, 4, uint64(len(n.Kids)), n.W)
		}
		for _, k := range n.Kids {
			out = k.enc(out)
		}
		if n.Indef {
			out = append(out, 0xff)
		}
		return out
	case kMap:
		if n.Indef {
			out = append(out, 5<<5|31)
		} else {
			out = head(out, 5, uint64(len(n.Pairs)), n.W)
		}
		for _, p := range n.Pairs {
			out = p[0].enc(out)
			out = p[1].enc(out)
		}
		if n.Indef {
			out = append(out, 0xff)
		}
		return out
	case kTag:
		out = head(out, 6, n.N, n.W)
		return n.Kids[0].enc(out)
	case kSimple:
		if n.N < 24 {
			return append(out, 7<<5|byte(n.N))
		}
		return append(out, 0xf8, byte(n.N))
	case kF16:
		out = append(out, 0xf9)
		return binary.BigEndian.AppendUint16(out, uint16(n.N))
	case kF32:
		out = append(out, 0xfa)
		return binary.BigEndian.AppendUint32(out, uint32(n.N))
	case kF64:
		out = append(out, 0xfb)
		return binary.BigEndian.AppendUint64(out, n.N)
	}
	panic("bad node")
}

func (n *Node) Bytes() []byte { return n.enc(nil) }

// String: diagnostic-ish rendering (for samples and replay files).
func (n *Node) String() string {
	switch n.Kind {
	case kUint:
		return fmt.Sprint(n.N)
	case kNint:
		if n.N < 1<<63 {
			return fmt.Sprint(-1 - int64(n.N))
		}
		return fmt.Sprintf("-1-%d", n.N)
	case kBstr:
		return "h'" + hx(n.B) + "'"
	case kTstr:
		return fmt.Sprintf("%q", string(n.B))
	case kArr:
		p := make([]string, len(n.Kids))
		for i, k := range n.Kids {
			p[i] = k.String()
		}
		return "[" + strings.Join(p, ", ") + "]"
	case kMap:
		p := make([]string, len(n.Pairs))
		for i, k := range n.Pairs {
			p[i] = k[0].String() + ": " + k[1].String()
		}
		return "{" + strings.Join(p, ", ") + "}"
	case kTag:
		return fmt.Sprintf("%d(%s)", n.N, n.Kids[0])
	case kSimple:
		switch n.N {
		case 20:
			return "false"
		case 21:
			return "true"
		case 22:
			return "null"
		case 23:
			return "undefined"
		}
		return fmt.Sprintf("simple(%d)", n.N)
	case kF16:
		return fmt.Sprintf("f16(%#x)", n.N)
	case kF32:
		return fmt.Sprintf("f32(%#x)", n.N)
	default:
		return fmt.Sprintf("f64(%#x)", n.N)
	}
}

func (n *Node) hasTag() bool {
	if n.Kind == kTag {
		return true
	}
	for _, k := range n.Kids {
		if k.hasTag() {
			return true
		}
	}
	for _, p := range n.Pairs {
		if p[0].hasTag() || p[1].hasTag() {
			return true
		}
	}
	return false
}

func (n *Node) hasIndef() bool {
	if n.Indef {
		return true
	}
	for _, k := range n.Kids {
		if k.hasIndef() {
			return true
		}
	}
	for _, p := range n.Pairs {
		if p[0].hasIndef() || p[1].hasIndef() {
			return true
		}
	}
	return false
}

// isIntKey: the node is the integer k
func (n *Node) isInt(k int64) bool {
	if k >= 0 {
		return n.Kind == kUint && n.N == uint64(k)
	}
	return n.Kind == kNint && n.N == uint64(-1-k)
}

func (n *Node) clone() *Node {
	c := *n
	c.B = append([]byte(nil), n.B...)
	c.Kids = nil
	for _, k := range n.Kids {
		c.Kids = append(c.Kids, k.clone())
	}
	c.Pairs = nil
	for _, p := range n.Pairs {
		c.Pairs = append(c.Pairs, [2]*Node{p[0].clone(), p[1].clone()})
	}
	return &c
}
