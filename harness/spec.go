package main

// Independent oracle for the claims layer, written from the property
// statements (C01, C13), not from the code: what each getter must report and
// whether a claims-set is conformant to its profile.

const (
	stOK = iota
	stMissingMandatory
	stMissingOptional
	stWrongSyntax
	stWrongProfile
	stUnclassified  // an error the properties do not assign a class to
	stPanicExpected // nil component entry: no verdict on class (C05's business)
)

var stMask = map[int]int{stMissingMandatory: 2, stMissingOptional: 1, stWrongSyntax: 16, stWrongProfile: 8, stUnclassified: 0}

func isHashLen(n int) bool { return n == 32 || n == 48 || n == 64 }

func allDigits(s string) bool {
	for i := 0; i < len(s); i++ {
		if s[i] < '0' || s[i] > '9' {
			return false
		}
	}
	return true
}
func isEAN13(s string) bool { return len(s) == 13 && allDigits(s) }
func isEAN13p5(s string) bool {
	return len(s) == 19 && allDigits(s[:13]) && s[13] == '-' && allDigits(s[14:])
}

func lcValid(v uint16) bool { return lcSpec(v) != 7 }

func compStatus(c CompDesc) int {
	if c.Nil {
		return stWrongSyntax // a nil entry (decoded from null) is malformed, not a crash
	}
	if c.MV == nil {
		return stMissingMandatory
	}
	if !isHashLen(len(*c.MV)) {
		return stWrongSyntax
	}
	if c.SID == nil {
		return stMissingMandatory
	}
	if !isHashLen(len(*c.SID)) {
		return stWrongSyntax
	}
	return stOK
}

// specGetter: the status getter g (index into getterNames) must report.
func specGetter(d *ClaimsDesc, g int) int {
	switch g {
	case 0: // profile
		if d.ProfInvalid {
			return stUnclassified
		}
		if d.Prof == nil {
			if d.P == 1 {
				return stOK
			}
			return stMissingMandatory
		}
		if *d.Prof != d.Canon {
			return stWrongProfile
		}
		return stOK
	case 1:
		if d.CID == nil {
			return stMissingMandatory
		}
		return stOK
	case 2:
		if d.LC == nil {
			return stMissingMandatory
		}
		if !lcValid(*d.LC) {
			return stWrongSyntax
		}
		return stOK
	case 3:
		if d.Impl == nil {
			return stMissingMandatory
		}
		if len(*d.Impl) != 32 {
			return stWrongSyntax
		}
		return stOK
	case 4:
		if d.Boot == nil {
			if d.P == 1 {
				return stMissingMandatory
			}
			return stMissingOptional
		}
		n := len(*d.Boot)
		if d.P == 1 && n != 32 || d.P == 2 && (n < 8 || n > 32) {
			return stWrongSyntax
		}
		return stOK
	case 5:
		if d.Cert == nil {
			return stMissingOptional
		}
		if isEAN13p5(*d.Cert) || d.P == 1 && isEAN13(*d.Cert) {
			return stOK
		}
		return stWrongSyntax
	case 6:
		n := 0
		if d.SwKind == SwList {
			n = len(d.Sw)
		}
		if n == 0 {
			if d.P == 1 && d.NoSw != nil {
				return stOK
			}
			return stMissingMandatory
		}
		if d.P == 1 && d.NoSw != nil {
			return stWrongSyntax
		}
		for _, c := range d.Sw {
			if s := compStatus(c); s != stOK {
				return s
			}
		}
		return stOK
	case 7:
		if d.Nonce == nil {
			return stMissingMandatory
		}
		if len(*d.Nonce) != 1 || !isHashLen(len((*d.Nonce)[0])) {
			return stWrongSyntax
		}
		return stOK
	case 8:
		if d.Inst == nil {
			return stMissingMandatory
		}
		if len(*d.Inst) != 33 || (*d.Inst)[0] != 1 {
			return stWrongSyntax
		}
		return stOK
	case 9:
		if d.VSI == nil {
			return stMissingOptional
		}
		if *d.VSI == "" {
			return stWrongSyntax
		}
		return stOK
	}
	return stUnclassified
}

// conformant: every mandatory claim present and every present claim well-formed.
func conformant(d *ClaimsDesc) bool {
	for g := 0; g < 10; g++ {
		s := specGetter(d, g)
		if s != stOK && s != stMissingOptional {
			return false
		}
	}
	return true
}

func hasNilComp(d *ClaimsDesc) bool {
	if d.SwKind != SwList {
		return false
	}
	for _, c := range d.Sw {
		if c.Nil {
			return true
		}
	}
	return false
}
